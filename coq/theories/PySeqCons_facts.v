(* PySeqCons_facts.v -- lemmas about the combinators and the literal loops of PySeqCons.v:
   loops whose body may raise are folds; index / item / coo_array combinators succeed on the values the
   builders produce; the folds of the literal steps assemble exactly the hand model's entry lists
   (Seq.R_entries, Seq.row_entries / row_rhs, Seq.c_entries / q_entries). *)
From Coq Require Import ZifyBool.
From VQ Require Import Base LinAlg Vrptw Seq Seq_facts PyEnumCore PySeq PySeq_facts PySeqCons.

(* ---------- loops ---------- *)
Lemma py_forE_foldE_lift {A S T} (lift : T -> S) (body : A -> S -> result (ctl * S)) (f : T -> A -> result T) l :
  (forall e t, In e l ->
     body e (lift t) = match f t e with Ok t' => Ok (CNext, lift t') | Err x => Err x end) ->
  forall t, py_forE body l (lift t) = match foldE f l t with Ok t' => Ok (lift t') | Err x => Err x end.
Proof.
  induction l as [|e l IH]; intros H t; simpl; [reflexivity|].
  rewrite H by (left; reflexivity). destruct (f t e) as [t'|x]; [|reflexivity].
  apply IH. intros; apply H; right; assumption.
Qed.

Lemma py_forE_fold_inv {A S T} (P : T -> Prop) (lift : T -> S) (body : A -> S -> result (ctl * S)) (f : T -> A -> T) l :
  (forall e t, In e l -> P t -> body e (lift t) = Ok (CNext, lift (f t e)) /\ P (f t e)) ->
  forall t, P t -> py_forE body l (lift t) = Ok (lift (fold_left f l t)) /\ P (fold_left f l t).
Proof.
  induction l as [|e l IH]; intros H t Ht; simpl; [auto|].
  destruct (H e t (or_introl eq_refl) Ht) as [E1 E2]. rewrite E1.
  apply IH; auto. intros; apply H; auto. right; assumption.
Qed.

Lemma py_forE_map {A B S} (g : A -> B) (body : B -> S -> result (ctl * S)) l st :
  py_forE body (map g l) st = py_forE (fun a => body (g a)) l st.
Proof.
  revert st; induction l as [|a l IH]; intros st; simpl; [reflexivity|].
  destruct (body (g a) st) as [[[|] st']|x]; auto.
Qed.

Lemma foldE_app {A T} (f : T -> A -> result T) l1 l2 t :
  foldE f (l1 ++ l2) t = match foldE f l1 t with Ok t' => foldE f l2 t' | Err x => Err x end.
Proof.
  revert t; induction l1 as [|a l1 IH]; intros t; simpl; [reflexivity|].
  destruct (f t a); auto.
Qed.

Lemma foldE_flat_map {A B T} (f : T -> B -> result T) (g : A -> list B) l t :
  foldE f (flat_map g l) t = foldE (fun t a => foldE f (g a) t) l t.
Proof.
  revert t; induction l as [|a l IH]; intros t; simpl; [reflexivity|].
  rewrite foldE_app. destruct (foldE f (g a) t); auto.
Qed.

Lemma foldE_map {A B T} (f : T -> B -> result T) (g : A -> B) l t :
  foldE f (map g l) t = foldE (fun t a => f t (g a)) l t.
Proof.
  revert t; induction l as [|a l IH]; intros t; simpl; [reflexivity|].
  destruct (f t (g a)); auto.
Qed.

Lemma foldE_ext {A T} (f g : T -> A -> result T) l t :
  (forall a t', In a l -> f t' a = g t' a) -> foldE f l t = foldE g l t.
Proof.
  revert t; induction l as [|a l IH]; intros t H; simpl; [reflexivity|].
  rewrite H by (left; reflexivity). destruct (g t a); auto. apply IH. intros; apply H; right; assumption.
Qed.

(* ---------- object ---------- *)
Lemma cset_q_id s : cset_q (c_q s) s = s.
Proof. destruct s; reflexivity. Qed.

(* ---------- ranges ---------- *)
Lemma py_range_z_pred L : py_range_z (Z.of_nat L - 1) = seq 0 (L - 1).
Proof. unfold py_range_z. f_equal. lia. Qed.
Lemma py_range2_z_pred L : py_range2_z 1 (Z.of_nat L - 1) = seq 1 (L - 2).
Proof. unfold py_range2_z. f_equal. lia. Qed.
Lemma py_range2_1 N : py_range2 1 N = seq 1 (N - 1).
Proof. reflexivity. Qed.

(* ---------- items ---------- *)
Lemma list_update_length {A} (l : list A) k v : length (list_update l k v) = length l.
Proof. revert k; induction l as [|a l IH]; intros [|k]; simpl; auto. Qed.

Lemma list_update_last {A} (l : list A) x y : list_update (l ++ [x]) (length l) y = l ++ [y].
Proof. induction l as [|a l IH]; simpl; [reflexivity|]. rewrite IH. reflexivity. Qed.

Lemma nth_list_update (l : list Z) j v k :
  nth k (list_update l j v) 0 = if Nat.eqb k j && Nat.ltb j (length l) then v else nth k l 0.
Proof.
  revert j k; induction l as [|a l IH]; intros [|j] [|k]; simpl; rewrite ?andb_false_r; auto.
  rewrite IH. reflexivity.
Qed.

Lemma resolve_last len : py_resolve_index (S len) (-1) = Ok len.
Proof.
  unfold py_resolve_index.
  assert (E1 : ((0 <=? -1) && (-1 <? Z.of_nat (S len)))%Z = false) by lia.
  assert (E2 : ((-1 <? 0) && (- Z.of_nat (S len) <=? -1))%Z = true) by lia.
  rewrite E1, E2. f_equal. lia.
Qed.

Lemma getitem_last (l : list Z) x : py_list_getitem_z (l ++ [x]) (-1) = Ok x.
Proof.
  unfold py_list_getitem_z. rewrite app_length, Nat.add_1_r, resolve_last. cbn [py_bind].
  unfold py_list_item. rewrite nth_error_app2 by lia. rewrite Nat.sub_diag. reflexivity.
Qed.

Lemma setitem_last (l : list Z) x y : py_list_setitem_z (l ++ [x]) (-1) y = Ok (l ++ [y]).
Proof.
  unfold py_list_setitem_z. rewrite app_length, Nat.add_1_r, resolve_last. cbn [py_bind].
  rewrite list_update_last. reflexivity.
Qed.

Lemma resolve_nat len k : (k < len)%nat -> py_resolve_index len (Z.of_nat k) = Ok k.
Proof.
  intros H. unfold py_resolve_index.
  assert (E1 : ((0 <=? Z.of_nat k) && (Z.of_nat k <? Z.of_nat len))%Z = true) by lia.
  rewrite E1. f_equal. lia.
Qed.

Lemma vec_augitem_add c k x : (k < length c)%nat ->
  np_vec_augitem (fun a b => a + b) c (idx k) x = Ok (vec_add c k x).
Proof. intros H. unfold np_vec_augitem, idx. rewrite resolve_nat by assumption. reflexivity. Qed.

Lemma vec_add_length c k x : length (vec_add c k x) = length c.
Proof. apply list_update_length. Qed.

Lemma list_item_nth (l : list Z) k : (k < length l)%nat -> py_list_item l k = Ok (nth k l 0).
Proof.
  intros H. unfold py_list_item. rewrite (nth_error_nth' l 0 H). reflexivity.
Qed.

Lemma dict_get_nodup {U} (d : dict U) k a : NoDup (map fst d) -> In (k, a) d -> dict_get k d = Some a.
Proof.
  induction d as [|[k' a'] d IH]; simpl; [tauto|]. intros Hnd [E|Hin].
  - inversion E; subst. rewrite natpair_eqb_refl. reflexivity.
  - inversion Hnd as [|? ? Hnin Hnd']; subst. destruct (natpair_eqb k k') eqn:E.
    + apply natpair_eqb_eq in E. subst. exfalso. apply Hnin. apply in_map_iff. exists (k', a). auto.
    + auto.
Qed.

(* ---------- coo_array ---------- *)
Lemma coo_indices_idx dim (l : list nat) :
  (forall k, In k l -> (k < dim)%nat) -> coo_indices dim (map idx l) = Ok l.
Proof.
  induction l as [|k l IH]; intros H; simpl; [reflexivity|].
  assert (E : ((Z.of_nat k <? 0) || (Z.of_nat dim <=? Z.of_nat k))%Z = false).
  { pose proof (H k (or_introl eq_refl)). lia. }
  rewrite E, IH by (intros; apply H; right; assumption). cbn [py_bind]. rewrite Nat2Z.id. reflexivity.
Qed.

Lemma combine_proj3 (E : list (nat * nat * Z)) :
  combine (combine (map (fun e => fst (fst e)) E) (map (fun e => snd (fst e)) E)) (map snd E) = E.
Proof. induction E as [|[[i j] z] E IH]; simpl; [reflexivity|]. rewrite IH. reflexivity. Qed.

(* the triples handed to coo_array, given as the three projections of one list *)
Lemma sp_coo_array_entries (E : list (nat * nat * Z)) m n :
  (forall e, In e E -> (fst (fst e) < m)%nat /\ (snd (fst e) < n)%nat) ->
  sp_coo_array (map snd E) (map (fun e => idx (fst (fst e))) E) (map (fun e => idx (snd (fst e))) E) (m, n) =
  Ok (mkMat2 (m, n) E).
Proof.
  intros H. unfold sp_coo_array. rewrite !map_length, !Nat.eqb_refl. cbn [andb negb fst snd].
  rewrite <- (map_map (fun e => fst (fst e)) idx), <- (map_map (fun e => snd (fst e)) idx).
  rewrite !coo_indices_idx.
  - cbn [py_bind]. rewrite combine_proj3. reflexivity.
  - intros k Hk. apply in_map_iff in Hk. destruct Hk as (e & <- & He). apply (H e He).
  - intros k Hk. apply in_map_iff in Hk. destruct Hk as (e & <- & He). apply (H e He).
Qed.

(* ---------- fixed_values / vehicle_cost / arcs lookups never raise where the builders use them ---------- *)
Lemma fixed_getitem I v s n :
  (v < iV I)%nat -> (s < iL I)%nat -> (n < iN I)%nat -> var_index I (v, s, n) = None ->
  py_tdict_getitem (fixed_items I) (v, s, n) = Ok (fixed_val I (v, s, n)).
Proof.
  intros Hv Hs Hn E. destruct (fixed_or_free I v s n Hv Hs Hn) as [(k & E' & _)|(z & _ & Ef)]; [congruence|].
  unfold py_tdict_getitem, fixed_val. unfold fixed in Ef |- *. rewrite Ef. reflexivity.
Qed.

Lemma vcost_item I v : cons_wf I -> (v < iV I)%nat -> py_list_item (ivc I) v = Ok (vcost I v).
Proof. intros (_ & _ & H) Hv. apply list_item_nth. lia. Qed.

Lemma arcs_item I k a : cons_wf I -> In (k, a) (arcs (ig I)) -> py_dict_getitem (arcs (ig I)) k = Ok a.
Proof. intros (H & _) Hin. unfold py_dict_getitem. rewrite (dict_get_nodup _ _ _ H Hin). reflexivity. Qed.

(* ---------- quadratic constraints ---------- *)
Lemma foldE_q_step I calls : forall e,
  foldE (q_step I) calls e =
  match collect (map (qlogic I) calls) with
  | Ok ps => Ok (fst e ++ map (fun p => idx (fst p)) ps, snd e ++ map (fun p => idx (snd p)) ps)
  | Err x => Err x
  end.
Proof.
  induction calls as [|c calls IH]; intros [r cc]; simpl.
  - rewrite !app_nil_r. reflexivity.
  - unfold q_step at 1. destruct (qlogic I c) as [xs|x]; [|reflexivity].
    rewrite IH. destruct (collect (map (qlogic I) calls)) as [ys|x]; [|reflexivity].
    cbn [fst snd]. rewrite !map_app, !app_assoc. reflexivity.
Qed.

Lemma Rcalls_split I :
  Rcalls I = flat_map (forb_calls_n I) (py_product (seq 0 (iN I)) (seq 0 (iN I))) ++
             flat_map (abs_calls_v I) (seq 0 (iV I)).
Proof. reflexivity. Qed.

Lemma R_entries_lt I E p : R_entries I = Ok E -> In p E ->
  (fst p < num_variables I)%nat /\ (snd p < num_variables I)%nat.
Proof.
  intros H Hp. unfold R_entries in H. apply collect_Ok in H. destruct H as [-> Hall].
  apply in_flat_map in Hp. destruct Hp as (r & Hr & Hp). apply in_map_iff in Hr. destruct Hr as (c & <- & Hc).
  destruct (qlogic I c) as [xs|x] eqn:Eq; [|destruct Hp]. rewrite <- nv_num. eapply qlogic_lt; eauto.
Qed.

Lemma R_coo I E : R_entries I = Ok E ->
  sp_coo_array (np_ones1 (length (map (fun p => idx (fst p)) E)))
               (map (fun p => idx (fst p)) E) (map (fun p => idx (snd p)) E) (num_variables I, num_variables I) =
  Ok (R_mat I E).
Proof.
  intros H. unfold R_mat.
  rewrite <- (sp_coo_array_entries (map (fun p => (p, 1)) E)).
  - rewrite !map_map, map_length. cbn [fst snd]. f_equal.
    unfold np_ones1. clear H. induction E as [|p E IH]; simpl; [reflexivity|]. rewrite IH. reflexivity.
  - intros e He. apply in_map_iff in He. destruct He as (p & <- & Hp). cbn [fst snd].
    eapply R_entries_lt; eauto.
Qed.

(* ---------- linear constraints ---------- *)
Lemma named_rows_rows I : map snd (named_rows I) = rows I.
Proof.
  unfold named_rows, rows. rewrite map_app, map_map. f_equal.
  rewrite map_flat_map. apply flat_map_ext. intros si. rewrite map_map. reflexivity.
Qed.

Lemma lin_fold_row I r ts : forall done cur arow acol aval,
  fold_left (lin_step I r) ts (done, cur, arow, acol, aval) =
  (done,
   cur - lsum ts (fun t => match var_index I t with Some _ => 0 | None => fixed_val I t end),
   arow ++ map (fun _ => r) (row_entries I ts),
   acol ++ map (fun e => idx (fst e)) (row_entries I ts),
   aval ++ map snd (row_entries I ts)).
Proof.
  induction ts as [|t ts IH]; intros done cur arow acol aval; cbn [fold_left].
  - rewrite lsum_nil. unfold row_entries. cbn [flat_map map]. rewrite !app_nil_r. repeat f_equal. lia.
  - rewrite lsum_cons.
    replace (row_entries I (t :: ts))
      with ((match var_index I t with Some k => [(k, 1)] | None => [] end) ++ row_entries I ts) by reflexivity.
    cbn [lin_step]. destruct (var_index I t) as [k|]; rewrite IH.
    + cbn [app map fst snd]. rewrite <- !app_assoc. cbn [app]. rewrite Z.add_0_l. reflexivity.
    + cbn [app]. rewrite Z.sub_add_distr. reflexivity.
Qed.

Lemma lin_fold_rows I nrs : forall nms brhs arow acol aval r,
  fold_left (lin_row_step I) nrs (nms, brhs, arow, acol, aval, r) =
  (nms ++ map fst nrs,
   brhs ++ map (row_rhs I) (map snd nrs),
   arow ++ map (fun e => fst (fst e)) (A_entries_from I r (map snd nrs)),
   acol ++ map (fun e => idx (snd (fst e))) (A_entries_from I r (map snd nrs)),
   aval ++ map snd (A_entries_from I r (map snd nrs)),
   (r + length nrs)%nat).
Proof.
  induction nrs as [|[nm ts] nrs IH]; intros nms brhs arow acol aval r; simpl.
  - rewrite !app_nil_r, Nat.add_0_r. reflexivity.
  - rewrite lin_fold_row, IH. unfold row_rhs. cbn [fst snd].
    rewrite !map_app, !map_map. cbn [fst snd]. rewrite <- !app_assoc. cbn [app].
    rewrite Nat.add_succ_r. reflexivity.
Qed.

Lemma A_entries_from_lt I r0 rs e : In e (A_entries_from I r0 rs) ->
  (r0 <= fst (fst e) < r0 + length rs)%nat /\ (snd (fst e) < num_variables I)%nat.
Proof.
  revert r0; induction rs as [|ts rs IH]; intros r0; simpl; [tauto|].
  rewrite in_app_iff. intros [H|H].
  - apply in_map_iff in H. destruct H as (e' & <- & He'). cbn [fst snd]. split; [lia|].
    unfold row_entries in He'. apply in_flat_map in He'. destruct He' as (t & _ & He').
    destruct (var_index I t) as [k|] eqn:E; [|destruct He']. destruct He' as [<-|[]]. cbn [fst].
    rewrite <- nv_num. eapply var_index_lt; eauto.
  - destruct (IH _ H). split; [lia|assumption].
Qed.

Lemma dense2_app E1 E2 i j : dense2 (E1 ++ E2) i j = dense2 E1 i j + dense2 E2 i j.
Proof. unfold dense2. apply lsum_app. Qed.

Lemma dense2_A_from I rs : forall r0 r k,
  dense2 (A_entries_from I r0 rs) r k =
  if Nat.leb r0 r then dense1 (row_entries I (nth (r - r0) rs [])) k else 0.
Proof.
  induction rs as [|ts rs IH]; intros r0 r k; simpl A_entries_from.
  - destruct (r - r0)%nat; destruct (Nat.leb r0 r); reflexivity.
  - rewrite dense2_app, IH.
    assert (E1 : dense2 (map (fun e => (r0, fst e, snd e)) (row_entries I ts)) r k =
                 if Nat.eqb r0 r then dense1 (row_entries I ts) k else 0).
    { unfold dense2, dense1. rewrite lsum_map. cbn [fst snd].
      destruct (Nat.eqb r0 r) eqn:E; [reflexivity|]. apply lsum_zero. intros; reflexivity. }
    rewrite E1. destruct (Nat.eqb r0 r) eqn:E.
    + apply Nat.eqb_eq in E. subst r0. rewrite Nat.sub_diag, Nat.leb_refl.
      assert (E2 : Nat.leb (S r) r = false) by (apply Nat.leb_gt; lia). rewrite E2. cbn [nth]. lia.
    + apply Nat.eqb_neq in E. destruct (Nat.leb r0 r) eqn:El.
      * apply Nat.leb_le in El. assert (E2 : Nat.leb (S r0) r = true) by (apply Nat.leb_le; lia).
        rewrite E2. replace (r - r0)%nat with (S (r - S r0)) by lia. cbn [nth]. lia.
      * apply Nat.leb_gt in El. assert (E2 : Nat.leb (S r0) r = false) by (apply Nat.leb_gt; lia).
        rewrite E2. lia.
Qed.

Lemma A_mat_dense I r k : mat_dense (A_mat I) r k = Amat I r k.
Proof.
  unfold mat_dense, A_mat, A_entries, Amat. cbn [m_entries]. rewrite dense2_A_from.
  cbn [Nat.leb]. rewrite Nat.sub_0_r. reflexivity.
Qed.

Lemma b_list_nth I r : nth r (b_list I) 0 = if Nat.ltb r (num_rows I) then bvec I r else 0.
Proof.
  unfold b_list, bvec, num_rows. destruct (Nat.ltb r (length (rows I))) eqn:E.
  - apply Nat.ltb_lt in E. rewrite (nth_indep _ 0 (row_rhs I []) ) by (rewrite map_length; exact E).
    apply map_nth.
  - apply Nat.ltb_ge in E. apply nth_overflow. rewrite map_length. exact E.
Qed.

Lemma A_coo I :
  sp_coo_array (map snd (A_entries I))
               (map py_idx_nat (map (fun e => fst (fst e)) (A_entries I)))
               (map (fun e => idx (snd (fst e))) (A_entries I))
               (length (b_list I), num_variables I) = Ok (A_mat I).
Proof.
  rewrite map_map. unfold A_mat, b_list, num_rows. rewrite map_length.
  apply sp_coo_array_entries. intros e He. unfold A_entries in He. apply A_entries_from_lt in He. lia.
Qed.

(* ---------- objective ---------- *)
Definition c_of (I : inst) (c : nat * nat * ((nat * nat) * arc)) : list (nat * Z) :=
  match c with
  | (v, s, ((ni, nj), a)) =>
      match var_index I (v, s, ni), var_index I (v, S s, nj) with
      | None, Some k2 => [(k2, obj_coeff I c * fixed_val I (v, s, ni))]
      | Some k1, None => [(k1, obj_coeff I c * fixed_val I (v, S s, nj))]
      | _, _ => []
      end
  end.
Definition q_of (I : inst) (c : nat * nat * ((nat * nat) * arc)) : list (nat * nat * Z) :=
  match c with
  | (v, s, ((ni, nj), a)) =>
      match var_index I (v, s, ni), var_index I (v, S s, nj) with
      | Some k1, Some k2 => [(k1, k2, obj_coeff I c)]
      | _, _ => []
      end
  end.
Lemma c_entries_flat I : c_entries I = flat_map (c_of I) (obj_calls I).
Proof. reflexivity. Qed.
Lemma q_entries_flat I : q_entries I = flat_map (q_of I) (obj_calls I).
Proof. reflexivity. Qed.

Definition vadd (cv : list Z) (e : nat * Z) : list Z := vec_add cv (fst e) (snd e).

Lemma obj_fold I cl : forall cv vi qr qc qv, exists vi',
  fold_left (obj_step I) cl (cv, vi, qr, qc, qv) =
  (fold_left vadd (flat_map (c_of I) cl) cv, vi',
   qr ++ map (fun e => idx (fst (fst e))) (flat_map (q_of I) cl),
   qc ++ map (fun e => idx (snd (fst e))) (flat_map (q_of I) cl),
   qv ++ map snd (flat_map (q_of I) cl)).
Proof.
  induction cl as [|c cl IH]; intros cv vi qr qc qv.
  - exists vi. cbn [fold_left flat_map map]. rewrite !app_nil_r. reflexivity.
  - destruct c as [[v s] [[ni nj] a]]. cbn [fold_left flat_map]. unfold obj_step at 2, c_of at 1, q_of at 1 3 5.
    destruct (var_index I (v, s, ni)) as [k1|]; destruct (var_index I (v, S s, nj)) as [k2|];
      cbn [app]; match goal with |- context [fold_left (obj_step I) cl (?a, ?b, ?c', ?d, ?e)] =>
                   destruct (IH a b c' d e) as [vi' ->] end; exists vi';
      cbn [map fst snd fold_left vadd]; rewrite <- ?app_assoc; reflexivity.
Qed.

Lemma vadd_fold_length E : forall c, length (fold_left vadd E c) = length c.
Proof. induction E as [|e E IH]; intros c; simpl; [reflexivity|]. rewrite IH. apply vec_add_length. Qed.

Lemma vadd_fold_nth E : forall c k, (forall e, In e E -> (fst e < length c)%nat) ->
  nth k (fold_left vadd E c) 0 = nth k c 0 + dense1 E k.
Proof.
  induction E as [|e E IH]; intros c k H; cbn [fold_left].
  - unfold dense1. rewrite lsum_nil. lia.
  - rewrite IH.
    + unfold dense1. rewrite lsum_cons. fold (dense1 E k). unfold vadd, vec_add. rewrite nth_list_update.
      pose proof (H e (or_introl eq_refl)) as He. apply Nat.ltb_lt in He. rewrite He, andb_true_r.
      rewrite (Nat.eqb_sym k). destruct (Nat.eqb (fst e) k) eqn:E1; [apply Nat.eqb_eq in E1; subst|]; lia.
    + intros e' He'. unfold vadd. rewrite vec_add_length. apply H. right; assumption.
Qed.

Lemma c_entries_lt I e : In e (c_entries I) -> (fst e < num_variables I)%nat.
Proof.
  intros He. unfold c_entries in He. apply in_flat_map in He.
  destruct He as ([[v s] [[ni nj] a]] & _ & He). rewrite <- nv_num.
  destruct (var_index I (v, s, ni)) as [k1|] eqn:E1; destruct (var_index I (v, S s, nj)) as [k2|] eqn:E2;
    cbn [In] in He; try contradiction; destruct He as [<-|[]]; cbn [fst snd]; eapply var_index_lt; eauto.
Qed.

Lemma q_entries_lt I e : In e (q_entries I) ->
  (fst (fst e) < num_variables I)%nat /\ (snd (fst e) < num_variables I)%nat.
Proof.
  intros He. unfold q_entries in He. apply in_flat_map in He.
  destruct He as ([[v s] [[ni nj] a]] & _ & He). rewrite <- nv_num.
  destruct (var_index I (v, s, ni)) as [k1|] eqn:E1; destruct (var_index I (v, S s, nj)) as [k2|] eqn:E2;
    cbn [In] in He; try contradiction. destruct He as [<-|[]]. cbn [fst snd]. split; eapply var_index_lt; eauto.
Qed.

Lemma obj_cvec_length I : length (obj_cvec I) = num_variables I.
Proof. unfold obj_cvec. change (fun cv e => vec_add cv (fst e) (snd e)) with vadd. rewrite vadd_fold_length. apply repeat_length. Qed.

Lemma obj_cvec_nth I k : nth k (obj_cvec I) 0 = cvec I k.
Proof.
  unfold obj_cvec, cvec. change (fun cv e => vec_add cv (fst e) (snd e)) with vadd.
  rewrite vadd_fold_nth.
  - rewrite nth_repeat. lia.
  - intros e He. rewrite repeat_length. apply c_entries_lt. exact He.
Qed.

Lemma Q_coo I :
  sp_coo_array (map snd (q_entries I)) (map (fun e => idx (fst (fst e))) (q_entries I))
               (map (fun e => idx (snd (fst e))) (q_entries I)) (num_variables I, num_variables I) = Ok (Q_mat I).
Proof. apply sp_coo_array_entries. intros e He. apply q_entries_lt. exact He. Qed.

Lemma Q_mat_dense I i j : mat_dense (Q_mat I) i j = Qo I i j.
Proof. reflexivity. Qed.

Lemma R_mat_dense I E i j : mat_dense (R_mat I E) i j = Rmat E i j.
Proof. reflexivity. Qed.

(* ---------- matrices that agree entry-wise give the same products ---------- *)
Lemma zmv_ext n (M1 M2 : nat -> nat -> Z) x r : (forall k, M1 r k = M2 r k) -> zmv n M1 x r = zmv n M2 x r.
Proof. intros H. rewrite !zmv_lsum. apply lsum_ext. intros k _. rewrite H. reflexivity. Qed.

Lemma zdot_ext n (u1 u2 : nat -> Z) x : (forall k, u1 k = u2 k) -> zdot n u1 x = zdot n u2 x.
Proof. intros H. rewrite !zdot_lsum. apply lsum_ext. intros k _. rewrite H. reflexivity. Qed.

Lemma zqf_ext n (M1 M2 : nat -> nat -> Z) x : (forall i j, M1 i j = M2 i j) -> zqf n M1 x = zqf n M2 x.
Proof.
  intros H. rewrite !zqf_lsum. apply lsum_ext. intros i _. apply lsum_ext. intros j _. rewrite H. reflexivity.
Qed.

(* ---------- more about folds ---------- *)
Lemma py_forE_fold_lift {A S T} (lift : T -> S) (body : A -> S -> result (ctl * S)) (f : T -> A -> T) l :
  (forall e t, In e l -> body e (lift t) = Ok (CNext, lift (f t e))) ->
  forall t, py_forE body l (lift t) = Ok (lift (fold_left f l t)).
Proof.
  induction l as [|e l IH]; intros H t; simpl; [reflexivity|].
  rewrite H by (left; reflexivity). apply IH. intros; apply H; right; assumption.
Qed.

Lemma fold_left_flat_map' {A B T} (f : T -> B -> T) (g : A -> list B) l : forall t,
  fold_left f (flat_map g l) t = fold_left (fun t a => fold_left f (g a) t) l t.
Proof. induction l as [|a l IH]; intros t; simpl; [reflexivity|]. rewrite fold_left_app. apply IH. Qed.

Lemma fold_left_map' {A B T} (f : T -> B -> T) (g : A -> B) l : forall t,
  fold_left f (map g l) t = fold_left (fun t a => f t (g a)) l t.
Proof. induction l as [|a l IH]; intros t; simpl; [reflexivity|]. apply IH. Qed.

(* ---------- the enumeration half after enumerate_variables() ---------- *)
Lemma enum_q_facts q : seq_coherent q ->
  seq_coherent (enum_q q) /\ seq_inst (enum_q q) = seq_inst q /\ q_variables_enumerated (enum_q q) = true.
Proof.
  intros Hc. unfold enum_q. destruct (q_variables_enumerated q) eqn:E.
  - split; [exact Hc|]. split; [reflexivity | exact E].
  - split; [|split; reflexivity]. intros _. repeat split; reflexivity.
Qed.

Lemma b_list_length I : length (b_list I) = num_rows I.
Proof. unfold b_list, num_rows. apply map_length. Qed.

Lemma coherent_intro self' I :
  seq_coherent (c_q self') -> seq_inst (c_q self') = I ->
  (c_objective_built self' = true -> c_objective_c self' = obj_cvec I /\ c_objective_q self' = Q_mat I) ->
  (c_lin_con_built self' = true ->
     c_linear_constraints_matrix self' = A_mat I /\ c_linear_constraints_rhs self' = b_list I) ->
  (c_quad_con_built self' = true ->
     exists E, R_entries I = Ok E /\ c_quadratic_constraints_matrix self' = R_mat I E) ->
  cons_coherent self'.
Proof. intros H1 <- H3 H4 H5. exact (conj H1 (conj H3 (conj H4 H5))). Qed.
