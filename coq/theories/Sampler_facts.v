(* Sampler_facts.v -- lemmas about the sampler model (Sampler.v).
   Generic over a commutative ring K with Leibniz equality; the division kdiv is an
   arbitrary total function: nothing is assumed about it. *)
From Coq Require Import List Arith Bool Lia Ring.
From Coq Require Export Ring_theory.
From VQ Require Import Base Sampler.
Import ListNotations.

(* ---------- the state monad ---------- *)
Lemma bind_ext {A B} (x x' : M A) (f f' : A -> M B) st :
  (forall s, x s = x' s) -> (forall a s, f a s = f' a s) -> bind x f st = bind x' f' st.
Proof. intros Hx Hf. unfold bind. rewrite Hx. destruct (x' st) as [a s1]. apply Hf. Qed.

Lemma occ_app i st st' : occ i (st ++ st') = (occ i st + occ i st')%nat.
Proof.
  induction st as [|[j z] st IH]; simpl; auto.
  destruct (Nat.eqb i j); simpl; rewrite IH; reflexivity.
Qed.

Section Facts.
  Variables (K : Type) (k0 k1 : K) (kadd kmul ksub kdiv : K -> K -> K) (kopp : K -> K).
  Hypothesis Kring : ring_theory k0 k1 kadd kmul ksub kopp (@eq K).
  Add Ring Kr : Kring.
  Variable d : nat -> nat -> nat -> list K.

  Notation sampler := (sampler K).
  Notation operand := (operand K).
  Notation aexp := (aexp K).
  Notation hand := (hand_table kopp).
  Notation Rvs := (rvs k1 kadd kmul kdiv kopp d).
  Notation Spec := (spec kadd kmul ksub kdiv kopp d).
  Notation Cop := (compile_op kadd kmul ksub kdiv kopp).
  Notation Compile := (compile kadd kmul ksub kdiv kopp).
  Notation CompileWith := (compile_with kadd kmul ksub kdiv kopp).
  Notation Aeval := (aeval k0 kadd kmul ksub kdiv kopp).
  Notation Sample := (sample k1 kadd kmul kdiv kopp d).
  Notation tagged m ls := (map (fun i : nat => (i, m)) ls).

  (* ---------- arrays ---------- *)
  Lemma map_repeat' {A B} (f : A -> B) x n : map f (repeat x n) = repeat (f x) n.
  Proof. induction n as [|n IH]; simpl; [|rewrite IH]; reflexivity. Qed.

  Lemma vscale_ones c m : vscale kmul c (np_ones k1 m) = repeat c m.
  Proof.
    unfold vscale, np_ones. rewrite map_repeat'. f_equal. ring.
  Qed.

  Lemma zipw_repeat (f : K -> K -> K) x y m : zipw f (repeat x m) (repeat y m) = repeat (f x y) m.
  Proof. induction m as [|m IH]; simpl; [|rewrite IH]; reflexivity. Qed.

  Lemma zipw_add_opp (a b : list K) : zipw kadd a (map kopp b) = zipw ksub a b.
  Proof.
    revert b. induction a as [|x a IH]; intros [|y b]; simpl; auto.
    rewrite IH. f_equal. ring.
  Qed.

  Lemma zipw_length (f : K -> K -> K) (a b : list K) m : length a = m -> length b = m -> length (zipw f a b) = m.
  Proof.
    revert b m. induction a as [|x a IH]; intros [|y b] m Ha Hb; simpl in *; try lia.
    destruct m as [|m]; [lia|]. f_equal. apply IH; lia.
  Qed.

  Lemma nth_zipw (f : K -> K -> K) (a b : list K) j :
    (j < length a)%nat -> (j < length b)%nat -> nth j (zipw f a b) k0 = f (nth j a k0) (nth j b k0).
  Proof.
    revert b j. induction a as [|x a IH]; intros [|y b] j Ha Hb; simpl in *; try lia.
    destruct j as [|j]; auto. apply IH; lia.
  Qed.

  Lemma nth_repeat_lt (c : K) m j : (j < m)%nat -> nth j (repeat c m) k0 = c.
  Proof.
    revert j. induction m as [|m IH]; intros j Hj; [lia|].
    destruct j as [|j]; simpl; auto. apply IH; lia.
  Qed.

  Lemma nth_map_lt (f : K -> K) (a : list K) j : (j < length a)%nat -> nth j (map f a) k0 = f (nth j a k0).
  Proof.
    revert j. induction a as [|x a IH]; intros j Hj; simpl in *; [lia|].
    destruct j as [|j]; auto. apply IH; lia.
  Qed.

  (* ---------- unfolding rvs ---------- *)
  Lemma rvs_leaf m i st : Rvs m (Leaf i) st = draw_leaf d m i st.
  Proof. reflexivity. Qed.

  Lemma rvs_const m c st : Rvs m (Const c) st = (repeat c m, st).
  Proof. cbn. unfold hand_rvs_Constant, ret. rewrite vscale_ones. reflexivity. Qed.

  Lemma rvs_neg m p st : Rvs m (Neg p) st = bind (Rvs m p) (fun x => ret (map kopp x)) st.
  Proof. reflexivity. Qed.

  Lemma rvs_sum2 m x y st : Rvs m (Sum [x; y]) st = lift2 kadd (Rvs m x) (Rvs m y) st.
  Proof.
    change (Rvs m (Sum [x; y])) with (hand_rvs_Sum kadd [Rvs m x; Rvs m y]).
    unfold hand_rvs_Sum, lift2. cbn [mseq]. unfold bind, ret.
    destruct (Rvs m x st) as [a s1]. destruct (Rvs m y s1) as [b s2]. reflexivity.
  Qed.

  Lemma rvs_prod2 m x y st : Rvs m (Prod [x; y]) st = lift2 kmul (Rvs m x) (Rvs m y) st.
  Proof.
    change (Rvs m (Prod [x; y])) with (hand_rvs_Product kmul [Rvs m x; Rvs m y]).
    unfold hand_rvs_Product, lift2. cbn [mseq]. unfold bind, ret.
    destruct (Rvs m x st) as [a s1]. destruct (Rvs m y s1) as [b s2]. reflexivity.
  Qed.

  Lemma rvs_ratio m x y st : Rvs m (Ratio x y) st = lift2 kdiv (Rvs m x) (Rvs m y) st.
  Proof. reflexivity. Qed.

  Lemma lift2_ext (f : K -> K -> K) (x x' y y' : M (list K)) st :
    (forall s, x s = x' s) -> (forall s, y s = y' s) -> lift2 f x y st = lift2 f x' y' st.
  Proof.
    intros Hx Hy. unfold lift2. apply bind_ext; auto.
    intros a s. apply bind_ext; auto.
  Qed.

  Lemma lift2_sub_neg (x y : M (list K)) st :
    lift2 kadd x (bind y (fun v => ret (map kopp v))) st = lift2 ksub x y st.
  Proof.
    unfold lift2, bind, ret. destruct (x st) as [a s1]. destruct (y s1) as [b s2].
    rewrite zipw_add_opp. reflexivity.
  Qed.

  Lemma lift2_const (f : K -> K -> K) ca cb m st :
    lift2 f (ret (repeat ca m)) (ret (repeat cb m)) st = (repeat (f ca cb) m, st).
  Proof. unfold lift2, bind, ret. rewrite zipw_repeat. reflexivity. Qed.

  (* ---------- compile: which operands are samplers ---------- *)
  Lemma compile_op_kind T (e : aexp) :
    match Cop T e with OS _ => has_leaf e = true | OC _ => has_leaf e = false end.
  Proof.
    induction e as [i|c|a IHa b IHb|a IHa b IHb|a IHa b IHb|a IHa b IHb|a IHa]; cbn [compile_op has_leaf]; auto;
      try (destruct (Cop T a) as [sa|ca]; destruct (Cop T b) as [sb|cb]; cbn [dispatch];
           rewrite ?IHa, ?IHb; reflexivity).
    destruct (Cop T a); auto.
  Qed.

  Lemma compile_total_with T (e : aexp) : has_leaf e = true -> exists s, CompileWith T e = Ok s.
  Proof.
    intros H. unfold compile_with. pose proof (compile_op_kind T e) as Hk.
    destruct (Cop T e) as [s|c]; [eauto | congruence].
  Qed.

  Lemma compile_const_with T (e : aexp) : has_leaf e = false -> CompileWith T e = Err AttributeError.
  Proof.
    intros H. unfold compile_with. pose proof (compile_op_kind T e) as Hk.
    destruct (Cop T e) as [s|c]; [congruence | reflexivity].
  Qed.

  (* the operators only ever build two-element tuples *)
  Lemma compile_pairs (e : aexp) :
    match Cop hand e with OS s => pairs_only s = true | OC _ => True end.
  Proof.
    induction e as [i|c|a IHa b IHb|a IHa b IHb|a IHa b IHb|a IHa b IHb|a IHa]; cbn [compile_op]; auto;
      try (destruct (Cop hand a) as [sa|ca]; destruct (Cop hand b) as [sb|cb]; cbn;
           rewrite ?IHa, ?IHb; auto).
    destruct (Cop hand a); cbn; auto.
  Qed.

  (* two overload tables that agree on all arguments compile every expression alike *)
  Definition table_eq (T U : overloads K) : Prop :=
    (forall s, o_neg T s = o_neg U s) /\
    (forall s x, o_add T s x = o_add U s x) /\ (forall s x, o_radd T s x = o_radd U s x) /\
    (forall s x, o_sub T s x = o_sub U s x) /\ (forall s x, o_rsub T s x = o_rsub U s x) /\
    (forall s x, o_mul T s x = o_mul U s x) /\ (forall s x, o_rmul T s x = o_rmul U s x) /\
    (forall s x, o_truediv T s x = o_truediv U s x) /\ (forall s x, o_rtruediv T s x = o_rtruediv U s x).

  Lemma compile_op_ext T U (e : aexp) : table_eq T U -> Cop T e = Cop U e.
  Proof.
    intros (Hn & Ha & Hra & Hs & Hrs & Hm & Hrm & Hd & Hrd).
    induction e as [i|c|a IHa b IHb|a IHa b IHb|a IHa b IHb|a IHa b IHb|a IHa]; cbn [compile_op]; auto;
      try (rewrite IHa, IHb; destruct (Cop U a) as [sa|ca]; destruct (Cop U b) as [sb|cb]; cbn [dispatch];
           rewrite ?Ha, ?Hra, ?Hs, ?Hrs, ?Hm, ?Hrm, ?Hd, ?Hrd; reflexivity).
    rewrite IHa. destruct (Cop U a); [rewrite Hn|]; reflexivity.
  Qed.

  Lemma compile_with_ext T U (e : aexp) : table_eq T U -> CompileWith T e = CompileWith U e.
  Proof. intros H. unfold compile_with. rewrite (compile_op_ext T U e H). reflexivity. Qed.

  (* ---------- the compiled sampler evaluates the expression ---------- *)
  Ltac ov :=
    cbn [dispatch o_neg o_add o_radd o_sub o_rsub o_mul o_rmul o_truediv o_rtruediv hand_table];
    unfold hand_add, hand_radd, hand_sub, hand_rsub, hand_mul, hand_rmul, hand_truediv, hand_rtruediv,
      hand_ratio_init, hand_neg; cbn [wrap].
  Lemma compile_sound m (e : aexp) :
    match Cop hand e with
    | OS s => forall st, Rvs m s st = Spec m e st
    | OC c => forall st, Spec m e st = (repeat c m, st)
    end.
  Proof.
    induction e as [i|c|a IHa b IHb|a IHa b IHb|a IHa b IHb|a IHa b IHb|a IHa]; cbn [compile_op spec].
    - intros st. reflexivity.
    - intros st. reflexivity.
    - (* + *)
      destruct (Cop hand a) as [sa|ca]; destruct (Cop hand b) as [sb|cb]; ov; intros st.
      + rewrite rvs_sum2. apply lift2_ext; auto.
      + rewrite rvs_sum2. apply lift2_ext; auto. intros s. rewrite rvs_const, IHb. reflexivity.
      + rewrite rvs_sum2. apply lift2_ext; auto. intros s. rewrite rvs_const, IHa. reflexivity.
      + rewrite (lift2_ext kadd _ (ret (repeat ca m)) _ (ret (repeat cb m))); auto. apply lift2_const.
    - (* - *)
      destruct (Cop hand a) as [sa|ca]; destruct (Cop hand b) as [sb|cb]; ov; intros st.
      + rewrite rvs_sum2.
        rewrite (lift2_ext kadd _ (Rvs m sa) _ (bind (Rvs m sb) (fun v => ret (map kopp v)))); auto.
        rewrite lift2_sub_neg. apply lift2_ext; auto.
      + rewrite rvs_sum2.
        rewrite (lift2_ext kadd _ (Rvs m sa) _ (bind (ret (repeat cb m)) (fun v => ret (map kopp v)))).
        * rewrite lift2_sub_neg. apply lift2_ext; auto. intros s. rewrite IHb. reflexivity.
        * auto.
        * intros s. rewrite rvs_const. unfold bind, ret. rewrite map_repeat'. reflexivity.
      + rewrite rvs_sum2.
        rewrite (lift2_ext kadd _ (ret (repeat ca m)) _ (bind (Rvs m sb) (fun v => ret (map kopp v)))).
        * rewrite lift2_sub_neg. apply lift2_ext; auto. intros s. rewrite IHa. reflexivity.
        * intros s. apply rvs_const.
        * auto.
      + rewrite (lift2_ext ksub _ (ret (repeat ca m)) _ (ret (repeat cb m))); auto. apply lift2_const.
    - (* * *)
      destruct (Cop hand a) as [sa|ca]; destruct (Cop hand b) as [sb|cb]; ov; intros st.
      + rewrite rvs_prod2. apply lift2_ext; auto.
      + rewrite rvs_prod2. apply lift2_ext; auto. intros s. rewrite rvs_const, IHb. reflexivity.
      + rewrite rvs_prod2. apply lift2_ext; auto. intros s. rewrite rvs_const, IHa. reflexivity.
      + rewrite (lift2_ext kmul _ (ret (repeat ca m)) _ (ret (repeat cb m))); auto. apply lift2_const.
    - (* / *)
      destruct (Cop hand a) as [sa|ca]; destruct (Cop hand b) as [sb|cb]; ov; intros st.
      + rewrite rvs_ratio. apply lift2_ext; auto.
      + rewrite rvs_ratio. apply lift2_ext; auto. intros s. rewrite rvs_const, IHb. reflexivity.
      + rewrite rvs_ratio. apply lift2_ext; auto. intros s. rewrite rvs_const, IHa. reflexivity.
      + rewrite (lift2_ext kdiv _ (ret (repeat ca m)) _ (ret (repeat cb m))); auto. apply lift2_const.
    - (* unary - *)
      destruct (Cop hand a) as [sa|ca]; intros st.
      + cbn [o_neg hand_table]. unfold hand_neg. rewrite rvs_neg. apply bind_ext; auto.
      + unfold bind, ret. rewrite IHa. rewrite map_repeat'. reflexivity.
  Qed.

  Lemma compile_eval m (e : aexp) s : Compile e = Ok s -> forall st, Rvs m s st = Spec m e st.
  Proof.
    unfold compile, compile_with. intros H. pose proof (compile_sound m e) as Hs.
    destruct (Cop hand e) as [s'|c]; [|discriminate]. inversion H; subst. exact Hs.
  Qed.

  (* ---------- what the reference semantics says: log, shape, element-wise value ---------- *)
  Lemma spec_log m (e : aexp) st : snd (Spec m e st) = st ++ tagged m (leaves e).
  Proof.
    revert st.
    induction e as [i|c|a IHa b IHb|a IHa b IHb|a IHa b IHb|a IHa b IHb|a IHa]; intros st; cbn [spec leaves];
      try (unfold lift2, bind, ret; specialize (IHa st); destruct (Spec m a st) as [x s1];
           specialize (IHb s1); destruct (Spec m b s1) as [y s2]; cbn [snd] in *;
           rewrite IHb, IHa, map_app, app_assoc; reflexivity).
    - reflexivity.
    - cbn. rewrite app_nil_r. reflexivity.
    - unfold bind, ret. specialize (IHa st). destruct (Spec m a st) as [x s1]. exact IHa.
  Qed.

  Hypothesis leaf_shape : forall i k m, length (d i k m) = m.

  Lemma spec_length m (e : aexp) st : length (fst (Spec m e st)) = m.
  Proof.
    revert st.
    induction e as [i|c|a IHa b IHb|a IHa b IHb|a IHa b IHb|a IHa b IHb|a IHa]; intros st; cbn [spec];
      try (unfold lift2, bind, ret; specialize (IHa st); destruct (Spec m a st) as [x s1];
           specialize (IHb s1); destruct (Spec m b s1) as [y s2]; cbn [fst] in *;
           apply zipw_length; assumption).
    - cbn. apply leaf_shape.
    - cbn. apply repeat_length.
    - unfold bind, ret. specialize (IHa st). destruct (Spec m a st) as [x s1]. cbn [fst] in *.
      rewrite map_length. exact IHa.
  Qed.

  Lemma leaf_arrays_app m l1 l2 st :
    leaf_arrays d m (l1 ++ l2) st = leaf_arrays d m l1 st ++ leaf_arrays d m l2 (st ++ tagged m l1).
  Proof.
    revert st. induction l1 as [|i l1 IH]; intros st; simpl.
    - rewrite app_nil_r. reflexivity.
    - rewrite IH. rewrite <- app_assoc. reflexivity.
  Qed.

  Lemma leaf_arrays_length m ls st : length (leaf_arrays d m ls st) = length ls.
  Proof. revert st. induction ls as [|i ls IH]; intros st; simpl; auto. Qed.

  Lemma spec_pointwise m (e : aexp) j : (j < m)%nat -> forall st pre post,
    nth j (fst (Spec m e st)) k0 =
    Aeval (pre ++ map (fun a => nth j a k0) (leaf_arrays d m (leaves e) st) ++ post) e (length pre).
  Proof.
    intros Hj.
    assert (Hbin : forall (f : K -> K -> K) (a b : aexp),
      (forall st pre post, nth j (fst (Spec m a st)) k0 =
         Aeval (pre ++ map (fun a => nth j a k0) (leaf_arrays d m (leaves a) st) ++ post) a (length pre)) ->
      (forall st pre post, nth j (fst (Spec m b st)) k0 =
         Aeval (pre ++ map (fun a => nth j a k0) (leaf_arrays d m (leaves b) st) ++ post) b (length pre)) ->
      forall st pre post,
        nth j (fst (lift2 f (Spec m a) (Spec m b) st)) k0 =
        f (Aeval (pre ++ map (fun a => nth j a k0) (leaf_arrays d m (leaves a ++ leaves b) st) ++ post) a (length pre))
          (Aeval (pre ++ map (fun a => nth j a k0) (leaf_arrays d m (leaves a ++ leaves b) st) ++ post) b
                 (length pre + length (leaves a)))).
    { intros f a b IHa IHb st pre post.
      pose proof (spec_length m a st) as La. pose proof (spec_log m a st) as Sa.
      unfold lift2, bind, ret. destruct (Spec m a st) as [x s1] eqn:Ea. cbn [fst snd] in *.
      pose proof (spec_length m b s1) as Lb.
      destruct (Spec m b s1) as [y s2] eqn:Eb. cbn [fst] in *.
      rewrite nth_zipw by lia.
      rewrite leaf_arrays_app, map_app, <- app_assoc.
      f_equal.
      - specialize (IHa st pre (map (fun a0 => nth j a0 k0) (leaf_arrays d m (leaves b) (st ++ tagged m (leaves a))) ++ post)).
        rewrite Ea in IHa. exact IHa.
      - specialize (IHb s1 (pre ++ map (fun a0 => nth j a0 k0) (leaf_arrays d m (leaves a) st)) post).
        rewrite Eb in IHb. cbn [fst] in IHb. rewrite IHb. subst s1.
        rewrite app_length, map_length, leaf_arrays_length, <- app_assoc. reflexivity. }
    induction e as [i|c|a IHa b IHb|a IHa b IHb|a IHa b IHb|a IHa b IHb|a IHa]; intros st pre post;
      cbn [spec leaves aeval]; try (apply Hbin; assumption).
    - cbn. rewrite app_nth2 by lia. rewrite Nat.sub_diag. reflexivity.
    - cbn. apply nth_repeat_lt; assumption.
    - pose proof (spec_length m a st) as La. specialize (IHa st pre post).
      unfold bind, ret. destruct (Spec m a st) as [x s1]. cbn [fst] in *.
      rewrite nth_map_lt by lia. rewrite IHa. reflexivity.
  Qed.

  Lemma compile_eval_explicit m (e : aexp) s st :
    Compile e = Ok s ->
    length (fst (Rvs m s st)) = m /\
    snd (Rvs m s st) = st ++ tagged m (leaves e) /\
    forall j, (j < m)%nat ->
      nth j (fst (Rvs m s st)) k0 =
      Aeval (map (fun a => nth j a k0) (leaf_arrays d m (leaves e) st)) e 0.
  Proof.
    intros H. rewrite (compile_eval m e s H st). split; [apply spec_length | split; [apply spec_log|]].
    intros j Hj. rewrite (spec_pointwise m e j Hj st [] []). cbn [app length]. rewrite app_nil_r. reflexivity.
  Qed.

  (* ---------- sample() ---------- *)
  Lemma sample_nonrandom (v : pyval K) size st :
    (forall s, v <> PSampler s) ->
    (((is_scalar v = true /\ size = 1%nat) \/ (is_scalar v = false /\ pylen v = size)) ->
       Sample v size st = (Ok v, st)) /\
    (~ ((is_scalar v = true /\ size = 1%nat) \/ (is_scalar v = false /\ pylen v = size)) ->
       Sample v size st = (Err ValueError, st)).
  Proof.
    intros Hv. destruct v as [s|c|l]; [exfalso; eapply Hv; reflexivity| |]; cbn.
    - destruct (Nat.eqb_spec size 1); unfold ret; split; intros H; auto.
      + exfalso. apply H. auto.
      + destruct H as [[_ H]|[H _]]; [contradiction|discriminate].
    - destruct (Nat.eqb_spec (length l) size); unfold ret; split; intros H; auto.
      + exfalso. apply H. auto.
      + destruct H as [[H _]|[_ H]]; [discriminate|contradiction].
  Qed.

  Lemma sample_sampler (s : sampler) size st :
    Sample (PSampler s) size st = (Ok (PSeq (fst (Rvs size s st))), snd (Rvs size s st)).
  Proof. cbn. unfold bind, ret. destruct (Rvs size s st); reflexivity. Qed.
End Facts.
