(* PyCache_facts.v -- soundness of the skeleton checker of PyCache.v  [C14, generated tie]

   Main results:
     exec_sound            the abstract interpreter covers every trace of the semantics: if `exec` returns R
                           for skeleton s from monitor state c, then for every trace evs of s (eval) the
                           monitor accepts evs from c and ends in a (state, outcome) listed in R, with the
                           monitor's flags equal to the real flags
     mrun_crun / crun_wf_run   whatever the monitor emits passes Cache.wf_run
     entry_sound           check_entry = true: every call of the method, from every clean flag configuration
                           of the class, has an abstraction `abs_call` that passes wf_run, ends clean (when
                           it returns / always in strict mode) and keeps the flag shape of the class
     disciplined_calls     disciplined_skel tb = true: every history of calls of query methods and of
                           make_feasible (returning) is a history accepted by Cache.hist_ok. *)
From Coq Require Import String.
From VQ Require Import Base Cache Cache_facts PyCache.
Local Open Scope nat_scope.

(* ---------- boolean equalities are Leibniz ---------- *)
Lemma beqb_eq a b : Bool.eqb a b = true -> a = b.
Proof. destruct a, b; simpl; auto; discriminate. Qed.

Lemma b4_eqb_eq f g : b4_eqb f g = true -> f = g.
Proof.
  destruct f as [[[a b] c] d], g as [[[a' b'] c'] d']. simpl.
  rewrite !andb_true_iff. intros [[[A B] C] D].
  apply beqb_eq in A, B, C, D. subst. reflexivity.
Qed.

Lemma list_eqb_eq {A} (e : A -> A -> bool) :
  (forall x y, e x y = true -> x = y) -> forall l m, list_eqb e l m = true -> l = m.
Proof.
  intros E l. induction l as [|x l IH]; intros [|y m]; simpl; try discriminate; auto.
  rewrite andb_true_iff. intros [P Q]. f_equal; auto.
Qed.

Lemma frame_eqb_eq a b : frame_eqb a b = true -> a = b.
Proof.
  destruct a as [i l], b as [j m]. unfold frame_eqb. simpl. rewrite andb_true_iff. intros [A B].
  apply cid_eqb_eq in A. apply (list_eqb_eq Bool.eqb beqb_eq) in B. subst. reflexivity.
Qed.

Lemma mst_eqb_eq a b : mst_eqb a b = true -> a = b.
Proof.
  destruct a as [[f d] s], b as [[f' d'] s']. unfold mst_eqb, cws_eqb. simpl.
  rewrite !andb_true_iff. intros [[A B] C].
  apply b4_eqb_eq in A, B. apply (list_eqb_eq frame_eqb frame_eqb_eq) in C. subst. reflexivity.
Qed.

Lemma outcome_eqb_eq a b : outcome_eqb a b = true -> a = b.
Proof. destruct a, b; simpl; auto; discriminate. Qed.

Lemma re_eqb_eq p q : re_eqb p q = true -> p = q.
Proof.
  destruct p as [c o], q as [c' o']. unfold re_eqb. simpl. rewrite andb_true_iff. intros [A B].
  apply mst_eqb_eq in A. apply outcome_eqb_eq in B. subst. reflexivity.
Qed.

(* ---------- result sets ---------- *)
Lemma r_mem_in p R : r_mem p R = true -> In p R.
Proof.
  unfold r_mem. rewrite existsb_exists. intros (q & I & E). apply re_eqb_eq in E. subst. exact I.
Qed.

Lemma r_add_keep p q R : In p R -> In p (r_add q R).
Proof. unfold r_add. destruct (r_mem q R); simpl; auto. Qed.

Lemma r_add_new q R : In q (r_add q R).
Proof. unfold r_add. destruct (r_mem q R) eqn:E; simpl; auto. apply r_mem_in; auto. Qed.

Lemma r_union_r A : forall B p, In p B -> In p (r_union A B).
Proof. induction A as [|a A IH]; simpl; intros B p I; auto. apply r_add_keep. auto. Qed.

Lemma r_union_l A : forall B p, In p A -> In p (r_union A B).
Proof.
  induction A as [|a A IH]; simpl; intros B p I; [contradiction|].
  destruct I as [->|I]; [apply r_add_new | apply r_add_keep; auto].
Qed.

Lemma m_mem_in c H : m_mem c H = true -> In c H.
Proof.
  unfold m_mem. rewrite existsb_exists. intros (q & I & E). apply mst_eqb_eq in E. subst. exact I.
Qed.

Lemma bind_res_sound R : forall g S c o,
  bind_res R g = Some S -> In (c, o) R ->
  exists A, g c o = Some A /\ (forall p, In p A -> In p S).
Proof.
  induction R as [|[c0 o0] R IH]; simpl; intros g S c o H I; [contradiction|].
  destruct (g c0 o0) as [A|] eqn:G; [|discriminate].
  destruct (bind_res R g) as [B|] eqn:Bq; [|discriminate].
  inversion H; subst; clear H.
  destruct I as [E|I].
  - inversion E; subst. exists A. split; auto. intros p. apply r_union_l.
  - destruct (IH g B c o Bq I) as (A' & G' & Sub). exists A'. split; auto.
    intros p Ip. apply r_union_r. auto.
Qed.

Lemma call_fold_in (R : res) : forall c o,
  In (c, o) R -> In (c, call_out o) (fold_right (fun p a => r_add (fst p, call_out (snd p)) a) [] R).
Proof.
  induction R as [|[c0 o0] R IH]; simpl; intros c o I; [contradiction|].
  destruct I as [E|I].
  - inversion E; subst. apply r_add_new.
  - apply r_add_keep. auto.
Qed.

(* ---------- four booleans ---------- *)
Lemma getb_setb f i j b : getb (setb f i b) j = if cid_eqb j i then b else getb f j.
Proof. destruct f as [[[v c] o] q], i, j; reflexivity. Qed.

Lemma getb_orb4 f g i : getb (orb4 f g) i = getb f i || getb g i.
Proof. destruct f as [[[v c] o] q], g as [[[v' c'] o'] q'], i; reflexivity. Qed.

Lemma setb_same f i : setb f i (getb f i) = f.
Proof. destruct f as [[[v c] o] q], i; reflexivity. Qed.

Lemma setb_vars_then f i :
  (i = Vars \/ getb f Vars = true) -> setb (setb f Vars true) i true = setb f i true.
Proof.
  destruct f as [[[v c] o] q]. intros [E|E]; [subst; reflexivity|].
  simpl in E. subst. destruct i; reflexivity.
Qed.

Lemma b4_ext f g : (forall i, getb f i = getb g i) -> f = g.
Proof.
  destruct f as [[[v c] o] q], g as [[[v' c'] o'] q']. intros H.
  pose proof (H Vars). pose proof (H Con). pose proof (H Obj). pose proof (H Quad). simpl in *.
  subst. reflexivity.
Qed.

(* ---------- cstep is Cache.wstep ---------- *)
Lemma weq_refl w : weq w w.
Proof. intros i. auto. Qed.

Lemma cstep_wstep w a w' :
  cstep w a = Some w' -> exists ws', wstep (to_ws w) a = Some ws' /\ weq ws' (to_ws w').
Proof.
  destruct a as [|i b|i|i|i]; simpl.
  - intros H. inversion H; subst; clear H. eexists. split; [reflexivity|].
    intros i. simpl. rewrite getb_orb4. auto.
  - destruct b; [discriminate|]. intros H. inversion H; subst; clear H. eexists. split; [reflexivity|].
    intros j. simpl. unfold upd. rewrite !getb_setb. auto.
  - destruct (negb (getb (cdt w) i) && negb (getb (cdt w) Vars)); [|discriminate].
    intros H. inversion H; subst; clear H. eexists. split; [reflexivity|].
    destruct (getb (cfl w) i); [apply weq_refl|].
    intros j. simpl. unfold upd. rewrite !getb_setb. auto.
  - destruct i; try discriminate;
      (destruct (negb (getb (cdt w) _) && negb (getb (cdt w) Vars)); [|discriminate];
       intros H; inversion H; subst; clear H; eexists; split; [reflexivity|];
       destruct (getb (cfl w) _); [apply weq_refl|];
       intros j; simpl; unfold upd; rewrite !getb_setb; auto).
  - destruct (getb (cfl w) i && negb (getb (cdt w) i)); [|discriminate].
    intros H. inversion H; subst; clear H. eexists. split; [reflexivity|]. apply weq_refl.
Qed.

Lemma crun_wf_run tr : forall w w' ws,
  crun w tr = Some w' -> weq ws (to_ws w) ->
  exists ws', wf_run ws tr = Some ws' /\ weq ws' (to_ws w').
Proof.
  induction tr as [|a tr IH]; simpl; intros w w' ws H E.
  - inversion H; subst. eauto.
  - destruct (cstep w a) as [w1|] eqn:S; [|discriminate].
    destruct (cstep_wstep _ _ _ S) as (x & Sx & Ex).
    pose proof (wstep_ext ws (to_ws w) a E) as X. rewrite Sx in X.
    destruct (wstep ws a) as [y|]; [|contradiction].
    apply (IH w1 w' y H). intros i. destruct (X i) as [A B]. destruct (Ex i) as [C D].
    split; congruence.
Qed.

Lemma crun_one w a : crun w [a] = cstep w a.
Proof. simpl. destruct (cstep w a); reflexivity. Qed.

Lemma crun_app a : forall w b,
  crun w (a ++ b) = match crun w a with Some w1 => crun w1 b | None => None end.
Proof.
  induction a as [|x a IH]; intros w b; simpl; auto.
  destruct (cstep w x); auto.
Qed.

(* ---------- the monitor: outputs pass the discipline, flags follow the real flags ---------- *)
Section MonitorFacts.
  Variables (k : kind) (pure : bool).

  (* r is a monitor result from state s: its output replays through cstep to the new state *)
  Definition ok_out (s : mst) (r : option (mst * list action)) : Prop :=
    match r with Some (s', out) => crun (mw s) out = Some (mw s') | None => True end.
  Definition fl_same (s : mst) (r : option (mst * list action)) : Prop :=
    match r with Some (s', _) => cfl (mw s') = cfl (mw s) | None => True end.

  Lemma emit_ok s a : ok_out s (emit s a).
  Proof. unfold ok_out, emit. destruct (cstep (mw s) a) eqn:E; simpl; auto. rewrite E. reflexivity. Qed.

  Lemma quiet_ok s : ok_out s (quiet s).
  Proof. reflexivity. Qed.

  Lemma emit_read_same s i : fl_same s (emit s (Read i)).
  Proof.
    unfold fl_same, emit. simpl. destruct (getb (cfl (mw s)) i && negb (getb (cdt (mw s)) i)); simpl; auto.
  Qed.

  Lemma emit_mut_same s : fl_same s (emit s Mutate).
  Proof. reflexivity. Qed.

  Lemma m_mut_ok s : ok_out s (m_mut pure s) /\ fl_same s (m_mut pure s).
  Proof.
    unfold m_mut. destruct pure; [simpl; auto|].
    destruct (mstk s); [|simpl; auto]. split; [apply emit_ok | apply emit_mut_same].
  Qed.

  Lemma m_init_ok s i x : ok_out s (m_init k s i x) /\ fl_same s (m_init k s i x).
  Proof.
    unfold m_init. destruct (mstk s) as [|[j m] rest].
    - destruct (getb (cfl (mw s)) i); simpl; auto.
    - destruct (cid_eqb j i); [simpl; auto|].
      destruct i; simpl; auto. destruct rest; simpl; auto.
      destruct (getb (cfl (mw s)) Vars); simpl; auto.
  Qed.

  Lemma m_upd_ok s i x : ok_out s (m_upd k s i x) /\ fl_same s (m_upd k s i x).
  Proof.
    unfold m_upd. destruct (mstk s) as [|[j m] rest]; [simpl; auto|].
    destruct (cid_eqb j i && marked (cache_attrs k i) x m); simpl; auto.
  Qed.

  Lemma m_read_ok s i x : ok_out s (m_read k s i x) /\ fl_same s (m_read k s i x).
  Proof.
    unfold m_read. destruct (mstk s) as [|[j m] rest].
    - split; [apply emit_ok | apply emit_read_same].
    - destruct (cid_eqb j i).
      + destruct (marked (cache_attrs k i) x m); simpl; auto.
      + destruct i; try (simpl; auto; fail). split; [apply emit_ok | apply emit_read_same].
  Qed.

  Lemma m_setflag_ok s i b :
    ok_out s (m_setflag s i b) /\
    match m_setflag s i b with Some (s', _) => cfl (mw s') = setb (cfl (mw s)) i b | None => True end.
  Proof.
    unfold m_setflag. destruct b.
    - destruct (mstk s) as [|[j m] rest]; [simpl; auto|].
      destruct (cid_eqb j i && forallb (fun v => v) m && negb (getb (cfl (mw s)) i)
                && (cid_eqb i Vars || getb (cfl (mw s)) Vars)) eqn:C; [|simpl; auto].
      destruct (cstep (mw s) (Build i)) as [w'|] eqn:E; [|simpl; auto].
      split; [unfold ok_out; rewrite crun_one, E; reflexivity|]. cbn [mw].
      rewrite !andb_true_iff in C. destruct C as [[[_ _] F] V].
      apply negb_true_iff in F. simpl in E. rewrite F in E.
      destruct (negb (getb (cdt (mw s)) i) && negb (getb (cdt (mw s)) Vars)); [|discriminate].
      inversion E; subst; clear E. simpl. apply setb_vars_then.
      apply orb_true_iff in V. destruct V as [V|V]; [left; apply cid_eqb_eq; auto | right; auto].
    - destruct (mstk s); [|simpl; auto]. split; [apply emit_ok|].
      unfold emit. simpl. reflexivity.
  Qed.

  Lemma m_write_ok s x ip :
    ok_out s (m_write k pure s x ip) /\ fl_same s (m_write k pure s x ip) /\
    (m_write k pure s x ip <> None -> flag_of k x = None).
  Proof.
    assert (N : forall P : Prop, ok_out s None /\ fl_same s None /\ ((@None (mst * list action)) <> None -> P)).
    { intros P. split; [exact I|split; [exact I|intros H; exfalso; apply H; reflexivity]]. }
    unfold m_write, flag_of. destruct (role_of k x) as [[i|i| |]|].
    - apply N.
    - split; [|split; [|reflexivity]];
        destruct ip; first [apply (m_upd_ok s i x) | apply (m_init_ok s i x)].
    - split; [|split; [|reflexivity]]; apply (m_mut_ok s).
    - destruct pure; [apply N|]. split; [exact (quiet_ok s)|split; reflexivity].
    - apply N.
  Qed.

  Lemma m_load_ok s x : ok_out s (m_load k pure s x) /\ fl_same s (m_load k pure s x).
  Proof.
    unfold m_load. destruct (role_of k x) as [[i|i| |]|].
    - split; exact I.
    - apply m_read_ok.
    - split; reflexivity.
    - destruct pure; split; try exact I; reflexivity.
    - split; exact I.
  Qed.

  Definition ev_flags (fl : b4) (e : fev) : b4 :=
    match e with FSetB x b => upd_flag k fl x b | _ => fl end.

  Lemma mstep_ok s e :
    ok_out s (mstep k pure s e) /\
    match mstep k pure s e with
    | Some (s', _) => cfl (mw s') = ev_flags (cfl (mw s)) e /\
                      match e with FInit x => flag_of k x = None | _ => True end
    | None => True
    end.
  Proof.
    destruct e as [x b|x b|x|x|x|x m]; simpl.
    - destruct (flag_of k x) as [i|]; [|simpl; auto].
      destruct (Bool.eqb (getb (cfl (mw s)) i) b); simpl; auto.
    - unfold upd_flag. destruct (flag_of k x) as [i|] eqn:F.
      + destruct (m_setflag_ok s i b) as [A B]. split; auto.
        destruct (m_setflag s i b) as [[s' o]|]; auto.
      + destruct (m_write_ok s x false) as (A & B & _). split; auto.
        destruct (m_write k pure s x false) as [[s' o]|]; simpl in *; auto.
    - destruct (m_write_ok s x false) as (A & B & C). split; auto.
      destruct (m_write k pure s x false) as [[s' o]|]; simpl in *; auto.
      split; auto. apply C. discriminate.
    - destruct (m_write_ok s x true) as (A & B & _). split; auto.
      destruct (m_write k pure s x true) as [[s' o]|]; simpl in *; auto.
    - destruct (m_load_ok s x) as (A & B). split; auto.
      destruct (m_load k pure s x) as [[s' o]|]; simpl in *; auto.
    - destruct (meth_kind m) as [[| |]|]; simpl; auto.
      + destruct (m_load_ok s x) as (A & B). split; auto.
        destruct (m_load k pure s x) as [[s' o]|]; simpl in *; auto.
      + destruct (m_write_ok s x true) as (A & B & _). split; auto.
        destruct (m_write k pure s x true) as [[s' o]|]; simpl in *; auto.
      + destruct (m_write_ok s x false) as (A & B & _). split; auto.
        destruct (m_write k pure s x false) as [[s' o]|]; simpl in *; auto.
  Qed.

  Lemma mrun_crun evs : forall s s' out,
    mrun k pure s evs = Some (s', out) -> crun (mw s) out = Some (mw s').
  Proof.
    induction evs as [|e evs IH]; simpl; intros s s' out H.
    - inversion H; subst. reflexivity.
    - destruct (mstep_ok s e) as [A _].
      destruct (mstep k pure s e) as [[s1 o1]|]; [|discriminate].
      destruct (mrun k pure s1 evs) as [[s2 o2]|] eqn:M; [|discriminate].
      inversion H; subst; clear H. simpl in A. rewrite crun_app, A. eapply IH; eauto.
  Qed.

  Lemma mrun_app e1 : forall s e2,
    mrun k pure s (e1 ++ e2) =
    match mrun k pure s e1 with
    | Some (s1, o1) => match mrun k pure s1 e2 with
                       | Some (s2, o2) => Some (s2, o1 ++ o2)
                       | None => None
                       end
    | None => None
    end.
  Proof.
    induction e1 as [|e e1 IH]; intros s e2; simpl.
    - destruct (mrun k pure s e2) as [[s2 o2]|]; reflexivity.
    - destruct (mstep k pure s e) as [[s1 o1]|]; [|reflexivity].
      rewrite IH. destruct (mrun k pure s1 e1) as [[s2 o2]|]; [|reflexivity].
      destruct (mrun k pure s2 e2) as [[s3 o3]|]; [|reflexivity].
      rewrite app_assoc. reflexivity.
  Qed.

  Lemma mrun_one s e s' out :
    mrun k pure s [e] = Some (s', out) ->
    cfl (mw s') = ev_flags (cfl (mw s)) e /\ match e with FInit x => flag_of k x = None | _ => True end.
  Proof.
    simpl. destruct (mstep_ok s e) as [_ B].
    destruct (mstep k pure s e) as [[s1 o1]|]; [|discriminate].
    intros H. inversion H; subst. exact B.
  Qed.

  Lemma mfinish_ok s o : ok_out s (mfinish s o) /\ fl_same s (mfinish s o).
  Proof.
    unfold mfinish. destruct (mstk s) as [|[i m] [|? ?]]; try (simpl; auto; fail).
    destruct o; try (simpl; auto; fail).
    destruct (getb (cfl (mw s)) Vars) eqn:V; [|simpl; auto].
    destruct (cstep (mw s) (BuildAbort i)) as [w'|] eqn:E; [|simpl; auto].
    split; [unfold ok_out; rewrite crun_one, E; reflexivity|].
    unfold fl_same. cbn [mw].
    destruct i; simpl in E; try discriminate;
      (destruct (negb (getb (cdt (mw s)) _) && negb (getb (cdt (mw s)) Vars)); [|discriminate];
       inversion E; subst; clear E;
       match goal with |- context [if ?c then _ else _] => destruct c end; simpl; auto;
       rewrite <- V at 1; apply setb_same).
  Qed.
End MonitorFacts.

(* ---------- soundness of the abstract interpreter ---------- *)
Lemma loop_closed_in step H c :
  loop_closed step H = true -> In c H ->
  exists Rb, step c = Some Rb /\ forall p, In p Rb -> continues (snd p) = true -> In (fst p) H.
Proof.
  unfold loop_closed. rewrite forallb_forall. intros A I. specialize (A c I).
  destruct (step c) as [Rb|]; [|discriminate]. exists Rb. split; auto.
  rewrite forallb_forall in A. intros p Ip C. specialize (A p Ip). rewrite C in A. apply m_mem_in. auto.
Qed.

Lemma loop_exits_in step H : forall R c,
  loop_exits step H = Some R -> In c H ->
  exists Rb, step c = Some Rb /\ In (c, ONorm) R /\
             forall p q, In p Rb -> In q (loop_exit1 p) -> In q R.
Proof.
  induction H as [|c0 H IH]; simpl; intros R c E I; [contradiction|].
  destruct (step c0) as [Rb0|] eqn:S0; [|discriminate].
  destruct (loop_exits step H) as [B|] eqn:EB; [|discriminate].
  inversion E; subst; clear E. destruct I as [->|I].
  - exists Rb0. split; auto. split; [apply r_add_new|].
    intros p q Ip Iq. apply r_add_keep. apply r_union_l. apply in_flat_map. eauto.
  - destruct (IH B c eq_refl I) as (Rb & Sc & N & X). exists Rb. split; auto.
    split; [apply r_add_keep, r_union_r; auto|].
    intros p q Ip Iq. apply r_add_keep, r_union_r. eauto.
Qed.

Section Sound.
  Variables (tb : skeleton_table) (k : kind) (pure : bool).

  Definition covers (R : res) (c : mst) (evs : list fev) (fl' : b4) (o : outcome) : Prop :=
    exists c' out, mrun k pure c evs = Some (c', out) /\ In (c', o) R /\ cfl (mw c') = fl'.

  Definition sound_at (f : nat) : Prop := forall intr env s c R,
    exec tb k pure f intr env s c = Some R ->
    forall evs fl' o, eval tb k intr env s (cfl (mw c)) evs fl' o -> covers R c evs fl' o.

  Lemma covers_nil (R : res) c o : In (c, o) R -> covers R c [] (cfl (mw c)) o.
  Proof. intros I. exists c, []. simpl. auto. Qed.

  Lemma covers_sub (R S : res) c evs fl' o :
    (forall p, In p R -> In p S) -> covers R c evs fl' o -> covers S c evs fl' o.
  Proof. intros Sub (c' & out & A & B & C). exists c', out. auto. Qed.

  Lemma covers_seq (R2 : res) c e1 fl1 c1 out1 e2 fl2 o :
    mrun k pure c e1 = Some (c1, out1) -> cfl (mw c1) = fl1 ->
    covers R2 c1 e2 fl2 o -> covers R2 c (e1 ++ e2) fl2 o.
  Proof.
    intros M1 F1 (c2 & out2 & M2 & I2 & F2). exists c2, (out1 ++ out2).
    rewrite mrun_app, M1, M2. auto.
  Qed.

  Lemma exec_intr_raise f env s c R :
    exec tb k pure f true env s c = Some R -> In (c, ORaise) R.
  Proof.
    destruct f; simpl; [discriminate|].
    match goal with |- match ?X with _ => _ end = _ -> _ => destruct X end; [|discriminate].
    intros H. inversion H. apply r_add_new.
  Qed.

  Lemma loop_sound f intr env b H R :
    sound_at f ->
    loop_closed (exec tb k pure f intr env b) H = true ->
    loop_exits (exec tb k pure f intr env b) H = Some R ->
    forall fl evs fl' o, eval tb k intr env (PLoop b) fl evs fl' o ->
    forall c, In c H -> cfl (mw c) = fl -> covers R c evs fl' o.
  Proof.
    intros SA CL EX fl evs fl' o Hev.
    remember (PLoop b) as s eqn:Es.
    induction Hev; try discriminate; intros c Ic Fc.
    - (* implicit raise *)
      destruct (loop_exits_in _ _ _ _ EX Ic) as (Rb & Sc & _ & X).
      rewrite <- Fc. apply covers_nil. apply (X (c, ORaise)); [|simpl; auto].
      eapply exec_intr_raise; eauto.
    - (* end *)
      destruct (loop_exits_in _ _ _ _ EX Ic) as (Rb & Sc & N & _).
      rewrite <- Fc. apply covers_nil. auto.
    - (* one more iteration *)
      inversion Es; subst b0; clear Es.
      destruct (loop_closed_in _ _ _ CL Ic) as (Rb & Sc & Cl).
      rewrite <- Fc in Hev1.
      destruct (SA _ _ _ _ _ Sc _ _ _ Hev1) as (c1 & out1 & M1 & I1 & F1).
      assert (Ic1 : In c1 H).
      { apply (Cl (c1, o1)); auto. simpl. destruct H0 as [->| ->]; reflexivity. }
      eapply covers_seq; eauto.
    - (* break *)
      inversion Es; subst b0; clear Es.
      destruct (loop_exits_in _ _ _ _ EX Ic) as (Rb & Sc & _ & X).
      rewrite <- Fc in Hev.
      destruct (SA _ _ _ _ _ Sc _ _ _ Hev) as (c1 & out1 & M1 & I1 & F1).
      exists c1, out1. split; auto. split; auto. apply (X (c1, OBrk)); simpl; auto.
    - (* return / raise *)
      inversion Es; subst b0; clear Es.
      destruct (loop_exits_in _ _ _ _ EX Ic) as (Rb & Sc & _ & X).
      rewrite <- Fc in Hev.
      destruct (SA _ _ _ _ _ Sc _ _ _ Hev) as (c1 & out1 & M1 & I1 & F1).
      exists c1, out1. split; auto. split; auto.
      apply (X (c1, o1)); auto. destruct H0 as [->| ->]; simpl; auto.
  Qed.
End Sound.

Section Sound2.
  Variables (tb : skeleton_table) (k : kind) (pure : bool).

  Ltac core_split He :=
    match type of He with
    | match ?X with Some _ => _ | None => None end = Some _ =>
        let R0 := fresh "R0" in let Hc := fresh "Hc" in
        destruct X as [R0|] eqn:Hc; [|discriminate He]; inversion He; subst; clear He
    end.
  Ltac intr_case := solve [apply covers_nil; apply r_add_new].
  Ltac lift :=
    eapply covers_sub;
    [intros ? ?; match goal with |- In _ (if ?i then _ else _) => destruct i end;
     [apply r_add_keep|]; eassumption |].

  Lemma leaf_sound c evs (R0 : res) fl' :
    leaf k pure c evs = Some R0 ->
    (forall c' out, mrun k pure c evs = Some (c', out) -> cfl (mw c') = fl') ->
    covers k pure R0 c evs fl' ONorm.
  Proof.
    unfold leaf. intros H F. destruct (mrun k pure c evs) as [[c' out]|] eqn:M; [|discriminate].
    inversion H; subst. exists c', out. split; auto. split; [simpl; auto|]. eapply F; eauto.
  Qed.

  Lemma param_leaf_flags c env n mk c' out :
    (forall x, match mk x with FSetB _ _ | FInit _ => False | _ => True end) ->
    mrun k pure c (param_ev env n mk) = Some (c', out) -> cfl (mw c') = cfl (mw c).
  Proof.
    intros P. unfold param_ev. destruct (nth_error env n) as [[x|]|]; simpl.
    - intros M. destruct (mrun_one k pure c (mk x) c' out M) as [F _].
      specialize (P x). destruct (mk x); simpl in F; auto; contradiction.
    - intros M. inversion M; subst. reflexivity.
    - intros M. inversion M; subst. reflexivity.
  Qed.

  Theorem exec_sound f : sound_at tb k pure f.
  Proof.
    induction f as [|f IH]; intros intr env s c R He evs fl' o Hev; [discriminate He|].
    destruct s as [| | | | | |a b|x a b|a b|b|b h e|x|x|x v|x|x m|n|n m|m args|m args].
    - inversion Hev; subst; simpl in He; inversion He; subst;
        [intr_case | lift; apply covers_nil; simpl; auto].
    - inversion Hev; subst; simpl in He; inversion He; subst;
        [intr_case | lift; apply covers_nil; simpl; auto].
    - inversion Hev; subst; simpl in He; inversion He; subst;
        [intr_case | lift; apply covers_nil; simpl; auto].
    - inversion Hev; subst; simpl in He; inversion He; subst;
        [intr_case | lift; apply covers_nil; simpl; auto].
    - inversion Hev; subst; simpl in He; inversion He; subst;
        [intr_case | lift; apply covers_nil; simpl; auto].
    - inversion Hev; subst; simpl in He; inversion He; subst;
        [intr_case | lift; apply covers_nil; simpl; auto].
    - (* PSeq *)
      inversion Hev; subst; simpl in He; core_split He; [intr_case | lift | lift];
        destruct (exec tb k pure f _ env a c) as [Ra|] eqn:Ea; try discriminate.
      + match goal with H1 : eval _ _ _ _ a _ _ _ ONorm |- _ =>
          destruct (IH _ _ _ _ _ Ea _ _ _ H1) as (c1 & out1 & M1 & I1 & F1) end.
        destruct (bind_res_sound _ _ _ _ _ Hc I1) as (A & G & Sub). simpl in G.
        eapply covers_sub; [exact Sub|]. eapply covers_seq; [exact M1 | exact F1 |].
        match goal with H2 : eval _ _ _ _ b _ _ _ _ |- _ =>
          rewrite <- F1 in H2; exact (IH _ _ _ _ _ G _ _ _ H2) end.
      + match goal with H1 : eval _ _ _ _ a _ _ _ _ |- _ =>
          destruct (IH _ _ _ _ _ Ea _ _ _ H1) as (c1 & out1 & M1 & I1 & F1) end.
        destruct (bind_res_sound _ _ _ _ _ Hc I1) as (A & G & Sub).
        exists c1, out1. split; auto. split; auto. apply Sub.
        destruct o; try (inversion G; subst; simpl; auto; fail). congruence.
    - (* PIfFlag *)
      inversion Hev; subst; simpl in He; core_split He; [intr_case | lift | lift];
        match goal with F : flag_of k x = _ |- _ => rewrite F in Hc end.
      + match goal with H1 : eval _ _ _ _ _ _ _ _ _ |- _ =>
          destruct (IH _ _ _ _ _ Hc _ _ _ H1) as (c1 & out1 & M1 & I1 & F1) end.
        exists c1, out1. split; auto.
        simpl. match goal with F : flag_of k x = _ |- _ => rewrite F end.
        rewrite eqb_reflx. simpl. rewrite M1. reflexivity.
      + eapply IH; eauto.
    - (* PChoice *)
      inversion Hev; subst; simpl in He; core_split He; [intr_case | lift | lift];
        destruct (exec tb k pure f _ env a c) as [A|] eqn:Ea; try discriminate;
        destruct (exec tb k pure f _ env b c) as [B|] eqn:Eb; try discriminate;
        inversion Hc; subst.
      + eapply covers_sub; [intros p; apply r_union_l|]. eapply IH; eauto.
      + eapply covers_sub; [intros p; apply r_union_r|]. eapply IH; eauto.
    - (* PLoop *)
      simpl in He; core_split He. lift.
      destruct (grow f (exec tb k pure f intr env b) [c]) as [H|]; [|discriminate].
      destruct (loop_closed (exec tb k pure f intr env b) H) eqn:CL; [|discriminate].
      destruct (m_mem c H) eqn:MM; [|discriminate]. simpl in Hc.
      eapply loop_sound; eauto. apply m_mem_in; auto.
    - (* PTry *)
      inversion Hev; subst; simpl in He; core_split He; [intr_case | lift | lift | lift | lift];
        destruct (exec tb k pure f true env (PSeq b PSkip) c) as [Rb|] eqn:Eb; try discriminate;
        match goal with H1 : eval _ _ true _ (PSeq b PSkip) _ _ _ _ |- _ =>
          destruct (IH _ _ _ _ _ Eb _ _ _ H1) as (c1 & out1 & M1 & I1 & F1) end;
        destruct (bind_res_sound _ _ _ _ _ Hc I1) as (A & G & Sub); simpl in G.
      + eapply covers_sub; [exact Sub|]. eapply covers_seq; [exact M1 | exact F1 |].
        match goal with H2 : eval _ _ _ _ e _ _ _ _ |- _ =>
          rewrite <- F1 in H2; exact (IH _ _ _ _ _ G _ _ _ H2) end.
      + exists c1, out1. split; auto. split; auto. apply Sub.
        match goal with H2 : _ \/ _ \/ _ |- _ =>
          destruct H2 as [->|[->| ->]]; inversion G; subst; simpl; auto end.
      + destruct (exec tb k pure f intr env h c1) as [Ah|] eqn:Eh; [|discriminate].
        injection G as <-. eapply covers_sub; [intros p Ip; apply Sub, r_add_keep; exact Ip|].
        eapply covers_seq; [exact M1 | exact F1 |].
        match goal with H2 : eval _ _ _ _ h _ _ _ _ |- _ =>
          rewrite <- F1 in H2; exact (IH _ _ _ _ _ Eh _ _ _ H2) end.
      + destruct (exec tb k pure f intr env h c1) as [Ah|] eqn:Eh; [|discriminate].
        injection G as <-. exists c1, out1. split; auto. split; auto. apply Sub, r_add_new.
    - (* PRead *)
      inversion Hev; subst; simpl in He; core_split He; [intr_case | lift].
      apply leaf_sound; auto. intros c' out M. apply (mrun_one k pure _ _ _ _ M).
    - (* PInit *)
      inversion Hev; subst; simpl in He; core_split He; [intr_case | lift].
      apply leaf_sound; auto. intros c' out M. destruct (mrun_one k pure _ _ _ _ M) as [F G].
      simpl in F. unfold upd_flag. rewrite G. exact F.
    - (* PInitB *)
      inversion Hev; subst; simpl in He; core_split He; [intr_case | lift].
      apply leaf_sound; auto. intros c' out M. apply (mrun_one k pure _ _ _ _ M).
    - (* PUpd *)
      inversion Hev; subst; simpl in He; core_split He; [intr_case | lift].
      apply leaf_sound; auto. intros c' out M. apply (mrun_one k pure _ _ _ _ M).
    - (* PMeth *)
      inversion Hev; subst; simpl in He; core_split He; [intr_case | lift].
      apply leaf_sound; auto. intros c' out M. apply (mrun_one k pure _ _ _ _ M).
    - (* PUpdP *)
      inversion Hev; subst; simpl in He; core_split He; [intr_case | lift].
      apply leaf_sound; auto. intros c' out M. eapply param_leaf_flags; [|exact M]. intros y; exact I.
    - (* PMethP *)
      inversion Hev; subst; simpl in He; core_split He; [intr_case | lift].
      apply leaf_sound; auto. intros c' out M. eapply param_leaf_flags; [|exact M]. intros y; exact I.
    - (* PCall *)
      inversion Hev; subst; simpl in He; core_split He; [intr_case | lift].
      match goal with L : lookup_self tb k m = Some _ |- _ => rewrite L in Hc end.
      destruct (exec tb k pure f _ (map (resolve env) args) body c) as [Rb|] eqn:Eb; [|discriminate].
      inversion Hc; subst.
      match goal with H1 : eval _ _ _ _ body _ _ _ _ |- _ =>
        destruct (IH _ _ _ _ _ Eb _ _ _ H1) as (c1 & out1 & M1 & I1 & F1) end.
      exists c1, out1. split; auto. split; auto. apply call_fold_in; auto.
    - (* PSuper *)
      inversion Hev; subst; simpl in He; core_split He; [intr_case | lift].
      match goal with L : lookup_super tb m = Some _ |- _ => rewrite L in Hc end.
      destruct (exec tb k pure f _ (map (resolve env) args) body c) as [Rb|] eqn:Eb; [|discriminate].
      inversion Hc; subst.
      match goal with H1 : eval _ _ _ _ body _ _ _ _ |- _ =>
        destruct (IH _ _ _ _ _ Eb _ _ _ H1) as (c1 & out1 & M1 & I1 & F1) end.
      exists c1, out1. split; auto. split; auto. apply call_fold_in; auto.
  Qed.
End Sound2.

(* ---------- from the boolean check to the discipline of every call ---------- *)
Lemma all_b4_complete fl : In fl all_b4.
Proof. destruct fl as [[[[|] [|]] [|]] [|]]; simpl; tauto. Qed.

Lemma starts_in k fl : kind_okb k (getb fl) = true -> In fl (starts k).
Proof. intros H. unfold starts. apply filter_In. split; [apply all_b4_complete | exact H]. Qed.

Lemma mfinish_stk s o s' out : mfinish s o = Some (s', out) -> mstk s' = [].
Proof.
  unfold mfinish. destruct (mstk s) as [|[i m] [|? ?]] eqn:E; try discriminate.
  - intros H. inversion H; subst. exact E.
  - destruct o; try discriminate. destruct (getb (cfl (mw s)) Vars); [|discriminate].
    destruct (cstep (mw s) (BuildAbort i)); [|discriminate]. intros H. inversion H; subst. reflexivity.
Qed.

(* in pure mode the monitor never emits Mutate *)
Definition nm (r : option (mst * list action)) : Prop :=
  match r with Some (_, out) => count_mut out = 0 | None => True end.

Lemma emit_nm s a : a <> Mutate -> nm (emit s a).
Proof.
  intros N. unfold nm, emit. destruct (cstep (mw s) a); auto.
  destruct a; try reflexivity. contradiction.
Qed.

Lemma mstep_pure_nm k s e : nm (mstep k true s e).
Proof.
  assert (Q : forall s0 : mst, nm (quiet s0)) by (intros; reflexivity).
  assert (RD : forall i x, nm (m_read k s i x)).
  { intros i x. unfold m_read. destruct (mstk s) as [|[j m] rest]; [apply emit_nm; discriminate|].
    destruct (cid_eqb j i); [destruct (marked _ x m); simpl; auto|].
    destruct i; simpl; auto. apply emit_nm; discriminate. }
  assert (WR : forall x ip, nm (m_write k true s x ip)).
  { intros x ip. unfold m_write. destruct (role_of k x) as [[i|i| |]|]; simpl; auto.
    destruct ip.
    - unfold m_upd. destruct (mstk s) as [|[j m] rest]; simpl; auto.
      destruct (cid_eqb j i && marked (cache_attrs k i) x m); simpl; auto.
    - unfold m_init. destruct (mstk s) as [|[j m] rest].
      + destruct (getb (cfl (mw s)) i); simpl; auto.
      + destruct (cid_eqb j i); simpl; auto. destruct i; simpl; auto. destruct rest; simpl; auto.
        destruct (getb (cfl (mw s)) Vars); simpl; auto. }
  assert (LD : forall x, nm (m_load k true s x)).
  { intros x. unfold m_load. destruct (role_of k x) as [[i|i| |]|]; simpl; auto. }
  destruct e as [x b|x b|x|x|x|x m]; simpl; auto.
  - destruct (flag_of k x); simpl; auto; destruct (Bool.eqb _ b); simpl; auto.
  - destruct (flag_of k x) as [i|]; auto.
    unfold m_setflag. destruct b.
    + destruct (mstk s) as [|[j m] rest]; simpl; auto.
      destruct (cid_eqb j i && forallb (fun v => v) m && negb (getb (cfl (mw s)) i)
                && (cid_eqb i Vars || getb (cfl (mw s)) Vars)); simpl; auto.
      destruct (negb (getb (cdt (mw s)) i) && negb (getb (cdt (mw s)) Vars)); simpl; auto.
    + destruct (mstk s); simpl; auto.
  - destruct (meth_kind m) as [[| |]|]; simpl; auto.
Qed.

Lemma mrun_pure_nm k evs : forall s, nm (mrun k true s evs).
Proof.
  induction evs as [|e evs IH]; intros s; simpl; [reflexivity|].
  pose proof (mstep_pure_nm k s e) as A. destruct (mstep k true s e) as [[s1 o1]|]; simpl; auto.
  pose proof (IH s1) as B. destruct (mrun k true s1 evs) as [[s2 o2]|]; simpl; auto.
  simpl in A, B. rewrite count_mut_app. lia.
Qed.

Lemma mfinish_nm s o : nm (mfinish s o).
Proof.
  unfold mfinish. destruct (mstk s) as [|[i m] [|? ?]]; simpl; auto.
  destruct o; simpl; auto. destruct (getb (cfl (mw s)) Vars); simpl; auto.
  destruct i; simpl; auto;
    destruct (negb (getb (cdt (mw s)) _) && negb (getb (cdt (mw s)) Vars)); simpl; auto.
Qed.

(* what check_entry establishes for one call *)
Definition call_ok (k : kind) (pure strict : bool) (fl : b4) (evs : list fev) (fl' : b4) (o : outcome) : Prop :=
  exists tr s, abs_call k pure fl evs o = Some (tr, s) /\
    crun (mkCW fl none4) tr = Some (mw s) /\ cfl (mw s) = fl' /\ mstk s = [] /\
    kind_okb k (getb fl') = true /\
    (strict = true \/ o <> ORaise -> cdt (mw s) = none4) /\
    (pure = true -> count_mut tr = 0).

Theorem entry_sound tb k pure strict m :
  check_entry tb k pure strict m = true ->
  forall fl evs fl' o, kind_okb k (getb fl) = true -> call_of tb k m fl evs fl' o ->
  call_ok k pure strict fl evs fl' o.
Proof.
  unfold check_entry. intros C fl evs fl' o K (body & L & Hev). rewrite L in C.
  rewrite forallb_forall in C. specialize (C fl (starts_in k fl K)).
  destruct (exec tb k pure exec_fuel false [] body (mstart fl)) as [R|] eqn:E; [|discriminate].
  destruct (exec_sound tb k pure exec_fuel false [] body (mstart fl) R E evs fl' o Hev)
    as (c' & out & M & I & F).
  rewrite forallb_forall in C. specialize (C _ I). unfold end_ok in C. simpl fst in C. simpl snd in C.
  destruct (mfinish_ok c' o) as [FA FB]. pose proof (mfinish_nm c' o) as FN.
  destruct (mfinish c' o) as [[s out2]|] eqn:MF; [|discriminate].
  apply andb_true_iff in C. destruct C as [CK CD].
  exists (out ++ out2), s. unfold abs_call. rewrite M, MF. split; [reflexivity|].
  simpl in FA, FB.
  pose proof (mrun_crun k pure evs (mstart fl) c' out M) as MC. unfold mstart in MC. cbn [mw] in MC.
  split; [rewrite crun_app, MC; exact FA|].
  split; [congruence|]. split; [eapply mfinish_stk; eauto|].
  split; [rewrite FB, F in CK; exact CK|].
  split.
  - intros [->|N]; [apply b4_eqb_eq; exact CD|].
    destruct strict; [apply b4_eqb_eq; exact CD|].
    destruct o; try (apply b4_eqb_eq; exact CD). congruence.
  - intros ->. pose proof (mrun_pure_nm k evs (mstart fl)) as A. rewrite M in A. simpl in A, FN.
    rewrite count_mut_app. lia.
Qed.

(* ---------- histories ---------- *)
Lemma disciplined_query tb k m :
  disciplined_skel tb = true -> In m (queries k) -> check_entry tb k true true m = true.
Proof.
  unfold disciplined_skel. rewrite forallb_forall. intros D I.
  assert (Ik : In k all_kinds) by (destruct k; simpl; auto).
  specialize (D k Ik). unfold disciplined_kind in D. apply andb_true_iff in D. destruct D as [Q _].
  rewrite forallb_forall in Q. auto.
Qed.

Lemma disciplined_heur tb k m :
  disciplined_skel tb = true -> In m (mutators k) -> check_entry tb k false false m = true.
Proof.
  unfold disciplined_skel. rewrite forallb_forall. intros D I.
  assert (Ik : In k all_kinds) by (destruct k; simpl; auto).
  specialize (D k Ik). unfold disciplined_kind in D. apply andb_true_iff in D. destruct D as [_ Q].
  rewrite forallb_forall in Q. auto.
Qed.

Lemma weq_none4_clean ws fl : weq ws (to_ws (mkCW fl none4)) -> cleanb ws = true.
Proof. intros E. apply cleanb_clean. intros i. destruct (E i) as [_ ->]. destruct i; reflexivity. Qed.

Lemma abs_cons k p strict fl evs fl1 o h trs :
  call_ok k p strict fl evs fl1 o -> (strict = true \/ o <> ORaise) ->
  abs_history k fl1 h = Some trs ->
  exists tr, abs_history k fl ((p, evs, o) :: h) = Some (tr :: trs) /\
    (p = true -> count_mut tr = 0) /\
    forall ws, weq ws (to_ws (mkCW fl none4)) ->
      exists ws1, wf_run ws tr = Some ws1 /\ cleanb ws1 = true /\ weq ws1 (to_ws (mkCW fl1 none4)).
Proof.
  intros (tr & s & A & C & F & _ & _ & D & P) OK H. exists tr. simpl. rewrite A, F, H.
  split; [reflexivity|]. split; [exact P|]. intros ws E.
  destruct (crun_wf_run tr _ _ ws C E) as (ws1 & W & E1).
  assert (X : mw s = mkCW fl1 none4).
  { specialize (D OK). destruct (mw s) as [a b]. simpl in *. subst. reflexivity. }
  rewrite X in E1. exists ws1. split; auto. split; auto. eapply weq_none4_clean; eauto.
Qed.

Definition hist_concl (k : kind) (fl : b4) (h : list ucall) (fl' : b4) : Prop :=
  exists trs, abs_history k fl h = Some trs /\ kind_okb k (getb fl') = true /\
    (forall ws, weq ws (to_ws (mkCW fl none4)) ->
       exists ws', hist_ok ws trs = Some ws' /\ weq ws' (to_ws (mkCW fl' none4))) /\
    (Forall (fun u : ucall => fst (fst u) = true) h -> count_mut (concat trs) = 0).

Lemma hist_concl_nil k fl : kind_okb k (getb fl) = true -> hist_concl k fl [] fl.
Proof.
  intros K. exists []. split; [reflexivity|]. split; auto. split.
  - intros ws E. exists ws. split; auto.
  - intros _. reflexivity.
Qed.

Lemma hist_concl_cons k p strict fl evs fl1 o h fl2 :
  call_ok k p strict fl evs fl1 o -> (strict = true \/ o <> ORaise) ->
  hist_concl k fl1 h fl2 -> hist_concl k fl ((p, evs, o) :: h) fl2.
Proof.
  intros CO OK (trs & A & K2 & HO & PM).
  destruct (abs_cons k p strict fl evs fl1 o h trs CO OK A) as (tr & A' & P & W).
  exists (tr :: trs). split; auto. split; auto. split.
  - intros ws E. destruct (W ws E) as (ws1 & W1 & C1 & E1).
    destruct (HO ws1 E1) as (ws' & H' & E'). exists ws'. simpl. rewrite W1, C1. auto.
  - intros FA. inversion FA; subst. simpl in *. rewrite count_mut_app, P, PM; auto.
Qed.

Lemma call_ok_kind k p strict fl evs fl1 o : call_ok k p strict fl evs fl1 o -> kind_okb k (getb fl1) = true.
Proof. intros (tr & s & _ & _ & _ & _ & K & _). exact K. Qed.

Theorem history_hist_ok tb k :
  disciplined_skel tb = true ->
  forall fl h fl', history tb k fl h fl' -> kind_okb k (getb fl) = true -> hist_concl k fl h fl'.
Proof.
  intros D fl h fl' H.
  induction H as [fl|fl m evs fl1 o h fl2 Im C H IH|fl m evs fl1 o h fl2 Im C N H IH]; intros K.
  - apply hist_concl_nil; auto.
  - pose proof (entry_sound tb k true true m (disciplined_query tb k m D Im) fl evs fl1 o K C) as CO.
    eapply hist_concl_cons; [exact CO | left; reflexivity | apply IH; eapply call_ok_kind; eauto].
  - pose proof (entry_sound tb k false false m (disciplined_heur tb k m D Im) fl evs fl1 o K C) as CO.
    eapply hist_concl_cons; [exact CO | right; exact N | apply IH; eapply call_ok_kind; eauto].
Qed.

(* ... and with make_feasible calls that raise, for a class whose heuristic passes the strict check *)
Theorem history_r_hist_ok tb k :
  disciplined_skel tb = true -> heuristic_raise_clean tb k = true ->
  forall fl h fl', history_r tb k fl h fl' -> kind_okb k (getb fl) = true -> hist_concl k fl h fl'.
Proof.
  intros D S fl h fl' H. induction H as [fl|fl m evs fl1 o h fl2 Im C H IH|fl evs fl1 o h fl2 C H IH]; intros K.
  - apply hist_concl_nil; auto.
  - pose proof (entry_sound tb k true true m (disciplined_query tb k m D Im) fl evs fl1 o K C) as CO.
    eapply hist_concl_cons; [exact CO | left; reflexivity | apply IH; eapply call_ok_kind; eauto].
  - pose proof (entry_sound tb k false true heuristic S fl evs fl1 o K C) as CO.
    eapply hist_concl_cons; [exact CO | left; reflexivity | apply IH; eapply call_ok_kind; eauto].
Qed.

(* ---------- the conclusions of Cache.v for a model state with those flags ---------- *)
Definition flags_are (st : state) (fl : b4) : Prop := forall i, flag st i = getb fl i.

Lemma flags_weq st fl : flags_are st fl -> weq (ws_of st) (to_ws (mkCW fl none4)).
Proof. intros F i. simpl. split; [apply F | destruct i; reflexivity]. Qed.

Theorem hist_concl_fresh k fl h fl' st :
  hist_concl k fl h fl' -> Inv st -> flags_are st fl ->
  exists trs, abs_history k fl h = Some trs /\
    disciplined (concat trs) st = true /\ Forall Inv (hist_states st trs) /\ Inv (run st (concat trs)) /\
    (forall (D C : Type) (dat : nat -> D) (F : cid -> D -> D -> C),
       Forall (fun p => fst p = Some (snd p)) (read_contents D C dat F (concat trs) st)) /\
    (Forall (fun u : ucall => fst (fst u) = true) h ->
       version (run st (concat trs)) = version st /\
       reads (concat trs) st = map (fun i => (i, (Some (version st), Some (version st)))) (read_ids (concat trs))).
Proof.
  intros (trs & A & _ & HO & PM) I F. exists trs. split; auto.
  destruct (HO _ (flags_weq st fl F)) as (ws' & H' & _).
  destruct (history_fresh st trs ws' I H') as (D1 & D2 & D3).
  split; auto. split; auto. split; auto. split.
  - intros D C dat F0. apply read_contents_fresh. exact D1.
  - intros Q. specialize (PM Q). split.
    + rewrite version_run, PM. lia.
    + apply reads_disciplined; auto.
Qed.

(* one call, in the vocabulary of Cache.heur_ok: from a clean flag-level state with the object's flags the
   abstraction of the call passes wf_run, ends clean, with the flags the call ended with *)
Theorem call_ok_wf k p strict fl evs fl' o :
  call_ok k p strict fl evs fl' o -> (strict = true \/ o <> ORaise) ->
  exists tr s, abs_call k p fl evs o = Some (tr, s) /\ (p = true -> count_mut tr = 0) /\
    forall ws, clean ws -> (forall i, wflag ws i = getb fl i) ->
    exists ws', wf_run ws tr = Some ws' /\ clean ws' /\ (forall i, wflag ws' i = getb fl' i) /\
                kind_okb k (wflag ws') = true.
Proof.
  intros (tr & s & A & C & F & _ & K & D & P) OK. exists tr, s. split; auto. split; auto.
  intros ws CL FL.
  assert (E : weq ws (to_ws (mkCW fl none4))).
  { intros i. simpl. split; [apply FL | rewrite CL; destruct i; reflexivity]. }
  destruct (crun_wf_run tr _ _ ws C E) as (ws1 & W & E1).
  assert (X : mw s = mkCW fl' none4).
  { specialize (D OK). destruct (mw s) as [a b]. simpl in *. subst. reflexivity. }
  rewrite X in E1. exists ws1. split; auto. split.
  - apply cleanb_clean. eapply weq_none4_clean; eauto.
  - split; [intros i; apply (E1 i)|].
    rewrite (kind_okb_ext k (wflag ws1) (getb fl')); auto. intros i; apply (E1 i).
Qed.
