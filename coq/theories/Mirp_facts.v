(* Mirp_facts.v -- lemmas about the MIRP window formulas and add_nodes (property C11). *)
From Coq Require Import QArith Qround Lqa Lia.
From VQ Require Import Base Mirp.
Local Open Scope Q_scope.

(* ---------- boolean comparisons ---------- *)
Lemma Qltb_lt a b : Qltb a b = true <-> a < b.
Proof.
  unfold Qltb. rewrite negb_true_iff. split; intro H.
  - destruct (Qlt_le_dec a b) as [L|L]; auto. apply Qle_bool_iff in L. congruence.
  - destruct (Qle_bool b a) eqn:E; auto. apply Qle_bool_iff in E. lra.
Qed.
Lemma Qltb_ge a b : Qltb a b = false <-> b <= a.
Proof.
  unfold Qltb. rewrite negb_false_iff. apply Qle_bool_iff.
Qed.
Lemma Qle_bool_false a b : Qle_bool a b = false <-> b < a.
Proof.
  split; intro H.
  - destruct (Qlt_le_dec b a) as [L|L]; auto. apply Qle_bool_iff in L. congruence.
  - destruct (Qle_bool a b) eqn:E; auto. apply Qle_bool_iff in E. lra.
Qed.
Lemma Qeq_bool_false a b : Qeq_bool a b = false <-> ~ a == b.
Proof.
  split; intro H.
  - intro E. apply Qeq_bool_iff in E. congruence.
  - destruct (Qeq_bool a b) eqn:E; auto. apply Qeq_bool_iff in E. contradiction.
Qed.

(* ---------- naturals inside Q ---------- *)
Lemma Qn_S k : Qn (S k) == Qn k + 1.
Proof. unfold Qn. rewrite Nat2Z.inj_succ. unfold Z.succ. rewrite inject_Z_plus. reflexivity. Qed.
Lemma Qn_0 : Qn 0 == 0.
Proof. reflexivity. Qed.
Lemma Qn_le a b : (a <= b)%nat -> Qn a <= Qn b.
Proof. intro H. unfold Qn. rewrite <- Zle_Qle. lia. Qed.
Lemma Qn_nonneg a : 0 <= Qn a.
Proof. change 0 with (Qn 0). apply Qn_le. lia. Qed.

(* first natural strictly above a rational *)
Lemma Qn_gt_iff (x : Q) (k : nat) : x < Qn k <-> (Z.to_nat (Qfloor x + 1) <= k)%nat.
Proof.
  pose proof (Qfloor_le x) as L. pose proof (Qlt_floor x) as U.
  unfold Qn. split; intro H.
  - assert (Hz : (Qfloor x < Z.of_nat k)%Z).
    { rewrite Zlt_Qlt. lra. }
    lia.
  - assert (Hz : (Qfloor x + 1 <= Z.of_nat k)%Z) by lia.
    rewrite Zle_Qle in Hz. lra.
Qed.

(* ---------- division by the rate ---------- *)
Lemma div_le_pos a r t : 0 < r -> (a / r <= t <-> a <= r * t).
Proof.
  intros Hr. assert (E : a == (a / r) * r) by (field; lra).
  set (x := a / r) in *. split; intro; nra.
Qed.
Lemma div_ge_pos a r t : 0 < r -> (t <= a / r <-> r * t <= a).
Proof.
  intros Hr. assert (E : a == (a / r) * r) by (field; lra).
  set (x := a / r) in *. split; intro; nra.
Qed.
Lemma div_le_neg a r t : r < 0 -> (a / r <= t <-> r * t <= a).
Proof.
  intros Hr. assert (E : a == (a / r) * r) by (field; lra).
  set (x := a / r) in *. split; intro; nra.
Qed.
Lemma div_ge_neg a r t : r < 0 -> (t <= a / r <-> a <= r * t).
Proof.
  intros Hr. assert (E : a == (a / r) * r) by (field; lra).
  set (x := a / r) in *. split; intro; nra.
Qed.
Lemma div_gt_pos a r t : 0 < r -> (t < a / r <-> r * t < a).
Proof.
  intros Hr. assert (E : a == (a / r) * r) by (field; lra).
  set (x := a / r) in *. split; intro; nra.
Qed.
Lemma div_gt_neg a r t : r < 0 -> (t < a / r <-> a < r * t).
Proof.
  intros Hr. assert (E : a == (a / r) * r) by (field; lra).
  set (x := a / r) in *. split; intro; nra.
Qed.

(* ---------- which branch of get_time_window ---------- *)
Lemma window_supply size k init rate cap : 0 < rate ->
  window size k init rate cap = (tw0_s size k init rate cap, tw1_s size k init rate cap).
Proof. intro H. unfold window. apply Qltb_lt in H. rewrite H. reflexivity. Qed.
Lemma window_demand size k init rate cap : rate < 0 ->
  window size k init rate cap = (tw0_d size k init rate cap, tw1_d size k init rate cap).
Proof.
  intro H. unfold window. assert (E : Qltb 0 rate = false) by (apply Qltb_ge; lra).
  rewrite E. reflexivity.
Qed.

(* ---------- the windows are exactly the feasibility intervals ---------- *)
Lemma supply_open size k init rate cap t : 0 < rate ->
  (0 <= init + rate * t - (Qn k + 1) * size <-> tw0 size k init rate cap <= t).
Proof.
  intro H. unfold tw0. rewrite window_supply by auto. cbn [fst]. unfold tw0_s.
  rewrite div_le_pos by auto. split; intro; lra.
Qed.
Lemma supply_close size k init rate cap t : 0 < rate ->
  (init + rate * t - Qn k * size <= cap <-> t <= tw1 size k init rate cap).
Proof.
  intro H. unfold tw1. rewrite window_supply by auto. cbn [snd]. unfold tw1_s.
  rewrite div_ge_pos by auto. split; intro; lra.
Qed.
Lemma demand_open size k init rate cap t : rate < 0 ->
  (init + rate * t + (Qn k + 1) * size <= cap <-> tw0 size k init rate cap <= t).
Proof.
  intro H. unfold tw0. rewrite window_demand by auto. cbn [fst]. unfold tw0_d.
  rewrite div_le_neg by auto. split; intro; lra.
Qed.
Lemma demand_close size k init rate cap t : rate < 0 ->
  (0 <= init + rate * t + Qn k * size <-> t <= tw1 size k init rate cap).
Proof.
  intro H. unfold tw1. rewrite window_demand by auto. cbn [snd]. unfold tw1_d.
  rewrite div_ge_neg by auto. split; intro; lra.
Qed.

(* the window is well-formed (Node accepts it) exactly when a cargo fits into the tank *)
Lemma window_ordered_iff size k init rate cap : ~ rate == 0 ->
  (tw0 size k init rate cap <= tw1 size k init rate cap <-> size <= cap).
Proof.
  intro Hr. destruct (Qlt_le_dec 0 rate) as [Hp|Hn].
  - unfold tw0, tw1. rewrite window_supply by auto. cbn [fst snd]. unfold tw0_s, tw1_s.
    rewrite div_le_pos by auto.
    assert (E : rate * ((cap + Qn k * size - init) / rate) == cap + Qn k * size - init) by (field; lra).
    rewrite E. split; intro; lra.
  - assert (Hn' : rate < 0) by (destruct (Qeq_dec rate 0); [contradiction | lra]).
    unfold tw0, tw1. rewrite window_demand by auto. cbn [fst snd]. unfold tw0_d, tw1_d.
    rewrite div_le_neg by auto.
    assert (E : rate * ((- Qn k * size - init) / rate) == - Qn k * size - init) by (field; lra).
    rewrite E. split; intro; lra.
Qed.

(* the loop of add_nodes leaves exactly at k = nvisits: tw1 k > H  <->  nvisits <= k *)
Lemma tw1_gt_horizon_iff size H init rate cap k : 0 < size -> ~ rate == 0 ->
  (H < tw1 size k init rate cap <-> (nvisits size H init rate cap <= k)%nat).
Proof.
  intros Hs Hr. unfold nvisits. rewrite <- Qn_gt_iff. unfold kbound.
  destruct (Qlt_le_dec 0 rate) as [Hp|Hn].
  - unfold tw1. rewrite window_supply by auto. cbn [snd]. unfold tw1_s.
    assert (B : Qltb 0 rate = true) by (apply Qltb_lt; auto). rewrite B.
    rewrite div_gt_pos by auto.
    assert (E : (H * rate + init - cap) == ((H * rate + init - cap) / size) * size) by (field; lra).
    set (x := (H * rate + init - cap) / size) in *. split; intro; nra.
  - assert (Hn' : rate < 0) by (destruct (Qeq_dec rate 0); [contradiction | lra]).
    unfold tw1. rewrite window_demand by auto. cbn [snd]. unfold tw1_d.
    assert (B : Qltb 0 rate = false) by (apply Qltb_ge; lra). rewrite B.
    rewrite div_gt_neg by auto.
    assert (E : (- (H * rate) - init) == ((- (H * rate) - init) / size) * size) by (field; lra).
    set (x := (- (H * rate) - init) / size) in *. split; intro; nra.
Qed.

Lemma tw1_strictly_increasing size k init rate cap : 0 < size -> ~ rate == 0 ->
  tw1 size k init rate cap < tw1 size (S k) init rate cap.
Proof.
  intros Hs Hr. pose proof (Qn_S k) as ES.
  destruct (Qlt_le_dec 0 rate) as [Hp|Hn].
  - unfold tw1. rewrite !window_supply by auto. cbn [snd]. unfold tw1_s.
    apply div_gt_pos; auto.
    assert (E : rate * ((cap + Qn k * size - init) / rate) == cap + Qn k * size - init) by (field; lra).
    rewrite E. nra.
  - assert (Hn' : rate < 0) by (destruct (Qeq_dec rate 0); [contradiction | lra]).
    unfold tw1. rewrite !window_demand by auto. cbn [snd]. unfold tw1_d.
    apply div_gt_neg; auto.
    assert (E : rate * ((- Qn k * size - init) / rate) == - Qn k * size - init) by (field; lra).
    rewrite E. nra.
Qed.

(* ---------- names and positions ---------- *)
Lemma nname_eqb_eq a b : nname_eqb a b = true <-> a = b.
Proof.
  destruct a, b; simpl; try (split; [discriminate | congruence]); try tauto.
  - rewrite andb_true_iff, !Nat.eqb_eq. split; [intros [-> ->]; auto | intro E; inversion E; auto].
  - rewrite Nat.eqb_eq. split; [intros ->; auto | intro E; inversion E; auto].
Qed.
Lemma nname_eqb_refl a : nname_eqb a a = true.
Proof. apply nname_eqb_eq; reflexivity. Qed.
Lemma nname_eqb_neq a b : nname_eqb a b = false <-> a <> b.
Proof.
  split.
  - intros H E. apply nname_eqb_eq in E. congruence.
  - intro H. destruct (nname_eqb a b) eqn:E; auto. apply nname_eqb_eq in E. contradiction.
Qed.

Lemma has_name_In x l : has_name x l = true <-> In x (map nm l).
Proof.
  unfold has_name. induction l as [|n l IH]; simpl.
  - split; [discriminate | tauto].
  - destruct (nname_eqb x (nm n)) eqn:E.
    + apply nname_eqb_eq in E. subst. tauto.
    + apply nname_eqb_neq in E. destruct (pos_of x l); simpl in *.
      * split; auto. intros _. right. apply IH. reflexivity.
      * split; [discriminate|]. intros [H|H]; [congruence|]. apply IH in H. discriminate.
Qed.
Lemma has_name_app x l m : has_name x (l ++ m) = has_name x l || has_name x m.
Proof.
  destruct (has_name x (l ++ m)) eqn:E.
  - apply has_name_In in E. rewrite map_app, in_app_iff in E. symmetry. apply orb_true_iff.
    destruct E as [E|E]; [left|right]; apply has_name_In; auto.
  - symmetry. apply orb_false_iff. split.
    + destruct (has_name x l) eqn:F; auto. apply has_name_In in F.
      assert (G : has_name x (l ++ m) = true) by (apply has_name_In; rewrite map_app, in_app_iff; auto).
      congruence.
    + destruct (has_name x m) eqn:F; auto. apply has_name_In in F.
      assert (G : has_name x (l ++ m) = true) by (apply has_name_In; rewrite map_app, in_app_iff; auto).
      congruence.
Qed.

(* ---------- port_mapping ---------- *)
Definition pm_appends (p : nat) (xs : list nname) (m : list (nat * list nname)) :=
  fold_left (fun m x => pm_append p x m) xs m.

Lemma pm_get_set_same p l m : pm_get p (pm_set p l m) = Some l.
Proof.
  induction m as [|[q l'] m IH]; simpl.
  - rewrite Nat.eqb_refl. reflexivity.
  - destruct (Nat.eqb p q) eqn:E; simpl; rewrite E; auto.
Qed.
Lemma pm_get_set_other p q l m : p <> q -> pm_get q (pm_set p l m) = pm_get q m.
Proof.
  intro H. induction m as [|[r l'] m IH]; simpl.
  - destruct (Nat.eqb q p) eqn:E; auto. apply Nat.eqb_eq in E. congruence.
  - destruct (Nat.eqb p r) eqn:E; simpl.
    + apply Nat.eqb_eq in E. subst r. destruct (Nat.eqb q p) eqn:F; auto.
      apply Nat.eqb_eq in F. congruence.
    + destruct (Nat.eqb q r); auto.
Qed.
Lemma pm_get_append_same p x l m : pm_get p m = Some l -> pm_get p (pm_append p x m) = Some (l ++ [x]).
Proof.
  induction m as [|[q l'] m IH]; simpl; [discriminate|].
  destruct (Nat.eqb p q) eqn:E; simpl; rewrite E; auto.
  intro H. inversion H. reflexivity.
Qed.
Lemma pm_get_append_other p q x m : p <> q -> pm_get q (pm_append p x m) = pm_get q m.
Proof.
  intro H. induction m as [|[r l'] m IH]; simpl; auto.
  destruct (Nat.eqb p r) eqn:E; simpl.
  - apply Nat.eqb_eq in E. subst r. destruct (Nat.eqb q p) eqn:F; auto.
    apply Nat.eqb_eq in F. congruence.
  - destruct (Nat.eqb q r); auto.
Qed.
Lemma pm_get_appends_same p xs : forall l m,
  pm_get p m = Some l -> pm_get p (pm_appends p xs m) = Some (l ++ xs).
Proof.
  induction xs as [|x xs IH]; simpl; intros l m H.
  - rewrite app_nil_r. auto.
  - rewrite (IH (l ++ [x])).
    + rewrite <- app_assoc. reflexivity.
    + apply pm_get_append_same. auto.
Qed.
Lemma pm_get_appends_other p q xs : p <> q -> forall m, pm_get q (pm_appends p xs m) = pm_get q m.
Proof.
  intro H. induction xs as [|x xs IH]; simpl; intro m; auto.
  rewrite IH. apply pm_get_append_other. auto.
Qed.

(* ---------- add_nodes ---------- *)
Definition visit_names (name : nat) (k n : nat) : list nname := map (NVisit name) (seq k n).
Definition visit_nodes (size : Q) (name : nat) (init rate cap : Q) (k n : nat) : list mnode :=
  map (fun j => visit_node size name j init rate cap) (seq k n).

(* the state reached after the visits k .. k+n-1 have been added *)
Definition state_after (s : mstate) (name : nat) (init rate cap : Q) (k n : nat) : mstate :=
  mkState (mkGraph (mnodes (gr s) ++ visit_nodes (csize s) name init rate cap k n) (marcs (gr s)))
          (sports s) (dports s) (pm_appends name (visit_names name k n) (pmap s))
          (csize s) (horizon s).

Lemma add_nodes_loop_ok name init rate cap :
  forall n k s acc fuel,
    0 < csize s -> ~ rate == 0 -> csize s <= cap ->
    (k + n = nvisits (csize s) (horizon s) init rate cap)%nat ->
    (n < fuel)%nat ->
    (forall j, (k <= j)%nat -> has_name (NVisit name j) (mnodes (gr s)) = false) ->
    add_nodes_loop fuel s name init rate cap (demand_level (csize s) rate) k acc
    = (state_after s name init rate cap k n, Ok (acc ++ visit_names name k n)).
Proof.
  induction n as [|n IH]; intros k s acc fuel Hs Hr Hc HK Hf Hfresh.
  - destruct fuel as [|f]; [lia|]. cbn [add_nodes_loop].
    assert (B : Qltb (horizon s) (snd (window (csize s) k init rate cap)) = true).
    { apply Qltb_lt. apply (tw1_gt_horizon_iff (csize s) (horizon s) init rate cap k); auto. lia. }
    rewrite B. unfold state_after, visit_nodes, visit_names. simpl. rewrite !app_nil_r.
    destruct s as [[ns ar] sp dp pm sz hz]; reflexivity.
  - destruct fuel as [|f]; [lia|]. cbn [add_nodes_loop].
    assert (B : Qltb (horizon s) (snd (window (csize s) k init rate cap)) = false).
    { apply Qltb_ge. destruct (Qlt_le_dec (horizon s) (snd (window (csize s) k init rate cap))) as [L|L]; auto.
      apply (tw1_gt_horizon_iff (csize s) (horizon s) init rate cap k) in L; auto. lia. }
    rewrite B. unfold g_add_node. rewrite (Hfresh k) by lia.
    assert (W : q_le_ext (fst (window (csize s) k init rate cap)) (QFin (snd (window (csize s) k init rate cap))) = true).
    { simpl. apply Qle_bool_iff. apply (window_ordered_iff (csize s) k init rate cap); auto. }
    rewrite W. cbn [negb].
    set (s2 := mkState _ _ _ _ _ _).
    change (demand_level (csize s) rate) with (demand_level (csize s2) rate).
    rewrite (IH (S k) s2); subst s2; cbn [csize horizon gr mnodes marcs sports dports pmap]; auto; try lia.
    + unfold state_after, visit_nodes, visit_names, visit_node, tw0, tw1.
      cbn [csize horizon gr mnodes marcs sports dports pmap seq map pm_appends fold_left].
      rewrite <- !app_assoc. reflexivity.
    + intros j Hj. rewrite has_name_app. rewrite Hfresh by lia. simpl.
      unfold has_name. simpl. destruct (Nat.eqb name name && Nat.eqb j k) eqn:E; auto.
      apply andb_true_iff in E. destruct E as [_ E]. apply Nat.eqb_eq in E. lia.
Qed.

(* the state after the bookkeeping at the start of add_nodes *)
Definition state_port_added (s : mstate) (name : nat) (rate : Q) : mstate :=
  mkState (gr s)
          (if Qltb 0 rate then sports s ++ [name] else sports s)
          (if Qltb 0 rate then dports s else dports s ++ [name])
          (pm_set name [] (pmap s)) (csize s) (horizon s).

Lemma add_nodes_fuel_ok s name init rate cap fuel :
  0 < csize s -> ~ rate == 0 -> csize s <= cap ->
  (nvisits (csize s) (horizon s) init rate cap < fuel)%nat ->
  (forall j, has_name (NVisit name j) (mnodes (gr s)) = false) ->
  add_nodes_fuel fuel s name init rate cap
  = (state_after (state_port_added s name rate) name init rate cap 0
       (nvisits (csize s) (horizon s) init rate cap),
     Ok (visit_names name 0 (nvisits (csize s) (horizon s) init rate cap))).
Proof.
  intros Hs Hr Hc Hf Hfresh. unfold add_nodes_fuel.
  assert (E : Qeq_bool rate 0 = false) by (apply Qeq_bool_false; auto). rewrite E.
  fold (state_port_added s name rate).
  change (demand_level (csize s) rate) with (demand_level (csize (state_port_added s name rate)) rate).
  rewrite (add_nodes_loop_ok name init rate cap (nvisits (csize s) (horizon s) init rate cap) 0
             (state_port_added s name rate) [] fuel); auto.
Qed.

(* a cargo larger than the tank: the first Node raises, unless even the first window ends after the horizon *)
Lemma add_nodes_fuel_too_big s name init rate cap fuel :
  0 < csize s -> ~ rate == 0 -> cap < csize s -> (0 < fuel)%nat ->
  (forall j, has_name (NVisit name j) (mnodes (gr s)) = false) ->
  add_nodes_fuel fuel s name init rate cap
  = (state_port_added s name rate,
     if Qltb (horizon s) (tw1 (csize s) 0 init rate cap) then Ok [] else Err ValueError).
Proof.
  intros Hs Hr Hc Hf Hfresh. unfold add_nodes_fuel.
  assert (E : Qeq_bool rate 0 = false) by (apply Qeq_bool_false; auto). rewrite E.
  fold (state_port_added s name rate).
  destruct fuel as [|f]; [lia|]. cbn [add_nodes_loop].
  cbn [csize horizon state_port_added]. unfold tw1.
  destruct (Qltb (horizon s) (snd (window (csize s) 0 init rate cap))); auto.
  unfold g_add_node. cbn [gr state_port_added]. rewrite Hfresh.
  assert (W : q_le_ext (fst (window (csize s) 0 init rate cap)) (QFin (snd (window (csize s) 0 init rate cap))) = false).
  { simpl. apply Qle_bool_false.
    destruct (Qlt_le_dec (snd (window (csize s) 0 init rate cap)) (fst (window (csize s) 0 init rate cap))) as [L|L]; auto.
    apply (window_ordered_iff (csize s) 0 init rate cap) in L; auto. lra. }
  rewrite W. reflexivity.
Qed.

(* ---------- counting serviced visits ---------- *)
Lemma count_le n p : (count n p <= n)%nat.
Proof. induction n; simpl; [lia|]. destruct (p n); lia. Qed.

(* a counted set of N > 0 naturals has an element >= N-1 *)
Lemma count_pos_witness n p : (0 < count n p)%nat ->
  exists M, (M < n)%nat /\ p M = true /\ (count n p <= S M)%nat.
Proof.
  induction n as [|n IH]; simpl; [lia|]. intro H.
  destruct (p n) eqn:E.
  - exists n. pose proof (count_le n p). repeat split; auto; lia.
  - destruct IH as [M [H1 [H2 H3]]]; [lia|]. exists M. repeat split; auto; lia.
Qed.

(* if fewer than n of the naturals below n are counted, some m <= count is not counted *)
Lemma count_lt_witness n p : (count n p < n)%nat ->
  exists m, (m < n)%nat /\ p m = false /\ (m <= count n p)%nat.
Proof.
  induction n as [|n IH]; simpl; [lia|]. intro H.
  pose proof (count_le n p) as L.
  destruct (p n) eqn:E.
  - destruct IH as [m [H1 [H2 H3]]]; [lia|]. exists m. repeat split; auto; lia.
  - destruct (Nat.eq_dec (count n p) n) as [F|F].
    + exists n. repeat split; auto; lia.
    + destruct IH as [m [H1 [H2 H3]]]; [lia|]. exists m. repeat split; auto; lia.
Qed.

(* ---------- safety ---------- *)
(* generic over the counting predicate p: counted visits were serviced no later than t,
   uncounted ones no earlier than t *)
Lemma safety_generic size H init rate cap (tau : nat -> Q) (p : nat -> bool) t :
  0 < size -> ~ rate == 0 -> 0 <= init -> init <= cap -> size <= cap ->
  let K := nvisits size H init rate cap in
  (forall k, (k < K)%nat -> tw0 size k init rate cap <= tau k /\ tau k <= tw1 size k init rate cap) ->
  (forall k, p k = true -> tau k <= t) ->
  (forall k, p k = false -> t <= tau k) ->
  0 <= t -> t <= H ->
  let inv := init + rate * t + demand_level size rate * Qn (count K p) in
  0 <= inv /\ inv <= cap.
Proof.
  intros Hs Hr Hi0 Hi1 Hc K Htau Hp1 Hp0 Ht0 HtH inv.
  pose proof (count_le K p) as NK.
  (* the window of visit K (not generated) ends after the horizon *)
  assert (HK : H < tw1 size K init rate cap).
  { apply tw1_gt_horizon_iff; auto. }
  (* facts about the number N of counted visits *)
  assert (Lo : (0 < count K p)%nat ->
               exists M, tw0 size M init rate cap <= t /\ Qn (count K p) <= Qn M + 1).
  { intro Hpos. destruct (count_pos_witness K p Hpos) as [M [M1 [M2 M3]]].
    exists M. split.
    - destruct (Htau M M1) as [A _]. pose proof (Hp1 M M2). lra.
    - rewrite <- Qn_S. apply Qn_le. lia. }
  assert (Up : exists m, t <= tw1 size m init rate cap /\ Qn m <= Qn (count K p)).
  { destruct (Nat.eq_dec (count K p) K) as [E|E].
    - exists K. split; [lra|]. rewrite E. lra.
    - destruct (count_lt_witness K p) as [m [m1 [m2 m3]]]; [lia|].
      exists m. split.
      + destruct (Htau m m1) as [_ A]. pose proof (Hp0 m m2). lra.
      + apply Qn_le. auto. }
  pose proof (Qn_nonneg (count K p)) as N0.
  destruct (Qlt_le_dec 0 rate) as [Hp|Hn].
  - (* supply port *)
    assert (D : demand_level size rate = - size).
    { unfold demand_level. apply Qltb_lt in Hp. rewrite Hp. reflexivity. }
    subst inv. rewrite D. split.
    + destruct (Nat.eq_dec (count K p) 0) as [Z|Z].
      * rewrite Z. change (Qn 0) with 0. nra.
      * destruct Lo as [M [A B]]; [lia|].
        apply (supply_open size M init rate cap t Hp) in A. nra.
    + destruct Up as [m [A B]].
      apply (supply_close size m init rate cap t Hp) in A. nra.
  - (* demand port *)
    assert (Hn' : rate < 0) by (destruct (Qeq_dec rate 0); [contradiction | lra]).
    assert (D : demand_level size rate = size).
    { unfold demand_level. assert (E : Qltb 0 rate = false) by (apply Qltb_ge; lra). rewrite E. reflexivity. }
    subst inv. rewrite D. split.
    + destruct Up as [m [A B]].
      apply (demand_close size m init rate cap t Hn') in A. nra.
    + destruct (Nat.eq_dec (count K p) 0) as [Z|Z].
      * rewrite Z. change (Qn 0) with 0. nra.
      * destruct Lo as [M [A B]]; [lia|].
        apply (demand_open size M init rate cap t Hn') in A. nra.
Qed.

Lemma safety size H init rate cap (tau : nat -> Q) t :
  0 < size -> ~ rate == 0 -> 0 <= init -> init <= cap -> size <= cap ->
  let K := nvisits size H init rate cap in
  (forall k, (k < K)%nat -> tw0 size k init rate cap <= tau k /\ tau k <= tw1 size k init rate cap) ->
  0 <= t -> t <= H ->
  (0 <= inv_before size init rate K tau t /\ inv_before size init rate K tau t <= cap) /\
  (0 <= inv_after size init rate K tau t /\ inv_after size init rate K tau t <= cap).
Proof.
  intros Hs Hr Hi0 Hi1 Hc K Htau Ht0 HtH. split.
  - unfold inv_before.
    apply (safety_generic size H init rate cap tau (fun k => Qltb (tau k) t) t); auto.
    + intros k E. apply Qltb_lt in E. lra.
    + intros k E. apply Qltb_ge in E. auto.
  - unfold inv_after.
    apply (safety_generic size H init rate cap tau (fun k => Qle_bool (tau k) t) t); auto.
    + intros k E. apply Qle_bool_iff in E. auto.
    + intros k E. apply Qle_bool_false in E. lra.
Qed.

(* ---------- add_nodes: the full statement used by C11 ---------- *)
Lemma add_nodes_spec s name init rate cap fuel :
  0 < csize s -> ~ rate == 0 -> csize s <= cap ->
  (forall j, has_name (NVisit name j) (mnodes (gr s)) = false) ->
  let size := csize s in
  let H := horizon s in
  let K := nvisits size H init rate cap in
  (K < fuel)%nat ->
  (forall k, H < tw1 size k init rate cap <-> (K <= k)%nat) /\
  exists s',
    add_nodes_fuel fuel s name init rate cap = (s', Ok (map (NVisit name) (seq 0 K))) /\
    add_nodes s name init rate cap = (s', Ok (map (NVisit name) (seq 0 K))) /\
    mnodes (gr s') = mnodes (gr s) ++
      map (fun k => mkNode (NVisit name k) (if Qltb 0 rate then - size else size)
                           (tw0 size k init rate cap) (QFin (tw1 size k init rate cap))) (seq 0 K) /\
    marcs (gr s') = marcs (gr s) /\
    sports s' = (if Qltb 0 rate then sports s ++ [name] else sports s) /\
    dports s' = (if Qltb 0 rate then dports s else dports s ++ [name]) /\
    pm_get name (pmap s') = Some (map (NVisit name) (seq 0 K)) /\
    (forall p, p <> name -> pm_get p (pmap s') = pm_get p (pmap s)) /\
    csize s' = csize s /\ horizon s' = horizon s.
Proof.
  intros Hs Hr Hc Hfresh size H K Hf. split.
  - intro k. apply tw1_gt_horizon_iff; auto.
  - exists (state_after (state_port_added s name rate) name init rate cap 0 K).
    split; [|split].
    + apply add_nodes_fuel_ok; auto.
    + unfold add_nodes. apply add_nodes_fuel_ok; auto.
    + unfold state_after, state_port_added, visit_nodes, visit_node, demand_level.
      cbn [gr mnodes marcs sports dports pmap csize horizon].
      repeat split; auto.
      * change (map (NVisit name) (seq 0 K)) with ([] ++ visit_names name 0 K).
        apply pm_get_appends_same. apply pm_get_set_same.
      * intros p Hp. rewrite pm_get_appends_other by auto. apply pm_get_set_other. auto.
Qed.

Lemma add_nodes_too_big_spec s name init rate cap fuel :
  0 < csize s -> ~ rate == 0 -> cap < csize s -> (0 < fuel)%nat ->
  (forall j, has_name (NVisit name j) (mnodes (gr s)) = false) ->
  exists s',
    add_nodes_fuel fuel s name init rate cap
    = (s', if Qltb (horizon s) (tw1 (csize s) 0 init rate cap) then Ok [] else Err ValueError) /\
    gr s' = gr s /\
    sports s' = (if Qltb 0 rate then sports s ++ [name] else sports s) /\
    dports s' = (if Qltb 0 rate then dports s else dports s ++ [name]) /\
    pm_get name (pmap s') = Some [].
Proof.
  intros. exists (state_port_added s name rate). split.
  - apply add_nodes_fuel_too_big; auto.
  - unfold state_port_added. cbn [gr sports dports pmap]. repeat split; auto. apply pm_get_set_same.
Qed.
