(* PyArcCons.v -- the object state and the Python / numpy / scipy combinators of the model GENERATED from
   the objective / constraint assembly of routing_problem/formulations/arc_based_rp.py
   (coq/gen/ArcConsGen.v, written on every run by harness/translate_arccons.py).  Definitions only.
   Lemmas: PyArcCons_facts.v.  Theorems about the generated definitions: coq/genprops/C05_gen.v.  [C05; C02, C03]

   The generated file sits on top of coq/gen/ArcGen.v (variable enumeration and index lookups, package
   `arcenum`): the object is the record `bstate` = the object of PyArc.v (`astate`: graph, time points,
   var_mapping, num_variables, variables_enumerated) plus the attributes the assembly methods assign.
   A call `self.get_num_variables()` of a method that lives in ArcGen.v is `b_call self (gen_get_num_variables
   (b_base self))`: the callee runs on the base part, its new base part is stored back.

   What the emitted combinators MEAN (trusted as "modelled, not verified"):
   * `for x in l: body` with a body that may raise   py_forx body l st  -- body returns XNext (fell off the
     end / `continue`), XBreak (`break`: early exit) or XRaise e (an exception left the body: the loop stops,
     the exception propagates, the state is the one at the raise);
   * `sparse.coo_array((vals, (rows, cols)), shape=(m, n))`  sparse_coo_array vals rows cols (m, n): the m x n
     matrix whose entry (r, c) is the SUM of the values of all triples at that position (duplicates are
     summed; that is how scipy defines the value of a COO matrix and what .dot / .toarray() compute).  The
     three lists are read in parallel (`combine`); triples outside the shape contribute to no entry (scipy
     raises there -- it cannot happen for the rows/columns the translated code produces, see C05_gen_dims);
   * `sparse.csr_array((m, n))`  the all-zero m x n matrix;  `A.toarray()` the same matrix (the container
     class -- sparse or dense -- is not modelled, a matrix is its shape and its dense entries);
   * `np.zeros(n)`, `np.array(l)`, `a[k] = v` on a 1-d array (k inside the array), `enumerate(l)`,
     `l1 + l2`, `[c] * n`;
   * an f-string is the list of its pieces (literal text / formatted integer). *)
From Coq Require Import String.
From VQ Require Export Base Vrptw Arc PyEnumCore PyArc.

(* ---------- strings built by f-strings ---------- *)
Inductive spiece := SLit (s : string) | SNat (n : nat) | SInt (z : Z).
Definition pystr := list spiece.

(* the names the hand model has: f"cflow_{i},{s_index}", f"cnode{j}" *)
Definition cname_str (c : cname) : pystr :=
  match c with
  | CFlow i k => [SLit "cflow_"; SNat i; SLit ","; SNat k]
  | CNode j => [SLit "cnode"; SNat j]
  end.

(* ---------- matrices: shape and dense entries ---------- *)
Record mat := mkMat { mshape : nat * nat; mdense : list (list Z) }.

Definition coo_entry (vals rows cols : list Z) (r c : nat) : Z :=
  sumz (map (fun t : Z * (Z * Z) =>
               if (fst (snd t) =? Z.of_nat r) && (snd (snd t) =? Z.of_nat c) then fst t else 0)
            (combine vals (combine rows cols))).

Definition sparse_coo_array (vals rows cols : list Z) (shape : nat * nat) : mat :=
  mkMat shape (map (fun r => map (fun c => coo_entry vals rows cols r c) (seq 0 (snd shape)))
                   (seq 0 (fst shape))).

Definition sparse_csr_zeros (shape : nat * nat) : mat :=
  mkMat shape (repeat (repeat 0 (snd shape)) (fst shape)).

Definition np_toarray (m : mat) : mat := m.

(* A . x  (x read up to the number of columns) and the linear objective *)
Definition mat_vec (A : mat) (x : list Z) : list Z := map (fun row => dotn (snd (mshape A)) row x) (mdense A).

(* ---------- 1-d arrays and lists ---------- *)
Definition np_zeros (n : nat) : list Z := repeat 0 n.
Definition np_array (l : list Z) : list Z := l.
Fixpoint py_nd_set (l : list Z) (k : nat) (v : Z) : list Z :=
  match l, k with
  | [], _ => []
  | _ :: l', O => v :: l'
  | x :: l', S k' => x :: py_nd_set l' k' v
  end.
Definition py_enumerate {A} (l : list A) : list (nat * A) := combine (seq 0 (length l)) l.
Definition py_list_concat {A} (a b : list A) : list A := a ++ b.

(* ---------- loops whose body may raise ---------- *)
Inductive xctl := XNext | XBreak | XRaise (e : errcls).

Fixpoint py_forx {A S : Type} (body : A -> S -> xctl * S) (l : list A) (st : S) : S * option errcls :=
  match l with
  | [] => (st, None)
  | e :: l' =>
      match body e st with
      | (XNext, st') => py_forx body l' st'
      | (XBreak, st') => (st', None)
      | (XRaise x, st') => (st', Some x)
      end
  end.

(* ---------- the object ---------- *)
Record bstate := mkBS {
  b_base : astate;                       (* graph, time_points, var_mapping, num_variables, variables_enumerated *)
  b_objective : list Z;                  (* self.objective *)
  b_objective_built : bool;
  b_constraints_built : bool;
  b_constraint_names : list pystr;
  b_constraints_matrix : mat;
  b_constraints_rhs : list Z
}.

Definition set_base (v : astate) (s : bstate) : bstate :=
  mkBS v (b_objective s) (b_objective_built s) (b_constraints_built s) (b_constraint_names s)
       (b_constraints_matrix s) (b_constraints_rhs s).
Definition set_objective (v : list Z) (s : bstate) : bstate :=
  mkBS (b_base s) v (b_objective_built s) (b_constraints_built s) (b_constraint_names s)
       (b_constraints_matrix s) (b_constraints_rhs s).
Definition set_objective_built (v : bool) (s : bstate) : bstate :=
  mkBS (b_base s) (b_objective s) v (b_constraints_built s) (b_constraint_names s)
       (b_constraints_matrix s) (b_constraints_rhs s).
Definition set_constraints_built (v : bool) (s : bstate) : bstate :=
  mkBS (b_base s) (b_objective s) (b_objective_built s) v (b_constraint_names s)
       (b_constraints_matrix s) (b_constraints_rhs s).
Definition set_constraint_names (v : list pystr) (s : bstate) : bstate :=
  mkBS (b_base s) (b_objective s) (b_objective_built s) (b_constraints_built s) v
       (b_constraints_matrix s) (b_constraints_rhs s).
Definition set_constraints_matrix (v : mat) (s : bstate) : bstate :=
  mkBS (b_base s) (b_objective s) (b_objective_built s) (b_constraints_built s) (b_constraint_names s)
       v (b_constraints_rhs s).
Definition set_constraints_rhs (v : list Z) (s : bstate) : bstate :=
  mkBS (b_base s) (b_objective s) (b_objective_built s) (b_constraints_built s) (b_constraint_names s)
       (b_constraints_matrix s) v.

(* attributes of the base part, read through the object *)
Definition b_time_points (s : bstate) : list Z := s_time_points (b_base s).
Definition b_var_mapping (s : bstate) : list var := s_var_mapping (b_base s).
Definition b_nodes (s : bstate) : list node := py_nodes (b_base s).
Definition b_arcs (s : bstate) : dict arc := py_arcs (b_base s).
Definition b_nodes_item (s : bstate) (i : nat) : node := py_nodes_item (b_base s) i.
Definition b_arcs_item (s : bstate) (k : nat * nat) : arc := py_arcs_item (b_base s) k.
Definition b_time_points_item (s : bstate) (k : nat) : Z := py_time_points_item (b_base s) k.

(* a method of coq/gen/ArcGen.v called on this object *)
Definition b_call {R} (s : bstate) (p : astate * R) : bstate * R := (set_base (fst p) s, snd p).

(* ---------- vocabulary of the theorems in genprops/C05_gen.v ---------- *)
(* the object holds the problem I and obeys the cache discipline of the enumeration (PyArc.v) *)
Definition cons_holds (self : bstate) (I : inst) : Prop :=
  arc_holds (b_base self) I /\ arc_coherent (b_base self) I.

(* the base part once the variables are enumerated (what every call of enumerate_variables leaves) *)
Definition base_done (self : bstate) (I : inst) : astate :=
  if s_variables_enumerated (b_base self) then b_base self else arc_enumerated (b_base self) I.

(* cache discipline of the two build flags: a set flag means the stored data are those of the problem *)
Definition A_of (I : inst) : mat := mkMat (A_shape I) (A_dense I).
Definition cons_coherent (self : bstate) (I : inst) : Prop :=
  (b_objective_built self = true -> b_objective self = objective I) /\
  (b_constraints_built self = true ->
     b_constraints_matrix self = A_of I /\ b_constraints_rhs self = rhs I).

(* the triplet list of the hand model as the three parallel lists the code keeps *)
Definition trip_vals (T : list trip) : list Z := map (fun tr : trip => fst (fst tr)) T.
Definition trip_rows (T : list trip) : list Z := map (fun tr : trip => Z.of_nat (snd (fst tr))) T.
Definition trip_cols (T : list trip) : list nat := map (fun tr : trip => snd tr) T.

(* the base part with the enumeration done and cached *)
Definition base_settled (base : astate) (I : inst) : Prop :=
  arc_holds base I /\ s_var_mapping base = vars I /\ s_num_variables base = num_variables I /\
  s_variables_enumerated base = true.

(* entry k of the objective *)
Definition obj_F (I : inst) (k : nat) : Z :=
  match nth_error (vars I) k with
  | Some v => acost (arc_at (ig I) (onode v) (dnode v))
  | None => 0
  end.

(* loop states of the generated loops <-> loop states of Arc.v *)
Definition flow_lift (self0 : bstate) (st : cstate) : bstate * list nt * list Z * nat :=
  (set_constraint_names (map cname_str (c_names st)) self0, c_fcm st, c_brhs st, c_row st).
Definition trip_lift (self : bstate) (T : list trip) : bstate * list Z * list Z * list nat :=
  (self, trip_vals T, trip_rows T, trip_cols T).

(* the object after build_objective / build_constraints_quicker have run *)
Definition obj_built (self : bstate) (I : inst) : bstate :=
  set_objective_built true (set_objective (objective I) (set_base (base_done self I) self)).
Definition cons_built (self : bstate) (I : inst) : bstate :=
  set_constraints_built true
    (set_constraints_rhs (rhs I)
       (set_constraints_matrix (A_of I)
          (set_constraint_names (map cname_str (constraint_names I)) (set_base (base_done self I) self)))).
