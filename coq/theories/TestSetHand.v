(* TestSetHand.v -- hand-written counterparts, in the vocabulary of PyTestSet.v, of the parts of the
   test-set half of C10 that TestFeas.v models only as pure functions: how the hand model's data read
   as Python values, the calls convenience / do_all / print_summary / gen make to code of other modules
   (the "save sequence"), written by hand from the source with TestFeas's own functions (initials,
   bname, rudy_o, rudy_f, npz_name, sol_name, write_spins, do_all_sol, summary_lines) for the pure
   parts.  Definitions only; coq/genprops/C10_testset_gen.v proves the generated functions equal to
   these.  [package testset] *)
From Coq Require Import ZArith List Bool String Ascii PeanoNat.
From VQ Require Import Base LinAlg Penalty Export PyMat TestFeas PyTestSet.
Import ListNotations.
Local Open Scope string_scope.
Open Scope Z_scope.

(* ---------- values ---------- *)
(* the tuple test_feasibility returns *)
Definition measures_tv (ms : measures) : tv :=
  match ms with (vl, vq, k) => TTuple [TBools vl; tnum vq; tnat k] end.

(* A_eq in memory for n variables: an ndarray given by its rows, or a scipy.sparse container with
   stored entries esA (whose dense meaning is required to be the rows where it matters) *)
Definition a_val (d : cdata) (n : nat) (esA : list entry) : tv :=
  if cA_sparse d then TSparse (List.length (cA d)) n esA else tmat (cA d) n.
Definition q_val (d : cdata) (n : nat) : tv := TSparse n n (cQ d).

(* what np.load gives for the archive np.savez wrote from (A_eq, b_eq, Q_eq, r_eq): sparse containers
   come back as 0-d object arrays *)
Definition npz_of (d : cdata) (n : nat) (esA : list entry) : tv :=
  TDict [("A_eq", if cA_sparse d then TObj0 (a_val d n esA) else a_val d n esA);
         ("b_eq", tvec (cb d));
         ("Q_eq", TObj0 (q_val d n));
         ("r_eq", tnum (cr d))].

(* the hand model's representation of what convenience() computes with: x = 0.5 (1 - s) is carried
   as 2 x, the data as (A, 2 b, Q, 4 r)  (TestFeas.v, Part 3) *)
Definition double_data (d : cdata) : cdata :=
  mkCdata (cA d) (cA_sparse d) (map (Z.mul 2) (cb d)) (cQ d) (4 * cr d).

(* convenience after its three external calls, on the vector x the s_to_x call returned and the
   loaded data d: the unwrapping logic (TestFeas.convenience_data without the doubling device) *)
Definition conv_core (x : list Z) (d : cdata) : result measures :=
  if cA_sparse d && (List.length (cb d) =? 0)%nat && (2 <=? List.length x)%nat then Err ValueError
  else Ok (test_feasibility x (cA d) (cb d) (cQ d) (cr d)).

(* ---------- the world convenience() runs in, in the hand model's representation ---------- *)
(* load_spins(sname) reads the bytes sol with TestFeas.load_spins; s_to_x is TestFeas.s_to_x2 (twice the
   value); np.load(fname, allow_pickle=True) gives the archive of the doubled data of load f *)
Definition conv_world (o : oracle) {npz : Type} (load : npz -> cdata) (f : npz) (fname sname : tv)
                      (sol : string) (n : nat) (esA : list entry) : Prop :=
  (forall tr, o tr ".tools.load_tools.load_spins" [sname] [] = rmap tvec (load_spins sol)) /\
  (forall tr l, o tr ".tools.qubo_tools.s_to_x" [tvec l] [] = Ok (tvec (s_to_x2 l))) /\
  (forall tr, o tr "numpy.load" [fname] [("allow_pickle", tbool true)] = Ok (npz_of (double_data (load f)) n esA)).
(* shapes of saved data for n variables (TestFeas.v assumes them): one b entry per row of A; a sparse A_eq has
   stored entries esA with dense meaning cA d; a dense A_eq with rows has at least one column *)
Definition data_ok (d : cdata) (n : nat) (esA : list entry) : Prop :=
  List.length (cA d) = List.length (cb d) /\
  (forall i j, coo_dense esA i j = Zmat_of (cA d) i j) /\
  (cA_sparse d = false -> cb d <> [] -> (0 < n)%nat).

(* ====================================================================================== *)
(* the external calls, written by hand from the source                                     *)
(* ====================================================================================== *)
Section Hand.
  Variable o : oracle.
  (* f(args, kw) of another module; recv.name(args, kw) of an object that is not interpreted *)
  Definition call (name : string) (args : list tv) (kw : list (string * tv)) : M tv := ext_call o name args kw.
  Definition meth (recv : tv) (name : string) (args : list tv) (kw : list (string * tv)) : M tv :=
    ext_call o ("." ++ name) (recv :: args) kw.
  Definition print_line (s : string) : M tv := call "builtins.print" [TStr s] [].

  (* ---------- print_summary(vio_l, vio_q, nnz) ---------- *)
  (* print the lines one after the other, then go on with k *)
  Fixpoint print_lines {A} (ls : list string) (k : M A) : M A :=
    match ls with
    | [] => k
    | l :: r => m_bind (print_line l) (fun _ => print_lines r k)
    end.
  (* the three lines of TestFeas.summary_lines, in memory (scale 1), then None *)
  Definition hand_print_summary (ms : measures) : M tv :=
    print_lines (summary_lines 1 ms) (m_ret tnone).

  (* ---------- do_all(prefix, verbose) ---------- *)
  (* one directory entry f; conv = convenience *)
  Definition hand_do_all_entry (conv : tv -> tv -> M tv) (prefix : string) (verbose : bool)
                               (results : list (string * tv)) (f : string) : M (list (string * tv)) :=
    match do_all_sol f with
    | None => m_ret results
    | Some sol_fn =>
        m_bind (if verbose then print_line ("Processing " ++ f ++ "...") else m_ret tnone) (fun _ =>
        let sol_path := path_join prefix sol_fn in
        let f_path := path_join prefix f in
        m_bind (call "os.path.isfile" [TStr sol_path] []) (fun isf =>
        m_bind (m_lift (t_truth isf)) (fun found =>
        if found then
          m_bind (conv (TStr f_path) (TStr sol_path)) (fun res => m_ret (dict_set results sol_fn res))
        else
          m_bind (if verbose then print_line ("Could not find corresponding solution file " ++ sol_path)
                  else m_ret tnone) (fun _ => m_ret results))))
    end.
  Fixpoint hand_do_all_loop (conv : tv -> tv -> M tv) (prefix : string) (verbose : bool)
                            (fs : list tv) (results : list (string * tv)) : M (list (string * tv)) :=
    match fs with
    | [] => m_ret results
    | TStr f :: r => m_bind (hand_do_all_entry conv prefix verbose results f) (hand_do_all_loop conv prefix verbose r)
    | _ :: _ => m_raise OtherError
    end.
  Definition hand_do_all (conv : tv -> tv -> M tv) (prefix : string) (verbose : bool) : M tv :=
    m_bind (call "os.listdir" [TStr prefix] []) (fun fnames =>
    m_bind (m_lift (t_iter fnames)) (fun fs =>
    m_bind (hand_do_all_loop conv prefix verbose fs []) (fun results => m_ret (TDict results)))).

  (* ---------- generate_test_set.gen(prefix, horizons) ---------- *)
  (* bname with the variable count as it was formatted *)
  Definition bname_s (name s_n : string) : string := "test_" ++ name ++ "_" ++ s_n ++ "_".

  (* for spin in spins: spin_file.write(f"{int(spin)}\n") *)
  Definition hand_write_spin (file : tv) (spin : tv) : M (ctl * unit) :=
    m_bind (m_lift (t_int spin)) (fun i =>
    m_bind (m_str o i) (fun s =>
    m_bind (meth file "write" [TStr (s ++ NL)] []) (fun _ => m_ret (CNext, tt)))).

  (* the CPLEX part of one (horizon, formulation) step; b = the joined base name *)
  Definition hand_gen_cplex (r_p : tv) (b : string) : M (ctl * unit) :=
    m_bind (meth r_p "export_mip" [TStr (b ++ "o.lp")] []) (fun _ =>
    m_bind (meth r_p "get_cplex_prob" [] []) (fun prob =>
    m_bind (meth (TAttr (TAttr (TAttr (TAttr prob "parameters") "mip") "limits") "solutions") "set" [TInt 1] []) (fun _ =>
    m_bind (m_try (m_bind (meth prob "solve" [] []) (fun _ => m_ret (inl tt)))
                  (TGlobal "cplex.exceptions.CplexError")
                  (fun err => m_bind (m_str o err) (fun s =>
                              m_bind (print_line ("CPLEX Error: " ++ s)) (fun _ => m_ret (inr (CNext, tt))))))
    (fun r =>
      match r with
      | inr out => m_ret out
      | inl _ =>
          m_bind (meth (TAttr prob "solution") "get_status_string" [] []) (fun stat =>
          m_bind (meth stat "lower" [] []) (fun low =>
          m_bind (c_notin o low (TGlobal ".solve_w_cplex.CPLEX_FEASIBLE")) (fun nin =>
          m_bind (m_lift (t_truth nin)) (fun bad =>
          if bad then
            m_bind (m_str o stat) (fun s =>
            m_bind (print_line ("No solution written; status: " ++ s)) (fun _ => m_ret (CNext, tt)))
          else
            m_bind (meth (TAttr prob "solution") "get_values" [] []) (fun xstar =>
            m_bind (call "builtins.open" [TStr (sol_name b); TStr "w"] [("encoding", TStr "utf-8")]) (fun fobj =>
            m_bind (m_with o fobj
                     (fun file =>
                        m_bind (call "numpy.asarray" [xstar] []) (fun arr =>
                        m_bind (call ".tools.qubo_tools.x_to_s" [arr] []) (fun spins =>
                        (* `spins` stays bound after the with block *)
                        m_bind (m_for spins (fun _ => hand_write_spin file) tt) (fun _ => m_ret spins)))))
                   (fun _ => m_ret (CNext, tt))))))))
      end)))).

  (* one (horizon, formulation) step *)
  Definition hand_gen_form (have_cplex : tv) (prefix : string) (t_h : tv) (form : string) (getter : tv) : M (ctl * unit) :=
    m_bind (m_lift (initials form)) (fun name =>
    m_bind (call_value o getter [] [("make_feasible", tbool true)]) (fun r_p =>
    m_bind (meth r_p "get_qubo" [] [("feasibility", tbool false)]) (fun qo =>
    m_unpack2 qo (fun Qo co =>
    m_bind (call ".tools.qubo_tools.QUBOContainer" [Qo; co] []) (fun QCo =>
    m_bind (meth r_p "get_num_variables" [] []) (fun n_vars =>
    m_bind (m_str o t_h) (fun s_th =>
    m_bind (m_str o n_vars) (fun s_n1 =>
    m_bind (print_line ((("Time horizon " ++ s_th ++ ", ") ++ ("formulation " ++ form ++ ", ")) ++
                        ("number of variables: " ++ s_n1))) (fun _ =>
    m_bind (m_str o n_vars) (fun s_n =>
    let b := path_join prefix (bname_s name s_n) in
    m_bind (meth QCo "export" [TStr (rudy_o b)] [("as_ising", tbool true)]) (fun _ =>
    m_bind (meth r_p "get_qubo" [] [("feasibility", tbool true)]) (fun qf =>
    m_unpack2 qf (fun Qf cf =>
    m_bind (call ".tools.qubo_tools.QUBOContainer" [Qf; cf] []) (fun QCf =>
    m_bind (meth QCf "export" [TStr (rudy_f b)] [("as_ising", tbool true)]) (fun _ =>
    m_bind (meth r_p "get_constraint_data" [] []) (fun cd =>
    m_unpack4 cd (fun A_eq b_eq Q_eq r_eq =>
    m_bind (call "numpy.savez" [TStr b] [("A_eq", A_eq); ("b_eq", b_eq); ("Q_eq", Q_eq); ("r_eq", r_eq)]) (fun _ =>
    m_bind (m_lift (t_truth have_cplex)) (fun cplex =>
    if cplex then hand_gen_cplex r_p b else m_ret (CNext, tt)))))))))))))))))))).

  (* the three formulations of one horizon, in the order of the source *)
  Definition hand_forms (mirp : tv) : list (string * tv) :=
    [("arc_based", TAttr mirp "get_arc_based");
     ("path_based", TAttr mirp "get_path_based");
     ("sequence_based", TPartial (TAttr mirp "get_sequence_based") [("strict", tbool false)])].
  Definition hand_gen_horizon (have_cplex : tv) (prefix : string) (_ : unit) (t_h : tv) : M (ctl * unit) :=
    m_bind (call ".examples.mirp_g1.get_mirp" [t_h] []) (fun mirp =>
    m_bind (m_for_list (map (fun p => TTuple [TStr (fst p); snd p]) (hand_forms mirp))
                       (fun _ it => match it with
                                    | TTuple [TStr form; getter] => hand_gen_form have_cplex prefix t_h form getter
                                    | _ => m_raise OtherError
                                    end) tt) (fun _ => m_ret (CNext, tt))).
  Definition hand_gen (have_cplex : tv) (prefix : string) (horizons : tv) : M tv :=
    m_bind (m_for horizons (hand_gen_horizon have_cplex prefix) tt) (fun _ => m_ret tnone).
End Hand.

(* ====================================================================================== *)
(* one (horizon, formulation) step of gen in a world that answers -- what is logged          *)
(* ====================================================================================== *)
(* what the world hands out during one step *)
Record step_data := mkStep {
  sd_gev : event;            (* the call the getter makes, e.g. .get_arc_based [mirp] [make_feasible=True] *)
  sd_rp : tv;                (* the routing-problem object it returns *)
  sd_Qo : tv; sd_co : tv;    (* r_p.get_qubo(feasibility=False) *)
  sd_QCo : tv;               (* QUBOContainer(Qo, co) *)
  sd_n : N;                  (* r_p.get_num_variables() *)
  sd_Qf : tv; sd_cf : tv;    (* r_p.get_qubo(feasibility=True) *)
  sd_QCf : tv;               (* QUBOContainer(Qf, cf) *)
  sd_A : tv; sd_b : tv; sd_Q : tv; sd_r : tv }.   (* r_p.get_constraint_data() *)

Definition ising_kw : list (string * tv) := [("as_ising", tbool true)].
Definition step_world (o : oracle) (getter : tv) (d : step_data) : Prop :=
  (forall tr, call_value o getter [] [("make_feasible", tbool true)] tr = ((tr ++ [sd_gev d])%list, Ok (sd_rp d))) /\
  (forall tr, o tr ".get_qubo" [sd_rp d] [("feasibility", tbool false)] = Ok (TTuple [sd_Qo d; sd_co d])) /\
  (forall tr, o tr ".tools.qubo_tools.QUBOContainer" [sd_Qo d; sd_co d] [] = Ok (sd_QCo d)) /\
  (forall tr, o tr ".get_num_variables" [sd_rp d] [] = Ok (TInt (Z.of_N (sd_n d)))) /\
  (forall tr args, o tr "builtins.print" args [] = Ok tnone) /\
  (forall tr p, o tr ".export" [sd_QCo d; TStr p] ising_kw = Ok tnone) /\
  (forall tr, o tr ".get_qubo" [sd_rp d] [("feasibility", tbool true)] = Ok (TTuple [sd_Qf d; sd_cf d])) /\
  (forall tr, o tr ".tools.qubo_tools.QUBOContainer" [sd_Qf d; sd_cf d] [] = Ok (sd_QCf d)) /\
  (forall tr p, o tr ".export" [sd_QCf d; TStr p] ising_kw = Ok tnone) /\
  (forall tr, o tr ".get_constraint_data" [sd_rp d] [] = Ok (TTuple [sd_A d; sd_b d; sd_Q d; sd_r d])) /\
  (forall tr p kw, o tr "numpy.savez" [TStr p] kw = Ok tnone).

(* the calls of the step, in order; base = <prefix>/test_<name>_<n>_ *)
Definition step_events (prefix s_th form name : string) (d : step_data) : list event :=
  let base := path_join prefix (bname name (sd_n d)) in
  [sd_gev d;
   EvCall ".get_qubo" [sd_rp d] [("feasibility", tbool false)];
   EvCall ".tools.qubo_tools.QUBOContainer" [sd_Qo d; sd_co d] [];
   EvCall ".get_num_variables" [sd_rp d] [];
   EvCall "builtins.print"
     [TStr ((("Time horizon " ++ s_th ++ ", ") ++ ("formulation " ++ form ++ ", ")) ++
            ("number of variables: " ++ print_N (sd_n d)))] [];
   EvCall ".export" [sd_QCo d; TStr (rudy_o base)] ising_kw;
   EvCall ".get_qubo" [sd_rp d] [("feasibility", tbool true)];
   EvCall ".tools.qubo_tools.QUBOContainer" [sd_Qf d; sd_cf d] [];
   EvCall ".export" [sd_QCf d; TStr (rudy_f base)] ising_kw;
   EvCall ".get_constraint_data" [sd_rp d] [];
   EvCall "numpy.savez" [TStr base] [("A_eq", sd_A d); ("b_eq", sd_b d); ("Q_eq", sd_Q d); ("r_eq", sd_r d)]].
