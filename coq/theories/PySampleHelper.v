(* PySampleHelper.v -- the combinators printed by harness/translate_samplehelper.py for the module-level
   helper `sample(vari, size)` of examples/mirp_random.py (property C19; package `samplehelper`).
   Definitions only.  Values are Sampler.pyval (a sampler object, a scalar, a list / tuple / 1-d array),
   `size` is a nat, computations live in Sampler's draw-log monad M and return `result pyval`; conditions
   are `result bool`, numbers `result nat` (an operand that is not modelled is Err OtherError: fail closed). *)
From Coq Require Import List Arith Bool String.
From VQ Require Import Base Sampler.
Import ListNotations.
Local Open Scope string_scope.

Section Helper.
  Variable K : Type.
  Variables (k1 : K) (kadd kmul kdiv : K -> K -> K) (kopp : K -> K).
  Variable d : nat -> nat -> nat -> list K.
  Notation pv := (pyval K).

  (* isinstance(v, C): the only class interpreted is tools.sampling.Sampleable_Type (canonical import name);
     the instances of it are the sampler objects *)
  Definition sh_isinstance (v : pv) (cls : string) : result bool :=
    if String.eqb cls "..tools.sampling.Sampleable_Type"
    then Ok match v with PSampler _ => true | _ => false end
    else Err OtherError.
  (* np.isscalar(v) *)
  Definition sh_isscalar (v : pv) : result bool := Ok (is_scalar v).
  (* len(v): a scalar and a sampler object have no len() *)
  Definition sh_len (v : pv) : result nat :=
    match v with PSeq l => Ok (length l) | _ => Err TypeError end.
  Definition sh_nat (n : nat) : result nat := Ok n.
  (* a == b, a != b on integers *)
  Definition sh_eq (a b : result nat) : result bool :=
    match a, b with
    | Ok x, Ok y => Ok (Nat.eqb x y)
    | Err e, _ => Err e
    | _, Err e => Err e
    end.
  Definition sh_ne (a b : result nat) : result bool :=
    match sh_eq a b with Ok t => Ok (negb t) | Err e => Err e end.
  (* not a, a and b, a or b as conditions; b is looked at only when a does not decide *)
  Definition sh_not (a : result bool) : result bool :=
    match a with Ok t => Ok (negb t) | Err e => Err e end.
  Definition sh_and (a b : result bool) : result bool :=
    match a with Ok true => b | Ok false => Ok false | Err e => Err e end.
  Definition sh_or (a b : result bool) : result bool :=
    match a with Ok true => Ok true | Ok false => b | Err e => Err e end.

  (* statements *)
  Definition sh_if (c : result bool) (a b : M (result pv)) : M (result pv) :=
    match c with Ok true => a | Ok false => b | Err e => ret (Err e) end.
  Definition sh_return (v : pv) : M (result pv) := ret (Ok v).
  Definition sh_raise (e : errcls) : M (result pv) := ret (Err e).
  (* return v.rvs(n): the array drawn by the sampler object; anything else has no rvs *)
  Definition sh_return_rvs (v : pv) (n : result nat) : M (result pv) :=
    match n with
    | Err e => ret (Err e)
    | Ok size =>
        match v with
        | PSampler s => bind (rvs k1 kadd kmul kdiv kopp d size s) (fun a => ret (Ok (PSeq a)))
        | _ => ret (Err AttributeError)
        end
    end.
End Helper.
