(* Rng_facts.v -- determinism facts for C17. *)
From VQ Require Import Base Rng.
From Coq Require Import Permutation.

Lemma insert_comm x y l : insert x (insert y l) = insert y (insert x l).
Proof.
  induction l as [|h t IH]; simpl.
  - destruct (x <=? y) eqn:A, (y <=? x) eqn:B; try reflexivity.
    + assert (x = y) by lia. subst. reflexivity.
    + lia.
  - destruct (y <=? h) eqn:A, (x <=? h) eqn:B; simpl; rewrite ?A, ?B.
    + destruct (x <=? y) eqn:C, (y <=? x) eqn:D; simpl; rewrite ?A, ?B; try reflexivity.
      * assert (x = y) by lia. subst. reflexivity.
      * lia.
    + destruct (x <=? y) eqn:C; [lia|]. reflexivity.
    + destruct (y <=? x) eqn:C; [lia|]. reflexivity.
    + rewrite IH. reflexivity.
Qed.

(* the sorted grid does not depend on the order in which the points arrive *)
Theorem isort_perm l l' : Permutation l l' -> isort l = isort l'.
Proof.
  induction 1 as [|x l l' H IH|x y l|l1 l2 l3 H1 IH1 H2 IH2]; simpl.
  - reflexivity.
  - rewrite IH. reflexivity.
  - apply insert_comm.
  - congruence.
Qed.

Lemma insert_perm x l : Permutation (x :: l) (insert x l).
Proof.
  induction l as [|h t IH]; simpl; auto.
  destruct (x <=? h); auto.
  eapply perm_trans; [apply perm_swap|]. apply perm_skip. exact IH.
Qed.

Lemma isort_permutation l : Permutation l (isort l).
Proof.
  induction l as [|x t IH]; simpl; auto.
  eapply perm_trans; [apply perm_skip; exact IH | apply insert_perm].
Qed.

Inductive sorted : list Z -> Prop :=
| sorted_nil : sorted []
| sorted_one x : sorted [x]
| sorted_cons x y l : x <= y -> sorted (y :: l) -> sorted (x :: y :: l).

Lemma insert_sorted x l : sorted l -> sorted (insert x l).
Proof.
  induction 1 as [|h|h k t Hle Hs IH]; simpl.
  - constructor.
  - destruct (x <=? h) eqn:E; constructor; try constructor; lia.
  - destruct (x <=? h) eqn:E.
    + constructor; [lia|]. constructor; auto.
    + simpl in IH. destruct (x <=? k) eqn:F.
      * constructor; [lia|]. exact IH.
      * constructor; [lia|]. exact IH.
Qed.

Lemma isort_sorted l : sorted (isort l).
Proof. induction l as [|x t IH]; simpl; [constructor | apply insert_sorted; exact IH]. Qed.

Lemma insert_sorted_head x l : sorted (x :: l) -> insert x l = x :: l.
Proof.
  intros H. destruct l as [|h t]; simpl; auto.
  inversion H; subst. destruct (x <=? h) eqn:E; [reflexivity | lia].
Qed.

(* sorting a sorted list changes nothing: the second np.sort inside add_time_points is harmless *)
Lemma isort_id l : sorted l -> isort l = l.
Proof.
  induction 1 as [|h|h k t Hle Hs IH]; simpl; auto.
  simpl in IH. rewrite IH. simpl. destruct (h <=? k) eqn:E; [reflexivity | lia].
Qed.

Theorem isort_idem l : isort (isort l) = isort l.
Proof. apply isort_id. apply isort_sorted. Qed.

Lemma zmem_In x l : zmem x l = true <-> In x l.
Proof.
  induction l as [|h t IH]; simpl; [split; [discriminate|tauto]|].
  rewrite orb_true_iff, Z.eqb_eq, IH. split; intros [H|H]; auto.
Qed.

Lemma dedup_In x l : In x (dedup l) <-> In x l.
Proof.
  induction l as [|h t IH]; simpl; [tauto|].
  destruct (zmem h t) eqn:E.
  - rewrite IH. split; auto. intros [<-|H]; auto. apply zmem_In; auto.
  - simpl. rewrite IH. tauto.
Qed.

Lemma dedup_NoDup l : NoDup (dedup l).
Proof.
  induction l as [|h t IH]; simpl; [constructor|].
  destruct (zmem h t) eqn:E; auto.
  constructor; auto. rewrite dedup_In. intros H. apply zmem_In in H. congruence.
Qed.

(* Whatever order the hash set yields its elements in (any permutation), the grid is the same. *)
Theorem grid_independent_of_set_order points (o1 o2 : list Z -> list Z) :
  (forall l, Permutation l (o1 l)) -> (forall l, Permutation l (o2 l)) ->
  grid_of points o1 = grid_of points o2.
Proof.
  intros H1 H2. unfold grid_of. f_equal. apply isort_perm.
  eapply perm_trans; [apply Permutation_sym, H1 | apply H2].
Qed.

Theorem grid_spec points o :
  (forall l, Permutation l (o l)) ->
  let g := grid_of points o in
  sorted g /\ NoDup g /\ (forall x, In x g <-> x = 0 \/ In x points).
Proof.
  intros Ho g. unfold g, grid_of. rewrite isort_idem.
  assert (P : Permutation (dedup (points ++ [0])) (isort (o (dedup (points ++ [0]))))).
  { eapply perm_trans; [apply Ho | apply isort_permutation]. }
  split; [apply isort_sorted|]. split.
  - eapply Permutation_NoDup; [exact P | apply dedup_NoDup].
  - intros x. split.
    + intros H. apply Permutation_sym in P. apply (Permutation_in _ P) in H.
      apply (proj1 (dedup_In _ _)) in H. apply in_app_iff in H. destruct H as [H|[H|[]]]; auto.
    + intros H. apply (Permutation_in _ P). apply (proj2 (dedup_In _ _)). apply in_app_iff.
      destruct H as [->|H]; [right; simpl; auto | left; auto].
Qed.

Section RNGFacts.
  Variable rng : Type.
  Variable seed : option Z -> rng -> rng.
  Hypothesis seed_forgets : forall z g g', seed (Some z) g = seed (Some z) g'.
  Variables (Data Pool : Type).
  Variable explore : rng -> Data -> Pool * rng.

  (* the route pool (and the generator state afterwards) do not depend on the prior state *)
  Theorem path_pool_independent_of_prior_state g g' d :
    get_path_based rng seed Data Pool explore g d = get_path_based rng seed Data Pool explore g' d.
  Proof. unfold get_path_based. rewrite (seed_forgets 0 g g'). reflexivity. Qed.

  Variables (ArcM SeqM : Type).
  Variable build_arc : Data -> ArcM.
  Variable build_seq : Data -> bool -> SeqM.

  Theorem arc_seq_do_not_use_rng g g' d st :
    fst (get_arc_based rng Data ArcM build_arc g d) = fst (get_arc_based rng Data ArcM build_arc g' d) /\
    snd (get_arc_based rng Data ArcM build_arc g d) = g /\
    fst (get_sequence_based rng Data SeqM build_seq g d st) = fst (get_sequence_based rng Data SeqM build_seq g' d st) /\
    snd (get_sequence_based rng Data SeqM build_seq g d st) = g.
  Proof. repeat split. Qed.

  Variable Inst : Type.
  Variable draw_instance : rng -> Inst * rng.

  (* explicit seed: the first instance after construction, and every instance requested with
     reset_seed, is the same whatever happened to the generator before *)
  Theorem seeded_instance_reproducible z g g' :
    fst (draw_instance (random_mirp_init rng seed (Some z) g)) =
    fst (draw_instance (random_mirp_init rng seed (Some z) g')) /\
    get_random_mirp rng seed Inst draw_instance (Some z) true g =
    get_random_mirp rng seed Inst draw_instance (Some z) true g'.
  Proof.
    unfold random_mirp_init, get_random_mirp. rewrite (seed_forgets z g g'). split; reflexivity.
  Qed.
End RNGFacts.
