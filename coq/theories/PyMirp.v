(* PyMirp.v -- the combinators into which harness/translate_mirp.py prints the plain-Python methods of
   applications/mirp.py (class MIRP: __init__, add_node, add_arc, add_nodes, add_travel_arcs,
   add_entry_arcs, add_exit_arcs, estimate_high_cost).  Definitions only; the generated file
   coq/gen/MirpGen.v uses nothing but these names (plus list/Q notation), and coq/genprops/C11_gen.v /
   C12_gen.v prove the generated definitions equal to the hand model Mirp.v / MirpWrap.v.

   What each combinator stands for is said next to it.  The MIRP object is `MirpWrap.wstate`: the state of
   Mirp.v (graph, supply_ports, demand_ports, port_mapping, cargo_size, time_horizon) plus port_frequency.
   A method body is a computation `M A`: it takes the object, returns the object reached and either the
   value or the class of the exception raised -- an exception leaves the partially updated object behind,
   exactly as in Mirp.v. *)
From Coq Require Import QArith Qround Qabs List.
From VQ Require Import Base Mirp MirpWrap.
Import ListNotations.
Local Open Scope Q_scope.

(* ---------- statements: sequencing, return, raise ---------- *)
Definition M (A : Type) : Type := wstate -> wstate * result A.
Definition ret {A} (a : A) : M A := fun w => (w, Ok a).                       (* value of an expression / `return a` *)
Definition raise {A} (e : errcls) : M A := fun w => (w, Err e).
(* `x = m; rest` -- an exception in m skips the rest *)
Definition bind {A B} (m : M A) (f : A -> M B) : M B :=
  fun w => match m w with
           | (w', Ok a) => f a w'
           | (w', Err e) => (w', Err e)
           end.

(* ---------- loops ---------- *)
(* how an iteration ends: it falls off the end / `continue`, or `break`; c = the locals carried by the loop *)
Inductive ctl (C : Type) := Continue (c : C) | Break (c : C).
Arguments Continue {C} c.
Arguments Break {C} c.

(* `for x in l: body` -- the list is evaluated once, before the loop (the translator refuses bodies that
   could change the list being iterated) *)
Fixpoint for_each {A C} (l : list A) (body : A -> C -> M (ctl C)) (c : C) : M C :=
  match l with
  | [] => ret c
  | x :: t => bind (body x c) (fun r => match r with
                                        | Break c' => ret c'
                                        | Continue c' => for_each t body c'
                                        end)
  end.

(* `while True: body` with explicit fuel, exactly as Mirp.add_nodes_loop: running out of fuel is
   Err OtherError (the Python loop would not terminate) *)
Fixpoint while_true {C} (fuel : nat) (body : C -> M (ctl C)) (c : C) : M C :=
  match fuel with
  | O => raise OtherError
  | S f => bind (body c) (fun r => match r with
                                   | Break c' => ret c'
                                   | Continue c' => while_true f body c'
                                   end)
  end.

(* ---------- numbers ---------- *)
(* a / b on exact numbers: ZeroDivisionError = Err OtherError (as Mirp.v) *)
Definition q_div (a b : Q) : M Q := if Qeq_bool b 0 then raise OtherError else ret (a / b).
Definition np_fabs (a : Q) : Q := Qabs a.
(* comparisons of two finite numbers *)
Definition q_gt (a b : Q) : bool := Qltb b a.
Definition q_lt (a b : Q) : bool := Qltb a b.
Definition q_le (a b : Q) : bool := Qle_bool a b.
Definition q_ge (a b : Q) : bool := Qle_bool b a.
Definition q_eq (a b : Q) : bool := Qeq_bool a b.
Definition q_ne (a b : Q) : bool := negb (Qeq_bool a b).
(* a window end (possibly np.inf) against a finite number; `<` is Mirp.ext_lt_q *)
Definition ext_le_q (a : qext) (b : Q) : bool := match a with QFin x => Qle_bool x b | QInf => false end.
Definition ext_gt_q (a : qext) (b : Q) : bool := match a with QFin x => Qltb b x | QInf => true end.
Definition ext_ge_q (a : qext) (b : Q) : bool := match a with QFin x => Qle_bool b x | QInf => true end.
Definition ext_eq_q (a : qext) (b : Q) : bool := match a with QFin x => Qeq_bool x b | QInf => false end.
Definition ext_ne_q (a : qext) (b : Q) : bool := negb (ext_eq_q a b).
Definition name_eq (a b : nname) : bool := nname_eqb a b.
Definition name_ne (a b : nname) : bool := negb (nname_eqb a b).

(* ---------- strings ---------- *)
(* f"{port}-{k}", f"Dum{i}", "Depot": the injective constructors of Mirp.nname *)
Definition fmt_visit (p k : nat) : nname := NVisit p k.
Definition fmt_dum (i : nat) : nname := NDum i.
Definition str_Depot : nname := NDepot.

(* ---------- lists, tuples ---------- *)
(* l[-1]: IndexError on an empty list *)
Definition py_last {A} (l : list A) : M A :=
  match rev l with x :: _ => ret x | [] => raise IndexError end.

(* ---------- attributes of self ---------- *)
Definition rd {A} (f : wstate -> A) : M A := fun w => (w, Ok (f w)).
Definition upd (f : mstate -> mstate) : M unit := fun w => (mkW (f (wst w)) (wpf w), Ok tt).

Definition self_cargo_size : M Q := rd (fun w => csize (wst w)).
Definition self_time_horizon : M Q := rd (fun w => horizon (wst w)).
Definition self_supply_ports : M (list nat) := rd (fun w => sports (wst w)).
Definition self_demand_ports : M (list nat) := rd (fun w => dports (wst w)).

(* self.supply_ports.append(p) / self.demand_ports.append(p) *)
Definition self_supply_ports_append (p : nat) : M unit :=
  upd (fun s => mkState (gr s) (sports s ++ [p]) (dports s) (pmap s) (csize s) (horizon s)).
Definition self_demand_ports_append (p : nat) : M unit :=
  upd (fun s => mkState (gr s) (sports s) (dports s ++ [p]) (pmap s) (csize s) (horizon s)).

(* self.port_mapping[p]  (KeyError) ;  self.port_mapping[p] = l ;  self.port_mapping[p].append(x)  (KeyError) *)
Definition self_port_mapping_get (p : nat) : M (list nname) :=
  fun w => match pm_get p (pmap (wst w)) with Some l => (w, Ok l) | None => (w, Err KeyError) end.
Definition self_port_mapping_set (p : nat) (l : list nname) : M unit :=
  upd (fun s => mkState (gr s) (sports s) (dports s) (pm_set p l (pmap s)) (csize s) (horizon s)).
Definition self_port_mapping_append (p : nat) (x : nname) : M unit :=
  fun w => match pm_get p (pmap (wst w)) with
           | Some _ => upd (fun s => mkState (gr s) (sports s) (dports s) (pm_append p x (pmap s)) (csize s) (horizon s)) w
           | None => (w, Err KeyError)
           end.

(* self.port_frequency[p] = v ; self.port_frequency.values() *)
Definition self_port_frequency_set (p : nat) (v : Q) : M unit :=
  fun w => (mkW (wst w) (pf_set p v (wpf w)), Ok tt).
Definition self_port_frequency_values : M (list Q) := rd (fun w => freq_values (wpf w)).

(* self.get_time_window(k, init, rate, cap): the hand model Mirp.window; its tie to the source of
   get_time_window is the separate obligation gen_window_is_model (harness/translate_window.py) *)
Definition self_get_time_window (k : nat) (init rate cap : Q) : M (Q * Q) :=
  rd (fun w => window (csize (wst w)) k init rate cap).

(* ---------- self.vrptw: the graph of Mirp.v ---------- *)
Definition with_graph {A} (f : mgraph -> result (mgraph * A)) : M A :=
  fun w => match f (gr (wst w)) with
           | Ok (g', a) => (mkW (set_gr (wst w) g') (wpf w), Ok a)
           | Err e => (w, Err e)
           end.
(* VRPTW.add_node(x, d, (a, b)) and VRPTW.add_node(x, d) with the default window (0, np.inf) *)
Definition vrptw_add_node (x : nname) (d : Q) (tw : Q * Q) : M unit :=
  with_graph (fun g => match g_add_node g x d (fst tw) (QFin (snd tw)) with Ok g' => Ok (g', tt) | Err e => Err e end).
Definition vrptw_add_node_default (x : nname) (d : Q) : M unit :=
  with_graph (fun g => match g_add_node g x d 0 QInf with Ok g' => Ok (g', tt) | Err e => Err e end).
(* VRPTW.add_arc(o, d, time, cost) -> bool *)
Definition vrptw_add_arc (o d : nname) (tm c : Q) : M bool := with_graph (fun g => g_add_arc g o d tm c).
(* VRPTW.get_node(x): list.index miss -> ValueError *)
Definition vrptw_get_node (x : nname) : M mnode :=
  fun w => match find_node x (mnodes (gr (wst w))) with Some n => (w, Ok n) | None => (w, Err ValueError) end.
(* self.vrptw.depot_index (always 0 in a MIRP), self.vrptw.node_names[i] (Mirp.depot_name: the node list of
   a MIRP is never empty, IndexError is not modelled), self.vrptw.node_names, self.vrptw.arcs.values() *)
Definition vrptw_depot_index : M nat := ret O.
Definition vrptw_node_names_get (i : nat) : M nname := rd (fun w => nm (nth i (mnodes (gr (wst w))) dummy_mnode)).
Definition vrptw_node_names : M (list nname) := rd (fun w => map nm (mnodes (gr (wst w)))).
Definition vrptw_arcs_values : M (list marc) := rd (fun w => map snd (marcs (gr (wst w)))).
(* Node.time_window[0], Node.time_window[1], Arc.get_cost(), Arc.get_travel_time() *)
Definition node_tw0 (n : mnode) : Q := lo n.
Definition node_tw1 (n : mnode) : qext := hi n.
Definition arc_get_cost (a : marc) : Q := acost a.
Definition arc_get_travel_time (a : marc) : Q := att a.

(* ---------- arguments that are tables ---------- *)
(* distance_function(a, b): the harness passes `lambda a, b: table[(a, b)]` (a miss is KeyError);
   fees[p]: a dict *)
Definition dist_call (t : list ((nat * nat) * Q)) (a b : nat) : M Q :=
  match lookup2 a b t with Some v => ret v | None => raise KeyError end.
Definition fees_get (t : list (nat * Q)) (p : nat) : M Q :=
  match lookup p t with Some v => ret v | None => raise KeyError end.
(* min(l), max(l): ValueError on an empty sequence (MirpWrap.py_min / py_max) *)
Definition py_min_m (l : list Q) : M Q := fun w => (w, py_min l).
Definition py_max_m (l : list Q) : M Q := fun w => (w, py_max l).

(* ---------- MIRP.__init__ ---------- *)
(* the object before __init__ has run: no field is set *)
Definition blank_state : wstate := mkW (mkState (mkGraph [] []) [] [] [] 0 0) [].
Definition self_set_cargo_size (v : Q) : M unit :=
  upd (fun s => mkState (gr s) (sports s) (dports s) (pmap s) v (horizon s)).
Definition self_set_time_horizon (v : Q) : M unit :=
  upd (fun s => mkState (gr s) (sports s) (dports s) (pmap s) (csize s) v).
Definition self_set_supply_ports (l : list nat) : M unit :=
  upd (fun s => mkState (gr s) l (dports s) (pmap s) (csize s) (horizon s)).
Definition self_set_demand_ports (l : list nat) : M unit :=
  upd (fun s => mkState (gr s) (sports s) l (pmap s) (csize s) (horizon s)).
Definition self_set_port_mapping (m : list (nat * list nname)) : M unit :=
  upd (fun s => mkState (gr s) (sports s) (dports s) m (csize s) (horizon s)).
Definition self_set_port_frequency (m : pfreq) : M unit := fun w => (mkW (wst w) m, Ok tt).
Definition self_set_vrptw (g : mgraph) : M unit := upd (fun s => set_gr s g).
Definition vrptw_new : mgraph := mkGraph [] [].                          (* VRPTW() *)
(* vehicle capacity / initial loading are not fields of the graph of Mirp.v: that model describes MIRP objects
   whose vehicles leave the depot empty and hold exactly one cargo (C12_load: the load on every depot walk is 0
   or the cargo size).  Any other value is outside the model: Err OtherError *)
Definition vrptw_set_initial_loading (v : Q) : M unit :=
  fun w => if Qeq_bool v 0 then (w, Ok tt) else (w, Err OtherError).
Definition vrptw_set_vehicle_cap (v : Q) : M unit :=
  fun w => if Qeq_bool v (csize (wst w)) then (w, Ok tt) else (w, Err OtherError).
(* VRPTW.set_depot(x): ValueError when absent, nothing to do when x is already first; moving a later node
   to the front is outside Mirp.v (MIRP never does it): reported as Err OtherError *)
Definition vrptw_set_depot (x : nname) : M unit :=
  fun w => match pos_of x (mnodes (gr (wst w))) with
           | Some O => (w, Ok tt)
           | Some (S _) => (w, Err OtherError)
           | None => (w, Err ValueError)
           end.

(* ---------- the four operations as a history (mirrors Mirp.mstep / MirpWrap.wstep) ---------- *)
Record mirp_ops := mkOps {
  o_init : Q -> Q -> M unit;
  o_add_nodes : nat -> nat -> Q -> Q -> Q -> M (list nname);           (* fuel first *)
  o_travel : list ((nat * nat) * Q) -> Q -> Q -> list (nat * Q) -> list (nat * Q) -> M unit;
  o_exit : Q -> Q -> M unit;
  o_entry : Q -> Q -> Q -> M unit
}.

Definition ops_init (O : mirp_ops) (size H : Q) : wstate := fst (o_init O size H blank_state).

Definition proc_result (r : result unit) : mresult :=
  match r with Ok _ => Ok None | Err e => Err e end.

Definition ops_step (O : mirp_ops) (w : wstate) (o : mop) : wstate * mresult :=
  match o with
  | AddNodes name init rate cap =>
      let r := o_add_nodes O (S (nvisits (csize (wst w)) (horizon (wst w)) init rate cap)) name init rate cap w in
      (fst r, match snd r with Ok l => Ok (Some l) | Err e => Err e end)
  | AddTravelArcs dist speed unit fs fd =>
      let r := o_travel O dist speed unit fs fd w in (fst r, proc_result (snd r))
  | AddExitArcs tm c => let r := o_exit O tm c w in (fst r, proc_result (snd r))
  | AddEntryArcs limit tm c => let r := o_entry O limit tm c w in (fst r, proc_result (snd r))
  end.

Definition ops_run (O : mirp_ops) (ops : list mop) (w : wstate) : wstate :=
  fold_left (fun w o => fst (ops_step O w o)) ops w.

Fixpoint ops_trace (O : mirp_ops) (ops : list mop) (w : wstate) : list mresult :=
  match ops with
  | [] => []
  | o :: ops' => let r := ops_step O w o in snd r :: ops_trace O ops' (fst r)
  end.

(* a graph computation of Mirp.v (graph reached, exception if any) seen as the effect of a procedure on the object *)
Definition lift_gres (w : wstate) (r : gres) : wstate * result unit :=
  (mkW (set_gr (wst w) (fst r)) (wpf w), match snd r with None => Ok tt | Some e => Err e end).
