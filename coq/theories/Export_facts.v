(* Export_facts.v -- proofs about the model of export / load_matrix (property C10). *)
From Coq Require Import ZArith QArith Qabs List Bool Lia PeanoNat ZifyBool.
From VQ Require Import Base LinAlg Export.
Open Scope Z_scope.

(* ================= round-half-even ================= *)
Lemma rhe_nearest a b : 2 * Z.abs (a - round_half_even a b * Zpos b) <= Zpos b.
Proof.
  unfold round_half_even.
  pose proof (Z.div_mod a (Zpos b) ltac:(lia)) as E.
  pose proof (Z.mod_pos_bound a (Zpos b) ltac:(lia)) as B.
  set (fl := a / Zpos b) in *. set (r := a mod Zpos b) in *.
  destruct (Z.compare_spec (2 * r) (Zpos b)) as [H|H|H].
  - destruct (Z.even fl); nia.
  - nia.
  - nia.
Qed.

(* on a tie (the value is exactly half-way) the even neighbour is taken *)
Lemma rhe_tie_even a b :
  2 * Z.abs (a - round_half_even a b * Zpos b) = Zpos b -> Z.even (round_half_even a b) = true.
Proof.
  unfold round_half_even.
  pose proof (Z.div_mod a (Zpos b) ltac:(lia)) as E.
  pose proof (Z.mod_pos_bound a (Zpos b) ltac:(lia)) as B.
  set (fl := a / Zpos b) in *. set (r := a mod Zpos b) in *.
  destruct (Z.compare_spec (2 * r) (Zpos b)) as [H|H|H].
  - intros _. destruct (Z.even fl) eqn:Ev; [exact Ev|].
    rewrite Z.even_add, Ev. reflexivity.
  - intros H2. exfalso. nia.
  - intros H2. exfalso. nia.
Qed.

(* an integer strictly closer than one half is the rounded value *)
Lemma rhe_unique a b z : 2 * Z.abs (a - z * Zpos b) < Zpos b -> round_half_even a b = z.
Proof.
  intros H. pose proof (rhe_nearest a b) as N.
  set (w := round_half_even a b) in *.
  assert (Z.abs ((w - z) * Zpos b) < Zpos b) by lia.
  assert (Z.abs (w - z) < 1) by nia. lia.
Qed.

Lemma rhe_exact z b : round_half_even (z * Zpos b) b = z.
Proof. apply rhe_unique. replace (z * Zpos b - z * Zpos b) with 0 by lia. simpl. lia. Qed.

(* round2 q is an integer nearest to 100 q:  |100 q - round2 q| <= 1/2 *)
Lemma round2_nearest q : (Qabs (100 * q - inject_Z (round2 q)) <= 1 # 2)%Q.
Proof.
  destruct q as [a b]. unfold round2. cbn [Qnum Qden].
  pose proof (rhe_nearest (100 * a) b) as N. set (z := round_half_even (100 * a) b) in *.
  clearbody z. apply Qabs_Qle_condition.
  unfold Qle, Qminus, Qplus, Qmult, inject_Z, Qopp. cbn [Qnum Qden].
  rewrite ?Pos.mul_1_l, ?Pos.mul_1_r. split; lia.
Qed.

Lemma is_zero_iff q : is_zero q = true <-> (q == 0)%Q.
Proof.
  unfold is_zero, Qeq. cbn. rewrite Z.eqb_eq. lia.
Qed.

Lemma round2_zero q : is_zero q = true -> round2 q = 0.
Proof.
  unfold is_zero, round2. rewrite Z.eqb_eq. intros ->. apply (rhe_exact 0 (Qden q)).
Qed.

(* a multiple of 1/100 is written exactly *)
Lemma round2_hundredths q z : (q == inject_Z z / 100)%Q -> round2 q = z.
Proof.
  destruct q as [a b]. unfold round2, Qeq, Qdiv, Qmult, Qinv, inject_Z. cbn [Qnum Qden]. intros H.
  replace (100 * a) with (z * Zpos b) by lia. apply rhe_exact.
Qed.

Lemma round2_Qeq q r : (q == r)%Q -> round2 q = round2 r.
Proof.
  intros H. unfold round2. destruct q as [a b], r as [c d]. unfold Qeq in H. cbn in *.
  pose proof (rhe_nearest (100 * a) b) as N1. pose proof (rhe_nearest (100 * c) d) as N2.
  pose proof (rhe_tie_even (100 * a) b) as T1. pose proof (rhe_tie_even (100 * c) d) as T2.
  set (z := round_half_even (100 * a) b) in *. set (w := round_half_even (100 * c) d) in *.
  (* both are nearest integers to the same rational; if they differ they are the two neighbours
     of a tie, and both would be even *)
  assert (Hzw : 2 * Z.abs ((100 * a) * Zpos d - z * Zpos b * Zpos d) <= Zpos b * Zpos d) by nia.
  assert (Hww : 2 * Z.abs ((100 * a) * Zpos d - w * Zpos b * Zpos d) <= Zpos b * Zpos d) by nia.
  destruct (Z.eq_dec z w) as [|Hne]; [assumption|exfalso].
  assert (Hd : Z.abs (z - w) * (Zpos b * Zpos d) <= Zpos b * Zpos d) by nia.
  assert (Hd1 : Z.abs (z - w) = 1) by nia.
  assert (Ez : 2 * Z.abs (100 * a - z * Zpos b) = Zpos b) by nia.
  assert (Ew : 2 * Z.abs (100 * c - w * Zpos d) = Zpos d) by nia.
  specialize (T1 Ez). specialize (T2 Ew).
  apply Z.even_spec in T1. apply Z.even_spec in T2. destruct T1 as [u Hu], T2 as [v Hv]. lia.
Qed.

(* ================= sums over Z ================= *)
Lemma zsum_ext n f g : (forall i, (i < n)%nat -> f i = g i) -> zsum n f = zsum n g.
Proof. apply sum_ext. Qed.

Lemma zsum_S n f : zsum (S n) f = zsum n f + f n.
Proof. reflexivity. Qed.

Lemma zsum_zero n f : (forall i, (i < n)%nat -> f i = 0) -> zsum n f = 0.
Proof.
  induction n as [|n IH]; intros H; [reflexivity|].
  rewrite zsum_S. rewrite IH by (intros; apply H; lia). rewrite H by lia. reflexivity.
Qed.

(* a function that vanishes on a .. n-1 has the same sum over n and over a *)
Lemma zsum_support a n f : (forall i, (a <= i < n)%nat -> f i = 0) -> (a <= n)%nat -> zsum n f = zsum a f.
Proof.
  induction n as [|n IH]; intros Hz Han.
  - replace a with O by lia. reflexivity.
  - destruct (Nat.eq_dec a (S n)) as [->|Hne]; [reflexivity|].
    rewrite zsum_S, Hz by lia. rewrite IH; [lia | intros; apply Hz; lia | lia].
Qed.

(* ================= the records of the written file ================= *)
Definition at_ij (i j : nat) (e : entry) : bool := (e_row e =? i)%nat && (e_col e =? j)%nat.

(* sum of w over the records filed under (i, j) *)
Definition sum_at (w : entry -> Z) (i j : nat) (es : list entry) : Z :=
  fold_right (fun e acc => if at_ij i j e then w e + acc else acc) 0 es.

Lemma coo_dense_sum_at es i j : coo_dense es i j = sum_at e_val i j es.
Proof. reflexivity. Qed.

Lemma sum_at_app w i j a b : sum_at w i j (a ++ b) = sum_at w i j a + sum_at w i j b.
Proof.
  induction a as [|e a IH]; simpl; [reflexivity|].
  rewrite IH. destruct (at_ij i j e); lia.
Qed.

Lemma count_sum_at i j es : Z.of_nat (length (filter (at_ij i j) es)) = sum_at (fun _ => 1) i j es.
Proof.
  induction es as [|e es IH]; [reflexivity|].
  cbn [filter]. unfold sum_at in *. cbn [fold_right].
  destruct (at_ij i j e); cbn [length]; rewrite ?Nat2Z.inj_succ; lia.
Qed.

(* a flat_map over a range in which only index k can contribute *)
Lemma sum_at_flat_map_single (g : nat -> list entry) w i j k : forall len a,
  (forall x, x <> k -> sum_at w i j (g x) = 0) ->
  sum_at w i j (flat_map g (seq a len)) =
  if (a <=? k)%nat && (k <? a + len)%nat then sum_at w i j (g k) else 0.
Proof.
  induction len as [|len IH]; intros a H; simpl.
  - destruct (Nat.leb_spec a k); destruct (Nat.ltb_spec k (a + 0)); simpl; try reflexivity; lia.
  - rewrite sum_at_app, IH by exact H.
    destruct (Nat.eq_dec a k) as [->|Hne].
    + destruct (Nat.leb_spec (S k) k); [lia|]. simpl.
      destruct (Nat.leb_spec k k); [|lia]. destruct (Nat.ltb_spec k (k + S len)); [|lia]. simpl. lia.
    + rewrite (H a Hne).
      destruct (Nat.leb_spec (S a) k); destruct (Nat.leb_spec a k);
        destruct (Nat.ltb_spec k (S a + len)); destruct (Nat.ltb_spec k (a + S len)); simpl; try reflexivity; lia.
Qed.

Lemma flat_map_flat_map {A B C} (f : B -> list C) (g : A -> list B) l :
  flat_map f (flat_map g l) = flat_map (fun x => flat_map f (g x)) l.
Proof.
  induction l as [|a l IH]; simpl; [reflexivity|].
  rewrite flat_map_app, IH. reflexivity.
Qed.

(* the off-diagonal records, written as one nested loop *)
Definition off_cell (p : problem) (r c : nat) : list entry :=
  if is_zero (p_mat p r c) then [] else if (r =? c)%nat then [] else [(r, c, round2 (p_mat p r c))].

Lemma offdiag_entries_nested p :
  offdiag_entries p =
  flat_map (fun r => flat_map (off_cell p r) (seq 0 (p_n p))) (seq 0 (p_n p)).
Proof.
  unfold offdiag_entries, find_entries. rewrite flat_map_flat_map.
  apply flat_map_ext. intros r. rewrite flat_map_flat_map.
  apply flat_map_ext. intros c. unfold off_cell.
  destruct (is_zero (p_mat p r c)); simpl; [reflexivity|]. rewrite app_nil_r. reflexivity.
Qed.

Lemma sum_at_single w i j e : sum_at w i j [e] = if at_ij i j e then w e else 0.
Proof. simpl. destruct (at_ij i j e); lia. Qed.

Lemma sum_at_diag p w i j :
  sum_at w i j (diag_entries p) =
  if (i =? j)%nat && (i <? p_n p)%nat && negb (is_zero (dvec p i)) then w (i, i, round2 (dvec p i)) else 0.
Proof.
  unfold diag_entries.
  rewrite (sum_at_flat_map_single _ w i j i).
  - simpl. destruct (is_zero (dvec p i)) eqn:Z0.
    + destruct (i =? j)%nat, (i <? p_n p)%nat; reflexivity.
    + rewrite sum_at_single. unfold at_ij, e_row, e_col. cbn [fst snd].
      rewrite Nat.eqb_refl. destruct (i =? j)%nat, (i <? p_n p)%nat; reflexivity.
  - intros x Hx. destruct (is_zero (dvec p x)); [reflexivity|].
    rewrite sum_at_single. unfold at_ij, e_row, e_col. cbn [fst snd].
    destruct (Nat.eqb_spec x i); [contradiction | reflexivity].
Qed.

Lemma sum_at_off_cell p w i j r c :
  sum_at w i j (off_cell p r c) =
  if (r =? i)%nat && (c =? j)%nat && negb (i =? j)%nat && negb (is_zero (p_mat p i j))
  then w (i, j, round2 (p_mat p i j)) else 0.
Proof.
  unfold off_cell.
  destruct (Nat.eqb_spec r i) as [->|Hr]; destruct (Nat.eqb_spec c j) as [->|Hc]; simpl.
  - destruct (is_zero (p_mat p i j)); [destruct (i =? j)%nat; reflexivity|].
    destruct (i =? j)%nat eqn:E; [reflexivity|]. rewrite sum_at_single.
    unfold at_ij, e_row, e_col. cbn [fst snd]. rewrite !Nat.eqb_refl. reflexivity.
  - destruct (is_zero (p_mat p i c)); [reflexivity|]. destruct (i =? c)%nat; [reflexivity|].
    rewrite sum_at_single. unfold at_ij, e_row, e_col. cbn [fst snd].
    destruct (Nat.eqb_spec c j); [contradiction|]. rewrite andb_false_r. reflexivity.
  - destruct (is_zero (p_mat p r j)); [reflexivity|]. destruct (r =? j)%nat; [reflexivity|].
    rewrite sum_at_single. unfold at_ij, e_row, e_col. cbn [fst snd].
    destruct (Nat.eqb_spec r i); [contradiction|]. reflexivity.
  - destruct (is_zero (p_mat p r c)); [reflexivity|]. destruct (r =? c)%nat; [reflexivity|].
    rewrite sum_at_single. unfold at_ij, e_row, e_col. cbn [fst snd].
    destruct (Nat.eqb_spec r i); [contradiction|]. reflexivity.
Qed.

Lemma sum_at_offdiag p w i j :
  sum_at w i j (offdiag_entries p) =
  if (i <? p_n p)%nat && (j <? p_n p)%nat && negb (i =? j)%nat && negb (is_zero (p_mat p i j))
  then w (i, j, round2 (p_mat p i j)) else 0.
Proof.
  rewrite offdiag_entries_nested.
  rewrite (sum_at_flat_map_single _ w i j i).
  - simpl. rewrite (sum_at_flat_map_single _ w i j j).
    + simpl. rewrite sum_at_off_cell. rewrite !Nat.eqb_refl. simpl.
      destruct (i <? p_n p)%nat, (j <? p_n p)%nat; reflexivity.
    + intros x Hx. rewrite sum_at_off_cell. destruct (Nat.eqb_spec x j); [contradiction|].
      rewrite andb_false_r. reflexivity.
  - intros x Hx. rewrite (sum_at_flat_map_single _ w i j j).
    + rewrite sum_at_off_cell. destruct (Nat.eqb_spec x i); [contradiction|]. simpl.
      destruct (j <? p_n p)%nat; reflexivity.
    + intros y Hy. rewrite sum_at_off_cell. destruct (Nat.eqb_spec x i); [contradiction|]. reflexivity.
Qed.

(* the whole file: the records filed under (i, j) are the single record of the coefficient at
   (i, j) when that coefficient is non-zero, and none otherwise *)
Theorem sum_at_export p w i j :
  sum_at w i j (snd (export_entries p)) =
  if (i <? p_n p)%nat && (j <? p_n p)%nat && negb (is_zero (coefficient p i j))
  then w (i, j, round2 (coefficient p i j)) else 0.
Proof.
  unfold export_entries. cbn [snd]. rewrite sum_at_app, sum_at_diag, sum_at_offdiag.
  unfold coefficient. destruct (Nat.eqb_spec i j) as [->|Hne]; simpl.
  - rewrite andb_false_r. simpl. destruct (j <? p_n p)%nat; simpl; [|reflexivity].
    destruct (is_zero (dvec p j)); simpl; lia.
  - destruct (i <? p_n p)%nat, (j <? p_n p)%nat; simpl; reflexivity.
Qed.

(* membership: exactly the records of the non-zero coefficients, nothing else *)
Theorem In_export_iff p e :
  In e (snd (export_entries p)) <->
  (e_row e < p_n p)%nat /\ (e_col e < p_n p)%nat /\
  is_zero (coefficient p (e_row e) (e_col e)) = false /\
  e_val e = round2 (coefficient p (e_row e) (e_col e)).
Proof.
  unfold export_entries. cbn [snd]. rewrite in_app_iff. split.
  - intros [H|H].
    + unfold diag_entries in H. apply in_flat_map in H. destruct H as (i & Hi & H).
      apply in_seq in Hi. destruct (is_zero (dvec p i)) eqn:Z0; [contradiction|].
      destruct H as [<-|[]]. unfold e_row, e_col, e_val, coefficient. cbn [fst snd].
      rewrite Nat.eqb_refl. repeat split; auto; lia.
    + rewrite offdiag_entries_nested in H. apply in_flat_map in H. destruct H as (r & Hr & H).
      apply in_flat_map in H. destruct H as (c & Hc & H). apply in_seq in Hr. apply in_seq in Hc.
      unfold off_cell in H. destruct (is_zero (p_mat p r c)) eqn:Z0; [contradiction|].
      destruct (Nat.eqb_spec r c) as [|Hne]; [contradiction|]. destruct H as [<-|[]].
      unfold e_row, e_col, e_val, coefficient. cbn [fst snd].
      destruct (Nat.eqb_spec r c); [contradiction|]. repeat split; auto; lia.
  - destruct e as [[r c] v]. unfold e_row, e_col, e_val, coefficient. cbn [fst snd].
    intros (Hr & Hc & Hz & Hv). destruct (Nat.eqb_spec r c) as [->|Hne].
    + left. unfold diag_entries. apply in_flat_map. exists c. split; [apply in_seq; lia|].
      rewrite Hz. left. rewrite Hv. reflexivity.
    + right. rewrite offdiag_entries_nested. apply in_flat_map. exists r. split; [apply in_seq; lia|].
      apply in_flat_map. exists c. split; [apply in_seq; lia|].
      unfold off_cell. rewrite Hz. destruct (Nat.eqb_spec r c); [contradiction|]. left. rewrite Hv. reflexivity.
Qed.

Theorem count_export p i j :
  length (filter (at_ij i j) (snd (export_entries p))) =
  if (i <? p_n p)%nat && (j <? p_n p)%nat && negb (is_zero (coefficient p i j)) then 1%nat else 0%nat.
Proof.
  apply Nat2Z.inj. rewrite count_sum_at, sum_at_export.
  destruct ((i <? p_n p)%nat && (j <? p_n p)%nat && negb (is_zero (coefficient p i j))); reflexivity.
Qed.

(* ================= reading the file back ================= *)
(* what the loaded matrix must be: the rounded coefficient inside the n x n block, zero outside *)
Definition rounded (p : problem) : nat -> nat -> Z :=
  fun i j => if (i <? p_n p)%nat && (j <? p_n p)%nat then round2 (coefficient p i j) else 0.

Theorem load_export_dense p i j : coo_dense (snd (export_entries p)) i j = rounded p i j.
Proof.
  rewrite coo_dense_sum_at, sum_at_export. unfold rounded.
  destruct ((i <? p_n p)%nat && (j <? p_n p)%nat); simpl; [|reflexivity].
  destruct (is_zero (coefficient p i j)) eqn:Z0; simpl; [|reflexivity].
  symmetry. apply round2_zero. exact Z0.
Qed.

Section FoldMax.
  Context {A : Type} (f : A -> nat).
  Let step := fun (a : nat) (e : A) => Nat.max a (f e).

  Lemma fold_max_ge es : forall a0,
    (a0 <= fold_left step es a0)%nat /\ forall e, In e es -> (f e <= fold_left step es a0)%nat.
  Proof.
    induction es as [|x es IH]; intros a0; simpl.
    - split; [lia | intros e []].
    - destruct (IH (step a0 x)) as [H1 H2]. unfold step in *. split; [lia|].
      intros e [<-|He]; [lia | apply H2; exact He].
  Qed.

  Lemma fold_max_attained es : forall a0,
    fold_left step es a0 = a0 \/ exists e, In e es /\ f e = fold_left step es a0.
  Proof.
    induction es as [|x es IH]; intros a0; simpl; [left; reflexivity|].
    destruct (IH (step a0 x)) as [H|(e & He & H)].
    - rewrite H. unfold step. destruct (Nat.max_spec a0 (f x)) as [[_ E]|[_ E]]; rewrite E.
      + right. exists x. split; [left; reflexivity | reflexivity].
      + left. reflexivity.
    - right. exists e. split; [right; exact He | exact H].
  Qed.
End FoldMax.

Lemma load_size_pos es : (1 <= load_size es)%nat.
Proof. unfold load_size. lia. Qed.

Lemma load_size_bound es e : In e es -> (e_row e < load_size es)%nat /\ (e_col e < load_size es)%nat.
Proof.
  intros He. unfold load_size.
  destruct (fold_max_ge e_row es O) as [_ H1]. destruct (fold_max_ge e_col es O) as [_ H2].
  specialize (H1 e He). specialize (H2 e He). lia.
Qed.

Lemma load_size_tight es :
  load_size es = 1%nat \/
  exists e, In e es /\ (S (e_row e) = load_size es \/ S (e_col e) = load_size es).
Proof.
  unfold load_size.
  destruct (fold_max_attained e_row es O) as [H1|(e1 & He1 & H1)];
  destruct (fold_max_attained e_col es O) as [H2|(e2 & He2 & H2)].
  - left. rewrite H1, H2. reflexivity.
  - destruct (Nat.max_spec (fold_left (fun a e => Nat.max a (e_row e)) es O)
                           (fold_left (fun a e => Nat.max a (e_col e)) es O)) as [[_ E]|[_ E]]; rewrite E.
    + right. exists e2. split; [exact He2 | right; rewrite H2; reflexivity].
    + rewrite H1. left. reflexivity.
  - destruct (Nat.max_spec (fold_left (fun a e => Nat.max a (e_row e)) es O)
                           (fold_left (fun a e => Nat.max a (e_col e)) es O)) as [[_ E]|[_ E]]; rewrite E.
    + rewrite H2. left. reflexivity.
    + right. exists e1. split; [exact He1 | left; rewrite H1; reflexivity].
  - destruct (Nat.max_spec (fold_left (fun a e => Nat.max a (e_row e)) es O)
                           (fold_left (fun a e => Nat.max a (e_col e)) es O)) as [[_ E]|[_ E]]; rewrite E.
    + right. exists e2. split; [exact He2 | right; rewrite H2; reflexivity].
    + right. exists e1. split; [exact He1 | left; rewrite H1; reflexivity].
Qed.

Lemma load_size_le es n :
  (forall e, In e es -> (e_row e < n)%nat /\ (e_col e < n)%nat) -> (load_size es <= Nat.max n 1)%nat.
Proof.
  intros H. destruct (load_size_tight es) as [E|(e & He & E)]; [lia|].
  destruct (H e He). lia.
Qed.

(* load_matrix applied to the records written by export *)
Theorem load_export p :
  match load_entries (export_entries p) with
  | (m, M, k) =>
      k = round2 (p_const p) /\
      (1 <= m <= Nat.max (p_n p) 1)%nat /\
      (forall i j, M i j = rounded p i j) /\
      (forall i j, (i < p_n p)%nat -> (j < p_n p)%nat -> is_zero (coefficient p i j) = false ->
                   (i < m)%nat /\ (j < m)%nat) /\
      (m = 1%nat \/
       exists i j, (i < p_n p)%nat /\ (j < p_n p)%nat /\ is_zero (coefficient p i j) = false /\
                   (S i = m \/ S j = m))
  end.
Proof.
  unfold load_entries. set (es := snd (export_entries p)).
  split; [reflexivity|]. split; [|split; [|split]].
  - split; [apply load_size_pos|]. apply load_size_le. intros e He.
    apply In_export_iff in He. tauto.
  - intros i j. apply load_export_dense.
  - intros i j Hi Hj Hz.
    assert (He : In (i, j, round2 (coefficient p i j)) es).
    { apply In_export_iff. unfold e_row, e_col, e_val. cbn [fst snd]. auto. }
    apply load_size_bound in He. exact He.
  - destruct (load_size_tight es) as [E|(e & He & E)]; [left; exact E|].
    right. apply In_export_iff in He. destruct He as (H1 & H2 & H3 & _).
    exists (e_row e), (e_col e). auto.
Qed.

(* outside the loaded size every coefficient of the problem is zero *)
Lemma rounded_outside p i j :
  let m := load_size (snd (export_entries p)) in
  (Nat.min m (p_n p) <= i)%nat \/ (Nat.min m (p_n p) <= j)%nat -> rounded p i j = 0.
Proof.
  intros m H. unfold rounded.
  destruct (Nat.ltb_spec i (p_n p)); destruct (Nat.ltb_spec j (p_n p)); simpl; try reflexivity.
  destruct (is_zero (coefficient p i j)) eqn:Z0; [apply round2_zero; exact Z0|].
  pose proof (load_export p) as L. unfold load_entries in L. fold m in L.
  destruct L as (_ & _ & _ & L & _). specialize (L i j H0 H1 Z0). lia.
Qed.

(* ================= energies ================= *)
Lemma quad_support a n (A : nat -> nat -> Z) v :
  (forall i j, (i < n)%nat -> (j < n)%nat -> (a <= i)%nat \/ (a <= j)%nat -> A i j = 0) -> (a <= n)%nat ->
  zsum n (fun i => zsum n (fun j => A i j * v j) * v i) =
  zsum a (fun i => zsum a (fun j => A i j * v j) * v i).
Proof.
  intros HA Han. rewrite (zsum_support a n).
  - apply zsum_ext. intros i Hi. f_equal. apply zsum_support; [|exact Han].
    intros j Hj. rewrite HA by lia. reflexivity.
  - intros i Hi. rewrite zsum_zero; [reflexivity|]. intros j Hj. rewrite HA by lia. reflexivity.
  - exact Han.
Qed.

Lemma lin_support a n (d : nat -> Z) v :
  (forall i, (a <= i < n)%nat -> d i = 0) -> (a <= n)%nat ->
  zsum n (fun i => d i * v i) = zsum a (fun i => d i * v i).
Proof.
  intros Hd Han. apply zsum_support; [|exact Han]. intros i Hi. rewrite Hd by exact Hi. reflexivity.
Qed.

Theorem energy_roundtrip p v :
  (p_ising p = true -> forall i, (i < p_n p)%nat -> (p_mat p i i == 0)%Q) ->
  energy_loaded (p_ising p) (load_entries (export_entries p)) v = energy_rounded p v.
Proof.
  intros Hdiag. unfold load_entries, energy_loaded, energy_rounded. cbn [fst snd].
  set (es := snd (export_entries p)). set (m := load_size es). set (n := p_n p).
  set (a := Nat.min m n).
  assert (Ham : (a <= m)%nat) by (unfold a; lia). assert (Han : (a <= n)%nat) by (unfold a; lia).
  assert (HM : forall i j, coo_dense es i j = rounded p i j) by (intros; apply load_export_dense).
  assert (Hout : forall i j, (a <= i)%nat \/ (a <= j)%nat -> rounded p i j = 0)
    by (intros i j H; apply rounded_outside; exact H).
  (* inside the n x n block, rounded is the rounded coefficient *)
  assert (Hin : forall i j, (i < n)%nat -> (j < n)%nat -> rounded p i j = round2 (coefficient p i j)).
  { intros i j Hi Hj. unfold rounded. fold n.
    destruct (Nat.ltb_spec i n); [|lia]. destruct (Nat.ltb_spec j n); [|lia]. reflexivity. }
  destruct (p_ising p) eqn:Is.
  - (* Ising file *)
    assert (Hd0 : forall i, (i < n)%nat -> round2 (p_mat p i i) = 0).
    { intros i Hi. apply round2_zero. apply is_zero_iff. apply Hdiag; [reflexivity | exact Hi]. }
    assert (Hoff : forall i j, i <> j -> coefficient p i j = p_mat p i j).
    { intros i j Hne. unfold coefficient. destruct (Nat.eqb_spec i j); [contradiction | reflexivity]. }
    assert (Hdg : forall i, coefficient p i i = p_h p i).
    { intros i. unfold coefficient, dvec. rewrite Nat.eqb_refl, Is. reflexivity. }
    unfold ising_z. f_equal. f_equal.
    + rewrite (quad_support a m), (quad_support a n); try assumption.
      * apply zsum_ext. intros i Hi. f_equal. apply zsum_ext. intros j Hj. f_equal.
        unfold split_J. rewrite HM.
        destruct (Nat.eqb_spec i j) as [->|Hne]; [symmetry; apply Hd0; lia|].
        rewrite Hin by lia. rewrite Hoff by exact Hne. reflexivity.
      * intros i j Hi Hj H. cbv beta.
        destruct (Nat.eq_dec i j) as [->|Hne]; [apply Hd0; exact Hj|].
        rewrite <- Hoff by exact Hne. rewrite <- Hin by assumption. apply Hout. exact H.
      * intros i j _ _ H. unfold split_J. destruct (i =? j)%nat; [reflexivity|]. rewrite HM. apply Hout. exact H.
    + rewrite (lin_support a m), (lin_support a n); try assumption.
      * apply zsum_ext. intros i Hi. f_equal. unfold split_h. rewrite HM, Hin by lia. rewrite Hdg. reflexivity.
      * intros i Hi. cbv beta. rewrite <- Hdg, <- Hin by lia. apply Hout. left. lia.
      * intros i Hi. unfold split_h. rewrite HM. apply Hout. left. lia.
  - (* QUBO file *)
    assert (Hco : forall i j, coefficient p i j = p_mat p i j).
    { intros i j. unfold coefficient, dvec. rewrite Is. destruct (Nat.eqb_spec i j) as [->|]; reflexivity. }
    unfold qubo_z. f_equal.
    rewrite (quad_support a m), (quad_support a n); try assumption.
    + apply zsum_ext. intros i Hi. f_equal. apply zsum_ext. intros j Hj. f_equal.
      rewrite HM, Hin by lia. rewrite Hco. reflexivity.
    + intros i j Hi Hj H. cbv beta. rewrite <- Hco, <- Hin by assumption. apply Hout. exact H.
    + intros i j _ _ H. rewrite HM. apply Hout. exact H.
Qed.

(* ================= exactness on multiples of 1/100 ================= *)
Lemma hundredth_round2 q : hundredth q -> (q == inject_Z (round2 q) / 100)%Q.
Proof. intros [z Hz]. rewrite (round2_hundredths q z Hz). exact Hz. Qed.

Lemma qsum_ext n f g : (forall i, (i < n)%nat -> (f i == g i)%Q) -> (qsum n f == qsum n g)%Q.
Proof.
  induction n as [|n IH]; intros H; simpl; [reflexivity|].
  rewrite IH by (intros; apply H; lia). rewrite (H n) by lia. reflexivity.
Qed.

Lemma qsum_hundredths n (g : nat -> Z) :
  (qsum n (fun i => inject_Z (g i) / 100) == inject_Z (zsum n g) / 100)%Q.
Proof.
  induction n as [|n IH]; cbn [qsum].
  - reflexivity.
  - rewrite IH, zsum_S, inject_Z_plus. field.
Qed.

Lemma quad_hundredths n (A : qmat) (R : nat -> nat -> Z) v :
  (forall i j, (i < n)%nat -> (j < n)%nat -> (A i j == inject_Z (R i j) / 100)%Q) ->
  (qsum n (fun i => qsum n (fun j => A i j * inject_Z (v j)) * inject_Z (v i)) ==
   inject_Z (zsum n (fun i => zsum n (fun j => R i j * v j) * v i)%Z) / 100)%Q.
Proof.
  intros H. rewrite <- qsum_hundredths. apply qsum_ext. intros i Hi.
  rewrite (qsum_ext n _ (fun j => inject_Z ((R i j * v j)%Z) / 100)%Q).
  - rewrite qsum_hundredths, !inject_Z_mult. field.
  - intros j Hj. rewrite (H i j Hi Hj), inject_Z_mult. field.
Qed.

Lemma lin_hundredths n (d : qvec) (r : nat -> Z) v :
  (forall i, (i < n)%nat -> (d i == inject_Z (r i) / 100)%Q) ->
  (qsum n (fun i => d i * inject_Z (v i)) == inject_Z (zsum n (fun i => r i * v i)%Z) / 100)%Q.
Proof.
  intros H. rewrite <- qsum_hundredths. apply qsum_ext. intros i Hi.
  rewrite (H i Hi), inject_Z_mult. field.
Qed.

(* when every coefficient and the constant are multiples of 1/100 the rounded problem is the problem *)
Theorem energy_rounded_exact p v :
  (forall i j, (i < p_n p)%nat -> (j < p_n p)%nat -> hundredth (p_mat p i j)) ->
  (p_ising p = true -> forall i, (i < p_n p)%nat -> hundredth (p_h p i)) ->
  hundredth (p_const p) ->
  (inject_Z (energy_rounded p v) / 100 == energy_q p v)%Q.
Proof.
  intros HM Hh Hc. unfold energy_rounded, energy_q. destruct (p_ising p) eqn:Is.
  - unfold ising_z, ising_q.
    rewrite (quad_hundredths (p_n p) (p_mat p) (fun i j => round2 (p_mat p i j)) v)
      by (intros; apply hundredth_round2; apply HM; assumption).
    rewrite (lin_hundredths (p_n p) (p_h p) (fun i => round2 (p_h p i)) v)
      by (intros; apply hundredth_round2; apply Hh; [reflexivity | assumption]).
    rewrite (hundredth_round2 (p_const p) Hc) at 2.
    rewrite !inject_Z_plus. field.
  - unfold qubo_z, qubo_q.
    rewrite (quad_hundredths (p_n p) (p_mat p) (fun i j => round2 (p_mat p i j)) v)
      by (intros; apply hundredth_round2; apply HM; assumption).
    rewrite (hundredth_round2 (p_const p) Hc) at 2.
    rewrite !inject_Z_plus. field.
Qed.

(* in general the file differs from the problem by at most half a hundredth per coefficient *)
Lemma round2_error q : (Qabs (q - inject_Z (round2 q) / 100) <= 1 # 200)%Q.
Proof.
  pose proof (round2_nearest q) as H.
  assert (E : (q - inject_Z (round2 q) / 100 == (100 * q - inject_Z (round2 q)) * (1 # 100))%Q) by field.
  rewrite E, Qabs_Qmult. 
  assert (E2 : (Qabs (1 # 100) == 1 # 100)%Q) by reflexivity. rewrite E2.
  assert (E3 : (1 # 200 == (1 # 2) * (1 # 100))%Q) by reflexivity. rewrite E3.
  apply Qmult_le_compat_r; [exact H | discriminate].
Qed.

(* ====================================================================================== *)
(* ================= Part 2: text level ================================================= *)
From Coq Require Import String Ascii DecimalString DecimalNat DecimalN.
Local Open Scope string_scope.

(* ---------- strings ---------- *)
Lemma sapp_assoc (a b c : string) : (a ++ b) ++ c = a ++ (b ++ c).
Proof. induction a as [|x a IH]; simpl; [reflexivity | rewrite IH; reflexivity]. Qed.

Lemma sapp_nil_r (a : string) : a ++ "" = a.
Proof. induction a as [|x a IH]; simpl; [reflexivity | rewrite IH; reflexivity]. Qed.


Lemma sall_app P a b : sall P (a ++ b) = sall P a && sall P b.
Proof. induction a as [|x a IH]; simpl; [reflexivity | rewrite IH, andb_assoc; reflexivity]. Qed.

Lemma sall_impl (P R : ascii -> bool) s :
  (forall c, P c = true -> R c = true) -> sall P s = true -> sall R s = true.
Proof.
  intros H. induction s as [|c s IH]; simpl; [auto|].
  rewrite !andb_true_iff. intros [H1 H2]. split; [apply H; exact H1 | apply IH; exact H2].
Qed.


Lemma digitc_not_ws c : digitc c = true -> not_ws c = true.
Proof.
  unfold digitc, not_ws, is_ws. set (k := nat_of_ascii c). intros H.
  destruct (Nat.leb_spec 48 k); destruct (Nat.leb_spec k 57); try discriminate.
  destruct (Nat.leb_spec 9 k); destruct (Nat.leb_spec k 13); destruct (Nat.leb_spec 28 k);
    destruct (Nat.leb_spec k 32); simpl; try reflexivity; lia.
Qed.

Lemma digitc_not_char x c : digitc x = false -> digitc c = true -> not_char x c = true.
Proof.
  unfold not_char. intros Hx Hc. destruct (Ascii.eqb_spec c x) as [->|]; [congruence | reflexivity].
Qed.

Lemma string_of_uint_digits d : sall digitc (NilEmpty.string_of_uint d) = true.
Proof. induction d; simpl; auto. Qed.

Lemma string_of_uint_empty d : NilEmpty.string_of_uint d = "" -> d = Decimal.Nil.
Proof. destruct d; simpl; intros H; [reflexivity | discriminate ..]. Qed.

Lemma print_nat_digits k : sall digitc (print_nat k) = true.
Proof. apply string_of_uint_digits. Qed.
Lemma print_N_digits k : sall digitc (print_N k) = true.
Proof. apply string_of_uint_digits. Qed.

Lemma print_nat_nonempty k : print_nat k <> "".
Proof.
  unfold print_nat. intros H. apply string_of_uint_empty in H.
  assert (E : Nat.of_uint (Nat.to_uint k) = Nat.of_uint Decimal.Nil) by (rewrite H; reflexivity).
  rewrite DecimalNat.Unsigned.of_to in E. simpl in E. subst k. discriminate H.
Qed.

Lemma print_N_nonempty k : print_N k <> "".
Proof.
  unfold print_N. intros H. apply string_of_uint_empty in H.
  assert (E : N.of_uint (N.to_uint k) = N.of_uint Decimal.Nil) by (rewrite H; reflexivity).
  rewrite DecimalN.Unsigned.of_to in E. simpl in E. subst k. discriminate H.
Qed.

(* int(print(k)) = k *)
Theorem parse_print_nat k : parse_nat (print_nat k) = Some k.
Proof.
  unfold parse_nat. pose proof (print_nat_nonempty k) as Hne.
  destruct (print_nat k) eqn:E; [contradiction|]. rewrite <- E. unfold print_nat.
  rewrite NilEmpty.usu. simpl. rewrite DecimalNat.Unsigned.of_to. reflexivity.
Qed.

Theorem parse_print_N k : parse_N (print_N k) = Some k.
Proof.
  unfold parse_N. pose proof (print_N_nonempty k) as Hne.
  destruct (print_N k) eqn:E; [contradiction|]. rewrite <- E. unfold print_N.
  rewrite NilEmpty.usu. simpl. rewrite DecimalN.Unsigned.of_to. reflexivity.
Qed.

Lemma digit_val_char k : (k < 10)%nat -> digit_val (digit_char k) = Some (Z.of_nat k).
Proof.
  intros H. do 10 (destruct k as [|k]; [reflexivity|]). lia.
Qed.

Lemma digit_char_digit k : digitc (digit_char k) = true.
Proof.
  do 10 (destruct k as [|k]; [reflexivity|]). destruct k; reflexivity.
Qed.

(* ---------- split() ---------- *)
Lemma split_ws_aux_word a : forall cur s,
  sall not_ws a = true -> split_ws_aux cur (a ++ s) = split_ws_aux (cur ++ a) s.
Proof.
  induction a as [|c a IH]; intros cur s H; simpl.
  - rewrite sapp_nil_r. reflexivity.
  - simpl in H. apply andb_true_iff in H. destruct H as [H1 H2].
    unfold not_ws in H1. apply negb_true_iff in H1. rewrite H1.
    rewrite IH by exact H2. rewrite sapp_assoc. reflexivity.
Qed.

(* a blank-free non-empty word followed by a blank *)
Lemma split_ws_word_space a s :
  sall not_ws a = true -> a <> "" -> split_ws (a ++ String " " s) = (a :: split_ws s)%list.
Proof.
  intros H Hne. unfold split_ws. rewrite split_ws_aux_word by exact H. simpl.
  destruct a; [contradiction | reflexivity].
Qed.

Lemma split_ws_last_word a :
  sall not_ws a = true -> a <> "" -> split_ws a = [a].
Proof.
  intros H Hne. unfold split_ws. rewrite <- (sapp_nil_r a) at 1.
  rewrite split_ws_aux_word by exact H. simpl. destruct a; [contradiction | reflexivity].
Qed.

Lemma split_ws_lead_space s : split_ws (String " " s) = split_ws s.
Proof. reflexivity. Qed.

(* split(c) of a text without c *)
Lemma split_on_aux_none c s : forall cur,
  sall (not_char c) s = true -> split_on_aux c cur s = [cur ++ s].
Proof.
  induction s as [|a s IH]; intros cur H; simpl.
  - rewrite sapp_nil_r. reflexivity.
  - simpl in H. apply andb_true_iff in H. destruct H as [H1 H2].
    unfold not_char in H1. apply negb_true_iff in H1. rewrite H1.
    rewrite IH by exact H2. rewrite sapp_assoc. reflexivity.
Qed.

Lemma split_at_dot_word a : forall cur s,
  sall (not_char ".") a = true -> split_at_dot cur (a ++ String "." s) = Some (cur ++ a, s).
Proof.
  induction a as [|c a IH]; intros cur s H; simpl.
  - rewrite sapp_nil_r. reflexivity.
  - simpl in H. apply andb_true_iff in H. destruct H as [H1 H2].
    unfold not_char in H1. apply negb_true_iff in H1. rewrite H1.
    rewrite IH by exact H2. rewrite sapp_assoc. reflexivity.
Qed.

(* ---------- float(): parsing what '.2f' prints ---------- *)
(* digits '.' digit digit of a magnitude z in hundredths *)
Definition dec2_body (z : Z) : string :=
  print_N (Z.to_N (z / 100)) ++
  String "." (String (digit_char (Z.to_nat ((z mod 100) / 10))) (String (digit_char (Z.to_nat (z mod 10))) "")).

Lemma print_dec2_body neg space z :
  print_dec2 neg space z = (if neg then "-" else if space then " " else "") ++ dec2_body z.
Proof. reflexivity. Qed.

Lemma parse_udec2_body z : 0 <= z -> parse_udec2 (dec2_body z) = Some z.
Proof.
  intros Hz. unfold parse_udec2, dec2_body.
  rewrite split_at_dot_word.
  2:{ apply (sall_impl digitc); [|apply print_N_digits]. intros c Hc. apply digitc_not_char; [reflexivity | exact Hc]. }
  simpl append. rewrite parse_print_N.
  assert (B1 : 0 <= (z mod 100) / 10 < 10).
  { pose proof (Z.mod_pos_bound z 100 ltac:(lia)). split; [apply Z.div_pos; lia | apply Z.div_lt_upper_bound; lia]. }
  assert (B2 : 0 <= z mod 10 < 10) by (apply Z.mod_pos_bound; lia).
  rewrite !digit_val_char by lia. cbn [all_ws].
  rewrite !Z2Nat.id, Z2N.id by (try lia; apply Z.div_pos; lia).
  f_equal.
  clear B1 B2. Z.div_mod_to_equations. lia.
Qed.

Lemma dec2_body_head z : exists c r, dec2_body z = String c r /\ digitc c = true.
Proof.
  unfold dec2_body. pose proof (print_N_nonempty (Z.to_N (z / 100))) as Hne.
  pose proof (print_N_digits (Z.to_N (z / 100))) as Hd.
  destruct (print_N (Z.to_N (z / 100))) as [|c r]; [contradiction|].
  simpl in Hd. apply andb_true_iff in Hd. exists c. eexists. split; [reflexivity | tauto].
Qed.

Lemma digitc_facts c : digitc c = true ->
  is_ws c = false /\ Ascii.eqb c "-" = false /\ Ascii.eqb c "#" = false /\ Ascii.eqb c "p" = false.
Proof.
  intros H. split.
  - apply digitc_not_ws in H. unfold not_ws in H. apply negb_true_iff in H. exact H.
  - repeat split.
    + apply (digitc_not_char "-") in H; [|reflexivity]. unfold not_char in H. apply negb_true_iff in H. exact H.
    + apply (digitc_not_char "#") in H; [|reflexivity]. unfold not_char in H. apply negb_true_iff in H. exact H.
    + apply (digitc_not_char "p") in H; [|reflexivity]. unfold not_char in H. apply negb_true_iff in H. exact H.
Qed.

(* float(print) = value, for each of the three sign slots; leading blanks are ignored *)
Theorem parse_print_dec2 neg space z :
  0 <= z -> parse_dec2 (print_dec2 neg space z) = Some (if neg then - z else z).
Proof.
  intros Hz. rewrite print_dec2_body.
  destruct (dec2_body_head z) as (c & r & E & Hc). destruct (digitc_facts c Hc) as (W & M & _).
  unfold parse_dec2. destruct neg; [|destruct space]; simpl append.
  - cbn [lstrip]. replace (is_ws "-") with false by reflexivity. rewrite Ascii.eqb_refl.
    rewrite parse_udec2_body by exact Hz. reflexivity.
  - cbn [lstrip]. replace (is_ws " ") with true by reflexivity.
    rewrite E. cbn [lstrip]. rewrite W, M. rewrite <- E. apply parse_udec2_body. exact Hz.
  - rewrite E. cbn [lstrip]. rewrite W, M. rewrite <- E. apply parse_udec2_body. exact Hz.
Qed.

Lemma parse_dec2_lead_space s : parse_dec2 (String " " s) = parse_dec2 s.
Proof. reflexivity. Qed.

(* the sign of the rounded value is the sign of the value *)
Lemma round2_sign q : (Qnum q < 0 -> round2 q <= 0) /\ (0 <= Qnum q -> 0 <= round2 q).
Proof.
  unfold round2, round_half_even. destruct q as [a b]. cbn [Qnum Qden].
  pose proof (Z.div_mod (100 * a) (Zpos b) ltac:(lia)) as E.
  pose proof (Z.mod_pos_bound (100 * a) (Zpos b) ltac:(lia)) as B.
  set (fl := 100 * a / Zpos b) in *. set (r := (100 * a) mod Zpos b) in *.
  split; intros H.
  - assert (fl <= -1) by nia.
    destruct (2 * r ?= Zpos b)%Z; [destruct (Z.even fl)| |]; lia.
  - assert (0 <= fl) by nia.
    destruct (2 * r ?= Zpos b)%Z; [destruct (Z.even fl)| |]; lia.
Qed.

(* float(text of '.2f' of q) is the rounded value, in hundredths *)
Theorem parse_fmt2 space q : parse_dec2 (fmt2 space q) = Some (round2 q).
Proof.
  unfold fmt2. rewrite parse_print_dec2 by lia. f_equal.
  destruct (round2_sign q) as [H1 H2].
  destruct (Z.ltb_spec (Qnum q) 0); [specialize (H1 H) | specialize (H2 H)]; lia.
Qed.

Lemma fmt2_chars space q :
  exists sp w, fmt2 space q = sp ++ w /\ (sp = "" \/ sp = " ") /\ w <> "" /\
               sall not_ws w = true /\ sall (not_char "=") w = true /\ parse_dec2 w = Some (round2 q).
Proof.
  pose proof (parse_fmt2 space q) as P. unfold fmt2 in *. rewrite print_dec2_body in *.
  set (z := Z.abs (round2 q)) in *.
  assert (Hb : sall not_ws (dec2_body z) = true /\ sall (not_char "=") (dec2_body z) = true).
  { unfold dec2_body. rewrite !sall_app. cbn [sall].
    pose proof (print_N_digits (Z.to_N (z / 100))) as Hd.
    rewrite (sall_impl digitc not_ws _ digitc_not_ws Hd).
    rewrite (sall_impl digitc (not_char "=") _ (fun c => digitc_not_char "=" c eq_refl) Hd).
    unfold not_ws. rewrite !(proj1 (digitc_facts _ (digit_char_digit _))).
    rewrite !(digitc_not_char "=" _ eq_refl (digit_char_digit _)). split; reflexivity. }
  destruct Hb as [Hb1 Hb2].
  destruct (dec2_body_head z) as (c & r & E & Hc).
  destruct (Qnum q <? 0)%Z.
  - exists "", ("-" ++ dec2_body z). split; [reflexivity|]. split; [left; reflexivity|].
    split; [discriminate|]. simpl append. cbn [sall]. rewrite Hb1, Hb2. repeat split; try reflexivity. exact P.
  - destruct space.
    + exists " ", (dec2_body z). split; [reflexivity|]. split; [right; reflexivity|].
      split; [rewrite E; discriminate|]. repeat split; try assumption; try exact P.
    + exists "", (dec2_body z). split; [reflexivity|]. split; [left; reflexivity|].
      split; [rewrite E; discriminate|]. repeat split; try assumption; try exact P.
Qed.

(* ---------- one line of the file through the loader's loop body ---------- *)
Lemma sapp_space a b : a ++ " " ++ b = a ++ String " " b.
Proof. reflexivity. Qed.

Lemma print_nat_word k : sall not_ws (print_nat k) = true.
Proof. apply (sall_impl digitc); [exact digitc_not_ws | apply print_nat_digits]. Qed.

(* line.split() of a record line: the two indices and the value field *)
Lemma split_ws_record i j q :
  exists w, split_ws (record_line i j q) = [print_nat i; print_nat j; w] /\ parse_dec2 w = Some (round2 q).
Proof.
  destruct (fmt2_chars true q) as (sp & w & E & Hsp & Hne & Hw & _ & Hp).
  exists w. split; [|exact Hp]. unfold record_line. rewrite !sapp_space.
  rewrite split_ws_word_space by (try apply print_nat_word; apply print_nat_nonempty).
  rewrite split_ws_word_space by (try apply print_nat_word; apply print_nat_nonempty).
  rewrite E. destruct Hsp as [-> | ->]; simpl append.
  - rewrite split_ws_last_word by assumption. reflexivity.
  - rewrite split_ws_lead_space, split_ws_last_word by assumption. reflexivity.
Qed.

Lemma record_line_head i j q : exists c r, record_line i j q = String c r /\ digitc c = true.
Proof.
  unfold record_line. pose proof (print_nat_nonempty i) as Hne. pose proof (print_nat_digits i) as Hd.
  destruct (print_nat i) as [|c r]; [contradiction|]. simpl in Hd. apply andb_true_iff in Hd.
  exists c. eexists. split; [reflexivity | tauto].
Qed.

(* a 'row col value' line appends the record with the rounded value *)
Theorem load_line_record cc st i j q :
  digitc cc = false ->
  load_line cc st (record_line i j q) =
  Ok (mkL (l_entries st ++ [(i, j, round2 q)])%list (l_const st) (l_matlen st)).
Proof.
  intros Hcc. destruct (record_line_head i j q) as (c & r & E & Hc).
  destruct (split_ws_record i j q) as (w & Hs & Hp).
  destruct (digitc_facts c Hc) as (_ & _ & H1 & H2).
  assert (H0 : Ascii.eqb c cc = false).
  { apply (digitc_not_char cc) in Hc; [|exact Hcc]. unfold not_char in Hc. apply negb_true_iff in Hc. exact Hc. }
  unfold load_line. rewrite E. rewrite H0, H1, H2. cbn [orb]. rewrite <- E, Hs.
  cbn [List.length Nat.eqb]. unfold int_field, float_field. cbn [nth_error].
  rewrite !parse_print_nat, Hp. reflexivity.
Qed.

(* a comment line without '=' changes nothing *)
Theorem load_line_comment cc st r :
  sall (not_char "=") r = true -> load_line cc st (String "#" r) = Ok st.
Proof.
  intros H. unfold load_line. rewrite Ascii.eqb_refl, orb_true_r.
  unfold split_on. rewrite split_on_aux_none by (cbn [sall]; rewrite H; reflexivity). reflexivity.
Qed.

Lemma fmt2_no_eq space q : sall (not_char "=") (fmt2 space q) = true.
Proof.
  destruct (fmt2_chars space q) as (sp & w & E & Hsp & _ & _ & Hw & _).
  rewrite E, sall_app, Hw. destruct Hsp as [-> | ->]; reflexivity.
Qed.

Lemma load_line_hash cc st r :
  load_line cc st (String "#" r) =
  match split_on "=" (String "#" r) with
  | (_ :: f :: _)%list =>
      match parse_dec2 f with
      | Some z => Ok (mkL (l_entries st) z (l_matlen st))
      | None => Err ValueError
      end
  | _ => Ok st
  end.
Proof. unfold load_line. rewrite Ascii.eqb_refl, orb_true_r. reflexivity. Qed.

Lemma split_on_const_line q :
  split_on "=" (const_line q) = ["# Constant term of objective "; String " " (fmt2 false q)].
Proof.
  unfold split_on, const_line. simpl.
  rewrite split_on_aux_none by apply fmt2_no_eq. reflexivity.
Qed.

(* the constant line sets the constant to the rounded constant *)
Theorem load_line_const cc st q :
  load_line cc st (const_line q) = Ok (mkL (l_entries st) (round2 q) (l_matlen st)).
Proof.
  assert (E : exists r, const_line q = String "#" r) by (eexists; reflexivity).
  destruct E as [r E]. rewrite E, load_line_hash, <- E, split_on_const_line.
  rewrite parse_dec2_lead_space, parse_fmt2. reflexivity.
Qed.

(* ---------- the whole file ---------- *)

Lemma map_flat_map {A B C} (g : B -> C) (h : A -> list B) l :
  map g (flat_map h l) = flat_map (fun x => map g (h x)) l.
Proof. induction l as [|a l IH]; simpl; [reflexivity | rewrite map_app, IH; reflexivity]. Qed.

Lemma export_entries_raw p : snd (export_entries p) = map raw_entry (raw_diag p ++ raw_off p)%list.
Proof.
  unfold export_entries, diag_entries, offdiag_entries, raw_diag, raw_off. cbn [snd].
  rewrite map_app, !map_flat_map. f_equal.
  - apply flat_map_ext. intros i. destruct (is_zero (dvec p i)); reflexivity.
  - apply flat_map_ext. intros [[r c] v]. destruct (r =? c)%nat; reflexivity.
Qed.

Lemma export_text_raw p :
  export_text p =
  (const_line (p_const p) :: "# Diagonal terms" :: map raw_line (raw_diag p) ++
   "# Off-Diagonal terms" :: map raw_line (raw_off p))%list.
Proof.
  unfold export_text, raw_diag, raw_off. rewrite !map_flat_map. do 2 f_equal. f_equal.
  - apply flat_map_ext. intros i. destruct (is_zero (dvec p i)); reflexivity.
  - f_equal. apply flat_map_ext. intros [[r c] v]. destruct (r =? c)%nat; reflexivity.
Qed.

Lemma load_lines_app cc a : forall st b,
  load_lines cc st (a ++ b)%list =
  match load_lines cc st a with Ok st' => load_lines cc st' b | Err e => Err e end.
Proof.
  induction a as [|l a IH]; intros st b; simpl; [reflexivity|].
  destruct (load_line cc st l); [apply IH | reflexivity].
Qed.

Lemma load_lines_records cc raws : forall st,
  digitc cc = false ->
  load_lines cc st (map raw_line raws) =
  Ok (mkL (l_entries st ++ map raw_entry raws)%list (l_const st) (l_matlen st)).
Proof.
  induction raws as [|[[i j] q] raws IH]; intros st Hcc; simpl.
  - rewrite app_nil_r. destruct st; reflexivity.
  - rewrite load_line_record by exact Hcc. rewrite IH by exact Hcc. cbn [l_entries l_const l_matlen].
    rewrite <- app_assoc. reflexivity.
Qed.

(* load_matrix on the lines written by export (after any timestamp comment line ts) yields what
   the record-level loader yields on the record-level export *)
Theorem load_export_text cc ts p :
  digitc cc = false -> sall (not_char "=") ts = true ->
  load_text cc (String "#" ts :: export_text p) = Ok (load_entries (export_entries p)).
Proof.
  intros Hcc Hts. unfold load_text. rewrite export_text_raw.
  cbn [load_lines]. rewrite load_line_comment by exact Hts.
  rewrite load_line_const.
  rewrite (load_line_comment cc _ " Diagonal terms") by reflexivity.
  rewrite load_lines_app, load_lines_records by exact Hcc.
  cbn [load_lines]. rewrite (load_line_comment cc _ " Off-Diagonal terms") by reflexivity.
  rewrite load_lines_records by exact Hcc. cbn [l_entries l_const l_matlen app].
  rewrite <- map_app, <- export_entries_raw. unfold load_entries. reflexivity.
Qed.

(* ---------- trailing blanks (the newline readlines() leaves at the end of a line) ---------- *)
Lemma is_ws_not_eq c : is_ws c = true -> not_char "=" c = true.
Proof.
  unfold not_char. intros H. destruct (Ascii.eqb_spec c "=") as [->|]; [discriminate H | reflexivity].
Qed.

Lemma all_ws_not_eq t : all_ws t = true -> sall (not_char "=") t = true.
Proof.
  induction t as [|c t IH]; simpl; [auto|]. rewrite !andb_true_iff. intros [H1 H2].
  split; [apply is_ws_not_eq; exact H1 | apply IH; exact H2].
Qed.

Lemma split_ws_aux_ws t : all_ws t = true ->
  forall cur, split_ws_aux cur t = match cur with EmptyString => [] | _ => [cur] end.
Proof.
  induction t as [|c t IH]; simpl; intros H cur; [reflexivity|].
  apply andb_true_iff in H. destruct H as [H1 H2]. rewrite H1, (IH H2 ""). simpl.
  destruct cur; reflexivity.
Qed.

(* split() does not see trailing blanks *)
Lemma split_ws_aux_suffix t s : all_ws t = true -> forall cur, split_ws_aux cur (s ++ t) = split_ws_aux cur s.
Proof.
  intros Ht. induction s as [|c s IH]; intros cur; simpl.
  - apply split_ws_aux_ws. exact Ht.
  - destruct (is_ws c); rewrite IH; reflexivity.
Qed.

Lemma split_ws_suffix t s : all_ws t = true -> split_ws (s ++ t) = split_ws s.
Proof. intros Ht. apply split_ws_aux_suffix. exact Ht. Qed.

Lemma parse_udec2_body_t z t : 0 <= z -> all_ws t = true -> parse_udec2 (dec2_body z ++ t) = Some z.
Proof.
  intros Hz Ht. unfold parse_udec2, dec2_body. rewrite sapp_assoc. simpl append.
  rewrite split_at_dot_word.
  2:{ apply (sall_impl digitc); [|apply print_N_digits]. intros c Hc. apply digitc_not_char; [reflexivity | exact Hc]. }
  simpl append. rewrite parse_print_N.
  assert (B1 : 0 <= (z mod 100) / 10 < 10).
  { pose proof (Z.mod_pos_bound z 100 ltac:(lia)). split; [apply Z.div_pos; lia | apply Z.div_lt_upper_bound; lia]. }
  assert (B2 : 0 <= z mod 10 < 10) by (apply Z.mod_pos_bound; lia).
  rewrite !digit_val_char by lia. rewrite Ht.
  rewrite !Z2Nat.id, Z2N.id by (try lia; apply Z.div_pos; lia).
  f_equal. clear B1 B2. Z.div_mod_to_equations. lia.
Qed.

(* float() does not see trailing blanks either *)
Theorem parse_print_dec2_t neg space z t :
  0 <= z -> all_ws t = true -> parse_dec2 (print_dec2 neg space z ++ t) = Some (if neg then - z else z).
Proof.
  intros Hz Ht. rewrite print_dec2_body, sapp_assoc.
  destruct (dec2_body_head z) as (c & r & E & Hc). destruct (digitc_facts c Hc) as (W & M & _).
  assert (E' : dec2_body z ++ t = String c (r ++ t)) by (rewrite E; reflexivity).
  unfold parse_dec2. destruct neg; [|destruct space]; simpl append.
  - cbn [lstrip]. replace (is_ws "-") with false by reflexivity. rewrite Ascii.eqb_refl.
    rewrite parse_udec2_body_t by assumption. reflexivity.
  - cbn [lstrip]. replace (is_ws " ") with true by reflexivity.
    rewrite E'. cbn [lstrip]. rewrite W, M. rewrite <- E'. apply parse_udec2_body_t; assumption.
  - rewrite E'. cbn [lstrip]. rewrite W, M. rewrite <- E'. apply parse_udec2_body_t; assumption.
Qed.

Theorem parse_fmt2_t space q t : all_ws t = true -> parse_dec2 (fmt2 space q ++ t) = Some (round2 q).
Proof.
  intros Ht. unfold fmt2. rewrite parse_print_dec2_t by (try lia; exact Ht). f_equal.
  destruct (round2_sign q) as [H1 H2].
  destruct (Z.ltb_spec (Qnum q) 0); [specialize (H1 H) | specialize (H2 H)]; lia.
Qed.

(* a line of the file is read the same with and without the newline at its end *)
Definition nl_insensitive (cc : ascii) (l : string) : Prop :=
  forall st t, all_ws t = true -> load_line cc st (l ++ t) = load_line cc st l.

Lemma nl_insensitive_comment cc r : sall (not_char "=") r = true -> nl_insensitive cc (String "#" r).
Proof.
  intros H st t Ht. simpl append. rewrite !load_line_comment; [reflexivity | exact H |].
  rewrite sall_app, H, (all_ws_not_eq t Ht). reflexivity.
Qed.

Lemma nl_insensitive_const cc q : nl_insensitive cc (const_line q).
Proof.
  intros st t Ht. rewrite load_line_const.
  assert (E : exists r, const_line q = String "#" r) by (eexists; reflexivity).
  destruct E as [r E].
  assert (E2 : const_line q ++ t = String "#" (r ++ t)) by (rewrite E; reflexivity).
  rewrite E2, load_line_hash, <- E2.
  assert (S : split_on "=" (const_line q ++ t) = ["# Constant term of objective "; String " " (fmt2 false q ++ t)]).
  { unfold split_on, const_line. rewrite sapp_assoc. simpl.
    rewrite split_on_aux_none; [reflexivity|]. rewrite sall_app, fmt2_no_eq, (all_ws_not_eq t Ht). reflexivity. }
  rewrite S, parse_dec2_lead_space, parse_fmt2_t by exact Ht. reflexivity.
Qed.

Lemma nl_insensitive_record cc i j q : digitc cc = false -> nl_insensitive cc (record_line i j q).
Proof.
  intros Hcc st t Ht. destruct (record_line_head i j q) as (c & r & E & Hc).
  destruct (digitc_facts c Hc) as (_ & _ & H1 & H2).
  assert (H0 : Ascii.eqb c cc = false).
  { apply (digitc_not_char cc) in Hc; [|exact Hcc]. unfold not_char in Hc. apply negb_true_iff in Hc. exact Hc. }
  assert (E2 : record_line i j q ++ t = String c (r ++ t)) by (rewrite E; reflexivity).
  unfold load_line. rewrite E2, E, H0, H1, H2. cbn [orb]. rewrite <- E2, <- E.
  rewrite split_ws_suffix by exact Ht. reflexivity.
Qed.

(* ---------- readlines() of the joined lines ---------- *)
(* all lines but the last carry the newline *)
Fixpoint with_nl (ls : list string) : list string :=
  match ls with
  | [] => []
  | [l] => [l]
  | l :: rest => cons (l ++ String nl "") (with_nl rest)
  end.

Lemma read_lines_aux_line a : forall cur rest,
  sall (not_char nl) a = true ->
  read_lines_aux cur (a ++ String nl rest) = cons (cur ++ a ++ String nl "") (read_lines_aux "" rest).
Proof.
  induction a as [|c a IH]; intros cur rest H; simpl.
  - reflexivity.
  - simpl in H. apply andb_true_iff in H. destruct H as [H1 H2].
    unfold not_char in H1. apply negb_true_iff in H1. rewrite H1.
    rewrite IH by exact H2. rewrite sapp_assoc. reflexivity.
Qed.

Lemma read_lines_aux_last a : forall cur,
  sall (not_char nl) a = true -> cur ++ a <> "" -> read_lines_aux cur a = [cur ++ a].
Proof.
  induction a as [|c a IH]; intros cur H Hne; simpl.
  - rewrite sapp_nil_r in *. destruct cur; [contradiction | reflexivity].
  - simpl in H. apply andb_true_iff in H. destruct H as [H1 H2].
    unfold not_char in H1. apply negb_true_iff in H1. rewrite H1.
    rewrite IH; [rewrite sapp_assoc; reflexivity | exact H2 |].
    rewrite sapp_assoc. simpl. destruct cur; discriminate.
Qed.

Lemma read_join_lines ls :
  Forall (fun l => sall (not_char nl) l = true /\ l <> "") ls ->
  read_lines (join_lines ls) = with_nl ls.
Proof.
  unfold read_lines. induction ls as [|l ls IH]; intros Hall; [reflexivity|].
  inversion Hall as [|? ? [Hl Hne] Hrest]; subst. destruct ls as [|l2 ls].
  - simpl. apply read_lines_aux_last; [exact Hl | exact Hne].
  - change (join_lines (l :: l2 :: ls)) with (l ++ String nl (join_lines (l2 :: ls))).
    rewrite read_lines_aux_line by exact Hl. simpl append.
    change (with_nl (l :: l2 :: ls)) with (cons (l ++ String nl "") (with_nl (l2 :: ls))).
    f_equal. apply IH. exact Hrest.
Qed.

Lemma load_lines_with_nl cc ls : forall st,
  Forall (nl_insensitive cc) ls -> load_lines cc st (with_nl ls) = load_lines cc st ls.
Proof.
  induction ls as [|l ls IH]; intros st H; [reflexivity|].
  inversion H as [|? ? Hl Hrest]; subst. destruct ls as [|l2 ls]; [reflexivity|].
  change (with_nl (l :: l2 :: ls)) with (cons (l ++ String nl "") (with_nl (l2 :: ls))).
  cbn [load_lines]. rewrite (Hl st (String nl "")) by reflexivity.
  destruct (load_line cc st l); [apply IH; exact Hrest | reflexivity].
Qed.

(* the lines of an exported file: no newline inside, every one insensitive to a trailing newline *)
Lemma digitc_not_nl c : digitc c = true -> not_char nl c = true.
Proof. apply digitc_not_char. reflexivity. Qed.

Lemma fmt2_no_nl space q : sall (not_char nl) (fmt2 space q) = true.
Proof.
  unfold fmt2. rewrite print_dec2_body, sall_app. unfold dec2_body. rewrite sall_app. cbn [sall].
  rewrite (sall_impl digitc (not_char nl) _ digitc_not_nl (print_N_digits _)).
  rewrite !(digitc_not_nl _ (digit_char_digit _)).
  destruct (Qnum q <? 0)%Z; [|destruct space]; reflexivity.
Qed.

Lemma record_line_no_nl i j q : sall (not_char nl) (record_line i j q) = true.
Proof.
  unfold record_line. rewrite !sall_app.
  rewrite !(sall_impl digitc (not_char nl) _ digitc_not_nl (print_nat_digits _)), fmt2_no_nl. reflexivity.
Qed.

Lemma const_line_no_nl q : sall (not_char nl) (const_line q) = true.
Proof. unfold const_line. rewrite sall_app, fmt2_no_nl. reflexivity. Qed.

Lemma export_text_lines cc p :
  digitc cc = false ->
  Forall (fun l => sall (not_char nl) l = true /\ l <> "") (export_text p) /\
  Forall (nl_insensitive cc) (export_text p).
Proof.
  intros Hcc. rewrite export_text_raw.
  assert (R1 : forall raws, Forall (fun l => sall (not_char nl) l = true /\ l <> "") (map raw_line raws)).
  { intros raws. apply Forall_forall. intros l Hl. apply in_map_iff in Hl.
    destruct Hl as ([[i j] q] & <- & _). split; [apply record_line_no_nl|]. simpl.
    destruct (record_line_head i j q) as (c & r & E & _). rewrite E. discriminate. }
  assert (R2 : forall raws, Forall (nl_insensitive cc) (map raw_line raws)).
  { intros raws. apply Forall_forall. intros l Hl. apply in_map_iff in Hl.
    destruct Hl as ([[i j] q] & <- & _). apply nl_insensitive_record. exact Hcc. }
  split.
  - constructor; [split; [apply const_line_no_nl | discriminate]|].
    constructor; [split; [reflexivity | discriminate]|].
    apply Forall_app. split; [apply R1|]. constructor; [split; [reflexivity | discriminate] | apply R1].
  - constructor; [apply nl_insensitive_const|].
    constructor; [apply (nl_insensitive_comment cc " Diagonal terms"); reflexivity|].
    apply Forall_app. split; [apply R2|].
    constructor; [apply (nl_insensitive_comment cc " Off-Diagonal terms"); reflexivity | apply R2].
Qed.

(* load_matrix on the BYTES written by export = the record-level loader on the record-level export *)
Theorem load_export_bytes cc ts p :
  digitc cc = false -> sall (not_char "=") ts = true -> sall (not_char nl) ts = true ->
  load_bytes cc (export_bytes ts p) = Ok (load_entries (export_entries p)).
Proof.
  intros Hcc Hts Hnl. unfold load_bytes, export_bytes.
  destruct (export_text_lines cc p Hcc) as (L1 & L2).
  rewrite read_join_lines.
  - unfold load_text. rewrite load_lines_with_nl.
    + apply load_export_text; assumption.
    + constructor; [apply nl_insensitive_comment; exact Hts | exact L2].
  - constructor; [split; [cbn [sall]; rewrite Hnl; reflexivity | discriminate] | exact L1].
Qed.
