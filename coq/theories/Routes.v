(* Routes.v -- the reference VRPTW as a route-partition problem, and the vocabulary in which
   C08 compares it with the three formulations.  Definitions only.  [C08]

   A route is Path.valid_route (the route definition of doc/MIRPasQUBO.tex: depot-to-depot, interior
   stops pairwise distinct customers, every segment an arc, T_0 = 0, T_{k+1} = max (T_k + t) a <= b at
   every stop incl. the final depot, 0 <= load <= capacity after every stop), read in a path-based
   state st (graph, capacity, initial loading).  A solution of the VRPTW is a duplicate-free list of
   routes on which every customer 1 .. n-1 lies exactly once; its cost is the summed arc cost.
   No minimum over a possibly empty set is formed anywhere: the statements compare the sets
   { v | some feasible solution has cost v } of two problems, which gives equality of feasibility
   and of the optimal values at once. *)
From VQ Require Import Base LinAlg Vrptw Path Penalty.
Open Scope Z_scope.

Definition num_nodes (st : pstate) : nat := length (nodes (pg st)).

(* ---------- the route-partition problem ---------- *)
(* 1 when node k lies on the route r *)
Definition on_route (k : nat) (r : list nat) : Z := if memb k r then 1 else 0.
(* the number of routes of R on which node k lies *)
Definition visits (R : list (list nat)) (k : nat) : Z := sumZ (map (on_route k) R).

Definition partition (st : pstate) (R : list (list nat)) : Prop :=
  NoDup R /\ Forall (valid_route st) R /\
  forall k, (1 <= k < num_nodes st)%nat -> visits R k = 1.

Definition total_cost (st : pstate) (R : list (list nat)) : Z :=
  sumZ (map (route_cost (pg st)) R).

Definition optimal_partition (st : pstate) (R : list (list nat)) : Prop :=
  partition st R /\ forall R', partition st R' -> total_cost st R <= total_cost st R'.

(* ---------- hypotheses on the path-based state ---------- *)
(* every stored route is a route of the CURRENT graph and carries its current cost (the class never
   re-validates stored routes when the graph is edited afterwards, C06_store_once) *)
Definition stored_current (st : pstate) : Prop :=
  forall j r, nth_error (proutes st) j = Some r ->
    valid_route st r /\ nth_error (pcosts st) j = Some (route_cost (pg st) r).

(* the pool holds every valid route *)
Definition pool_complete (st : pstate) : Prop := forall r, valid_route st r -> In r (proutes st).

(* calls that edit the graph / that may store a route *)
Definition graph_op (o : pop) : bool :=
  match o with PAddNode _ _ _ _ | PAddArc _ _ _ _ => true | _ => false end.
Definition route_op (o : pop) : bool :=
  match o with PAddRoute _ => true | _ => false end.

(* capacity is not binding: the load stays in [0, cap] along every trip depot, pairwise distinct customers, depot
   (the only node sequences a route can be; e.g. all demands 0, or -- examples/small.py -- capacity 6 with demands 1, 2, 2) *)
Definition capacity_free (st : pstate) : Prop :=
  forall cs, NoDup cs -> ~ In O cs ->
    Forall (fun l => 0 <= l <= pcap st) (loads (pg st) (pinit st) (cs ++ [O])).

(* no depot self-arc in the VRPTW graph: the empty trip D -> D is not a route (the independent
   reference solver of the runtime check does not count it either) *)
Definition no_depot_loop (st : pstate) : Prop := dict_mem (O, O) (arcs (pg st)) = false.

(* the customers served by a list of routes, in route order *)
Definition served (R : list (list nat)) : list nat := concat (map interior R).

(* ---------- 0-1 vectors over the pool ---------- *)
(* the entries of l selected by the non-zero entries of x (what get_routes reads) *)
Fixpoint select {A} (x : nat -> Z) (l : list A) : list A :=
  match l with
  | [] => []
  | a :: l' => if x O =? 0 then select (fun j => x (S j)) l' else a :: select (fun j => x (S j)) l'
  end.

Definition route_in (r : list nat) (R : list (list nat)) : bool := existsb (list_eqb Nat.eqb r) R.

(* x is the indicator vector of the route list R among the stored routes *)
Definition indicator_vec (st : pstate) (R : list (list nat)) : vec Z :=
  fun j => if route_in (nth j (proutes st) []) R then 1 else 0.
Definition indicator_of (st : pstate) (R : list (list nat)) (x : vec Z) : Prop :=
  forall j, (j < length (proutes st))%nat -> x j = indicator_vec st R j.

(* ---------- a constrained 0-1 program  min c'x + x'Qo x  s.t.  A x = b, x'Rx = 0  ---------- *)
Record zsys := mkZsys {
  zs_rows : nat; zs_cols : nat;
  zs_A : mat Z; zs_b : vec Z; zs_R : mat Z; zs_c : vec Z; zs_Qo : mat Z }.

(* the program the path-based object hands to get_qubo: get_constraint_data() with the shape it
   reports, and get_objective_data() *)
Definition path_sys (st : pstate) : result zsys :=
  match constraint_data st with
  | Err e => Err e
  | Ok (sh, A, b, R, _) =>
      Ok (mkZsys (fst sh) (snd sh) (Zmat_of A) (Zvec_of b) (Zmat_of R)
                 (Zvec_of (fst (objective_data st))) (Zmat_of (snd (objective_data st))))
  end.

Definition sys_feasible (s : zsys) (x : vec Z) : Prop :=
  Zbinary (zs_cols s) x /\ Zfeasible (zs_rows s) (zs_cols s) (zs_A s) (zs_b s) (zs_R s) x.
Definition sys_value (s : zsys) (x : vec Z) : Z := Zobjective (zs_cols s) (zs_c s) (zs_Qo s) x.

(* value of the default-penalty QUBO  get_qubo(False, None)  (rho = S + 1) at x *)
Definition sys_qubo_value (s : zsys) (S : Z) (x : vec Z) : Z :=
  Zqubo_value (zs_cols s)
    (Zget_qubo (zs_rows s) false (Zchoose_rho false S None) (zs_A s, zs_b s, zs_R s) (zs_c s, zs_Qo s)) x.
Definition sys_qubo_min (s : zsys) (S : Z) (x : vec Z) : Prop :=
  Zbinary (zs_cols s) x /\ forall y, Zbinary (zs_cols s) y -> sys_qubo_value s S x <= sys_qubo_value s S y.

(* the same with 0-1 LISTS of length #columns (what the implementation's callers pass) *)
Definition list_solution (s : zsys) (xl : list Z) : Prop :=
  length xl = zs_cols s /\ Forall (fun z => z = 0 \/ z = 1) xl /\ sys_feasible s (Zvec_of xl).

(* ---------- enumerating every candidate route ---------- *)
(* all duplicate-free lists of length <= fuel over avail *)
Fixpoint simple_lists (fuel : nat) (avail : list nat) : list (list nat) :=
  match fuel with
  | O => [[]]
  | S f => [] :: flat_map (fun c => map (cons c) (simple_lists f (remove Nat.eq_dec c avail))) avail
  end.

(* depot, pairwise distinct customers, depot -- for a graph with n nodes *)
Definition candidates (n : nat) : list (list nat) :=
  map (fun cs => O :: cs ++ [O]) (simple_lists (n - 1) (seq 1 (n - 1))).

(* add_route on every candidate, given by indices *)
Definition add_all_candidates (n : nat) : list pop :=
  map (fun r => PAddRoute (map ix r)) (candidates n).

(* ---------- executable helpers for the examples ---------- *)
(* check_route as a decision procedure for valid_route on index lists (C06_check_iff) *)
Definition valid_routeb (st : pstate) (r : list nat) : bool :=
  match snd (check_route st (map ix r)) with
  | Ok (true, _, _) => true
  | _ => false
  end.

(* ---------- correspondence: the hypotheses of the C08 theorems on the instances of the runtime check ----------
   The harness builds every instance as  nodes, accepted arcs, then add_route on every candidate.  The model
   does the same (prun); the case carries what the implementation stored (routes, costs), the arc grid the
   harness used and the optimum of the harness's independent solver.  best_cost is an executable search
   over the model's pool (smallest uncovered customer first); it is a cross-check, no theorem is about it. *)
Fixpoint best_cost (fuel : nat) (uncov : list nat) (pool : list (list nat * Z)) : option Z :=
  match uncov with
  | [] => Some 0
  | k :: _ =>
      match fuel with
      | O => None
      | S f =>
          fold_left
            (fun acc rc =>
               let r := fst rc in
               if memb k r && forallb (fun c => memb c uncov) (interior r) then
                 match best_cost f (filter (fun c => negb (memb c (interior r))) uncov) pool with
                 | Some v => Some (match acc with Some a => Z.min a (snd rc + v) | None => snd rc + v end)
                 | None => acc
                 end
               else acc)
            pool None
      end
  end.

Definition model_state (cap init : Z) (build : list pop) : pstate :=
  prun (build ++ add_all_candidates (num_nodes (prun build (pempty cap init)))) (pempty cap init).

Fixpoint nodupZb (l : list Z) : bool :=
  match l with [] => true | x :: l' => negb (existsb (Z.eqb x) l') && nodupZb l' end.

(* capacity, initial loading, build history, implementation's routes and costs, arc grid, reference optimum *)
Definition c08case := (Z * Z * list pop * list (list nat) * list Z * list Z * option Z)%type.

(* tags: 1 pool (routes with costs, as a set) differs; 2 a depot self-arc exists; 3 capacity could bind
   (the test of capacity_free_nonneg_demandsb fails: a negative demand, initial loading above the capacity or below the sum
   of all demands); 4 depot window does not open at 0;
   5 a customer-to-customer travel time is not positive; 6 the grid is not duplicate-free / lacks 0 or a
   service time of a valid route; 7 optimum of the model pool differs from the reference optimum *)
Definition check_c08case (c : c08case) : list nat :=
  match c with
  | (cap, init, build, iroutes, icosts, grid, iopt) =>
      let st := model_state cap init build in
      let g := pg st in
      let mpool := combine (proutes st) (pcosts st) in
      let ipool := combine iroutes icosts in
      chk 1 (Nat.eqb (length iroutes) (length icosts) && Nat.eqb (length ipool) (length mpool) &&
             forallb (fun rc => existsb (fun mc => list_eqb Nat.eqb (fst rc) (fst mc) && (snd rc =? snd mc)) mpool)
                     ipool) ++
      chk 2 (negb (dict_mem (O, O) (arcs g))) ++
      chk 3 (forallb (fun n => 0 <=? ndemand n) (nodes g) && (init <=? cap) && (sumZ (map ndemand (nodes g)) <=? init)) ++
      chk 4 (nlo (node_at g O) =? 0) ++
      chk 5 (forallb (fun kv : (nat * nat) * arc =>
                        Nat.eqb (fst (fst kv)) 0 || Nat.eqb (snd (fst kv)) 0 || (0 <? att (snd kv))) (arcs g)) ++
      chk 6 (nodupZb grid && existsb (Z.eqb 0) grid &&
             forallb (fun r => forallb (fun t => existsb (Z.eqb t) grid) (arrivals g 0 O (tl r))) (proutes st)) ++
      chk 7 (option_eqb Z.eqb (best_cost (num_nodes st) (seq 1 (num_nodes st - 1)) mpool) iopt)
  end.
