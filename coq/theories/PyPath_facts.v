(* PyPath_facts.v -- facts about the combinators of PyPath.v that do not mention generated code:
   indexing a list at a known position, the loop combinator over range(n), the dense matrix
   operations of get_math_program_data.  Used by coq/genprops/C06_gen.v.                [C06 gen] *)
From Coq Require Import ZArith List Bool Lia ZifyBool.
From VQ Require Import Base Vrptw Vrptw_facts Path Path_facts PyPath.

(* ================= Python indexing at a natural-number position ================= *)
Lemma py_pos_lt len z p : py_pos len z = Some p -> (p < len)%nat.
Proof.
  unfold py_pos.
  destruct ((0 <=? z) && (z <? Z.of_nat len)) eqn:E1.
  - intros H; inversion H; subst. lia.
  - destruct ((z <? 0) && (- Z.of_nat len <=? z)) eqn:E2; [|discriminate].
    intros H; inversion H; subst. lia.
Qed.

Lemma py_pos_last len : (0 < len)%nat -> py_pos len (-1) = Some (len - 1)%nat.
Proof.
  intros H. unfold py_pos. simpl.
  destruct (- Z.of_nat len <=? -1) eqn:E; [|lia].
  f_equal. lia.
Qed.

Lemma py_getitem_nat {A} (l : list A) k x :
  nth_error l k = Some x -> py_getitem l (Z.of_nat k) = Ok x.
Proof.
  intros H. unfold py_getitem.
  assert (Hk : (k < length l)%nat) by (apply nth_error_Some; congruence).
  rewrite (py_pos_nat _ _ Hk), H. reflexivity.
Qed.

Lemma py_getitem_pos {A} (l : list A) z p :
  py_pos (length l) z = Some p ->
  py_getitem l z = match nth_error l p with Some x => Ok x | None => Err IndexError end.
Proof. intros H. unfold py_getitem. rewrite H. reflexivity. Qed.

Lemma py_getitem_nth (l : list Z) z p :
  py_pos (length l) z = Some p -> py_getitem l z = Ok (nth p l 0).
Proof.
  intros H. unfold py_getitem. rewrite H.
  rewrite (nth_error_nth' l 0 (py_pos_lt _ _ _ H)). reflexivity.
Qed.

Lemma py_setitem_nat {A} (l : list A) k x :
  (k < length l)%nat -> py_setitem l (Z.of_nat k) x = Ok (set_nth k x l).
Proof. intros H. unfold py_setitem. rewrite (py_pos_nat _ _ H). reflexivity. Qed.

Lemma nth_error_app_mid {A} (pre : list A) x rest : nth_error (pre ++ x :: rest) (length pre) = Some x.
Proof. induction pre; simpl; auto. Qed.

Lemma nth_error_app_mid1 {A} (pre : list A) x y rest :
  nth_error (pre ++ x :: y :: rest) (S (length pre)) = Some y.
Proof. induction pre; simpl; auto. Qed.

Lemma set_nth_app_mid1 {A} (pre : list A) x y z rest :
  set_nth (S (length pre)) z (pre ++ x :: y :: rest) = pre ++ x :: z :: rest.
Proof. induction pre; simpl; [reflexivity | f_equal; auto]. Qed.

(* ================= loops ================= *)
Lemma for_each_map {X Y S R} (f : X -> Y) (xs : list X) (body : Y -> S -> ctl S R) s :
  for_each (map f xs) body s = for_each xs (fun x => body (f x)) s.
Proof.
  revert s; induction xs as [|x xs IH]; intros s; simpl; [reflexivity|].
  destruct (body (f x) s); auto.
Qed.

(* range(n) for n = len - k written with naturals *)
Lemma py_range_nat n : py_range (Z.of_nat n) = map Z.of_nat (seq 0 n).
Proof. unfold py_range. rewrite Nat2Z.id. reflexivity. Qed.

(* ================= state updates ================= *)
Lemma st_append_all st r c v :
  st_append_route_node_visited (st_append_route_costs (st_append_routes st r) c) v
  = mkP (pg st) (pcap st) (pinit st) (proutes st ++ [r]) (pcosts st ++ [c]) (pvisited st ++ [v]).
Proof. reflexivity. Qed.
(* ================= dense matrices ================= *)
Definition tab (n m : nat) (F : nat -> nat -> Z) : mat :=
  mkMat m (map (fun k => map (F k) (seq 0 m)) (seq 0 n)).

Lemma repeat_map_seq {A} (x : A) n a : repeat x n = map (fun _ => x) (seq a n).
Proof. revert a; induction n; intros a; simpl; [reflexivity | f_equal; auto]. Qed.

Lemma sparse_zeros_tab n m : sparse_zeros (Z.of_nat n) (Z.of_nat m) = tab n m (fun _ _ => 0).
Proof.
  unfold sparse_zeros, tab. rewrite !Nat2Z.id. f_equal.
  rewrite (repeat_map_seq _ n 0). apply map_ext. intros _. apply repeat_map_seq.
Qed.

Lemma tab_ext n m F G : (forall k c, (k < n)%nat -> (c < m)%nat -> F k c = G k c) -> tab n m F = tab n m G.
Proof.
  intros H. unfold tab. f_equal. apply map_ext_in. intros k Hk. apply in_seq in Hk.
  apply map_ext_in. intros c Hc. apply in_seq in Hc. apply H; lia.
Qed.

Lemma set_nth_map_seq {A} (f : nat -> A) x n : forall a p, (p < n)%nat ->
  set_nth p x (map f (seq a n)) = map (fun k => if Nat.eqb k (a + p) then x else f k) (seq a n).
Proof.
  induction n as [|n IH]; intros a p Hp; [lia|].
  destruct p as [|p]; simpl.
  - rewrite Nat.add_0_r, Nat.eqb_refl. f_equal.
    apply map_ext_in. intros k Hk. apply in_seq in Hk.
    destruct (Nat.eqb_spec k a); [lia|reflexivity].
  - destruct (Nat.eqb_spec a (a + S p)); [lia|]. f_equal.
    rewrite IH by lia. apply map_ext. intros k. replace (S a + p)%nat with (a + S p)%nat by lia. reflexivity.
Qed.

Lemma py_pos_nat_none len c : (len <= c)%nat -> py_pos len (Z.of_nat c) = None.
Proof.
  intros H. unfold py_pos.
  destruct (Z.of_nat c <? Z.of_nat len) eqn:E; [lia|].
  destruct (Z.of_nat c <? 0) eqn:E2; [lia|].
  rewrite andb_false_r. reflexivity.
Qed.

Lemma mat_set1_tab n m F r c v : (r < n)%nat -> (c < m)%nat ->
  mat_set1 (tab n m F) (Z.of_nat r) (Z.of_nat c) v
  = Ok (tab n m (fun k c' => if Nat.eqb k r && Nat.eqb c' c then v else F k c')).
Proof.
  intros Hr Hc. unfold mat_set1, tab. cbn [mrows mcols].
  rewrite map_length, seq_length, (py_pos_nat _ _ Hr), (py_pos_nat _ _ Hc).
  f_equal. f_equal.
  rewrite (nth_map_seq _ 0 n r [] Hr). cbn [Nat.add].
  rewrite (set_nth_map_seq _ _ m 0 c Hc), (set_nth_map_seq _ _ n 0 r Hr). cbn [Nat.add].
  apply map_ext. intros k. destruct (Nat.eqb k r) eqn:E; cbn [andb]; [|reflexivity].
  apply Nat.eqb_eq in E; subst. reflexivity.
Qed.

Lemma mat_set1_tab_bad n m F r c v : (n <= r)%nat \/ (m <= c)%nat ->
  mat_set1 (tab n m F) (Z.of_nat r) (Z.of_nat c) v = Err IndexError.
Proof.
  intros H. unfold mat_set1, tab. cbn [mrows mcols]. rewrite map_length, seq_length.
  destruct H as [H|H].
  - rewrite (py_pos_nat_none _ _ H). reflexivity.
  - rewrite (py_pos_nat_none _ _ H). destruct (py_pos n (Z.of_nat r)); reflexivity.
Qed.

(* one column: M[vs, [j, ..., j]] = 1 *)
Lemma mat_set_pairs_tab n m j : forall vs F,
  mat_set_pairs (tab n m F) vs (repeat (Z.of_nat j) (length vs)) 1
  = if mp_write_bad n m (j, vs) then Err IndexError
    else Ok (tab n m (fun k c => if Nat.eqb c j && memb k vs then 1 else F k c)).
Proof.
  induction vs as [|r vs IH]; intros F.
  - cbn. f_equal. apply tab_ext. intros k c _ _. rewrite andb_false_r. reflexivity.
  - cbn [length repeat mat_set_pairs]. unfold mp_write_bad. cbn [fst snd existsb].
    destruct (m <=? j)%nat eqn:Ej.
    { rewrite mat_set1_tab_bad by (right; apply Nat.leb_le; exact Ej). reflexivity. }
    destruct (n <=? r)%nat eqn:Er.
    { rewrite mat_set1_tab_bad by (left; apply Nat.leb_le; exact Er). reflexivity. }
    apply Nat.leb_gt in Ej. apply Nat.leb_gt in Er.
    rewrite (mat_set1_tab _ _ _ _ _ _ Er Ej). rewrite IH.
    unfold mp_write_bad. cbn [fst snd orb].
    assert (Ej' : (m <=? j)%nat = false) by (apply Nat.leb_gt; exact Ej).
    rewrite Ej'. cbn [orb].
    match goal with |- (if ?b then _ else _) = _ =>
      replace b with (existsb (fun k => (n <=? k)%nat) vs) by (destruct vs; reflexivity) end.
    destruct (existsb _ vs); [reflexivity|].
    f_equal. apply tab_ext. intros k c _ _. cbn [memb].
    destruct (Nat.eqb c j); cbn [andb]; [|rewrite andb_false_r; reflexivity].
    rewrite andb_true_r. destruct (memb k vs); [rewrite orb_true_r; reflexivity|].
    rewrite orb_false_r. reflexivity.
Qed.

(* entry function after the columns of the lists in l were written *)
Definition cols_of (l : list (list nat)) (k c : nat) : Z :=
  match nth_error l c with Some vs => if memb k vs then 1 else 0 | None => 0 end.

Lemma cols_of_snoc l vs k c :
  (if Nat.eqb c (length l) && memb k vs then 1 else cols_of l k c) = cols_of (l ++ [vs]) k c.
Proof.
  unfold cols_of. destruct (Nat.eqb_spec c (length l)) as [->|Hne]; cbn [andb].
  - rewrite nth_error_app2 by lia. rewrite Nat.sub_diag. cbn [nth_error].
    destruct (memb k vs); [reflexivity|].
    assert (H : nth_error l (length l) = None) by (apply nth_error_None; lia). rewrite H. reflexivity.
  - destruct (Nat.lt_ge_cases c (length l)) as [Hlt|Hge].
    + rewrite nth_error_app1 by lia. reflexivity.
    + assert (H : nth_error l c = None) by (apply nth_error_None; lia). rewrite H.
      assert (H2 : nth_error (l ++ [vs]) c = None) by (apply nth_error_None; rewrite app_length; simpl; lia).
      rewrite H2. reflexivity.
Qed.

Lemma np_scale_ones j k : np_scale j (repeat 1 k) = repeat j k.
Proof. unfold np_scale. induction k; simpl; [reflexivity|]. rewrite Z.mul_1_r. f_equal. exact IHk. Qed.

Lemma mask_filter_true {A} (l : list A) : mask_filter l (repeat true (length l)) = l.
Proof. induction l; simpl; [reflexivity | f_equal; auto]. Qed.

Lemma remove_nth_0 {A} (l : list A) : remove_nth 0 l = tl l.
Proof. destruct l; reflexivity. Qed.
