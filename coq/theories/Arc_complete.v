(* Arc_complete.v -- completeness of the arc-based model with respect to the VRPTW of the doc
   (section 2: T_0 = 0, T_{k+1} = max(a, T_k + t), T_k <= b): every set of routes that serves every
   customer exactly once and whose service times are grid points is a feasible binary vector of the
   right cost, and conversely every route of the arc model is a route of that VRPTW.  The reference
   semantics (eta, vrptw_route, route_cost, moves_of, indicator) is in Arc_ref.v.  [C05] *)
From Coq Require Import Sorting.Permutation ZifyBool.
From VQ Require Import Base Vrptw Vrptw_facts Arc Arc_ref Arc_facts Arc_routes.

(* ====================================================================== *)
(* generic list facts                                                      *)
(* ====================================================================== *)
Lemma filter_map_length {A B} (f : A -> B) (P : B -> bool) l :
  length (filter (fun a => P (f a)) l) = length (filter P (map f l)).
Proof. induction l as [|a l IH]; [reflexivity|]. simpl. destruct (P (f a)); simpl; rewrite IH; reflexivity. Qed.

Lemma filter_length_perm {A} (P : A -> bool) l l' :
  Permutation l l' -> length (filter P l) = length (filter P l').
Proof.
  induction 1 as [|a l l' _ IH|a b l|l l' l'' _ IH1 _ IH2]; simpl.
  - reflexivity.
  - destruct (P a); simpl; rewrite IH; reflexivity.
  - destruct (P a), (P b); reflexivity.
  - congruence.
Qed.

Lemma filter_eqb_NoDup j l : NoDup l -> In j l -> length (filter (fun n => Nat.eqb n j) l) = 1%nat.
Proof.
  induction l as [|a l IH]; intros Hnd Hin; [destruct Hin|].
  inversion Hnd as [|? ? Hn Hnd']; subst. simpl.
  destruct (Nat.eqb_spec a j) as [->|Hne].
  - simpl. f_equal. clear - Hn. induction l as [|b l IH]; [reflexivity|]. simpl.
    destruct (Nat.eqb_spec b j) as [->|]; [exfalso; apply Hn; left; reflexivity|].
    apply IH. intros H; apply Hn; right; exact H.
  - destruct Hin as [H|H]; [congruence|]. apply IH; assumption.
Qed.

Lemma sumz_map_perm {A} (f : A -> Z) l l' : Permutation l l' -> sumz (map f l) = sumz (map f l').
Proof.
  induction 1 as [|a l l' _ IH|a b l|l l' l'' _ IH1 _ IH2]; simpl; lia.
Qed.

Lemma NoDup_of_cnt (l : list var) : (forall v, In v l -> cnt (var_eqb v) l = 1%nat) -> NoDup l.
Proof.
  induction l as [|a l IH]; intros H; [constructor|].
  assert (Ha : cnt (var_eqb a) l = 0%nat).
  { specialize (H a (or_introl eq_refl)). rewrite cnt_cons in H.
    assert (E : var_eqb a a = true) by (apply var_eqb_eq; reflexivity). rewrite E in H. lia. }
  constructor.
  - intros Hin. pose proof (cnt_In (var_eqb a) a l Hin ltac:(apply var_eqb_eq; reflexivity)). lia.
  - apply IH. intros v Hv. specialize (H v (or_intror Hv)). rewrite cnt_cons in H.
    pose proof (cnt_In (var_eqb v) v l Hv ltac:(apply var_eqb_eq; reflexivity)).
    destruct (var_eqb v a); lia.
Qed.

Lemma selected_indicator_gen (f : var -> Z) (l : list var) :
  map fst (filter (fun p : var * Z => negb (snd p =? 0)) (combine l (map f l))) =
  filter (fun v => negb (f v =? 0)) l.
Proof.
  induction l as [|v l IH]; [reflexivity|]. simpl. destruct (negb (f v =? 0)); simpl; rewrite IH; reflexivity.
Qed.

(* ====================================================================== *)
(* moves_of                                                                *)
(* ====================================================================== *)
Lemma moves_of_dest : forall l p, map dest (moves_of (p :: l)) = l.
Proof.
  induction l as [|q l IH]; intros p; [reflexivity|].
  change (moves_of (p :: q :: l)) with ((fst p, snd p, fst q, snd q) :: moves_of (q :: l)).
  cbn [map]. rewrite IH. destruct q; reflexivity.
Qed.

Lemma moves_of_orig : forall l p, map orig (moves_of (p :: l)) = removelast (p :: l).
Proof.
  induction l as [|q l IH]; intros p; [reflexivity|].
  change (moves_of (p :: q :: l)) with ((fst p, snd p, fst q, snd q) :: moves_of (q :: l)).
  change (removelast (p :: q :: l)) with (p :: removelast (q :: l)).
  cbn [map]. rewrite IH. destruct p; reflexivity.
Qed.

Lemma map_removelast {A B} (f : A -> B) l : map f (removelast l) = removelast (map f l).
Proof.
  induction l as [|a l IH]; [reflexivity|]. destruct l as [|b l]; [reflexivity|].
  change (removelast (a :: b :: l)) with (a :: removelast (b :: l)).
  cbn [map] in *. rewrite IH. reflexivity.
Qed.

Lemma moves_of_succ : forall l p v d,
  In v (moves_of (p :: l)) -> dest v <> last (p :: l) d ->
  exists w, In w (moves_of (p :: l)) /\ orig w = dest v.
Proof.
  induction l as [|q l IH]; intros p v d Hin Hne; [destruct Hin|].
  change (moves_of (p :: q :: l)) with ((fst p, snd p, fst q, snd q) :: moves_of (q :: l)) in *.
  rewrite last_cons_default in Hne. destruct Hin as [<-|Hin].
  - destruct l as [|r l].
    + exfalso. apply Hne. destruct q; reflexivity.
    + exists (fst q, snd q, fst r, snd r). split; [right; left; reflexivity | destruct q; reflexivity].
  - destruct (IH q v p) as (w & Hw & Ho); [exact Hin | rewrite last_cons_default in *; exact Hne|].
    exists w. split; [right; exact Hw | exact Ho].
Qed.

(* a move that ends at the depot starts at a customer *)
Lemma moves_of_into_depot : forall vs p,
  (forall q, In q (removelast vs) -> fst q <> 0%nat) -> (fst p <> 0%nat \/ (2 <= length vs)%nat) ->
  forall v, In v (moves_of (p :: vs)) -> dnode v = 0%nat -> onode v <> 0%nat.
Proof.
  induction vs as [|q vs IH]; intros p Hint Hp v Hin Hd; [destruct Hin|].
  change (moves_of (p :: q :: vs)) with ((fst p, snd p, fst q, snd q) :: moves_of (q :: vs)) in Hin.
  destruct Hin as [<-|Hin].
  - unfold dnode, onode, dest, orig in *; cbn [fst snd] in *.
    destruct vs as [|r vs].
    + destruct Hp as [Hp|Hp]; [exact Hp | simpl in Hp; lia].
    + exfalso. apply (Hint q); [left; reflexivity | exact Hd].
  - destruct vs as [|r vs]; [destruct Hin|].
    apply (IH q); auto.
    + intros q' Hq'. apply Hint. change (removelast (q :: r :: vs)) with (q :: removelast (r :: vs)).
      right; exact Hq'.
    + left. apply Hint. left; reflexivity.
Qed.

(* ====================================================================== *)
(* eta                                                                     *)
(* ====================================================================== *)
Fixpoint steps_ok (g : graph) (p : nt) (vs : list nt) : Prop :=
  match vs with
  | [] => True
  | q :: vs' =>
      (exists a, dict_get (fst p, fst q) (arcs g) = Some a /\
                 snd q = Z.max (win_lo g (fst q)) (snd p + att a) /\
                 ext_le (Fin (snd q)) (win_hi g (fst q))) /\
      steps_ok g q vs'
  end.

Lemma eta_ok g : forall seq cur T vs,
  eta g cur T seq = Some vs -> map fst vs = seq /\ steps_ok g (cur, T) vs.
Proof.
  induction seq as [|nx seq IH]; intros cur T vs; cbn [eta].
  - intros H; inversion H; subst. split; [reflexivity | exact Logic.I].
  - destruct (dict_get (cur, nx) (arcs g)) as [a|] eqn:Ea; [|discriminate]. cbv zeta.
    destruct (ext_leb (Fin (Z.max (win_lo g nx) (T + att a))) (win_hi g nx)) eqn:Eh; [|discriminate].
    destruct (eta g nx (Z.max (win_lo g nx) (T + att a)) seq) as [vs'|] eqn:Ee; [|discriminate].
    simpl. intros H; inversion H; subst; clear H.
    destruct (IH _ _ _ Ee) as [Hm Hs]. split; [simpl; rewrite Hm; reflexivity|].
    simpl. split; [|exact Hs]. exists a. split; [exact Ea|]. split; [reflexivity|].
    apply ext_leb_le. exact Eh.
Qed.

Lemma moves_valid I : forall vs p,
  steps_ok (ig I) p vs ->
  win_lo (ig I) (fst p) <= snd p -> ext_le (Fin (snd p)) (win_hi (ig I) (fst p)) ->
  In (snd p) (igrid I) -> (forall q, In q vs -> In (snd q) (igrid I)) ->
  forall v, In v (moves_of (p :: vs)) -> valid_move I v.
Proof.
  induction vs as [|q vs IH]; intros p Hs Hlo Hhi Hg Hgs v Hin; [destruct Hin|].
  change (moves_of (p :: q :: vs)) with ((fst p, snd p, fst q, snd q) :: moves_of (q :: vs)) in Hin.
  destruct Hs as [(a & Ha & Ht & Hle) Hs].
  destruct Hin as [<-|Hin].
  - simpl. exists a. repeat split; auto.
    + apply Hgs. left; reflexivity.
    + rewrite Ht. lia.
    + rewrite Ht. lia.
  - apply (IH q); auto.
    + rewrite Ht. lia.
    + apply Hgs. left; reflexivity.
    + intros q' Hq'. apply Hgs. right; exact Hq'.
Qed.

Lemma route_cost_moves I : forall vs p,
  sumz (map (move_cost I) (moves_of (p :: vs))) = route_cost (ig I) (fst p) (map fst vs).
Proof.
  induction vs as [|q vs IH]; intros p; [reflexivity|].
  change (moves_of (p :: q :: vs)) with ((fst p, snd p, fst q, snd q) :: moves_of (q :: vs)).
  cbn [map sumz route_cost]. rewrite IH. reflexivity.
Qed.

Lemma last_fst_zero : forall (vs : list nt) cs d, map fst vs = cs ++ [0%nat] -> fst (last vs d) = 0%nat.
Proof.
  induction vs as [|q vs IH]; intros cs d H.
  - destruct cs; discriminate.
  - destruct vs as [|r vs].
    + destruct cs as [|c cs]; simpl in H; [inversion H; reflexivity|].
      inversion H as [[H1 H2]]. destruct cs; discriminate.
    + destruct cs as [|c cs]; simpl in H; [inversion H|].
      inversion H as [[H1 H2]]. rewrite last_cons_default.
      rewrite <- (IH cs q H2). rewrite last_cons_default. reflexivity.
Qed.

(* ====================================================================== *)
(* completeness                                                            *)
(* ====================================================================== *)
Section Complete.
  Variable I : inst.
  Let g := ig I.
  Let N := length (nodes g).
  (* a route plan: customer sequences with their visit lists *)
  Variable plan : list (list nat * list nt).

  Definition plan_ok : Prop :=
    Forall (fun p => fst p <> [] /\ vrptw_route g (fst p) = Some (snd p) /\
                     (forall q, In q (snd p) -> In (snd q) (igrid I))) plan.

  Hypothesis Hg : NoDup (igrid I).
  Hypothesis Hk : NoDup (map fst (arcs g)).
  Hypothesis Hplan : plan_ok.
  Hypothesis Hcover : Permutation (concat (map fst plan)) (seq 1 (N - 1)).
  Hypothesis Hd0 : win_lo g 0 <= 0 /\ ext_le (Fin 0) (win_hi g 0).

  Definition plan_moves : list var := flat_map (fun p => moves_of (snd p)) plan.

  Lemma customer_of_plan p c : In p plan -> In c (fst p) -> (1 <= c < N)%nat.
  Proof.
    intros Hp Hc.
    assert (Hin : In c (concat (map fst plan))).
    { apply in_concat. exists (fst p). split; [apply in_map; exact Hp | exact Hc]. }
    eapply Permutation_in in Hin; [|exact Hcover]. apply in_seq in Hin. lia.
  Qed.

  Lemma route_struct p :
    In p plan ->
    exists vs, snd p = (0%nat, 0) :: vs /\ map fst vs = fst p ++ [0%nat] /\ steps_ok g (0%nat, 0) vs /\
               fst p <> [] /\ (forall q, In q (snd p) -> In (snd q) (igrid I)).
  Proof.
    intros Hp. unfold plan_ok in Hplan. rewrite Forall_forall in Hplan.
    destruct (Hplan p Hp) as (Hne & Hr & Hgr). unfold vrptw_route in Hr.
    destruct (eta g 0 0 (fst p ++ [0%nat])) as [vs|] eqn:E; [|discriminate].
    simpl in Hr. inversion Hr as [Hs]. destruct (eta_ok g _ _ _ _ E) as [Hm Hst].
    exists vs. rewrite Hs. repeat split; auto.
  Qed.

  Lemma route_dnodes p : In p plan -> map dnode (moves_of (snd p)) = fst p ++ [0%nat].
  Proof.
    intros Hp. destruct (route_struct p Hp) as (vs & Es & Hm & _). rewrite Es.
    rewrite <- Hm. rewrite <- (moves_of_dest vs (0%nat, 0)) at 2. rewrite map_map. reflexivity.
  Qed.

  Lemma route_onodes p : In p plan -> map onode (moves_of (snd p)) = 0%nat :: fst p.
  Proof.
    intros Hp. destruct (route_struct p Hp) as (vs & Es & Hm & _). rewrite Es.
    assert (E : map onode (moves_of ((0%nat, 0) :: vs)) = map fst (map orig (moves_of ((0%nat, 0) :: vs))))
      by (rewrite map_map; reflexivity).
    rewrite E, moves_of_orig, map_removelast. cbn [map fst]. rewrite Hm.
    change (0%nat :: fst p ++ [0%nat]) with ((0%nat :: fst p) ++ [0%nat]).
    apply removelast_last.
  Qed.

  Lemma plan_moves_valid v : In v plan_moves -> valid_move I v.
  Proof.
    unfold plan_moves. rewrite in_flat_map. intros (p & Hp & Hv).
    destruct (route_struct p Hp) as (vs & Es & Hm & Hst & Hne & Hgr). rewrite Es in Hv.
    apply (moves_valid I vs (0%nat, 0)); auto.
    - apply Hd0.
    - apply Hd0.
    - apply (Hgr (0%nat, 0)). rewrite Es. left; reflexivity.
    - intros q Hq. apply Hgr. rewrite Es. right; exact Hq.
  Qed.

  Lemma plan_moves_into_depot v : In v plan_moves -> dnode v = 0%nat -> onode v <> 0%nat.
  Proof.
    unfold plan_moves. rewrite in_flat_map. intros (p & Hp & Hv) Hd.
    destruct (route_struct p Hp) as (vs & Es & Hm & Hst & Hne & Hgr). rewrite Es in Hv.
    apply (moves_of_into_depot vs (0%nat, 0)); auto.
    - intros q Hq Hz.
      assert (Hin : In (fst q) (fst p)).
      { assert (E : map fst (removelast vs) = fst p)
          by (rewrite map_removelast, Hm; apply removelast_last).
        rewrite <- E. apply in_map; exact Hq. }
      pose proof (customer_of_plan p _ Hp Hin). lia.
    - right. assert (E : length vs = length (fst p ++ [0%nat])) by (rewrite <- Hm, map_length; reflexivity).
      rewrite app_length in E. simpl in E. destruct (fst p); [congruence | simpl in E; lia].
  Qed.

  Lemma plan_moves_succ v :
    In v plan_moves -> dnode v <> 0%nat -> exists w, In w plan_moves /\ orig w = dest v.
  Proof.
    unfold plan_moves. rewrite in_flat_map. intros (p & Hp & Hv) Hd.
    destruct (route_struct p Hp) as (vs & Es & Hm & _). rewrite Es in Hv.
    destruct (moves_of_succ vs (0%nat, 0) v (0%nat, 0) Hv) as (w & Hw & Ho).
    - intros E. apply Hd. unfold dnode. rewrite E. rewrite last_cons_default.
      eapply last_fst_zero; exact Hm.
    - exists w. split; [|exact Ho]. apply in_flat_map. exists p. split; [exact Hp|]. rewrite Es; exact Hw.
  Qed.

  Lemma dnodes_all : map dnode plan_moves = flat_map (fun p => fst p ++ [0%nat]) plan.
  Proof.
    unfold plan_moves. rewrite map_flat_map.
    assert (H : forall p, In p plan -> map dnode (moves_of (snd p)) = fst p ++ [0%nat]) by apply route_dnodes.
    clear - H. induction plan as [|p l IH]; [reflexivity|]. simpl.
    rewrite H by (left; reflexivity). rewrite IH; [reflexivity|]. intros q Hq; apply H; right; exact Hq.
  Qed.

  Lemma onodes_all : map onode plan_moves = flat_map (fun p => 0%nat :: fst p) plan.
  Proof.
    unfold plan_moves. rewrite map_flat_map.
    assert (H : forall p, In p plan -> map onode (moves_of (snd p)) = 0%nat :: fst p) by apply route_onodes.
    clear - H. induction plan as [|p l IH]; [reflexivity|].
    cbn [flat_map]. rewrite H by (left; reflexivity). rewrite IH; [reflexivity|].
    intros q Hq; apply H; right; exact Hq.
  Qed.

  Lemma count_customer j :
    (1 <= j < N)%nat -> length (filter (fun n => Nat.eqb n j) (concat (map fst plan))) = 1%nat.
  Proof.
    intros Hj. rewrite (filter_length_perm _ _ _ Hcover).
    apply filter_eqb_NoDup; [apply seq_NoDup | apply in_seq; lia].
  Qed.

  Lemma filter_pad_after j (l : list (list nat * list nt)) :
    j <> 0%nat ->
    length (filter (fun n => Nat.eqb n j) (flat_map (fun p => fst p ++ [0%nat]) l)) =
    length (filter (fun n => Nat.eqb n j) (concat (map fst l))).
  Proof.
    intros Hj. induction l as [|p l IH]; [reflexivity|]. cbn [flat_map map concat].
    rewrite !filter_app, !app_length, IH. cbn [filter].
    destruct (Nat.eqb_spec 0 j); [lia|]. simpl. lia.
  Qed.

  Lemma filter_pad_before j (l : list (list nat * list nt)) :
    j <> 0%nat ->
    length (filter (fun n => Nat.eqb n j) (flat_map (fun p => 0%nat :: fst p) l)) =
    length (filter (fun n => Nat.eqb n j) (concat (map fst l))).
  Proof.
    intros Hj. induction l as [|p l IH]; [reflexivity|]. cbn [flat_map map concat app filter].
    destruct (Nat.eqb_spec 0 j); [lia|].
    rewrite !filter_app, !app_length, IH. reflexivity.
  Qed.

  Lemma cnt_into_node_plan j : (1 <= j < N)%nat -> cnt (into_node j) plan_moves = 1%nat.
  Proof.
    intros Hj. unfold cnt, into_node.
    rewrite (filter_map_length dnode (fun n => Nat.eqb n j)), dnodes_all, filter_pad_after by lia.
    apply count_customer; exact Hj.
  Qed.

  Lemma cnt_outof_node_plan j : (1 <= j < N)%nat -> cnt (outof_node j) plan_moves = 1%nat.
  Proof.
    intros Hj. unfold cnt, outof_node.
    rewrite (filter_map_length onode (fun n => Nat.eqb n j)), onodes_all, filter_pad_before by lia.
    apply count_customer; exact Hj.
  Qed.

  Lemma node_is_customer (f : var -> nat) (pad : list nat * list nt -> list nat) v :
    map f plan_moves = flat_map pad plan ->
    (forall p n, In n (pad p) -> n = 0%nat \/ In n (fst p)) ->
    In v plan_moves -> f v <> 0%nat -> (1 <= f v < N)%nat.
  Proof.
    intros Hmap Hpad Hv Hnz.
    assert (Hin : In (f v) (map f plan_moves)) by (apply in_map; exact Hv).
    rewrite Hmap in Hin. apply in_flat_map in Hin. destruct Hin as (p & Hp & Hn).
    destruct (Hpad p _ Hn) as [E|Hc]; [contradiction|].
    eapply customer_of_plan; eauto.
  Qed.

  Lemma plan_moves_NoDup : NoDup plan_moves.
  Proof.
    apply NoDup_of_cnt. intros v Hv.
    assert (Hge : (1 <= cnt (var_eqb v) plan_moves)%nat)
      by (apply (cnt_In _ v); [exact Hv | apply var_eqb_eq; reflexivity]).
    destruct (Nat.eq_dec (dnode v) 0) as [Hd|Hd].
    - pose proof (plan_moves_into_depot v Hv Hd) as Ho.
      assert (Hc : (1 <= onode v < N)%nat).
      { apply (node_is_customer onode (fun p => 0%nat :: fst p)); auto using onodes_all.
        intros p n [<-|H]; auto. }
      pose proof (cnt_outof_node_plan _ Hc) as H1.
      assert ((cnt (var_eqb v) plan_moves <= cnt (outof_node (onode v)) plan_moves)%nat).
      { apply cnt_mono. intros u Hu. apply var_eqb_eq in Hu. subst u. apply outof_node_true; reflexivity. }
      lia.
    - assert (Hc : (1 <= dnode v < N)%nat).
      { apply (node_is_customer dnode (fun p => fst p ++ [0%nat])); auto using dnodes_all.
        intros p n H. apply in_app_iff in H. destruct H as [H|[<-|[]]]; auto. }
      pose proof (cnt_into_node_plan _ Hc) as H1.
      assert ((cnt (var_eqb v) plan_moves <= cnt (into_node (dnode v)) plan_moves)%nat).
      { apply cnt_mono. intros u Hu. apply var_eqb_eq in Hu. subst u. apply into_node_true; reflexivity. }
      lia.
  Qed.

  Definition plan_x : list Z := indicator I plan_moves.

  Lemma plan_x_binary : binary plan_x.
  Proof.
    unfold plan_x, indicator, binary. apply Forall_forall. intros z Hz. apply in_map_iff in Hz.
    destruct Hz as (v & <- & _). destruct (existsb _ _); auto.
  Qed.

  Lemma plan_x_length : length plan_x = num_variables I.
  Proof. unfold plan_x, indicator. rewrite map_length. symmetry. apply num_variables_length. Qed.

  Lemma plan_selected : Permutation (selected I plan_x) plan_moves.
  Proof.
    unfold selected, plan_x, indicator. rewrite selected_indicator_gen.
    apply NoDup_Permutation.
    - apply NoDup_filter. apply vars_NoDup; assumption.
    - apply plan_moves_NoDup.
    - intros v. rewrite filter_In. split.
      + intros [_ H]. destruct (existsb (var_eqb v) plan_moves) eqn:E; [|discriminate].
        apply existsb_exists in E. destruct E as (u & Hu & E). apply var_eqb_eq in E. subst; exact Hu.
      + intros Hv. split; [apply vars_exact; apply plan_moves_valid; exact Hv|].
        assert (E : existsb (var_eqb v) plan_moves = true).
        { apply existsb_exists. exists v. split; [exact Hv | apply var_eqb_eq; reflexivity]. }
        rewrite E. reflexivity.
  Qed.

  Lemma plan_local : local_form I plan_x.
  Proof.
    intros j Hj. fold g in Hj. fold N in Hj.
    pose proof (cnt_into_node_plan j Hj) as H1. pose proof (cnt_outof_node_plan j Hj) as H3.
    destruct (cnt_witness (into_node j) plan_moves) as (u & Hu & Hin); [lia|].
    apply into_node_true in Hin. exists (arr u).
    rewrite !(cnt_perm _ _ _ plan_selected).
    assert (Hdest : dest u = (j, arr u)) by (rewrite dest_eta, Hin; reflexivity).
    assert (H2 : cnt (into (j, arr u)) plan_moves = 1%nat).
    { assert ((1 <= cnt (into (j, arr u)) plan_moves)%nat)
        by (apply (cnt_In _ u); [exact Hu | apply into_true; exact Hdest]).
      assert ((cnt (into (j, arr u)) plan_moves <= cnt (into_node j) plan_moves)%nat)
        by (apply cnt_mono; intros v; apply into_implies_node).
      lia. }
    assert (H4 : cnt (outof (j, arr u)) plan_moves = 1%nat).
    { destruct (plan_moves_succ u Hu) as (w & Hw & Ho); [lia|].
      assert ((1 <= cnt (outof (j, arr u)) plan_moves)%nat)
        by (apply (cnt_In _ w); [exact Hw | apply outof_true; congruence]).
      assert ((cnt (outof (j, arr u)) plan_moves <= cnt (outof_node j) plan_moves)%nat)
        by (apply cnt_mono; intros v; apply outof_implies_node).
      lia. }
    repeat split; assumption.
  Qed.

  Theorem plan_feasible : Ax I plan_x = rhs I.
  Proof. apply Ax_of_local; auto using plan_x_length, plan_x_binary, plan_local. Qed.

  Theorem plan_objective :
    obj_value I plan_x = sumz (map (fun p => route_cost g 0 (fst p ++ [0%nat])) plan).
  Proof.
    rewrite objective_selected by auto using plan_x_length, plan_x_binary.
    rewrite (sumz_map_perm _ _ _ plan_selected). unfold plan_moves.
    rewrite sumz_flat_map. apply sumz_map_ext_in. intros p Hp.
    destruct (route_struct p Hp) as (vs & Es & Hm & _). rewrite Es, route_cost_moves, Hm. reflexivity.
  Qed.
End Complete.

(* ====================================================================== *)
(* projection: a timed route of the arc model is a route of the VRPTW      *)
(* ====================================================================== *)
Lemma ext_le_trans_fin a b h : a <= b -> ext_le (Fin b) h -> ext_le (Fin a) h.
Proof. unfold ext_le. destruct h; auto. lia. Qed.

Lemma eta_step g cur T nx seq ar :
  dict_get (cur, nx) (arcs g) = Some ar ->
  ext_le (Fin (Z.max (win_lo g nx) (T + att ar))) (win_hi g nx) ->
  eta g cur T (nx :: seq) =
  option_map (cons (nx, Z.max (win_lo g nx) (T + att ar))) (eta g nx (Z.max (win_lo g nx) (T + att ar)) seq).
Proof.
  intros Ha Hh. cbn [eta]. rewrite Ha. cbv zeta. rewrite (proj2 (ext_leb_le _ _) Hh). reflexivity.
Qed.

Lemma valid_parts I v :
  valid_move I v ->
  exists ar, dict_get (onode v, dnode v) (arcs (ig I)) = Some ar /\
             win_lo (ig I) (onode v) <= dep v /\
             win_lo (ig I) (dnode v) <= arr v /\ ext_le (Fin (arr v)) (win_hi (ig I) (dnode v)) /\
             dep v + att ar <= arr v.
Proof.
  destruct v as [[[i s] j] t]. intros (ar & Har & _ & _ & H1 & _ & H2 & H3 & H4).
  exists ar. unfold onode, dnode, dep, arr, orig, dest; cbn [fst snd]. auto.
Qed.

Lemma eta_of_chain I : forall ms a T,
  chained (a :: ms) -> Forall (valid_move I) (a :: ms) -> T <= dep a ->
  exists vs, eta (ig I) (onode a) T (map dnode (a :: ms)) = Some vs /\
             Forall2 (fun q m => fst q = dnode m /\ snd q <= arr m) vs (a :: ms).
Proof.
  induction ms as [|b ms IH]; intros a T Hch Hv HT;
    inversion Hv as [|? ? Ha Hv']; subst;
    destruct (valid_parts I a Ha) as (ar & Har & _ & Hlo & Hhi & Hle);
    assert (Hm : Z.max (win_lo (ig I) (dnode a)) (T + att ar) <= arr a) by lia;
    cbn [map]; rewrite (eta_step _ _ _ _ _ ar Har (ext_le_trans_fin _ _ _ Hm Hhi)).
  - cbn [eta option_map]. eexists. split; [reflexivity|].
    constructor; [|constructor]. simpl. split; [reflexivity | exact Hm].
  - destruct Hch as [Hab Hch].
    assert (Hdb : dep b = arr a) by (unfold dep, arr; rewrite <- Hab; reflexivity).
    destruct (IH b (Z.max (win_lo (ig I) (dnode a)) (T + att ar)) Hch Hv') as (vs & E & HF); [lia|].
    rewrite (onode_of_chain _ _ Hab) in E. cbn [map] in E. rewrite E. cbn [option_map].
    eexists. split; [reflexivity|]. constructor; [|exact HF]. simpl. split; [reflexivity | exact Hm].
Qed.

Lemma cost_of_chain I : forall ms a,
  chained (a :: ms) -> route_cost (ig I) (onode a) (map dnode (a :: ms)) = sumz (map (move_cost I) (a :: ms)).
Proof.
  induction ms as [|b ms IH]; intros a Hch.
  - simpl. reflexivity.
  - destruct Hch as [Hab Hch]. specialize (IH b Hch). rewrite (onode_of_chain _ _ Hab) in IH.
    cbn [map route_cost sumz] in *. rewrite IH. reflexivity.
Qed.

(* Every depot-to-depot route of the arc model (sroute of valid moves) whose departure time is >= 0 is,
   as a customer sequence, a valid route of the VRPTW with the same cost, and the VRPTW's earliest
   service times are no later than the times chosen in the arc model. *)
Theorem project_route I r :
  sroute r -> Forall (valid_move I) r -> 0 <= win_lo (ig I) 0 ->
  exists vs, vrptw_route (ig I) (map dnode (removelast r)) = Some ((0%nat, 0) :: vs) /\
             route_cost (ig I) 0 (map dnode (removelast r) ++ [0%nat]) = sumz (map (move_cost I) r) /\
             Forall2 (fun q m => fst q = dnode m /\ snd q <= arr m) vs r.
Proof.
  intros [Hp Ho] Hv H0. destruct r as [|a tl]; [destruct Hp|].
  destruct Hp as (Hch & Hl & _).
  assert (Hd : map dnode (a :: tl) = map dnode (removelast (a :: tl)) ++ [0%nat]).
  { rewrite (app_removelast_last a) at 1 by discriminate.
    rewrite map_app. cbn [map]. rewrite last_cons_default, Hl. reflexivity. }
  assert (Hdep : 0 <= dep a).
  { inversion Hv as [|? ? Ha _]; subst. destruct (valid_parts I a Ha) as (ar & _ & Hlo & _).
    rewrite Ho in Hlo. lia. }
  destruct (eta_of_chain I tl a 0 Hch Hv Hdep) as (vs & E & HF).
  rewrite Ho, Hd in E. exists vs. split; [unfold vrptw_route; rewrite E; reflexivity|]. split; [|exact HF].
  rewrite <- Hd, <- Ho. apply cost_of_chain; exact Hch.
Qed.
