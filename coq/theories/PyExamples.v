(* PyExamples.v -- meaning of the combinators printed by harness/translate_examples.py, the translator of the
   two example BUILDERS examples/mirp_g1.py:get_mirp and examples/mirp_random.py:RandomMIRP.get_random_mirp
   (generated file coq/gen/ExamplesGen.v, proofs coq/genprops/C12_examples_gen.v).  Definitions only; the lemmas are in
   PyExamples_facts.v.

   A builder creates ONE MIRP object and calls its methods.  It is modelled as a computation that appends to a LOG of
   those calls (`pyop`, arguments as written in Python: port names are strings, the distance function is a function);
   what the calls do to the object is the business of the model of class MIRP (Mirp.v, tied to applications/mirp.py by
   the `mirp` package).  `compile` turns a log into the operations of Mirp.v under a numbering `code` of the port names
   (Mirp.v numbers the ports; every theorem is stated for EVERY injective numbering).
   Pure Python (no call on the MIRP object) runs in the exception monad `result`; code that calls the object runs in
   `B A = log -> log * result A`. *)
From Coq Require Import QArith String Ascii DecimalString DecimalNat.
From VQ Require Import Base Mirp.
Local Open Scope Q_scope.

(* ---------- the exception monad (pure code) ---------- *)
Definition rret {A} (a : A) : result A := Ok a.
Definition rbind {A C} (m : result A) (f : A -> result C) : result C :=
  match m with Ok a => f a | Err e => Err e end.
(* assert c, "..." *)
Definition r_assert (b : bool) : result unit := if b then Ok tt else Err AssertionError.
(* for x in xs: body, the locals re-assigned by the body carried along *)
Fixpoint rfor_each {X S} (xs : list X) (body : X -> S -> result S) (s : S) : result S :=
  match xs with
  | [] => Ok s
  | x :: r => match body x s with Ok s' => rfor_each r body s' | Err e => Err e end
  end.

(* ---------- numbers ---------- *)
(* the six comparisons, on numbers (Q) and on counters (nat); the first argument is the LEFT operand *)
Definition q_lt (a b : Q) : bool := Qltb a b.
Definition q_le (a b : Q) : bool := Qle_bool a b.
Definition q_gt (a b : Q) : bool := Qltb b a.
Definition q_ge (a b : Q) : bool := Qle_bool b a.
Definition q_eq (a b : Q) : bool := Qeq_bool a b.
Definition q_ne (a b : Q) : bool := negb (Qeq_bool a b).
Definition n_lt (a b : nat) : bool := Nat.ltb a b.
Definition n_le (a b : nat) : bool := Nat.leb a b.
Definition n_gt (a b : nat) : bool := Nat.ltb b a.
Definition n_ge (a b : nat) : bool := Nat.leb b a.
Definition n_eq (a b : nat) : bool := Nat.eqb a b.
Definition n_ne (a b : nat) : bool := negb (Nat.eqb a b).
(* a / b: ZeroDivisionError is OtherError, as in Mirp.travel_d *)
Definition q_div (a b : Q) : result Q := if Qeq_bool b 0 then Err OtherError else Ok (a / b).

(* ---------- strings ---------- *)
(* f"...{n}...": literal pieces and counters printed in decimal *)
Inductive fpart := FS (s : string) | FN (n : nat).
Definition show_nat (n : nat) : string := NilEmpty.string_of_uint (Nat.to_uint n).
Definition fpart_str (p : fpart) : string := match p with FS s => s | FN n => show_nat n end.
Definition fstr (ps : list fpart) : string := fold_right (fun p acc => append (fpart_str p) acc) EmptyString ps.

(* ---------- lists, arrays, matrices ---------- *)
Definition py_zip2 {A C} (a : list A) (c : list C) : list (A * C) := combine a c.
Fixpoint py_zip3 {A C D} (a : list A) (c : list C) (d : list D) : list (A * C * D) :=
  match a, c, d with
  | x :: a', y :: c', z :: d' => (x, y, z) :: py_zip3 a' c' d'
  | _, _, _ => []
  end.
Fixpoint py_zip4 {A C D E} (a : list A) (c : list C) (d : list D) (e : list E) : list (A * C * D * E) :=
  match a, c, d, e with
  | x :: a', y :: c', z :: d', w :: e' => (x, y, z, w) :: py_zip4 a' c' d' e'
  | _, _, _, _ => []
  end.
Fixpoint enum_from {A} (k : nat) (l : list A) : list (nat * A) :=
  match l with [] => [] | x :: r => (k, x) :: enum_from (S k) r end.
Definition py_enumerate {A} (l : list A) : list (nat * A) := enum_from 0 l.
(* range(a, b); range(b) is py_range 0 b *)
Definition py_range (a b : nat) : list nat := seq a (b - a).

(* l[i] with a counter i: IndexError *)
Definition list_getr {A} (l : list A) (i : nat) : result A :=
  match nth_error l i with Some x => Ok x | None => Err IndexError end.
(* l.index(x) on a list of strings: ValueError *)
Fixpoint str_index (x : string) (l : list string) : option nat :=
  match l with
  | [] => None
  | y :: r => if String.eqb x y then Some O else option_map S (str_index x r)
  end.
Definition list_indexr (l : list string) (x : string) : result nat :=
  match str_index x l with Some i => Ok i | None => Err ValueError end.

Definition mat := list (list Q).
(* m[i, j] *)
Definition mat_getr (m : mat) (i j : nat) : result Q := rbind (list_getr m i) (fun r => list_getr r j).
Fixpoint list_set {A} (l : list A) (i : nat) (v : A) : list A :=
  match l, i with
  | [], _ => []
  | _ :: r, O => v :: r
  | x :: r, S i' => x :: list_set r i' v
  end.
(* m[i, j] = v *)
Definition mat_setr (m : mat) (i j : nat) (v : Q) : result mat :=
  match nth_error m i with
  | None => Err IndexError
  | Some r => if Nat.ltb j (length r) then Ok (list_set m i (list_set r j v)) else Err IndexError
  end.
(* (x <cmp> c).all() on a one- / two-dimensional array *)
Definition arr_all (p : Q -> bool) (l : list Q) : bool := forallb p l.
Definition mat_all (p : Q -> bool) (m : mat) : bool := forallb (forallb p) m.
(* m.shape == (a, b) *)
Definition mat_shape_is (m : mat) (a b : nat) : bool :=
  Nat.eqb (length m) a && forallb (fun r => Nat.eqb (length r) b) m.
Definition np_zeros (n : nat) : list Q := repeat 0 n.
Definition np_asarray {A} (x : A) : A := x.

(* ---------- dict with string keys and numeric values (insertion order) ---------- *)
Definition sdict := list (string * Q).
Fixpoint sdict_get (k : string) (d : sdict) : option Q :=
  match d with
  | [] => None
  | (q, v) :: d' => if String.eqb k q then Some v else sdict_get k d'
  end.
Fixpoint sdict_set (k : string) (v : Q) (d : sdict) : sdict :=
  match d with
  | [] => [(k, v)]
  | (q, v') :: d' => if String.eqb k q then (q, v) :: d' else (q, v') :: sdict_set k v d'
  end.
Definition sdict_getr (d : sdict) (k : string) : result Q :=
  match sdict_get k d with Some v => Ok v | None => Err KeyError end.
(* dict(zip(keys, values)): later pairs overwrite earlier ones *)
Definition sdict_of_pairs (kvs : list (string * Q)) : sdict :=
  fold_left (fun d kv => sdict_set (fst kv) (snd kv) d) kvs [].

(* ---------- the calls a builder makes on its MIRP object ---------- *)
Inductive pyop :=
| PInit (size H : Q)                                               (* MIRP(cargo_size, time_horizon) *)
| PAddNodes (name : string) (init rate cap : Q)                    (* .add_nodes(name, init, rate, cap) *)
| PTravel (dist : string -> string -> result Q) (speed unit : Q) (fs fd : sdict)
                                                                   (* .add_travel_arcs(f, speed, unit cost, fees, fees) *)
| PExit (tm c : Q)                                                 (* .add_exit_arcs(travel_time, cost) *)
| PEntry (limit tm c : Q).                                         (* .add_entry_arcs(time_limit, travel_time, cost) *)

(* ---------- the builder monad: log of the calls so far ---------- *)
Definition B (A : Type) := list pyop -> list pyop * result A.
Definition ret {A} (a : A) : B A := fun log => (log, Ok a).
Definition bind {A C} (m : B A) (f : A -> B C) : B C :=
  fun log => match m log with
             | (log', Ok a) => f a log'
             | (log', Err e) => (log', Err e)
             end.
Definition lift {A} (r : result A) : B A := fun log => (log, r).
Definition emit (o : pyop) : B unit := fun log => (log ++ [o], Ok tt).
Fixpoint for_each {X S} (xs : list X) (body : X -> S -> B S) (s : S) : B S :=
  match xs with
  | [] => ret s
  | x :: r => bind (body x s) (fun s' => for_each r body s')
  end.
(* np.random.seed(...): changes which values are drawn afterwards; the drawn values are parameters of the generated
   function (universally quantified in every theorem), so the call has no effect on the log *)
Definition np_random_seed : B unit := ret tt.

(* mirp.supply_ports / mirp.demand_ports: add_nodes files a port under supply_ports iff its rate is > 0
   (theorem C12_examples_gen_port_reads ties this to Mirp.sports / Mirp.dports) *)
Fixpoint sup_ports_of (log : list pyop) : list string :=
  match log with
  | [] => []
  | PAddNodes n _ r _ :: rest => if Qltb 0 r then n :: sup_ports_of rest else sup_ports_of rest
  | _ :: rest => sup_ports_of rest
  end.
Fixpoint dem_ports_of (log : list pyop) : list string :=
  match log with
  | [] => []
  | PAddNodes n _ r _ :: rest => if Qltb 0 r then dem_ports_of rest else n :: dem_ports_of rest
  | _ :: rest => dem_ports_of rest
  end.
Definition mirp_supply_ports : B (list string) := fun log => (log, Ok (sup_ports_of log)).
Definition mirp_demand_ports : B (list string) := fun log => (log, Ok (dem_ports_of log)).

(* ---------- from a log to the operations of Mirp.v ---------- *)
Fixpoint names_of (log : list pyop) : list string :=
  match log with
  | [] => []
  | PAddNodes n _ _ _ :: rest => n :: names_of rest
  | _ :: rest => names_of rest
  end.
(* the distance FUNCTION as the finite table Mirp.v looks up: all pairs of port names of the build; a pair on which
   the function raises has no entry (Mirp.travel_d then stops with an exception, as the Python loop does) *)
Definition tab_dist (code : string -> nat) (f : string -> string -> result Q) (names : list string)
  : list ((nat * nat) * Q) :=
  flat_map (fun ab => match f (fst ab) (snd ab) with
                      | Ok v => [((code (fst ab), code (snd ab)), v)]
                      | Err _ => []
                      end) (list_prod names names).
Definition code_fees (code : string -> nat) (d : sdict) : list (nat * Q) :=
  map (fun kv => (code (fst kv), snd kv)) d.
Definition compile_op (code : string -> nat) (names : list string) (o : pyop) : list mop :=
  match o with
  | PInit _ _ => []
  | PAddNodes n i r c => [AddNodes (code n) i r c]
  | PTravel f sp u fs fd => [AddTravelArcs (tab_dist code f names) sp u (code_fees code fs) (code_fees code fd)]
  | PExit t c => [AddExitArcs t c]
  | PEntry l t c => [AddEntryArcs l t c]
  end.
Definition compile (code : string -> nat) (log : list pyop) : list mop :=
  flat_map (compile_op code (names_of log)) log.
(* the object a log describes: MIRP(size, H) then the calls; a log that does not start with the constructor (or has a
   second one) describes no single object *)
Fixpoint no_init (log : list pyop) : bool :=
  match log with [] => true | PInit _ _ :: _ => false | _ :: r => no_init r end.
Definition built (code : string -> nat) (log : list pyop) : option mstate :=
  match log with
  | PInit size H :: rest => if no_init rest then Some (mrun (compile code rest) (init_state size H)) else None
  | _ => None
  end.

(* ---------- the canonical build order: constructor, add_nodes..., travel, exit, entry ---------- *)
Definition pspec := (string * Q * Q * Q)%type.       (* name, init, rate, cap *)
Definition ps_name (p : pspec) : string := fst (fst (fst p)).
Definition ps_init (p : pspec) : Q := snd (fst (fst p)).
Definition ps_rate (p : pspec) : Q := snd (fst p).
Definition ps_cap (p : pspec) : Q := snd p.
Record canon := mkCanon {
  c_size : Q; c_H : Q; c_ports : list pspec;
  c_dist : string -> string -> result Q; c_speed : Q; c_unit : Q; c_fs : sdict; c_fd : sdict;
  c_etm : Q; c_ec : Q; c_limit : Q; c_ntm : Q; c_nc : Q }.
Fixpoint split_nodes (ops : list pyop) : list pspec * list pyop :=
  match ops with
  | PAddNodes n i r c :: rest => let (ps, tl) := split_nodes rest in ((n, i, r, c) :: ps, tl)
  | _ => ([], ops)
  end.
Definition parse_canonical (log : list pyop) : option canon :=
  match log with
  | PInit size H :: rest =>
      match split_nodes rest with
      | (ps, [PTravel f sp u fs fd; PExit et ec; PEntry l nt nc]) =>
          Some (mkCanon size H ps f sp u fs fd et ec l nt nc)
      | _ => None
      end
  | _ => None
  end.

(* the hypotheses of C12_arcset on the data as written in Python *)
Definition canon_ok (c : canon) : Prop :=
  0 < c_size c /\ NoDup (map ps_name (c_ports c)) /\
  (forall p, In p (c_ports c) -> ~ ps_rate p == 0 /\ c_size c <= ps_cap p) /\
  ~ c_speed c == 0 /\
  (forall sp dp, In sp (c_ports c) -> Qltb 0 (ps_rate sp) = true -> In dp (c_ports c) -> Qltb 0 (ps_rate dp) = false ->
     (exists v, c_dist c (ps_name sp) (ps_name dp) = Ok v) /\
     sdict_get (ps_name sp) (c_fs c) <> None /\ sdict_get (ps_name dp) (c_fd c) <> None).
(* ... and as a computation, for builders whose data are literals *)
Fixpoint str_nodup (l : list string) : bool :=
  match l with
  | [] => true
  | x :: r => negb (existsb (String.eqb x) r) && str_nodup r
  end.
Definition is_ok {A} (r : result A) : bool := match r with Ok _ => true | Err _ => false end.
Definition is_some {A} (o : option A) : bool := match o with Some _ => true | None => false end.
Definition canon_okb (c : canon) : bool :=
  Qltb 0 (c_size c) && str_nodup (map ps_name (c_ports c)) &&
  forallb (fun p => negb (Qeq_bool (ps_rate p) 0) && Qle_bool (c_size c) (ps_cap p)) (c_ports c) &&
  negb (Qeq_bool (c_speed c) 0) &&
  forallb (fun sp => negb (Qltb 0 (ps_rate sp)) ||
     forallb (fun dp => Qltb 0 (ps_rate dp) ||
        (is_ok (c_dist c (ps_name sp) (ps_name dp)) && is_some (sdict_get (ps_name sp) (c_fs c)) &&
         is_some (sdict_get (ps_name dp) (c_fd c)))) (c_ports c)) (c_ports c).
(* the hypotheses of C11_safety for one port *)
Definition port_c11_okb (size : Q) (p : pspec) : bool :=
  Qltb 0 size && negb (Qeq_bool (ps_rate p) 0) && Qle_bool 0 (ps_init p) && Qle_bool (ps_init p) (ps_cap p) &&
  Qle_bool size (ps_cap p).

(* ---------- run-time cross-check: the calls of a log, compared with the calls recorded on the real object ---------- *)
Inductive opobs :=
| OInit (size H : Q)
| ONodes (name : string) (init rate cap : Q)
| OTravel (tab : list (string * string * result Q)) (speed unit : Q) (fs fd : sdict)
| OExit (tm c : Q)
| OEntry (limit tm c : Q).
Definition observe_op (names : list string) (o : pyop) : opobs :=
  match o with
  | PInit s h => OInit s h
  | PAddNodes n i r c => ONodes n i r c
  | PTravel f sp u fs fd => OTravel (map (fun ab => (fst ab, snd ab, f (fst ab) (snd ab))) (list_prod names names)) sp u fs fd
  | PExit t c => OExit t c
  | PEntry l t c => OEntry l t c
  end.
Definition observe_log (log : list pyop) : list opobs := map (observe_op (names_of log)) log.
Definition sdict_eqb (a b : sdict) : bool := list_eqb (pair_eqb String.eqb Qeq_bool) a b.
Definition tabrow_eqb (a b : string * string * result Q) : bool :=
  String.eqb (fst (fst a)) (fst (fst b)) && String.eqb (snd (fst a)) (snd (fst b)) && result_eqb Qeq_bool (snd a) (snd b).
Definition opobs_eqb (a b : opobs) : bool :=
  match a, b with
  | OInit s h, OInit s' h' => Qeq_bool s s' && Qeq_bool h h'
  | ONodes n i r c, ONodes n' i' r' c' => String.eqb n n' && Qeq_bool i i' && Qeq_bool r r' && Qeq_bool c c'
  | OTravel t sp u fs fd, OTravel t' sp' u' fs' fd' =>
      list_eqb tabrow_eqb t t' && Qeq_bool sp sp' && Qeq_bool u u' && sdict_eqb fs fs' && sdict_eqb fd fd'
  | OExit t c, OExit t' c' => Qeq_bool t t' && Qeq_bool c c'
  | OEntry l t c, OEntry l' t' c' => Qeq_bool l l' && Qeq_bool t t' && Qeq_bool c c'
  | _, _ => false
  end.
Fixpoint diff_ops (k : nat) (a b : list opobs) : list nat :=
  match a, b with
  | [], [] => []
  | x :: a', y :: b' => chk (10 + k) (opobs_eqb x y) ++ diff_ops (S k) a' b'
  | _, _ => [1%nat]
  end.
(* case: (horizon, calls recorded on the real builder); tags: 1 number of calls, 2 the generated builder raises,
   10+i the i-th call differs *)
Definition check_builder_case (gen : Q -> B unit) (c : Q * list opobs) : list nat :=
  let r := gen (fst c) [] in
  chk 2 (is_ok (snd r)) ++ diff_ops 0 (observe_log (fst r)) (snd c).

(* sample(field, size=n) / field.rvs(size=(a, b)): the drawn value is a parameter; the size asked for is kept in the
   term (the source checks the length / shape itself, with assert) *)
Definition sample_sized {A} (x : A) (n : nat) : A := x.
Definition sample_sized2 {A} (x : A) (a b : nat) : A := x.

(* the canonical build a builder performs (None: it raises, or its calls are not constructor, add_nodes..., travel,
   exit, entry) *)
Definition canonical_build_of (b : B unit) : option canon :=
  match b [] with
  | (log, Ok _) => parse_canonical log
  | (_, Err _) => None
  end.
