(* Routes_views.v -- how the arc-based and the sequence-based objects relate to the VRPTW of a
   path-based state, and what "x solves the program with value v" means for them, in the vocabulary
   of C05 (Arc.v) and C07 (Seq.v).  Definitions only.  [C08]
   (Arc, Arc_ref and Seq are required without Import: their inst / node_at / vars / valid_route clash.) *)
From VQ Require Import Base LinAlg Vrptw Path Penalty Routes.
From VQ Require Arc Arc_ref Arc_facts Seq.
Open Scope Z_scope.

(* ====================================================================== *)
(* sequence-based                                                          *)
(* ====================================================================== *)
(* objective of a walk assignment (right-hand side of C07_objective) *)
Definition seq_cost (I : Seq.inst) (W : nat -> nat -> nat) : Z :=
  Seq.zsum (Seq.iV I)
    (fun v => Seq.zsum (Seq.iL I - 1) (fun s => Seq.cost I (W v s, W v (S s)) + Seq.vcost I v)).

(* x is a 0-1 vector satisfying A x = b, x'Rx = 0 of the sequence-based object, with objective v *)
Definition seq_solution (I : Seq.inst) (x : nat -> Z) (v : Z) : Prop :=
  Seq.zbinary (Seq.num_variables I) x /\
  (exists E, Seq.R_entries I = Ok E /\
     (forall r, (r < Seq.num_rows I)%nat ->
        Seq.zmv (Seq.num_variables I) (Seq.Amat I) x r = Seq.bvec I r) /\
     Seq.zqf (Seq.num_variables I) (Seq.Rmat E) x = 0) /\
  Seq.zdot (Seq.num_variables I) (Seq.cvec I) x + Seq.zqf (Seq.num_variables I) (Seq.Qo I) x = v.

(* the same program as a zsys (Routes.v), E the entries of the quadratic constraint matrix *)
Definition seq_sys (I : Seq.inst) (E : list (nat * nat)) : zsys :=
  mkZsys (Seq.num_rows I) (Seq.num_variables I) (Seq.Amat I) (Seq.bvec I) (Seq.Rmat E) (Seq.cvec I) (Seq.Qo I).

(* the non-strict object on the VRPTW graph of st: same nodes, same arcs, plus the depot self-arc of
   cost 0 that the class's set_depot stores; no vehicle costs *)
Definition seq_view (st : pstate) (I : Seq.inst) : Prop :=
  nodes (Seq.ig I) = nodes (pg st) /\
  NoDup (map fst (arcs (Seq.ig I))) /\
  (exists a0, dict_get (O, O) (arcs (Seq.ig I)) = Some a0 /\ acost a0 = 0) /\
  (forall i j, (i, j) <> (O, O) ->
     dict_get (i, j) (arcs (Seq.ig I)) = dict_get (i, j) (arcs (pg st))) /\
  (forall v, Seq.vcost I v = 0).

(* the strict object: its arcs other than the depot self-arc are arcs of the VRPTW with the same
   travel time and cost (the strict constructor re-filters them, the strict add_arc adds fewer) *)
Definition seq_view_strict (st : pstate) (I : Seq.inst) : Prop :=
  nodes (Seq.ig I) = nodes (pg st) /\
  NoDup (map fst (arcs (Seq.ig I))) /\
  (exists a0, dict_get (O, O) (arcs (Seq.ig I)) = Some a0 /\ acost a0 = 0) /\
  (forall i j a, (i, j) <> (O, O) -> dict_get (i, j) (arcs (Seq.ig I)) = Some a ->
     exists a', dict_get (i, j) (arcs (pg st)) = Some a' /\ att a' = att a /\ acost a' = acost a) /\
  (forall v, Seq.vcost I v = 0).

(* boolean forms for concrete instances *)
Definition arc_same (a b : option arc) : bool :=
  match a, b with
  | Some x, Some y => (att x =? att y) && (acost x =? acost y)
  | None, None => true
  | _, _ => false
  end.

(* seq_view_strict's arc clause as a test on a concrete pair of objects *)
Definition strict_arcs_okb (st : pstate) (I : Seq.inst) : bool :=
  forallb (fun kv : (nat * nat) * arc =>
             natpair_eqb (fst kv) (O, O) || arc_same (Some (snd kv)) (dict_get (fst kv) (arcs (pg st))))
          (arcs (Seq.ig I)).
Definition depot_loop_freeb (I : Seq.inst) : bool :=
  match dict_get (O, O) (arcs (Seq.ig I)) with Some a0 => acost a0 =? 0 | None => false end.

(* the route a vehicle drives in a walk assignment: positions 1 .. up to the first return to the depot *)
Fixpoint until_depot (l : list nat) : list nat :=
  match l with
  | [] => []
  | x :: l' => if Nat.eqb x 0 then [] else x :: until_depot l'
  end.
Definition walk_customers (I : Seq.inst) (W : nat -> nat -> nat) (v : nat) : list nat :=
  until_depot (map (W v) (seq 1 (Seq.iL I - 1))).
Definition walk_routes (I : Seq.inst) (W : nat -> nat -> nat) : list (list nat) :=
  map (fun cs => O :: cs ++ [O])
      (filter (fun cs => match cs with [] => false | _ => true end)
              (map (walk_customers I W) (seq 0 (Seq.iV I)))).

(* ====================================================================== *)
(* arc-based                                                               *)
(* ====================================================================== *)
(* x is a 0-1 list with A x = b of the arc-based object, objective v *)
Definition arc_solution (I : Arc.inst) (x : list Z) (v : Z) : Prop :=
  length x = Arc.num_variables I /\ Arc_facts.binary x /\
  Arc.Ax I x = Arc.rhs I /\ Arc.obj_value I x = v.

(* the node list of a depot-to-depot chain of arc-based variables (origin, dep. time, destination, arr. time):
   depot, the destinations of all moves but the last, depot *)
Definition moves_route (r : list Arc.var) : list nat := O :: map Arc.dnode (removelast r) ++ [O].

(* the grid holds time 0 and the service time of every stop of every valid route *)
Definition grid_complete (st : pstate) (grid : list Z) : Prop :=
  In 0 grid /\
  forall r, valid_route st r -> Forall (fun t => In t grid) (arrivals (pg st) 0 O (tl r)).
