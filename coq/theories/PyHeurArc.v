(* PyHeurArc.v -- the object record of the model GENERATED from ArcBasedRoutingProblem.make_feasible /
   check_and_add_exit_arc (coq/gen/HeurArcGen.v, written on every run by harness/translate_heursa.py).
   Definitions only.  [C09, arc half]

   The object is the enumeration part PyArc.astate (graph, time_points, var_mapping, num_variables and the
   enumeration flag -- the record the generated enumerate_variables / get_var_index / get_arrival_time of
   the arcenum package work on) plus the two other build flags and `feasible_solution`. *)
From VQ Require Export Base Vrptw Arc PyEnumCore PyArc PyHeur.

Record ha := mkHA {
  ha_a : astate;
  ha_constraints_built : bool;           (* self.constraints_built *)
  ha_objective_built : bool;             (* self.objective_built *)
  ha_feasible_solution : list Z          (* self.feasible_solution *)
}.

Definition ha_set_a (v : astate) (s : ha) : ha :=
  mkHA v (ha_constraints_built s) (ha_objective_built s) (ha_feasible_solution s).
Definition ha_set_constraints_built (v : bool) (s : ha) : ha :=
  mkHA (ha_a s) v (ha_objective_built s) (ha_feasible_solution s).
Definition ha_set_objective_built (v : bool) (s : ha) : ha :=
  mkHA (ha_a s) (ha_constraints_built s) v (ha_feasible_solution s).
Definition ha_set_feasible_solution (v : list Z) (s : ha) : ha :=
  mkHA (ha_a s) (ha_constraints_built s) (ha_objective_built s) v.

Definition aset_graph (g : graph) (s : astate) : astate :=
  mkAS g (s_time_points s) (s_var_mapping s) (s_num_variables s) (s_variables_enumerated s).

Definition ha_graph (s : ha) : graph := s_graph (ha_a s).
Definition ha_set_graph (g : graph) (s : ha) : ha := ha_set_a (aset_graph g (ha_a s)) s.
Definition ha_nodes (s : ha) : list node := nodes (ha_graph s).
Definition ha_nodes_item (s : ha) (i : nat) : node := node_at (ha_graph s) i.
Definition ha_node_names (s : ha) : list nat := names (ha_graph s).
Definition ha_time_points (s : ha) : list Z := s_time_points (ha_a s).
Definition ha_num_variables (s : ha) : nat := s_num_variables (ha_a s).
Definition ha_variables_enumerated (s : ha) : bool := s_variables_enumerated (ha_a s).
Definition ha_set_variables_enumerated (v : bool) (s : ha) : ha :=
  ha_set_a (set_variables_enumerated v (ha_a s)) s.

(* Node.get_window() *)
Definition ha_get_window (n : node) : Z * ext := (nlo n, nhi n).

(* method calls that other packages translate: on the enumeration part / on the graph *)
Definition ha_call_a {A} (f : astate -> astate * result A) (self : ha) : result (ha * A) :=
  py_call_part ha_a ha_set_a f self.
Definition ha_call_a_total {A} (f : astate -> astate * A) (self : ha) : result (ha * A) :=
  py_call_part_total ha_a ha_set_a f self.
Definition ha_call_g {A} (f : graph -> graph * result A) (self : ha) : result (ha * A) :=
  py_call_part ha_graph ha_set_graph f self.

(* ---------- vocabulary of the theorems in genprops/C09_arc_gen.v ---------- *)
(* what is compared with the hand model Heur_arc.mf_arc: exception class, or (graph, sorted grid, vector).
   The hand model keeps the grid as it was given (igrid) and sorts on every use (tp); the object only has
   the sorted array that add_time_points stored. *)
Definition ha_obs {U} (r : result (ha * U)) : result (graph * list Z * list Z) :=
  match r with
  | Err e => Err e
  | Ok (self, _) => Ok (ha_graph self, ha_time_points self, ha_feasible_solution self)
  end.
Definition mf_arc_obs (r : result (inst * list Z)) : result (graph * list Z * list Z) :=
  match r with
  | Err e => Err e
  | Ok (I', x) => Ok (ig I', tp I', x)
  end.
(* the object holds the problem I (graph, and the grid as add_time_points stores it) with coherent caches *)
Definition ha_holds (self : ha) (I : inst) : Prop :=
  arc_holds (ha_a self) I /\ arc_coherent (ha_a self) I.
(* the object that holds I and has never enumerated *)
Definition ha_fresh (I : inst) : ha :=
  mkHA (mkAS (ig I) (tp I) [] O false) false false [].
