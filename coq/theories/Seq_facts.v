(* Seq_facts.v -- lemmas about the model of the sequence-based formulation (Seq.v).  [C07, C18] *)
From Coq Require Import ZArith List Bool Lia ZifyBool Permutation Sorted.
From VQ Require Import Base LinAlg Vrptw Vrptw_facts Seq.

(* ================================================================== *)
(** * 0. Generic list and sum lemmas *)

Lemma tuple_eqb_eq a b : tuple_eqb a b = true <-> a = b.
Proof.
  destruct a as [[v1 s1] n1], b as [[v2 s2] n2]; simpl.
  rewrite !andb_true_iff, !Nat.eqb_eq. split.
  - intros [[-> ->] ->]; reflexivity.
  - intros H; inversion H; auto.
Qed.

Lemma tuple_eqb_refl a : tuple_eqb a a = true.
Proof. apply tuple_eqb_eq; reflexivity. Qed.

Lemma tuple_eqb_neq a b : tuple_eqb a b = false <-> a <> b.
Proof.
  split.
  - intros H E. apply tuple_eqb_eq in E. congruence.
  - intros H. destruct (tuple_eqb a b) eqn:E; auto. apply tuple_eqb_eq in E. contradiction.
Qed.

Section Lsum.
  Context {T : Type}.
  Implicit Types (l : list T) (f g : T -> Z).

  Lemma lsum_nil f : lsum (@nil T) f = 0.
  Proof. reflexivity. Qed.

  Lemma lsum_cons a l f : lsum (a :: l) f = f a + lsum l f.
  Proof. reflexivity. Qed.

  Lemma lsum_app l1 l2 f : lsum (l1 ++ l2) f = lsum l1 f + lsum l2 f.
  Proof. induction l1 as [|a l1 IH]; [reflexivity|]. cbn [app]. rewrite !lsum_cons, IH. lia. Qed.

  Lemma lsum_ext l f g : (forall a, In a l -> f a = g a) -> lsum l f = lsum l g.
  Proof.
    induction l as [|a l IH]; intros H; [reflexivity|].
    rewrite !lsum_cons, IH, (H a); auto; simpl; auto.
    intros; apply H; simpl; auto.
  Qed.

  Lemma lsum_add l f g : lsum l (fun a => f a + g a) = lsum l f + lsum l g.
  Proof. induction l as [|a l IH]; [reflexivity|]. rewrite !lsum_cons, IH. lia. Qed.

  Lemma lsum_scal l c f : lsum l (fun a => c * f a) = c * lsum l f.
  Proof. induction l as [|a l IH]; [simpl; lia|]. rewrite !lsum_cons, IH. lia. Qed.

  Lemma lsum_scal_r l c f : lsum l (fun a => f a * c) = lsum l f * c.
  Proof. induction l as [|a l IH]; [simpl; lia|]. rewrite !lsum_cons, IH. lia. Qed.

  Lemma lsum_zero l f : (forall a, In a l -> f a = 0) -> lsum l f = 0.
  Proof.
    induction l as [|a l IH]; intros H; [reflexivity|].
    rewrite lsum_cons, IH, (H a); simpl; auto. intros; apply H; simpl; auto.
  Qed.

  Lemma lsum_nonneg l f : (forall a, In a l -> 0 <= f a) -> 0 <= lsum l f.
  Proof.
    induction l as [|a l IH]; intros H; [simpl; lia|].
    rewrite lsum_cons. assert (0 <= f a) by (apply H; simpl; auto).
    assert (0 <= lsum l f) by (apply IH; intros; apply H; simpl; auto). lia.
  Qed.

  Lemma lsum_zero_inv l f :
    (forall a, In a l -> 0 <= f a) -> lsum l f = 0 -> forall a, In a l -> f a = 0.
  Proof.
    induction l as [|a l IH]; intros Hn Hs x Hx; [destruct Hx|].
    rewrite lsum_cons in Hs.
    assert (0 <= f a) by (apply Hn; simpl; auto).
    assert (0 <= lsum l f) by (apply lsum_nonneg; intros; apply Hn; simpl; auto).
    destruct Hx as [<-|Hx]; [lia|].
    apply IH; auto; [intros; apply Hn; simpl; auto | lia].
  Qed.

End Lsum.

Lemma lsum_map {T U} (h : U -> T) (l : list U) (f : T -> Z) : lsum (map h l) f = lsum l (fun u => f (h u)).
Proof. induction l as [|a l IH]; [reflexivity|]. cbn [map]. rewrite !lsum_cons, IH. reflexivity. Qed.

Lemma lsum_flat_map {T U} (h : U -> list T) (l : list U) (f : T -> Z) :
  lsum (flat_map h l) f = lsum l (fun u => lsum (h u) f).
Proof.
  induction l as [|a l IH]; [reflexivity|]. cbn [flat_map].
  rewrite lsum_app, lsum_cons, IH. reflexivity.
Qed.

Lemma lsum_swap {T U} (l1 : list T) (l2 : list U) (f : T -> U -> Z) :
  lsum l1 (fun a => lsum l2 (fun b => f a b)) = lsum l2 (fun b => lsum l1 (fun a => f a b)).
Proof.
  induction l1 as [|a l1 IH].
  - simpl. symmetry. apply lsum_zero. reflexivity.
  - rewrite lsum_cons, IH. rewrite <- lsum_add. apply lsum_ext. intros b _. rewrite lsum_cons. reflexivity.
Qed.

Lemma zsum_lsum n f : zsum n f = lsum (seq 0 n) f.
Proof.
  unfold zsum. induction n as [|n IH]; [reflexivity|].
  rewrite seq_S, lsum_app. simpl sum_n. rewrite IH. simpl. lia.
Qed.

(* a 0/1 indicator picks one element of a duplicate-free list *)
Lemma lsum_pick {T} (l : list T) (p : T -> bool) (g : T -> Z) a0 :
  NoDup l -> In a0 l -> (forall a, In a l -> p a = true <-> a = a0) ->
  lsum l (fun a => if p a then g a else 0) = g a0.
Proof.
  induction l as [|a l IH]; intros Hnd Hin Hp; [destruct Hin|].
  inversion Hnd as [|? ? Hna Hnd']; subst. rewrite lsum_cons.
  destruct Hin as [->|Hin].
  - assert (E : p a0 = true) by (apply Hp; simpl; auto). rewrite E.
    rewrite lsum_zero; [lia|]. intros x Hx.
    destruct (p x) eqn:Ex; auto. apply Hp in Ex; [|simpl; auto]. subst. contradiction.
  - assert (E : p a = false).
    { destruct (p a) eqn:Ea; auto. apply Hp in Ea; [|simpl; auto]. subst. contradiction. }
    rewrite E, IH; [lia | assumption | assumption |]. intros x Hx. apply Hp. simpl; auto.
Qed.

Lemma lsum_none {T} (l : list T) (p : T -> bool) (g : T -> Z) :
  (forall a, In a l -> p a = false) -> lsum l (fun a => if p a then g a else 0) = 0.
Proof. intros H. apply lsum_zero. intros a Ha. rewrite H; auto. Qed.

Lemma lsum_seq_delta n k (g : nat -> Z) :
  (k < n)%nat -> lsum (seq 0 n) (fun i => if Nat.eqb k i then g i else 0) = g k.
Proof.
  intros Hk. apply lsum_pick.
  - apply seq_NoDup.
  - apply in_seq. lia.
  - intros a _. rewrite Nat.eqb_eq. split; auto.
Qed.

(* a 0/1-valued function whose sum is one is the indicator of one element *)
Lemma lsum_binary_one {T} (l : list T) (f : T -> Z) :
  (forall a, In a l -> f a = 0 \/ f a = 1) -> lsum l f = 1 ->
  exists l1 a0 l2, l = l1 ++ a0 :: l2 /\ f a0 = 1 /\
                   (forall a, In a l1 -> f a = 0) /\ (forall a, In a l2 -> f a = 0).
Proof.
  induction l as [|a l IH]; intros Hb Hs; [simpl in Hs; lia|].
  rewrite lsum_cons in Hs.
  destruct (Hb a) as [E|E]; [simpl; auto| |].
  - destruct IH as (l1 & a0 & l2 & -> & H1 & H2 & H3); [intros; apply Hb; simpl; auto | lia |].
    exists (a :: l1), a0, l2. repeat split; auto.
    intros x [<-|Hx]; auto.
  - exists [], a, l. repeat split; auto; [intros x []|].
    apply lsum_zero_inv; [|lia].
    intros x Hx. destruct (Hb x); [simpl; auto| |]; lia.
Qed.

Lemma NoDup_flat_map {T U} (f : T -> list U) (l : list T) :
  NoDup l -> (forall a, In a l -> NoDup (f a)) ->
  (forall a b x, In a l -> In b l -> In x (f a) -> In x (f b) -> a = b) ->
  NoDup (flat_map f l).
Proof.
  induction l as [|a l IH]; intros Hnd Hf Hdisj; simpl; [constructor|].
  inversion Hnd as [|? ? Hna Hnd']; subst.
  assert (Hrest : NoDup (flat_map f l)).
  { apply IH; auto; intros; [apply Hf | eapply Hdisj]; simpl; eauto. }
  assert (Ha : NoDup (f a)) by (apply Hf; simpl; auto).
  revert Ha. generalize (Hdisj a). intros Hd.
  induction (f a) as [|x xs IHx]; intros Hxs; simpl; auto.
  inversion Hxs; subst. constructor.
  - rewrite in_app_iff. intros [H|H]; [contradiction|].
    apply in_flat_map in H. destruct H as (b & Hb & Hxb).
    assert (a = b) by (apply (Hd b x); simpl; auto). subst. contradiction.
  - apply IHx; auto. intros b y Ha' Hb Hy Hyb. apply (Hd b y); simpl; auto.
Qed.

Lemma NoDup_map_inj {T U} (f : T -> U) (l : list T) :
  (forall a b, In a l -> In b l -> f a = f b -> a = b) -> NoDup l -> NoDup (map f l).
Proof.
  induction l as [|a l IH]; intros Hinj Hnd; simpl; [constructor|].
  inversion Hnd; subst. constructor.
  - intros H. apply in_map_iff in H. destruct H as (b & E & Hb).
    assert (b = a) by (apply Hinj; simpl; auto). subst. contradiction.
  - apply IH; auto. intros; apply Hinj; simpl; auto.
Qed.

(* ================================================================== *)
(** * 1. The fixing rules and the enumeration  (C18) *)

(* the six rules spelled out in terms of the arc set *)
Definition is_arc (I : inst) (i j : nat) : Prop := In (i, j) (map fst (arcs (ig I))).

(* (v,s,n) is not fixed: not first, not last position, reachable from the depot when at
   position 1, able to return to the depot when at position L-2 *)
Definition free_pred (I : inst) (s n : nat) : Prop :=
  s <> 0%nat /\ S s <> iL I /\ (s = 1%nat -> is_arc I 0 n) /\ (S (S s) = iL I -> is_arc I n 0).

(* value of a fixed tuple: 1 exactly for the depot at the first position, and for the depot at the
   last position unless rule 3 (position 1, no depot self-arc) came first *)
Definition one_pred (I : inst) (s n : nat) : Prop :=
  n = 0%nat /\ (s = 0%nat \/ (S s = iL I /\ (s = 1%nat -> is_arc I 0 0))).

Definition in_range (I : inst) (t : tuple) : Prop :=
  match t with (v, s, n) => (v < iV I)%nat /\ (s < iL I)%nat /\ (n < iN I)%nat end.

Lemma check_arc_iff I i j : check_arc I (i, j) = true <-> is_arc I i j.
Proof. unfold check_arc, is_arc. apply dict_mem_In. Qed.

Lemma check_arc_false I i j : check_arc I (i, j) = false <-> ~ is_arc I i j.
Proof.
  rewrite <- check_arc_iff. destruct (check_arc I (i, j)); split; intros H; try congruence; auto.
Qed.

Lemma check_arc_spec I i j : reflect (is_arc I i j) (check_arc I (i, j)).
Proof.
  destruct (check_arc I (i, j)) eqn:E; constructor.
  - apply check_arc_iff; exact E.
  - apply check_arc_false; exact E.
Qed.

Ltac rule_cases I s n :=
  unfold rule;
  destruct (Nat.eqb_spec s 0) as [Es0|Es0]; destruct (Nat.eqb_spec n 0) as [En0|En0];
  destruct (Nat.eqb_spec s 1) as [Es1|Es1]; destruct (Nat.eqb_spec (S s) (iL I)) as [EsL1|EsL1];
  destruct (Nat.eqb_spec (S (S s)) (iL I)) as [EsL2|EsL2];
  destruct (check_arc_spec I 0 n) as [Ea0n|Ea0n]; destruct (check_arc_spec I n 0) as [Ean0|Ean0];
  cbn [andb negb].

Lemma rule_free I s n : rule I s n = None <-> free_pred I s n.
Proof.
  unfold free_pred.
  rule_cases I s n; (split; [intros H; try discriminate H; repeat split; intros; try lia; auto; try congruence
                            | intros (H1 & H2 & H3 & H4); try reflexivity; exfalso; try lia; auto]).
Qed.

Lemma rule_value I s n z :
  rule I s n = Some z -> z = 1 /\ one_pred I s n \/ z = 0 /\ ~ one_pred I s n.
Proof.
  unfold one_pred.
  rule_cases I s n; intros H; inversion H; subst z; clear H; try subst n;
    first [ solve [ left; split; [reflexivity|]; split; [lia|];
                    first [ left; lia | right; split; [lia|]; intros; first [assumption | lia] ] ]
          | solve [ right; split; [reflexivity|]; intros (Hn & [Hs | (Hs & Ha)]);
                    first [ lia | apply Ea0n, Ha; lia ] ] ].
Qed.

Lemma in_grid I s n : In (s, n) (grid I) <-> (s < iL I)%nat /\ (n < iN I)%nat.
Proof.
  unfold grid. rewrite in_flat_map. split.
  - intros (s' & Hs & H). apply in_map_iff in H. destruct H as (n' & E & Hn).
    inversion E; subst. apply in_seq in Hs, Hn. lia.
  - intros [Hs Hn]. exists s. split; [apply in_seq; lia|].
    apply in_map_iff. exists n. split; auto. apply in_seq; lia.
Qed.

Lemma NoDup_grid I : NoDup (grid I).
Proof.
  unfold grid. apply NoDup_flat_map.
  - apply seq_NoDup.
  - intros s _. apply NoDup_map_inj; [|apply seq_NoDup]. intros a b _ _ E; inversion E; auto.
  - intros a b [s n] _ _ Ha Hb. apply in_map_iff in Ha, Hb.
    destruct Ha as (? & Ea & _), Hb as (? & Eb & _). inversion Ea; inversion Eb; subst; auto.
Qed.

Lemma in_vars I v s n :
  In (v, s, n) (vars I) <-> (v < iV I)%nat /\ (s < iL I)%nat /\ (n < iN I)%nat /\ rule I s n = None.
Proof.
  unfold vars. rewrite in_flat_map. split.
  - intros ([s' n'] & Hg & H). apply in_grid in Hg. cbn [fst snd] in H.
    destruct (rule I s' n') eqn:Er; [destruct H|].
    apply in_map_iff in H. destruct H as (v' & E & Hv). inversion E; subst.
    apply in_seq in Hv. repeat split; auto; lia.
  - intros (Hv & Hs & Hn & Hr). exists (s, n). split; [apply in_grid; auto|].
    cbn [fst snd]. rewrite Hr. apply in_map_iff. exists v. split; auto. apply in_seq; lia.
Qed.

Lemma vars_exact I v s n :
  In (v, s, n) (vars I) <-> (v < iV I)%nat /\ (s < iL I)%nat /\ (n < iN I)%nat /\ free_pred I s n.
Proof. rewrite in_vars, rule_free. reflexivity. Qed.

Lemma NoDup_vars I : NoDup (vars I).
Proof.
  unfold vars. apply NoDup_flat_map.
  - apply NoDup_grid.
  - intros [s n] _. cbn [fst snd]. destruct (rule I s n); [constructor|].
    apply NoDup_map_inj; [|apply seq_NoDup]. intros a b _ _ E; inversion E; auto.
  - intros [s1 n1] [s2 n2] [[v s] n] _ _ Ha Hb. cbn [fst snd] in *.
    destruct (rule I s1 n1); [destruct Ha|]. destruct (rule I s2 n2); [destruct Hb|].
    apply in_map_iff in Ha, Hb.
    destruct Ha as (? & Ea & _), Hb as (? & Eb & _). inversion Ea; inversion Eb; subst; auto.
Qed.

Lemma num_variables_length I : num_variables I = length (vars I).
Proof.
  unfold num_variables, vars.
  assert (G : forall l acc,
    fold_left (fun acc sn => match rule I (fst sn) (snd sn) with None => (acc + iV I)%nat | Some _ => acc end) l acc
    = (acc + length (flat_map (fun sn => match rule I (fst sn) (snd sn) with
                                         | None => map (fun v => (v, fst sn, snd sn)) (seq 0 (iV I))
                                         | Some _ => [] end) l))%nat).
  { induction l as [|sn l IH]; intros acc; simpl; [lia|].
    rewrite IH, app_length. destruct (rule I (fst sn) (snd sn)); simpl; [lia|].
    rewrite map_length, seq_length. lia. }
  apply (G (grid I) O).
Qed.

(* ================================================================== *)
(** * 2. Index maps *)

Lemma find_index_Some t l k : find_index t l = Some k -> nth_error l k = Some t.
Proof.
  revert k; induction l as [|u l IH]; simpl; intros k; [discriminate|].
  destruct (tuple_eqb t u) eqn:E.
  - apply tuple_eqb_eq in E; subst. intros H; inversion H; reflexivity.
  - destruct (find_index t l) as [j|]; simpl; [|discriminate].
    intros H; inversion H; subst; simpl. apply IH; reflexivity.
Qed.

Lemma find_index_In t l : In t l -> exists k, find_index t l = Some k.
Proof.
  induction l as [|u l IH]; simpl; [tauto|].
  destruct (tuple_eqb t u) eqn:E; [eauto|].
  apply tuple_eqb_neq in E. intros [H|H]; [congruence|].
  destruct (IH H) as [k ->]; simpl; eauto.
Qed.

Lemma find_index_notIn t l : ~ In t l -> find_index t l = None.
Proof.
  induction l as [|u l IH]; simpl; auto.
  intros H. destruct (tuple_eqb t u) eqn:E.
  - apply tuple_eqb_eq in E; subst. exfalso; auto.
  - rewrite IH; auto.
Qed.

Lemma find_index_nth l k t : NoDup l -> nth_error l k = Some t -> find_index t l = Some k.
Proof.
  revert k; induction l as [|u l IH]; intros k Hnd H; [destruct k; discriminate|].
  inversion Hnd; subst. destruct k as [|k]; simpl in *.
  - inversion H; subst. rewrite tuple_eqb_refl. reflexivity.
  - destruct (tuple_eqb t u) eqn:E.
    + apply tuple_eqb_eq in E; subst. exfalso. apply nth_error_In in H. contradiction.
    + rewrite (IH k); auto.
Qed.

Lemma var_index_Some I t k : var_index I t = Some k -> var_tuple I k = Some t.
Proof. apply find_index_Some. Qed.

Lemma var_tuple_Some I t k : var_tuple I k = Some t -> var_index I t = Some k.
Proof. apply find_index_nth. apply NoDup_vars. Qed.

Lemma var_index_lt I t k : var_index I t = Some k -> (k < length (vars I))%nat.
Proof. intros H. apply var_index_Some in H. apply nth_error_Some. unfold var_tuple in H. congruence. Qed.

Lemma var_index_In I t : In t (vars I) -> exists k, var_index I t = Some k.
Proof. apply find_index_In. Qed.

Lemma var_index_None I t : ~ In t (vars I) -> var_index I t = None.
Proof. apply find_index_notIn. Qed.

Lemma var_index_In_iff I t : (exists k, var_index I t = Some k) <-> In t (vars I).
Proof.
  split; [|apply var_index_In]. intros [k H]. apply var_index_Some in H.
  eapply nth_error_In; eauto.
Qed.

Lemma var_tuple_lt I k : (k < length (vars I))%nat -> exists t, var_tuple I k = Some t.
Proof.
  intros H. unfold var_tuple. destruct (nth_error (vars I) k) eqn:E; eauto.
  apply nth_error_None in E. lia.
Qed.

Lemma var_tuple_ge I k : (length (vars I) <= k)%nat -> var_tuple I k = None.
Proof. intros H. apply nth_error_None. exact H. Qed.

(* ================================================================== *)
(** * 3. fixed_values *)

Lemma assoc_t_In {B} t (l : list (tuple * B)) z : assoc_t t l = Some z -> In (t, z) l.
Proof.
  induction l as [|[u y] l IH]; simpl; [discriminate|].
  destruct (tuple_eqb t u) eqn:E.
  - apply tuple_eqb_eq in E; subst. intros H; inversion H; auto.
  - auto.
Qed.

Lemma assoc_t_some {B} t (l : list (tuple * B)) z : In (t, z) l -> exists z', assoc_t t l = Some z'.
Proof.
  induction l as [|[u y] l IH]; simpl; [tauto|].
  destruct (tuple_eqb t u) eqn:E; [eauto|].
  intros [H|H]; auto. inversion H; subst. rewrite tuple_eqb_refl in E. discriminate.
Qed.

Lemma in_fixed_items I v s n z :
  In ((v, s, n), z) (fixed_items I) <->
  (v < iV I)%nat /\ (s < iL I)%nat /\ (n < iN I)%nat /\ rule I s n = Some z.
Proof.
  unfold fixed_items. rewrite in_flat_map. split.
  - intros ([s' n'] & Hg & H). apply in_grid in Hg. cbn [fst snd] in H.
    destruct (rule I s' n') eqn:Er; [|destruct H].
    apply in_map_iff in H. destruct H as (v' & E & Hv). inversion E; subst.
    apply in_seq in Hv. repeat split; auto; lia.
  - intros (Hv & Hs & Hn & Hr). exists (s, n). split; [apply in_grid; auto|].
    cbn [fst snd]. rewrite Hr. apply in_map_iff. exists v. split; auto. apply in_seq; lia.
Qed.

Lemma fixed_Some I v s n z :
  fixed I (v, s, n) = Some z <->
  (v < iV I)%nat /\ (s < iL I)%nat /\ (n < iN I)%nat /\ rule I s n = Some z.
Proof.
  unfold fixed. split.
  - intros H. apply assoc_t_In in H. apply in_fixed_items. exact H.
  - intros H. pose proof H as H'. apply in_fixed_items in H.
    destruct (assoc_t_some _ _ _ H) as [z' E]. pose proof E as E'.
    apply assoc_t_In, in_fixed_items in E. destruct E as (_ & _ & _ & E), H' as (_ & _ & _ & H').
    congruence.
Qed.

Lemma fixed_None I v s n :
  fixed I (v, s, n) = None <-> ~ ((v < iV I)%nat /\ (s < iL I)%nat /\ (n < iN I)%nat) \/ rule I s n = None.
Proof.
  destruct (fixed I (v, s, n)) as [z|] eqn:E.
  - apply fixed_Some in E. split; [discriminate|]. intros [H|H]; [tauto|]. destruct E as (_ & _ & _ & E). congruence.
  - split; auto. intros _.
    destruct (rule I s n) as [z|] eqn:Er; auto. left. intros (Hv & Hs & Hn).
    assert (fixed I (v, s, n) = Some z) by (apply fixed_Some; auto). congruence.
Qed.

(* every tuple of V x L x N is either a variable or a key of fixed_values, never both *)
Lemma fixed_or_free I v s n :
  (v < iV I)%nat -> (s < iL I)%nat -> (n < iN I)%nat ->
  (exists k, var_index I (v, s, n) = Some k /\ fixed I (v, s, n) = None) \/
  (exists z, var_index I (v, s, n) = None /\ fixed I (v, s, n) = Some z).
Proof.
  intros Hv Hs Hn. destruct (rule I s n) as [z|] eqn:Er.
  - right. exists z. split; [|apply fixed_Some; auto].
    apply var_index_None. rewrite in_vars. intros (_ & _ & _ & H). congruence.
  - left. destruct (var_index_In I (v, s, n)) as [k Hk]; [apply in_vars; auto|].
    exists k. split; auto. apply fixed_None. auto.
Qed.

Lemma var_index_rule I v s n k : var_index I (v, s, n) = Some k ->
  (v < iV I)%nat /\ (s < iL I)%nat /\ (n < iN I)%nat /\ rule I s n = None.
Proof. intros H. apply in_vars. apply var_index_In_iff. eauto. Qed.

Lemma var_index_None_rule I v s n :
  (v < iV I)%nat -> (s < iL I)%nat -> (n < iN I)%nat ->
  var_index I (v, s, n) = None -> exists z, rule I s n = Some z /\ fixed_val I (v, s, n) = z.
Proof.
  intros Hv Hs Hn H. destruct (fixed_or_free I v s n Hv Hs Hn) as [(k & E & _)|(z & _ & E)]; [congruence|].
  exists z. split; [apply fixed_Some in E; tauto|]. unfold fixed_val. rewrite E. reflexivity.
Qed.

Lemma fixed_exact I v s n z :
  fixed I (v, s, n) = Some z <->
  (v < iV I)%nat /\ (s < iL I)%nat /\ (n < iN I)%nat /\ ~ free_pred I s n /\
  (z = 1 /\ one_pred I s n \/ z = 0 /\ ~ one_pred I s n).
Proof.
  rewrite fixed_Some. split.
  - intros (Hv & Hs & Hn & Hr). repeat split; auto.
    + rewrite <- rule_free. congruence.
    + apply rule_value; auto.
  - intros (Hv & Hs & Hn & Hf & Hz). repeat split; auto.
    destruct (rule I s n) as [z'|] eqn:Er; [|apply rule_free in Er; contradiction].
    apply rule_value in Er. f_equal. intuition lia.
Qed.

Lemma fixed_None_exact I v s n :
  fixed I (v, s, n) = None <->
  ~ ((v < iV I)%nat /\ (s < iL I)%nat /\ (n < iN I)%nat) \/ free_pred I s n.
Proof. rewrite fixed_None, rule_free. reflexivity. Qed.

(* the four inverse laws *)
Lemma inverse_laws I :
  (forall t, In t (vars I) -> exists k, var_index I t = Some k /\ var_tuple I k = Some t) /\
  (forall k, (k < length (vars I))%nat -> exists t, var_tuple I k = Some t /\ var_index I t = Some k) /\
  (forall t, ~ In t (vars I) -> var_index I t = None) /\
  (forall k, (length (vars I) <= k)%nat -> var_tuple I k = None).
Proof.
  repeat split.
  - intros t Ht. destruct (var_index_In I t Ht) as [k Hk]. exists k. split; auto. apply var_index_Some; auto.
  - intros k Hk. destruct (var_tuple_lt I k Hk) as [t Ht]. exists t. split; auto. apply var_tuple_Some; auto.
  - apply var_index_None.
  - apply var_tuple_ge.
Qed.

(* ================================================================== *)
(** * 4. Dense meaning of the COO containers *)

Definition nv (I : inst) : nat := length (vars I).

Lemma zdot_lsum n u v : zdot n u v = lsum (seq 0 n) (fun i => u i * v i).
Proof. unfold zdot, dot. apply zsum_lsum. Qed.

Lemma zmv_lsum n M x r : zmv n M x r = lsum (seq 0 n) (fun j => M r j * x j).
Proof. unfold zmv, mv. apply zsum_lsum. Qed.

Lemma zqf_lsum n M x :
  zqf n M x = lsum (seq 0 n) (fun i => lsum (seq 0 n) (fun j => M i j * x i * x j)).
Proof.
  unfold zqf, qf. fold zsum. rewrite zsum_lsum. apply lsum_ext. intros i _.
  fold zsum. apply zsum_lsum.
Qed.

Lemma lsum_seq_delta_mul n k c (x : nat -> Z) :
  (k < n)%nat -> lsum (seq 0 n) (fun i => (if Nat.eqb k i then c else 0) * x i) = c * x k.
Proof.
  intros Hk. rewrite <- (lsum_seq_delta n k (fun i => c * x i) Hk).
  apply lsum_ext. intros i _. destruct (Nat.eqb k i); lia.
Qed.

Lemma dot_dense1 n E x :
  (forall e, In e E -> (fst e < n)%nat) ->
  lsum (seq 0 n) (fun i => dense1 E i * x i) = lsum E (fun e => snd e * x (fst e)).
Proof.
  induction E as [|e E IH]; intros H.
  - simpl. apply lsum_zero. intros i _. reflexivity.
  - rewrite lsum_cons, <- IH by (intros; apply H; simpl; auto).
    rewrite <- (lsum_seq_delta_mul n (fst e) (snd e) x) by (apply H; simpl; auto).
    rewrite <- lsum_add. apply lsum_ext. intros i _. unfold dense1. rewrite lsum_cons. lia.
Qed.

Lemma qf_dense2 n E x :
  (forall e, In e E -> (fst (fst e) < n)%nat /\ (snd (fst e) < n)%nat) ->
  lsum (seq 0 n) (fun i => lsum (seq 0 n) (fun j => dense2 E i j * x i * x j)) =
  lsum E (fun e => snd e * x (fst (fst e)) * x (snd (fst e))).
Proof.
  induction E as [|e E IH]; intros H.
  - simpl. apply lsum_zero. intros i _. apply lsum_zero. intros j _. reflexivity.
  - rewrite lsum_cons, <- IH by (intros; apply H; simpl; auto).
    destruct (H e) as [Hr Hc]; [simpl; auto|].
    destruct e as [[r c] w]. cbn [fst snd] in *.
    assert (E1 : lsum (seq 0 n) (fun i => if Nat.eqb r i then w * x i * x c else 0) = w * x r * x c).
    { apply (lsum_seq_delta n r (fun i => w * x i * x c)); auto. }
    rewrite <- E1, <- lsum_add. apply lsum_ext. intros i _.
    assert (E2 : lsum (seq 0 n) (fun j => if Nat.eqb c j then w * x i * x j else 0) = w * x i * x c).
    { apply (lsum_seq_delta n c (fun j => w * x i * x j)); auto. }
    destruct (Nat.eqb r i) eqn:Eri.
    + rewrite <- E2, <- lsum_add. apply lsum_ext. intros j _.
      unfold dense2. rewrite lsum_cons. cbn [fst snd]. rewrite Eri. cbn [andb].
      destruct (Nat.eqb c j); lia.
    + rewrite Z.add_0_l. apply lsum_ext. intros j _.
      unfold dense2. rewrite lsum_cons. cbn [fst snd]. rewrite Eri. cbn [andb]. lia.
Qed.

(* ================================================================== *)
(** * 5. The full assignment and the linear constraints *)

(* value of every tuple: the variable's value, or the fixed value *)
Definition X (I : inst) (x : nat -> Z) (t : tuple) : Z :=
  match var_index I t with Some k => x k | None => fixed_val I t end.

Definition cust_row (I : inst) (ni : nat) : list tuple :=
  flat_map (fun si => map (fun vi => (vi, si, ni)) (seq 0 (iV I))) (seq 0 (iL I)).
Definition pos_row (I : inst) (s v : nat) : list tuple :=
  map (fun ni => (v, s, ni)) (seq 0 (iN I)).

Lemma row_lhs I x ts :
  zmv (nv I) (fun _ k => dense1 (row_entries I ts) k) x 0%nat =
  lsum ts (fun t => match var_index I t with Some k => x k | None => 0 end).
Proof.
  rewrite zmv_lsum, dot_dense1.
  - unfold row_entries. rewrite lsum_flat_map. apply lsum_ext. intros t _.
    destruct (var_index I t); rewrite ?lsum_cons, ?lsum_nil; cbn [fst snd]; lia.
  - intros e He. unfold row_entries in He. apply in_flat_map in He. destruct He as (t & _ & He).
    destruct (var_index I t) as [k|] eqn:E; [|destruct He]. destruct He as [<-|[]]. simpl.
    eapply var_index_lt; eauto.
Qed.

Lemma row_iff I x ts :
  zmv (nv I) (fun _ k => dense1 (row_entries I ts) k) x 0%nat = row_rhs I ts <-> lsum ts (X I x) = 1.
Proof.
  rewrite row_lhs. unfold row_rhs.
  assert (E : lsum ts (X I x) =
              lsum ts (fun t => match var_index I t with Some k => x k | None => 0 end) +
              lsum ts (fun t => match var_index I t with Some _ => 0 | None => fixed_val I t end)).
  { rewrite <- lsum_add. apply lsum_ext. intros t _. unfold X. destruct (var_index I t); lia. }
  rewrite E. lia.
Qed.

Lemma Amat_row_iff I x r :
  zmv (nv I) (Amat I) x r = bvec I r <-> lsum (nth r (rows I) []) (X I x) = 1.
Proof.
  rewrite <- row_iff. unfold bvec, Amat. rewrite !zmv_lsum. reflexivity.
Qed.

Lemma rows_Forall I (P : list tuple -> Prop) :
  Forall P (rows I) <->
  (forall ni, (1 <= ni)%nat -> (ni < iN I)%nat -> P (cust_row I ni)) /\
  (forall s v, (1 <= s)%nat -> (S s < iL I)%nat -> (v < iV I)%nat -> P (pos_row I s v)).
Proof.
  unfold rows. rewrite Forall_app, !Forall_forall. split.
  - intros [H1 H2]. split.
    + intros ni Ha Hb. apply H1. apply in_map_iff. exists ni. split; auto. apply in_seq. lia.
    + intros s v Ha Hb Hv. apply H2. apply in_flat_map. exists s. split; [apply in_seq; lia|].
      apply in_map_iff. exists v. split; auto. apply in_seq. lia.
  - intros [H1 H2]. split.
    + intros ts Hts. apply in_map_iff in Hts. destruct Hts as (ni & <- & Hni). apply in_seq in Hni.
      apply H1; lia.
    + intros ts Hts. apply in_flat_map in Hts. destruct Hts as (s & Hs & Hts).
      apply in_map_iff in Hts. destruct Hts as (v & <- & Hv). apply in_seq in Hs, Hv.
      apply H2; lia.
Qed.

Lemma lsum_cust_row I f ni :
  lsum (cust_row I ni) f = lsum (seq 0 (iL I)) (fun s => lsum (seq 0 (iV I)) (fun v => f (v, s, ni))).
Proof.
  unfold cust_row. rewrite lsum_flat_map. apply lsum_ext. intros s _. apply lsum_map.
Qed.

Lemma lsum_pos_row I f s v :
  lsum (pos_row I s v) f = lsum (seq 0 (iN I)) (fun n => f (v, s, n)).
Proof. unfold pos_row. apply lsum_map. Qed.

(* linear constraints in terms of the full assignment *)
Definition LC (I : inst) (x : nat -> Z) : Prop :=
  (forall ni, (1 <= ni)%nat -> (ni < iN I)%nat ->
     lsum (seq 0 (iL I)) (fun s => lsum (seq 0 (iV I)) (fun v => X I x (v, s, ni))) = 1) /\
  (forall s v, (1 <= s)%nat -> (S s < iL I)%nat -> (v < iV I)%nat ->
     lsum (seq 0 (iN I)) (fun n => X I x (v, s, n)) = 1).

Lemma lin_iff I x :
  (forall r, (r < num_rows I)%nat -> zmv (nv I) (Amat I) x r = bvec I r) <-> LC I x.
Proof.
  transitivity (Forall (fun ts => lsum ts (X I x) = 1) (rows I)).
  - unfold num_rows. split.
    + intros H. apply Forall_nth. intros i d Hi.
      rewrite (nth_indep _ d [] Hi). apply Amat_row_iff. auto.
    + intros H r Hr. apply Amat_row_iff. apply Forall_nth; auto.
  - rewrite rows_Forall. unfold LC.
    split; intros [H1 H2]; split; intros.
    + rewrite <- lsum_cust_row. auto.
    + rewrite <- lsum_pos_row. auto.
    + rewrite lsum_cust_row. auto.
    + rewrite lsum_pos_row. auto.
Qed.

(* ================================================================== *)
(** * 6. The quadratic constraints *)

Definition okl {T} (r : result (list T)) : list T := match r with Ok xs => xs | Err _ => [] end.

Lemma collect_Ok {T} (l : list (result (list T))) E :
  collect l = Ok E -> E = flat_map okl l /\ forall r, In r l -> exists xs, r = Ok xs.
Proof.
  revert E; induction l as [|r l IH]; simpl; intros E H.
  - inversion H; subst. split; [reflexivity | intros r []].
  - destruct r as [xs|err]; [|discriminate].
    destruct (collect l) as [ys|err] eqn:Ec; [|discriminate]. inversion H; subst; clear H.
    destruct (IH ys eq_refl) as [H1 H2]. split.
    + simpl. rewrite <- H1. reflexivity.
    + intros r [<-|Hr]; eauto.
Qed.

Lemma collect_all_ok {T} (l : list (result (list T))) :
  (forall r, In r l -> exists xs, r = Ok xs) -> exists E, collect l = Ok E.
Proof.
  induction l as [|r l IH]; intros H; simpl; [eauto|].
  destruct (H r) as [xs ->]; [simpl; auto|].
  destruct IH as [E ->]; [intros; apply H; simpl; auto|]. eauto.
Qed.

Lemma Rmat_nonneg E i j : 0 <= Rmat E i j.
Proof.
  unfold Rmat, dense2. apply lsum_nonneg. intros e He.
  apply in_map_iff in He. destruct He as (p & <- & _). cbn [fst snd].
  destruct (_ && _); lia.
Qed.

(* the situations in which quadratic_constraint_logic is called *)
Definition call_cond (I : inst) (c : nat * nat * nat * nat) : Prop :=
  match c with
  | (v, s, ni, nj) =>
      (v < iV I)%nat /\ (S s < iL I)%nat /\ (ni < iN I)%nat /\ (nj < iN I)%nat /\
      (~ is_arc I ni nj \/ (ni = 0%nat /\ (1 <= s)%nat /\ (1 <= nj)%nat /\ is_arc I 0 nj))
  end.

Lemma in_forbidden I v s ni nj :
  In (v, s, ni, nj) (forbidden_calls I) <->
  (v < iV I)%nat /\ (S s < iL I)%nat /\ (ni < iN I)%nat /\ (nj < iN I)%nat /\ ~ is_arc I ni nj.
Proof.
  unfold forbidden_calls. rewrite in_flat_map. split.
  - intros ([a b] & Hp & H). apply in_flat_map in Hp. destruct Hp as (a' & Ha & Hb).
    apply in_map_iff in Hb. destruct Hb as (b' & E & Hb). inversion E; subst a' b'; clear E.
    apply in_seq in Ha, Hb.
    destruct (check_arc_spec I a b) as [Harc|Harc]; [destruct H|].
    apply in_flat_map in H. destruct H as (s' & Hs & H). apply in_map_iff in H.
    destruct H as (v' & E & Hv). cbn [fst snd] in E. inversion E; subst. apply in_seq in Hs, Hv.
    repeat split; auto; lia.
  - intros (Hv & Hs & Hni & Hnj & Harc). exists (ni, nj). split.
    + apply in_flat_map. exists ni. split; [apply in_seq; lia|]. apply in_map_iff. exists nj.
      split; auto. apply in_seq; lia.
    + destruct (check_arc_spec I ni nj); [contradiction|].
      apply in_flat_map. exists s. split; [apply in_seq; lia|]. apply in_map_iff. exists v.
      split; auto. apply in_seq; lia.
Qed.

Lemma in_absorb I v s ni nj :
  In (v, s, ni, nj) (absorb_calls I) <->
  (v < iV I)%nat /\ (1 <= s)%nat /\ (S s < iL I)%nat /\ ni = 0%nat /\ (1 <= nj)%nat /\ (nj < iN I)%nat /\
  is_arc I 0 nj.
Proof.
  unfold absorb_calls. rewrite in_flat_map. split.
  - intros (v' & Hv & H). apply in_flat_map in H. destruct H as (s' & Hs & H).
    apply in_flat_map in H. destruct H as (n' & Hn & H). apply in_seq in Hv, Hs, Hn.
    destruct (check_arc_spec I 0 n') as [Harc|Harc]; [|destruct H].
    destruct H as [E|[]]. inversion E; subst. repeat split; auto; lia.
  - intros (Hv & Hs1 & Hs & -> & Hn1 & Hn & Harc). exists v. split; [apply in_seq; lia|].
    apply in_flat_map. exists s. split; [apply in_seq; lia|].
    apply in_flat_map. exists nj. split; [apply in_seq; lia|].
    destruct (check_arc_spec I 0 nj); [simpl; auto | contradiction].
Qed.

Lemma in_Rcalls I c : In c (Rcalls I) <-> call_cond I c.
Proof.
  destruct c as [[[v s] ni] nj]. unfold Rcalls, call_cond.
  rewrite in_app_iff, in_forbidden, in_absorb. split.
  - intros [(Hv & Hs & Hni & Hnj & Ha) | (Hv & Hs1 & Hs & -> & Hn1 & Hn & Ha)];
      repeat split; auto; try lia; try (right; repeat split; auto; lia).
  - intros (Hv & Hs & Hni & Hnj & [Ha | (-> & Hs1 & Hn1 & Ha)]); [left | right]; repeat split; auto.
Qed.

Lemma rule_binary I s n z : rule I s n = Some z -> z = 0 \/ z = 1.
Proof. intros H. apply rule_value in H. tauto. Qed.

(* whenever one side of a constrained pair is fixed to 1, the other side is fixed to 0 *)
Lemma rule_one_left I s ni nj :
  (S s < iL I)%nat -> rule I s ni = Some 1 ->
  (~ is_arc I ni nj \/ (ni = 0%nat /\ (1 <= s)%nat /\ (1 <= nj)%nat /\ is_arc I 0 nj)) ->
  rule I (S s) nj = Some 0.
Proof.
  intros Hs H Hc. apply rule_value in H. destruct H as [[_ (Hn & Hp)] | [H _]]; [|lia].
  assert (s = 0%nat) by (destruct Hp as [Hp|[Hp _]]; lia). subst s ni.
  destruct Hc as [Hc | (_ & Hc & _)]; [|lia].
  unfold rule. cbn [Nat.eqb andb negb]. destruct (check_arc_spec I 0 nj); [contradiction|reflexivity].
Qed.

Lemma rule_one_right I s ni nj :
  rule I (S s) nj = Some 1 ->
  (~ is_arc I ni nj \/ (ni = 0%nat /\ (1 <= s)%nat /\ (1 <= nj)%nat /\ is_arc I 0 nj)) ->
  rule I s ni = Some 0.
Proof.
  intros H Hc. apply rule_value in H. destruct H as [[_ (Hn & Hp)] | [H _]]; [|lia].
  destruct Hp as [Hp | (HL & Ha)]; [lia|]. subst nj.
  destruct Hc as [Hna | (_ & _ & Hc & _)]; [|lia].
  rule_cases I s ni;
    first [ reflexivity
          | exfalso; first [ lia | contradiction | (apply Hna; rewrite En0; apply Ha; lia) ] ].
Qed.

Lemma qlogic_ok I c : call_cond I c -> exists xs, qlogic I c = Ok xs.
Proof.
  destruct c as [[[v s] ni] nj]. intros (Hv & Hs & Hni & Hnj & Hc). unfold qlogic.
  destruct (var_index I (v, s, ni)) as [k1|] eqn:E1; destruct (var_index I (v, S s, nj)) as [k2|] eqn:E2.
  - eauto.
  - destruct (var_index_None_rule I v (S s) nj Hv Hs Hnj E2) as (z2 & Hr2 & ->).
    destruct (rule_binary _ _ _ _ Hr2) as [->| ->]; [simpl; eauto|].
    apply var_index_rule in E1. rewrite (rule_one_right I s ni nj Hr2 Hc) in E1.
    destruct E1 as (_ & _ & _ & E1). discriminate.
  - destruct (var_index_None_rule I v s ni Hv ltac:(lia) Hni E1) as (z1 & Hr1 & ->).
    destruct (rule_binary _ _ _ _ Hr1) as [->| ->]; [simpl; eauto|].
    apply var_index_rule in E2. rewrite (rule_one_left I s ni nj Hs Hr1 Hc) in E2.
    destruct E2 as (_ & _ & _ & E2). discriminate.
  - destruct (var_index_None_rule I v s ni Hv ltac:(lia) Hni E1) as (z1 & Hr1 & ->).
    destruct (var_index_None_rule I v (S s) nj Hv Hs Hnj E2) as (z2 & Hr2 & ->).
    destruct (rule_binary _ _ _ _ Hr1) as [->| ->]; [simpl; eauto|].
    rewrite (rule_one_left I s ni nj Hs Hr1 Hc) in Hr2. inversion Hr2; subst. simpl; eauto.
Qed.

(* the asserts of quadratic_constraint_logic never fire, on any instance *)
Lemma R_ok I : exists E, R_entries I = Ok E.
Proof.
  unfold R_entries. apply collect_all_ok. intros r Hr. apply in_map_iff in Hr.
  destruct Hr as (c & <- & Hc). apply qlogic_ok. apply in_Rcalls. exact Hc.
Qed.

Definition Xprod (I : inst) (x : nat -> Z) (c : nat * nat * nat * nat) : Z :=
  match c with (v, s, ni, nj) => X I x (v, s, ni) * X I x (v, S s, nj) end.

Lemma qlogic_X I x c xs :
  qlogic I c = Ok xs -> lsum xs (fun p => x (fst p) * x (snd p)) = Xprod I x c.
Proof.
  destruct c as [[[v s] ni] nj]. unfold qlogic, Xprod, X.
  destruct (var_index I (v, s, ni)) as [k1|]; destruct (var_index I (v, S s, nj)) as [k2|].
  - intros H; inversion H; subst. rewrite lsum_cons, lsum_nil. cbn [fst snd]. lia.
  - destruct (Z.eqb_spec (fixed_val I (v, S s, nj)) 0) as [->|]; intros H; inversion H; subst.
    rewrite lsum_nil. lia.
  - destruct (Z.eqb_spec (fixed_val I (v, s, ni)) 0) as [->|]; intros H; inversion H; subst.
    rewrite lsum_nil. lia.
  - destruct (Z.eqb_spec (fixed_val I (v, s, ni) * fixed_val I (v, S s, nj)) 0) as [->|];
      intros H; inversion H; subst. rewrite lsum_nil. lia.
Qed.

Lemma qlogic_lt I c xs p : qlogic I c = Ok xs -> In p xs -> (fst p < nv I)%nat /\ (snd p < nv I)%nat.
Proof.
  destruct c as [[[v s] ni] nj]. unfold qlogic.
  destruct (var_index I (v, s, ni)) as [k1|] eqn:E1; destruct (var_index I (v, S s, nj)) as [k2|] eqn:E2.
  - intros H; inversion H; subst. intros [<-|[]]. cbn [fst snd].
    split; eapply var_index_lt; eauto.
  - destruct (_ =? 0); intros H; inversion H; subst. intros [].
  - destruct (_ =? 0); intros H; inversion H; subst. intros [].
  - destruct (_ =? 0); intros H; inversion H; subst. intros [].
Qed.

Lemma Rqf I E x :
  R_entries I = Ok E -> zqf (nv I) (Rmat E) x = lsum (Rcalls I) (Xprod I x).
Proof.
  intros HE. apply collect_Ok in HE. destruct HE as [-> Hall].
  rewrite zqf_lsum. unfold Rmat. rewrite qf_dense2.
  - rewrite lsum_map. cbn [fst snd]. rewrite lsum_flat_map, lsum_map.
    apply lsum_ext. intros c Hc.
    destruct (Hall (qlogic I c)) as [xs Hxs]; [apply in_map; exact Hc|].
    rewrite Hxs. cbn [okl]. rewrite <- (qlogic_X I x c xs Hxs).
    apply lsum_ext. intros p _. lia.
  - intros e He. apply in_map_iff in He. destruct He as (p & <- & Hp). cbn [fst snd].
    apply in_flat_map in Hp. destruct Hp as (r & Hr & Hp). apply in_map_iff in Hr.
    destruct Hr as (c & <- & Hc). destruct (Hall (qlogic I c)) as [xs Hxs]; [apply in_map; exact Hc|].
    rewrite Hxs in Hp. eapply qlogic_lt; eauto.
Qed.

Lemma X_binary I x v s n :
  zbinary (nv I) x -> (v < iV I)%nat -> (s < iL I)%nat -> (n < iN I)%nat ->
  X I x (v, s, n) = 0 \/ X I x (v, s, n) = 1.
Proof.
  intros Hb Hv Hs Hn. unfold X. destruct (var_index I (v, s, n)) as [k|] eqn:E.
  - apply Hb. eapply var_index_lt; eauto.
  - destruct (var_index_None_rule I v s n Hv Hs Hn E) as (z & Hr & ->). eapply rule_binary; eauto.
Qed.

(* quadratic constraint in terms of the full assignment *)
Definition QC (I : inst) (x : nat -> Z) : Prop :=
  forall c, call_cond I c -> Xprod I x c = 0.

Lemma quad_iff I E x :
  R_entries I = Ok E -> zbinary (nv I) x -> (zqf (nv I) (Rmat E) x = 0 <-> QC I x).
Proof.
  intros HE Hb. rewrite (Rqf I E x HE). unfold QC. split.
  - intros H c Hc. apply (lsum_zero_inv (Rcalls I) (Xprod I x)); auto; [|apply in_Rcalls; auto].
    intros [[[v s] ni] nj] Hin. apply in_Rcalls in Hin. destruct Hin as (Hv & Hs & Hni & Hnj & _).
    unfold Xprod.
    destruct (X_binary I x v s ni Hb Hv ltac:(lia) Hni) as [-> | ->];
      destruct (X_binary I x v (S s) nj Hb Hv Hs Hnj) as [-> | ->]; lia.
  - intros H. apply lsum_zero. intros c Hc. apply H. apply in_Rcalls. exact Hc.
Qed.

(* ================================================================== *)
(** * 7. Walk assignments and the full assignment *)

(* hypotheses of C07 on the instance: arc keys are distinct (a dict), the depot self-arc exists
   (depot set through the class), there is a depot *)
Definition seq_ok (I : inst) : Prop :=
  NoDup (map fst (arcs (ig I))) /\ is_arc I 0 0 /\ (1 <= iN I)%nat.

Definition ind (W : nat -> nat -> nat) (t : tuple) : Z :=
  match t with (v, s, n) => if Nat.eqb (W v s) n then 1 else 0 end.

Lemma wa_is_arc I W v s :
  walk_assignment I W -> (v < iV I)%nat -> (S s < iL I)%nat -> is_arc I (W v s) (W v (S s)).
Proof. intros HW Hv Hs. apply check_arc_iff. apply (wa_arc I W HW); auto. Qed.

Lemma X_ind I W x :
  walk_assignment I W -> (forall k, (k < nv I)%nat -> x k = indicator_free I W k) ->
  forall v s n, (v < iV I)%nat -> (s < iL I)%nat -> X I x (v, s, n) = ind W (v, s, n).
Proof.
  intros HW Hx v s n Hv Hs. unfold X, ind.
  destruct (var_index I (v, s, n)) as [k|] eqn:E.
  - rewrite Hx by (eapply var_index_lt; eauto). unfold indicator_free.
    rewrite (var_index_Some _ _ _ E). reflexivity.
  - destruct (lt_dec n (iN I)) as [Hn|Hn].
    + destruct (var_index_None_rule I v s n Hv Hs Hn E) as (z & Hr & ->).
      assert (H0 : s = 0%nat -> W v s = 0%nat) by (intros ->; apply (wa_start I W HW); auto).
      assert (HL : S s = iL I -> W v s = 0%nat).
      { intros HsL. replace s with (iL I - 1)%nat by lia. apply (wa_end I W HW); auto. }
      assert (H1 : s = 1%nat -> is_arc I 0 (W v s)).
      { intros Es. pose proof (wa_is_arc I W v 0 HW Hv ltac:(lia)) as Ha.
        rewrite (wa_start I W HW v Hv) in Ha. rewrite Es. exact Ha. }
      assert (H2 : S (S s) = iL I -> is_arc I (W v s) 0).
      { intros HsL. pose proof (wa_is_arc I W v s HW Hv ltac:(lia)) as Ha.
        assert (E2 : W v (S s) = 0%nat).
        { replace (S s) with (iL I - 1)%nat by lia. apply (wa_end I W HW); auto. }
        rewrite E2 in Ha. exact Ha. }
      revert Hr. rule_cases I s n; intros Hr; inversion Hr; subst z; clear Hr;
        destruct (Nat.eqb_spec (W v s) n) as [Ew|Ew];
        first [ reflexivity
              | exfalso;
                first [ lia
                      | apply Ew; rewrite En0; first [apply H0 | apply HL]; assumption
                      | apply En0; rewrite <- Ew; first [apply H0 | apply HL]; assumption
                      | apply Ea0n; rewrite <- Ew; apply H1; assumption
                      | apply Ean0; rewrite <- Ew; apply H2; assumption ] ].
    + unfold fixed_val.
      assert (Ef : fixed I (v, s, n) = None) by (apply fixed_None; left; lia).
      rewrite Ef. pose proof (wa_node I W HW v s Hv Hs).
      destruct (Nat.eqb_spec (W v s) n); [lia | reflexivity].
Qed.

(* (<-) of C07_iff *)
Lemma walk_feasible I W x :
  walk_assignment I W -> (forall k, (k < nv I)%nat -> x k = indicator_free I W k) ->
  LC I x /\ QC I x.
Proof.
  intros HW Hx. pose proof (X_ind I W x HW Hx) as HX. split; [split|].
  - intros ni H1 HN.
    rewrite lsum_swap. rewrite <- (wa_once I W HW ni H1 HN). unfold hits.
    rewrite zsum_lsum. apply lsum_ext. intros v Hv. apply in_seq in Hv.
    rewrite zsum_lsum. apply lsum_ext. intros s Hs. apply in_seq in Hs.
    rewrite HX by lia. reflexivity.
  - intros s v H1 HL Hv.
    rewrite <- (lsum_seq_delta (iN I) (W v s) (fun _ => 1)) by (apply (wa_node I W HW); auto; lia).
    apply lsum_ext. intros n _. rewrite HX by lia. reflexivity.
  - intros [[[v s] ni] nj] (Hv & Hs & Hni & Hnj & Hc). unfold Xprod.
    rewrite !HX by lia. unfold ind.
    destruct (Nat.eqb_spec (W v s) ni) as [E1|E1]; [|lia].
    destruct (Nat.eqb_spec (W v (S s)) nj) as [E2|E2]; [|lia].
    exfalso. destruct Hc as [Hc | (Hn0 & Hs1 & Hnj1 & _)].
    + apply Hc. rewrite <- E1, <- E2. apply wa_is_arc; auto.
    + assert (W v (S s) = 0%nat) by (apply (wa_absorb I W HW); auto; lia). lia.
Qed.

(* (->) of C07_iff: the walk read off a feasible assignment *)
Definition Wx (I : inst) (x : nat -> Z) (v s : nat) : nat :=
  match find (fun n => X I x (v, s, n) =? 1) (seq 0 (iN I)) with Some n => n | None => O end.

Lemma find_split {T} (p : T -> bool) l1 a l2 :
  (forall b, In b l1 -> p b = false) -> p a = true -> find p (l1 ++ a :: l2) = Some a.
Proof.
  induction l1 as [|b l1 IH]; intros H Ha; simpl.
  - rewrite Ha. reflexivity.
  - rewrite (H b) by (simpl; auto). apply IH; auto. intros; apply H; simpl; auto.
Qed.

Lemma Wx_spec I x v s :
  (forall n, (n < iN I)%nat -> X I x (v, s, n) = 0 \/ X I x (v, s, n) = 1) ->
  lsum (seq 0 (iN I)) (fun n => X I x (v, s, n)) = 1 ->
  (Wx I x v s < iN I)%nat /\
  forall n, (n < iN I)%nat -> X I x (v, s, n) = if Nat.eqb (Wx I x v s) n then 1 else 0.
Proof.
  intros Hb Hs.
  destruct (lsum_binary_one (seq 0 (iN I)) (fun n => X I x (v, s, n))) as (l1 & a0 & l2 & El & Ha & H1 & H2); auto.
  { intros n Hn. apply in_seq in Hn. apply Hb. lia. }
  assert (EW : Wx I x v s = a0).
  { unfold Wx. rewrite El, (find_split _ l1 a0 l2); auto.
    - intros n Hn. rewrite (H1 n Hn). reflexivity.
    - rewrite Ha. reflexivity. }
  rewrite EW.
  assert (Hnd : NoDup (l1 ++ a0 :: l2)) by (rewrite <- El; apply seq_NoDup).
  split.
  - assert (In a0 (seq 0 (iN I))) by (rewrite El; apply in_app_iff; simpl; auto).
    apply in_seq in H. lia.
  - intros n Hn. assert (Hin : In n (seq 0 (iN I))) by (apply in_seq; lia).
    rewrite El in Hin. apply in_app_iff in Hin.
    apply NoDup_remove_2 in Hnd.
    destruct (Nat.eqb_spec a0 n) as [<-|Hne]; auto.
    destruct Hin as [Hin|[Hin|Hin]]; auto; congruence.
Qed.

Lemma X_first I x v n : (v < iV I)%nat -> (0 < iL I)%nat -> (n < iN I)%nat ->
  X I x (v, 0%nat, n) = if Nat.eqb 0 n then 1 else 0.
Proof.
  intros Hv HL Hn. unfold X.
  assert (Hr : rule I 0 n = Some (if Nat.eqb 0 n then 1 else 0)).
  { unfold rule. destruct n; reflexivity. }
  assert (E : var_index I (v, 0%nat, n) = None).
  { apply var_index_None. rewrite in_vars. intros (_ & _ & _ & H). congruence. }
  rewrite E. destruct (var_index_None_rule I v 0 n Hv HL Hn E) as (z & Hz & ->). congruence.
Qed.

Lemma X_last I x v n : (v < iV I)%nat -> (3 <= iL I)%nat -> (n < iN I)%nat ->
  X I x (v, (iL I - 1)%nat, n) = if Nat.eqb 0 n then 1 else 0.
Proof.
  intros Hv HL Hn. unfold X.
  assert (Hr : rule I (iL I - 1) n = Some (if Nat.eqb 0 n then 1 else 0)).
  { unfold rule.
    destruct (Nat.eqb_spec (iL I - 1) 0); [lia|]. destruct (Nat.eqb_spec (iL I - 1) 1); [lia|].
    destruct (Nat.eqb_spec (S (iL I - 1)) (iL I)); [|lia]. cbn [andb].
    destruct n; reflexivity. }
  assert (E : var_index I (v, (iL I - 1)%nat, n) = None).
  { apply var_index_None. rewrite in_vars. intros (_ & _ & _ & H). congruence. }
  rewrite E. destruct (var_index_None_rule I v (iL I - 1) n Hv ltac:(lia) Hn E) as (z & Hz & ->). congruence.
Qed.

Lemma feasible_walk I x :
  (1 <= iN I)%nat -> (3 <= iL I)%nat -> zbinary (nv I) x -> LC I x -> QC I x ->
  walk_assignment I (Wx I x) /\ forall k, (k < nv I)%nat -> x k = indicator_free I (Wx I x) k.
Proof.
  intros HN HL Hb [LC1 LC2] HQ.
  assert (Hpos : forall v s, (v < iV I)%nat -> (s < iL I)%nat ->
                             lsum (seq 0 (iN I)) (fun n => X I x (v, s, n)) = 1).
  { intros v s Hv Hs.
    destruct (Nat.eq_dec s 0) as [->|Hs0].
    - rewrite <- (lsum_seq_delta (iN I) 0 (fun _ => 1)) by lia.
      apply lsum_ext. intros n Hn. apply in_seq in Hn. apply X_first; lia.
    - destruct (Nat.eq_dec (S s) (iL I)) as [HsL|HsL].
      + replace s with (iL I - 1)%nat by lia.
        rewrite <- (lsum_seq_delta (iN I) 0 (fun _ => 1)) by lia.
        apply lsum_ext. intros n Hn. apply in_seq in Hn. apply X_last; lia.
      + apply LC2; lia. }
  assert (HW : forall v s, (v < iV I)%nat -> (s < iL I)%nat ->
             (Wx I x v s < iN I)%nat /\
             forall n, (n < iN I)%nat -> X I x (v, s, n) = if Nat.eqb (Wx I x v s) n then 1 else 0).
  { intros v s Hv Hs. apply Wx_spec; auto. intros n Hn. apply X_binary; auto. }
  assert (HX1 : forall v s, (v < iV I)%nat -> (s < iL I)%nat -> X I x (v, s, Wx I x v s) = 1).
  { intros v s Hv Hs. destruct (HW v s Hv Hs) as [H1 H2]. rewrite H2 by auto.
    rewrite Nat.eqb_refl. reflexivity. }
  assert (Harc : forall v s, (v < iV I)%nat -> (S s < iL I)%nat ->
                             is_arc I (Wx I x v s) (Wx I x v (S s))).
  { intros v s Hv Hs.
    destruct (check_arc_spec I (Wx I x v s) (Wx I x v (S s))) as [Ha|Ha]; auto. exfalso.
    assert (Hc : call_cond I (v, s, Wx I x v s, Wx I x v (S s))).
    { repeat split; auto; try (apply HW; auto; lia). }
    apply HQ in Hc. unfold Xprod in Hc. rewrite !HX1 in Hc by (auto; lia). lia. }
  split; [constructor|].
  - intros v s Hv Hs. apply HW; auto.
  - intros v Hv. destruct (HW v 0%nat Hv ltac:(lia)) as [H1 H2].
    specialize (H2 0%nat ltac:(lia)). rewrite X_first in H2 by lia.
    destruct (Nat.eqb_spec (Wx I x v 0) 0); auto. simpl in H2. lia.
  - intros v Hv. destruct (HW v (iL I - 1)%nat Hv ltac:(lia)) as [H1 H2].
    specialize (H2 0%nat ltac:(lia)). rewrite X_last in H2 by lia.
    destruct (Nat.eqb_spec (Wx I x v (iL I - 1)) 0); auto. simpl in H2. lia.
  - intros v s Hv Hs. apply check_arc_iff. apply Harc; auto.
  - intros v s Hv Hs1 Hs Hw0.
    destruct (Nat.eq_dec (Wx I x v (S s)) 0) as [|Hne]; auto. exfalso.
    assert (Hc : call_cond I (v, s, 0%nat, Wx I x v (S s))).
    { repeat split; auto; try lia; try (apply HW; auto; lia).
      right. repeat split; auto; try lia. rewrite <- Hw0. apply Harc; auto. }
    apply HQ in Hc. unfold Xprod in Hc. rewrite <- Hw0 in Hc at 1.
    rewrite !HX1 in Hc by (auto; lia). lia.
  - intros n Hn1 HnN. unfold hits. etransitivity; [|apply (LC1 n Hn1 HnN)].
    rewrite lsum_swap. rewrite zsum_lsum. apply lsum_ext. intros v Hv. apply in_seq in Hv.
    rewrite zsum_lsum. apply lsum_ext. intros s Hs. apply in_seq in Hs.
    destruct (HW v s ltac:(lia) ltac:(lia)) as [_ H2]. rewrite H2 by auto. reflexivity.
  - intros k Hk. destruct (var_tuple_lt I k Hk) as [[[v s] n] Ht].
    unfold indicator_free. rewrite Ht.
    pose proof (var_tuple_Some _ _ _ Ht) as Hi. pose proof (var_index_rule _ _ _ _ _ Hi) as (Hv & Hs & Hn & _).
    destruct (HW v s Hv Hs) as [_ H2]. rewrite <- H2 by auto. unfold X. rewrite Hi. reflexivity.
Qed.

(* C07_iff *)
Theorem seq_iff I x :
  (1 <= iN I)%nat -> (3 <= iL I)%nat -> zbinary (nv I) x ->
  exists E, R_entries I = Ok E /\
    (((forall r, (r < num_rows I)%nat -> zmv (nv I) (Amat I) x r = bvec I r) /\
      zqf (nv I) (Rmat E) x = 0)
     <-> exists W, walk_assignment I W /\ forall k, (k < nv I)%nat -> x k = indicator_free I W k).
Proof.
  intros HN HL Hb. destruct (R_ok I) as [E HE]. exists E. split; auto.
  rewrite lin_iff, (quad_iff I E x HE Hb). split.
  - intros [H1 H2]. exists (Wx I x). apply feasible_walk; auto.
  - intros (W & HW & Hx). apply (walk_feasible I W x); auto.
Qed.

(* ================================================================== *)
(** * 8. The objective *)

Lemma dict_lsum_pick {U} (d : dict U) k a (g : U -> Z) :
  NoDup (map fst d) -> dict_get k d = Some a ->
  lsum d (fun kv => if natpair_eqb k (fst kv) then g (snd kv) else 0) = g a.
Proof.
  induction d as [|[k' v'] d IH]; simpl dict_get; [discriminate|].
  intros Hnd. inversion Hnd as [|? ? Hnin Hnd']; subst. rewrite lsum_cons. cbn [fst snd].
  destruct (natpair_eqb k k') eqn:E.
  - intros H; inversion H; subst. rewrite lsum_zero; [lia|].
    intros [k2 v2] Hin. cbn [fst snd]. destruct (natpair_eqb k k2) eqn:E2; auto.
    apply natpair_eqb_eq in E, E2. subst. exfalso. apply Hnin.
    apply in_map_iff. exists (k2, v2). auto.
  - intros H. rewrite IH by assumption. lia.
Qed.

Lemma in_obj_calls I v s kv :
  In (v, s, kv) (obj_calls I) <-> (v < iV I)%nat /\ (S s < iL I)%nat /\ In kv (arcs (ig I)).
Proof.
  unfold obj_calls. rewrite in_flat_map. split.
  - intros (v' & Hv & H). apply in_flat_map in H. destruct H as (s' & Hs & H).
    apply in_map_iff in H. destruct H as (kv' & E & Hkv). inversion E; subst.
    apply in_seq in Hv, Hs. repeat split; auto; lia.
  - intros (Hv & Hs & Hkv). exists v. split; [apply in_seq; lia|].
    apply in_flat_map. exists s. split; [apply in_seq; lia|]. apply in_map_iff. exists kv. auto.
Qed.

(* two consecutive tuples are never both fixed to one, unless L = 2 *)
Lemma fixed_pair_zero I v s ni nj :
  iL I <> 2%nat -> (v < iV I)%nat -> (S s < iL I)%nat ->
  var_index I (v, s, ni) = None -> var_index I (v, S s, nj) = None ->
  fixed_val I (v, s, ni) * fixed_val I (v, S s, nj) = 0.
Proof.
  intros HL Hv Hs E1 E2.
  destruct (lt_dec ni (iN I)) as [Hni|Hni].
  2:{ unfold fixed_val at 1. assert (Ef : fixed I (v, s, ni) = None) by (apply fixed_None; left; lia).
      rewrite Ef. lia. }
  destruct (lt_dec nj (iN I)) as [Hnj|Hnj].
  2:{ unfold fixed_val at 2. assert (Ef : fixed I (v, S s, nj) = None) by (apply fixed_None; left; lia).
      rewrite Ef. lia. }
  destruct (var_index_None_rule I v s ni Hv ltac:(lia) Hni E1) as (z1 & Hr1 & ->).
  destruct (var_index_None_rule I v (S s) nj Hv Hs Hnj E2) as (z2 & Hr2 & ->).
  apply rule_value in Hr1, Hr2.
  destruct Hr1 as [[-> (_ & Hp1)] | [-> _]]; [|lia].
  destruct Hr2 as [[-> (_ & Hp2)] | [-> _]]; [|lia].
  exfalso. destruct Hp1 as [Hp1 | [Hp1 _]]; [|lia]. destruct Hp2 as [Hp2 | [Hp2 _]]; lia.
Qed.

Definition obj_term (I : inst) (x : nat -> Z) (c : nat * nat * ((nat * nat) * arc)) : Z :=
  match c with
  | (v, s, ((ni, nj), a)) => (acost a + vcost I v) * (X I x (v, s, ni) * X I x (v, S s, nj))
  end.

Lemma obj_value I x :
  iL I <> 2%nat ->
  zdot (nv I) (cvec I) x + zqf (nv I) (Qo I) x = lsum (obj_calls I) (obj_term I x).
Proof.
  intros HL. rewrite zdot_lsum, zqf_lsum. unfold cvec, Qo. rewrite dot_dense1, qf_dense2.
  - unfold c_entries, q_entries. rewrite !lsum_flat_map, <- lsum_add.
    apply lsum_ext. intros [[v s] [[ni nj] a]] Hc. apply in_obj_calls in Hc. destruct Hc as (Hv & Hs & _).
    unfold obj_term, X, obj_coeff.
    destruct (var_index I (v, s, ni)) as [k1|] eqn:E1; destruct (var_index I (v, S s, nj)) as [k2|] eqn:E2;
      rewrite ?lsum_cons, ?lsum_nil; cbn [fst snd]; try ring.
    rewrite (fixed_pair_zero I v s ni nj HL Hv Hs E1 E2). ring.
  - intros e He. unfold q_entries in He. apply in_flat_map in He.
    destruct He as ([[v s] [[ni nj] a]] & _ & He).
    destruct (var_index I (v, s, ni)) as [k1|] eqn:E1; destruct (var_index I (v, S s, nj)) as [k2|] eqn:E2;
      cbn [In] in He; try contradiction. destruct He as [<-|[]]. cbn [fst snd]. split; eapply var_index_lt; eauto.
  - intros e He. unfold c_entries in He. apply in_flat_map in He.
    destruct He as ([[v s] [[ni nj] a]] & _ & He).
    destruct (var_index I (v, s, ni)) as [k1|] eqn:E1; destruct (var_index I (v, S s, nj)) as [k2|] eqn:E2;
      cbn [In] in He; try contradiction; destruct He as [<-|[]]; cbn [fst snd]; eapply var_index_lt; eauto.
Qed.

Theorem seq_objective I W x :
  seq_ok I -> (3 <= iL I)%nat -> walk_assignment I W ->
  (forall k, (k < nv I)%nat -> x k = indicator_free I W k) ->
  zdot (nv I) (cvec I) x + zqf (nv I) (Qo I) x =
  zsum (iV I) (fun v => zsum (iL I - 1) (fun s => cost I (W v s, W v (S s)) + vcost I v)).
Proof.
  intros (Hnd & _ & _) HL HW Hx. rewrite obj_value by lia.
  unfold obj_calls. rewrite lsum_flat_map, zsum_lsum. apply lsum_ext. intros v Hv. apply in_seq in Hv.
  rewrite lsum_flat_map, zsum_lsum. apply lsum_ext. intros s Hs. apply in_seq in Hs.
  rewrite lsum_map.
  pose proof (wa_is_arc I W v s HW ltac:(lia) ltac:(lia)) as Ha.
  apply check_arc_iff in Ha. unfold check_arc, dict_mem in Ha.
  destruct (dict_get (W v s, W v (S s)) (arcs (ig I))) as [a0|] eqn:Eg; [|discriminate].
  unfold cost. rewrite Eg.
  rewrite <- (dict_lsum_pick (arcs (ig I)) (W v s, W v (S s)) a0 (fun a => acost a + vcost I v) Hnd Eg).
  apply lsum_ext. intros [[ni nj] a] _. unfold obj_term. cbn [fst snd].
  rewrite !(X_ind I W x HW Hx) by lia. unfold ind, natpair_eqb. cbn [fst snd].
  destruct (Nat.eqb (W v s) ni); destruct (Nat.eqb (W v (S s)) nj); cbn [andb]; ring.
Qed.

(* ================================================================== *)
(** * 9. Instances reached through the API satisfy the hypotheses *)

Lemma nv_num I : nv I = num_variables I.
Proof. unfold nv. symmetry. apply num_variables_length. Qed.

(* the graph is well formed (C15 invariant) and has the depot self-arc *)
Definition depot_set (g : graph) : Prop := Inv g /\ In (0%nat, 0%nat) (map fst (arcs g)).

Lemma depot_set_seq_ok g V L vc : depot_set g -> seq_ok (mkInst g V L vc).
Proof.
  intros [HI H00]. unfold seq_ok, is_arc, iN. cbn [ig]. repeat split; auto.
  - apply (inv_keys g HI).
  - apply in_map_iff in H00. destruct H00 as ([k a] & Ek & Hin). simpl in Ek. subst k.
    destruct (inv_arcs g HI _ _ Hin) as (no & _ & Hno & _). simpl in Hno.
    destruct (nodes g); simpl in *; [discriminate | lia].
Qed.

Lemma dict_set_key_in {U} k (v : U) d : In k (map fst (dict_set k v d)).
Proof.
  destruct (dict_mem k d) eqn:E.
  - rewrite dict_set_keys_old; auto. apply dict_mem_In; auto.
  - rewrite dict_set_keys_new; auto. apply in_app_iff; simpl; auto.
Qed.

Lemma dict_set_key_keep {U} k k' (v : U) d : In k' (map fst d) -> In k' (map fst (dict_set k v d)).
Proof.
  intros H. destruct (dict_mem k d) eqn:E.
  - rewrite dict_set_keys_old; auto.
  - rewrite dict_set_keys_new; auto. apply in_app_iff; auto.
Qed.

Lemma seq_set_depot_depot_set s g nm g' : Inv g -> seq_set_depot s g nm = Ok g' -> depot_set g'.
Proof.
  intros HI H. split; [eapply seq_set_depot_inv; eauto|].
  destruct (seq_set_depot_stages _ _ _ _ H) as (d0 & g1 & g2 & _ & _ & _ & ->).
  cbn [arcs]. apply dict_set_key_in.
Qed.

Lemma step_depot_set st g o : depot_set g -> depot_set (fst (step (Seq st) g o)).
Proof.
  intros [HI H00]. split; [apply step_inv; auto|].
  destruct o as [nm dem lo hi|o d tm c|nm]; simpl.
  - unfold add_node. destruct (memb nm (names g)); simpl; auto.
    destruct (window_ok lo hi); simpl; auto.
  - unfold add_arc_gen. destruct (index_of o (names g)); simpl; auto.
    destruct (index_of d (names g)); simpl; auto.
    match goal with |- context [if ?c then Ok _ else Ok _] => destruct c end; simpl; auto.
    apply dict_set_key_keep; auto.
  - destruct (seq_set_depot st g nm) as [g'|e] eqn:E; simpl; auto.
    eapply seq_set_depot_depot_set; eauto.
Qed.

Lemma run_depot_set st ops g : depot_set g -> depot_set (run (Seq st) ops g).
Proof.
  unfold run. revert g; induction ops as [|o ops IH]; simpl; intros g H; auto.
  apply IH. apply step_depot_set; auto.
Qed.

(* ================================================================== *)
(** * 10. The right-hand side is all ones *)

(* only the depot at the first / last position is ever fixed to a non-zero value, and those tuples
   occur in no constraint row: "moving fixed values to the right-hand side" never changes b *)
Lemma fixed_val_nonzero I v s n :
  fixed_val I (v, s, n) <> 0 -> n = 0%nat /\ (s = 0%nat \/ S s = iL I).
Proof.
  unfold fixed_val. destruct (fixed I (v, s, n)) as [z|] eqn:E; [|congruence].
  apply fixed_Some in E. destruct E as (_ & _ & _ & Hr). apply rule_value in Hr.
  destruct Hr as [[_ (Hn & Hp)] | [-> _]]; [|congruence]. intros _. split; auto. tauto.
Qed.

Lemma bvec_all_ones I r : (r < num_rows I)%nat -> bvec I r = 1.
Proof.
  intros Hr. unfold bvec.
  assert (H : Forall (fun ts => row_rhs I ts = 1) (rows I)).
  { apply rows_Forall. split.
    - intros ni H1 HN. unfold row_rhs. rewrite lsum_zero; [lia|].
      intros [[v s] n] Hin. unfold cust_row in Hin. apply in_flat_map in Hin.
      destruct Hin as (s' & _ & Hin). apply in_map_iff in Hin. destruct Hin as (v' & E & _).
      inversion E; subst; clear E.
      match goal with |- match var_index I ?t with _ => _ end = 0 =>
        destruct (var_index I t); auto; destruct (Z.eq_dec (fixed_val I t) 0) as [|Hne]; auto;
        apply fixed_val_nonzero in Hne; lia end.
    - intros s v H1 HL Hv. unfold row_rhs. rewrite lsum_zero; [lia|].
      intros [[v' s'] n] Hin. unfold pos_row in Hin. apply in_map_iff in Hin.
      destruct Hin as (n' & E & _). inversion E; subst; clear E.
      match goal with |- match var_index I ?t with _ => _ end = 0 =>
        destruct (var_index I t); auto; destruct (Z.eq_dec (fixed_val I t) 0) as [|Hne]; auto;
        apply fixed_val_nonzero in Hne; lia end. }
  unfold num_rows in Hr. apply (proj1 (Forall_nth _ _) H r [] Hr).
Qed.

(* ================================================================== *)
(** * 11. Representability: routes padded with depot stays *)

Fixpoint chain (I : inst) (l : list nat) : Prop :=
  match l with
  | a :: ((b :: _) as tl) => is_arc I a b /\ chain I tl
  | _ => True
  end.

(* a route: customers only, depot -> first, consecutive, last -> depot are arcs, fits into L positions *)
Definition valid_route (I : inst) (r : list nat) : Prop :=
  (forall c, In c r -> (1 <= c)%nat /\ (c < iN I)%nat) /\
  chain I (O :: r ++ [O]) /\ (length r + 2 <= iL I)%nat.

Lemma chain_nth I l s :
  chain I l -> (S s < length l)%nat -> is_arc I (nth s l O) (nth (S s) l O).
Proof.
  revert s; induction l as [|a l IH]; intros s Hc Hs; [simpl in Hs; lia|].
  destruct l as [|b l]; [simpl in Hs; lia|].
  destruct Hc as [Hab Hc]. destruct s as [|s]; [exact Hab|].
  apply (IH s Hc). simpl in *. lia.
Qed.

Lemma nth_app_default {T} (l : list T) d s : nth s (l ++ [d]) d = nth s l d.
Proof.
  revert s; induction l as [|a l IH]; intros s; simpl.
  - destruct s as [|[|s]]; reflexivity.
  - destruct s; auto.
Qed.

Lemma count_nth (l : list nat) (L n : nat) :
  n <> 0%nat -> (length l <= L)%nat ->
  lsum (seq 0 L) (fun s => if Nat.eqb (nth s l O) n then 1 else 0) =
  Z.of_nat (count_occ Nat.eq_dec l n).
Proof.
  intros Hn. revert L; induction l as [|a l IH]; intros L HL.
  - simpl count_occ. apply lsum_zero. intros s _.
    replace (nth s [] O) with O by (destruct s; reflexivity).
    destruct (Nat.eqb_spec 0 n); [congruence | reflexivity].
  - destruct L as [|L]; [simpl in HL; lia|].
    change (seq 0 (S L)) with (0%nat :: seq 1 L). rewrite <- seq_shift, lsum_cons, lsum_map.
    cbn [nth]. rewrite IH by (simpl in HL; lia).
    simpl count_occ. destruct (Nat.eq_dec a n) as [->|Hne].
    + rewrite Nat.eqb_refl. lia.
    + destruct (Nat.eqb_spec a n); [congruence|lia].
Qed.

Lemma count_routes (routes : list (list nat)) (V n : nat) :
  (length routes <= V)%nat ->
  lsum (seq 0 V) (fun v => Z.of_nat (count_occ Nat.eq_dec (nth v routes []) n)) =
  Z.of_nat (count_occ Nat.eq_dec (concat routes) n).
Proof.
  revert V; induction routes as [|r rs IH]; intros V HV.
  - simpl. apply lsum_zero. intros v _. destruct v; reflexivity.
  - destruct V as [|V]; [simpl in HV; lia|].
    change (seq 0 (S V)) with (0%nat :: seq 1 V). rewrite <- seq_shift, lsum_cons, lsum_map.
    cbn [nth concat]. rewrite IH by (simpl in HV; lia). rewrite count_occ_app. lia.
Qed.

Theorem pad_walks_assignment I routes :
  seq_ok I -> (2 <= iL I)%nat -> (length routes <= iV I)%nat ->
  Forall (valid_route I) routes ->
  (forall n, (1 <= n)%nat -> (n < iN I)%nat -> count_occ Nat.eq_dec (concat routes) n = 1%nat) ->
  walk_assignment I (pad_walks routes).
Proof.
  intros (_ & H00 & HN) HL HV Hval Hcov.
  assert (Hr : forall v, valid_route I (nth v routes [])).
  { intros v. destruct (lt_dec v (length routes)) as [Hlt|Hge].
    - apply Forall_nth; auto.
    - rewrite nth_overflow by lia. split; [intros ? []|]. split; [simpl; auto | simpl; lia]. }
  constructor; unfold pad_walks.
  - intros v s _ _. destruct (Hr v) as (Hc & _ & _).
    destruct (nth_in_or_default s (O :: nth v routes []) O) as [Hin | ->]; [|lia].
    destruct Hin as [<-|Hin]; [lia|]. apply Hc; auto.
  - reflexivity.
  - intros v _. destruct (Hr v) as (_ & _ & Hlen). apply nth_overflow. simpl. lia.
  - intros v s _ Hs. destruct (Hr v) as (_ & Hch & Hlen).
    set (r := nth v routes []) in *. apply check_arc_iff.
    destruct (lt_dec (S s) (length (O :: r ++ [O]))) as [Hlt|Hge].
    + pose proof (chain_nth I (O :: r ++ [O]) s Hch Hlt) as Ha.
      change (O :: r ++ [O]) with ((O :: r) ++ [O]) in Ha. rewrite !nth_app_default in Ha. exact Ha.
    + simpl in Hge. rewrite app_length in Hge. simpl in Hge.
      rewrite !(nth_overflow (O :: r)) by (simpl; lia). exact H00.
  - intros v s _ Hs1 _ H0. destruct (Hr v) as (Hc & _ & _).
    set (r := nth v routes []) in *. destruct s as [|s]; [lia|]. cbn [nth] in *.
    destruct (lt_dec s (length r)) as [Hlt|Hge].
    + assert (In (nth s r O) r) by (apply nth_In; auto). apply Hc in H. lia.
    + apply nth_overflow. lia.
  - intros n Hn1 HnN. unfold hits. rewrite zsum_lsum.
    transitivity (Z.of_nat (count_occ Nat.eq_dec (concat routes) n)); [|rewrite (Hcov n Hn1 HnN); reflexivity].
    rewrite <- (count_routes routes (iV I) n HV).
    apply lsum_ext. intros v _. rewrite zsum_lsum.
    destruct (Hr v) as (_ & _ & Hlen).
    rewrite (count_nth (O :: nth v routes []) (iL I) n) by (simpl; lia).
    rewrite count_occ_cons_neq by lia. reflexivity.
Qed.

(* ================================================================== *)
(** * 12. Strict mode: every walk meets the time windows *)

(* what the strict add_arc guarantees for the stored arcs, read with the depot at index 0 -- for every
   history, since the strict set_depot re-adds the stored arcs when it moves the depot (strict_graph_all_histories):
   customer origin: window END + travel time <= destination window end;
   depot origin: window start + travel time <= destination window end;
   the depot self-arc (travel time 0 as set_depot stores it) keeps a waiting vehicle inside the depot window *)
Definition strict_graph (g : graph) : Prop :=
  forall i j a, In ((i, j), a) (arcs g) ->
    (i <> 0%nat -> ext_le (ext_add (nhi (gnode g i)) (att a)) (nhi (gnode g j))) /\
    (i = 0%nat -> ext_le (Fin (nlo (gnode g 0) + att a)) (nhi (gnode g j))) /\
    (i = 0%nat -> j = 0%nat -> ext_le (ext_add (nhi (gnode g 0)) (att a)) (nhi (gnode g 0))).

Definition windows_ok (g : graph) : Prop :=
  forall n, (n < length (nodes g))%nat -> ext_le (Fin (nlo (gnode g n))) (nhi (gnode g n)).

Lemma strict_graphb_true g : strict_graphb g = true -> strict_graph g.
Proof.
  unfold strict_graphb, strict_graph. rewrite forallb_forall. intros H i j a Hin.
  specialize (H _ Hin). cbn beta iota in H.
  destruct (Nat.eqb_spec i 0) as [Ei|Ei].
  - apply andb_true_iff in H. destruct H as [H1 H2]. repeat split; try congruence.
    + intros _. apply ext_leb_le. exact H1.
    + intros _ Ej. destruct (Nat.eqb_spec j 0); [|congruence]. apply ext_leb_le. exact H2.
  - repeat split; try congruence. intros _. apply ext_leb_le. exact H.
Qed.

Lemma windows_okb_true g : windows_okb g = true -> windows_ok g.
Proof.
  unfold windows_okb, windows_ok. rewrite forallb_forall. intros H n Hn.
  apply ext_leb_le. apply H. apply nth_In. exact Hn.
Qed.

Lemma ext_step T h t h' : ext_le (Fin T) h -> ext_le (ext_add h t) h' -> ext_le (Fin (T + t)) h'.
Proof. destruct h, h'; unfold ext_le, ext_add; simpl; intros; auto; try lia; tauto. Qed.

Lemma ext_max a c h : ext_le (Fin a) h -> ext_le (Fin c) h -> ext_le (Fin (Z.max a c)) h.
Proof. destruct h; unfold ext_le; simpl; intros; auto; lia. Qed.

Lemma dict_get_In {U} k (d : dict U) a : dict_get k d = Some a -> In (k, a) d.
Proof.
  induction d as [|[k' v'] d IH]; simpl; [discriminate|].
  destruct (natpair_eqb k k') eqn:E.
  - apply natpair_eqb_eq in E; subst. intros H; inversion H; auto.
  - auto.
Qed.

Theorem strict_time I W v :
  strict_graph (ig I) -> windows_ok (ig I) -> walk_assignment I W -> (v < iV I)%nat ->
  forall s, (s < iL I)%nat ->
    nlo (node_at I (W v s)) <= arrival I (W v) s /\
    ext_le (Fin (arrival I (W v) s)) (nhi (node_at I (W v s))).
Proof.
  intros Hst Hwin HW Hv. induction s as [|s IH]; intros Hs.
  - cbn [arrival]. split; [lia|]. apply Hwin. apply (wa_node I W HW); auto.
  - destruct (IH ltac:(lia)) as [_ IH2]. cbn [arrival]. split; [apply Z.le_max_l|].
    apply ext_max; [apply Hwin; apply (wa_node I W HW); auto|].
    pose proof (wa_is_arc I W v s HW Hv Hs) as Ha. apply check_arc_iff in Ha.
    unfold check_arc, dict_mem in Ha. unfold tt.
    destruct (dict_get (W v s, W v (S s)) (arcs (ig I))) as [a|] eqn:Eg; [|discriminate].
    apply dict_get_In in Eg. destruct (Hst _ _ _ Eg) as (C1 & C2 & C3).
    unfold node_at in *. fold (gnode (ig I)) in *.
    destruct (Nat.eq_dec (W v s) 0) as [E0|E0].
    + destruct s as [|s].
      * cbn [arrival]. rewrite E0.
        destruct (Nat.eq_dec (W v 1%nat) 0) as [E1|E1].
        -- rewrite E1. eapply ext_step; [|apply C3; auto]. apply Hwin.
           pose proof (wa_node I W HW v 0 Hv ltac:(lia)). unfold iN in H. lia.
        -- apply C2; auto.
      * assert (E1 : W v (S (S s)) = 0%nat) by (apply (wa_absorb I W HW); auto; lia).
        rewrite E1. eapply ext_step; [|apply C3; auto]. rewrite E0 in IH2. exact IH2.
    + eapply ext_step; [exact IH2 | apply C1; auto].
Qed.

(* the strict add_arc keeps the guarantee (the depot self-arc may only be overwritten with a travel
   time that keeps a waiting vehicle inside the depot window) *)
Lemma strict_graph_add_arc g o d tm c g' b :
  strict_graph g -> add_arc_gen true g o d tm c = Ok (g', b) ->
  (index_of o (names g) = Some 0%nat -> index_of d (names g) = Some 0%nat ->
   ext_le (ext_add (nhi (gnode g 0)) tm) (nhi (gnode g 0))) ->
  strict_graph g'.
Proof.
  intros Hst H Hself. unfold add_arc_gen in H.
  destruct (index_of o (names g)) as [i|] eqn:Ei; [|discriminate].
  destruct (index_of d (names g)) as [j|] eqn:Ej; [|discriminate].
  match type of H with context [if ?p then Ok _ else Ok _] => destruct p eqn:Ep end;
    inversion H; subst g' b; clear H; [|exact Hst].
  intros i' j' a Hin. cbn [arcs] in Hin. apply dict_set_In in Hin.
  unfold gnode. cbn [nodes]. fold (gnode g).
  destruct Hin as [E|Hin]; [|apply Hst; auto].
  inversion E; subst i' j' a; clear E. cbn [att].
  destruct (Nat.eqb_spec i 0) as [E0|E0]; cbn [andb negb] in Ep.
  - subst i. repeat split; try congruence.
    + intros _. unfold base_filter in Ep. apply ext_leb_le in Ep. exact Ep.
    + intros _ ->. apply Hself; auto.
  - repeat split; try congruence. intros _. unfold strict_filter in Ep. apply ext_leb_le in Ep. exact Ep.
Qed.

(* strict_graph splits into the part every strict add_arc checks (clauses 1 and 2) and the condition on
   the depot self-arc (clause 3), which only the arc currently stored under (0,0) decides *)
Definition strict_core (g : graph) : Prop :=
  forall i j a, In ((i, j), a) (arcs g) ->
    (i <> 0%nat -> ext_le (ext_add (nhi (gnode g i)) (att a)) (nhi (gnode g j))) /\
    (i = 0%nat -> ext_le (Fin (nlo (gnode g 0) + att a)) (nhi (gnode g j))).

Definition depot_self_ok (g : graph) : Prop :=
  forall a, In ((0%nat, 0%nat), a) (arcs g) -> ext_le (ext_add (nhi (gnode g 0)) (att a)) (nhi (gnode g 0)).

Lemma strict_graph_split g : strict_graph g <-> strict_core g /\ depot_self_ok g.
Proof.
  split.
  - intros H. split.
    + intros i j a Hin. destruct (H i j a Hin) as (C1 & C2 & _). auto.
    + intros a Hin. destruct (H _ _ a Hin) as (_ & _ & C3). auto.
  - intros [Hc Hs] i j a Hin. destruct (Hc i j a Hin) as (C1 & C2). repeat split; auto.
    intros -> ->. apply Hs. exact Hin.
Qed.

(* the strict add_arc keeps the core without any side condition *)
Lemma strict_core_add_arc g o d tm c g' b :
  strict_core g -> add_arc_gen true g o d tm c = Ok (g', b) -> strict_core g'.
Proof.
  intros Hst H. unfold add_arc_gen in H.
  destruct (index_of o (names g)) as [i|] eqn:Ei; [|discriminate].
  destruct (index_of d (names g)) as [j|] eqn:Ej; [|discriminate].
  match type of H with context [if ?p then Ok _ else Ok _] => destruct p eqn:Ep end;
    inversion H; subst g' b; clear H; [|exact Hst].
  intros i' j' a Hin. cbn [arcs] in Hin. apply dict_set_In in Hin.
  unfold gnode. cbn [nodes]. fold (gnode g).
  destruct Hin as [E|Hin]; [|apply Hst; auto].
  inversion E; subst i' j' a; clear E. cbn [att].
  destruct (Nat.eqb_spec i 0) as [E0|E0]; cbn [andb negb] in Ep.
  - subst i. split; try congruence.
    intros _. unfold base_filter in Ep. apply ext_leb_le in Ep. exact Ep.
  - split; try congruence. intros _. unfold strict_filter in Ep. apply ext_leb_le in Ep. exact Ep.
Qed.

Lemma strict_core_readd g old g' :
  strict_core g -> readd_arcs true g old = Ok g' -> strict_core g'.
Proof.
  apply (readd_arcs_ind strict_core). intros g0 kv g1 b _ Hc H. eapply strict_core_add_arc; eauto.
Qed.

Lemma keys_unique {U} (d : dict U) k a b :
  NoDup (map fst d) -> In (k, a) d -> In (k, b) d -> a = b.
Proof.
  induction d as [|[k' v'] d IH]; simpl; [tauto|]. intros Hnd Ha Hb. inversion Hnd as [|x l Hni Hnd']; subst.
  destruct Ha as [Ea|Ha], Hb as [Eb|Hb].
  - congruence.
  - inversion Ea; subst. exfalso. apply Hni. apply (in_map fst) in Hb. exact Hb.
  - inversion Eb; subst. exfalso. apply Hni. apply (in_map fst) in Ha. exact Ha.
  - eauto.
Qed.

(* storing the depot self-arc (travel time 0) on top of a core-strict graph gives strict_graph *)
Lemma strict_graph_self_arc g :
  strict_core g -> windows_ok g -> (0 < length (nodes g))%nat -> NoDup (map fst (arcs g)) ->
  strict_graph (mkGraph (names g) (nodes g)
     (dict_set (O, O) (mkArc (nname (nth 0 (nodes g) dummy_node)) (nname (nth 0 (nodes g) dummy_node)) 0 0) (arcs g))).
Proof.
  intros Hc Hwin HN Hnd. set (sa := mkArc _ _ 0 0).
  assert (Hh : forall h, ext_le (ext_add h 0) h).
  { intros [z|]; unfold ext_le, ext_add; simpl; auto; lia. }
  apply strict_graph_split. split.
  - intros i j a Hin. cbn [arcs] in Hin. apply dict_set_In in Hin.
    unfold gnode. cbn [nodes]. fold (gnode g).
    destruct Hin as [E|Hin]; [|apply Hc; auto].
    inversion E; subst i j a; clear E. cbn [att]. split; [congruence|].
    intros _. rewrite Z.add_0_r. apply Hwin. exact HN.
  - intros a Hin. cbn [arcs] in Hin. unfold gnode. cbn [nodes]. fold (gnode g).
    assert (Ea : a = sa).
    { eapply (keys_unique (dict_set (O, O) sa (arcs g))); [apply dict_set_NoDup; exact Hnd | exact Hin |].
      apply dict_get_In. apply dict_get_set_same. }
    rewrite Ea. cbn [att sa]. apply Hh.
Qed.

(* the strict set_depot: whichever node is chosen, the result satisfies the full strict_graph --
   when the depot moves, every stored arc is re-added through the strict add_arc for its new
   position; the depot self-arc is stored with travel time 0 *)
Lemma strict_graph_seq_set_depot g nm g' :
  Inv g -> strict_core g -> seq_set_depot true g nm = Ok g' -> strict_graph g'.
Proof.
  intros HI Hc H. destruct (seq_set_depot_stages _ _ _ _ H) as (d0 & g1 & g2 & Ed & E1 & E2 & ->).
  pose proof (set_depot_inv _ _ _ HI E1) as HI1.
  destruct (set_depot_has_depot _ _ _ HI E1) as [n0 Hn0].
  assert (H2 : Inv g2 /\ nodes g2 = nodes g1 /\ strict_core g2).
  { cbn [andb] in E2. destruct (Nat.eqb_spec d0 0) as [E0|E0]; cbn [negb] in E2.
    - inversion E2; subst g2. split; [exact HI1|]. split; [reflexivity|].
      unfold set_depot in E1. rewrite Ed, E0 in E1. inversion E1; subst; exact Hc.
    - split; [eapply readd_arcs_inv; [apply Inv_clear_arcs; exact HI1 | exact E2]|].
      split; [apply readd_arcs_frame in E2; tauto|].
      eapply strict_core_readd; [|exact E2]. intros i j a []. }
  destruct H2 as (HI2 & En & Hc2).
  apply strict_graph_self_arc; auto.
  - intros n Hn. apply (inv_windows g2 HI2). apply nth_In. exact Hn.
  - rewrite En. apply nth_error_lt in Hn0. exact Hn0.
  - apply (inv_keys g2 HI2).
Qed.

(* special case kept from before the repair: set_depot on the node that already is the depot only
   (re)stores the self-arc with travel time 0 *)
Lemma strict_graph_set_depot_same g nm g' :
  strict_graph g -> windows_ok g -> (0 < length (nodes g))%nat ->
  index_of nm (names g) = Some 0%nat -> seq_set_depot true g nm = Ok g' -> strict_graph g'.
Proof.
  intros Hst Hwin HN Hi H. unfold seq_set_depot, set_depot in H. rewrite Hi in H.
  cbn [Nat.eqb negb andb] in H. inversion H; subst g'; clear H.
  intros i j a Hin. cbn [arcs] in Hin. apply dict_set_In in Hin.
  unfold gnode. cbn [nodes]. fold (gnode g).
  destruct Hin as [E|Hin]; [|apply Hst; auto].
  inversion E; subst i j a; clear E. cbn [att].
  repeat split; try congruence; intros _.
  - rewrite Z.add_0_r. apply Hwin. exact HN.
  - intros _. assert (Hh : forall h, ext_le (ext_add h 0) h).
    { intros [z|]; unfold ext_le, ext_add; simpl; auto; lia. }
    apply Hh.
Qed.

(* ================================================================== *)
(** * 13. Decoding (get_routes) *)

Definition lexle (a b : tuple) : Prop := lex_le a b = true.

Lemma lex_le_spec v1 s1 n1 v2 s2 n2 :
  lex_le (v1, s1, n1) (v2, s2, n2) = true <->
  (v1 < v2)%nat \/ (v1 = v2 /\ ((s1 < s2)%nat \/ (s1 = s2 /\ (n1 <= n2)%nat))).
Proof.
  unfold lex_le. rewrite !orb_true_iff, !andb_true_iff, !orb_true_iff, !andb_true_iff,
    !Nat.ltb_lt, !Nat.eqb_eq, Nat.leb_le. reflexivity.
Qed.

Lemma lexle_total a b : lexle a b \/ lexle b a.
Proof.
  destruct a as [[v1 s1] n1], b as [[v2 s2] n2]. unfold lexle. rewrite !lex_le_spec. lia.
Qed.

Lemma lexle_trans a b c : lexle a b -> lexle b c -> lexle a c.
Proof.
  destruct a as [[v1 s1] n1], b as [[v2 s2] n2], c as [[v3 s3] n3]. unfold lexle.
  rewrite !lex_le_spec. lia.
Qed.

Lemma lexle_antisym a b : lexle a b -> lexle b a -> a = b.
Proof.
  destruct a as [[v1 s1] n1], b as [[v2 s2] n2]. unfold lexle. rewrite !lex_le_spec.
  intros H1 H2. assert (v1 = v2 /\ s1 = s2 /\ n1 = n2) as (-> & -> & ->) by lia. reflexivity.
Qed.

Lemma insert_perm t l : Permutation (insert_t t l) (t :: l).
Proof.
  induction l as [|u l IH]; simpl; auto.
  destruct (lex_le t u); auto.
  eapply perm_trans; [apply perm_skip; exact IH | apply perm_swap].
Qed.

Lemma sort_perm l : Permutation (sort_t l) l.
Proof.
  induction l as [|t l IH]; simpl; auto.
  eapply perm_trans; [apply insert_perm | apply perm_skip; exact IH].
Qed.

Lemma insert_sorted t l : StronglySorted lexle l -> StronglySorted lexle (insert_t t l).
Proof.
  induction l as [|u l IH]; intros Hs; simpl.
  - constructor; constructor.
  - inversion Hs as [|? ? Hs' Hall]; subst.
    destruct (lex_le t u) eqn:E.
    + constructor; auto. constructor; [exact E|].
      eapply Forall_impl; [|exact Hall]. intros x Hx. eapply lexle_trans; eauto.
    + constructor; auto.
      assert (Hut : lexle u t) by (destruct (lexle_total t u) as [H|H]; [unfold lexle in H; congruence | exact H]).
      eapply Permutation_Forall; [apply Permutation_sym, insert_perm|].
      constructor; auto.
Qed.

Lemma sort_sorted l : StronglySorted lexle (sort_t l).
Proof. induction l as [|t l IH]; simpl; [constructor | apply insert_sorted; exact IH]. Qed.

Lemma sorted_perm_eq l1 l2 :
  StronglySorted lexle l1 -> StronglySorted lexle l2 -> Permutation l1 l2 -> l1 = l2.
Proof.
  revert l2; induction l1 as [|a l1 IH]; intros l2 H1 H2 Hp.
  - apply Permutation_nil in Hp. auto.
  - destruct l2 as [|c l2]; [apply Permutation_sym, Permutation_nil in Hp; discriminate|].
    inversion H1 as [|? ? H1' A1]; inversion H2 as [|? ? H2' A2]; subst.
    assert (a = c).
    { assert (Hin1 : In a (c :: l2)) by (eapply Permutation_in; [exact Hp | simpl; auto]).
      assert (Hin2 : In c (a :: l1)) by (eapply Permutation_in; [apply Permutation_sym; exact Hp | simpl; auto]).
      destruct Hin1 as [->|Hin1]; auto. destruct Hin2 as [->|Hin2]; auto.
      rewrite Forall_forall in A1, A2. apply lexle_antisym; auto. }
    subst c. f_equal. apply IH; auto. eapply Permutation_cons_inv; eauto.
Qed.

Lemma SS_app {T} (R : T -> T -> Prop) l1 l2 :
  StronglySorted R l1 -> StronglySorted R l2 -> (forall x y, In x l1 -> In y l2 -> R x y) ->
  StronglySorted R (l1 ++ l2).
Proof.
  induction l1 as [|a l1 IH]; intros H1 H2 Hc; simpl; auto.
  inversion H1 as [|? ? H1' A1]; subst. constructor.
  - apply IH; auto. intros; apply Hc; simpl; auto.
  - apply Forall_app. split; auto. apply Forall_forall. intros y Hy. apply Hc; simpl; auto.
Qed.

(* the occupied tuples, vehicle by vehicle and position by position *)
Definition occupied (I : inst) (W : nat -> nat -> nat) : list tuple :=
  flat_map (fun v => map (fun s => (v, s, W v s)) (seq 0 (iL I))) (seq 0 (iV I)).

Lemma in_occupied I W v s n :
  In (v, s, n) (occupied I W) <-> (v < iV I)%nat /\ (s < iL I)%nat /\ n = W v s.
Proof.
  unfold occupied. rewrite in_flat_map. split.
  - intros (v' & Hv & H). apply in_map_iff in H. destruct H as (s' & E & Hs). inversion E; subst.
    apply in_seq in Hv, Hs. repeat split; auto; lia.
  - intros (Hv & Hs & ->). exists v. split; [apply in_seq; lia|]. apply in_map_iff. exists s.
    split; auto. apply in_seq; lia.
Qed.

Lemma row_sorted (W : nat -> nat) v a len :
  StronglySorted lexle (map (fun s => (v, s, W s)) (seq a len)).
Proof.
  revert a; induction len as [|len IH]; intros a; simpl; constructor; auto.
  apply Forall_forall. intros x Hx. apply in_map_iff in Hx. destruct Hx as (s & <- & Hs).
  apply in_seq in Hs. unfold lexle. rewrite lex_le_spec. lia.
Qed.

Lemma occupied_sorted_from (W : nat -> nat -> nat) L b cnt :
  StronglySorted lexle (flat_map (fun v => map (fun s => (v, s, W v s)) (seq 0 L)) (seq b cnt)).
Proof.
  revert b; induction cnt as [|cnt IH]; intros b; simpl; [constructor|].
  apply SS_app; auto; [apply row_sorted|].
  intros x y Hx Hy. apply in_map_iff in Hx. destruct Hx as (s & <- & _).
  apply in_flat_map in Hy. destruct Hy as (v' & Hv' & Hy). apply in_map_iff in Hy.
  destruct Hy as (s' & <- & _). apply in_seq in Hv'. unfold lexle. rewrite lex_le_spec. lia.
Qed.

Lemma NoDup_occupied I W : NoDup (occupied I W).
Proof.
  unfold occupied. apply NoDup_flat_map.
  - apply seq_NoDup.
  - intros v _. apply NoDup_map_inj; [|apply seq_NoDup]. intros a b _ _ E; inversion E; auto.
  - intros a b [[v s] n] _ _ Ha Hb. apply in_map_iff in Ha, Hb.
    destruct Ha as (? & Ea & _), Hb as (? & Eb & _). inversion Ea; inversion Eb; subst; auto.
Qed.

(* the loops of get_routes accept the occupied tuples one by one *)
Lemma decode_pos_walk I W v :
  walk_assignment I W -> (v < iV I)%nat ->
  forall len a prev route rest,
    (a + len <= iL I)%nat ->
    (forall p, prev = Some p -> exists a', a = S a' /\ p = W v a') ->
    decode_pos I v (seq a len) (map (fun s => (v, s, W v s)) (seq a len) ++ rest) prev route =
    Ok (route ++ map (W v) (seq a len), rest).
Proof.
  intros HW Hv. induction len as [|len IH]; intros a prev route rest Hal Hprev.
  - simpl. rewrite app_nil_r. reflexivity.
  - cbn [seq map app decode_pos]. rewrite !Nat.eqb_refl. cbn [negb orb].
    assert (Hc : truthy prev && negb (check_arc I (match prev with Some p => p | None => O end, W v a)) = false).
    { destruct prev as [[|p]|]; cbn [truthy andb]; auto.
      destruct (Hprev (S p) eq_refl) as (a' & -> & Ep). rewrite Ep.
      rewrite (wa_arc I W HW v a' Hv) by lia. reflexivity. }
    rewrite Hc. rewrite IH.
    + rewrite <- app_assoc. reflexivity.
    + lia.
    + intros p Hp. inversion Hp; subst. exists a. auto.
Qed.

Lemma decode_veh_walk I W :
  walk_assignment I W ->
  forall cnt b routes,
    (b + cnt <= iV I)%nat ->
    decode_veh I (seq b cnt)
      (flat_map (fun v => map (fun s => (v, s, W v s)) (seq 0 (iL I))) (seq b cnt)) routes =
    Ok (routes ++ map (fun v => map (W v) (seq 0 (iL I))) (seq b cnt)).
Proof.
  intros HW. induction cnt as [|cnt IH]; intros b routes Hb.
  - simpl. rewrite app_nil_r. reflexivity.
  - cbn [seq flat_map decode_veh map].
    rewrite (decode_pos_walk I W b HW ltac:(lia) (iL I) 0%nat None []); [|lia|intros p Hp; discriminate].
    cbn [app]. rewrite IH by lia. rewrite <- app_assoc. reflexivity.
Qed.

Lemma nz_filter (l : list tuple) (xl : list Z) (f : tuple -> Z) d :
  length xl = length l -> (forall k, (k < length l)%nat -> nth k xl 0 = f (nth k l d)) ->
  map fst (filter (fun tx => negb (snd tx =? 0)) (combine l xl)) = filter (fun t => negb (f t =? 0)) l.
Proof.
  revert xl; induction l as [|a l IH]; intros [|z xl] Hlen H; simpl in *; try discriminate; auto.
  rewrite <- (H 0%nat) by lia. destruct (negb (z =? 0)); simpl; [f_equal|]; apply IH; auto;
    intros k Hk; apply (H (S k)); lia.
Qed.

Lemma map_flat_map {T U S'} (f : U -> S') (g : T -> list U) l :
  map f (flat_map g l) = flat_map (fun a => map f (g a)) l.
Proof. induction l as [|a l IH]; simpl; auto. rewrite map_app, IH. reflexivity. Qed.

Lemma NoDup_fixed_keys I : NoDup (map fst (fixed_items I)).
Proof.
  unfold fixed_items. rewrite map_flat_map. apply NoDup_flat_map.
  - apply NoDup_grid.
  - intros [s n] _. cbn [fst snd]. destruct (rule I s n); [|constructor].
    rewrite map_map. cbn [fst]. apply NoDup_map_inj; [|apply seq_NoDup]. intros a b _ _ E; inversion E; auto.
  - intros [s1 n1] [s2 n2] [[v s] n] _ _ Ha Hb. cbn [fst snd] in *.
    destruct (rule I s1 n1); [|destruct Ha]. destruct (rule I s2 n2); [|destruct Hb].
    rewrite map_map in Ha, Hb. cbn [fst] in Ha, Hb. apply in_map_iff in Ha, Hb.
    destruct Ha as (? & Ea & _), Hb as (? & Eb & _). inversion Ea; inversion Eb; subst; auto.
Qed.

Lemma NoDup_map_filter {T U} (f : T -> U) (p : T -> bool) l : NoDup (map f l) -> NoDup (map f (filter p l)).
Proof.
  induction l as [|a l IH]; simpl; intros H; auto. inversion H; subst.
  destruct (p a); simpl; auto. constructor; auto.
  intros Hin. apply in_map_iff in Hin. destruct Hin as (b & E & Hb). apply filter_In in Hb.
  match goal with Hn : ~ In _ _ |- _ => apply Hn end. rewrite <- E. apply in_map. tauto.
Qed.

Lemma NoDup_app_disj {T} (l1 l2 : list T) :
  NoDup l1 -> NoDup l2 -> (forall x, In x l1 -> ~ In x l2) -> NoDup (l1 ++ l2).
Proof.
  induction l1 as [|a l1 IH]; intros H1 H2 Hd; simpl; auto. inversion H1; subst. constructor.
  - rewrite in_app_iff. intros [H|H]; [contradiction|]. apply (Hd a); simpl; auto.
  - apply IH; auto. intros x Hx. apply Hd. simpl; auto.
Qed.

Theorem decode_walks I W (xl : list Z) :
  seq_ok I -> (3 <= iL I)%nat -> walk_assignment I W ->
  length xl = nv I -> (forall k, (k < nv I)%nat -> nth k xl 0 = indicator_free I W k) ->
  decode I xl = Ok (walks I W).
Proof.
  intros Hok HL HW Hlen Hx. set (x := fun k => nth k xl 0).
  pose proof (X_ind I W x HW Hx) as HX.
  set (nz := map fst (filter (fun tx => negb (snd tx =? 0)) (combine (vars I) xl))).
  set (ones := map fst (filter (fun tz => snd tz =? 1) (fixed_items I))).
  assert (Enz : nz = filter (fun t => negb (ind W t =? 0)) (vars I)).
  { apply (nz_filter (vars I) xl (ind W) (O, O, O)); auto.
    intros k Hk. rewrite (Hx k Hk). unfold indicator_free, var_tuple.
    rewrite (nth_error_nth' (vars I) (O, O, O) Hk). destruct (nth k (vars I) (O, O, O)) as [[v s] n]. reflexivity. }
  assert (Hnz : forall v s n, In (v, s, n) nz <-> In (v, s, n) (vars I) /\ n = W v s).
  { intros v s n. rewrite Enz, filter_In. unfold ind.
    destruct (Nat.eqb_spec (W v s) n); simpl; intuition congruence. }
  assert (Hones : forall v s n, In (v, s, n) ones <->
            (v < iV I)%nat /\ (s < iL I)%nat /\ (n < iN I)%nat /\ rule I s n = Some 1).
  { intros v s n. unfold ones. rewrite in_map_iff. split.
    - intros ([t z] & E & Hin). simpl in E. subst t. apply filter_In in Hin. destruct Hin as [Hin Hz].
      simpl in Hz. apply Z.eqb_eq in Hz. subst z. apply in_fixed_items in Hin. exact Hin.
    - intros H. exists ((v, s, n), 1). split; auto. apply filter_In. split; auto.
      apply in_fixed_items. exact H. }
  assert (Hmem : forall t, In t (nz ++ ones) <-> In t (occupied I W)).
  { intros [[v s] n]. rewrite in_app_iff, Hnz, Hones, in_occupied. split.
    - intros [[Hin ->] | (Hv & Hs & Hn & Hr)].
      + apply in_vars in Hin. tauto.
      + repeat split; auto.
        assert (E : var_index I (v, s, n) = None).
        { apply var_index_None. rewrite in_vars. intros (_ & _ & _ & H). congruence. }
        destruct (var_index_None_rule I v s n Hv Hs Hn E) as (z & Hz & Hfv).
        pose proof (HX v s n Hv Hs) as Hi. unfold X in Hi. rewrite E, Hfv in Hi.
        assert (Hz1 : z = 1) by congruence. unfold ind in Hi. rewrite Hz1 in Hi. revert Hi.
        destruct (Nat.eqb_spec (W v s) n) as [e|e]; [intros _; symmetry; exact e | intros Hi; discriminate Hi].
    - intros (Hv & Hs & ->). pose proof (wa_node I W HW v s Hv Hs) as Hn.
      destruct (fixed_or_free I v s (W v s) Hv Hs Hn) as [(k & Hk & _) | (z & Hk & Hz)].
      + left. split; auto. apply var_index_In_iff. eauto.
      + right. repeat split; auto. pose proof (HX v s (W v s) Hv Hs) as Hi.
        unfold X, fixed_val in Hi. rewrite Hk, Hz in Hi. unfold ind in Hi. rewrite Nat.eqb_refl in Hi.
        subst z. apply fixed_Some in Hz. tauto. }
  assert (Hsort : sort_t (nz ++ ones) = occupied I W).
  { apply sorted_perm_eq; [apply sort_sorted | apply occupied_sorted_from |].
    eapply perm_trans; [apply sort_perm|]. apply NoDup_Permutation; auto; [|apply NoDup_occupied].
    apply NoDup_app_disj.
    - rewrite Enz. apply NoDup_filter, NoDup_vars.
    - apply NoDup_map_filter, NoDup_fixed_keys.
    - intros [[v s] n] H1 H2. apply Hnz in H1. apply Hones in H2. destruct H1 as [H1 _].
      apply in_vars in H1. destruct H1 as (_ & _ & _ & H1), H2 as (_ & _ & _ & H2). congruence. }
  unfold decode. fold nz. fold ones.
  destruct (Nat.eq_dec (iV I) 0) as [EV|EV].
  - assert (Evars : vars I = []).
    { destruct (vars I) as [|[[v s] n] l] eqn:E; auto. exfalso.
      assert (Hin : In (v, s, n) (vars I)) by (rewrite E; simpl; auto). apply in_vars in Hin. lia. }
    unfold nz. rewrite Evars. simpl. unfold walks. rewrite EV. reflexivity.
  - assert (Hne : nz <> []).
    { assert (Hin : In (0%nat, 1%nat, W 0%nat 1%nat) (nz ++ ones)) by (apply Hmem, in_occupied; repeat split; lia).
      apply in_app_iff in Hin. destruct Hin as [Hin|Hin]; [intros E; rewrite E in Hin; destruct Hin|].
      apply Hones in Hin. destruct Hin as (_ & _ & _ & Hr). apply rule_value in Hr.
      destruct Hr as [[_ (_ & Hp)] | [Hr _]]; [|lia]. exfalso. lia. }
    destruct nz as [|t0 nz'] eqn:Enz'; [congruence|]. rewrite Hsort.
    unfold occupied. rewrite (decode_veh_walk I W HW (iV I) 0%nat []) by lia. reflexivity.
Qed.

(* ---------- strict_graph: the constructor and add_node ---------- *)
Lemma windows_ok_of_inv g : Inv g -> windows_ok g.
Proof. intros HI n Hn. apply (inv_windows g HI). apply nth_In. exact Hn. Qed.

(* (moved to Vrptw_facts.v; kept under this name for the files that import Seq_facts only) *)
Lemma add_arc_gen_frame s g o d tm c g' b :
  add_arc_gen s g o d tm c = Ok (g', b) -> names g' = names g /\ nodes g' = nodes g.
Proof. exact (Vrptw_facts.add_arc_gen_frame s g o d tm c g' b). Qed.

Lemma strict_graph_add_node g nm dem lo hi g' :
  Inv g -> strict_graph g -> add_node g nm dem lo hi = Ok g' -> strict_graph g'.
Proof.
  intros HI Hst H. unfold add_node in H. destruct (memb nm (names g)); [discriminate|].
  destruct (negb (window_ok lo hi)); [discriminate|]. inversion H; subst; clear H.
  intros i j a Hin. cbn [arcs] in Hin.
  destruct (inv_arcs g HI _ _ Hin) as (no & nd & Hi & Hj & _). cbn [fst snd] in Hi, Hj.
  apply nth_error_lt in Hi, Hj.
  assert (E : forall k, (k < length (nodes g))%nat ->
                        gnode (mkGraph (names g ++ [nm]) (nodes g ++ [mkNode nm dem lo hi]) (arcs g)) k = gnode g k).
  { intros k Hk. unfold gnode. cbn [nodes]. apply app_nth1. exact Hk. }
  rewrite !E by lia. apply Hst. exact Hin.
Qed.

(* a depot self-arc handed over with the graph must keep a waiting vehicle inside the depot window *)
Definition self_arcs_ok (g : graph) : Prop :=
  forall kv, In kv (arcs g) ->
    index_of (aorig (snd kv)) (names g) = Some 0%nat -> index_of (adest (snd kv)) (names g) = Some 0%nat ->
    ext_le (ext_add (nhi (gnode g 0)) (att (snd kv))) (nhi (gnode g 0)).

Lemma refilter_strict g0 g1 :
  self_arcs_ok g0 -> refilter g0 = Ok g1 ->
  strict_graph g1 /\ names g1 = names g0 /\ nodes g1 = nodes g0.
Proof.
  intros Hself H. unfold refilter in H.
  apply (readd_arcs_ind (fun g' => strict_graph g' /\ names g' = names g0 /\ nodes g' = nodes g0)
           true (arcs g0)) with (g := mkGraph (names g0) (nodes g0) []); auto.
  - intros g' kv g'' b Hin (Hst & En & Ed) Ea.
    destruct (add_arc_gen_frame _ _ _ _ _ _ _ _ Ea) as [En' Ed'].
    split; [|split; congruence].
    eapply strict_graph_add_arc; eauto. rewrite En. unfold gnode. rewrite Ed.
    apply (Hself kv). exact Hin.
  - simpl. split; [intros i j a [] | split; reflexivity].
Qed.

(* without any condition on handed-over self-arcs the constructor's loop establishes the core *)
Lemma refilter_strict_core g0 g1 :
  refilter g0 = Ok g1 -> strict_core g1 /\ names g1 = names g0 /\ nodes g1 = nodes g0.
Proof.
  intros H. unfold refilter in H. split.
  - eapply strict_core_readd; [|exact H]. intros i j a [].
  - apply readd_arcs_frame in H. exact H.
Qed.

Lemma refilter_inv g0 g1 : Inv g0 -> refilter g0 = Ok g1 -> Inv g1.
Proof. intros HI H. eapply readd_arcs_inv; [apply Inv_clear_arcs; exact HI | exact H]. Qed.

Theorem seq_init_strict g0 g :
  Inv g0 -> self_arcs_ok g0 -> seq_init true g0 = Ok g -> strict_graph g.
Proof.
  intros HI Hself H. unfold seq_init in H.
  destruct (refilter g0) as [g1|e] eqn:Er; [|discriminate].
  destruct (refilter_strict g0 g1 Hself Er) as (Hst & En & Ed).
  destruct (names g1) as [|nm rest] eqn:Enames; [inversion H; subst; exact Hst|].
  assert (Hwin : windows_ok g1).
  { intros n Hn. unfold gnode. rewrite Ed. apply (windows_ok_of_inv g0 HI). rewrite <- Ed. exact Hn. }
  apply (strict_graph_set_depot_same g1 nm g Hst Hwin); auto.
  - rewrite Ed. pose proof (inv_aligned g0 HI) as Ha. rewrite <- En in Ha.
    destruct (nodes g0); simpl in *; [discriminate | lia].
  - rewrite Enames. simpl. rewrite Nat.eqb_refl. reflexivity.
Qed.

(* ---------- every history on a strict object ---------- *)
Lemma seq_init_inv st g0 g : Inv g0 -> seq_init st g0 = Ok g -> Inv g.
Proof.
  intros HI H. unfold seq_init in H.
  destruct (if st then refilter g0 else Ok g0) as [g1|e] eqn:Er; [|discriminate].
  assert (HI1 : Inv g1).
  { destruct st; [eapply refilter_inv; eauto | inversion Er; subst; exact HI]. }
  destruct (names g1) as [|nm rest]; [inversion H; subst; exact HI1|].
  eapply seq_set_depot_inv; eauto.
Qed.

Lemma seq_init_strict_core g0 g : Inv g0 -> seq_init true g0 = Ok g -> strict_core g.
Proof.
  intros HI H. unfold seq_init in H.
  destruct (refilter g0) as [g1|e] eqn:Er; [|discriminate].
  destruct (refilter_strict_core g0 g1 Er) as (Hc & _ & _).
  destruct (names g1) as [|nm rest]; [inversion H; subst; exact Hc|].
  pose proof (refilter_inv _ _ HI Er) as HI1.
  apply strict_graph_split. eapply strict_graph_seq_set_depot; eauto.
Qed.

Lemma strict_core_add_node g nm dem lo hi g' :
  Inv g -> strict_core g -> add_node g nm dem lo hi = Ok g' -> strict_core g'.
Proof.
  intros HI Hst H. unfold add_node in H. destruct (memb nm (names g)); [discriminate|].
  destruct (negb (window_ok lo hi)); [discriminate|]. inversion H; subst; clear H.
  intros i j a Hin. cbn [arcs] in Hin.
  destruct (inv_arcs g HI _ _ Hin) as (no & nd & Hi & Hj & _). cbn [fst snd] in Hi, Hj.
  apply nth_error_lt in Hi, Hj.
  assert (E : forall k, (k < length (nodes g))%nat ->
                        gnode (mkGraph (names g ++ [nm]) (nodes g ++ [mkNode nm dem lo hi]) (arcs g)) k = gnode g k).
  { intros k Hk. unfold gnode. cbn [nodes]. apply app_nth1. exact Hk. }
  rewrite !E by lia. apply Hst. exact Hin.
Qed.

Lemma step_strict_core g o : Inv g -> strict_core g -> strict_core (fst (step (Seq true) g o)).
Proof.
  intros HI Hc. destruct o as [nm dem lo hi|o d tm c|nm]; cbn [step].
  - destruct (add_node g nm dem lo hi) as [g'|e] eqn:E; cbn [fst]; auto.
    eapply strict_core_add_node; eauto.
  - destruct (add_arc_gen true g o d tm c) as [[g' b]|e] eqn:E; cbn [fst]; auto.
    eapply strict_core_add_arc; eauto.
  - destruct (seq_set_depot true g nm) as [g'|e] eqn:E; cbn [fst]; auto.
    apply strict_graph_split. eapply strict_graph_seq_set_depot; eauto.
Qed.

Lemma run_strict_core ops g : Inv g -> strict_core g -> strict_core (run (Seq true) ops g).
Proof.
  unfold run. revert g; induction ops as [|o ops IH]; simpl; intros g HI Hc; auto.
  apply IH; [apply step_inv; exact HI | apply step_strict_core; auto].
Qed.

(* every history of add_node / add_arc / set_depot on a strict object -- created on any well-formed
   graph, the depot chosen or moved at any time -- yields a graph satisfying strict_graph as soon as the
   arc currently stored under (0,0) keeps a waiting vehicle inside the depot window *)
Theorem strict_graph_all_histories g0 g1 ops :
  Inv g0 -> seq_init true g0 = Ok g1 ->
  let g := run (Seq true) ops g1 in
  Inv g /\ strict_core g /\ (depot_self_ok g -> strict_graph g).
Proof.
  intros HI H0 g. pose proof (seq_init_inv _ _ _ HI H0) as HI1.
  assert (Hc : strict_core g) by (apply run_strict_core; [exact HI1 | exact (seq_init_strict_core _ _ HI H0)]).
  split; [apply run_inv; exact HI1|]. split; [exact Hc|].
  intros Hs. apply strict_graph_split. auto.
Qed.

(* ... and a history that ends with a set_depot call yields it unconditionally *)
Theorem strict_graph_after_set_depot g0 g1 ops nm g :
  Inv g0 -> seq_init true g0 = Ok g1 ->
  seq_set_depot true (run (Seq true) ops g1) nm = Ok g -> strict_graph g.
Proof.
  intros HI H0 H. destruct (strict_graph_all_histories g0 g1 ops HI H0) as (HIr & Hc & _).
  eapply strict_graph_seq_set_depot; eauto.
Qed.

(* strict timing along every walk, for every history *)
Theorem strict_time_all_histories g0 g1 ops V L vc W v :
  Inv g0 -> seq_init true g0 = Ok g1 ->
  let I := mkInst (run (Seq true) ops g1) V L vc in
  depot_self_ok (ig I) -> walk_assignment I W -> (v < iV I)%nat ->
  forall s, (s < iL I)%nat ->
    nlo (node_at I (W v s)) <= arrival I (W v) s /\
    ext_le (Fin (arrival I (W v) s)) (nhi (node_at I (W v s))).
Proof.
  intros HI H0 I Hs HW Hv.
  destruct (strict_graph_all_histories g0 g1 ops HI H0) as (HIr & Hc & Hsg).
  apply strict_time; auto. apply windows_ok_of_inv. exact HIr.
Qed.

(* ================================================================== *)
(** * 13. Strict timing along the ROUTE of a walk, without any hypothesis on the depot self-arc *)

(* position s lies on the route of the walk: the vehicle is used (it leaves the depot at position 0) and has
   not been back at the depot before s; s itself may be the position of the return.  What is excluded are
   only the waiting moves depot -> depot, which are no moves of the underlying VRPTW *)
Definition on_route (W : nat -> nat) (s : nat) : Prop :=
  W 1%nat <> 0%nat /\ forall s', (1 <= s' < s)%nat -> W s' <> 0%nat.

Theorem strict_time_route I W v :
  strict_core (ig I) -> windows_ok (ig I) -> walk_assignment I W -> (v < iV I)%nat ->
  forall s, (s < iL I)%nat -> on_route (W v) s ->
    nlo (node_at I (W v s)) <= arrival I (W v) s /\
    ext_le (Fin (arrival I (W v) s)) (nhi (node_at I (W v s))).
Proof.
  intros Hst Hwin HW Hv. induction s as [|s IH]; intros Hs [Hused Hroute].
  - cbn [arrival]. split; [lia|]. apply Hwin. apply (wa_node I W HW); auto.
  - assert (Hr' : on_route (W v) s) by (split; [exact Hused | intros s' Hs'; apply Hroute; lia]).
    destruct (IH ltac:(lia) Hr') as [_ IH2]. cbn [arrival]. split; [apply Z.le_max_l|].
    apply ext_max; [apply Hwin; apply (wa_node I W HW); auto|].
    pose proof (wa_is_arc I W v s HW Hv Hs) as Ha. apply check_arc_iff in Ha.
    unfold check_arc, dict_mem in Ha. unfold tt.
    destruct (dict_get (W v s, W v (S s)) (arcs (ig I))) as [a|] eqn:Eg; [|discriminate].
    apply dict_get_In in Eg. destruct (Hst _ _ _ Eg) as (C1 & C2).
    unfold node_at in *. fold (gnode (ig I)) in *.
    destruct (Nat.eq_dec (W v s) 0) as [E0|E0].
    + destruct s as [|s].
      * cbn [arrival]. rewrite E0. apply C2; auto.
      * exfalso. apply (Hroute (S s)); [lia | exact E0].
    + eapply ext_step; [exact IH2 | apply C1; auto].
Qed.

(* ... for every history of a strict object, the depot chosen or moved at any time, whatever arc is stored
   under (0,0): every vehicle reaches every stop of its route, and the depot at the end of it, inside the window *)
Theorem strict_time_route_all_histories g0 g1 ops V L vc W v :
  Inv g0 -> seq_init true g0 = Ok g1 ->
  let I := mkInst (run (Seq true) ops g1) V L vc in
  walk_assignment I W -> (v < iV I)%nat ->
  forall s, (s < iL I)%nat -> on_route (W v) s ->
    nlo (node_at I (W v s)) <= arrival I (W v) s /\
    ext_le (Fin (arrival I (W v) s)) (nhi (node_at I (W v s))).
Proof.
  intros HI H0 I HW Hv.
  destruct (strict_graph_all_histories g0 g1 ops HI H0) as (HIr & Hc & _).
  apply strict_time_route; auto. apply windows_ok_of_inv. exact HIr.
Qed.
