(* Routes_close_facts.v -- C08, closing hypotheses of the sequence-based corollaries:
   1. the strict view (seq_view_strict) is PROVED for the object the strict constructor builds
      (every arc the re-filtering loop stores is an arc of the handed-over graph, same key, same data),
      together with strict_graph / windows_ok (the hypotheses of C07_strict_time);
   2. the sequence QUBO theorems are composed with the coefficient bound of the sequence MODEL
      (Compose_seq_facts.seq_coeff_bound_model = C04_seq_coeff_bound), so that S is
      get_sufficient_penalty(False) = S_seq(L, arc costs, vehicle costs) and no bound is assumed. *)
From Coq Require Import ZArith List Bool Lia.
From VQ Require Import Base LinAlg Vrptw Vrptw_facts Path Path_facts Penalty Penalty_facts
                       Routes Routes_facts Routes_views Routes_seq_facts.
From VQ Require Arc_facts Seq Seq_facts Compose_seq_facts.
Import ListNotations.
Open Scope Z_scope.

(* ====================================================================== *)
(* 1. the strict constructor                                               *)
(* ====================================================================== *)
(* the position of an endpoint name is the position the arc is stored under *)
Lemma endpoint_index g i n :
  Inv g -> nth_error (nodes g) i = Some n -> index_of (nname n) (names g) = Some i.
Proof.
  intros HI Hn. apply (index_of_nth_error_NoDup _ (inv_nodup g HI)).
  rewrite (inv_aligned g HI). apply map_nth_error. exact Hn.
Qed.

(* the constructor's loop `for arc in old_arcs.values(): self.add_arc(...)` stores only arcs of the
   handed-over graph, under their old keys, with their old data (and possibly fewer of them) *)
Lemma refilter_sub g0 g1 :
  Inv g0 -> Seq.refilter g0 = Ok g1 ->
  names g1 = names g0 /\ nodes g1 = nodes g0 /\
  forall k a, In (k, a) (arcs g1) -> In (k, a) (arcs g0).
Proof.
  intros HI H. unfold Seq.refilter in H.
  apply (readd_arcs_ind
           (fun g' => names g' = names g0 /\ nodes g' = nodes g0 /\
                      forall k a, In (k, a) (arcs g') -> In (k, a) (arcs g0))
           true (arcs g0)) with (g := mkGraph (names g0) (nodes g0) []); [| |exact H].
  - intros g' [k0 a0] g'' b Hin (En & Ed & Hsub) Ea. cbn [snd] in Ea.
    destruct (inv_arcs g0 HI k0 a0 Hin) as (no & nd & Ho & Hd & Eo & Edn & _).
    unfold add_arc_gen in Ea. rewrite En, Eo, Edn in Ea.
    rewrite (endpoint_index g0 _ no HI Ho), (endpoint_index g0 _ nd HI Hd) in Ea.
    rewrite Ed in Ea.
    rewrite (nth_error_nth _ _ dummy_node _ Ho), (nth_error_nth _ _ dummy_node _ Hd) in Ea.
    match type of Ea with context [if ?p then Ok _ else Ok _] => destruct p end;
      inversion Ea; subst g'' b; clear Ea; cbn [names nodes arcs]; [|auto].
    split; [reflexivity|]. split; [reflexivity|].
    intros k a Hka. apply dict_set_In in Hka. destruct Hka as [E|Hka]; [|apply Hsub; exact Hka].
    inversion E; subst k a. rewrite <- Eo, <- Edn.
    destruct k0 as [i j], a0 as [ao ad at0 ac]. exact Hin.
  - cbn [names nodes arcs]. split; [reflexivity|]. split; [reflexivity|]. intros k a [].
Qed.

(* SequenceBasedRoutingProblem(vrptw, strict=True) on the graph of st (depot first, at least one node), any
   numbers of vehicles and positions, vehicle costs all zero: the strict view holds, and so do the two
   hypotheses of C07_strict_time *)
Theorem seq_view_strict_of_constructor st g' V L vc :
  Inv (pg st) -> nodes (pg st) <> [] ->
  Seq.seq_init true (pg st) = Ok g' -> (forall v, nth v vc 0 = 0) ->
  seq_view_strict st (Seq.mkInst g' V L vc) /\
  Seq_facts.strict_graph g' /\ Seq_facts.windows_ok g'.
Proof.
  intros HI Hne Hinit Hvc.
  pose proof (Seq_facts.seq_init_inv _ _ _ HI Hinit) as HI'.
  unfold Seq.seq_init in Hinit.
  destruct (Seq.refilter (pg st)) as [g1|e] eqn:Er; [|discriminate].
  destruct (refilter_sub _ _ HI Er) as (En & Ed & Hsub).
  pose proof (Seq_facts.refilter_inv _ _ HI Er) as HI1.
  destruct (Seq_facts.refilter_strict_core _ _ Er) as (Hcore & _ & _).
  destruct (names g1) as [|nm rest] eqn:Enames.
  { exfalso. rewrite (inv_aligned _ HI) in En. destruct (nodes (pg st)); [congruence|discriminate En]. }
  assert (Hsg : Seq_facts.strict_graph g')
    by (exact (Seq_facts.strict_graph_seq_set_depot g1 nm g' HI1 Hcore Hinit)).
  split; [|split; [exact Hsg | apply Seq_facts.windows_ok_of_inv; exact HI']].
  unfold seq_set_depot, set_depot in Hinit. rewrite Enames in Hinit. cbn [index_of] in Hinit.
  rewrite Nat.eqb_refl in Hinit. cbn [Nat.eqb negb andb] in Hinit.
  inversion Hinit; subst g'; clear Hinit.
  unfold seq_view_strict. cbn [Seq.ig names nodes arcs].
  split; [exact Ed|]. split; [apply dict_set_NoDup; apply (inv_keys _ HI1)|].
  split; [eexists; split; [apply dict_get_set_same|reflexivity]|].
  split.
  - intros i j a Hij Hget. rewrite (dict_get_set_other _ _ _ _ Hij) in Hget.
    apply Seq_facts.dict_get_In in Hget. apply Hsub in Hget.
    exists a. split; [|split; reflexivity].
    apply (Arc_facts.In_dict_get_NoDup _ _ _ (inv_keys _ HI) Hget).
  - intros v. unfold Seq.vcost. cbn [Seq.ivc]. apply Hvc.
Qed.

Lemma nodes_nonempty st : (1 <= num_nodes st)%nat -> nodes (pg st) <> [].
Proof. unfold num_nodes. destruct (nodes (pg st)); simpl; [lia|discriminate]. Qed.

(* ---------- the strict corollaries for constructor-built objects: no view / strict_graph / windows
   hypothesis is left ---------- *)
Theorem seq_strict_project_constructor st g' V L vc W :
  Inv (pg st) -> (1 <= num_nodes st)%nat ->
  Seq.seq_init true (pg st) = Ok g' -> (forall v, nth v vc 0 = 0) ->
  no_depot_loop st -> capacity_free st -> 0 <= nlo (Path.node_at (pg st) O) -> (2 <= L)%nat ->
  let I := Seq.mkInst g' V L vc in
  Seq.walk_assignment I W ->
  partition st (walk_routes I W) /\ total_cost st (walk_routes I W) = seq_cost I W.
Proof.
  intros HI Hn Hinit Hvc Hloop Hcap Hdep HL I HW.
  destruct (seq_view_strict_of_constructor st g' V L vc HI (nodes_nonempty st Hn) Hinit Hvc) as (Hview & Hsg & Hw).
  exact (seq_strict_project st I W Hloop Hview Hsg Hw Hcap Hdep HL HW).
Qed.

Theorem seq_strict_ge_constructor st g' V L vc v :
  Inv (pg st) -> (1 <= num_nodes st)%nat ->
  Seq.seq_init true (pg st) = Ok g' -> (forall v, nth v vc 0 = 0) ->
  no_depot_loop st -> capacity_free st -> 0 <= nlo (Path.node_at (pg st) O) -> (3 <= L)%nat ->
  (exists x, seq_solution (Seq.mkInst g' V L vc) x v) ->
  exists R, partition st R /\ total_cost st R = v.
Proof.
  intros HI Hn Hinit Hvc Hloop Hcap Hdep HL Hx.
  destruct (seq_view_strict_of_constructor st g' V L vc HI (nodes_nonempty st Hn) Hinit Hvc) as (Hview & Hsg & Hw).
  exact (seq_strict_ge st _ v Hloop Hview Hsg Hw Hcap Hdep Hn HL Hx).
Qed.

(* ====================================================================== *)
(* 2. the sequence QUBOs with S = get_sufficient_penalty(False)            *)
(* ====================================================================== *)
(* S_seq(L, arc costs in dict order, vehicle costs) *)
Notation seq_S := Compose_seq_facts.seq_S.

Theorem seq_nonstrict_qubo_le_closed st I E :
  Inv (pg st) -> no_depot_loop st -> seq_view st I ->
  (1 <= num_nodes st)%nat -> (3 <= Seq.iL I)%nat ->
  (num_nodes st - 1 <= Seq.iV I)%nat -> (num_nodes st - 1 + 2 <= Seq.iL I)%nat ->
  length (Seq.ivc I) = Seq.iV I ->
  Seq.R_entries I = Ok E ->
  forall R x, partition st R -> sys_qubo_min (seq_sys I E) (seq_S I) x ->
    sys_qubo_value (seq_sys I E) (seq_S I) x <= total_cost st R /\
    exists W, Seq.walk_assignment I W /\ seq_cost I W = sys_qubo_value (seq_sys I E) (seq_S I) x.
Proof.
  intros HI Hl Hv Hn HL3 HV HL Hvc HE.
  exact (seq_nonstrict_qubo_le st I E (seq_S I) HI Hl Hv Hn HL3 HV HL HE
           (Compose_seq_facts.seq_coeff_bound_model I Hvc)).
Qed.

Theorem seq_strict_qubo_ge_closed st I E :
  no_depot_loop st -> seq_view_strict st I ->
  Seq_facts.strict_graph (Seq.ig I) -> Seq_facts.windows_ok (Seq.ig I) ->
  capacity_free st -> 0 <= nlo (Path.node_at (pg st) O) ->
  (1 <= num_nodes st)%nat -> (3 <= Seq.iL I)%nat ->
  length (Seq.ivc I) = Seq.iV I ->
  Seq.R_entries I = Ok E ->
  (exists z v, seq_solution I z v) ->
  forall x, sys_qubo_min (seq_sys I E) (seq_S I) x ->
    exists R, partition st R /\ total_cost st R = sys_qubo_value (seq_sys I E) (seq_S I) x.
Proof.
  intros Hl Hv Hsg Hw Hc Hd Hn HL Hvc HE.
  exact (seq_strict_qubo_ge st I E (seq_S I) Hl Hv Hsg Hw Hc Hd Hn HL HE
           (Compose_seq_facts.seq_coeff_bound_model I Hvc)).
Qed.

(* both for the objects the two constructors build on the VRPTW graph of st, with vehicle_cost = V zeros *)
Theorem seq_nonstrict_qubo_le_constructor st g' V L vc E :
  Inv (pg st) -> (1 <= num_nodes st)%nat -> no_depot_loop st ->
  Seq.seq_init false (pg st) = Ok g' -> (forall v, nth v vc 0 = 0) -> length vc = V ->
  (3 <= L)%nat -> (num_nodes st - 1 <= V)%nat -> (num_nodes st - 1 + 2 <= L)%nat ->
  let I := Seq.mkInst g' V L vc in
  Seq.R_entries I = Ok E ->
  forall R x, partition st R -> sys_qubo_min (seq_sys I E) (seq_S I) x ->
    sys_qubo_value (seq_sys I E) (seq_S I) x <= total_cost st R /\
    exists W, Seq.walk_assignment I W /\ seq_cost I W = sys_qubo_value (seq_sys I E) (seq_S I) x.
Proof.
  intros HI Hn Hl Hinit Hvc Hlen HL3 HV HL I HE.
  pose proof (seq_view_of_constructor st g' V L vc HI (nodes_nonempty st Hn) Hinit Hvc) as Hview.
  exact (seq_nonstrict_qubo_le_closed st I E HI Hl Hview Hn HL3 HV HL Hlen HE).
Qed.

Theorem seq_strict_qubo_ge_constructor st g' V L vc E :
  Inv (pg st) -> (1 <= num_nodes st)%nat -> no_depot_loop st ->
  Seq.seq_init true (pg st) = Ok g' -> (forall v, nth v vc 0 = 0) -> length vc = V ->
  capacity_free st -> 0 <= nlo (Path.node_at (pg st) O) -> (3 <= L)%nat ->
  let I := Seq.mkInst g' V L vc in
  Seq.R_entries I = Ok E ->
  (exists z v, seq_solution I z v) ->
  forall x, sys_qubo_min (seq_sys I E) (seq_S I) x ->
    exists R, partition st R /\ total_cost st R = sys_qubo_value (seq_sys I E) (seq_S I) x.
Proof.
  intros HI Hn Hl Hinit Hvc Hlen Hcap Hdep HL I HE.
  destruct (seq_view_strict_of_constructor st g' V L vc HI (nodes_nonempty st Hn) Hinit Hvc) as (Hview & Hsg & Hw).
  exact (seq_strict_qubo_ge_closed st I E Hl Hview Hsg Hw Hcap Hdep Hn HL Hlen HE).
Qed.

(* the non-strict statement for the constructor-built object *)
Theorem seq_nonstrict_le_constructor st g' V L vc v :
  Inv (pg st) -> (1 <= num_nodes st)%nat -> no_depot_loop st ->
  Seq.seq_init false (pg st) = Ok g' -> (forall v, nth v vc 0 = 0) ->
  (3 <= L)%nat -> (num_nodes st - 1 <= V)%nat -> (num_nodes st - 1 + 2 <= L)%nat ->
  (exists R, partition st R /\ total_cost st R = v) ->
  exists x, seq_solution (Seq.mkInst g' V L vc) x v.
Proof.
  intros HI Hn Hl Hinit Hvc HL3 HV HL.
  pose proof (seq_view_of_constructor st g' V L vc HI (nodes_nonempty st Hn) Hinit Hvc) as Hview.
  exact (seq_nonstrict_le st _ HI Hl Hview v Hn HL3 HV HL).
Qed.
