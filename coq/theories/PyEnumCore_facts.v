(* PyEnumCore_facts.v -- lemmas about the generic Python combinators of PyEnumCore.v *)
From VQ Require Import Base PyEnumCore.

(* a loop whose body never breaks is a fold *)
Lemma py_for_fold {A S} (body : A -> S -> ctl * S) (f : S -> A -> S) l :
  (forall e st, In e l -> body e st = (CNext, f st e)) ->
  forall st, py_for body l st = fold_left f l st.
Proof.
  induction l as [|e l IH]; intros H st; simpl; [reflexivity|].
  rewrite H by (left; reflexivity). apply IH. intros; apply H; right; assumption.
Qed.

(* the same through a change of state representation *)
Lemma py_for_fold_lift {A S T} (lift : T -> S) (body : A -> S -> ctl * S) (f : T -> A -> T) l :
  (forall e st, In e l -> body e (lift st) = (CNext, lift (f st e))) ->
  forall st, py_for body l (lift st) = lift (fold_left f l st).
Proof.
  induction l as [|e l IH]; intros H st; simpl; [reflexivity|].
  rewrite H by (left; reflexivity). apply IH. intros; apply H; right; assumption.
Qed.

Lemma py_find_index_ext {A} (e1 e2 : A -> A -> bool) x l :
  (forall y, e1 x y = e2 x y) -> py_find_index e1 x l = py_find_index e2 x l.
Proof.
  intros H. induction l as [|y l IH]; simpl; [reflexivity|].
  rewrite H, IH. reflexivity.
Qed.

Lemma py_any_map_false {A} (f : A -> bool) l :
  py_any (map f l) = false -> find f l = None.
Proof.
  unfold py_any. induction l as [|a l IH]; simpl; [reflexivity|].
  destruct (f a); simpl; [discriminate | exact IH].
Qed.

(* `arr[np.argmax(mask)]` behind `any(mask)`: the first element satisfying the test *)
Lemma np_argmax_find {A} (f : A -> bool) l d :
  py_any (map f l) = true ->
  find f l = Some (nth (np_argmax_bool (map f l)) l d).
Proof.
  unfold py_any. induction l as [|a l IH]; simpl; [discriminate|].
  destruct (f a) eqn:E; simpl; [reflexivity|].
  intros H. unfold py_any. rewrite H. apply IH. exact H.
Qed.

Lemma py_for_map {A B S} (f : A -> B) (body : B -> S -> ctl * S) l st :
  py_for body (map f l) st = py_for (fun a => body (f a)) l st.
Proof.
  revert st; induction l as [|a l IH]; intros st; simpl; [reflexivity|].
  destruct (body (f a) st) as [[|] st']; [apply IH | reflexivity].
Qed.

Lemma py_for_ext {A S} (b1 b2 : A -> S -> ctl * S) l st :
  (forall e st', In e l -> b1 e st' = b2 e st') -> py_for b1 l st = py_for b2 l st.
Proof.
  revert st; induction l as [|a l IH]; intros st H; simpl; [reflexivity|].
  rewrite H by (left; reflexivity). destruct (b2 a st) as [[|] st']; [|reflexivity].
  apply IH. intros; apply H; right; assumption.
Qed.
