(* PyEnumCore.v -- Python-semantics combinators shared by the GENERATED models of the variable
   enumerations (coq/gen/ArcGen.v, coq/gen/SeqGen.v; translators harness/translate_arcenum.py and
   harness/translate_seqenum.py).  Definitions only; lemmas live in PyEnumCore_facts.v.

   The translators print the statement structure of the Python source 1:1 into these combinators; what
   a Python construct MEANS is fixed here:

   * `for x in l: body`           py_for body l st    -- st is the tuple of everything the body may
     change (the object `self` and the locals it assigns); the body returns a control flag with the
     new state: CNext = fell off the end of the body or executed `continue`, CBreak = executed `break`
     (an early exit: the remaining elements are not visited);
   * `l.append(x)`                py_append l x
   * `range(n)`, `range(a, b)`    py_range / py_range2 on naturals, py_range_z / py_range2_z when the
     bound was computed with a subtraction (Python integers: `range` of a negative bound is empty);
   * `l.index(x)`                 py_list_index eqb x l   (first position, miss -> ValueError)
   * `l[k]` (k >= 0)              py_list_item l k        (beyond the end -> IndexError)
   * `try: return e  except C: h` py_try e ok C h uncaught
   * `d.keys()`, `k in d`         py_dict_keys, py_dict_contains (insertion ordered dict of Base.v)
   * comparisons on floats that may be `inf` (Base.ext): ext_ltb / ext_gtb / ext_geb / ext_neb next to
     Base.ext_leb / ext_eqb (a total order: `a > b` is `not (a <= b)`);
   * `any(l)`, `np.argmax(l)` on a boolean array, `arr >= x` on an array (element-wise). *)
From VQ Require Import Base.

Inductive ctl := CNext | CBreak.

Fixpoint py_for {A S : Type} (body : A -> S -> ctl * S) (l : list A) (st : S) : S :=
  match l with
  | [] => st
  | e :: l' =>
      match body e st with
      | (CBreak, st') => st'
      | (CNext, st') => py_for body l' st'
      end
  end.

Definition py_append {A} (l : list A) (x : A) : list A := l ++ [x].

Definition py_range (n : nat) : list nat := seq 0 n.
Definition py_range2 (a b : nat) : list nat := seq a (b - a).
(* the bound is a Python integer that may be negative *)
Definition py_range_z (z : Z) : list nat := seq 0 (Z.to_nat z).
Definition py_range2_z (a b : Z) : list nat := seq (Z.to_nat a) (Z.to_nat b - Z.to_nat a).

Definition py_dict_keys {V} (d : dict V) : list (nat * nat) := map fst d.
Definition py_dict_values {V} (d : dict V) : list V := map snd d.
Definition py_dict_contains {V} (k : nat * nat) (d : dict V) : bool := dict_mem k d.

(* list.index: first position *)
Fixpoint py_find_index {A} (eqb : A -> A -> bool) (x : A) (l : list A) : option nat :=
  match l with
  | [] => None
  | y :: l' => if eqb x y then Some O else option_map S (py_find_index eqb x l')
  end.
Definition py_list_index {A} (eqb : A -> A -> bool) (x : A) (l : list A) : result nat :=
  match py_find_index eqb x l with Some k => Ok k | None => Err ValueError end.
Definition py_list_contains {A} (eqb : A -> A -> bool) (x : A) (l : list A) : bool :=
  existsb (eqb x) l.
Definition py_list_item {A} (l : list A) (k : nat) : result A :=
  match nth_error l k with Some a => Ok a | None => Err IndexError end.

(* try: return <r>   except cls: <handler>      (any other exception class propagates) *)
Definition py_try {A B} (r : result A) (ok : A -> B) (cls : errcls) (handler : B) (uncaught : errcls -> B) : B :=
  match r with
  | Ok a => ok a
  | Err e => if errcls_eqb e cls then handler else uncaught e
  end.
(* return <r> outside any try *)
Definition py_raising {A B} (r : result A) (ok : A -> B) (uncaught : errcls -> B) : B :=
  match r with Ok a => ok a | Err e => uncaught e end.

(* floats with inf *)
Definition ext_gtb (a b : ext) : bool := negb (ext_leb a b).
Definition ext_ltb (a b : ext) : bool := negb (ext_leb b a).
Definition ext_geb (a b : ext) : bool := ext_leb b a.
Definition ext_neb (a b : ext) : bool := negb (ext_eqb a b).
Definition ext_max (a b : ext) : ext := if ext_leb a b then b else a.
Definition ext_min (a b : ext) : ext := if ext_leb a b then a else b.

(* numpy on 1-d arrays *)
Definition np_map_scalar {A B} (f : A -> B -> bool) (l : list A) (x : B) : list bool := map (fun a => f a x) l.
Definition py_any (l : list bool) : bool := existsb (fun b => b) l.
Definition py_all (l : list bool) : bool := forallb (fun b => b) l.
(* np.argmax of a boolean array: the first True, 0 when there is none *)
Fixpoint np_argmax_bool (l : list bool) : nat :=
  match l with
  | [] => O
  | true :: _ => O
  | false :: l' => if py_any l' then S (np_argmax_bool l') else O
  end.

(* equality of Python tuples, component-wise *)
Definition py_pair_eqb {A B} (ea : A -> A -> bool) (eb : B -> B -> bool) (x y : A * B) : bool :=
  ea (fst x) (fst y) && eb (snd x) (snd y).
