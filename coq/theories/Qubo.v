(* Qubo.v -- model of /repo/src/vrpqubo/tools/qubo_tools.py  (properties C01 and C13).

   DEFINITIONS ONLY (proofs are in Qubo_facts.v).

   Python                               model
   ------------------------------------ -------------------------------------------
   x_to_s, s_to_x                       x2s, s2x        (x2s_t, s2x_t with astype(int), Qc only)
   evaluate_QUBO, evaluate_Ising        eQ, eI
   QUBO_to_Ising                        q2i_J, q2i_h, q2i_c, q2i, q2i_checked
   Ising_to_QUBO                        i2q_Q, i2q_c, i2q, i2q_checked
   to_upper_triangular                  upper, upper_checked
   to_symmetric                         sym, sym_checked
   pattern.lower() == "..."             lower, classify : string -> pattern
   QUBOContainer.__init__               cQ, cJ, ch, cc, container_init
   QUBOContainer.evaluate_QUBO/Ising    eQ / eI on the container's fields

   Matrices are functions nat -> nat -> K of explicit size n, vectors nat -> K (LinAlg.v); a
   scipy container is taken at its dense meaning.  The section is generic over the carrier K
   and its operations (two distinguished elements half, quarter stand for 0.5 and 0.25); the
   instances at Qc (computable, used by the correspondence) and at R follow the section. *)
From Coq Require Import Arith List Bool String Ascii QArith Qcanon Reals.
From VQ Require Import Base LinAlg.
Import ListNotations.

(* ---------- the pattern option of QUBOContainer: a Python str ---------- *)
Inductive pattern := PUpper | PSym | POther.

Definition pattern_eqb (a b : pattern) : bool :=
  match a, b with
  | PUpper, PUpper | PSym, PSym | POther, POther => true
  | _, _ => false
  end.

(* str.lower() on ASCII text: 'A'..'Z' (65..90) -> +32, everything else unchanged *)
Definition lower_ascii (c : ascii) : ascii :=
  let k := nat_of_ascii c in
  if (Nat.leb 65 k && Nat.leb k 90)%bool then ascii_of_nat (k + 32)%nat else c.

Fixpoint lower (s : string) : string :=
  match s with
  | EmptyString => EmptyString
  | String c s' => String (lower_ascii c) (lower s')
  end.

(* if pattern.lower() == "upper-triangular": ... elif pattern.lower() == "symmetric": ... else: ... *)
Definition classify (s : string) : pattern :=
  if String.eqb (lower s) "upper-triangular" then PUpper
  else if String.eqb (lower s) "symmetric" then PSym
  else POther.

(* (n, m) = M.shape ; if n != m: raise ValueError *)
Definition square (sh : nat * nat) : bool := Nat.eqb (fst sh) (snd sh).

Section Qubo.
  Variables (K : Type) (k0 k1 : K) (kadd kmul ksub : K -> K -> K) (kopp : K -> K).
  Variables (half quarter : K).

  Notation "0" := k0.
  Notation "1" := k1.
  Infix "+" := kadd.
  Infix "*" := kmul.
  Infix "-" := ksub.
  Notation "- x" := (kopp x).
  Notation vec := (LinAlg.vec K).
  Notation mat := (LinAlg.mat K).
  Notation sum_n := (LinAlg.sum_n k0 kadd).
  Notation qf := (LinAlg.qf K k0 kadd kmul).
  Notation dot := (LinAlg.dot K k0 kadd kmul).
  Notation total := (LinAlg.total K k0 kadd).
  Notation trace := (LinAlg.trace K k0 kadd).

  Definition two : K := 1 + 1.
  Definition four : K := two + two.

  (* x_to_s: 1 - 2*x ;  s_to_x: 0.5*(1 - s)   (the astype(int) is the identity on integer
     vectors; the literal version with truncation is x2s_t / s2x_t below, for Qc) *)
  Definition x2s (x : vec) : vec := fun i => 1 - two * x i.
  Definition s2x (s : vec) : vec := fun i => half * (1 - s i).

  (* evaluate_QUBO: Q.dot(x).dot(x) + c ;  evaluate_Ising: J.dot(s).dot(s) + h.dot(s) + c *)
  Definition eQ (n : nat) (Q : mat) (c : K) (x : vec) : K := qf n Q x + c.
  Definition eI (n : nat) (J : mat) (h : vec) (c : K) (s : vec) : K := qf n J s + dot n h s + c.

  (* M.sum(0)[i] and M.sum(1)[i] *)
  Definition colsum (n : nat) (M : mat) : vec := fun i => sum_n n (fun k => M k i).
  Definition rowsum (n : nat) (M : mat) : vec := fun i => sum_n n (fun k => M i k).

  (* QUBO_to_Ising:  J = 0.25*Q; J.setdiag(0)
                     h = -0.25*(Q.sum(0) + Q.sum(1))
                     c = 0.25*(Q.sum() + Q.diagonal().sum()) + const *)
  Definition q2i_J (Q : mat) : mat := fun i j => if Nat.eqb i j then 0 else quarter * Q i j.
  Definition q2i_h (n : nat) (Q : mat) : vec := fun i => (- quarter) * (colsum n Q i + rowsum n Q i).
  Definition q2i_c (n : nat) (Q : mat) (c : K) : K := quarter * (total n Q + trace n Q) + c.
  Definition q2i (n : nat) (Q : mat) (c : K) : mat * vec * K := (q2i_J Q, q2i_h n Q, q2i_c n Q c).

  (* Ising_to_QUBO:  Q = 4*J - 2*diags(J.sum(0) + J.sum(1) + h) ;  c = J.sum() + h.sum() + const *)
  Definition i2q_Q (n : nat) (J : mat) (h : vec) : mat :=
    fun i j => four * J i j - (if Nat.eqb i j then two * (colsum n J i + rowsum n J i + h i) else 0).
  Definition i2q_c (n : nat) (J : mat) (h : vec) (c : K) : K := total n J + sum_n n h + c.
  Definition i2q (n : nat) (J : mat) (h : vec) (c : K) : mat * K := (i2q_Q n J h, i2q_c n J h c).

  (* to_upper_triangular:  LT = tril(M, k=-1) ;  UT = M + LT.transpose() - LT *)
  Definition strict_lower (M : mat) : mat := fun i j => if Nat.ltb j i then M i j else 0.
  Definition upper (M : mat) : mat := fun i j => M i j + strict_lower M j i - strict_lower M i j.

  (* to_symmetric:  S = M ; S += S.transpose() ; S *= 0.5 *)
  Definition sym (M : mat) : mat := fun i j => (M i j + M j i) * half.

  (* the shape tests of the entry points *)
  Definition q2i_checked (sh : nat * nat) (Q : mat) (c : K) : result (mat * vec * K) :=
    if square sh then Ok (q2i (fst sh) Q c) else Err ValueError.
  Definition i2q_checked (sh : nat * nat) (hlen : nat) (J : mat) (h : vec) (c : K) : result (mat * K) :=
    if negb (square sh) then Err ValueError
    else if negb (Nat.eqb (fst sh) hlen) then Err ValueError
    else Ok (i2q (fst sh) J h c).
  Definition upper_checked (sh : nat * nat) (M : mat) : result mat :=
    if square sh then Ok (upper M) else Err ValueError.
  Definition sym_checked (sh : nat * nat) (M : mat) : result mat :=
    if square sh then Ok (sym M) else Err ValueError.

  (* QUBOContainer.__init__ : pattern dispatch, then QUBO_to_Ising(self.Q, self.const_qubo) *)
  Definition cQ (p : pattern) (M : mat) : mat :=
    match p with PUpper => upper M | PSym => sym M | POther => M end.
  Definition cJ (p : pattern) (M : mat) : mat := q2i_J (cQ p M).
  Definition ch (n : nat) (p : pattern) (M : mat) : vec := q2i_h n (cQ p M).
  Definition cc (n : nat) (p : pattern) (M : mat) (c : K) : K := q2i_c n (cQ p M) c.

  (* fields of the object: (Q, const_qubo, J, h, const_ising) *)
  Definition container_init (sh : nat * nat) (pat : string) (M : mat) (c : K)
    : result (mat * K * mat * vec * K) :=
    if square sh then
      let n := fst sh in
      let p := classify pat in
      Ok (cQ p M, c, cJ p M, ch n p M, cc n p M c)
    else Err ValueError.
End Qubo.

(* ====================================================================================== *)
(* Instance at Qc (canonical rationals): computable, axiom-free; used by the correspondence *)
(* ====================================================================================== *)
Definition Qc_half : Qc := Q2Qc (1 # 2)%Q.
Definition Qc_quarter : Qc := Q2Qc (1 # 4)%Q.

Definition x2s_Qc := x2s Qc 1%Qc Qcplus Qcmult Qcminus.
Definition s2x_Qc := s2x Qc 1%Qc Qcmult Qcminus Qc_half.
Definition eQ_Qc := eQ Qc 0%Qc Qcplus Qcmult.
Definition eI_Qc := eI Qc 0%Qc Qcplus Qcmult.
Definition q2i_J_Qc := q2i_J Qc 0%Qc Qcmult Qc_quarter.
Definition q2i_h_Qc := q2i_h Qc 0%Qc Qcplus Qcmult Qcopp Qc_quarter.
Definition q2i_c_Qc := q2i_c Qc 0%Qc Qcplus Qcmult Qc_quarter.
Definition q2i_Qc := q2i Qc 0%Qc Qcplus Qcmult Qcopp Qc_quarter.
Definition i2q_Q_Qc := i2q_Q Qc 0%Qc 1%Qc Qcplus Qcmult Qcminus.
Definition i2q_c_Qc := i2q_c Qc 0%Qc Qcplus.
Definition i2q_Qc := i2q Qc 0%Qc 1%Qc Qcplus Qcmult Qcminus.
Definition upper_Qc := upper Qc 0%Qc Qcplus Qcminus.
Definition sym_Qc := sym Qc Qcplus Qcmult Qc_half.
Definition q2i_checked_Qc := q2i_checked Qc 0%Qc Qcplus Qcmult Qcopp Qc_quarter.
Definition i2q_checked_Qc := i2q_checked Qc 0%Qc 1%Qc Qcplus Qcmult Qcminus.
Definition upper_checked_Qc := upper_checked Qc 0%Qc Qcplus Qcminus.
Definition sym_checked_Qc := sym_checked Qc Qcplus Qcmult Qc_half.
Definition cQ_Qc := cQ Qc 0%Qc Qcplus Qcmult Qcminus Qc_half.
Definition cJ_Qc := cJ Qc 0%Qc Qcplus Qcmult Qcminus Qc_half Qc_quarter.
Definition ch_Qc := ch Qc 0%Qc Qcplus Qcmult Qcminus Qcopp Qc_half Qc_quarter.
Definition cc_Qc := cc Qc 0%Qc Qcplus Qcmult Qcminus Qc_half Qc_quarter.
Definition container_init_Qc := container_init Qc 0%Qc Qcplus Qcmult Qcminus Qcopp Qc_half Qc_quarter.

(* ndarray.astype(int) on a rational: truncation towards zero *)
Definition trunc_Qc (q : Qc) : Qc := Q2Qc (inject_Z (Z.quot (Qnum q) (Zpos (Qden q)))).
(* x_to_s / s_to_x literally:  (1 - 2*x).astype(int)   and   0.5 * (1 - s).astype(int) *)
Definition x2s_t (x : nat -> Qc) : nat -> Qc := fun i => trunc_Qc (1 - (1 + 1) * x i)%Qc.
Definition s2x_t (s : nat -> Qc) : nat -> Qc := fun i => (Qc_half * trunc_Qc (1 - s i))%Qc.

(* ====================================================================================== *)
(* Instance at R (stdlib reals): the "all real matrices" claim                             *)
(* ====================================================================================== *)
Definition R_half : R := (/ 2)%R.
Definition R_quarter : R := (/ 4)%R.

Definition x2s_R := x2s R 1%R Rplus Rmult Rminus.
Definition s2x_R := s2x R 1%R Rmult Rminus R_half.
Definition eQ_R := eQ R 0%R Rplus Rmult.
Definition eI_R := eI R 0%R Rplus Rmult.
Definition q2i_J_R := q2i_J R 0%R Rmult R_quarter.
Definition q2i_h_R := q2i_h R 0%R Rplus Rmult Ropp R_quarter.
Definition q2i_c_R := q2i_c R 0%R Rplus Rmult R_quarter.
Definition i2q_Q_R := i2q_Q R 0%R 1%R Rplus Rmult Rminus.
Definition i2q_c_R := i2q_c R 0%R Rplus.
Definition upper_R := upper R 0%R Rplus Rminus.
Definition sym_R := sym R Rplus Rmult R_half.
Definition cQ_R := cQ R 0%R Rplus Rmult Rminus R_half.
Definition cJ_R := cJ R 0%R Rplus Rmult Rminus R_half R_quarter.
Definition ch_R := ch R 0%R Rplus Rmult Rminus Ropp R_half R_quarter.
Definition cc_R := cc R 0%R Rplus Rmult Rminus R_half R_quarter.
Definition container_init_R := container_init R 0%R Rplus Rmult Rminus Ropp R_half R_quarter.

(* ====================================================================================== *)
(* Explicit dense data and the correspondence checkers (Qc)                                *)
(* ====================================================================================== *)
Definition dvec := list Qc.
Definition dmat := list (list Qc).

Definition vec_of (l : dvec) : nat -> Qc := fun i => nth i l 0%Qc.
Definition mat_of (l : dmat) : nat -> nat -> Qc := fun i j => nth j (nth i l []) 0%Qc.
Definition dense_vec (n : nat) (v : nat -> Qc) : dvec := map v (seq 0 n).
Definition dense_mat (r c : nat) (M : nat -> nat -> Qc) : dmat :=
  map (fun i => map (fun j => M i j) (seq 0 c)) (seq 0 r).

Definition qc_eqb (a b : Qc) : bool := Qc_eq_bool a b.
Definition dvec_eqb := list_eqb qc_eqb.
Definition dmat_eqb := list_eqb dvec_eqb.

(* ---- C01 ----
   one case = one matrix in one container type:
     shape, Q, const                          input of QUBO_to_Ising
     impl (J, h, c) or the exception class
     hlen, J0, h0, const0                     input of Ising_to_QUBO (same shape; J0 has any diagonal)
     impl (Q', c') or the exception class
     evaluations: for each listed vector x (all 2^n binary ones, in the harness):
        x, impl x_to_s(x), impl s_to_x(x_to_s(x)), impl evaluate_QUBO(Q, const, x),
        impl evaluate_Ising(J0, h0, const0, x_to_s(x))
     extra vectors (non-integer entries): v, impl x_to_s(v), impl s_to_x(v)            *)
Definition q2i_obs := result (dmat * dvec * Qc).
Definition i2q_obs := result (dmat * Qc).
Definition c01_eval := (dvec * dvec * dvec * Qc * Qc)%type.
Definition c01_map := (dvec * dvec * dvec)%type.
Definition c01case :=
  ((nat * nat) * dmat * Qc * q2i_obs * (nat * dmat * dvec * Qc) * i2q_obs * list c01_eval * list c01_map)%type.

Definition q2i_obs_eqb : q2i_obs -> q2i_obs -> bool :=
  result_eqb (fun a b => dmat_eqb (fst (fst a)) (fst (fst b)) && dvec_eqb (snd (fst a)) (snd (fst b))
                         && qc_eqb (snd a) (snd b)).
Definition i2q_obs_eqb : i2q_obs -> i2q_obs -> bool :=
  result_eqb (fun a b => dmat_eqb (fst a) (fst b) && qc_eqb (snd a) (snd b)).

Definition model_q2i (sh : nat * nat) (Q : dmat) (c : Qc) : q2i_obs :=
  match q2i_checked_Qc sh (mat_of Q) c with
  | Ok (J, h, c') => Ok (dense_mat (fst sh) (fst sh) J, dense_vec (fst sh) h, c')
  | Err e => Err e
  end.
Definition model_i2q (sh : nat * nat) (hlen : nat) (J : dmat) (h : dvec) (c : Qc) : i2q_obs :=
  match i2q_checked_Qc sh hlen (mat_of J) (vec_of h) c with
  | Ok (Q, c') => Ok (dense_mat (fst sh) (fst sh) Q, c')
  | Err e => Err e
  end.

(* tags: 1 QUBO_to_Ising, 2 Ising_to_QUBO, 3 x_to_s, 4 s_to_x, 5 evaluate_QUBO, 6 evaluate_Ising,
         7 x_to_s on a non-integer vector, 8 s_to_x on a non-integer vector *)
Definition check_c01_eval (n : nat) (Q : dmat) (c : Qc) (J0 : dmat) (h0 : dvec) (c0 : Qc) (e : c01_eval)
  : list nat :=
  match e with
  | (x, s, xb, vq, vi) =>
      let xv := vec_of x in
      let sv := x2s_t xv in
      chk 3 (dvec_eqb (dense_vec n sv) s) ++
      chk 3 (dvec_eqb (dense_vec n (x2s_Qc xv)) s) ++
      chk 4 (dvec_eqb (dense_vec n (s2x_t sv)) xb) ++
      chk 5 (qc_eqb (eQ_Qc n (mat_of Q) c xv) vq) ++
      chk 6 (qc_eqb (eI_Qc n (mat_of J0) (vec_of h0) c0 sv) vi)
  end.

Definition check_c01_map (m : c01_map) : list nat :=
  match m with
  | (v, s, x) =>
      let k := length v in
      chk 7 (dvec_eqb (dense_vec k (x2s_t (vec_of v))) s) ++
      chk 8 (dvec_eqb (dense_vec k (s2x_t (vec_of v))) x)
  end.

Definition check_c01case (cs : c01case) : list nat :=
  match cs with
  | (sh, Q, c, o1, (hlen, J0, h0, c0), o2, evs, maps) =>
      chk 1 (q2i_obs_eqb (model_q2i sh Q c) o1) ++
      chk 2 (i2q_obs_eqb (model_i2q sh hlen J0 h0 c0) o2) ++
      (if square sh then flat_map (check_c01_eval (fst sh) Q c J0 h0 c0) evs else []) ++
      flat_map check_c01_map maps
  end.

(* ---- C13 ----
   one case = one matrix in one container type:
     shape, M, const
     impl to_upper_triangular(M), to_symmetric(M)  (dense) or the exception class
     evaluations at each listed vector v (all binary ones and some with entries k/2):
        v, evaluate_QUBO(M,const,v), evaluate_QUBO(U,const,v), evaluate_QUBO(S,const,v)
     the vectors at which the containers are evaluated (all binary ones and some with entries k/2)
     for each pattern string tried:
        the string, impl container fields (Q, const_qubo, J, h, const_ising) or the exception class,
        and for each of those vectors v, in order:
        container.evaluate_QUBO(v), container.evaluate_Ising(v)  (v used as it is),
        container.evaluate_Ising(x_to_s(v))                                               *)
Definition mat_obs := result dmat.
Definition cont_obs := result (dmat * Qc * dmat * dvec * Qc).
Definition c13_meval := (dvec * Qc * Qc * Qc)%type.
Definition c13_ceval := (Qc * Qc * Qc)%type.
Definition c13_cont := (string * cont_obs * list c13_ceval)%type.
Definition c13case :=
  ((nat * nat) * dmat * Qc * mat_obs * mat_obs * list c13_meval * list dvec * list c13_cont)%type.

Definition mat_obs_eqb : mat_obs -> mat_obs -> bool := result_eqb dmat_eqb.
Definition cont_obs_eqb : cont_obs -> cont_obs -> bool :=
  result_eqb (fun a b =>
    match a, b with
    | (Q, c, J, h, ci), (Q', c', J', h', ci') =>
        dmat_eqb Q Q' && qc_eqb c c' && dmat_eqb J J' && dvec_eqb h h' && qc_eqb ci ci'
    end).

Definition model_upper (sh : nat * nat) (M : dmat) : mat_obs :=
  match upper_checked_Qc sh (mat_of M) with
  | Ok U => Ok (dense_mat (fst sh) (fst sh) U)
  | Err e => Err e
  end.
Definition model_sym (sh : nat * nat) (M : dmat) : mat_obs :=
  match sym_checked_Qc sh (mat_of M) with
  | Ok Sm => Ok (dense_mat (fst sh) (fst sh) Sm)
  | Err e => Err e
  end.
Definition model_container (sh : nat * nat) (pat : string) (M : dmat) (c : Qc) : cont_obs :=
  match container_init_Qc sh pat (mat_of M) c with
  | Ok (Q, c', J, h, ci) =>
      let n := fst sh in Ok (dense_mat n n Q, c', dense_mat n n J, dense_vec n h, ci)
  | Err e => Err e
  end.

(* tags: 1 to_upper_triangular, 2 to_symmetric, 3 container fields, 4 evaluate_QUBO(M),
         5 evaluate_QUBO(U), 6 evaluate_QUBO(S), 7 container.evaluate_QUBO,
         8 container.evaluate_Ising(v), 9 container.evaluate_Ising(x_to_s(v)),
         10 number of container evaluations *)
Definition check_c13_meval (n : nat) (Mf Uf Sf : nat -> nat -> Qc) (c : Qc) (e : c13_meval) : list nat :=
  match e with
  | (v, vm, vu, vs) =>
      let x := vec_of v in
      chk 4 (qc_eqb (eQ_Qc n Mf c x) vm) ++
      chk 5 (qc_eqb (eQ_Qc n Uf c x) vu) ++
      chk 6 (qc_eqb (eQ_Qc n Sf c x) vs)
  end.

Definition check_c13_ceval (n : nat) (Qf Jf : nat -> nat -> Qc) (hf : nat -> Qc) (c ci : Qc)
  (ve : dvec * c13_ceval) : list nat :=
  match ve with
  | (v, (vcq, vci, vcs)) =>
      let x := vec_of v in
      chk 7 (qc_eqb (eQ_Qc n Qf c x) vcq) ++
      chk 8 (qc_eqb (eI_Qc n Jf hf ci x) vci) ++
      chk 9 (qc_eqb (eI_Qc n Jf hf ci (x2s_t x)) vcs)
  end.

(* the container's fields are tabulated once (dense_mat, dense_vec) and read back with mat_of / vec_of; on
   indices below n this is the same function *)
Definition check_c13_cont (sh : nat * nat) (M : dmat) (c : Qc) (vs : list dvec) (k : c13_cont) : list nat :=
  match k with
  | (pat, oc, evs) =>
      chk 3 (cont_obs_eqb (model_container sh pat M c) oc) ++
      (if square sh then
         let n := fst sh in
         let p := classify pat in
         let Mf := mat_of M in
         let Qd := dense_mat n n (cQ_Qc p Mf) in
         let Jd := dense_mat n n (cJ_Qc p Mf) in
         let hd := dense_vec n (ch_Qc n p Mf) in
         let ci := cc_Qc n p Mf c in
         chk 10 (Nat.eqb (length evs) (length vs)) ++
         flat_map (check_c13_ceval n (mat_of Qd) (mat_of Jd) (vec_of hd) c ci) (combine vs evs)
       else [])
  end.

Definition check_c13case (cs : c13case) : list nat :=
  match cs with
  | (sh, M, c, ou, os, mevs, cvs, conts) =>
      chk 1 (mat_obs_eqb (model_upper sh M) ou) ++
      chk 2 (mat_obs_eqb (model_sym sh M) os) ++
      (if square sh then
         let n := fst sh in
         let Mf := mat_of M in
         let Ud := dense_mat n n (upper_Qc Mf) in
         let Sd := dense_mat n n (sym_Qc Mf) in
         flat_map (check_c13_meval n Mf (mat_of Ud) (mat_of Sd) c) mevs
       else []) ++
      flat_map (check_c13_cont sh M c cvs) conts
  end.

(* the classification alone (strings that are not used to build a container) *)
Definition pattern_code (p : pattern) : nat :=
  match p with PUpper => 1%nat | PSym => 2%nat | POther => 0%nat end.
Definition check_classify (c : string * nat) : list nat :=
  chk 1 (Nat.eqb (pattern_code (classify (fst c))) (snd c)).
