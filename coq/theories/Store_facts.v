(* Store_facts.v -- frame theorem for the object-store model (C16). *)
From VQ Require Import Base Store.

(* ---------- store lemmas ---------- *)
Lemma length_upd l o s : length (upd l o s) = length s.
Proof. revert l; induction s as [|x s IH]; intros [|l]; simpl; auto. Qed.

Lemma rd_upd_other l k o s : l <> k -> rd (upd k o s) l = rd s l.
Proof.
  unfold rd. revert l k; induction s as [|x s IH]; intros l k H; destruct k; simpl; auto.
  - destruct l; [congruence | reflexivity].
  - destruct l; simpl; auto.
Qed.

Lemma rd_upd_same k o s : (k < length s)%nat -> rd (upd k o s) k = Some o.
Proof.
  unfold rd. revert k; induction s as [|x s IH]; intros [|k] H; simpl in *; try lia; auto.
  apply IH. lia.
Qed.

Lemma rd_upd_ge k o s : (length s <= k)%nat -> upd k o s = s.
Proof.
  revert k; induction s as [|x s IH]; intros [|k] H; simpl in *; auto; try lia.
  f_equal. apply IH. lia.
Qed.

Lemma rd_snoc_old l o s : (l < length s)%nat -> rd (s ++ [o]) l = rd s l.
Proof. intros H. unfold rd. apply nth_error_app1. exact H. Qed.

Lemma rd_lt s l o : rd s l = Some o -> (l < length s)%nat.
Proof. unfold rd. intros H. apply nth_error_Some. congruence. Qed.

Definition nongraph (o : obj) : Prop := match o with OGraph _ _ _ => False | _ => True end.

Lemma footprint_has_self s g : In g (footprint s g).
Proof. unfold footprint. destruct (rd s g) as [[]|]; simpl; auto. Qed.

Lemma footprint_upd_nongraph s g k o l :
  nongraph o -> In l (footprint (upd k o s) g) -> In l (footprint s g).
Proof.
  intros Hn. unfold footprint at 1.
  destruct (Nat.eq_dec g k) as [->|Hne].
  - destruct (Nat.lt_ge_cases k (length s)) as [Hlt|Hge].
    + rewrite rd_upd_same by exact Hlt.
      destruct o; simpl in Hn; try contradiction; intros [<-|[]]; apply footprint_has_self.
    + rewrite rd_upd_ge by exact Hge. auto.
  - rewrite rd_upd_other by exact Hne. auto.
Qed.

Lemma footprint_snoc s g o : (g < length s)%nat -> footprint (s ++ [o]) g = footprint s g.
Proof. intros H. unfold footprint. rewrite rd_snoc_old; auto. Qed.

(* ---------- one step ---------- *)
Lemma sstep_frame g s o :
  (length s <= length (sstep g s o))%nat /\
  (forall l, (l < length s)%nat -> ~ In l (footprint s g) -> rd (sstep g s o) l = rd s l) /\
  (forall l, In l (footprint (sstep g s o) g) -> In l (footprint s g) \/ (length s <= l)%nat).
Proof.
  unfold sstep. destruct (rd s g) as [og|] eqn:Eg; [|solve [repeat split; auto]].
  destruct og as [| | | | |nl ndl al]; try solve [repeat split; auto].
  assert (Hg : (g < length s)%nat) by (eapply rd_lt; eauto).
  assert (Hfp : footprint s g = [g; nl; ndl; al]) by (unfold footprint; rewrite Eg; reflexivity).
  destruct o as [nm dem lo hi|i j tm cost|d| |].
  - (* add_node *)
    destruct (rd s nl) as [[ns| | | | |]|]; try solve [repeat split; auto].
    destruct (rd s ndl) as [[|items| | | |]|]; try solve [repeat split; auto].
    unfold alloc. repeat split.
    + rewrite !length_upd, app_length. simpl. lia.
    + intros l Hl Hni. rewrite Hfp in Hni. simpl in Hni.
      rewrite !rd_upd_other by (let E := fresh in intro E; apply Hni; rewrite E; auto 8). apply rd_snoc_old; auto.
    + intros l Hin. left.
      apply footprint_upd_nongraph in Hin; [|exact I].
      apply footprint_upd_nongraph in Hin; [|exact I].
      rewrite footprint_snoc in Hin; auto.
  - (* add_arc *)
    destruct (rd s ndl) as [[|items| | | |]|]; try solve [repeat split; auto].
    destruct (rd s al) as [[| |es| | |]|]; try solve [repeat split; auto].
    destruct (nth_error items i) as [po|]; try solve [repeat split; auto].
    destruct (nth_error items j) as [pd|]; try solve [repeat split; auto].
    unfold alloc. repeat split.
    + rewrite length_upd, app_length. simpl. lia.
    + intros l Hl Hni. rewrite Hfp in Hni. simpl in Hni.
      rewrite rd_upd_other by (let E := fresh in intro E; apply Hni; rewrite E; auto 8). apply rd_snoc_old; auto.
    + intros l Hin. left.
      apply footprint_upd_nongraph in Hin; [|exact I].
      rewrite footprint_snoc in Hin; auto.
  - (* set_depot *)
    destruct (rd s nl) as [[ns| | | | |]|]; try solve [repeat split; auto].
    destruct (rd s ndl) as [[|items| | | |]|]; try solve [repeat split; auto].
    destruct (rd s al) as [[| |es| | |]|]; try solve [repeat split; auto].
    repeat split.
    + rewrite !length_upd. lia.
    + intros l Hl Hni. rewrite Hfp in Hni. simpl in Hni.
      rewrite !rd_upd_other by (let E := fresh in intro E; apply Hni; rewrite E; auto 8). reflexivity.
    + intros l Hin. left.
      apply footprint_upd_nongraph in Hin; [|exact I].
      apply footprint_upd_nongraph in Hin; [|exact I].
      apply footprint_upd_nongraph in Hin; [|exact I]. exact Hin.
  - (* rebind arcs: fresh dict, the graph object itself is rewritten *)
    unfold alloc. repeat split.
    + rewrite length_upd, app_length. simpl. lia.
    + intros l Hl Hni. rewrite Hfp in Hni. simpl in Hni.
      rewrite rd_upd_other by (let E := fresh in intro E; apply Hni; rewrite E; auto 8). apply rd_snoc_old; auto.
    + intros l. unfold footprint at 1.
      rewrite rd_upd_same by (rewrite app_length; simpl; lia).
      rewrite Hfp. simpl. intros [<-|[<-|[<-|[<-|[]]]]]; auto.
  - repeat split; auto.
Qed.

(* ---------- every history ---------- *)
Theorem srun_frame g ops s :
  (length s <= length (srun g ops s))%nat /\
  (forall l, (l < length s)%nat -> ~ In l (footprint s g) -> rd (srun g ops s) l = rd s l) /\
  (forall l, In l (footprint (srun g ops s) g) -> In l (footprint s g) \/ (length s <= l)%nat).
Proof.
  unfold srun. revert s; induction ops as [|o ops IH]; intros s; simpl.
  - repeat split; auto.
  - destruct (sstep_frame g s o) as (L1 & F1 & P1).
    destruct (IH (sstep g s o)) as (L2 & F2 & P2).
    repeat split.
    + lia.
    + intros l Hl Hni. rewrite F2.
      * apply F1; auto.
      * lia.
      * intros Hin. destruct (P1 l Hin) as [H|H]; [contradiction | lia].
    + intros l Hin. destruct (P2 l Hin) as [H|H].
      * destruct (P1 l H) as [H'|H']; auto.
      * right. lia.
Qed.

(* ---------- what is seen through another handle ---------- *)
Lemma view_depends_on_reach s s' g :
  (forall l, In l (reach s g) -> rd s' l = rd s l) -> view s' g = view s g.
Proof.
  intros H. unfold view, reach in *.
  destruct (rd s g) as [og|] eqn:Eg.
  2:{ rewrite (H g); [rewrite Eg; reflexivity | simpl; auto]. }
  destruct og as [| | | | |nl ndl al];
    try (rewrite (H g); [rewrite Eg; reflexivity | simpl; auto]).
  rewrite (H g) by (simpl; auto). rewrite Eg.
  rewrite (H nl), (H ndl), (H al) by (simpl; auto).
  destruct (rd s nl) as [[ns| | | | |]|]; auto.
  destruct (rd s ndl) as [[|items| | | |]|] eqn:End; auto.
  destruct (rd s al) as [[| |es| | |]|] eqn:Eal; auto.
  f_equal. f_equal; [f_equal|].
  - apply map_ext_in. intros p Hp. unfold node_of. rewrite H; auto.
    simpl. right; right; right; right. apply in_or_app. left. exact Hp.
  - apply map_ext_in. intros kv Hkv. unfold arc_of.
    assert (Hsub : forall l, In l (arc_locs s (snd kv)) -> rd s' l = rd s l).
    { intros l Hl. apply H. simpl. right; right; right; right. apply in_or_app. right.
      apply in_flat_map. exists kv. split; auto. }
    unfold arc_locs in Hsub.
    destruct (rd s (snd kv)) as [oa|] eqn:Ea.
    + destruct oa as [| | | |po pd tm cost|];
        try (rewrite Hsub by (simpl; auto); rewrite Ea; reflexivity).
      rewrite Hsub by (simpl; auto). rewrite Ea. unfold name_of.
      rewrite (Hsub po), (Hsub pd) by (simpl; auto). reflexivity.
    + rewrite Hsub by (simpl; auto). rewrite Ea. reflexivity.
Qed.

(* Operations through handle g1 never change what is seen through handle g2, provided
   nothing reachable from g2 is one of g1's containers. *)
Theorem view_frame g1 g2 ops s :
  (forall l, In l (reach s g2) -> (l < length s)%nat) ->
  disjoint (reach s g2) (footprint s g1) ->
  view (srun g1 ops s) g2 = view s g2.
Proof.
  intros Hdom Hdis. apply view_depends_on_reach.
  intros l Hl. destruct (srun_frame g1 ops s) as (_ & F & _).
  apply F; auto.
Qed.

(* the containers of g1 stay disjoint from anything that existed before and was disjoint *)
Theorem footprint_stays_disjoint g1 ops s (F : list loc) :
  (forall l, In l F -> (l < length s)%nat) ->
  disjoint F (footprint s g1) ->
  disjoint F (footprint (srun g1 ops s) g1).
Proof.
  intros Hdom Hdis l Hl Hin.
  destruct (srun_frame g1 ops s) as (_ & _ & P).
  destruct (P l Hin) as [H|H].
  - exact (Hdis l Hl H).
  - specialize (Hdom l Hl). lia.
Qed.

Lemma flat_map_ext_in' {A B} (f g : A -> list B) l :
  (forall a, In a l -> f a = g a) -> flat_map f l = flat_map g l.
Proof.
  induction l as [|x l IH]; simpl; intros H; auto.
  rewrite H by auto. rewrite IH; auto.
Qed.

Lemma reach_depends_on_reach s s' g :
  (forall l, In l (reach s g) -> rd s' l = rd s l) -> reach s' g = reach s g.
Proof.
  intros H. unfold reach in *.
  destruct (rd s g) as [og|] eqn:Eg.
  2:{ rewrite (H g); [rewrite Eg; reflexivity | simpl; auto]. }
  destruct og as [| | | | |nl ndl al];
    try (rewrite (H g); [rewrite Eg; reflexivity | simpl; auto]).
  rewrite (H g) by (simpl; auto). rewrite Eg.
  rewrite (H ndl), (H al) by (simpl; auto).
  f_equal. f_equal. f_equal. f_equal. f_equal.
  destruct (rd s al) as [[| |es| | |]|] eqn:Eal; auto.
  apply flat_map_ext_in'. intros kv Hkv. unfold arc_locs.
  rewrite H; auto.
  simpl. right; right; right; right. apply in_or_app. right.
  apply in_flat_map. exists kv. split; auto.
  unfold arc_locs. destruct (rd s (snd kv)) as [[]|]; simpl; auto.
Qed.

(* ---------- deep copy as an oracle ---------- *)
Section DeepCopy.
  (* copy.deepcopy is library code: it is specified, not modelled.  The three clauses are what
     the harness checks on the real objects (id()-reachability and snapshots). *)
  Variable deepcopy : store -> loc -> store * loc.
  Hypothesis dc_extends : forall s g l,
    (l < length s)%nat -> rd (fst (deepcopy s g)) l = rd s l.
  Hypothesis dc_fresh : forall s g l,
    In l (reach (fst (deepcopy s g)) (snd (deepcopy s g))) ->
    (length s <= l)%nat /\ (l < length (fst (deepcopy s g)))%nat.
  Hypothesis dc_same_view : forall s g,
    view (fst (deepcopy s g)) (snd (deepcopy s g)) = view s g.

  Lemma footprint_sub_reach s g l : In l (footprint s g) -> In l (reach s g).
  Proof.
    unfold footprint, reach. destruct (rd s g) as [[| | | | |a b c]|]; simpl; tauto.
  Qed.

  Lemma self_in_reach s g : In g (reach s g).
  Proof. apply footprint_sub_reach. apply footprint_has_self. Qed.

  (* A formulation built on a deep copy never changes the source, whatever it does. *)
  Theorem copy_does_not_touch_source s g ops :
    (forall l, In l (reach s g) -> (l < length s)%nat) ->
    let s' := fst (deepcopy s g) in
    let g' := snd (deepcopy s g) in
    view (srun g' ops s') g = view s g.
  Proof.
    intros Hdom s' g'.
    assert (Hold : forall l, In l (reach s g) -> rd s' l = rd s l).
    { intros l Hl. apply dc_extends. auto. }
    assert (Hreach : reach s' g = reach s g) by (apply reach_depends_on_reach; exact Hold).
    assert (Hlen : (length s <= length s')%nat).
    { destruct (dc_fresh s g g' (self_in_reach _ _)) as [A B]. unfold s'. lia. }
    transitivity (view s' g); [|apply view_depends_on_reach; exact Hold].
    apply view_frame.
    - intros l Hl. rewrite Hreach in Hl. specialize (Hdom l Hl). lia.
    - intros l Hl Hin. rewrite Hreach in Hl. specialize (Hdom l Hl).
      apply footprint_sub_reach in Hin.
      destruct (dc_fresh s g l Hin) as [A _]. lia.
  Qed.

  (* ... and later changes to the source never reach the copy. *)
  Theorem source_does_not_touch_copy s g ops :
    (forall l, In l (reach s g) -> (l < length s)%nat) ->
    let s' := fst (deepcopy s g) in
    let g' := snd (deepcopy s g) in
    view (srun g ops s') g' = view s g.
  Proof.
    intros Hdom s' g'.
    rewrite <- (dc_same_view s g). fold s' g'.
    apply view_frame.
    - intros l Hl. destruct (dc_fresh s g l Hl) as [_ B]. exact B.
    - intros l Hl Hin.
      destruct (dc_fresh s g l Hl) as [A _].
      apply footprint_sub_reach in Hin.
      assert (Hold : forall x, In x (reach s g) -> rd s' x = rd s x).
      { intros x Hx. apply dc_extends. auto. }
      rewrite (reach_depends_on_reach s s' g Hold) in Hin.
      specialize (Hdom l Hin). lia.
  Qed.
End DeepCopy.

(* ---------- MIRP getters: order independence ---------- *)
Section GettersFacts.
  Variables (D A P S : Type).
  Variable build_arc : D -> A.
  Variable build_path : D -> P.
  Variable build_seq : D -> bool -> S.
  Notation mstate := (mstate D A P S).
  Notation mstep := (mstep D A P S build_arc build_path build_seq).
  Notation mrun := (mrun D A P S build_arc build_path build_seq).

  (* caches hold what a build from the (unchanged) data gives *)
  Definition coherent (d : D) (st : option bool) (m : mstate) : Prop :=
    mdata _ _ _ _ m = d /\
    (forall a, m_ab _ _ _ _ m = Some a -> a = build_arc d) /\
    (forall p, m_pb _ _ _ _ m = Some p -> p = build_path d) /\
    (forall x, m_sb _ _ _ _ m = Some x -> exists b, st = Some b /\ x = build_seq d b).

  Definition expected (d : D) (st : option bool) (o : mop) : mout A P S :=
    match o with
    | GetArc => OutA _ _ _ (build_arc d)
    | GetPath => OutP _ _ _ (build_path d)
    | GetSeq b => OutS _ _ _ (build_seq d (match st with Some b0 => b0 | None => b end))
    end.

  Lemma mstep_coherent d st m o :
    coherent d st m ->
    (m_sb _ _ _ _ m = None -> st = None) ->
    let st' := match st, o with None, GetSeq b => Some b | _, _ => st end in
    coherent d st' (fst (mstep m o)) /\
    snd (mstep m o) = expected d st o /\
    (m_sb _ _ _ _ (fst (mstep m o)) = None -> st' = None).
  Proof.
    intros (Hd & Ha & Hp & Hs) Hnone. destruct o as [| |b]; simpl.
    - assert (Est : match st with Some _ => st | None => st end = st) by (destruct st; reflexivity).
      rewrite Est. destruct (m_ab _ _ _ _ m) as [a|] eqn:E; simpl.
      + split; [|split]; auto.
        * unfold coherent. rewrite E. auto.
        * rewrite (Ha a eq_refl). reflexivity.
      + subst d. split; [|split]; auto.
        unfold coherent; simpl. repeat split; auto.
        intros a H; inversion H; reflexivity.
    - assert (Est : match st with Some _ => st | None => st end = st) by (destruct st; reflexivity).
      rewrite Est. destruct (m_pb _ _ _ _ m) as [p|] eqn:E; simpl.
      + split; [|split]; auto.
        * unfold coherent. rewrite E. auto.
        * rewrite (Hp p eq_refl). reflexivity.
      + subst d. split; [|split]; auto.
        unfold coherent; simpl. repeat split; auto.
        intros a H; inversion H; reflexivity.
    - destruct (m_sb _ _ _ _ m) as [x|] eqn:E; simpl.
      + destruct (Hs x eq_refl) as (b0 & -> & ->). split; [|split]; auto.
        * unfold coherent. rewrite E. repeat split; auto;
            try (intros y Hy; inversion Hy; subst; eauto).
        * rewrite E. discriminate.
      + rewrite (Hnone eq_refl). subst d. split; [|split]; auto.
        * unfold coherent; simpl. repeat split; auto;
            try (intros y Hy; inversion Hy; subst; eauto).
        * simpl. discriminate.
  Qed.

  (* Every request sequence: each answer is the formulation built from the unchanged data
     (sequence-based: with the strictness of the FIRST sequence request), whatever the order. *)
  Fixpoint expected_outs (d : D) (st : option bool) (ops : list mop) : list (mout A P S) :=
    match ops with
    | [] => []
    | o :: ops' =>
        expected d st o ::
        expected_outs d (match st, o with None, GetSeq b => Some b | _, _ => st end) ops'
    end.

  Theorem mrun_order_independent d st m ops :
    coherent d st m -> (m_sb _ _ _ _ m = None -> st = None) ->
    snd (mrun m ops) = expected_outs d st ops /\ mdata _ _ _ _ (fst (mrun m ops)) = d.
  Proof.
    revert st m; induction ops as [|o ops IH]; intros st m Hc Hn; simpl.
    - split; auto. destruct Hc; auto.
    - destruct (mstep_coherent d st m o Hc Hn) as (Hc' & Ho & Hn').
      destruct (mstep m o) as [m1 r] eqn:E1. simpl in *.
      specialize (IH _ m1 Hc' Hn').
      destruct (mrun m1 ops) as [m2 rs]. simpl in *.
      destruct IH as [IH1 IH2]. split; [|exact IH2].
      rewrite Ho, IH1. reflexivity.
  Qed.
End GettersFacts.
