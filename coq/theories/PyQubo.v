(* PyQubo.v -- the numpy / scipy.sparse vocabulary used by src/vrpqubo/tools/qubo_tools.py, as
   combinators over the generic commutative ring of LinAlg.v / Qubo.v.

   DEFINITIONS ONLY (lemmas are in PyQubo_facts.v).

   harness/translate_qubotools.py prints the Python statements / expressions of qubo_tools.py 1:1 into
   these combinators (coq/gen/QuboGen.v); coq/genprops/C01_gen.v and C13_gen.v prove the generated
   definitions equal to the hand model Qubo.v.  What a numpy / scipy call MEANS is fixed here (and is
   "modelled, not verified", DESIGN 12.5); the translator knows only the names.

   A Python array value carries its shape: a matrix is (shape, entries), a vector (length, entries);
   entries are total functions as in LinAlg.v.  A scipy container is taken at its dense meaning, so
   the container conversions are identities.  Shape errors of numpy itself (adding arrays of different
   shapes ...) are NOT modelled: the result takes the shape of the left operand.

   Python                                 combinator
   -------------------------------------  ------------------------------------------------
   0.5, 0.25, 2, 4, 1, 0                  ohalf o, oquarter o, knum o 2, knum o 4, knum o 1, knum o 0
   a + b, a - b, a * b, -a   (numbers)    oadd o, osub o, omul o, oopp o
   c * M, M * c              (c a number) mscal o c M,  mscal_r o M c            (entry: c*M_ij, M_ij*c)
   c * v, v * c                           vscal o c v,  vscal_r o v c
   A + B, A - B, -A          (matrices)   madd o, msub o, mneg o
   u + v, u - v, -v          (vectors)    vadd o, vsub o, vneg o
   c + v, c - v, v + c, v - c (broadcast) svadd o, svsub o, vsadd o, vssub o
   M.sum(0), M.sum(1), M.sum()            msum0 o M, msum1 o M, msum o M
   v.sum()                                vsum o v
   M.diagonal()                           diagonal M
   M.transpose(), M.T                     mtranspose M
   M.setdiag(c)                           setdiag c M            (statement: re-binds M)
   sp.diags(v)                            diags o v
   sp.tril(M, k=K), sp.triu(M, k=K)       tril o K M, triu o K M
   M.dot(v), np.dot(M, v)                 mdot o M v
   u.dot(v), np.dot(u, v)                 vdot o u v
   v.astype(int)                          vastype_int o v        (entry: otrunc o v_i)
   M.shape, M.shape[0], M.shape[1]        mshape M, rows M, cols M
   v.shape[0]                             vlen v
   sp.lil_array(M) / csr_array / ...      as_sparse M            (identity)
   M.tocsr() / tolil / tocoo / tocsc      to_format M            (identity)
   M.eliminate_zeros()                    eliminate_zeros M      (identity; statement: re-binds M)
   v.ravel(), v.flatten()                 ravel v, flatten v     (identity)
   np.asarray(v), np.copy(v), np.atleast_1d(v)   asarray v, np_copy v, atleast_1d v  (identity)
   s.lower()                              Qubo.lower s
   raise X / return e                     Err X / Ok e           (Base.result), rbind for calls *)
From Coq Require Import Arith ZArith List Bool String.
From VQ Require Import Base LinAlg Qubo.

(* the operations of the carrier, packed so that every generated definition has the binders (K) (o) *)
Record ops (K : Type) := mkops {
  o0 : K; o1 : K;
  oadd : K -> K -> K; omul : K -> K -> K; osub : K -> K -> K; oopp : K -> K;
  ohalf : K; oquarter : K;            (* the float constants 0.5 and 0.25 *)
  otrunc : K -> K                     (* ndarray.astype(int) on one entry *)
}.
Arguments mkops {K} _ _ _ _ _ _ _ _ _.
Arguments o0 {K} o.
Arguments o1 {K} o.
Arguments oadd {K} o.
Arguments omul {K} o.
Arguments osub {K} o.
Arguments oopp {K} o.
Arguments ohalf {K} o.
Arguments oquarter {K} o.
Arguments otrunc {K} o.

Record pmat (K : Type) := mkmat { mshape : nat * nat; ent : nat -> nat -> K }.
Record pvec (K : Type) := mkvec { vlen : nat; vent : nat -> K }.
Arguments mkmat {K} _ _.
Arguments mshape {K} p.
Arguments ent {K} p.
Arguments mkvec {K} _ _.
Arguments vlen {K} p.
Arguments vent {K} p.

Definition rows {K} (M : pmat K) : nat := fst (mshape M).
Definition cols {K} (M : pmat K) : nat := snd (mshape M).

(* the fields QUBOContainer.__init__ sets *)
Record container (K : Type) := mkcontainer {
  f_n_vars : nat; f_const_qubo : K; f_Q : pmat K; f_J : pmat K; f_h : pvec K; f_const_ising : K }.
Arguments mkcontainer {K} _ _ _ _ _ _.
Arguments f_n_vars {K} c.
Arguments f_const_qubo {K} c.
Arguments f_Q {K} c.
Arguments f_J {K} c.
Arguments f_h {K} c.
Arguments f_const_ising {K} c.

(* a call of a function that may raise *)
Definition rbind {A B} (r : result A) (f : A -> result B) : result B :=
  match r with Ok a => f a | Err e => Err e end.

(* ---------- identities at the dense meaning ---------- *)
Definition as_sparse {K} (M : pmat K) : pmat K := M.
Definition to_format {K} (M : pmat K) : pmat K := M.
Definition eliminate_zeros {K} (M : pmat K) : pmat K := M.
Definition ravel {K} (v : pvec K) : pvec K := v.
Definition flatten {K} (v : pvec K) : pvec K := v.
Definition asarray {K} (v : pvec K) : pvec K := v.
Definition np_copy {K} (v : pvec K) : pvec K := v.
Definition atleast_1d {K} (v : pvec K) : pvec K := v.

(* ---------- structure, no arithmetic ---------- *)
Definition diagonal {K} (M : pmat K) : pvec K :=
  mkvec (Nat.min (rows M) (cols M)) (fun i => ent M i i).
Definition mtranspose {K} (M : pmat K) : pmat K :=
  mkmat (cols M, rows M) (fun i j => ent M j i).
Definition setdiag {K} (c : K) (M : pmat K) : pmat K :=
  mkmat (mshape M) (fun i j => if Nat.eqb i j then c else ent M i j).

(* j - i <= k   and   j - i >= k   on natural numbers i, j *)
Definition tril_keep (k : Z) (i j : nat) : bool :=
  match k with
  | Z0 => Nat.leb j i
  | Zpos p => Nat.leb j (Pos.to_nat p + i)
  | Zneg p => Nat.leb (Pos.to_nat p + j) i
  end.
Definition triu_keep (k : Z) (i j : nat) : bool :=
  match k with
  | Z0 => Nat.leb i j
  | Zpos p => Nat.leb (Pos.to_nat p + i) j
  | Zneg p => Nat.leb i (Pos.to_nat p + j)
  end.

Section Comb.
  Context {K : Type} (o : ops K).

  (* integer literals: binary expansion, so that knum 2 = 1+1 and knum 4 = (1+1)+(1+1) *)
  Fixpoint knum_pos (p : positive) : K :=
    match p with
    | xH => o1 o
    | xO q => oadd o (knum_pos q) (knum_pos q)
    | xI q => oadd o (o1 o) (oadd o (knum_pos q) (knum_pos q))
    end.
  Definition knum (z : Z) : K :=
    match z with Z0 => o0 o | Zpos p => knum_pos p | Zneg p => oopp o (knum_pos p) end.

  (* scalar with matrix / vector *)
  Definition mscal (c : K) (M : pmat K) : pmat K := mkmat (mshape M) (fun i j => omul o c (ent M i j)).
  Definition mscal_r (M : pmat K) (c : K) : pmat K := mkmat (mshape M) (fun i j => omul o (ent M i j) c).
  Definition vscal (c : K) (v : pvec K) : pvec K := mkvec (vlen v) (fun i => omul o c (vent v i)).
  Definition vscal_r (v : pvec K) (c : K) : pvec K := mkvec (vlen v) (fun i => omul o (vent v i) c).

  (* entrywise; the result has the shape of the left operand *)
  Definition madd (A B : pmat K) : pmat K := mkmat (mshape A) (fun i j => oadd o (ent A i j) (ent B i j)).
  Definition msub (A B : pmat K) : pmat K := mkmat (mshape A) (fun i j => osub o (ent A i j) (ent B i j)).
  Definition mneg (A : pmat K) : pmat K := mkmat (mshape A) (fun i j => oopp o (ent A i j)).
  Definition vadd (u v : pvec K) : pvec K := mkvec (vlen u) (fun i => oadd o (vent u i) (vent v i)).
  Definition vsub (u v : pvec K) : pvec K := mkvec (vlen u) (fun i => osub o (vent u i) (vent v i)).
  Definition vneg (u : pvec K) : pvec K := mkvec (vlen u) (fun i => oopp o (vent u i)).

  (* broadcasting a number against a vector *)
  Definition svadd (c : K) (v : pvec K) : pvec K := mkvec (vlen v) (fun i => oadd o c (vent v i)).
  Definition svsub (c : K) (v : pvec K) : pvec K := mkvec (vlen v) (fun i => osub o c (vent v i)).
  Definition vsadd (v : pvec K) (c : K) : pvec K := mkvec (vlen v) (fun i => oadd o (vent v i) c).
  Definition vssub (v : pvec K) (c : K) : pvec K := mkvec (vlen v) (fun i => osub o (vent v i) c).

  (* sums: axis 0 runs over the rows (one value per column), axis 1 over the columns *)
  Definition msum0 (M : pmat K) : pvec K :=
    mkvec (cols M) (fun j => sum_n (o0 o) (oadd o) (rows M) (fun k => ent M k j)).
  Definition msum1 (M : pmat K) : pvec K :=
    mkvec (rows M) (fun i => sum_n (o0 o) (oadd o) (cols M) (fun k => ent M i k)).
  Definition msum (M : pmat K) : K :=
    sum_n (o0 o) (oadd o) (rows M) (fun i => sum_n (o0 o) (oadd o) (cols M) (fun j => ent M i j)).
  Definition vsum (v : pvec K) : K := sum_n (o0 o) (oadd o) (vlen v) (fun i => vent v i).

  (* sp.diags(v): the square matrix with v on the main diagonal *)
  Definition diags (v : pvec K) : pmat K :=
    mkmat (vlen v, vlen v) (fun i j => if Nat.eqb i j then vent v i else o0 o).

  (* sp.tril(M, k): entries with j - i <= k are kept;  sp.triu(M, k): entries with j - i >= k.
     The tests are written on nat, split by the sign of k (PyQubo_facts.tril_keep_spec / triu_keep_spec relate
     them to the integer inequalities); for k = -1 the test of tril computes to Nat.ltb j i. *)
  Definition tril (k : Z) (M : pmat K) : pmat K :=
    mkmat (mshape M) (fun i j => if tril_keep k i j then ent M i j else o0 o).
  Definition triu (k : Z) (M : pmat K) : pmat K :=
    mkmat (mshape M) (fun i j => if triu_keep k i j then ent M i j else o0 o).

  (* products *)
  Definition mdot (M : pmat K) (v : pvec K) : pvec K :=
    mkvec (rows M) (fun i => sum_n (o0 o) (oadd o) (cols M) (fun j => omul o (ent M i j) (vent v j))).
  Definition vdot (u v : pvec K) : K :=
    sum_n (o0 o) (oadd o) (vlen u) (fun i => omul o (vent u i) (vent v i)).

  (* ndarray.astype(int) *)
  Definition vastype_int (v : pvec K) : pvec K := mkvec (vlen v) (fun i => otrunc o (vent v i)).
End Comb.
