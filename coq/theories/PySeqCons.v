(* PySeqCons.v -- object state and Python-semantics combinators of the model GENERATED from the
   constraint / objective builders of routing_problem/formulations/sequence_based_rp.py
   (coq/gen/SeqConsGen.v, written on every run by harness/translate_seqcons.py).  Definitions only.
   Lemmas: PySeqCons_facts.v.  Theorems about the generated definitions: coq/genprops/C07_gen.v.  [C07]

   The enumeration half of the object (var_mapping, fixed_values, var_mapping_inverse, ...) is the record
   PySeq.qstate with the generated methods of coq/gen/SeqGen.v; the builders' own attributes are added
   around it (record cstate).  Every translated builder method is a function
       cstate -> arguments -> result (cstate * value)
   (an uncaught exception is `Err class`; the object state after an uncaught exception is not modelled).

   What the emitted combinators mean:
   * `py_bind r k`                sequencing of something that may raise;
   * `for x in l: body`           py_forE body l st   (PyEnumCore.py_for whose body may raise);
   * `itertools.product(a, b)`    py_product a b      (a outer, b inner);
   * a local that may be unbound  py_local (PyUnbound | PyBound v); reading it unbound raises
                                  (UnboundLocalError, reported as OtherError);
   * int-or-None values           option Z; `x is None` = py_is_none x;
   * `d[k]` on dicts              py_dict_getitem / py_tdict_getitem (miss -> KeyError);
   * `l[z]`, `l[z] = v`           py_list_getitem_z / py_list_setitem_z (negative z counts from the end,
                                  outside -> IndexError);
   * numpy 1-d arrays are lists of integers: np_zeros1, np_ones1, np_array (a copy),
     `a[i] op= v` = np_vec_augitem, `a[i] = v` = np_vec_setitem (i = None addresses every entry, as numpy does);
     np_isclose on integers is equality;
   * `sparse.coo_array((vals, (rows, cols)), shape=s)` = sp_coo_array: the triples in the order given,
     with the shape; ValueError when the three lists differ in length or an index is outside the shape,
     TypeError for a None index.  Its DENSE MEANING is mat_dense (duplicates are summed, Seq.dense2).
     The container format (coo / csr / ndarray) is not modelled: sp_csr_array and sp_toarray return the
     same value;
   * f-strings that name constraints: py_fstr [FStr "c_node"; FNat ni]. *)
From Coq Require Import String.
From VQ Require Export Base Vrptw Seq PyEnumCore PySeq.

Definition py_bind {A B} (r : result A) (k : A -> result B) : result B :=
  match r with Ok a => k a | Err e => Err e end.

Fixpoint py_forE {A S : Type} (body : A -> S -> result (ctl * S)) (l : list A) (st : S) : result S :=
  match l with
  | [] => Ok st
  | e :: l' =>
      match body e st with
      | Err x => Err x
      | Ok (CBreak, st') => Ok st'
      | Ok (CNext, st') => py_forE body l' st'
      end
  end.

Definition py_product {A B} (a : list A) (b : list B) : list (A * B) :=
  flat_map (fun x => map (fun y => (x, y)) b) a.

Inductive py_local (A : Type) := PyUnbound | PyBound (a : A).
Arguments PyUnbound {A}.
Arguments PyBound {A} a.
Definition py_local_get {A} (x : py_local A) : result A :=
  match x with PyBound a => Ok a | PyUnbound => Err OtherError end.

Definition py_is_none {A} (x : option A) : bool := match x with None => true | Some _ => false end.
Definition py_idx_nat (n : nat) : option Z := Some (Z.of_nat n).

Definition py_dict_getitem {V} (d : dict V) (k : nat * nat) : result V :=
  match dict_get k d with Some v => Ok v | None => Err KeyError end.
Definition py_tdict_getitem {V} (d : tdict V) (k : tuple) : result V :=
  match assoc_t k d with Some v => Ok v | None => Err KeyError end.

(* position addressed by a Python index into something of length len *)
Definition py_resolve_index (len : nat) (z : Z) : result nat :=
  if (0 <=? z)%Z && (z <? Z.of_nat len)%Z then Ok (Z.to_nat z)
  else if (z <? 0)%Z && (- Z.of_nat len <=? z)%Z then Ok (Z.to_nat (Z.of_nat len + z))
  else Err IndexError.

Fixpoint list_update {A} (l : list A) (k : nat) (v : A) : list A :=
  match l, k with
  | [], _ => []
  | _ :: l', O => v :: l'
  | a :: l', S k' => a :: list_update l' k' v
  end.

Definition py_list_getitem_z {A} (l : list A) (z : Z) : result A :=
  py_bind (py_resolve_index (length l) z) (py_list_item l).
Definition py_list_setitem_z {A} (l : list A) (z : Z) (v : A) : result (list A) :=
  py_bind (py_resolve_index (length l) z) (fun k => Ok (list_update l k v)).

(* numpy 1-d arrays *)
Definition np_zeros1 (n : nat) : list Z := repeat 0 n.
Definition np_ones1 (n : nat) : list Z := repeat 1 n.
Definition np_array (l : list Z) : list Z := l.
Definition np_isclose (a b : Z) : bool := (a =? b).
Definition np_vec_augitem (op : Z -> Z -> Z) (a : list Z) (i : option Z) (v : Z) : result (list Z) :=
  match i with
  | None => Ok (map (fun x => op x v) a)
  | Some z => py_bind (py_resolve_index (length a) z) (fun k => Ok (list_update a k (op (nth k a 0) v)))
  end.

Definition np_vec_setitem (a : list Z) (i : option Z) (v : Z) : result (list Z) :=
  match i with
  | None => Ok (map (fun _ => v) a)
  | Some z => py_bind (py_resolve_index (length a) z) (fun k => Ok (list_update a k v))
  end.

(* sparse / dense 2-d containers: shape and the (row, column, value) triples in the order given *)
Record mat2 := mkMat2 { m_shape : nat * nat; m_entries : list (nat * nat * Z) }.
Definition mat_dense (m : mat2) (i j : nat) : Z := dense2 (m_entries m) i j.

Fixpoint coo_indices (dim : nat) (l : list (option Z)) : result (list nat) :=
  match l with
  | [] => Ok []
  | None :: _ => Err TypeError
  | Some z :: l' =>
      if (z <? 0)%Z || (Z.of_nat dim <=? z)%Z then Err ValueError
      else py_bind (coo_indices dim l') (fun r => Ok (Z.to_nat z :: r))
  end.

Definition sp_coo_array (vals : list Z) (rows cols : list (option Z)) (shape : nat * nat) : result mat2 :=
  if negb (Nat.eqb (length rows) (length vals) && Nat.eqb (length cols) (length vals)) then Err ValueError
  else py_bind (coo_indices (fst shape) rows) (fun r =>
       py_bind (coo_indices (snd shape) cols) (fun c =>
       Ok (mkMat2 shape (combine (combine r c) vals)))).
Definition sp_csr_array (m : mat2) : mat2 := m.
Definition sp_toarray (m : mat2) : mat2 := m.

(* constraint names *)
Inductive fpart := FStr (s : string) | FNat (n : nat).
Definition pyname := list fpart.
Definition py_fstr (l : list fpart) : pyname := l.

(* ---------- the object ---------- *)
Record cstate := mkCS {
  c_q : qstate;                                  (* the enumeration half: PySeq.qstate *)
  c_objective_built : bool;
  c_lin_con_built : bool;
  c_quad_con_built : bool;
  c_lin_con_names : list pyname;
  c_objective_c : list Z;
  c_objective_q : mat2;
  c_quadratic_constraints_matrix : mat2;
  c_linear_constraints_matrix : mat2;
  c_linear_constraints_rhs : list Z
}.

Definition cset_q (v : qstate) (s : cstate) : cstate :=
  mkCS v (c_objective_built s) (c_lin_con_built s) (c_quad_con_built s) (c_lin_con_names s) (c_objective_c s)
       (c_objective_q s) (c_quadratic_constraints_matrix s) (c_linear_constraints_matrix s) (c_linear_constraints_rhs s).
Definition cset_objective_built (v : bool) (s : cstate) : cstate :=
  mkCS (c_q s) v (c_lin_con_built s) (c_quad_con_built s) (c_lin_con_names s) (c_objective_c s)
       (c_objective_q s) (c_quadratic_constraints_matrix s) (c_linear_constraints_matrix s) (c_linear_constraints_rhs s).
Definition cset_lin_con_built (v : bool) (s : cstate) : cstate :=
  mkCS (c_q s) (c_objective_built s) v (c_quad_con_built s) (c_lin_con_names s) (c_objective_c s)
       (c_objective_q s) (c_quadratic_constraints_matrix s) (c_linear_constraints_matrix s) (c_linear_constraints_rhs s).
Definition cset_quad_con_built (v : bool) (s : cstate) : cstate :=
  mkCS (c_q s) (c_objective_built s) (c_lin_con_built s) v (c_lin_con_names s) (c_objective_c s)
       (c_objective_q s) (c_quadratic_constraints_matrix s) (c_linear_constraints_matrix s) (c_linear_constraints_rhs s).
Definition cset_lin_con_names (v : list pyname) (s : cstate) : cstate :=
  mkCS (c_q s) (c_objective_built s) (c_lin_con_built s) (c_quad_con_built s) v (c_objective_c s)
       (c_objective_q s) (c_quadratic_constraints_matrix s) (c_linear_constraints_matrix s) (c_linear_constraints_rhs s).
Definition cset_objective_c (v : list Z) (s : cstate) : cstate :=
  mkCS (c_q s) (c_objective_built s) (c_lin_con_built s) (c_quad_con_built s) (c_lin_con_names s) v
       (c_objective_q s) (c_quadratic_constraints_matrix s) (c_linear_constraints_matrix s) (c_linear_constraints_rhs s).
Definition cset_objective_q (v : mat2) (s : cstate) : cstate :=
  mkCS (c_q s) (c_objective_built s) (c_lin_con_built s) (c_quad_con_built s) (c_lin_con_names s) (c_objective_c s)
       v (c_quadratic_constraints_matrix s) (c_linear_constraints_matrix s) (c_linear_constraints_rhs s).
Definition cset_quadratic_constraints_matrix (v : mat2) (s : cstate) : cstate :=
  mkCS (c_q s) (c_objective_built s) (c_lin_con_built s) (c_quad_con_built s) (c_lin_con_names s) (c_objective_c s)
       (c_objective_q s) v (c_linear_constraints_matrix s) (c_linear_constraints_rhs s).
Definition cset_linear_constraints_matrix (v : mat2) (s : cstate) : cstate :=
  mkCS (c_q s) (c_objective_built s) (c_lin_con_built s) (c_quad_con_built s) (c_lin_con_names s) (c_objective_c s)
       (c_objective_q s) (c_quadratic_constraints_matrix s) v (c_linear_constraints_rhs s).
Definition cset_linear_constraints_rhs (v : list Z) (s : cstate) : cstate :=
  mkCS (c_q s) (c_objective_built s) (c_lin_con_built s) (c_quad_con_built s) (c_lin_con_names s) (c_objective_c s)
       (c_objective_q s) (c_quadratic_constraints_matrix s) (c_linear_constraints_matrix s) v.

(* attributes that live in the enumeration half *)
Definition cq_max_sequence_length (s : cstate) : nat := q_max_sequence_length (c_q s).
Definition cq_max_vehicles (s : cstate) : nat := q_max_vehicles (c_q s).
Definition cq_vehicle_cost (s : cstate) : list Z := q_vehicle_cost (c_q s).
Definition cq_fixed_values (s : cstate) : tdict Z := q_fixed_values (c_q s).
Definition cq_nodes (s : cstate) : list node := py_nodes (c_q s).
Definition cq_arcs (s : cstate) : dict arc := py_arcs (c_q s).
Definition cq_variables_enumerated (s : cstate) : bool := q_variables_enumerated (c_q s).
Definition cqset_variables_enumerated (v : bool) (s : cstate) : cstate :=
  cset_q (qset_variables_enumerated v (c_q s)) s.

(* calls of the generated methods of SeqGen.v on the enumeration half *)
Definition py_call_q {A} (f : qstate -> qstate * A) (s : cstate) : result (cstate * A) :=
  let '(q, a) := f (c_q s) in Ok (cset_q q s, a).
Definition py_call_qr {A} (f : qstate -> qstate * result A) (s : cstate) : result (cstate * A) :=
  let '(q, r) := f (c_q s) in
  match r with Ok a => Ok (cset_q q s, a) | Err e => Err e end.
Definition py_get_cost (a : arc) : Z := acost a.

(* ====================================================================================================
   Vocabulary of coq/genprops/C07_gen.v: the loops of the builders written as folds of LITERAL steps
   over the hand model's call lists (Seq.Rcalls, Seq.rows, Seq.obj_calls), and what they assemble.
   ==================================================================================================== *)
Open Scope string_scope.
Definition name_node (ni : nat) : pyname := [FStr "c_node"; FNat ni].
Definition name_pos (vi si : nat) : pyname := [FStr "c_v"; FNat vi; FStr "s"; FNat si].
Close Scope string_scope.

(* a fold whose step may raise: the first exception ends it *)
Fixpoint foldE {A T} (f : T -> A -> result T) (l : list A) (t : T) : result T :=
  match l with
  | [] => Ok t
  | a :: l' => match f t a with Ok t' => foldE f l' t' | Err e => Err e end
  end.

(* variable positions as the int-or-None values the code handles *)
Definition idx (k : nat) : option Z := Some (Z.of_nat k).

(* the enumeration half after enumerate_variables() on the problem I *)
Definition enumerated_for (I : inst) (q : qstate) : Prop :=
  q_variables_enumerated q = true /\ seq_inst q = I /\ q_var_mapping q = vars I /\
  q_num_variables q = num_variables I /\ q_fixed_values q = fixed_items I /\
  q_var_mapping_inverse q = inverse_of I.

(* what holds of every object built through the class and is needed where the code would otherwise raise:
   arc keys are distinct (a Python dict) and are node positions, vehicle_cost has an entry per vehicle *)
Definition cons_wf (I : inst) : Prop :=
  NoDup (map fst (arcs (ig I))) /\
  (forall k, In k (map fst (arcs (ig I))) -> (fst k < iN I)%nat /\ (snd k < iN I)%nat) /\
  (iV I <= length (ivc I))%nat.

(* ---------- build_quadratic_constraints ---------- *)
Definition qpairs := (list (option Z) * list (option Z))%type.
(* one call of quadratic_constraint_logic *)
Definition q_step (I : inst) (e : qpairs) (c : nat * nat * nat * nat) : result qpairs :=
  match qlogic I c with
  | Ok ps => Ok (fst e ++ map (fun p => idx (fst p)) ps, snd e ++ map (fun p => idx (snd p)) ps)
  | Err x => Err x
  end.
Definition q_lift (self0 : cstate) (e : qpairs) : cstate * list (option Z) * list (option Z) :=
  (self0, fst e, snd e).
Definition q_lift_r (self0 : cstate) (r : result qpairs) :=
  match r with Ok e => Ok (CNext, q_lift self0 e) | Err x => Err x end.
(* the calls of one (ni, nj) of the `forbidden arcs` loop, of one (ni, nj, si), and of the absorption loops *)
Definition forb_calls_s (I : inst) (ni nj s : nat) : list (nat * nat * nat * nat) :=
  map (fun v => (v, s, ni, nj)) (seq 0 (iV I)).
Definition forb_calls_n (I : inst) (ninj : nat * nat) : list (nat * nat * nat * nat) :=
  if check_arc I ninj then []
  else flat_map (forb_calls_s I (fst ninj) (snd ninj)) (seq 0 (iL I - 1)).
Definition abs_calls_n (I : inst) (v s nj : nat) : list (nat * nat * nat * nat) :=
  if check_arc I (O, nj) then [(v, s, O, nj)] else [].
Definition abs_calls_s (I : inst) (v s : nat) := flat_map (abs_calls_n I v s) (seq 1 (iN I - 1)).
Definition abs_calls_v (I : inst) (v : nat) := flat_map (abs_calls_s I v) (seq 1 (iL I - 2)).
Definition R_mat (I : inst) (E : list (nat * nat)) : mat2 :=
  mkMat2 (num_variables I, num_variables I) (map (fun p => (p, 1)) E).

(* ---------- build_linear_constraints ---------- *)
Definition cust_tuples (I : inst) (ni : nat) : list tuple :=
  flat_map (fun si => map (fun vi => (vi, si, ni)) (seq 0 (iV I))) (seq 0 (iL I)).
Definition pos_tuples (I : inst) (si vi : nat) : list tuple :=
  map (fun ni => (vi, si, ni)) (seq 0 (iN I)).
Definition named_rows (I : inst) : list (pyname * list tuple) :=
  map (fun ni => (name_node ni, cust_tuples I ni)) (seq 1 (iN I - 1)) ++
  flat_map (fun si => map (fun vi => (name_pos vi si, pos_tuples I si vi)) (seq 0 (iV I))) (seq 1 (iL I - 2)).

(* inside one row: brhs = done ++ [cur] *)
Definition lin_inner := (list Z * Z * list nat * list (option Z) * list Z)%type.
Definition lin_step (I : inst) (r : nat) (e : lin_inner) (t : tuple) : lin_inner :=
  match e with
  | (done, cur, arow, acol, aval) =>
      match var_index I t with
      | None => (done, cur - fixed_val I t, arow, acol, aval)
      | Some k => (done, cur, arow ++ [r], acol ++ [idx k], aval ++ [1])
      end
  end.
Definition lin_inner_lift (self0 : cstate) (e : lin_inner) :=
  match e with (done, cur, arow, acol, aval) => (self0, done ++ [cur], arow, acol, aval) end.

Definition lin_outer := (list pyname * list Z * list nat * list (option Z) * list Z * nat)%type.
Definition lin_row_step (I : inst) (e : lin_outer) (nt : pyname * list tuple) : lin_outer :=
  match e with
  | (nms, brhs, arow, acol, aval, r) =>
      match fold_left (lin_step I r) (snd nt) (brhs, 1, arow, acol, aval) with
      | (done, cur, arow', acol', aval') => (nms ++ [fst nt], done ++ [cur], arow', acol', aval', S r)
      end
  end.
Definition lin_outer_lift (self0 : cstate) (e : lin_outer) :=
  match e with
  | (nms, brhs, arow, acol, aval, r) => (cset_lin_con_names nms self0, brhs, arow, acol, aval, r)
  end.

(* the triples of linear_constraints_matrix: row by row, each row's entries in code order *)
Fixpoint A_entries_from (I : inst) (r0 : nat) (rs : list (list tuple)) : list (nat * nat * Z) :=
  match rs with
  | [] => []
  | ts :: rs' => map (fun e => (r0, fst e, snd e)) (row_entries I ts) ++ A_entries_from I (S r0) rs'
  end.
Definition A_entries (I : inst) : list (nat * nat * Z) := A_entries_from I 0 (rows I).
Definition A_mat (I : inst) : mat2 := mkMat2 (num_rows I, num_variables I) (A_entries I).
Definition b_list (I : inst) : list Z := map (row_rhs I) (rows I).

(* ---------- build_objective ---------- *)
Definition vec_add (c : list Z) (k : nat) (x : Z) : list Z := list_update c k (nth k c 0 + x).
Definition obj_state := (list Z * py_local (option Z) * list (option Z) * list (option Z) * list Z)%type.
Definition obj_step (I : inst) (e : obj_state) (c : nat * nat * ((nat * nat) * arc)) : obj_state :=
  match e with
  | (cv, vi, qrow, qcol, qval) =>
      match c with
      | (v, s, ((ni, nj), a)) =>
          match var_index I (v, s, ni), var_index I (v, S s, nj) with
          | None, None => e
          | None, Some k2 =>
              (vec_add cv k2 (obj_coeff I c * fixed_val I (v, s, ni)), PyBound (idx k2), qrow, qcol, qval)
          | Some k1, None =>
              (vec_add cv k1 (obj_coeff I c * fixed_val I (v, S s, nj)), PyBound (idx k1), qrow, qcol, qval)
          | Some k1, Some k2 => (cv, vi, qrow ++ [idx k1], qcol ++ [idx k2], qval ++ [obj_coeff I c])
          end
      end
  end.
Definition obj_lift (self0 : cstate) (e : obj_state) :=
  match e with (cv, vi, qrow, qcol, qval) => (cset_objective_c cv self0, vi, qrow, qcol, qval) end.
Definition obj_inv (I : inst) (e : obj_state) : Prop :=
  match e with (cv, _, _, _, _) => length cv = num_variables I end.
(* objective_c: the linear entries added one by one into zeros(n) *)
Definition obj_cvec (I : inst) : list Z :=
  fold_left (fun cv e => vec_add cv (fst e) (snd e)) (c_entries I) (repeat 0 (num_variables I)).
Definition Q_mat (I : inst) : mat2 := mkMat2 (num_variables I, num_variables I) (q_entries I).

(* ---------- the cache discipline of the builders ---------- *)
Definition cons_coherent (self : cstate) : Prop :=
  let I := seq_inst (c_q self) in
  seq_coherent (c_q self) /\
  (c_objective_built self = true -> c_objective_c self = obj_cvec I /\ c_objective_q self = Q_mat I) /\
  (c_lin_con_built self = true ->
     c_linear_constraints_matrix self = A_mat I /\ c_linear_constraints_rhs self = b_list I) /\
  (c_quad_con_built self = true ->
     exists E, R_entries I = Ok E /\ c_quadratic_constraints_matrix self = R_mat I E).

(* the states the builders leave behind *)
Definition enum_q (q : qstate) : qstate :=
  if q_variables_enumerated q then q else seq_enumerated q (seq_inst q).
Definition with_enum (self : cstate) : cstate := cset_q (enum_q (c_q self)) self.
