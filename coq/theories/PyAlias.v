(* PyAlias.v -- reference-flow skeletons of the graph / formulation / MIRP classes and their meaning in
   the object-store model of Store.v   [C16, package `aliasflow`]

   coq/gen/AliasGen.v (printed by harness/translate_aliasflow.py on every run) holds, for every class,
   method and function of vrptw.py, routing_problem.py, the three formulation files and applications/mirp.py,
   a statement skeleton over abstract expressions.  This file defines
     1. the skeleton syntax and the table;
     2. a flow analysis (`analyse`): which objects an expression may denote (`origin`), which objects a
        statement writes, stores, returns or passes on (`event`);
     3. the meaning of a write event in terms of Store.v (`wclass`, `cstep`): an in-place change of one of the
        receiver's own containers, a re-binding of a container attribute to a new object, a change of an object
        allocated by the call, no store effect -- or, for anything else, an arbitrary update;
     4. the decision procedure `alias_disciplined`;
     5. the meaning of a MIRP getter as a step of Store.v's getter machine (`gexec`).
   Definitions only; the proofs are in PyAlias_facts.v. *)
From Coq Require Import String List Bool Arith Lia.
From VQ Require Import Base Store.
Import ListNotations.
Close Scope Z_scope.
Local Open Scope string_scope.
Local Open Scope nat_scope.
Local Open Scope list_scope.

(* ================= 1. syntax ================= *)
Record cshape := mkShape { sh_pos : nat; sh_kws : list (option string); sh_star : bool }.

Inductive aexp :=
| XAtom                                                   (* a literal *)
| XSelf
| XVar (x : string)                                       (* local, parameter or global name *)
| XAttr (e : aexp) (a : string)
| XItem (e k : aexp)                                      (* e[k]; also "an element of e" (loop / unpacking targets) *)
| XSlice (e : aexp) (ks : list aexp)
| XCall (f : string) (sh : cshape) (args : list aexp)     (* f(..): positional arguments, then keyword values *)
| XMeth (e : aexp) (m : string) (sh : cshape) (args : list aexp)
| XSuper (m : string) (sh : cshape) (args : list aexp)
| XCallE (f : aexp) (args : list aexp)                    (* anything else that is called *)
| XNew (parts : list aexp)                                (* list / tuple / set / dict display *)
| XOp (parts : list aexp)                                 (* arithmetic, comparison, f-string: a new value *)
| XCat (parts : list aexp)                                (* a + b, a * b: a new value; for sequences it holds the operands' elements *)
| XJoin (es : list aexp)                                  (* a or b / a and b: one of the operands *)
| XIf (t : atest) (a b : aexp)
| XLambda (ps : list string) (dfl : list aexp) (body : aexp)
| XComp (gens : list (list string * aexp * list aexp)) (elts : list aexp)
with atest :=
| TIsNone (e : aexp) | TIsNotNone (e : aexp) | TTruthy (e : aexp) | TNot (t : atest) | TOther (e : aexp).

Inductive astmt :=
| SExpr (e : aexp)
| SAssign (x : string) (e : aexp)
| SSetAttr (e : aexp) (a : string) (v : aexp)
| SSetItem (e : aexp) (ks : list aexp) (v : aexp)
| SAugName (x : string) (v : aexp)
| SAugAttr (e : aexp) (a : string) (v : aexp)
| SAugItem (e : aexp) (ks : list aexp) (v : aexp)
| SDelName (x : string)
| SDelAttr (e : aexp) (a : string)
| SDelItem (e : aexp) (ks : list aexp)
| SReturn (e : aexp)
| SRaise (es : list aexp)
| SBreak
| SContinue
| SIf (t : atest) (a b : list astmt)
| SFor (xs : list string) (it : aexp) (body : list astmt)
| SWhile (t : atest) (body : list astmt)
| STry (body : list astmt) (hs : list (list astmt)) (orelse : list astmt)
| SDef (f : string) (ps : list string) (dfl : list aexp) (body : list astmt).

Inductive fkind := FMethod | FProperty | FFunction.
Inductive vkind := VImmutable | VDisplay | VCall (f : string) | VOther.

Record afn := mkFn { f_file : string; f_cls : string; f_name : string; f_kind : fkind;
                     f_params : list string; f_defaults : list aexp; f_body : list astmt }.
Record acls := mkCls { c_file : string; c_name : string; c_bases : list string;
                       c_attrs : list (string * vkind); c_methods : list afn }.
Record atable := mkAT { t_funs : list afn; t_classes : list acls;
                        t_imports : list (string * string * string * string);   (* file, local name, module, original name *)
                        t_globals : list (string * string * vkind) }.            (* file, name, kind of value *)

Definition all_fns (tb : atable) : list afn := t_funs tb ++ flat_map c_methods (t_classes tb).

Definition find_cls (tb : atable) (c : string) : option acls :=
  find (fun k => String.eqb (c_name k) c) (t_classes tb).
Definition find_meth (tb : atable) (c m : string) : option afn :=
  match find_cls tb c with
  | Some k => find (fun f => String.eqb (f_name f) m) (c_methods k)
  | None => None
  end.
Definition find_fun (tb : atable) (f : string) : option afn :=
  find (fun g => String.eqb (f_name g) f) (t_funs tb).

Fixpoint mem_str (x : string) (l : list string) : bool :=
  match l with [] => false | y :: l' => String.eqb x y || mem_str x l' end.

(* ancestors of a class (itself first), by fuel *)
Fixpoint ancestors (tb : atable) (fuel : nat) (c : string) : list string :=
  match fuel with
  | O => [c]
  | S f => c :: match find_cls tb c with
                | Some k => flat_map (ancestors tb f) (c_bases k)
                | None => []
                end
  end.
(* first definition of m along the ancestors *)
Definition lookup_mro (tb : atable) (c m : string) : option afn :=
  (fix go (cs : list string) := match cs with
                                | [] => None
                                | d :: cs' => match find_meth tb d m with Some f => Some f | None => go cs' end
                                end) (ancestors tb 8 c).

(* ================= 2. what an expression may denote ================= *)
Inductive cont := CNames | CNodes | CArcs.

Inductive origin :=
| RGraph              (* the receiver's own graph object *)
| RCont (c : cont)    (* one of its three containers *)
| RNodeE              (* a Node held by the own graph *)
| RArcE               (* an Arc held by the own graph *)
| RNewG               (* a graph object made by this call: VRPTW() *)
| RCopyG              (* copy.deepcopy(<graph>) made by this call *)
| RPar (k : nat)      (* parameter k, or anything reached through it *)
| RExt                (* something that came in through a parameter of a constructor (read back from an attribute) *)
| RArg                (* an argument of a method other than a constructor, or something reached through it *)
| RFresh              (* an object allocated by this call (display, constructor, library result) *)
| ROwn                (* a non-graph object held in an attribute of the receiver *)
| RSelf               (* the receiver, when it is not itself a graph / node / arc *)
| RAtom               (* immutable value: number, string, None, bool, tuple of such; attributes of a Node / Arc *)
| RMod                (* module, imported function, class object, bound method *)
| RGlob               (* a module-level variable of the translated files *)
| RClos               (* a nested function / lambda *)
| RUnk.

Definition cont_eqb (a b : cont) : bool :=
  match a, b with CNames, CNames | CNodes, CNodes | CArcs, CArcs => true | _, _ => false end.
Definition origin_eqb (a b : origin) : bool :=
  match a, b with
  | RGraph, RGraph | RNodeE, RNodeE | RArcE, RArcE | RNewG, RNewG | RCopyG, RCopyG | RExt, RExt | RFresh, RFresh
  | RArg, RArg
  | ROwn, ROwn | RSelf, RSelf | RAtom, RAtom | RMod, RMod | RGlob, RGlob | RClos, RClos | RUnk, RUnk => true
  | RCont c, RCont d => cont_eqb c d
  | RPar j, RPar k => Nat.eqb j k
  | _, _ => false
  end.
Definition aval := list origin.
Fixpoint omem (o : origin) (l : aval) : bool :=
  match l with [] => false | x :: l' => origin_eqb o x || omem o l' end.
Fixpoint ounion (a b : aval) : aval :=
  match a with [] => b | x :: a' => if omem x b then ounion a' b else ounion a' (b ++ [x]) end.
Definition osubset (a b : aval) : bool := forallb (fun o => omem o b) a.
Definition ounions (l : list aval) : aval := fold_left (fun acc v => ounion v acc) l [].

(* names the analysis knows (the translator knows none of them) *)
Definition graph_class := "VRPTW".
Definition node_class := "Node".
Definition arc_class := "Arc".
Definition graph_attr := "vrptw".
Definition cont_of_attr (a : string) : option cont :=
  if String.eqb a "node_names" then Some CNames else
  if String.eqb a "nodes" then Some CNodes else
  if String.eqb a "arcs" then Some CArcs else None.
Definition arc_node_attrs := ["origin"; "destination"].

(* methods of list / dict / set / ndarray that change the object in place ... *)
Definition mutator_names :=
  ["append"; "extend"; "insert"; "pop"; "remove"; "clear"; "update"; "sort"; "reverse"; "setdefault"; "popitem";
   "add"; "discard"; "intersection_update"; "difference_update"; "symmetric_difference_update";
   "appendleft"; "extendleft"; "popleft"; "rotate";
   "fill"; "resize"; "put"; "itemset"; "partition"; "setfield"; "setflags"; "byteswap"; "setdiag";
   "__setitem__"; "__delitem__"; "__iadd__"; "__imul__"; "__ior__"; "__iand__"; "__isub__"; "__ixor__"].
(* ... and those that only read it *)
Definition reader_names :=
  ["index"; "count"; "keys"; "values"; "items"; "get"; "copy"; "__contains__"; "__len__"; "__getitem__"; "__iter__"].
(* library functions that build a new container from the ELEMENTS of their arguments *)
Definition container_funs :=
  ["list"; "dict"; "set"; "tuple"; "frozenset"; "sorted"; "zip"; "enumerate"; "map"; "filter"; "range"; "reversed";
   "product"; "iter"; "array"; "fromiter"; "sum"; "min"; "max"; "next"; "any"; "all"; "sort"; "unique"; "arange";
   "zeros"; "ones"; "lexsort"; "flatnonzero"; "atleast_1d"].
(* library functions whose result is an immutable value *)
Definition atom_funs :=
  ["len"; "int"; "float"; "str"; "bool"; "abs"; "isinstance"; "repr"; "round"; "print"; "id"; "hash"; "type";
   "isinf"; "isnan"; "ceil"; "floor"; "fabs"; "format"; "ord"; "chr";
   "debug"; "info"; "warning"; "error"; "critical"; "exception"; "log"].
(* functions to which a graph container may be handed: they read it *)
Definition reader_funs := container_funs ++ atom_funs.

(* ================= 3. the flow analysis ================= *)
(* An abstract value: what the reference itself may be (`tp`) and -- when that is an object the store model does not
   describe (a list / tuple / dict made by the call, an object held in an attribute of the receiver, a library
   object) -- what may be found inside it (`inn`). *)
Record av := mkV { tp : aval; inn : aval }.
Definition vbot : av := mkV [] [].
Definition vtop (t : aval) : av := mkV t [].
Definition vjoin (a b : av) : av := mkV (ounion (tp a) (tp b)) (ounion (inn a) (inn b)).
Definition vjoins (l : list av) : av := fold_left vjoin l vbot.
Definition vleq (a b : av) : bool := osubset (tp a) (tp b) && osubset (inn a) (inn b).
Definition vis_bot (a : av) : bool := match tp a, inn a with [], [] => true | _, _ => false end.

Inductive wkind := KAttr (a : string) | KItem | KMeth (m : string) | KAug | KDel.
Inductive ptarget :=
| PLib (f : string) | PCtor (c : string) | PFun (f : string) | PSelfM (c m : string) | PSuperM (c m : string)
| PGraphM (m : string) | POtherM (m : string) | PDeepcopy | PLocal (x : string) | PExpr.
Inductive event :=
| EWrite (tgt : aval) (root : option string) (k : wkind) (vals : av)     (* an object is changed in place *)
| EReturn (vals : av)
| EPass (p : ptarget) (pos : nat) (kw : option string) (vals : av)       (* argument pos of a call (keyword kw) *)
| ENote (msg : string).                                                  (* the analysis gives up: fail closed *)

Definition amap := list (string * av).
Definition env := amap.
Fixpoint mget (m : amap) (k : string) : av :=
  match m with [] => vbot | (k', v) :: m' => if String.eqb k k' then v else mget m' k end.
Fixpoint mjoin (m : amap) (k : string) (v : av) : amap :=
  match m with
  | [] => if vis_bot v then [] else [(k, vjoin v vbot)]
  | (k', v') :: m' => if String.eqb k k' then (k', vjoin v' v) :: m' else (k', v') :: mjoin m' k v
  end.
Fixpoint mset (m : amap) (k : string) (v : av) : amap :=
  match m with
  | [] => [(k, v)]
  | (k', v') :: m' => if String.eqb k k' then (k', v) :: m' else (k', v') :: mset m' k v
  end.
Fixpoint mfind (m : amap) (k : string) : option av :=
  match m with [] => None | (k', v) :: m' => if String.eqb k k' then Some v else mfind m' k end.
Definition mleq (a b : amap) : bool := forallb (fun kv => vleq (snd kv) (mget b (fst kv))) a.
Definition mmerge (a b : amap) : amap := fold_left (fun acc kv => mjoin acc (fst kv) (snd kv)) a b.

Record ist := mkI { i_env : env; i_g : amap; i_ev : list event; i_roots : list (string * string) }.
(* i_roots: local x may be (part of) the object held in attribute a of the receiver *)
Record ctx := mkC { x_tb : atable; x_file : string; x_cls : string; x_meth : string; x_self : aval;
                    x_ret : string;        (* key under which `return` values are recorded *)
                    x_all : env;           (* every value a local ever has (closures see this) *)
                    x_props : list string }. (* names of the properties of ordinary classes *)

Definition is_ctor_name (m : string) : bool := String.eqb m "__init__".
Definition self_kind (c : string) : string :=
  if String.eqb c "" then "F" else if String.eqb c graph_class then "G" else
  if String.eqb c node_class then "N" else if String.eqb c arc_class then "A" else "S".
Definition akey (a : string) := String.append "@" a.
Definition rkey (kind m : string) := String.append kind (String.append "." m).

Definition is_atomish (o : origin) : bool := match o with RAtom | RMod => true | _ => false end.
Definition nonatoms (v : aval) : aval := filter (fun o => negb (is_atomish o)) v.
Definition is_box (o : origin) : bool := match o with RFresh | ROwn => true | _ => false end.
Definition has_box (t : aval) : bool := existsb is_box t.
(* everything a value gives access to *)
Definition contents (v : av) : aval := ounion (nonatoms (tp v)) (inn v).

(* what is recorded when a value is put into an attribute of the receiver / returned to the caller *)
Definition store1 (ctor : bool) (o : origin) : origin :=
  match o with RPar _ => if ctor then RExt else RArg | RFresh => ROwn | _ => o end.
Definition ret1 (ctor : bool) (o : origin) : origin :=
  match o with RPar _ => if ctor then RExt else RArg | _ => o end.
Definition omap (f : origin -> origin) (v : aval) : aval := ounion (map f v) [].
Definition tostore (ctor : bool) (v : av) : av := mkV (omap (store1 ctor) (tp v)) (omap (store1 ctor) (inn v)).
Definition toret (ctor : bool) (v : av) : av := mkV (omap (ret1 ctor) (tp v)) (omap (ret1 ctor) (inn v)).

Definition add_ev (st : ist) (e : event) : ist := mkI (i_env st) (i_g st) (e :: i_ev st) (i_roots st).
Definition add_evs (st : ist) (es : list event) : ist := mkI (i_env st) (i_g st) (es ++ i_ev st) (i_roots st).
Definition add_g (st : ist) (k : string) (v : av) : ist := mkI (i_env st) (mjoin (i_g st) k v) (i_ev st) (i_roots st).
Definition set_env (st : ist) (e : env) : ist := mkI e (i_g st) (i_ev st) (i_roots st).
Definition has_root (l : list (string * string)) (x r : string) : bool :=
  existsb (fun p => String.eqb (fst p) x && String.eqb (snd p) r) l.
Definition add_roots (st : ist) (xs rs : list string) : ist :=
  mkI (i_env st) (i_g st) (i_ev st)
      (fold_left (fun acc p => if has_root acc (fst p) (snd p) then acc else p :: acc)
                 (flat_map (fun x => map (fun r => (x, r)) rs) xs) (i_roots st)).
Definition bind (weak : bool) (st : ist) (x : string) (v : av) : ist :=
  set_env st (if weak then mjoin (i_env st) x v else mset (i_env st) x (vjoin v vbot)).
Definition bind_all (st : ist) (xs : list string) (v : av) : ist :=
  fold_left (fun s x => bind true s x v) xs st.

(* something is put INTO an unmodelled container (reached through the locals vs / the attributes rs of the receiver):
   those locals and attributes learn it.  Aliases among locals are not followed. *)
Definition put_into (ctor : bool) (st : ist) (rs vs : list string) (t : aval) (c : aval) : ist :=
  if has_box t then
    let st1 := fold_left (fun s x => set_env s (mjoin (i_env s) x (mkV [] c))) vs st in
    let st2 := fold_left (fun s a => add_g s (akey a) (mkV [] (omap (store1 ctor) c))) rs st1 in
    match rs, vs with
    | [], [] => if omem ROwn t then add_ev st2 (ENote "in-place change of an object of the receiver reached through a call")
                else st2
    | _, _ => st2
    end
  else st.

Definition class_has_meth (tb : atable) (c m : string) : bool :=
  match find_meth tb c m with Some _ => true | None => false end.
Definition s_classes (tb : atable) : list acls :=
  filter (fun k => String.eqb (self_kind (c_name k)) "S") (t_classes tb).
Definition s_meths (tb : atable) (m : string) : list afn :=
  filter (fun f => String.eqb (f_name f) m) (flat_map c_methods (s_classes tb)).
Definition has_kind (l : list afn) (k : fkind) : bool :=
  existsb (fun f => match f_kind f, k with FProperty, FProperty | FMethod, FMethod | FFunction, FFunction => true
                                    | _, _ => false end) l.

Definition import_of (tb : atable) (file x : string) : option (string * string) :=
  match find (fun i => match i with (f, l, _, _) => String.eqb f file && String.eqb l x end) (t_imports tb) with
  | Some (_, _, m, o) => Some (m, o)
  | None => None
  end.
Definition global_kind (tb : atable) (file x : string) : option vkind :=
  match find (fun g => match g with (f, n, _) => String.eqb f file && String.eqb n x end) (t_globals tb) with
  | Some (_, _, k) => Some k
  | None => None
  end.

(* an attribute of the receiver, read *)
Definition read_self (cx : ctx) (g : amap) (a : string) : av :=
  let s := mget g (akey a) in
  let stored := mkV (omap (fun o => match o with RNewG | RCopyG => RGraph | _ => o end) (tp s))
                    (inn s) in
  let viaprop := if mem_str a (x_props cx) then mget g (rkey "S" a) else vbot in
  let v := vjoin stored viaprop in
  match tp v with
  | [] => if has_kind (s_meths (x_tb cx) a) FMethod then vtop [RMod]        (* a bound method *)
          else v                       (* assigned nowhere (yet): see `attrs_known` *)
  | _ => v
  end.

(* attribute a of an object of origin o whose contents are i *)
Definition attr_of (cx : ctx) (st : ist) (a : string) (i : aval) (o : origin) : av :=
  match o with
  | RSelf => read_self cx (i_g st) a
  | RGraph => match cont_of_attr a with
              | Some c => vtop [RCont c]
              | None => vtop (if class_has_meth (x_tb cx) graph_class a then [RMod] else [RAtom])
              end
  | RNewG | RCopyG => vtop (match cont_of_attr a with Some _ => [RFresh] | None => [RAtom] end)
  | RCont _ => vtop [RMod]
  | RNodeE => vtop [RAtom]
  | RArcE => vtop (if mem_str a arc_node_attrs then [RNodeE] else [RAtom])
  | RPar k => vtop [RPar k]
  | RExt => vtop [RExt]
  | RArg => vtop [RArg]
  | RFresh => mkV (ounion [RFresh; RAtom] i) i
  | ROwn => if String.eqb a graph_attr || match cont_of_attr a with Some _ => true | None => false end
            then vtop [RUnk]                      (* another object's graph: not ours *)
            else mkV (ounion [ROwn; RAtom] i) i
  | RAtom => vtop [RAtom]
  | RMod => vtop [RMod]
  | RGlob => vtop [RGlob]
  | RClos => vtop [RMod]
  | RUnk => vtop [RUnk]
  end.

Definition elem_of (i : aval) (o : origin) : av :=
  match o with
  | RCont CNames => vtop [RAtom]
  | RCont CNodes => vtop [RNodeE]
  | RCont CArcs => vtop [RArcE; RAtom]
  | RNodeE => vtop [RAtom]
  | RArcE => vtop [RArcE; RAtom]
  | RPar k => vtop [RPar k]
  | RExt => vtop [RExt]
  | RArg => vtop [RArg]
  | RFresh | ROwn => mkV (ounion [RAtom] i) i
  | RAtom => vtop [RAtom]
  | RMod => vtop [RMod]
  | RGlob => vtop [RGlob]
  | RClos => vtop [RAtom]                         (* a function object holds nothing *)
  | RGraph | RNewG | RCopyG | RSelf | RUnk => vtop [RUnk]
  end.
Definition elems (v : av) : av := vjoins (map (elem_of (inn v)) (tp v)).
(* what a loop over the object yields: a dict yields its keys (tuples of positions) *)
Definition iter_of (i : aval) (o : origin) : av :=
  match o with RCont CArcs => vtop [RAtom] | _ => elem_of i o end.
Definition iters (v : av) : av := vjoins (map (iter_of (inn v)) (tp v)).
(* reflective attributes give access to everything *)
Definition magic_attrs := ["__dict__"; "__class__"; "__bases__"; "__mro__"; "__subclasses__"; "__weakref__"].
Definition attrs (cx : ctx) (st : ist) (a : string) (v : av) : av :=
  if mem_str a magic_attrs then vtop [RUnk] else vjoins (map (attr_of cx st a (inn v)) (tp v)).

(* the attributes of self an expression is rooted at (self.a, self.a[k], self.a.b, self.a.m(..), or a local that was
   bound to such an expression), and the local it starts from *)
Fixpoint roots_of (st : ist) (e : aexp) : list string :=
  match e with
  | XAttr XSelf a => [a]
  | XVar x => map snd (filter (fun p => String.eqb (fst p) x) (i_roots st))
  | XAttr e' _ | XItem e' _ | XSlice e' _ | XMeth e' _ _ _ => roots_of st e'
  | _ => []
  end.
Fixpoint vars_of (e : aexp) : list string :=
  match e with
  | XVar x => [x]
  | XAttr e' _ | XItem e' _ | XSlice e' _ | XMeth e' _ _ _ => vars_of e'
  | _ => []
  end.

Definition lookup_var (cx : ctx) (st : ist) (x : string) : av :=
  match mfind (i_env st) x with
  | Some v => v
  | None => match global_kind (x_tb cx) (x_file cx) x with
            | Some (VCall f) => vtop (if String.eqb f "getLogger" then [RMod] else [RGlob])
            | Some VImmutable => vtop [RAtom]
            | Some _ => vtop [RGlob]
            | None => vtop [RMod]
            end
  end.

(* result of a library function / of a method of a library object *)
Definition elem_funs := ["min"; "max"; "next"; "sum"; "any"; "all"].
Definition lib_call (f : string) (args : av) : av :=
  if mem_str f atom_funs then vtop [RAtom]
  else if mem_str f elem_funs then vjoin (vtop [RAtom]) (vjoin (elems args) (mkV (nonatoms (tp args)) (inn args)))
  else if mem_str f container_funs then mkV [RFresh] (ounion (nonatoms (tp (elems args))) (inn args))
  else mkV (ounion [RFresh; RAtom] (nonatoms (tp args))) (contents args).

(* positional arguments come first, then the keyword arguments in the order of the shape *)
Definition pass_events (p : ptarget) (sh : cshape) (vs : list av) : list event :=
  (fix go (k : nat) (l : list av) :=
     match l with
     | [] => []
     | v :: l' => EPass p k (if Nat.ltb k (sh_pos sh) then None
                             else match nth_error (sh_kws sh) (k - sh_pos sh) with Some (Some n) => Some n | _ => Some "**" end) v
                  :: go (S k) l'
     end) 0 vs.
Definition no_shape := mkShape 1000 [] false.

(* ---------- which functions a call may reach, and what their parameters receive ---------- *)
Fixpoint index_of_str (x : string) (l : list string) (k : nat) : option nat :=
  match l with [] => None | y :: l' => if String.eqb x y then Some k else index_of_str x l' (S k) end.
Definition related (tb : atable) (c d : string) : bool :=
  mem_str c (ancestors tb 8 d) || mem_str d (ancestors tb 8 c).
Definition meths_named (tb : atable) (m : string) : list afn :=
  filter (fun f => String.eqb (f_name f) m) (flat_map c_methods (t_classes tb)).
Definition callee_fns (tb : atable) (p : ptarget) : list afn :=
  match p with
  | PSelfM c m => filter (fun f => related tb c (f_cls f)) (meths_named tb m)
  | PSuperM c m => match tl (ancestors tb 8 c) with
                   | [] => []
                   | bs => (fix go (cs : list string) :=
                              match cs with
                              | [] => []
                              | d :: cs' => match find_meth tb d m with Some f => [f] | None => go cs' end
                              end) bs
                   end
  | POtherM m => s_meths tb m
  | PGraphM m => match find_meth tb graph_class m with Some f => [f] | None => [] end
  | PFun f => match find_fun tb f with Some g => [g] | None => [] end
  | PCtor c => match lookup_mro tb c "__init__" with Some f => [f] | None => [] end
  | _ => []
  end.
Definition param_index (fn : afn) (pos : nat) (kw : option string) : option nat :=
  match kw with
  | None => if Nat.ltb pos (length (f_params fn)) then Some pos else None
  | Some n => index_of_str n (f_params fn) 0
  end.
Definition digit (k : nat) : string :=
  String (Ascii.ascii_of_nat (48 + Nat.div k 10)) (String (Ascii.ascii_of_nat (48 + Nat.modulo k 10)) "").
Definition parkey (fn : afn) (k : nat) : string :=
  String.append "<par>" (String.append (f_cls fn) (String.append "." (String.append (f_name fn) (String.append "." (digit k))))).
(* what the callee sees of an argument: the caller's parameters are values (constructor: possibly a graph);
   when the receiver is another object, the caller's own graph and state are foreign to it *)
Definition arg1 (ctor same : bool) (o : origin) : origin :=
  match o with
  | RPar _ => if ctor then RExt else RArg
  | RGraph | RCont _ | RNodeE | RArcE | RNewG | RCopyG | RSelf | ROwn => if same then o else RExt
  | _ => o
  end.
Definition toarg (ctor same : bool) (v : av) : av := mkV (omap (arg1 ctor same) (tp v)) (omap (arg1 ctor same) (inn v)).
Definition kw_of (sh : cshape) (k : nat) : option string :=
  if Nat.ltb k (sh_pos sh) then None
  else match nth_error (sh_kws sh) (k - sh_pos sh) with Some (Some n) => Some n | _ => Some "**" end.
Definition pass_args (cx : ctx) (st : ist) (p : ptarget) (same : bool) (sh : cshape) (vs : list av) : ist :=
  let ctor := is_ctor_name (x_meth cx) in
  let fns := callee_fns (x_tb cx) p in
  let st1 := add_evs st (pass_events p sh vs) in
  (fix go (k : nat) (l : list av) (s : ist) :=
     match l with
     | [] => s
     | v :: l' => go (S k) l'
                    (fold_left (fun s0 fn => match param_index fn k (kw_of sh k) with
                                             | Some j => add_g s0 (parkey fn j) (toarg ctor same v)
                                             | None => s0
                                             end) fns s)
     end) 0 vs st1.

Inductive callee := CDeep | CClass (c : string) | CFun (f : string) | CLib (f : string).
Definition resolve_callee (cx : ctx) (g : string) : callee :=
  let tb := x_tb cx in
  let by_name := fun n => match find_cls tb n with
                          | Some _ => CClass n
                          | None => match find_fun tb n with Some _ => CFun n | None => CLib n end
                          end in
  match import_of tb (x_file cx) g with
  | Some (m, o) => if String.eqb m "copy" && String.eqb o "deepcopy" then CDeep
                   else by_name (if String.eqb o "" then g else o)
  | None => by_name g
  end.

Definition simple_shape (sh : cshape) (n : nat) : bool :=
  Nat.eqb (sh_pos sh) n && match sh_kws sh with [] => true | _ => false end && negb (sh_star sh).
Definition clos_key (cx : ctx) (f : string) : string :=
  String.append "<clos>" (String.append (x_cls cx) (String.append "." (String.append (x_meth cx) (String.append "." f)))).
(* a value handed out by ANOTHER object's method: its graph is not ours *)
Definition foreign1 (o : origin) : origin :=
  match o with RGraph | RCont _ | RNodeE | RArcE | RNewG | RCopyG | RSelf => RUnk | _ => o end.
Definition foreign (v : av) : av := mkV (omap foreign1 (tp v)) (omap foreign1 (inn v)).

Definition call_name (cx : ctx) (st : ist) (g : string) (sh : cshape) (vs : list av) : av * ist :=
  let all := vjoins vs in
  match mfind (i_env st) g with
  | Some v =>
      let r := mget (i_g st) (clos_key cx g) in
      if osubset (tp v) [RClos] then (r, st)      (* a nested function: its body was analysed with unknown arguments *)
      else (vjoin r (mkV (ounion [RFresh; RAtom] (nonatoms (tp all))) (contents all)),
            add_evs st (pass_events (PLocal g) sh vs))
  | None =>
      match resolve_callee cx g with
      | CDeep => if simple_shape sh 1 then (vtop [RCopyG], add_evs st (pass_events PDeepcopy sh vs))
                 else (vtop [RUnk], add_ev st (ENote "deepcopy called with more than the object to copy"))
      | CClass c => (vtop (if String.eqb c graph_class then [RNewG] else [RFresh]),
                     pass_args cx st (PCtor c) false sh vs)
      | CFun f => (mget (i_g st) (rkey "F" f), pass_args cx st (PFun f) true sh vs)
      | CLib f => (lib_call f all, add_evs st (pass_events (PLib f) sh vs))
      end
  end.

(* method m called on an object of origin o (with contents i), reached through `root` *)
Definition meth_on (cx : ctx) (rs xs : list string) (i : aval) (m : string) (sh : cshape) (vs : list av) (acc : av * ist)
                   (o : origin) : av * ist :=
  let (r, st) := acc in
  let all := vjoins vs in
  let tb := x_tb cx in
  let wr := fun s : ist => add_ev s (EWrite [o] (hd_error rs) (KMeth m) all) in
  let g := i_g st in
  let ctor := is_ctor_name (x_meth cx) in
  (* a method of the graph class or of an ordinary class of the table may change its receiver *)
  let table_meth := class_has_meth tb graph_class m || match s_meths tb m with [] => false | _ => true end in
  match o with
  | RSelf => match s_meths tb m with
             | [] => (vjoin (vtop [RUnk]) r, add_evs st (pass_events PExpr sh vs))
             | _ => (vjoin (mget g (rkey "S" m)) r, pass_args cx st (PSelfM (x_cls cx) m) true sh vs)
             end
  | RGraph => if class_has_meth tb graph_class m
              then (vjoin (mget g (rkey "G" m)) r, pass_args cx st (PGraphM m) true sh vs)
              else (vjoin (vtop [RUnk]) r, wr st)
  | RNewG | RCopyG => (vjoin (vtop [RUnk]) r, if class_has_meth tb graph_class m then st else wr st)
  | RCont c => if mem_str m mutator_names then (vjoin (elem_of [] o) r, wr st)
               else if String.eqb m "copy" then (vjoin (mkV [RFresh] (nonatoms (tp (elem_of [] o)))) r, st)
               else if String.eqb m "keys" || String.eqb m "index" || String.eqb m "count" then (vjoin (vtop [RAtom]) r, st)
               else if String.eqb m "values" || String.eqb m "items"
                    then (vjoin (mkV [RFresh] (nonatoms (tp (elem_of [] o)))) r, st)
               else if mem_str m reader_names then (vjoin (vtop [RAtom]) (vjoin (elem_of [] o) r), st)
               else (vjoin (vtop [RUnk]) r, wr st)
  | RNodeE => if class_has_meth tb node_class m then (vjoin (mget g (rkey "N" m)) r, st)
              else (vjoin (vtop [RUnk]) r, wr st)
  | RArcE => if class_has_meth tb arc_class m then (vjoin (mget g (rkey "A" m)) r, st)
             else (vjoin (vtop [RUnk]) r, wr st)
  | RPar _ | RExt | RArg | RGlob | RUnk =>
      (vjoin (vtop [o; RAtom]) r, if mem_str m mutator_names || table_meth then wr st else st)
  | RFresh | ROwn =>
      if mem_str m mutator_names then
        (vjoin (elem_of i o) r,
         let st1 := put_into ctor st rs xs [o] (contents all) in match o with ROwn => wr st1 | _ => st1 end)
      else if mem_str m reader_names then (vjoin (mkV (ounion [RFresh; RAtom] i) i) r, st)
      else match o with
           | ROwn => (vjoin (vjoin (vtop [RFresh; RAtom]) (foreign (mget g (rkey "S" m)))) r,
                      pass_args cx st (POtherM m) false sh vs)
           | _ => (vjoin (mkV (ounion [RFresh; RAtom] (ounion i (nonatoms (tp all)))) (ounion i (contents all))) r,
                   put_into ctor st rs xs [o] (contents all))
           end
  | RAtom => (vjoin (vtop [RAtom; RFresh]) r, st)
  | RMod => (vjoin (lib_call m all) r, add_evs st (pass_events (PLib m) sh vs))
  | RClos => (vjoin (vtop [RUnk]) r, add_evs st (pass_events PExpr sh vs))
  end.
Definition call_meth (cx : ctx) (st : ist) (rs xs : list string) (v : av) (m : string) (sh : cshape) (vs : list av)
  : av * ist := fold_left (meth_on cx rs xs (inn v) m sh vs) (tp v) (vbot, st).

Fixpoint test_exp (t : atest) : aexp :=
  match t with TIsNone e | TIsNotNone e | TTruthy e | TOther e => e | TNot t' => test_exp t' end.

Definition closure_env (cx : ctx) (st : ist) (ps : list string) : env :=
  fold_left (fun e p => mset e p (vtop [RUnk])) ps (mmerge (i_env st) (x_all cx)).

Fixpoint ev (fuel : nat) (cx : ctx) (st : ist) (e : aexp) {struct fuel} : av * ist :=
  match fuel with
  | O => (vtop [RUnk], add_ev st (ENote "expression too deep"))
  | S f =>
    let evl := (fix go (es : list aexp) (s : ist) : list av * ist :=
                  match es with
                  | [] => ([], s)
                  | x :: es' => let (v, s1) := ev f cx s x in let (vs, s2) := go es' s1 in (v :: vs, s2)
                  end) in
    match e with
    | XAtom => (vtop [RAtom], st)
    | XSelf => (vtop (x_self cx), st)
    | XVar x => (lookup_var cx st x, st)
    | XAttr e1 a => let (v, st1) := ev f cx st e1 in (attrs cx st1 a v, st1)
    | XItem e1 k => let (v, st1) := ev f cx st e1 in let (_, st2) := ev f cx st1 k in (elems v, st2)
    | XSlice e1 ks => let (v, st1) := ev f cx st e1 in let (_, st2) := evl ks st1 in
                      (mkV [RFresh] (ounion (nonatoms (tp (elems v))) (inn v)), st2)
    | XCall g sh args => let (vs, st1) := evl args st in call_name cx st1 g sh vs
    | XMeth e1 m sh args => let (v, st1) := ev f cx st e1 in let (vs, st2) := evl args st1 in
                            call_meth cx st2 (roots_of st2 e1) (vars_of e1) v m sh vs
    | XSuper m sh args => let (vs, st1) := evl args st in
                          (mget (i_g st1) (rkey (self_kind (x_cls cx)) m), pass_args cx st1 (PSuperM (x_cls cx) m) true sh vs)
    | XCallE g args => let (_, st1) := ev f cx st g in let (vs, st2) := evl args st1 in
                       (vtop [RUnk], add_evs st2 (pass_events PExpr no_shape vs))
    | XNew parts => let (vs, st1) := evl parts st in (mkV [RFresh] (contents (vjoins vs)), st1)
    | XOp parts => let (_, st1) := evl parts st in (vtop [RFresh; RAtom], st1)
    | XCat parts => let (vs, st1) := evl parts st in
                    let all := vjoins vs in
                    (mkV [RFresh; RAtom] (ounion (nonatoms (tp (elems all))) (inn all)), st1)
    | XJoin es => let (vs, st1) := evl es st in (vjoins vs, st1)
    | XIf t a b => let (_, st0) := ev f cx st (test_exp t) in
                   let (va, st1) := ev f cx st0 a in let (vb, st2) := ev f cx st1 b in (vjoin va vb, st2)
    | XLambda ps dfl body =>
        let (_, st1) := evl dfl st in
        let (_, st2) := ev f cx (set_env st1 (closure_env cx st1 ps)) body in
        (vtop [RClos], set_env st2 (i_env st1))
    | XComp gens elts =>
        let st1 := (fix go (gs : list (list string * aexp * list aexp)) (s : ist) : ist :=
                      match gs with
                      | [] => s
                      | (names, it, conds) :: gs' =>
                          let (v, s1) := ev f cx s it in
                          let s2 := bind_all s1 names (vjoin (iters v) (elems (iters v))) in
                          let (_, s3) := evl conds s2 in go gs' s3
                      end) gens st in
        let (vs, st2) := evl elts st1 in (mkV [RFresh] (contents (vjoins vs)), st2)
    end
  end.

Definition evl (fuel : nat) (cx : ctx) (es : list aexp) (st : ist) : list av * ist :=
  (fix go (es : list aexp) (s : ist) : list av * ist :=
     match es with
     | [] => ([], s)
     | x :: es' => let (v, s1) := ev fuel cx s x in let (vs, s2) := go es' s1 in (v :: vs, s2)
     end) es st.

Definition EF := 40.   (* expression depth *)
Definition SF := 30.   (* statement nesting *)

Definition with_ret (cx : ctx) (k : string) : ctx :=
  mkC (x_tb cx) (x_file cx) (x_cls cx) (x_meth cx) (x_self cx) k (x_all cx) (x_props cx).
Definition with_all (cx : ctx) (e : env) : ctx :=
  mkC (x_tb cx) (x_file cx) (x_cls cx) (x_meth cx) (x_self cx) (x_ret cx) e (x_props cx).
Definition self_roots (st : ist) (e : aexp) (a : string) : list string :=
  match e with XSelf => [a] | _ => roots_of st e end.

Fixpoint run (fuel : nat) (cx : ctx) (weak : bool) (st : ist) (ss : list astmt) {struct fuel} : ist :=
  match fuel with
  | O => add_ev st (ENote "statements nested too deep")
  | S f =>
    (* a block that may run any number of times *)
    let repeat := fun (c : ctx) (body : list astmt) (s : ist) =>
      if weak then run f c true s body else
      let once := fun s0 : ist => let s1 := run f c true s0 body in mkI (i_env s1) (i_g s1) (i_ev s) (i_roots s1) in
      let s4 := once (once (once (once s))) in
      let s5 := run f c true s4 body in
      if mleq (i_env s5) (i_env s4) then s5 else add_ev s5 (ENote "loop does not stabilise") in
    let ctor := is_ctor_name (x_meth cx) in
    let step := fun (s : ist) (stmt : astmt) =>
      match stmt with
      | SExpr e => snd (ev EF cx s e)
      | SAssign x e => let (v, s1) := ev EF cx s e in add_roots (bind weak s1 x v) [x] (roots_of s1 e)
      | SSetAttr e a v =>
          let (T, s1) := ev EF cx s e in let (V, s2) := ev EF cx s1 v in
          let s3 := add_ev s2 (EWrite (tp T) (hd_error (self_roots s2 e a)) (KAttr a) V) in
          match e with
          | XSelf => if omem RSelf (tp T) then add_g s3 (akey a) (tostore ctor V) else s3
          | _ => put_into ctor s3 (roots_of s3 e) (vars_of e) (tp T) (contents V)
          end
      | SSetItem e ks v =>
          let (T, s1) := ev EF cx s e in let (_, s2) := evl EF cx ks s1 in let (V, s3) := ev EF cx s2 v in
          put_into ctor (add_ev s3 (EWrite (tp T) (hd_error (roots_of s3 e)) KItem V)) (roots_of s3 e) (vars_of e) (tp T) (contents V)
      | SAugName x v =>
          let (V, s1) := ev EF cx s v in
          let T := lookup_var cx s1 x in
          let s2 := add_ev s1 (EWrite (tp T) None KAug V) in
          let s3 := put_into ctor s2 (roots_of s2 (XVar x)) [x] (tp T) (ounion (contents V) (contents (elems V))) in
          bind true s3 x (vjoin T (vtop [RFresh; RAtom]))
      | SAugAttr e a v =>
          let (T, s1) := ev EF cx s e in let (V, s2) := ev EF cx s1 v in
          let obj := attrs cx s2 a T in
          let rs := self_roots s2 e a in
          let s3 := add_ev (add_ev s2 (EWrite (tp obj) (hd_error rs) KAug V))
                           (EWrite (tp T) (hd_error rs) (KAttr a) (vjoin obj (vtop [RFresh; RAtom]))) in
          let s4 := put_into ctor s3 rs (vars_of e) (tp obj) (ounion (contents V) (contents (elems V))) in
          match e with
          | XSelf => if omem RSelf (tp T) then add_g s4 (akey a) (vtop [ROwn; RAtom]) else s4
          | _ => s4
          end
      | SAugItem e ks v =>
          let (T, s1) := ev EF cx s e in let (_, s2) := evl EF cx ks s1 in let (V, s3) := ev EF cx s2 v in
          put_into ctor (add_ev s3 (EWrite (tp T) (hd_error (roots_of s3 e)) KItem V)) (roots_of s3 e) (vars_of e) (tp T) (contents V)
      | SDelName _ => s
      | SDelAttr e a => let (T, s1) := ev EF cx s e in add_ev s1 (EWrite (tp T) (hd_error (self_roots s1 e a)) KDel vbot)
      | SDelItem e ks => let (T, s1) := ev EF cx s e in let (_, s2) := evl EF cx ks s1 in
                         add_ev s2 (EWrite (tp T) (hd_error (roots_of s2 e)) KDel vbot)
      | SReturn e => let (V, s1) := ev EF cx s e in add_g (add_ev s1 (EReturn V)) (x_ret cx) (toret ctor V)
      | SRaise es => snd (evl EF cx es s)
      | SBreak | SContinue => s
      | SIf t a b =>
          let (_, s0) := ev EF cx s (test_exp t) in
          if weak then run f cx true (run f cx true s0 a) b
          else let sa := run f cx false s0 a in
               let sb := run f cx false (set_env sa (i_env s0)) b in
               set_env sb (mmerge (i_env sa) (i_env sb))
      | SFor xs it body =>
          let (v, s1) := ev EF cx s it in
          let s2 := add_roots (bind_all s1 xs (vjoin (iters v) (elems (iters v)))) xs (roots_of s1 it) in
          repeat cx body s2
      | SWhile t body => repeat cx (SExpr (test_exp t) :: body) s
      | STry body hs orelse =>
          let s1 := run f cx true s body in
          let s2 := fold_left (fun acc h => run f cx true acc h) hs s1 in
          run f cx true s2 orelse
      | SDef g ps dfl body =>
          let (_, s1) := evl EF cx dfl s in
          let s2 := bind weak s1 g (vtop [RClos]) in
          let c' := with_ret cx (clos_key cx g) in
          let once := fun s0 : ist => let t := run f c' true s0 body in mkI (i_env t) (i_g t) (i_ev s0) (i_roots t) in
          let s3 := once (once (once (set_env s2 (closure_env cx s2 ps)))) in
          let s4 := run f c' true s3 body in
          set_env s4 (i_env s2)
      end in
    fold_left step ss st
  end.

Definition init_env (g : amap) (fn : afn) : env :=
  (fix go (k : nat) (l : list string) :=
     match l with [] => [] | p :: l' => (p, vjoin (vtop [RPar k]) (mget g (parkey fn k))) :: go (S k) l' end) 0 (f_params fn).

Definition self_of (c m : string) : aval :=
  let k := self_kind c in
  if String.eqb k "F" then [] else if String.eqb k "G" then [RGraph] else
  if String.eqb k "S" then [RSelf] else
  if String.eqb m "__init__" then [RFresh] else if String.eqb k "N" then [RNodeE] else [RArcE].

(* attributes of self that an expression / a block mentions *)
Fixpoint exp_attrs (fuel : nat) (e : aexp) {struct fuel} : list string :=
  match fuel with
  | O => ["?"]
  | S f =>
    let l := flat_map (exp_attrs f) in
    match e with
    | XAtom | XSelf | XVar _ => []
    | XAttr XSelf a => [a]
    | XAttr e1 _ => exp_attrs f e1
    | XItem e1 k => exp_attrs f e1 ++ exp_attrs f k
    | XSlice e1 ks => exp_attrs f e1 ++ l ks
    | XCall _ _ args | XSuper _ _ args | XNew args | XOp args | XCat args | XJoin args => l args
    | XMeth e1 _ _ args => exp_attrs f e1 ++ l args
    | XCallE g args => exp_attrs f g ++ l args
    | XIf t a b => exp_attrs f (test_exp t) ++ exp_attrs f a ++ exp_attrs f b
    | XLambda _ dfl body => l dfl ++ exp_attrs f body
    | XComp gens elts => flat_map (fun g => exp_attrs f (snd (fst g)) ++ l (snd g)) gens ++ l elts
    end
  end.
Fixpoint stmt_attrs (fuel : nat) (s : astmt) {struct fuel} : list string :=
  match fuel with
  | O => ["?"]
  | S f =>
    let ea := exp_attrs EF in
    let bl := flat_map (stmt_attrs f) in
    match s with
    | SExpr e | SAssign _ e | SAugName _ e | SReturn e => ea e
    | SSetAttr e a v | SAugAttr e a v => (match e with XSelf => [a] | _ => ea e end) ++ ea v
    | SSetItem e ks v | SAugItem e ks v => ea e ++ flat_map ea ks ++ ea v
    | SDelName _ | SBreak | SContinue => []
    | SDelAttr e a => match e with XSelf => [a] | _ => ea e end
    | SDelItem e ks => ea e ++ flat_map ea ks
    | SRaise es => flat_map ea es
    | SIf t a b => ea (test_exp t) ++ bl a ++ bl b
    | SFor _ it body => ea it ++ bl body
    | SWhile t body => ea (test_exp t) ++ bl body
    | STry body hs orelse => bl body ++ flat_map bl hs ++ bl orelse
    | SDef _ _ dfl body => flat_map ea dfl ++ bl body
    end
  end.

(* does a body define a nested function or a lambda?  (only then the first, flow-insensitive pass is needed) *)
Fixpoint exp_clos (fuel : nat) (e : aexp) {struct fuel} : bool :=
  match fuel with
  | O => true
  | S f =>
    let l := existsb (exp_clos f) in
    match e with
    | XAtom | XSelf | XVar _ => false
    | XAttr e1 _ => exp_clos f e1
    | XItem e1 k => exp_clos f e1 || exp_clos f k
    | XSlice e1 ks => exp_clos f e1 || l ks
    | XCall _ _ args | XSuper _ _ args | XNew args | XOp args | XCat args | XJoin args => l args
    | XMeth e1 _ _ args => exp_clos f e1 || l args
    | XCallE g args => exp_clos f g || l args
    | XIf t a b => exp_clos f (test_exp t) || exp_clos f a || exp_clos f b
    | XLambda _ _ _ => true
    | XComp gens elts => existsb (fun g => exp_clos f (snd (fst g)) || l (snd g)) gens || l elts
    end
  end.
Fixpoint stmt_clos (fuel : nat) (s : astmt) {struct fuel} : bool :=
  match fuel with
  | O => true
  | S f =>
    let ea := exp_clos EF in
    let bl := existsb (stmt_clos f) in
    match s with
    | SExpr e | SAssign _ e | SAugName _ e | SReturn e => ea e
    | SSetAttr e _ v | SAugAttr e _ v => ea e || ea v
    | SSetItem e ks v | SAugItem e ks v => ea e || existsb ea ks || ea v
    | SDelName _ | SBreak | SContinue => false
    | SDelAttr e _ => ea e
    | SDelItem e ks => ea e || existsb ea ks
    | SRaise es => existsb ea es
    | SIf t a b => ea (test_exp t) || bl a || bl b
    | SFor _ it body => ea it || bl body
    | SWhile t body => ea (test_exp t) || bl body
    | STry body hs orelse => bl body || existsb bl hs || bl orelse
    | SDef _ _ _ _ => true
    end
  end.

Definition prop_names (tb : atable) : list string :=
  map f_name (filter (fun f => match f_kind f with FProperty => true | _ => false end) (flat_map c_methods (s_classes tb))).
Definition run_fn (tb : atable) (props : list string) (g : amap) (fn : afn) : amap * list event :=
  let cx := mkC tb (f_file fn) (f_cls fn) (f_name fn) (self_of (f_cls fn) (f_name fn))
                (rkey (self_kind (f_cls fn)) (f_name fn)) [] props in
  let e0 := init_env g fn in
  let body := map SExpr (f_defaults fn) ++ f_body fn in
  let w := fun s : ist => run SF cx true s body in
  let s1 := if existsb (stmt_clos SF) body then w (w (w (w (mkI e0 g [] [])))) else mkI e0 g [] [] in
  let s2 := run SF (with_all cx (i_env s1)) false (mkI e0 g [] (i_roots s1)) body in
  (i_g s2, rev (i_ev s2)).

Definition tagged := (string * string * event)%type.
Definition round (tb : atable) (g : amap) : amap * list tagged :=
  let props := prop_names tb in
  fold_left (fun acc fn => let (g1, evs) := run_fn tb props (fst acc) fn in
                           (g1, snd acc ++ map (fun e => (f_cls fn, f_name fn, e)) evs))
            (all_fns tb) (g, []).

(* class-level attributes are shared by all instances: an immutable value is harmless, anything else is a global *)
Definition g0 (tb : atable) : amap :=
  fold_left (fun acc k => fold_left (fun acc2 kv => mjoin acc2 (akey (fst kv))
                                       (vtop (match snd kv with VImmutable => [RAtom] | _ => [RGlob] end)))
                                    (c_attrs k) acc) (t_classes tb) [].

(* iterate to a fixed point (at most n rounds): (reached, map, events of the round that confirmed it) *)
Fixpoint rounds (n : nat) (tb : atable) (g : amap) : bool * amap * list tagged :=
  match n with
  | O => (false, g, [])
  | S n' => let (g', evs) := round tb g in if mleq g' g then (true, g, evs) else rounds n' tb g'
  end.

Record analysis := mkA { a_stable : bool; a_map : amap; a_events : list tagged }.
Definition analyse (tb : atable) : analysis :=
  match rounds 12 tb (g0 tb) with (ok, g, evs) => mkA ok g evs end.

(* every attribute of the receiver that an ordinary class reads is assigned somewhere in the table, is a property
   or a method (otherwise the analysis knows nothing about what it holds) *)
Definition attrs_known (tb : atable) (a : analysis) : bool :=
  let props := prop_names tb in
  forallb (fun k =>
    forallb (fun fn =>
      forallb (fun x => negb (vis_bot (mget (a_map a) (akey x))) || mem_str x props ||
                        negb (match s_meths tb x with [] => true | _ => false end))
              (flat_map (stmt_attrs SF) (f_body fn)))
      (c_methods k)) (s_classes tb).

(* ================= 4. what a write means in the store, and which writes are acceptable ================= *)
(* The meaning of `EWrite [o] root k vals` on the graph handle g the method is invoked on:
     WCont c    the object at g's container c is replaced by another object of the same kind (in place change);
     WRebind c  a NEW object of container kind is allocated and g's attribute c is bound to it;
     WNone      no location of the store changes (the graph object's scalar attributes, the receiver's own
                non-graph state, immutable values);
     WFresh     an object allocated during this call is replaced by another of the same kind;
     WAny       anything may happen: some location is replaced by some object. *)
Inductive wclass := WCont (c : cont) | WRebind (c : cont) | WNone | WFresh | WAny.

Definition only_fresh (v : av) : bool :=
  match tp v with [] => false | t => forallb (fun o => match o with RFresh => true | _ => false end) t end.

Definition classify (ctor : bool) (o : origin) (k : wkind) (vals : av) : wclass :=
  match o with
  | RGraph => match k with
              | KAttr a => match cont_of_attr a with
                           | Some c => if only_fresh vals then WRebind c else WAny
                           | None => WNone
                           end
              | _ => WAny
              end
  | RCont c => match k with KAttr _ => WAny | _ => WCont c end
  | RNewG | RCopyG | RFresh => WFresh
  | ROwn | RSelf | RAtom | RArg => WNone
  | RPar _ => if ctor then WAny else WNone      (* arguments of ordinary methods are values: see the notes *)
  | RNodeE | RArcE | RExt | RMod | RGlob | RClos | RUnk => WAny
  end.

Definition wclass_good (w : wclass) : bool := match w with WAny => false | _ => true end.
Definition event_classes (ctor : bool) (e : event) : list wclass :=
  match e with EWrite tgt _ k vals => map (fun o => classify ctor o k vals) tgt | _ => [] end.
Definition event_good (ctor : bool) (e : event) : bool := forallb wclass_good (event_classes ctor e).
Definition tagged_good (t : tagged) : bool :=
  match t with (_, m, e) => event_good (is_ctor_name m) e end.

Definition bad_writes (a : analysis) : list tagged :=
  filter (fun t => negb (tagged_good t)) (a_events a).
Definition notes (a : analysis) : list tagged :=
  filter (fun t => match snd t with ENote _ => true | _ => false end) (a_events a).

(* ---------- the store steps the classes stand for ---------- *)
Definition is_node (s : store) (p : loc) : Prop := exists nm d lo hi, rd s p = Some (ONode nm d lo hi).
Definition is_arc (s : store) (p : loc) : Prop :=
  exists po pd t c, rd s p = Some (OArc po pd t c) /\ is_node s po /\ is_node s pd.
(* a Python reference is never dangling and a list of nodes holds nodes: what a written object may refer to *)
Definition content_ok (s : store) (o : obj) : Prop :=
  match o with
  | ONames _ | ONode _ _ _ _ => True
  | OList items => Forall (is_node s) items
  | ODict es => Forall (fun kv => is_arc s (snd kv)) es
  | OArc po pd _ _ => is_node s po /\ is_node s pd
  | OGraph _ _ _ => False
  end.
Definition kind_of (o : obj) : nat :=
  match o with ONames _ => 0 | OList _ => 1 | ODict _ => 2 | ONode _ _ _ _ => 3 | OArc _ _ _ _ => 4 | OGraph _ _ _ => 5 end.
Definition cont_loc (s : store) (g : loc) (c : cont) : option loc :=
  match rd s g with
  | Some (OGraph a b d) => Some (match c with CNames => a | CNodes => b | CArcs => d end)
  | _ => None
  end.
Definition cont_kind (c : cont) : nat := match c with CNames => 0 | CNodes => 1 | CArcs => 2 end.
Definition set_field (c : cont) (p a b d : loc) : obj :=
  match c with CNames => OGraph p b d | CNodes => OGraph a p d | CArcs => OGraph a b p end.

(* one step of class w in a call on handle g that started in store s0 *)
Inductive cstep (s0 : store) (g : loc) : wclass -> store -> store -> Prop :=
| CS_none : forall s, cstep s0 g WNone s s
| CS_cont : forall c s l o o',
    cont_loc s g c = Some l -> rd s l = Some o -> kind_of o' = kind_of o -> kind_of o' <> 5 ->
    content_ok (upd l o' s) o' -> cstep s0 g (WCont c) s (upd l o' s)
| CS_rebind : forall c s a b d o',
    rd s g = Some (OGraph a b d) -> kind_of o' = cont_kind c -> content_ok (s ++ [o']) o' ->
    cstep s0 g (WRebind c) s (upd g (set_field c (length s) a b d) (s ++ [o']))
| CS_fresh : forall s l o o',
    length s0 <= l -> rd s l = Some o -> kind_of o' = kind_of o -> kind_of o' <> 5 ->
    content_ok (upd l o' s) o' -> cstep s0 g WFresh s (upd l o' s)
| CS_any : forall s l o, cstep s0 g WAny s (upd l o s).
(* any method may allocate nodes, arcs, lists .. at any time *)
Inductive astep : store -> store -> Prop :=
| AS_alloc : forall s o, kind_of o <> 5 -> content_ok (s ++ [o]) o -> astep s (s ++ [o]).

(* the runs of a call whose writes have the classes ws *)
Inductive mtrace (s0 : store) (g : loc) (ws : list wclass) : store -> Prop :=
| MT_start : mtrace s0 g ws s0
| MT_alloc : forall s s', mtrace s0 g ws s -> astep s s' -> mtrace s0 g ws s'
| MT_step : forall s s' w, mtrace s0 g ws s -> In w ws -> cstep s0 g w s s' -> mtrace s0 g ws s'.

(* the classes of the writes of everything in the table, and of one method with what it calls on the same receiver *)
Definition tagged_classes (t : tagged) : list wclass :=
  match t with (_, m, e) => event_classes (is_ctor_name m) e end.
Definition all_classes (a : analysis) : list wclass := flat_map tagged_classes (a_events a).

Definition events_of (evs : list tagged) (c m : string) : list event :=
  map snd (filter (fun t => String.eqb (fst (fst t)) c && String.eqb (snd (fst t)) m) evs).
(* a method together with what it calls on the same receiver / on the receiver's graph / module functions *)
Fixpoint call_closure (fuel : nat) (tb : atable) (evs : list tagged) (c m : string) : list (string * string) :=
  match fuel with
  | O => [(c, m)]
  | S f =>
    (c, m) :: flat_map (fun e => match e with
                                 | EPass (PSelfM c' m' as p) _ _ _ | EPass (PSuperM c' m' as p) _ _ _ =>
                                     flat_map (fun g => call_closure f tb evs (f_cls g) (f_name g)) (callee_fns tb p)
                                 | EPass (PGraphM _ as p) _ _ _ | EPass (PFun _ as p) _ _ _ =>
                                     flat_map (fun g => call_closure f tb evs (f_cls g) (f_name g)) (callee_fns tb p)
                                 | _ => []
                                 end) (events_of evs c m)
  end.
Definition method_classes (tb : atable) (a : analysis) (c m : string) : list wclass :=
  flat_map (fun cm => flat_map (event_classes (is_ctor_name (snd cm))) (events_of (a_events a) (fst cm) (snd cm)))
           (call_closure 5 tb (a_events a) c m).

(* how a constructor obtains the graph it stores *)
Inductive gsource := GNew | GCopy | GShare.
Definition gsource_of (o : origin) : gsource := match o with RNewG => GNew | RCopyG => GCopy | _ => GShare end.
Definition graph_sources (a : analysis) : list gsource := map gsource_of (tp (mget (a_map a) (akey graph_attr))).

(* ---------- arguments: where references to graph objects may be handed ---------- *)
Definition all_of (v : av) : aval := ounion (tp v) (inn v).
Definition graph_ref (o : origin) : bool :=
  match o with RGraph | RCont _ | RNewG | RCopyG => true | _ => false end.
Definition elem_ref (o : origin) : bool := match o with RNodeE | RArcE => true | _ => false end.
Definition mentions_par (k : nat) (v : av) : bool := omem (RPar k) (all_of v).

(* a reference to an object of the own graph (or the receiver itself) is handed only to copy.deepcopy, to library
   functions that read, and to functions / methods / constructors of the table (their parameters then carry it:
   `pass_args`); never to a callable that came in as a parameter *)
Definition handed (o : origin) : bool := graph_ref o || elem_ref o || match o with RSelf => true | _ => false end.
Definition pass_ok (tb : atable) (evs : list tagged) (t : tagged) : bool :=
  match t with
  | (_, _, EPass p pos kw vals) =>
      if existsb handed (all_of vals) then
        match p with
        | PDeepcopy => true
        | PLib g => mem_str g reader_funs
        | PLocal _ | PExpr => false
        | _ => match callee_fns tb p with
               | [] => false
               | fs => forallb (fun g => match param_index g pos kw with Some _ => true | None => false end) fs
               end
        end
      else true
  | _ => true
  end.
Definition bad_passes (tb : atable) (a : analysis) : list tagged :=
  filter (fun t => negb (pass_ok tb (a_events a) t)) (a_events a).

(* a container of the own graph, or the graph itself, is returned only by the property forwarders / by methods of
   the graph class; never stored into another object *)
Definition return_ok (tb : atable) (t : tagged) : bool :=
  match t with
  | (c, m, EReturn vals) =>
      if existsb graph_ref (all_of vals)
      then match find_meth tb c m with
           | Some fn => match f_kind fn with FProperty => true | _ => String.eqb (self_kind c) "G" end
           | None => false
           end
      else true
  | (_, _, EWrite tgt _ _ vals) =>
      if existsb graph_ref (all_of vals)
      then forallb (fun o => match o with RGraph | RCont _ | RSelf | RFresh | RNewG | RCopyG => true | _ => false end) tgt
      else true
  | _ => true
  end.

(* ---------- the attribute that holds the graph ---------- *)
Definition graph_attr_ok (a : analysis) : bool :=
  let v := mget (a_map a) (akey graph_attr) in
  match tp v with [] => false | t => osubset t [RNewG; RCopyG] end &&
  match inn v with [] => true | _ => false end &&
  forallb (fun kv => negb (String.prefix "@" (fst kv)) || String.eqb (fst kv) (akey graph_attr) ||
                     negb (existsb graph_ref (all_of (snd kv)))) (a_map a) &&
  forallb (fun t => match t with
                    | (_, m, EWrite tgt (Some r) k _) =>
                        if String.eqb r graph_attr
                        then match k, tgt with
                             | KAttr a, [RSelf] => negb (String.eqb a graph_attr) || is_ctor_name m
                             | KAttr a, _ => negb (String.eqb a graph_attr)
                             | KDel, [RSelf] => false
                             | _, _ => true
                             end
                        else true
                    | (_, _, EWrite tgt None (KAttr a) _) => negb (String.eqb a graph_attr) || osubset tgt [RSelf]
                    | _ => true
                    end) (a_events a).

(* ---------- the deep-copy contract is the library's ---------- *)
Definition copy_hooks :=
  ["__deepcopy__"; "__copy__"; "__reduce__"; "__reduce_ex__"; "__getstate__"; "__setstate__"; "__getnewargs__";
   "__getnewargs_ex__"; "__new__"; "__getattr__"; "__getattribute__"; "__setattr__"; "__delattr__"; "__init_subclass__";
   "__set_name__"; "__del__"; "__iadd__"; "__imul__"; "__ior__"; "__iand__"; "__isub__"; "__ixor__"].
Definition plain_class (tb : atable) (c : string) : bool :=
  match find_cls tb c with
  | Some k => match c_bases k with [] => true | _ => false end &&
              forallb (fun f => negb (mem_str (f_name f) copy_hooks)) (c_methods k)
  | None => false
  end.
Definition copy_ok (tb : atable) : bool :=
  plain_class tb graph_class && plain_class tb node_class && plain_class tb arc_class.

(* ---------- no mutable object shared through a class ---------- *)
Definition class_attrs_ok (tb : atable) : bool :=
  forallb (fun k => forallb (fun kv => match snd kv with VImmutable => true | _ => false end) (c_attrs k)) (t_classes tb).

Definition required : list (string * string) :=
  [("VRPTW", "__init__"); ("VRPTW", "add_node"); ("VRPTW", "add_arc"); ("VRPTW", "set_depot");
   ("Node", "__init__"); ("Arc", "__init__"); ("RoutingProblem", "__init__");
   ("ArcBasedRoutingProblem", "__init__"); ("PathBasedRoutingProblem", "__init__");
   ("SequenceBasedRoutingProblem", "__init__"); ("MIRP", "__init__"); ("MIRP", "add_node"); ("MIRP", "add_arc");
   ("MIRP", "get_arc_based"); ("MIRP", "get_path_based"); ("MIRP", "get_sequence_based")].
Definition required_ok (tb : atable) : bool :=
  forallb (fun p => class_has_meth tb (fst p) (snd p)) required.

(* ================= 5. the MIRP getters as steps of Store.v's getter machine ================= *)
Inductive slot := SlA | SlP | SlS.
Definition slot_of_attr (a : string) : option slot :=
  if String.eqb a "abrp" then Some SlA else if String.eqb a "pbrp" then Some SlP else
  if String.eqb a "sbrp" then Some SlS else None.
Definition slot_of_class (c : string) : option slot :=
  if String.eqb c "ArcBasedRoutingProblem" then Some SlA else
  if String.eqb c "PathBasedRoutingProblem" then Some SlP else
  if String.eqb c "SequenceBasedRoutingProblem" then Some SlS else None.
Definition slot_eqb (a b : slot) : bool :=
  match a, b with SlA, SlA | SlP, SlP | SlS, SlS => true | _, _ => false end.
Definition strict_param := "strict".

(* does a statement touch the receiver's attributes or leave the method?  (no: the getter machine skips it) *)
Fixpoint gskip_in (inner : bool) (fuel : nat) (s : astmt) {struct fuel} : bool :=
  match fuel with
  | O => false
  | S f =>
    let all := forallb (gskip_in inner f) in
    match s with
    | SExpr _ | SAssign _ _ | SSetItem _ _ _ | SAugName _ _ | SAugItem _ _ _ | SDelName _ | SDelItem _ _
    | SBreak | SContinue => true
    | SSetAttr e _ _ | SAugAttr e _ _ | SDelAttr e _ => match e with XSelf => false | _ => true end
    | SReturn _ | SRaise _ => inner             (* inside a nested function: does not leave the method *)
    | SIf _ a b => all a && all b
    | SFor _ _ body | SWhile _ body => all body
    | SDef _ _ _ body => forallb (gskip_in true f) body
    | STry body hs orelse => all body && forallb all hs && all orelse
    end
  end.
Definition gskip := gskip_in false.
Notation GS := 12 (only parsing).

Section GetterSem.
  Variables (D A P Sq : Type).
  Variable build_arc : D -> A.
  Variable build_path : D -> P.
  Variable build_seq : D -> bool -> Sq.
  Notation mstate := (mstate D A P Sq).
  Notation mout := (mout A P Sq).

  Inductive gres := GRun (m : mstate) | GRet (m : mstate) (o : mout) | GHavoc.

  Definition slot_full (m : mstate) (s : slot) : bool :=
    match s with
    | SlA => match m_ab _ _ _ _ m with Some _ => true | None => false end
    | SlP => match m_pb _ _ _ _ m with Some _ => true | None => false end
    | SlS => match m_sb _ _ _ _ m with Some _ => true | None => false end
    end.
  Definition slot_out (m : mstate) (s : slot) : option mout :=
    match s with
    | SlA => option_map (OutA _ _ _) (m_ab _ _ _ _ m)
    | SlP => option_map (OutP _ _ _) (m_pb _ _ _ _ m)
    | SlS => option_map (OutS _ _ _) (m_sb _ _ _ _ m)
    end.
  Definition slot_build (m : mstate) (s : slot) (strict : bool) : mstate :=
    let d := mdata _ _ _ _ m in
    match s with
    | SlA => mkM _ _ _ _ d (Some (build_arc d)) (m_pb _ _ _ _ m) (m_sb _ _ _ _ m)
    | SlP => mkM _ _ _ _ d (m_ab _ _ _ _ m) (Some (build_path d)) (m_sb _ _ _ _ m)
    | SlS => mkM _ _ _ _ d (m_ab _ _ _ _ m) (m_pb _ _ _ _ m) (Some (build_seq d strict))
    end.

  (* a test whose outcome the cache state determines: `self.<slot> is None`, `is not None`, `not ..`;
     the truth value of a cached OBJECT (`if self.abrp:`) is not determined -- it may define __len__ / __bool__ *)
  Fixpoint gtest (t : atest) (m : mstate) : option bool :=
    match t with
    | TIsNone (XAttr XSelf a) => option_map (fun s => negb (slot_full m s)) (slot_of_attr a)
    | TIsNotNone (XAttr XSelf a) => option_map (slot_full m) (slot_of_attr a)
    | TTruthy (XAttr XSelf a) =>
        match slot_of_attr a with Some s => if slot_full m s then None else Some false | None => None end
    | TNot t' => option_map negb (gtest t' m)
    | _ => None
    end.

  (* the constructor call that fills slot s: C(self.vrptw) -- for the sequence-based class C(self.vrptw, strict) *)
  Definition build_call (s : slot) (v : aexp) : bool :=
    match v with
    | XCall c sh args =>
        match slot_of_class c with
        | Some s' => slot_eqb s s' && negb (sh_star sh) &&
            match s, args, sh_kws sh with
            | SlS, [XAttr XSelf g; XVar p], [] => String.eqb g graph_attr && String.eqb p strict_param
            | SlS, [XAttr XSelf g; XVar p], [Some k] => String.eqb g graph_attr && String.eqb p strict_param && String.eqb k strict_param
            | SlS, _, _ => false
            | _, [XAttr XSelf g], [] => String.eqb g graph_attr
            | _, [XAttr XSelf g], [Some k] => String.eqb g graph_attr && String.eqb k graph_attr && Nat.eqb (sh_pos sh) 0
            | _, _, _ => false
            end
        | None => false
        end
    | _ => false
    end.

  (* Statements that neither touch the receiver's attributes nor leave the method are skipped (what they do to the
     formulation being built is part of `build_*`; that they leave the MIRP's data alone is `pure_call`).  Of the
     others, a test of a cache slot selects its branch, `self.<slot> = C(self.vrptw ..)` fills the slot, `return
     self.<slot>` answers; anything else is outside the getter machine. *)
  Fixpoint gexec (fuel : nat) (strict : bool) (ss : list astmt) (m : mstate) {struct fuel} : gres :=
    match fuel with
    | O => GHavoc
    | S f =>
      (fix go (ss : list astmt) (m : mstate) : gres :=
         match ss with
         | [] => GRun m
         | s :: rest =>
             if gskip GS s then go rest m else
             match s with
             | SIf t a b =>
                 match gtest t m with
                 | Some c => match gexec f strict (if c then a else b) m with
                             | GRun m' => go rest m'
                             | r => r
                             end
                 | None => GHavoc
                 end
             | SSetAttr XSelf a v =>
                 match slot_of_attr a with
                 | Some sl => if build_call sl v then go rest (slot_build m sl strict) else GHavoc
                 | None => GHavoc
                 end
             | SReturn (XAttr XSelf a) =>
                 match slot_of_attr a with
                 | Some sl => match slot_out m sl with Some o => GRet m o | None => GHavoc end
                 | None => GHavoc
                 end
             | _ => GHavoc
             end
         end) ss m
    end.

  Definition lift_step (r : mstate * mout) : gres := GRet (fst r) (snd r).
End GetterSem.

(* the shape the decision procedure accepts: test the cache with `is not None` and return it, else build, configure
   (statements that neither touch self's attributes nor return) and return the cache -- or the same with `is None` *)
Definition getter_shape (sl : slot) (body : list astmt) : bool :=
  match body with
  | SIf (TIsNotNone (XAttr XSelf a)) [SReturn (XAttr XSelf a1)] [] :: SSetAttr XSelf a2 v :: rest =>
      match slot_of_attr a with
      | Some s => slot_eqb s sl && String.eqb a a1 && String.eqb a a2 && build_call sl v &&
                  match rev rest with
                  | SReturn (XAttr XSelf a3) :: mid => String.eqb a a3 && forallb (gskip GS) mid
                  | _ => false
                  end
      | None => false
      end
  | [SIf (TIsNone (XAttr XSelf a)) (SSetAttr XSelf a2 v :: mid) []; SReturn (XAttr XSelf a3)] =>
      match slot_of_attr a with
      | Some s => slot_eqb s sl && String.eqb a a2 && String.eqb a a3 && build_call sl v && forallb (gskip GS) mid
      | None => false
      end
  | _ => false
  end.

Definition getter_names : list (string * slot) :=
  [("get_arc_based", SlA); ("get_path_based", SlP); ("get_sequence_based", SlS)].
Definition mirp_class := "MIRP".
Definition getter_body (tb : atable) (m : string) : list astmt :=
  match find_meth tb mirp_class m with Some fn => f_body fn | None => [] end.

(* expressions / statements of a body that mention attribute a of self *)
Definition cache_attrs := ["abrp"; "pbrp"; "sbrp"].

Definition slot_attr (sl : slot) : string := match sl with SlA => "abrp" | SlP => "pbrp" | SlS => "sbrp" end.

(* a call that leaves the receiver's data alone: no in-place change of an object of the own graph or of an object
   held in an attribute (other than `keep`), no assignment to an attribute (other than `keep`), and the same for the
   methods of the receiver it calls; methods of the graph it calls do not write at all *)
Fixpoint pure_call (fuel : nat) (tb : atable) (evs : list tagged) (keep : string) (c m : string) : bool :=
  match fuel with
  | O => false
  | S f =>
    forallb (fun e =>
      match e with
      | EWrite tgt root k _ =>
          negb (existsb (fun o => graph_ref o || elem_ref o) tgt) &&
          (negb (omem ROwn tgt) || match root with Some r => String.eqb r keep | None => false end) &&
          (negb (omem RSelf tgt) || match k with KAttr a => String.eqb a keep | _ => false end)
      | EPass (PSelfM c' m') _ _ _ => forallb (fun g => pure_call f tb evs keep (f_cls g) (f_name g))
                                              (callee_fns tb (PSelfM c' m'))
      | EPass (PSuperM c' m') _ _ _ => forallb (fun g => pure_call f tb evs keep (f_cls g) (f_name g))
                                               (callee_fns tb (PSuperM c' m'))
      | EPass (PGraphM m') _ _ _ =>
          forallb (fun e' => match e' with EWrite _ _ _ _ => false | EPass (PSelfM _ _) _ _ _ => false | _ => true end)
                  (events_of evs graph_class m')
      | _ => true
      end) (events_of evs c m)
  end.

Definition getter_ok (tb : atable) (a : analysis) (g : string * slot) : bool :=
  let (m, sl) := g in
  let body := getter_body tb m in
  getter_shape sl body &&
  forallb (fun x => negb (mem_str x cache_attrs) || String.eqb x (slot_attr sl)) (flat_map (stmt_attrs SF) body) &&
  negb (mem_str "?" (flat_map (stmt_attrs SF) body)) &&
  pure_call 6 tb (a_events a) (slot_attr sl) mirp_class m.

(* a cache attribute is assigned only by the constructor and by its own getter *)
Definition caches_private (a : analysis) : bool :=
  forallb (fun t => match t with
                    | (c, m, EWrite tgt (Some r) _ _) =>
                        if mem_str r cache_attrs && String.eqb c mirp_class
                        then is_ctor_name m ||
                             existsb (fun g => String.eqb (fst g) m && String.eqb (slot_attr (snd g)) r) getter_names
                        else true
                    | _ => true
                    end) (a_events a).
Definition getters_ok (tb : atable) (a : analysis) : bool :=
  forallb (getter_ok tb a) getter_names && caches_private a.

(* ================= 6. the decision procedure ================= *)
Definition disciplined_analysis (tb : atable) (a : analysis) : bool :=
  a_stable a && attrs_known tb a &&
  match notes a with [] => true | _ => false end &&
  forallb tagged_good (a_events a) &&
  forallb (pass_ok tb (a_events a)) (a_events a) &&
  forallb (return_ok tb) (a_events a) &&
  graph_attr_ok a && copy_ok tb && class_attrs_ok tb && required_ok tb && getters_ok tb a.
Definition alias_disciplined (tb : atable) : bool := disciplined_analysis tb (analyse tb).

(* diagnostics (used by the notes and by mutation experiments): which part fails *)
Definition alias_report (tb : atable) : list (string * bool) :=
  let a := analyse tb in
  [("analysis reaches a fixed point and every attribute read is assigned somewhere", a_stable a && attrs_known tb a);
   ("analysis gives up nowhere", match notes a with [] => true | _ => false end);
   ("every write is on the receiver's own graph footprint / a fresh object / non-graph state", forallb tagged_good (a_events a));
   ("graph references are handed only to deepcopy, readers and table functions", forallb (pass_ok tb (a_events a)) (a_events a));
   ("graph containers are returned only by property forwarders, never stored elsewhere", forallb (return_ok tb) (a_events a));
   ("the graph attribute holds VRPTW() or deepcopy(..), assigned in constructors only", graph_attr_ok a);
   ("VRPTW / Node / Arc are plain classes (no copy hooks, no bases)", copy_ok tb);
   ("no class-level mutable attribute", class_attrs_ok tb);
   ("required methods exist", required_ok tb);
   ("MIRP getters have the cache shape and leave the MIRP alone", getters_ok tb a)].

(* ================= 7. hand-written witnesses (independent of the source) ================= *)
(* ex_tb v w: a graph class, Node, Arc and a formulation base class whose constructor
     v = 0: stores VRPTW() / deepcopy(vrptw) as the source does;   1: stores the graph it was given;
     v = 2: stores copy(vrptw) (shallow);                          3: calls deepcopy(vrptw, memo);
   and a method `touch` that  w = 0: appends to self.vrptw.nodes;  1: assigns an attribute of self.vrptw.nodes[0]. *)
Definition ex_file := "ex.py".
Definition ex_sh (n : nat) := mkShape n [] false.
Definition ex_tb (v w : nat) : atable :=
  let fn := mkFn ex_file in
  let init :=
    match v with
    | 0 => [SIf (TIsNone (XVar "vrptw")) [SAssign "vrptw" (XCall "VRPTW" (ex_sh 0) [])]
                [SAssign "vrptw" (XCall "deepcopy" (ex_sh 1) [XVar "vrptw"])];
            SSetAttr XSelf "vrptw" (XVar "vrptw")]
    | 1 => [SSetAttr XSelf "vrptw" (XVar "vrptw")]
    | 2 => [SSetAttr XSelf "vrptw" (XCall "copy" (ex_sh 1) [XVar "vrptw"])]
    | _ => [SSetAttr XSelf "vrptw" (XCall "deepcopy" (ex_sh 2) [XVar "vrptw"; XVar "memo"])]
    end in
  let touch :=
    match w with
    | 0 => [SExpr (XMeth (XAttr (XAttr XSelf "vrptw") "nodes") "append" (ex_sh 1) [XVar "x"])]
    | _ => [SSetAttr (XItem (XAttr (XAttr XSelf "vrptw") "nodes") XAtom) "time_window" (XVar "x")]
    end in
  mkAT []
    [mkCls ex_file "Node" [] [] [fn "Node" "__init__" FMethod ["name"] [] [SSetAttr XSelf "name" (XVar "name")]];
     mkCls ex_file "Arc" [] [] [fn "Arc" "__init__" FMethod ["origin"] [] [SSetAttr XSelf "origin" (XVar "origin")]];
     mkCls ex_file "VRPTW" [] []
       [fn "VRPTW" "__init__" FMethod [] []
           [SSetAttr XSelf "node_names" (XNew []); SSetAttr XSelf "nodes" (XNew []);
            SSetAttr XSelf "arcs" (XCall "dict" (ex_sh 0) [])];
        fn "VRPTW" "add_node" FMethod ["name"] []
           [SExpr (XMeth (XAttr XSelf "nodes") "append" (ex_sh 1) [XCall "Node" (ex_sh 1) [XVar "name"]]);
            SExpr (XMeth (XAttr XSelf "node_names") "append" (ex_sh 1) [XVar "name"])]];
     mkCls ex_file "RoutingProblem" [] []
       [fn "RoutingProblem" "__init__" FMethod ["vrptw"] [] init;
        fn "RoutingProblem" "touch" FMethod ["x"] [] touch]]
    [(ex_file, "deepcopy", "copy", "deepcopy"); (ex_file, "copy", "copy", "copy")]
    [].
Definition ex_verdict (v w : nat) : bool * bool * bool :=
  let a := analyse (ex_tb v w) in
  (forallb tagged_good (a_events a), graph_attr_ok a, match notes a with [] => true | _ => false end).
(* a source graph (handle 4) and a deep copy of it (handle 9), as in props/C16.v *)
Definition ex_store : store :=
  [ ONames [7]; OList [3]; ODict []; ONode 7 0%Z 0%Z PInf; OGraph 0 1 2;
    ONames [7]; OList [8]; ODict []; ONode 7 0%Z 0%Z PInf; OGraph 5 6 7 ].
