(* MirpWrap.v -- executable model of the MIRP formulation wrappers of applications/mirp.py
   (estimate_high_cost, get_arc_based, get_path_based, get_sequence_based) and of
   VRPTW.estimate_max_vehicles (routing_problem/vrptw.py), on top of the exact-rational model of the
   MIRP helper in Mirp.v.  Only what the wrappers CHOOSE is modelled: the time grid handed to
   add_time_points, the vehicle count and sequence length set on the sequence-based object, the
   repetition counts / node_costs / time_costs handed to add_routes_better, and the high cost handed
   to make_feasible.  The heuristics themselves are Heur*.v (C09), the caching of the three getters
   is Store.v (C16), the seeding of get_path_based is Rng.v (C17).
   Definitions only; lemmas live in MirpWrap_facts.v.

   Conventions (as in Mirp.v): numbers are Q compared with `==`; np.ceil / np.floor are Qceiling /
   Qfloor; Python's int() is truncation towards zero (Qtrunc); min()/max() of an empty sequence
   raise ValueError; a division by zero raises ZeroDivisionError = Err OtherError. *)
From Coq Require Import QArith Qround Qabs.
From VQ Require Import Base Mirp Rng.
Local Open Scope Q_scope.

(* ---------- numbers ---------- *)
(* int(x) of Python: truncation towards zero *)
Definition Qtrunc (x : Q) : Z := if Qltb x 0 then Qceiling x else Qfloor x.

(* min(iterable) / max(iterable): the first extremal element; ValueError on an empty sequence *)
Fixpoint qmin_from (x : Q) (l : list Q) : Q :=
  match l with [] => x | y :: t => qmin_from (if Qltb y x then y else x) t end.
Fixpoint qmax_from (x : Q) (l : list Q) : Q :=
  match l with [] => x | y :: t => qmax_from (if Qltb x y then y else x) t end.
Definition py_min (l : list Q) : result Q :=
  match l with [] => Err ValueError | x :: t => Ok (qmin_from x t) end.
Definition py_max (l : list Q) : result Q :=
  match l with [] => Err ValueError | x :: t => Ok (qmax_from x t) end.

(* ---------- port_frequency ---------- *)
(* MIRP.add_nodes records port_frequency[name] = np.fabs(inventory_cap / inventory_rate) after the port
   was registered and before the first node is created; with exact numbers a zero rate raises
   ZeroDivisionError at this very expression, so the entry exists iff rate <> 0 (whatever happens to
   the nodes afterwards).  A dict: assignment overwrites in place, else appends. *)
Definition pfreq := list (nat * Q).
Fixpoint pf_set (p : nat) (v : Q) (m : pfreq) : pfreq :=
  match m with
  | [] => [(p, v)]
  | (q, v') :: m' => if Nat.eqb p q then (q, v) :: m' else (q, v') :: pf_set p v m'
  end.
Definition port_freq (cap rate : Q) : Q := Qabs (cap / rate).
Definition pf_step (pf : pfreq) (o : mop) : pfreq :=
  match o with
  | AddNodes name _ rate cap => if Qeq_bool rate 0 then pf else pf_set name (port_freq cap rate) pf
  | _ => pf
  end.
Definition pf_run (ops : list mop) (pf : pfreq) : pfreq := fold_left pf_step ops pf.

(* the MIRP object as the wrappers see it: the state of Mirp.v plus port_frequency *)
Record wstate := mkW { wst : mstate; wpf : pfreq }.
Definition winit (size H : Q) : wstate := mkW (init_state size H) [].
Definition wstep (w : wstate) (o : mop) : wstate := mkW (fst (mstep (wst w) o)) (pf_step (wpf w) o).
Definition wrun (ops : list mop) (w : wstate) : wstate := fold_left wstep ops w.

(* ---------- VRPTW.estimate_max_vehicles ---------- *)
(* depot_index is 0; one pass over the arc keys; a depot self-arc (0,0) counts on both sides *)
Definition leaves_depot (kv : (nat * nat) * marc) : bool := Nat.eqb (fst (fst kv)) 0.
Definition enters_depot (kv : (nat * nat) * marc) : bool := Nat.eqb (snd (fst kv)) 0.
Definition n_out (g : mgraph) : nat := length (filter leaves_depot (marcs g)).
Definition n_in (g : mgraph) : nat := length (filter enters_depot (marcs g)).
Definition est_max_vehicles (g : mgraph) : nat := Nat.min (n_out g) (n_in g).

(* ---------- MIRP.estimate_high_cost ---------- *)
Definition arc_costs (g : mgraph) : list Q := map (fun kv => acost (snd kv)) (marcs g).
Definition travel_times (g : mgraph) : list Q := map (fun kv => att (snd kv)) (marcs g).
Definition freq_values (pf : pfreq) : list Q := map snd pf.

(* most_freq = min(port_frequency.values())      ValueError when no port has an entry
   most_trips = time_horizon / most_freq          ZeroDivisionError when that port has capacity 0
   max_cost = max(arc costs)                      ValueError when there is no arc
   return 2 * max_cost * most_trips *)
Definition estimate_high_cost (w : wstate) : result Q :=
  match py_min (freq_values (wpf w)) with
  | Err e => Err e
  | Ok mf =>
      if Qeq_bool mf 0 then Err OtherError
      else
        match py_max (arc_costs (gr (wst w))) with
        | Err e => Err e
        | Ok mc => Ok (2 * mc * (horizon (wst w) / mf))
        end
  end.

(* `if make_feasible: high_cost = self.estimate_high_cost(); X.make_feasible(high_cost)`:
   the value handed to the heuristic, None when the heuristic is not requested *)
Definition high_for (mf : bool) (w : wstate) : result (option Q) :=
  if mf then match estimate_high_cost w with Ok h => Ok (Some h) | Err e => Err e end else Ok None.

(* ---------- MIRP.get_arc_based: the time grid ---------- *)
(* np.arange(a, b + 1) for integers a, b: a, a+1, .., b; empty when a > b *)
Definition zrange (a b : Z) : list Z := map (fun i => (a + Z.of_nat i)%Z) (seq 0 (Z.to_nat (b + 1 - a))).
(* for n in nodes: if np.isinf(tw1): continue; tw_points += arange(ceil(tw0), floor(tw1) + 1) *)
Definition node_points (n : mnode) : list Z :=
  match hi n with QInf => [] | QFin b => zrange (Qceiling (lo n)) (Qfloor b) end.
Definition tw_points (g : mgraph) : list Z := flat_map node_points (mnodes g).
(* tw_points.append(0); set(); list(); sort(); add_time_points sorts again: Rng.grid_of,
   `set_order` being the (unspecified) iteration order of the hash set *)
Definition arc_grid_with (set_order : list Z -> list Z) (g : mgraph) : list Z := grid_of (tw_points g) set_order.
Definition arc_grid (g : mgraph) : list Z := arc_grid_with (fun l => l) g.

(* the grid, and the high cost handed to make_feasible *)
Definition get_arc_based (mf : bool) (w : wstate) : result (list Z * option Q) :=
  match high_for mf w with
  | Err e => Err e
  | Ok h => Ok (arc_grid (gr (wst w)), h)
  end.

(* ---------- MIRP.get_sequence_based: vehicle count and sequence length ---------- *)
(* min(filter(lambda t: t > 0, travel_times)): ValueError when no arc has a positive travel time *)
Definition min_travel_time (g : mgraph) : result Q := py_min (filter (fun t => Qltb 0 t) (travel_times g)).
(* int(time_horizon / min_travel_time + 2); set_max_sequence_length applies int() once more *)
Definition seq_len (H mt : Q) : Z := Qtrunc (H / mt + 2).
(* (max_vehicles, max_sequence_length) set on the sequence-based object.  estimate_max_vehicles is
   evaluated on the MIRP's own graph (the sequence object holds a deep copy to which the class adds
   the depot self-arc; that copy is not the one counted). *)
Definition seq_params (w : wstate) : result (nat * Z) :=
  match min_travel_time (gr (wst w)) with
  | Err e => Err e
  | Ok mt => Ok (est_max_vehicles (gr (wst w)), seq_len (horizon (wst w)) mt)
  end.
Definition get_sequence_based (mf : bool) (w : wstate) : result (nat * Z * option Q) :=
  match seq_params w with
  | Err e => Err e
  | Ok vl =>
      match high_for mf w with
      | Err e => Err e
      | Ok h => Ok (vl, h)
      end
  end.

(* ---------- MIRP.get_path_based: what is handed to add_routes_better ---------- *)
(* def time_costs(t): return 0 if t <= 10 else 100*t *)
Definition time_costs (t : Q) : Q := if Qle_bool t 10 then 0 else 100 * t.
(* node_costs = [0]*len(nodes); node_costs[depot_index] = high_cost   (IndexError on an empty node list) *)
Definition node_costs (g : mgraph) (high : Q) : result (list Q) :=
  match mnodes g with
  | [] => Err IndexError
  | _ :: rest => Ok (high :: map (fun _ => 0) rest)
  end.
(* len(range(z)) *)
Definition range_count (z : Z) : Z := Z.max 0 z.
(* zip([0.0, 1.0, np.inf], [1, int(H), int(10*H)]): (explore, number of add_routes_better calls) *)
Definition path_rounds (H : Q) : list (qext * Z) :=
  [(QFin 0, 1%Z); (QFin 1, range_count (Qtrunc H)); (QInf, range_count (Qtrunc (10 * H)))].
(* the high cost is estimated unconditionally (before the rounds), make_feasible or not *)
Definition path_plan (w : wstate) : result (list (qext * Z) * list Q * Q) :=
  match estimate_high_cost w with
  | Err e => Err e
  | Ok h =>
      match node_costs (gr (wst w)) h with
      | Err e => Err e
      | Ok nc => Ok (path_rounds (horizon (wst w)), nc, h)
      end
  end.

(* ---------- observables compared with the implementation ---------- *)
Definition Qres_eqb : result Q -> result Q -> bool := result_eqb Qeq_bool.
Definition round_eqb (a b : qext * Z) : bool := qext_eqb (fst a) (fst b) && Z.eqb (snd a) (snd b).
Definition seqp_eqb (a b : nat * Z) : bool := Nat.eqb (fst a) (fst b) && Z.eqb (snd a) (snd b).
Definition plan_eqb (a b : list (qext * Z) * list Q * Q) : bool :=
  match a, b with
  | (r1, n1, h1), (r2, n2, h2) => list_eqb round_eqb r1 r2 && list_eqb Qeq_bool n1 n2 && Qeq_bool h1 h2
  end.

(* what the real objects show after a history `ops` on MIRP(size, H):
   estimate_high_cost() (value or exception class); vrptw.estimate_max_vehicles();
   the time_points of get_arc_based(make_feasible=False);
   (max_vehicles, max_sequence_length) of get_sequence_based(make_feasible=False, strict=..) or the exception;
   the calls of add_routes_better made by get_path_based(make_feasible=False) as (explore, count) runs,
   node_costs, the high cost; time_costs at the sample points ts;
   port_frequency in dict order *)
Record wimpl := mkWI {
  i_high : result Q;
  i_V : nat;
  i_grid : list Z;
  i_seq : result (nat * Z);
  i_path : result (list (qext * Z) * list Q * Q);
  i_ts : list Q;
  i_tc : list Q;
  i_pf : list (nat * Q)
}.
Definition wcase := (Q * Q * list mop * wimpl)%type.

Definition check_wcase (c : wcase) : list nat :=
  match c with
  | (size, H, ops, i) =>
      let w := wrun ops (winit size H) in
      let g := gr (wst w) in
      chk 1 (Qres_eqb (estimate_high_cost w) (i_high i)) ++
      chk 2 (Nat.eqb (est_max_vehicles g) (i_V i)) ++
      chk 3 (list_eqb Z.eqb (arc_grid g) (i_grid i)) ++
      chk 4 (result_eqb seqp_eqb (seq_params w) (i_seq i)) ++
      chk 5 (result_eqb plan_eqb (path_plan w) (i_path i)) ++
      chk 6 (list_eqb Qeq_bool (map time_costs (i_ts i)) (i_tc i)) ++
      chk 7 (list_eqb (pair_eqb Nat.eqb Qeq_bool) (wpf w) (i_pf i))
  end.

(* a graph given directly (for the float-dyadic stream and for unit cases that no MIRP history
   produces, e.g. a depot self-arc): nodes (lo, hi), arc keys with (time, cost), horizon, frequencies *)
Definition graph_of (ws : list (Q * qext)) (arcs : list ((nat * nat) * (Q * Q))) : mgraph :=
  mkGraph (map (fun w => mkNode NDepot 0 (fst w) (snd w)) ws)
          (map (fun ka => (fst ka, mkArc NDepot NDepot (fst (snd ka)) (snd (snd ka)))) arcs).
Definition gcase := (list (Q * qext) * list ((nat * nat) * (Q * Q)) * Q * list (nat * Q) * wimpl)%type.
Definition check_gcase (c : gcase) : list nat :=
  match c with
  | (ws, arcs, H, pf, i) =>
      let g := graph_of ws arcs in
      let w := mkW (mkState g [] [] [] 0 H) pf in
      chk 1 (Qres_eqb (estimate_high_cost w) (i_high i)) ++
      chk 2 (Nat.eqb (est_max_vehicles g) (i_V i)) ++
      chk 3 (list_eqb Z.eqb (arc_grid g) (i_grid i)) ++
      chk 4 (result_eqb seqp_eqb (seq_params w) (i_seq i)) ++
      chk 5 (result_eqb plan_eqb (path_plan w) (i_path i)) ++
      chk 6 (list_eqb Qeq_bool (map time_costs (i_ts i)) (i_tc i))
  end.
