(* PyTestSet.v -- the combinators printed by harness/translate_testset.py (package `testset`, the
   generator half of C10): test_feasibility.py (test_feasibility, convenience, do_all,
   print_summary) and generate_test_set.gen.  Definitions only; facts in PyTestSet_facts.v.

   The translator is a printer without types: every Python expression becomes the combinator of the
   same shape below, over ONE dynamically typed universe of values `tv`; what a Python / numpy /
   scipy construct MEANS (dispatch on the value, broadcasting, which exception) is fixed here.
   Numbers, 1-d arrays and dense 2-d arrays are the values of PyMat.v at the carrier Z (`TV`), so
   `.dot` / `np.dot` / `+` / `-` have the dense meaning of package getqubo (PyMat.py_dot ...).

   Effects.  Code of other modules (load_spins, s_to_x, np.load, np.savez, os.listdir, print, the
   routing-problem objects, QUBOContainer, CPLEX, files) is not interpreted: a call of it is an
   EXTERNAL CALL.  A computation is a function of the log of external calls made so far; an external
   call appends (name, positional arguments, keyword arguments) to the log and returns what the
   oracle `o` -- an arbitrary function of the whole history and the call -- answers (a value or an
   exception class).  Nothing is assumed about the oracle except in hypotheses of theorems (e.g.
   np.load (np.savez d) gives back d).

   Fail closed: an operand combination that is not modelled yields Err OtherError. *)
From Coq Require Import ZArith List Bool String Ascii PeanoNat.
From VQ Require Import Base LinAlg Penalty Export PyMat TestFeas.
Import ListNotations.
Local Open Scope string_scope.
Open Scope Z_scope.

(* ====================================================================================== *)
(* values                                                                                  *)
(* ====================================================================================== *)
Inductive tv :=
| TV (v : val Z)                       (* None, True/False, number, 1-d array, dense 2-d array (PyMat values) *)
| TInt (z : Z)                         (* a Python / numpy INTEGER (literal, len(), sum of booleans, int(x), nnz): the only
                                          numbers whose str() is modelled; TV (Scal z) is a number that may be a float *)
| TStr (s : string)
| TBools (l : list bool)               (* 1-d boolean ndarray *)
| TSparse (r c : nat) (es : list entry)(* scipy.sparse container of shape (r, c): its STORED entries *)
| TObj0 (inner : tv)                   (* 0-d object ndarray holding `inner` (np.load of a saved sparse container) *)
| TObjs (n : nat)                      (* 1-d object ndarray of length n whose elements are not modelled *)
| TTuple (l : list tv)
| TList (l : list tv)
| TDict (kv : list (string * tv))      (* dict with string keys in insertion order / a loaded .npz archive *)
| TOpq (id : nat)                      (* an object of another module (handle) *)
| TGlobal (name : string)              (* a module-level name that is not interpreted: module, function, class, constant *)
| TAttr (obj : tv) (name : string)     (* obj.name where the attribute is not interpreted: bound method / sub-object *)
| TPartial (f : tv) (kw : list (string * tv)).   (* functools.partial(f, **kw) *)

Definition tnum (z : Z) : tv := TV (Scal z).
Definition tint (z : Z) : tv := TInt z.
Definition tnat (n : nat) : tv := TInt (Z.of_nat n).
Definition tbool (b : bool) : tv := TV (VBool b).
Definition tnone : tv := TV VNone.
(* a 1-d numeric array, an (r, c) dense 2-d array given by rows *)
Definition tvec (l : list Z) : tv := TV (Vec (List.length l) (Zvec_of l)).
Definition tmat (A : list (list Z)) (c : nat) : tv := TV (Mat (List.length A) c (Zmat_of A)).

(* ====================================================================================== *)
(* the monad: log of external calls + exceptions                                           *)
(* ====================================================================================== *)
Inductive event := EvCall (name : string) (args : list tv) (kw : list (string * tv)).
Definition tlog := list event.
Definition oracle := tlog -> string -> list tv -> list (string * tv) -> result tv.
Definition M (A : Type) := tlog -> tlog * result A.

Definition m_ret {A} (a : A) : M A := fun tr => (tr, Ok a).
Definition m_raise {A} (e : errcls) : M A := fun tr => (tr, Err e).
Definition m_lift {A} (r : result A) : M A := fun tr => (tr, r).
Definition m_bind {A B} (x : M A) (f : A -> M B) : M B :=
  fun tr => match x tr with
            | (tr1, Ok a) => f a tr1
            | (tr1, Err e) => (tr1, Err e)
            end.
(* the call is logged whether or not it raises *)
Definition ext_call (o : oracle) (name : string) (args : list tv) (kw : list (string * tv)) : M tv :=
  fun tr => ((tr ++ [EvCall name args kw])%list, o tr name args kw).

(* [e1, e2, ...] evaluated left to right *)
Fixpoint m_list {A} (l : list (M A)) : M (list A) :=
  match l with
  | [] => m_ret []
  | x :: r => m_bind x (fun a => m_bind (m_list r) (fun rest => m_ret (a :: rest)))
  end.
Fixpoint m_kwlist (l : list (string * M tv)) : M (list (string * tv)) :=
  match l with
  | [] => m_ret []
  | (k, x) :: r => m_bind x (fun a => m_bind (m_kwlist r) (fun rest => m_ret ((k, a) :: rest)))
  end.

(* ====================================================================================== *)
(* pure operations on values                                                               *)
(* ====================================================================================== *)
Definition rmap {A B} (f : A -> B) (r : result A) : result B :=
  match r with Ok a => Ok (f a) | Err e => Err e end.

(* the PyMat value a container stands for in `.dot`: a sparse container at its dense meaning *)
Definition dense_of (a : tv) : option (val Z) :=
  match a with
  | TV v => Some v
  | TInt z => Some (Scal z)
  | TSparse r c es => Some (Mat r c (coo_dense es))
  | _ => None
  end.
(* a number (integer or not) *)
Definition num_of (a : tv) : option Z :=
  match a with TInt z | TV (Scal z) => Some z | _ => None end.

(* recv.dot(arg) *)
Definition t_dot (a b : tv) : result tv :=
  match a, b with
  | TObj0 _, TV (Vec n _) => Ok (TObjs n)          (* 0-d object array: the vector scaled by the object *)
  | _, TV vb =>
      match dense_of a with
      | Some va => rmap TV (py_dot Zops va vb)
      | None => Err OtherError
      end
  | _, _ => Err OtherError
  end.

(* np.dot(a, b): ndarrays only (np.dot does not know scipy.sparse containers) *)
Definition np_dot (a b : tv) : result tv :=
  match a, b with
  | TV va, TV vb => rmap TV (py_dot Zops va vb)
  | _, _ => Err OtherError
  end.

(* elementwise comparison of two 1-d arrays with numpy's broadcasting of a length-1 operand *)
Definition bcast_cmp (cmp : Z -> Z -> bool) (n : nat) (u : nat -> Z) (m : nat) (v : nat -> Z) : result tv :=
  if Nat.eqb n m then Ok (TBools (map (fun k => cmp (u k) (v k)) (seq O n)))
  else if Nat.eqb n 1 then Ok (TBools (map (fun k => cmp (u O) (v k)) (seq O m)))
  else if Nat.eqb m 1 then Ok (TBools (map (fun k => cmp (u k) (v O)) (seq O n)))
  else Err ValueError.
(* an object array of length n against a numeric array of length m: only the shapes are modelled *)
Definition bcast_objs (n m : nat) : result tv :=
  if Nat.eqb n m then (if Nat.eqb n 0 then Ok (TBools []) else Err OtherError)
  else if Nat.eqb n 1 then (if Nat.eqb m 0 then Ok (TBools []) else Err OtherError)
  else if Nat.eqb m 1 then Err OtherError
  else Err ValueError.

(* == on strings (a name of its own so that proofs can keep it folded on abstract strings) *)
Definition str_eqb (a b : string) : bool := String.eqb a b.

Definition t_cmp_eq (neg : bool) (a b : tv) : result tv :=
  match a, b with
  | TV (Scal x), TV (Scal y) | TInt x, TInt y | TInt x, TV (Scal y) | TV (Scal x), TInt y => Ok (tbool (xorb neg (x =? y)))
  | TStr s, TStr t => Ok (tbool (xorb neg (str_eqb s t)))
  | TV (Vec n u), TV (Vec m v) => bcast_cmp (fun x y => xorb neg (x =? y)) n u m v
  | TObjs n, TV (Vec m _) => bcast_objs n m
  | _, _ => Err OtherError
  end.
Definition t_eq := t_cmp_eq false.
Definition t_ne := t_cmp_eq true.
Definition t_ord (cmp : Z -> Z -> bool) (a b : tv) : result tv :=
  match num_of a, num_of b with
  | Some x, Some y => Ok (tbool (cmp x y))
  | _, _ => Err OtherError
  end.
Definition t_lt := t_ord Z.ltb.
Definition t_le := t_ord Z.leb.
Definition t_gt := t_ord Z.gtb.
Definition t_ge := t_ord Z.geb.

Definition t_add (a b : tv) : result tv :=
  match a, b with
  | TInt x, TInt y => Ok (TInt (x + y))
  | TInt x, TV vb => rmap TV (py_add Zops (Scal x) vb)
  | TV va, TInt y => rmap TV (py_add Zops va (Scal y))
  | TV va, TV vb => rmap TV (py_add Zops va vb)
  | TStr s, TStr t => Ok (TStr (s ++ t))
  | TStr _, TV _ | TV _, TStr _ => Err TypeError
  | _, _ => Err OtherError
  end.
Definition t_sub (a b : tv) : result tv :=
  match a, b with
  | TInt x, TInt y => Ok (TInt (x - y))
  | TInt x, TV vb => rmap TV (py_sub Zops (Scal x) vb)
  | TV va, TInt y => rmap TV (py_sub Zops va (Scal y))
  | TV va, TV vb => rmap TV (py_sub Zops va vb)
  | _, _ => Err OtherError
  end.
Definition t_mul (a b : tv) : result tv :=
  match a, b with
  | TInt x, TInt y => Ok (TInt (x * y))
  | TInt x, TV vb => rmap TV (py_mul Zops (Scal x) vb)
  | TV va, TInt y => rmap TV (py_mul Zops va (Scal y))
  | TV va, TV vb => rmap TV (py_mul Zops va vb)
  | _, _ => Err OtherError
  end.
Definition t_neg (a : tv) : result tv :=
  match a with TInt x => Ok (TInt (- x)) | TV va => rmap TV (py_neg Zops va) | _ => Err OtherError end.

(* bool(x) *)
Definition t_truth (a : tv) : result bool :=
  match a with
  | TV VNone => Ok false
  | TV (VBool b) => Ok b
  | TV (Scal z) | TInt z => Ok (negb (z =? 0))
  | TStr s => Ok (negb (str_eqb s ""))
  | TTuple l | TList l => Ok (negb (Nat.eqb (List.length l) 0))
  | TDict kv => Ok (negb (Nat.eqb (List.length kv) 0))
  | _ => Err OtherError
  end.

(* len(x) *)
Definition t_len (a : tv) : result tv :=
  match a with
  | TV (Vec n _) => Ok (tnat n)
  | TV (Mat r _ _) => Ok (tnat r)
  | TV (Scal _) | TV VNone | TV (VBool _) | TInt _ => Err TypeError
  | TBools l => Ok (tnat (List.length l))
  | TStr s => Ok (tnat (String.length s))
  | TTuple l | TList l => Ok (tnat (List.length l))
  | TDict kv => Ok (tnat (List.length kv))
  | TObjs n => Ok (tnat n)
  | TObj0 _ => Err TypeError
  | _ => Err OtherError
  end.

(* sum(x): the number of True entries of a boolean array, the sum of a numeric array *)
Definition t_sum (a : tv) : result tv :=
  match a with
  | TBools l => Ok (tnat (count_true l))
  | TV (Vec n v) => Ok (tnum (sumZn n v))
  | _ => Err OtherError
  end.

(* int(x) of an (integral) number: an integer *)
Definition t_int (a : tv) : result tv :=
  match a with
  | TV (Scal z) | TInt z => Ok (TInt z)
  | TV (VBool b) => Ok (TInt (if b then 1 else 0))
  | _ => Err OtherError
  end.

(* str(x) / f"{x}" of an integer or a string (the text of a number that may be a float is not modelled) *)
Definition t_str (a : tv) : result string :=
  match a with
  | TInt z => Ok (print_int z)
  | TStr s => Ok s
  | _ => Err OtherError
  end.

(* ---------- attributes, .item, subscripts ---------- *)
(* x.name: `nnz` of a sparse container is the number of stored entries; any other attribute is not
   interpreted and stays symbolic (a bound method / sub-object) *)
Definition t_getattr (a : tv) (name : string) : result tv :=
  if String.eqb name "nnz" then
    match a with
    | TSparse _ _ es => Ok (tnat (List.length es))
    | TV _ | TInt _ | TBools _ | TStr _ => Err AttributeError
    | _ => Err OtherError
    end
  else Ok (TAttr a name).

(* x.item(0) *)
Definition t_item0 (a : tv) : result tv :=
  match a with
  | TObj0 inner => Ok inner
  | TV (Scal z) => Ok (tnum z)
  | TV (Vec n v) => if Nat.eqb n 0 then Err IndexError else Ok (tnum (v O))
  | TV (Mat r c Mx) => if Nat.eqb (r * c) 0 then Err IndexError else Ok (tnum (Mx O O))
  | TBools l => match l with [] => Err IndexError | b :: _ => Ok (tbool b) end
  | _ => Err OtherError
  end.

(* l[k] for an integer k, negative k counting from the end *)
Definition py_index {A} (l : list A) (k : Z) : result A :=
  let n := Z.of_nat (List.length l) in
  let k' := if k <? 0 then k + n else k in
  if (k' <? 0) || (n <=? k') then Err IndexError
  else match nth_error l (Z.to_nat k') with Some x => Ok x | None => Err IndexError end.

Fixpoint str_chars (s : string) : list ascii :=
  match s with EmptyString => [] | String c r => c :: str_chars r end.

Fixpoint dict_get {A} (kv : list (string * A)) (k : string) : option A :=
  match kv with
  | [] => None
  | (k', v) :: r => if String.eqb k k' then Some v else dict_get r k
  end.
(* d[k] = v : replaces the value of an existing key in place, else appends (insertion order) *)
Fixpoint dict_set {A} (kv : list (string * A)) (k : string) (v : A) : list (string * A) :=
  match kv with
  | [] => [(k, v)]
  | (k', v') :: r => if String.eqb k k' then (k, v) :: r else (k', v') :: dict_set r k v
  end.

(* x[k] *)
Definition t_subscript (a k : tv) : result tv :=
  match a, k with
  | TList l, TInt i | TTuple l, TInt i => py_index l i
  | TStr s, TInt i => rmap (fun c => TStr (String c "")) (py_index (str_chars s) i)
  | TDict kv, TStr key => match dict_get kv key with Some v => Ok v | None => Err KeyError end
  | _, _ => Err OtherError
  end.
(* x[k] = v on a dict *)
Definition t_setitem (a k v : tv) : result tv :=
  match a, k with
  | TDict kv, TStr key => Ok (TDict (dict_set kv key v))
  | _, _ => Err OtherError
  end.

(* ---------- strings and paths ---------- *)
Definition NL : string := String "010"%char EmptyString.

(* s.split(sep) for a one-character separator *)
Definition t_split (s sep : tv) : result tv :=
  match s, sep with
  | TStr s', TStr (String c "") => Ok (TList (map TStr (split_on c s')))
  | TStr _, TStr "" => Err ValueError
  | _, _ => Err OtherError
  end.

Fixpoint strs_of (l : list tv) : result (list string) :=
  match l with
  | [] => Ok []
  | TStr s :: r => rmap (cons s) (strs_of r)
  | _ :: _ => Err TypeError
  end.
(* sep.join(list of strings) *)
Definition t_join (sep l : tv) : result tv :=
  match sep, l with
  | TStr sp, TList xs | TStr sp, TTuple xs => rmap (fun ss => TStr (String.concat sp ss)) (strs_of xs)
  | _, _ => Err OtherError
  end.

Definition ends_with_slash (s : string) : bool :=
  match rev (str_chars s) with c :: _ => Ascii.eqb c "/" | [] => false end.
Definition starts_with_slash (s : string) : bool :=
  match s with String c _ => Ascii.eqb c "/" | _ => false end.
(* os.path.join(a, b) (posix) *)
Definition path_join (a b : string) : string :=
  if starts_with_slash b then b
  else if String.eqb a "" || ends_with_slash a then a ++ b
  else a ++ "/" ++ b.
(* os.path.splitext(f) for a file name without directory part that does not start with '.':
   (text before the last '.', the last '.' and what follows) -- TestFeas.splitext_root *)
Definition path_splitext (f : string) : string * string :=
  match split_on "." f with
  | [] | [_] => (f, "")
  | l => (splitext_root f, "." ++ last l "")
  end.

(* ---------- iteration ---------- *)
(* iter(x): the elements in iteration order *)
Definition t_iter (a : tv) : result (list tv) :=
  match a with
  | TList l | TTuple l => Ok l
  | TV (Vec n v) => Ok (map (fun i => tnum (v i)) (seq O n))
  | TBools l => Ok (map tbool l)
  | TDict kv => Ok (map (fun p => TStr (fst p)) kv)
  | TStr s => Ok (map (fun c => TStr (String c "")) (str_chars s))
  | TV (Scal _) | TV VNone | TV (VBool _) | TInt _ => Err TypeError
  | _ => Err OtherError
  end.
(* zip(a, b): stops at the shorter one *)
Definition t_zip (a b : tv) : result tv :=
  match t_iter a, t_iter b with
  | Ok la, Ok lb => Ok (TList (map (fun p => TTuple [fst p; snd p]) (combine la lb)))
  | Err e, _ => Err e
  | _, Err e => Err e
  end.
(* a, b = x  /  a, b, c, d = x *)
Definition t_unpack (n : nat) (a : tv) : result (list tv) :=
  match t_iter a with
  | Ok l => if Nat.eqb (List.length l) n then Ok l else Err ValueError
  | Err e => Err e
  end.
(* x in container, for strings in a list / tuple of strings *)
Fixpoint str_mem (s : string) (l : list string) : bool :=
  match l with [] => false | t :: r => String.eqb s t || str_mem s r end.

(* scipy.sparse.issparse(x) *)
Definition t_issparse (a : tv) : result tv :=
  match a with
  | TSparse _ _ _ => Ok (tbool true)
  | TV _ | TInt _ | TStr _ | TBools _ | TObj0 _ | TObjs _ | TTuple _ | TList _ | TDict _ => Ok (tbool false)
  | _ => Err OtherError
  end.

(* ====================================================================================== *)
(* calls                                                                                   *)
(* ====================================================================================== *)
Definition pyfun := list tv -> list (string * tv) -> result tv.
Definition fun1 (f : tv -> result tv) : pyfun :=
  fun args kw => match args, kw with [a], [] => f a | _, _ => Err OtherError end.
Definition fun2 (f : tv -> tv -> result tv) : pyfun :=
  fun args kw => match args, kw with [a; b], [] => f a b | _, _ => Err OtherError end.

(* the module-level callables that are interpreted, by canonical dotted name (the translator
   resolves import aliases; `builtins.` marks a Python builtin) *)
Definition global_table : list (string * pyfun) :=
  [("numpy.dot", fun2 np_dot);
   ("builtins.len", fun1 t_len);
   ("builtins.sum", fun1 t_sum);
   ("builtins.int", fun1 t_int);
   ("builtins.dict", fun args kw => match args, kw with [], [] => Ok (TDict []) | _, _ => Err OtherError end);
   ("builtins.zip", fun2 t_zip);
   ("os.path.join", fun2 (fun a b => match a, b with
                                     | TStr x, TStr y => Ok (TStr (path_join x y))
                                     | _, _ => Err OtherError end));
   ("os.path.splitext", fun1 (fun a => match a with
                                       | TStr f => Ok (TTuple [TStr (fst (path_splitext f)); TStr (snd (path_splitext f))])
                                       | _ => Err OtherError end));
   ("scipy.sparse.issparse", fun1 t_issparse);
   ("functools.partial", fun args kw => match args with [f] => Ok (TPartial f kw) | _ => Err OtherError end)].

(* the methods that are interpreted, by name; the receiver is the first argument *)
Definition method_table : list (string * (tv -> pyfun)) :=
  [("dot", fun recv => fun1 (t_dot recv));
   ("item", fun recv => fun1 (fun k => match k with TInt 0 => t_item0 recv | _ => Err OtherError end));
   ("split", fun recv => fun1 (t_split recv));
   ("join", fun recv => fun1 (t_join recv))].

Definition call_global (o : oracle) (name : string) (args : list tv) (kw : list (string * tv)) : M tv :=
  match dict_get global_table name with
  | Some f => m_lift (f args kw)
  | None => ext_call o name args kw
  end.
(* a method that is not interpreted is the external call ".<name>" with the receiver in front *)
Definition call_method (o : oracle) (recv : tv) (name : string) (args : list tv) (kw : list (string * tv)) : M tv :=
  match dict_get method_table name with
  | Some f => m_lift (f recv args kw)
  | None => ext_call o ("." ++ name) (recv :: args) kw
  end.
(* f(args, kw) for a callable VALUE *)
Fixpoint call_value (o : oracle) (f : tv) (args : list tv) (kw : list (string * tv)) : M tv :=
  match f with
  | TGlobal name => call_global o name args kw
  | TAttr recv name => call_method o recv name args kw
  | TPartial g kw0 => call_value o g args (kw0 ++ kw)%list
  | TV _ | TInt _ | TStr _ | TBools _ | TTuple _ | TList _ | TDict _ => m_raise TypeError
  | _ => m_raise OtherError
  end.

(* ====================================================================================== *)
(* primitives printed by the translator.  The generated code is in A-normal form: every        *)
(* sub-expression is bound to a name in evaluation order, the primitives take VALUES.          *)
(* ====================================================================================== *)
(* pure operators *)
Definition p_add (a b : tv) : M tv := m_lift (t_add a b).
Definition p_sub (a b : tv) : M tv := m_lift (t_sub a b).
Definition p_mul (a b : tv) : M tv := m_lift (t_mul a b).
Definition p_neg (a : tv) : M tv := m_lift (t_neg a).
Definition p_eq (a b : tv) : M tv := m_lift (t_eq a b).
Definition p_ne (a b : tv) : M tv := m_lift (t_ne a b).
Definition p_lt (a b : tv) : M tv := m_lift (t_lt a b).
Definition p_le (a b : tv) : M tv := m_lift (t_le a b).
Definition p_gt (a b : tv) : M tv := m_lift (t_gt a b).
Definition p_ge (a b : tv) : M tv := m_lift (t_ge a b).
Definition p_subscript (a k : tv) : M tv := m_lift (t_subscript a k).
Definition p_attr (a : tv) (name : string) : M tv := m_lift (t_getattr a name).
Definition p_not (a : tv) : M tv := m_bind (m_lift (t_truth a)) (fun b => m_ret (tbool (negb b))).
(* f(args, kw) *)
Definition c_call (o : oracle) (f : tv) (args : list tv) (kw : list (string * tv)) : M tv := call_value o f args kw.

(* str(x) / {x} in an f-string: str() of a value that is not modelled is asked from the world *)
Definition m_str (o : oracle) (a : tv) : M string :=
  match t_str a with
  | Ok s => m_ret s
  | Err _ => m_bind (ext_call o "builtins.str" [a] [])
                    (fun r => match r with TStr s => m_ret s | _ => m_raise OtherError end)
  end.
(* f"...{x}..." : the pieces (literal text, and m_str of the formatted values) concatenated *)
Definition p_fstr (ss : list string) : M tv := m_ret (TStr (String.concat "" ss)).

(* x in c: interpreted for a string in a list / tuple of strings, else asked from the world *)
Definition c_in (o : oracle) (a cv : tv) : M tv :=
  match a, cv with
  | TStr s, TList l | TStr s, TTuple l =>
      match strs_of l with
      | Ok ss => m_ret (tbool (str_mem s ss))
      | Err _ => m_raise OtherError
      end
  | _, _ => ext_call o "operator.contains" [cv; a] []
  end.
Definition c_notin (o : oracle) (a cv : tv) : M tv := m_bind (c_in o a cv) p_not.

(* a and E / a or E: the right operand is a computation (evaluated only when it decides) *)
Definition m_and (a : tv) (y : M tv) : M tv := m_bind (m_lift (t_truth a)) (fun t => if t then y else m_ret a).
Definition m_or (a : tv) (y : M tv) : M tv := m_bind (m_lift (t_truth a)) (fun t => if t then m_ret a else y).

(* [elt for x in it] *)
Definition m_listcomp (it : tv) (elt : tv -> M tv) : M tv :=
  m_bind (m_lift (t_iter it)) (fun l => m_bind (m_list (map elt l)) (fun vs => m_ret (TList vs))).

(* ====================================================================================== *)
(* statement combinators                                                                   *)
(* ====================================================================================== *)
(* if test: A else: B *)
Definition m_if {A} (test : tv) (a b : M A) : M A := m_bind (m_lift (t_truth test)) (fun t => if t then a else b).

(* d[k] = v on an (unaliased) dict: the dict is rebound *)
Definition m_setitem (d k v : tv) : M tv := m_lift (t_setitem d k v).

(* a, b = x ... *)
Definition m_unpack2 {A} (v : tv) (k : tv -> tv -> M A) : M A :=
  m_bind (m_lift (t_unpack 2 v)) (fun l => match l with [a; b] => k a b | _ => m_raise OtherError end).
Definition m_unpack3 {A} (v : tv) (k : tv -> tv -> tv -> M A) : M A :=
  m_bind (m_lift (t_unpack 3 v)) (fun l => match l with [a; b; c] => k a b c | _ => m_raise OtherError end).
Definition m_unpack4 {A} (v : tv) (k : tv -> tv -> tv -> tv -> M A) : M A :=
  m_bind (m_lift (t_unpack 4 v)) (fun l => match l with [a; b; c; d] => k a b c d | _ => m_raise OtherError end).

(* for x in it: body   with the loop-carried variables S; `continue` = end of the body with CNext *)
Inductive ctl := CNext | CBreak.
Fixpoint m_for_list {S} (l : list tv) (body : S -> tv -> M (ctl * S)) (s : S) : M S :=
  match l with
  | [] => m_ret s
  | x :: r => m_bind (body s x) (fun cs =>
               match fst cs with CNext => m_for_list r body (snd cs) | CBreak => m_ret (snd cs) end)
  end.
Definition m_for {S} (it : tv) (body : S -> tv -> M (ctl * S)) (s : S) : M S :=
  m_bind (m_lift (t_iter it)) (fun l => m_for_list l body s).

(* with ctx as h: body -- __enter__ gives h, __exit__ is called however the body ends; an exception
   of the body propagates (a suppressing __exit__ is not modelled) *)
Definition m_with {A} (o : oracle) (c : tv) (body : tv -> M A) : M A :=
  m_bind (ext_call o ".__enter__" [c] []) (fun h => fun tr =>
    match body h tr with
    | (tr1, r) =>
        match ext_call o ".__exit__" [c] [] tr1 with
        | (tr2, Ok _) => (tr2, r)
        | (tr2, Err e) => (tr2, match r with Ok _ => Err e | Err e0 => Err e0 end)
        end
    end).

(* except C: does exception class e match the class value C?  Base distinguishes six builtin
   classes; OtherError stands for "the class that is not one of them", so against a class of another
   module only OtherError matches. *)
Definition exc_names : list (string * errcls) :=
  [("builtins.ValueError", ValueError); ("builtins.IndexError", IndexError); ("builtins.KeyError", KeyError);
   ("builtins.AssertionError", AssertionError); ("builtins.AttributeError", AttributeError);
   ("builtins.TypeError", TypeError)].
Definition exc_matches (e : errcls) (c : tv) : result bool :=
  match c with
  | TGlobal name =>
      if String.eqb name "builtins.Exception" then Ok true
      else match dict_get exc_names name with
           | Some e' => Ok (errcls_eqb e e')
           | None => Ok (errcls_eqb e OtherError)
           end
  | _ => Err TypeError
  end.
(* the caught exception object bound by `as err` *)
Definition exc_value (e : errcls) : tv := TGlobal "<caught exception>".

(* try: body  except C as err: handler *)
Definition m_try {A} (body : M A) (cls : tv) (handler : tv -> M A) : M A := fun tr =>
  match body tr with
  | (tr1, Ok a) => (tr1, Ok a)
  | (tr1, Err e) =>
      m_bind (m_lift (exc_matches e cls)) (fun hit => if hit then handler (exc_value e) else m_raise e) tr1
  end.
