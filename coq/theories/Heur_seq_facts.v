(* Heur_seq_facts.v -- the sequence-based feasibility heuristic (Heur.mf_seq): whenever it returns
   normally, the used tuples are those of a walk assignment of the new instance and the stored vector is
   its indicator; hence (C07_iff, <-) the reported constraints hold.  [C09] *)
From Coq Require Import ZArith List Bool Lia ZifyBool Permutation.
From VQ Require Import Base LinAlg Vrptw Vrptw_facts Path Path_facts Penalty Penalty_facts Seq Seq_facts Heur Heur_facts.
Import ListNotations.
Open Scope Z_scope.

(* ================= arcs of a graph, monotone extension ================= *)
Definition garc (g : graph) (i j : nat) : Prop := In (i, j) (map fst (arcs g)).

Record gext (g g' : graph) : Prop := {
  ge_names : names g' = names g;
  ge_nodes : nodes g' = nodes g;
  ge_arcs : forall i j, garc g i j -> garc g' i j
}.

Lemma gext_refl g : gext g g.
Proof. constructor; auto. Qed.

Lemma gext_trans g1 g2 g3 : gext g1 g2 -> gext g2 g3 -> gext g1 g3.
Proof. intros [A B C] [A' B' C']. constructor; try congruence. auto. Qed.

Fixpoint gchain (g : graph) (l : list nat) : Prop :=
  match l with
  | a :: ((b :: _) as tl) => garc g a b /\ gchain g tl
  | _ => True
  end.

Lemma chain_gchain I l : chain I l <-> gchain (ig I) l.
Proof.
  induction l as [|a l IH]; [simpl; tauto|]. destruct l as [|b l]; [simpl; tauto|].
  change (chain I (a :: b :: l)) with (is_arc I a b /\ chain I (b :: l)).
  change (gchain (ig I) (a :: b :: l)) with (garc (ig I) a b /\ gchain (ig I) (b :: l)).
  unfold is_arc, garc. tauto.
Qed.

Lemma gchain_ext g g' l : gext g g' -> gchain g l -> gchain g' l.
Proof.
  intros HE. induction l as [|a l IH]; [simpl; auto|]. destruct l as [|b l]; [simpl; auto|].
  change (gchain g (a :: b :: l)) with (garc g a b /\ gchain g (b :: l)).
  change (gchain g' (a :: b :: l)) with (garc g' a b /\ gchain g' (b :: l)).
  intros [H1 H2]. split; [apply (ge_arcs _ _ HE); auto|]. apply IH. exact H2.
Qed.

Lemma gchain_snoc g l b : l <> [] -> gchain g l -> garc g (last l O) b -> gchain g (l ++ [b]).
Proof.
  induction l as [|a l IH]; intros Hne Hc Ha; [congruence|]. destruct l as [|c l].
  - simpl in *. auto.
  - destruct Hc as [H1 H2]. change ((a :: c :: l) ++ [b]) with (a :: ((c :: l) ++ [b])).
    change (gchain g (a :: ((c :: l) ++ [b]))) with (garc g a c /\ gchain g ((c :: l) ++ [b])).
    split; [exact H1|]. apply IH; [discriminate|exact H2|exact Ha].
Qed.

(* whether some tuple of a list has variable index k is decidable *)
Lemma classic_in I (l : list tuple) k :
  (exists t, In t l /\ var_index I t = Some k) \/ ~ (exists t, In t l /\ var_index I t = Some k).
Proof.
  induction l as [|t l IH]; [right; intros (t & [] & _)|].
  destruct (var_index I t) as [k'|] eqn:E.
  - destruct (Nat.eq_dec k' k) as [->|Hne]; [left; exists t; simpl; auto|].
    destruct IH as [(t' & Ht' & Hv)|Hn]; [left; exists t'; simpl; auto|].
    right. intros (t' & [<-|Ht'] & Hv); [congruence|]. apply Hn. eauto.
  - destruct IH as [(t' & Ht' & Hv)|Hn]; [left; exists t'; simpl; auto|].
    right. intros (t' & [<-|Ht'] & Hv); [congruence|]. apply Hn. eauto.
Qed.

Section SeqFacts.
  Variable strict : bool.

  Lemma ensure_arc_spec g i j c g' :
    ensure_arc strict g i j c = Ok g' -> Inv g -> gext g g' /\ Inv g' /\ garc g' i j.
  Proof.
    unfold ensure_arc. intros H HI.
    destruct (dict_mem (i, j) (arcs g)) eqn:Em.
    - inversion H; subst. split; [apply gext_refl|]. split; [exact HI|]. apply dict_mem_In. exact Em.
    - destruct (nth_error (names g) i) as [ni|] eqn:Ei; [|discriminate].
      destruct (nth_error (names g) j) as [nj|] eqn:Ej; [|discriminate].
      destruct (add_arc_gen strict g ni nj 0 c) as [[g1 [|]]|e] eqn:Ea; try discriminate.
      inversion H; subst g1.
      pose proof (add_arc_gen_inv _ _ _ _ _ _ _ _ HI Ea) as HI'.
      pose proof (index_of_nth_error_NoDup _ (inv_nodup _ HI) _ _ Ei) as Xi.
      pose proof (index_of_nth_error_NoDup _ (inv_nodup _ HI) _ _ Ej) as Xj.
      unfold add_arc_gen in Ea. rewrite Xi, Xj in Ea.
      match type of Ea with (if ?c then _ else _) = _ => destruct c end; inversion Ea; subst g'.
      split; [|split; [exact HI'|]].
      + constructor; cbn [names nodes arcs]; auto. intros a b Hab. unfold garc in *. cbn [arcs].
        apply dict_set_key_keep. exact Hab.
      + unfold garc. cbn [arcs]. apply dict_set_key_in.
  Qed.

  (* ---------- one vehicle ---------- *)
  Lemma veh_loop_spec k : forall g v r cur unv used g' cur' unv' used',
    veh_loop strict g v (seq (S (length r)) k) cur unv used = Ok (g', cur', unv', used') ->
    Inv g -> cur = last r O -> gchain g (O :: r) ->
    exists ext,
      (length ext <= k)%nat /\ Permutation unv (ext ++ unv') /\ cur' = last (r ++ ext) O /\
      gext g g' /\ Inv g' /\ gchain g' (O :: r ++ ext) /\
      used' = used ++ map (fun s => (v, s, nth s (O :: r ++ ext) O)) (seq (S (length r)) k).
  Proof.
    induction k as [|k IH]; intros g v r cur unv used g' cur' unv' used' H HI Hcur Hch.
    - simpl in H. inversion H; subst. exists []. rewrite !app_nil_r. simpl.
      split; [lia|]. split; [reflexivity|]. split; [reflexivity|]. split; [apply gext_refl|]. auto.
    - cbn [seq veh_loop] in H.
      destruct (find (fun ni => dict_mem (cur, ni) (arcs g)) unv) as [ni|] eqn:Ef.
      + destruct (find_some _ _ Ef) as [Hin Hm].
        destruct (remove_first ni unv) as [unv1|] eqn:Er; [|discriminate].
        assert (Hlen : length (r ++ [ni]) = S (length r)) by (rewrite app_length; simpl; lia).
        rewrite <- Hlen in H.
        destruct (IH g v (r ++ [ni]) ni unv1 _ g' cur' unv' used' H HI) as (ext & L1 & P1 & C1 & E1 & I1 & G1 & U1).
        { rewrite last_last. reflexivity. }
        { change (O :: r ++ [ni]) with ((O :: r) ++ [ni]). apply gchain_snoc; [discriminate|exact Hch|].
          replace (last (O :: r) O) with cur.
          - apply dict_mem_In. exact Hm.
          - rewrite Hcur. destruct r; [reflexivity|]. reflexivity. }
        exists (ni :: ext). rewrite <- app_assoc in C1, G1, U1. simpl in C1, G1, U1.
        split; [simpl; lia|]. split.
        { assert (P0 : Permutation unv (ni :: unv1)).
          { clear - Er. revert unv1 Er. induction unv as [|y l IHl]; simpl; intros u1 E; [discriminate|].
            destruct (Nat.eqb_spec ni y) as [->|Hne].
            - inversion E; subst. reflexivity.
            - destruct (remove_first ni l) as [l1|]; simpl in E; [|discriminate]. inversion E; subst.
              rewrite (IHl l1 eq_refl). apply perm_swap. }
          rewrite P0. simpl. constructor. exact P1. }
        split; [exact C1|]. split; [exact E1|]. split; [exact I1|]. split; [exact G1|].
        rewrite U1, <- app_assoc. f_equal. rewrite Hlen. cbn [seq map app]. f_equal.
        f_equal. cbn [nth]. rewrite app_nth2 by lia. rewrite Nat.sub_diag. reflexivity.
      + destruct (ensure_arc strict g cur O 0) as [g1|e] eqn:Ee; [|discriminate].
        inversion H; subst g1 cur' unv' used'; clear H.
        destruct (ensure_arc_spec _ _ _ _ _ Ee HI) as (E1 & I1 & _).
        exists []. rewrite !app_nil_r. split; [simpl; lia|]. split; [reflexivity|]. split; [exact Hcur|].
        split; [exact E1|]. split; [exact I1|]. split; [eapply gchain_ext; eauto|].
        f_equal.
        change (map (fun sii : nat => (v, sii, O)) (seq (S (length r)) (S k)) =
                map (fun s : nat => (v, s, nth s (O :: r) O)) (seq (S (length r)) (S k))).
        apply map_ext_in. intros s Hs. apply in_seq in Hs.
        f_equal. rewrite nth_overflow; [reflexivity|]. simpl. lia.
  Qed.

  (* ---------- the tuples of a list of routes (one route per vehicle, padded with depot stays) ---------- *)
  Definition route_tuples (L v : nat) (r : list nat) : list tuple :=
    map (fun s => (v, s, nth s (O :: r) O)) (seq 1 (L - 2)).

  Fixpoint all_tuples_from (L v : nat) (routes : list (list nat)) : list tuple :=
    match routes with
    | [] => []
    | r :: rs => route_tuples L v r ++ all_tuples_from L (S v) rs
    end.

  Lemma all_tuples_snoc L routes : forall v r,
    all_tuples_from L v (routes ++ [r]) = all_tuples_from L v routes ++ route_tuples L (v + length routes) r.
  Proof.
    induction routes as [|r0 rs IH]; intros v r; simpl.
    - rewrite app_nil_r, Nat.add_0_r. reflexivity.
    - rewrite IH, <- app_assoc. do 3 f_equal. lia.
  Qed.

  Lemma in_all_tuples L routes : forall v0 v s n,
    In (v, s, n) (all_tuples_from L v0 routes) <->
    (v0 <= v < v0 + length routes)%nat /\ (1 <= s <= L - 2)%nat /\ n = nth s (O :: nth (v - v0) routes []) O.
  Proof.
    induction routes as [|r rs IH]; intros v0 v s n; simpl.
    - split; [tauto|]. intros [H _]. lia.
    - rewrite in_app_iff, IH. unfold route_tuples. rewrite in_map_iff. split.
      + intros [(s' & E & Hs)|(H1 & H2 & H3)].
        * inversion E; subst. apply in_seq in Hs. rewrite Nat.sub_diag. split; [lia|]. split; [lia|reflexivity].
        * split; [lia|]. split; [exact H2|]. destruct (v - v0)%nat as [|q] eqn:Eq; [lia|].
          replace (v - S v0)%nat with q in H3 by lia. exact H3.
      + intros (H1 & H2 & H3). destruct (Nat.eq_dec v v0) as [->|Hne].
        * left. exists s. rewrite Nat.sub_diag in H3. split; [rewrite H3; reflexivity|]. apply in_seq. lia.
        * right. split; [lia|]. split; [exact H2|]. destruct (v - v0)%nat as [|q] eqn:Eq; [lia|].
          replace (v - S v0)%nat with q by lia. exact H3.
  Qed.

  (* a finished route: customers inside the node range, depot -> ... -> depot along arcs, fits into L *)
  Definition groute (N L : nat) (g : graph) (r : list nat) : Prop :=
    (forall c, In c r -> (1 <= c < N)%nat) /\ gchain g (O :: r ++ [O]) /\ (length r + 2 <= L)%nat.

  Lemma groute_ext N L g g' r : gext g g' -> groute N L g r -> groute N L g' r.
  Proof. intros HE (A & B & C). split; [exact A|]. split; [eapply gchain_ext; eauto|exact C]. Qed.

  Lemma last_cons0 (l : list nat) : last (O :: l) O = last l O.
  Proof. destruct l; reflexivity. Qed.

  Lemma veh_step_spec N L g v unv used g2 unv1 used1 :
    veh_step strict L g v unv used = Ok (g2, unv1, used1) ->
    Inv g -> garc g O O -> (2 <= L)%nat -> (forall c, In c unv -> (1 <= c < N)%nat) ->
    exists r, groute N L g2 r /\ Permutation unv (r ++ unv1) /\ gext g g2 /\ Inv g2 /\
              used1 = used ++ route_tuples L v r.
  Proof.
    unfold veh_step. intros H HI H00 HL Hunv.
    destruct (veh_loop strict g v (seq 1 (L - 2)) O unv used) as [[[[g1 cur] u1] us1]|e] eqn:El; [|discriminate].
    destruct (veh_loop_spec (L - 2) g v [] O unv used g1 cur u1 us1 El HI eq_refl I)
      as (ext & L1 & P1 & C1 & E1 & I1 & G1 & U1).
    simpl in C1, G1, U1.
    assert (Hg2 : gext g1 g2 /\ Inv g2 /\ garc g2 (last (O :: ext) O) O /\ unv1 = u1 /\ used1 = us1).
    { rewrite last_cons0, <- C1. destruct (Nat.eqb_spec cur 0) as [->|Hne].
      - inversion H; subst. split; [apply gext_refl|]. split; [exact I1|]. split; [|auto].
        apply (ge_arcs _ _ E1). exact H00.
      - destruct (ensure_arc strict g1 cur O 0) as [g2'|e] eqn:Ee; [|discriminate]. inversion H; subst.
        destruct (ensure_arc_spec _ _ _ _ _ Ee I1) as (A & B & C). auto. }
    destruct Hg2 as (E2 & I2 & A2 & -> & ->).
    exists ext. split; [|split; [exact P1|split; [eapply gext_trans; eauto|split; [exact I2|exact U1]]]].
    split; [|split].
    - intros c Hc. apply Hunv. apply (Permutation_in c (Permutation_sym P1)). apply in_app_iff. auto.
    - change (O :: ext ++ [O]) with ((O :: ext) ++ [O]). apply gchain_snoc; [discriminate| |exact A2].
      eapply gchain_ext; eauto.
    - lia.
  Qed.

  Record SInv (N L : nat) (g : graph) (routes : list (list nat)) (unv : list nat) (used : list tuple) : Prop := {
    si_used : used = all_tuples_from L 0 routes;
    si_routes : Forall (groute N L g) routes;
    si_perm : Permutation (concat routes ++ unv) (seq 1 (N - 1))
  }.

  Lemma SInv_unv N L g routes unv used c : SInv N L g routes unv used -> In c unv -> (1 <= c < N)%nat.
  Proof.
    intros [_ _ P] Hc. assert (Hin : In c (seq 1 (N - 1))).
    { apply (Permutation_in c P). apply in_app_iff. auto. }
    apply in_seq in Hin. lia.
  Qed.

  Lemma veh_all_spec N L k : forall g v0 unv used routes g' unv' used',
    veh_all strict L g (seq v0 k) unv used = Ok (g', unv', used') ->
    SInv N L g routes unv used -> length routes = v0 -> Inv g -> garc g O O -> (2 <= L)%nat ->
    exists routes', SInv N L g' routes' unv' used' /\ length routes' = (v0 + k)%nat /\ gext g g' /\ Inv g'.
  Proof.
    induction k as [|k IH]; intros g v0 unv used routes g' unv' used' H HS Hlen HI H00 HL.
    - simpl in H. inversion H; subst. exists routes. split; [exact HS|]. split; [lia|]. split; [apply gext_refl|exact HI].
    - cbn [seq veh_all] in H.
      destruct (veh_step strict L g v0 unv used) as [[[g1 u1] us1]|e] eqn:Es; [|discriminate].
      destruct (veh_step_spec N L _ _ _ _ _ _ _ Es HI H00 HL (fun c => SInv_unv _ _ _ _ _ _ c HS))
        as (r & Gr & P1 & E1 & I1 & U1).
      destruct HS as [S1 S2 S3].
      destruct (IH g1 (S v0) u1 us1 (routes ++ [r]) g' unv' used' H) as (routes' & HS' & Hl' & E' & I').
      + constructor.
        * rewrite U1, S1, all_tuples_snoc, Hlen. reflexivity.
        * apply Forall_app. split; [|constructor; [exact Gr|constructor]].
          eapply Forall_impl; [|exact S2]. intros a Ha. eapply groute_ext; eauto.
        * rewrite concat_app. simpl. rewrite app_nil_r, <- app_assoc. rewrite <- S3.
          apply Permutation_app_head. symmetry. exact P1.
      + rewrite app_length. simpl. lia.
      + exact I1.
      + apply (ge_arcs _ _ E1). exact H00.
      + exact HL.
      + exists routes'. split; [exact HS'|]. split; [lia|]. split; [eapply gext_trans; eauto|exact I'].
  Qed.

  Lemma dummy_vehicles_spec N L high us : forall g V vc used routes g' V' vc' used',
    dummy_vehicles strict L high g V vc us used = Ok (g', V', vc', used') ->
    SInv N L g routes us used -> length routes = V -> Inv g -> (3 <= L)%nat ->
    exists routes', SInv N L g' routes' [] used' /\ length routes' = V' /\ gext g g' /\ Inv g' /\
                    (V <= V')%nat /\ (length vc' + V = length vc + V')%nat.
  Proof.
    induction us as [|ni us IH]; intros g V vc used routes g' V' vc' used' H HS Hlen HI HL.
    - simpl in H. inversion H; subst. exists routes. split; [exact HS|]. split; [reflexivity|].
      split; [apply gext_refl|]. split; [exact HI|lia].
    - cbn [dummy_vehicles] in H.
      destruct (ensure_arc strict g O ni high) as [g1|e] eqn:E1; [|discriminate].
      destruct (ensure_arc strict g1 ni O high) as [g2|e] eqn:E2; [|discriminate].
      destruct (ensure_arc_spec _ _ _ _ _ E1 HI) as (X1 & I1 & A1).
      destruct (ensure_arc_spec _ _ _ _ _ E2 I1) as (X2 & I2 & A2).
      pose proof (SInv_unv _ _ _ _ _ _ ni HS (or_introl eq_refl)) as Hni.
      destruct HS as [S1 S2 S3].
      destruct (IH g2 (S V) (vc ++ [high]) _ (routes ++ [[ni]]) g' V' vc' used' H) as (routes' & HS' & Hl' & E' & I' & HVV & Hvc).
      + constructor.
        * rewrite S1, all_tuples_snoc, Hlen. f_equal. unfold route_tuples. simpl.
          replace (L - 2)%nat with (S (L - 3)) by lia. cbn [seq map nth]. f_equal.
          apply map_ext_in. intros s Hs. apply in_seq in Hs. f_equal.
          destruct s as [|[|s]]; try lia. destruct s; reflexivity.
        * apply Forall_app. split.
          -- eapply Forall_impl; [|exact S2]. intros a Ha. eapply groute_ext; [|exact Ha]. eapply gext_trans; eauto.
          -- constructor; [|constructor]. split; [|split].
             ++ intros c [<-|[]]. exact Hni.
             ++ simpl. split; [apply (ge_arcs _ _ X2); exact A1|]. split; [exact A2|exact I].
             ++ simpl. lia.
        * rewrite concat_app. simpl. rewrite <- app_assoc. simpl. exact S3.
      + rewrite app_length. simpl. lia.
      + exact I2.
      + exact HL.
      + exists routes'. split; [exact HS'|]. split; [exact Hl'|].
        split; [eapply gext_trans; [|exact E']; eapply gext_trans; eauto|]. split; [exact I'|].
        rewrite app_length in Hvc. simpl in Hvc. lia.
  Qed.

  (* ---------- the solution vector ---------- *)
  Lemma mark_tuples_spec I used : forall x0 x,
    mark_tuples I used x0 = Ok x ->
    length x = length x0 /\
    (forall t, In t used -> exists k, var_index I t = Some k) /\
    (forall k, (k < length x0)%nat -> (exists t, In t used /\ var_index I t = Some k) -> nth k x 0 = 1) /\
    (forall k, ~ (exists t, In t used /\ var_index I t = Some k) -> nth k x 0 = nth k x0 0).
  Proof.
    induction used as [|[[v s] n] rest IH]; intros x0 x H.
    - simpl in H. inversion H; subst. split; [reflexivity|]. split; [intros t []|].
      split; [intros k _ (t & [] & _)|reflexivity].
    - cbn [mark_tuples] in H.
      destruct (negb ((v <? iV I)%nat && (s <? iL I)%nat && (n <? iN I)%nat)); [discriminate|].
      destruct (var_index I (v, s, n)) as [k0|] eqn:Ek; [|discriminate].
      destruct (IH _ _ H) as (A & B & C & D). rewrite set_nth_length in A, C.
      split; [exact A|]. split; [|split].
      + intros t [<-|Ht]; eauto.
      + intros k Hk (t & [<-|Ht] & Hv).
        * assert (k0 = k) by congruence. subst k0.
          destruct (classic_in I rest k) as [Hex|Hnex]; [apply C; auto|].
          rewrite (D k Hnex). apply nth_set_nth_same. exact Hk.
        * apply C; eauto.
      + intros k Hn. rewrite D by (intros (t & Ht & Hv); apply Hn; exists t; simpl; auto).
        apply nth_set_nth_other. intros ->. apply Hn. exists (v, s, n). simpl. auto.
  Qed.
End SeqFacts.

(* ================= the postcondition ================= *)
Lemma sort_by_end_perm g l : Permutation (sort_by_end g l) l.
Proof.
  unfold sort_by_end.
  assert (Hins : forall x acc, Permutation (insert_by g x acc) (x :: acc)).
  { intros x acc. induction acc as [|y acc IH]; simpl; [reflexivity|].
    destruct (ext_ltb (nhi (gnode g x)) (nhi (gnode g y))); [reflexivity|].
    rewrite IH. apply perm_swap. }
  assert (G : forall l acc, Permutation (fold_left (fun acc x => insert_by g x acc) l acc) (l ++ acc)).
  { clear l. induction l as [|x l IH]; intros acc; simpl; [reflexivity|].
    rewrite IH, Hins. symmetry. apply Permutation_middle. }
  rewrite G, app_nil_r. reflexivity.
Qed.

Lemma count_occ_seq1 n N : (1 <= n < N)%nat -> count_occ Nat.eq_dec (seq 1 (N - 1)) n = 1%nat.
Proof. intros H. apply NoDup_count_occ'; [apply seq_NoDup|]. apply in_seq. lia. Qed.

Section SeqPost.
  Variable strict : bool.

  (* the two construction phases: the used tuples are those of routes that form a walk assignment *)
  Lemma phases_spec I high g1 unv1 used1 g2 V2 vc2 used2 N' :
    iN I = S N' ->
    veh_all strict (iL I) (ig I) (seq 0 (iV I)) (sort_by_end (ig I) (seq 1 N')) [] = Ok (g1, unv1, used1) ->
    dummy_vehicles strict (iL I) high g1 (iV I) (ivc I) unv1 used1 = Ok (g2, V2, vc2, used2) ->
    Inv (ig I) -> seq_ok I -> (3 <= iL I)%nat ->
    let I2 := mkInst g2 V2 (iL I) vc2 in
    exists routes,
      used2 = all_tuples_from (iL I) 0 routes /\
      length routes = V2 /\ Forall (valid_route I2) routes /\
      (forall n, (1 <= n)%nat -> (n < iN I2)%nat -> count_occ Nat.eq_dec (concat routes) n = 1%nat) /\
      walk_assignment I2 (pad_walks routes) /\
      seq_ok I2 /\ Inv g2 /\ iN I2 = iN I /\ gext (ig I) g2 /\ (iV I <= V2)%nat /\
      (length vc2 + iV I = length (ivc I) + V2)%nat.
  Proof.
    intros EN Ev Ed HI (Hk & H00 & HN) HL I2.
    set (L := iL I) in *. set (N := S N') in *.
    assert (S0 : SInv N L (ig I) [] (sort_by_end (ig I) (seq 1 N')) []).
    { constructor; [reflexivity|constructor|]. replace (N - 1)%nat with N' by (unfold N; lia).
      cbn [concat app]. apply sort_by_end_perm. }
    destruct (veh_all_spec strict N L _ _ _ _ _ _ _ _ _ Ev S0 eq_refl HI H00 ltac:(lia))
      as (routes1 & S1 & Hl1 & E1 & I1).
    destruct (dummy_vehicles_spec strict N L high _ _ _ _ _ _ _ _ _ _ Ed S1 Hl1 I1 HL)
      as (routes & [U2 R2 P2] & Hl2 & E2 & I2' & HVV & Hvc).
    assert (E12 : gext (ig I) g2) by (eapply gext_trans; eauto).
    assert (HN2 : iN I2 = N).
    { unfold iN, I2. cbn [ig]. rewrite (ge_nodes _ _ E12). exact EN. }
    assert (Hok2 : seq_ok I2).
    { split; [apply (inv_keys _ I2')|]. split; [apply (ge_arcs _ _ E12); exact H00|]. rewrite HN2. unfold N. lia. }
    rewrite app_nil_r in P2.
    assert (Hval : Forall (valid_route I2) routes).
    { eapply Forall_impl; [|exact R2]. intros r (A & B & C). split; [|split].
      - intros c Hc. rewrite HN2. specialize (A c Hc). lia.
      - apply chain_gchain. exact B.
      - exact C. }
    assert (Hcov : forall n, (1 <= n)%nat -> (n < iN I2)%nat -> count_occ Nat.eq_dec (concat routes) n = 1%nat).
    { intros n H1 H2. rewrite HN2 in H2. rewrite (Permutation_count_occ Nat.eq_dec) in P2. rewrite P2.
      apply count_occ_seq1. lia. }
    assert (HW : walk_assignment I2 (pad_walks routes)).
    { apply pad_walks_assignment; auto; [cbn [iL I2]; lia | cbn [iV I2]; lia]. }
    exists routes. split; [exact U2|]. split; [exact Hl2|]. split; [exact Hval|]. split; [exact Hcov|].
    split; [exact HW|]. split; [exact Hok2|]. split; [exact I2'|]. split; [rewrite HN2; symmetry; exact EN|].
    split; [exact E12|]. split; lia.
  Qed.

  Theorem mf_seq_walk I high I' x :
    mf_seq strict I high = Ok (I', x) -> Inv (ig I) -> seq_ok I -> (3 <= iL I)%nat ->
    exists routes,
      length routes = iV I' /\ Forall (valid_route I') routes /\
      (forall n, (1 <= n)%nat -> (n < iN I')%nat -> count_occ Nat.eq_dec (concat routes) n = 1%nat) /\
      walk_assignment I' (pad_walks routes) /\
      length x = num_variables I' /\
      (forall k, (k < num_variables I')%nat -> nth k x 0 = indicator_free I' (pad_walks routes) k) /\
      seq_ok I' /\ Inv (ig I') /\ iL I' = iL I /\ iN I' = iN I /\ (iV I <= iV I')%nat /\
      (length (ivc I') + iV I = length (ivc I) + iV I')%nat /\ gext (ig I) (ig I').
  Proof.
    unfold mf_seq. intros H HI Hok HL.
    destruct (iN I) as [|N'] eqn:EN; [destruct Hok as (_ & _ & HN); lia|]. cbn [seq remove_first Nat.eqb] in H.
    destruct (veh_all strict (iL I) (ig I) (seq 0 (iV I)) (sort_by_end (ig I) (seq 1 N')) []) as [[[g1 unv1] used1]|e] eqn:Ev;
      [|discriminate].
    destruct (dummy_vehicles strict (iL I) high g1 (iV I) (ivc I) unv1 used1) as [[[[g2 V2] vc2] used2]|e] eqn:Ed;
      [|discriminate].
    destruct (phases_spec I high _ _ _ _ _ _ _ N' EN Ev Ed HI Hok HL)
      as (routes & U2 & Hl2 & Hval & Hcov & HW & Hok2 & I2' & HN2 & E12 & HVV & Hvc).
    set (I2 := mkInst g2 V2 (iL I) vc2) in *.
    destruct (mark_tuples I2 used2 (repeat 0 (num_variables I2))) as [x2|e] eqn:Em; [|discriminate].
    inversion H; subst I' x; clear H.
    destruct (mark_tuples_spec I2 used2 _ _ Em) as (Lx & Hvars & H1 & H0).
    rewrite repeat_length in Lx, H1.
    exists routes. split; [exact Hl2|]. split; [exact Hval|]. split; [exact Hcov|]. split; [exact HW|].
    split; [exact Lx|]. split.
    { intros k Hk2. unfold indicator_free.
      pose proof Hk2 as Hk3. rewrite <- nv_num in Hk3. unfold nv in Hk3.
      destruct (var_tuple_lt I2 k Hk3) as [[[v s] n] Ht]. rewrite Ht.
      pose proof (var_tuple_Some _ _ _ Ht) as Hvi.
      assert (Hin : In (v, s, n) (vars I2)) by (eapply nth_error_In; exact Ht).
      apply vars_exact in Hin. destruct Hin as (Hv & Hs & Hn & (Hs0 & HsL & _)).
      cbn [iV iL I2] in Hv, Hs, HsL.
      destruct (Nat.eqb_spec (pad_walks routes v s) n) as [Ep|Ep].
      - apply H1; [exact Hk2|]. exists (v, s, n). split; [|exact Hvi].
        rewrite U2. apply in_all_tuples. split; [lia|]. split; [lia|].
        rewrite Nat.sub_0_r. symmetry. exact Ep.
      - rewrite H0; [apply nth_repeat|]. intros ([[v' s'] n'] & Hin & Hvi').
        apply var_index_Some in Hvi'. rewrite Ht in Hvi'. inversion Hvi'; subst v' s' n'.
        rewrite U2 in Hin. apply in_all_tuples in Hin. destruct Hin as (_ & _ & Hn').
        rewrite Nat.sub_0_r in Hn'. apply Ep. symmetry. exact Hn'. }
    split; [exact Hok2|]. split; [exact I2'|]. split; [reflexivity|]. split; [rewrite <- EN; exact HN2|].
    cbn [iV ivc ig I2]. split; [lia|]. split; [lia|exact E12].
  Qed.

  (* the reported constraints hold for the stored vector; feasibility / optimisation QUBO values *)
  Theorem mf_seq_feasible I high I' x :
    mf_seq strict I high = Ok (I', x) -> Inv (ig I) -> seq_ok I -> (3 <= iL I)%nat ->
    let n := num_variables I' in
    let xv := Zvec_of x in
    length x = n /\ Forall is01 x /\ zbinary n xv /\
    exists E, R_entries I' = Ok E /\
      (forall r, (r < num_rows I')%nat -> zmv n (Amat I') xv r = bvec I' r) /\
      zqf n (Rmat E) xv = 0.
  Proof.
    intros H HI Hok HL n xv.
    destruct (mf_seq_walk I high I' x H HI Hok HL) as (routes & _ & _ & _ & HW & Lx & Hx & Hok' & _ & HL' & _).
    assert (H01 : forall k, (k < n)%nat -> nth k x 0 = 0 \/ nth k x 0 = 1).
    { intros k Hk. rewrite (Hx k Hk). unfold indicator_free.
      destruct (var_tuple I' k) as [[[v s] m]|]; [|auto]. destruct (Nat.eqb (pad_walks routes v s) m); auto. }
    split; [exact Lx|]. split.
    { apply Forall_forall. intros v Hv. destruct (In_nth _ _ 0 Hv) as (k & Hk & <-). apply H01. fold n in Lx. lia. }
    assert (Hb : zbinary n xv) by (intros k Hk; apply (H01 k Hk)).
    split; [exact Hb|].
    destruct Hok' as (_ & _ & HN').
    unfold n in *. rewrite <- nv_num in *.
    destruct (seq_iff I' xv HN' ltac:(lia) Hb) as (E & HE & Hiff).
    exists E. split; [exact HE|]. apply Hiff. exists (pad_walks routes). split; [exact HW|].
    intros k Hk. apply Hx. exact Hk.
  Qed.
End SeqPost.

(* ================= totality of the sequence heuristic ================= *)
(* the depot window never closes, and no customer's window closes before the depot opens *)
Definition SeqHyp (g : graph) : Prop :=
  exists d rest, nodes g = d :: rest /\ nhi d = PInf /\
                 forall nd, In nd rest -> ext_le (Fin (nlo d)) (nhi nd).

Lemma SeqHyp_ext g g' : gext g g' -> SeqHyp g -> SeqHyp g'.
Proof. intros HE (d & rest & A & B & C). exists d, rest. rewrite (ge_nodes _ _ HE). auto. Qed.

Section SeqTotal.
  Variable strict : bool.

  Lemma ensure_arc_ok g i j c :
    Inv g -> SeqHyp g -> (i < length (nodes g))%nat -> (j < length (nodes g))%nat -> (i = O \/ j = O) ->
    exists g', ensure_arc strict g i j c = Ok g'.
  Proof.
    intros HI (d & rest & Hn & Hd & Hc) Hi Hj Hij. unfold ensure_arc.
    destruct (dict_mem (i, j) (arcs g)); [eauto|].
    assert (Hlen : length (names g) = length (nodes g)) by (apply Inv_names_length; exact HI).
    destruct (nth_error (names g) i) as [ni|] eqn:Ei; [|apply nth_error_None in Ei; lia].
    destruct (nth_error (names g) j) as [nj|] eqn:Ej; [|apply nth_error_None in Ej; lia].
    pose proof (index_of_nth_error_NoDup _ (inv_nodup _ HI) _ _ Ei) as Xi.
    pose proof (index_of_nth_error_NoDup _ (inv_nodup _ HI) _ _ Ej) as Xj.
    unfold add_arc_gen. rewrite Xi, Xj.
    assert (Hpass : (if strict && negb (Nat.eqb i 0)
                     then strict_filter (nth i (nodes g) dummy_node) (nth j (nodes g) dummy_node) 0
                     else base_filter (nth i (nodes g) dummy_node) (nth j (nodes g) dummy_node) 0) = true).
    { destruct Hij as [-> | ->].
      - cbn [Nat.eqb negb andb]. rewrite andb_false_r. unfold base_filter. rewrite Hn. cbn [nth].
        destruct j as [|j]; [cbn [nth]; rewrite Hd; reflexivity|]. cbn [nth].
        apply ext_leb_le. rewrite Z.add_0_r. apply Hc. apply nth_In. rewrite Hn in Hj. simpl in Hj. lia.
      - unfold strict_filter, base_filter. rewrite Hn. cbn [nth]. rewrite Hd.
        destruct (strict && negb (Nat.eqb i 0)); [destruct (ext_add _ 0)|]; reflexivity. }
    rewrite Hpass. eauto.
  Qed.

  Lemma veh_loop_ok g v ss : forall cur unv used,
    Inv g -> SeqHyp g -> (cur < length (nodes g))%nat -> (forall c, In c unv -> (c < length (nodes g))%nat) ->
    exists res, veh_loop strict g v ss cur unv used = Ok res.
  Proof.
    induction ss as [|si ss IH]; intros cur unv used HI HH Hcur Hunv; [simpl; eauto|].
    cbn [veh_loop]. destruct (find (fun ni => dict_mem (cur, ni) (arcs g)) unv) as [ni|] eqn:Ef.
    - destruct (find_some _ _ Ef) as [Hin _].
      destruct (remove_first_In ni unv Hin) as [u1 E1]. rewrite E1.
      destruct (remove_first_spec _ _ _ E1) as (_ & R2 & _).
      apply IH; auto.
    - assert (H0 : (0 < length (nodes g))%nat) by lia.
      destruct (ensure_arc_ok g cur O 0 HI HH Hcur H0 (or_intror eq_refl)) as [g' ->]. eauto.
  Qed.

  Lemma veh_step_ok N L g v unv used :
    Inv g -> SeqHyp g -> garc g O O -> length (nodes g) = N -> (forall c, In c unv -> (1 <= c < N)%nat) ->
    exists res, veh_step strict L g v unv used = Ok res.
  Proof.
    intros HI HH H00 HN Hunv. unfold veh_step.
    assert (HN0 : (0 < N)%nat).
    { destruct HH as (d & rest & Hn & _). rewrite <- HN, Hn. simpl. lia. }
    destruct (veh_loop_ok g v (seq 1 (L - 2)) O unv used HI HH ltac:(lia)) as [[[[g1 cur] u1] us1] El].
    { intros c Hc. specialize (Hunv c Hc). lia. }
    rewrite El.
    destruct (veh_loop_spec strict (L - 2) g v [] O unv used g1 cur u1 us1 El HI eq_refl I)
      as (ext & _ & P1 & C1 & E1 & I1 & _).
    destruct (Nat.eqb cur 0); [eauto|].
    assert (Hcur : (cur < length (nodes g1))%nat).
    { rewrite (ge_nodes _ _ E1), HN. simpl in C1. subst cur. destruct ext as [|a ext']; [simpl; lia|].
      assert (Hin : In (last (a :: ext') O) unv).
      { apply (Permutation_in _ (Permutation_sym P1)). apply in_app_iff. left.
        apply (proj2 (In_removelast_or_last (a :: ext') _ O ltac:(discriminate))). right. reflexivity. }
      specialize (Hunv _ Hin). lia. }
    destruct (ensure_arc_ok g1 cur O 0 I1 (SeqHyp_ext _ _ E1 HH) Hcur) as [g2 ->]; [|auto|eauto].
    rewrite (ge_nodes _ _ E1), HN. exact HN0.
  Qed.

  Lemma veh_all_ok N L k : forall g v0 unv used routes,
    SInv N L g routes unv used -> length routes = v0 -> Inv g -> SeqHyp g -> garc g O O ->
    length (nodes g) = N -> (2 <= L)%nat ->
    exists res, veh_all strict L g (seq v0 k) unv used = Ok res.
  Proof.
    induction k as [|k IH]; intros g v0 unv used routes HS Hlen HI HH H00 HN HL; [simpl; eauto|].
    cbn [seq veh_all].
    destruct (veh_step_ok N L g v0 unv used HI HH H00 HN (fun c => SInv_unv _ _ _ _ _ _ c HS))
      as [[[g1 u1] us1] Es].
    rewrite Es.
    assert (E1 : veh_all strict L g (seq v0 1) unv used = Ok (g1, u1, us1)) by (cbn [seq veh_all]; rewrite Es; reflexivity).
    destruct (veh_all_spec strict N L 1 _ _ _ _ _ _ _ _ E1 HS Hlen HI H00 HL) as (routes1 & S1 & Hl1 & X1 & I1).
    apply (IH g1 (S v0) u1 us1 routes1); auto.
    - lia.
    - eapply SeqHyp_ext; eauto.
    - apply (ge_arcs _ _ X1). exact H00.
    - rewrite (ge_nodes _ _ X1). exact HN.
  Qed.

  Lemma dummy_vehicles_ok N L high us : forall g V vc used,
    Inv g -> SeqHyp g -> length (nodes g) = N -> (forall c, In c us -> (1 <= c < N)%nat) ->
    exists res, dummy_vehicles strict L high g V vc us used = Ok res.
  Proof.
    induction us as [|ni us IH]; intros g V vc used HI HH HN Hus; [simpl; eauto|].
    cbn [dummy_vehicles].
    assert (Hni : (1 <= ni < N)%nat) by (apply Hus; left; reflexivity).
    destruct (ensure_arc_ok g O ni high HI HH) as [g1 E1]; [lia|lia|auto|]. rewrite E1.
    destruct (ensure_arc_spec strict _ _ _ _ _ E1 HI) as (X1 & I1 & _).
    destruct (ensure_arc_ok g1 ni O high I1 (SeqHyp_ext _ _ X1 HH)) as [g2 E2];
      [rewrite (ge_nodes _ _ X1); lia|rewrite (ge_nodes _ _ X1); lia|auto|]. rewrite E2.
    destruct (ensure_arc_spec strict _ _ _ _ _ E2 I1) as (X2 & I2 & _).
    apply IH; auto.
    - eapply SeqHyp_ext; [exact X2|]. eapply SeqHyp_ext; eauto.
    - rewrite (ge_nodes _ _ X2), (ge_nodes _ _ X1). exact HN.
    - intros c Hc. apply Hus. right. exact Hc.
  Qed.

  Lemma mark_tuples_ok I used : forall x0,
    (forall v s n, In (v, s, n) used -> In (v, s, n) (vars I)) -> exists x, mark_tuples I used x0 = Ok x.
  Proof.
    induction used as [|[[v s] n] rest IH]; intros x0 H; [simpl; eauto|].
    cbn [mark_tuples].
    assert (Hin : In (v, s, n) (vars I)) by (apply H; left; reflexivity).
    pose proof Hin as Hb. apply in_vars in Hb. destruct Hb as (Hv & Hs & Hn & _).
    destruct (Nat.ltb_spec v (iV I)); [|lia]. destruct (Nat.ltb_spec s (iL I)); [|lia].
    destruct (Nat.ltb_spec n (iN I)); [|lia]. cbn [andb negb].
    destruct (var_index_In I _ Hin) as [k ->]. apply IH. intros v' s' n' H'. apply H. right. exact H'.
  Qed.

  Theorem mf_seq_total I high :
    Inv (ig I) -> seq_ok I -> (3 <= iL I)%nat -> SeqHyp (ig I) ->
    exists I' x, mf_seq strict I high = Ok (I', x) /\
                 Inv (ig I') /\ seq_ok I' /\ iL I' = iL I /\ SeqHyp (ig I').
  Proof.
    intros HI Hok HL HH. unfold mf_seq.
    pose proof Hok as (Hk & H00 & HN).
    destruct (iN I) as [|N'] eqn:EN; [lia|]. cbn [seq remove_first Nat.eqb].
    assert (S0 : SInv (S N') (iL I) (ig I) [] (sort_by_end (ig I) (seq 1 N')) []).
    { constructor; [reflexivity|constructor|]. replace (S N' - 1)%nat with N' by lia.
      cbn [concat app]. apply sort_by_end_perm. }
    destruct (veh_all_ok (S N') (iL I) (iV I) (ig I) 0 _ [] [] S0 eq_refl HI HH H00 EN ltac:(lia))
      as [[[g1 unv1] used1] Ev].
    rewrite Ev.
    destruct (veh_all_spec strict (S N') (iL I) _ _ _ _ _ _ _ _ _ Ev S0 eq_refl HI H00 ltac:(lia))
      as (routes1 & S1 & Hl1 & E1 & I1).
    destruct (dummy_vehicles_ok (S N') (iL I) high unv1 g1 (iV I) (ivc I) used1 I1 (SeqHyp_ext _ _ E1 HH))
      as [[[[g2 V2] vc2] used2] Ed].
    { rewrite (ge_nodes _ _ E1). exact EN. }
    { intros c Hc. eapply SInv_unv; eauto. }
    rewrite Ed.
    destruct (phases_spec strict I high _ _ _ _ _ _ _ N' EN Ev Ed HI Hok HL)
      as (routes & U2 & Hl2 & Hval & Hcov & HW & Hok2 & I2' & HN2 & E12 & HVV & Hvc).
    set (I2 := mkInst g2 V2 (iL I) vc2) in *.
    destruct (mark_tuples_ok I2 used2 (repeat 0 (num_variables I2))) as [x Em].
    { intros v s n Hin. rewrite U2 in Hin. apply in_all_tuples in Hin. destruct Hin as (Hv & Hs & Hn).
      rewrite Nat.sub_0_r in Hn. fold (pad_walks routes v s) in Hn.
      assert (Hv2 : (v < iV I2)%nat) by (cbn [iV I2]; lia).
      apply vars_exact. split; [exact Hv2|]. split; [cbn [iL I2]; lia|]. split.
      - rewrite Hn. apply (wa_node I2 _ HW); [exact Hv2|cbn [iL I2]; lia].
      - split; [lia|]. split; [cbn [iL I2]; lia|]. split.
        + intros ->. pose proof (wa_is_arc I2 _ v 0 HW Hv2 ltac:(cbn [iL I2]; lia)) as Ha.
          rewrite (wa_start I2 _ HW v Hv2) in Ha. rewrite Hn. exact Ha.
        + intros HsL. cbn [iL I2] in HsL.
          pose proof (wa_is_arc I2 _ v s HW Hv2 ltac:(cbn [iL I2]; lia)) as Ha.
          replace (S s) with (iL I2 - 1)%nat in Ha by (cbn [iL I2]; lia).
          rewrite (wa_end I2 _ HW v Hv2) in Ha. rewrite Hn. exact Ha. }
    rewrite Em. exists I2, x. split; [reflexivity|]. split; [exact I2'|]. split; [exact Hok2|].
    split; [reflexivity|]. eapply SeqHyp_ext; eauto.
  Qed.
End SeqTotal.

(* the boolean tests used by the correspondence imply the hypotheses of the totality theorem *)
Lemma seq_hypb_sound J : seq_hypb J = true -> seq_ok J /\ (3 <= iL J)%nat /\ SeqHyp (ig J).
Proof.
  unfold seq_hypb. rewrite !andb_true_iff. intros ((H1 & H2) & H3).
  split.
  { unfold seq_okb in H1. rewrite !andb_true_iff in H1. destruct H1 as ((A & B) & C).
    split; [|split].
    - clear - A. induction (map fst (arcs (ig J))) as [|k l IH]; simpl in *; [constructor|].
      apply andb_true_iff in A. destruct A as [A1 A2]. constructor; [|auto].
      intros Hin. apply negb_true_iff in A1.
      assert (E : existsb (natpair_eqb k) l = true).
      { apply existsb_exists. exists k. split; [exact Hin|apply natpair_eqb_refl]. }
      congruence.
    - apply check_arc_iff. exact B.
    - apply Nat.leb_le. exact C. }
  split; [apply Nat.leb_le; exact H2|].
  destruct (nodes (ig J)) as [|d rest] eqn:En; [discriminate|].
  apply andb_true_iff in H3. destruct H3 as [A B].
  exists d, rest. split; [exact En|]. split; [destruct (nhi d); [discriminate|reflexivity]|].
  intros nd Hnd. rewrite forallb_forall in B. apply ext_leb_le. apply B. exact Hnd.
Qed.
