(* PyRng.v -- where the code touches numpy's global generator, read off the source  [C17, generated tie]

   Definitions only.  harness/translate_rngflow.py prints, for EVERY function / method of the routing-problem
   package (vrptw.py, routing_problem.py, the three formulation classes, applications/mirp.py,
   examples/mirp_random.py), its CONTROL SKELETON restricted to what matters for the generator: the calls into
   np.random.* (seed with its argument, get_state, set_state, any other function = a draw), every `.rvs(` call
   (scipy / sampler draws), every call (so that calls between the translated functions can be followed), and the
   control structure (sequence, branch, loop, try, return / break / continue / raise)  -- coq/gen/RngGen.v.
   This file gives

     1. `exec`   the semantics of skeletons over the oracle generator of Rng.v: a deterministic interpreter.
                 Everything the program decides (which branch, how many iterations, which exception, which
                 dynamic callee) is a function `dec` of the HISTORY = the values observed from the generator
                 so far (draw results, get_state results) and the earlier decisions -- the program is
                 deterministic given its data and its draws.  `seed (Some z)` is Rng.v's oracle;
                 seed(None) / seed(<unknown>) / set_state install a state from OUTSIDE (`ext`: OS entropy,
                 a saved state ... different in two runs).
     2. `aexec`  an abstract interpreter over three generator statuses
                     AU  untouched: no generator event so far
                     AP  may depend on the prior state / on the outside
                     AD  determined: a function of the history only (seeded with an explicit value since)
                 which fails (None) when a draw or a get_state happens in status AU / AP.
     3. `rng_disciplined`  the decidable check of a generated table (see the end of the file).
   PyRng_facts.v proves `aexec` sound: two runs of `exec` from different prior generator states (and with
   different outside worlds) proceed in lockstep -- same decisions, same observed values, same outcome. *)
From Coq Require Import String.
From VQ Require Import Base.
Local Open Scope nat_scope.

(* ---------- skeletons ---------- *)
Inductive seedarg :=
| SConst (z : Z)          (* np.random.seed(<int literal>) *)
| SNone                   (* np.random.seed() / seed(None) : OS entropy *)
| SAttr (x : string)      (* np.random.seed(self.x) *)
| SUnk.                   (* any other argument *)

Inductive gev :=
| ESeed (a : seedarg)
| EGetState               (* np.random.get_state() *)
| ESetState               (* np.random.set_state(..) *)
| EDraw (nm : string).    (* np.random.<nm>(..) for any other nm;  <expr>.rvs(..) is EDraw "rvs" *)

Inductive target :=
| TSelf (m : string)      (* self.m(..) *)
| TSuper (m : string)     (* super().m(..) *)
| TAttr (x m : string)    (* self.x.m(..) *)
| TOther (m : string)     (* <any other receiver>.m(..) *)
| TFun (f : string).      (* f(..) : a module-level function or a class (constructor) *)

(* call arguments, as far as booleans are concerned *)
Inductive argk := KPos (n : nat) | KName (s : string) | KStar.       (* KStar: *args / **kwargs present *)
Inductive argv := VBool (b : bool) | VParam (n : nat) | VUnk.        (* literal, the caller's own parameter n, other *)

Inductive rout := XNorm | XRet | XBrk | XCnt | XRaise.

Inductive rskel :=
| RSkip
| RExit (o : rout)                      (* return / break / continue / raise *)
| RSeq (a b : rskel)
| RChoice (a b : rskel)                 (* any branch (events of the condition come before it) *)
| RIfParam (n : nat) (a b : rskel)      (* if <parameter n>: a else: b   (the parameter alone, never re-bound) *)
| RLoop (b : rskel)                     (* for / while / comprehension: b zero or more times *)
| RTry (b h e : rskel)                  (* try: b except: h else: e *)
| REv (e : gev)
| RCall (t : target) (args : list (argk * argv))
| RClosure (b : rskel).                 (* nested def / lambda with body b (defined here, run elsewhere) *)

Definition rseq (l : list rskel) : rskel := fold_right RSeq RSkip l.

Inductive fkind :=
| FMethod | FProperty      (* def in a class; with @property *)
| FFunction                (* module-level def (f_cls = "") *)
| FToplevel.               (* the statements of a module (f_cls = "") or of a class body *)

Record fn := mkFn {
  f_cls : string; f_name : string; f_kind : fkind;
  f_params : list (string * option bool);     (* without self; default when it is a literal True / False *)
  f_body : rskel }.

Record cls := mkCls { c_name : string; c_bases : list string; c_dataclass : bool; c_fns : list fn }.

Record rng_table := mkRT {
  rt_funs : list fn;                             (* module-level functions and module bodies *)
  rt_classes : list cls;                         (* classes with their methods and class bodies *)
  rt_news : list (string * string * string) }.   (* (class, x, C) for every `self.x = C(..)` *)

Definition all_fns (tb : rng_table) : list fn := rt_funs tb ++ flat_map c_fns (rt_classes tb).

(* ---------- name resolution ---------- *)
Local Open Scope string_scope.
(* what the objects held in these attributes are (MIRP / RoutingProblem constructors); checked against
   rt_news by `news_consistent` *)
Definition attr_class : list (string * string) :=
  [("vrptw", "VRPTW"); ("abrp", "ArcBasedRoutingProblem"); ("pbrp", "PathBasedRoutingProblem");
   ("sbrp", "SequenceBasedRoutingProblem")].
(* np.random names that create generator objects / seed from OS entropy: outside the model, always refused *)
Definition entropy_names : list string :=
  ["default_rng"; "RandomState"; "Generator"; "SeedSequence"; "BitGenerator"; "PCG64"; "PCG64DXSM"; "MT19937";
   "Philox"; "SFC64"; "bit_generator"; "mtrand"; "set_bit_generator"; "get_bit_generator"].
Local Close Scope string_scope.

Fixpoint sfind {A} (t : list (string * A)) (x : string) : option A :=
  match t with
  | [] => None
  | (n, v) :: t' => if String.eqb n x then Some v else sfind t' x
  end.
Definition smem (x : string) (l : list string) : bool := existsb (String.eqb x) l.

Fixpoint find_name (l : list fn) (m : string) : option fn :=
  match l with
  | [] => None
  | g :: l' => if String.eqb (f_name g) m then Some g else find_name l' m
  end.
Fixpoint find_cls (l : list cls) (c : string) : option cls :=
  match l with
  | [] => None
  | k :: l' => if String.eqb (c_name k) c then Some k else find_cls l' c
  end.
(* the function named m written in class c (c = "": at module level) *)
Definition find_fn (tb : rng_table) (c m : string) : option fn :=
  match c with
  | EmptyString => find_name (rt_funs tb) m
  | _ => match find_cls (rt_classes tb) c with Some k => find_name (c_fns k) m | None => None end
  end.
Definition bases_of (tb : rng_table) (c : string) : list string :=
  match find_cls (rt_classes tb) c with Some k => c_bases k | None => [] end.

(* method resolution order: the class, then its bases left to right (depth first) *)
Fixpoint lookup_mro (fuel : nat) (tb : rng_table) (c m : string) : option fn :=
  match fuel with
  | O => None
  | S k =>
      match find_cls (rt_classes tb) c with
      | None => None
      | Some kc =>
          match find_name (c_fns kc) m with
          | Some g => Some g
          | None => (fix go (bs : list string) : option fn :=
                       match bs with
                       | [] => None
                       | b :: bs' => match lookup_mro k tb b m with Some g => Some g | None => go bs' end
                       end) (c_bases kc)
          end
      end
  end.
Fixpoint subclassb (fuel : nat) (tb : rng_table) (d c : string) : bool :=
  match fuel with
  | O => false
  | S k => if String.eqb d c then true else existsb (fun b => subclassb k tb b c) (bases_of tb d)
  end.
Definition mro_fuel : nat := 8.
Definition lookup (tb : rng_table) (c m : string) : option fn := lookup_mro mro_fuel tb c m.
Definition subcls (tb : rng_table) (d c : string) : bool := subclassb mro_fuel tb d c.

(* a callee: the class its body was written in (for super()), the dynamic class of its self, the function *)
Definition cand := (string * string * fn)%type.
Definition cand_of (dyn : string) (g : fn) : cand := (f_cls g, dyn, g).

(* receivers of unknown class: every class that has (inherits) a method of that name *)
Definition cha (tb : rng_table) (sel : string -> bool) (m : string) : list cand :=
  flat_map (fun k => if sel (c_name k)
                     then match lookup tb (c_name k) m with Some g => [cand_of (c_name k) g] | None => [] end
                     else []) (rt_classes tb).

Local Open Scope string_scope.
Definition ctor_cands (tb : rng_table) (k : cls) : list cand :=
  match lookup tb (c_name k) (if c_dataclass k then "__post_init__" else "__init__") with
  | Some g => [cand_of (c_name k) g]
  | None => []
  end.
Local Close Scope string_scope.

Definition super_lookup (tb : rng_table) (c m : string) : option fn :=
  (fix go (bs : list string) : option fn :=
     match bs with
     | [] => None
     | b :: bs' => match lookup tb b m with Some g => Some g | None => go bs' end
     end) (bases_of tb c).

Definition resolve (tb : rng_table) (c dyn : string) (t : target) : list cand :=
  match t with
  | TSelf m => match lookup tb dyn m with
               | Some g => [cand_of dyn g]
               | None => cha tb (fun _ => true) m
               end
  | TSuper m => match super_lookup tb c m with Some g => [cand_of dyn g] | None => [] end
  | TAttr x m => match sfind attr_class x with
                 | Some k => cha tb (fun d => subcls tb d k) m
                 | None => cha tb (fun _ => true) m
                 end
  | TOther m => cha tb (fun _ => true) m
  | TFun f => match find_cls (rt_classes tb) f with
              | Some k => ctor_cands tb k
              | None => map (cand_of EmptyString) (filter (fun g => String.eqb (f_name g) f) (rt_funs tb))
              end
  end.

(* what is known about the boolean parameters of the callee *)
Fixpoint find_arg (args : list (argk * argv)) (i : nat) (p : string) : option argv :=
  match args with
  | [] => None
  | (KPos n, v) :: t => if Nat.eqb n i then Some v else find_arg t i p
  | (KName s, v) :: t => if String.eqb s p then Some v else find_arg t i p
  | (KStar, _) :: t => find_arg t i p
  end.
Definition has_star (args : list (argk * argv)) : bool :=
  existsb (fun a => match fst a with KStar => true | _ => false end) args.
Definition argval (env : list (option bool)) (v : argv) : option bool :=
  match v with VBool b => Some b | VParam n => nth n env None | VUnk => None end.
Fixpoint bind_from (i : nat) (ps : list (string * option bool)) (args : list (argk * argv))
         (env : list (option bool)) : list (option bool) :=
  match ps with
  | [] => []
  | (p, d) :: ps' => (match find_arg args i p with Some v => argval env v | None => d end)
                     :: bind_from (S i) ps' args env
  end.
Definition bind (ps : list (string * option bool)) (args : list (argk * argv)) (env : list (option bool))
  : list (option bool) :=
  if has_star args then map (fun _ => None) ps else bind_from 0 ps args env.
Definition unknown_env (g : fn) : list (option bool) := map (fun _ => None) (f_params g).

Definition call_out (o : rout) : rout := match o with XRaise => XRaise | _ => XNorm end.

(* short forms used by the generated file *)
Definition pu (n : nat) : argk * argv := (KPos n, VUnk).
Definition pb (n : nat) (b : bool) : argk * argv := (KPos n, VBool b).
Definition pp (n k : nat) : argk * argv := (KPos n, VParam k).
Definition ku (s : string) : argk * argv := (KName s, VUnk).
Definition kb (s : string) (b : bool) : argk * argv := (KName s, VBool b).
Definition kp (s : string) (k : nat) : argk * argv := (KName s, VParam k).
Definition star : argk * argv := (KStar, VUnk).

(* ---------- the semantics over the oracle generator ---------- *)
Section Sem.
  Variables (rng obs : Type).
  (* what the program has seen of the generator, and what it decided, newest first *)
  Inductive item := IObs (o : obs) | IDec (b : bool).
  Definition hist := list item.
  Record xst := mkX { xg : rng; xh : hist }.

  Variable seed : option Z -> rng -> rng.                  (* Rng.v: np.random.seed *)
  Variable draw : string -> hist -> rng -> obs * rng.      (* np.random.<nm>(..) / .rvs(..): arguments = f(history) *)
  Variable peek : rng -> obs.                              (* np.random.get_state() *)
  Variable dec : hist -> bool.                             (* the program's own (deterministic) decisions *)
  Variable fld : string -> option Z.                       (* self.<x> as a seed: Some z explicit, None = None *)
  Variable tb : rng_table.
  Variable ext : hist -> rng.                              (* states from outside: OS entropy, set_state(..) *)

  Definition push (i : item) (x : xst) : xst := mkX (xg x) (i :: xh x).
  Definition setg (g : rng) (x : xst) : xst := mkX g (xh x).

  Definition ev_step (e : gev) (x : xst) : xst :=
    match e with
    | ESeed (SConst z) => setg (seed (Some z) (xg x)) x
    | ESeed (SAttr a) => match fld a with
                         | Some z => setg (seed (Some z) (xg x)) x
                         | None => setg (ext (xh x)) x
                         end
    | ESeed SNone => setg (ext (xh x)) x
    | ESeed SUnk => setg (ext (xh x)) x
    | ESetState => setg (ext (xh x)) x
    | EGetState => push (IObs (peek (xg x))) x
    | EDraw nm => mkX (snd (draw nm (xh x) (xg x))) (IObs (fst (draw nm (xh x) (xg x))) :: xh x)
    end.

  (* which of several possible callees runs is a decision of the program *)
  Fixpoint pick (cs : list cand) (x : xst) : option (cand * xst) :=
    match cs with
    | [] => None
    | c :: cs' => match cs' with
                  | [] => Some (c, x)
                  | _ :: _ => if dec (xh x) then Some (c, push (IDec true) x)
                              else pick cs' (push (IDec false) x)
                  end
    end.

  (* intr = "inside a try body": an exception may be raised in front of any node (a decision).
     c = class the running body was written in, dyn = class of self, env = what is known of the boolean
     parameters (an unknown parameter is a decision).  exec_node: one node, `rec` runs the sub-skeletons and
     the callees (one unit of fuel less).  None = out of fuel. *)
  Definition runner := bool -> string -> string -> list (option bool) -> rskel -> xst -> option (xst * rout).

  Definition exec_node (rec : runner) (intr : bool) (c dyn : string) (env : list (option bool)) (s : rskel)
             (x0 : xst) : option (xst * rout) :=
    match s with
    | RSkip => Some (x0, XNorm)
    | RClosure _ => Some (x0, XNorm)
    | RExit o => Some (x0, o)
    | RSeq a b =>
        match rec intr c dyn env a x0 with
        | Some (x1, XNorm) => rec intr c dyn env b x1
        | r => r
        end
    | RChoice a b =>
        rec intr c dyn env (if dec (xh x0) then a else b) (push (IDec (dec (xh x0))) x0)
    | RIfParam n a b =>
        match nth n env None with
        | Some d => rec intr c dyn env (if d then a else b) x0
        | None => rec intr c dyn env (if dec (xh x0) then a else b) (push (IDec (dec (xh x0))) x0)
        end
    | RLoop b =>
        if dec (xh x0) then
          match rec intr c dyn env b (push (IDec true) x0) with
          | Some (x1, o) =>
              match o with
              | XNorm | XCnt => rec intr c dyn env (RLoop b) x1
              | XBrk => Some (x1, XNorm)
              | _ => Some (x1, o)
              end
          | None => None
          end
        else Some (push (IDec false) x0, XNorm)
    | RTry b h e =>
        match rec true c dyn env (RSeq b RSkip) x0 with
        | Some (x1, XNorm) => rec intr c dyn env e x1
        | Some (x1, XRaise) =>
            if dec (xh x1) then rec intr c dyn env h (push (IDec true) x1)
            else Some (push (IDec false) x1, XRaise)
        | r => r
        end
    | REv e => Some (ev_step e x0, XNorm)
    | RCall t args =>
        match pick (resolve tb c dyn t) x0 with
        | None => Some (x0, XNorm)              (* not a translated function: library call, no generator event *)
        | Some (cd, x1) =>
            match rec intr (fst (fst cd)) (snd (fst cd)) (bind (f_params (snd cd)) args env)
                      (f_body (snd cd)) x1 with
            | Some (x2, o) => Some (x2, call_out o)
            | None => None
            end
        end
    end.

  Fixpoint exec (f : nat) (intr : bool) (c dyn : string) (env : list (option bool)) (s : rskel) (x : xst)
    : option (xst * rout) :=
    match f with
    | O => None
    | S f' =>
        if intr && dec (xh x) then Some (push (IDec true) x, XRaise)
        else exec_node (exec f') intr c dyn env s (if intr then push (IDec false) x else x)
    end.

  Fixpoint obs_of (h : hist) : list obs :=
    match h with
    | [] => []
    | IObs o :: h' => o :: obs_of h'
    | IDec _ :: h' => obs_of h'
    end.
End Sem.
Arguments IObs {obs} o.
Arguments IDec {obs} b.
Arguments mkX {rng obs} xg xh.
Arguments xg {rng obs} x.
Arguments xh {rng obs} x.
Arguments push {rng obs} i x.
Arguments obs_of {obs} h.

(* ---------- the abstract interpreter ---------- *)
Inductive ast := AU | AP | AD.
Definition ast_eqb (a b : ast) : bool :=
  match a, b with AU, AU | AP, AP | AD, AD => true | _, _ => false end.
Definition rout_eqb (a b : rout) : bool :=
  match a, b with
  | XNorm, XNorm | XRet, XRet | XBrk, XBrk | XCnt, XCnt | XRaise, XRaise => true
  | _, _ => false
  end.
Definition ares := list (ast * rout).
Definition ar_eqb (p q : ast * rout) : bool := ast_eqb (fst p) (fst q) && rout_eqb (snd p) (snd q).
Definition amem (p : ast * rout) (R : ares) : bool := existsb (ar_eqb p) R.
Definition aadd (p : ast * rout) (R : ares) : ares := if amem p R then R else p :: R.
Definition aunion (A B : ares) : ares := fold_right aadd B A.

Fixpoint abind (R : ares) (k : ast -> rout -> option ares) : option ares :=
  match R with
  | [] => Some []
  | (a, o) :: R' =>
      match k a o, abind R' k with
      | Some A, Some B => Some (aunion A B)
      | _, _ => None
      end
  end.

(* explicit = the attributes known to hold an explicit (integer) seed *)
Definition aev (explicit : list string) (e : gev) (a : ast) : option ast :=
  match e with
  | ESeed (SConst _) => Some AD
  | ESeed (SAttr x) => Some (if smem x explicit then AD else AP)
  | ESeed SNone => Some AP
  | ESeed SUnk => Some AP
  | ESetState => Some AP
  | EGetState => match a with AD => Some AD | _ => None end
  | EDraw nm => if smem nm entropy_names then None else match a with AD => Some AD | _ => None end
  end.

Definition continues (o : rout) : bool := match o with XNorm | XCnt => true | _ => false end.

(* loops: the body is analysed once per status the loop head can be in; tab = (head status, results of the body) *)
Definition ltab := list (ast * ares).
Definition tab_has (a : ast) (tab : ltab) : bool := existsb (fun q => ast_eqb (fst q) a) tab.
Definition conts (R : ares) : list ast :=
  flat_map (fun p => if continues (snd p) then [fst p] else []) R.
Fixpoint explore (n : nat) (step : ast -> option ares) (todo : list ast) (tab : ltab) : option ltab :=
  match n with
  | O => None
  | S n' =>
      match todo with
      | [] => Some tab
      | a :: todo' =>
          if tab_has a tab then explore n' step todo' tab
          else match step a with
               | Some R => explore n' step (conts R ++ todo') ((a, R) :: tab)
               | None => None
               end
      end
  end.
Definition tab_closed (tab : ltab) : bool :=
  forallb (fun q => forallb (fun a => tab_has a tab) (conts (snd q))) tab.
Definition loop_exit1 (p : ast * rout) : ares :=
  match snd p with
  | XBrk => [(fst p, XNorm)]
  | XRet => [(fst p, XRet)]
  | XRaise => [(fst p, XRaise)]
  | _ => []
  end.
(* per head status: leave the loop, (inside a try) raise at the loop head, or leave it from inside the body *)
Fixpoint loop_exits (intr : bool) (tab : ltab) : ares :=
  match tab with
  | [] => []
  | (a, R) :: tab' =>
      aadd (a, XNorm) ((if intr then aadd (a, XRaise) else fun r => r)
                         (aunion (flat_map loop_exit1 R) (loop_exits intr tab')))
  end.

(* a callee that may be skipped: listed in ts (the functions verified to leave the status alone, see
   trans_ok below), written in the class the candidate says, for a class of self the verification covered,
   nothing known about its boolean parameters *)
Definition keyset := list (string * list string).      (* class -> function names *)
Definition kmem (g : fn) (ts : keyset) : bool :=
  match sfind ts (f_cls g) with Some l => smem (f_name g) l | None => false end.
Definition env_eqb (e1 e2 : list (option bool)) : bool := list_eqb (option_eqb Bool.eqb) e1 e2.

(* the possible classes of self for code written in class c *)
Definition dyns_of (tb : rng_table) (c : string) : list string :=
  match filter (fun d => subcls tb d c) (map c_name (rt_classes tb)) with
  | [] => [c]
  | l => l
  end.

Definition shortcut (tb : rng_table) (ts : keyset) (cd : cand) (env : list (option bool)) : bool :=
  let '(c', d', g) := cd in
  kmem g ts && String.eqb c' (f_cls g) && smem d' (dyns_of tb (f_cls g)) && env_eqb env (unknown_env g).

Fixpoint acands (run : cand -> option ares) (cs : list cand) : option ares :=
  match cs with
  | [] => Some []
  | cd :: cs' =>
      match run cd, acands run cs' with
      | Some R, Some R' => Some (aunion (map (fun p => (fst p, call_out (snd p))) R) R')
      | _, _ => None
      end
  end.

Section AExec.
  Variables (tb : rng_table) (explicit : list string) (ts : keyset).
  Definition arunner := bool -> string -> string -> list (option bool) -> rskel -> ast -> option ares.

  Definition aexec_node (rec : arunner) (intr : bool) (c dyn : string) (env : list (option bool)) (s : rskel)
             (a : ast) : option ares :=
    match s with
    | RSkip => Some [(a, XNorm)]
    | RClosure _ => Some [(a, XNorm)]
    | RExit o => Some [(a, o)]
    | RSeq s1 s2 =>
        match rec intr c dyn env s1 a with
        | Some R => abind R (fun a1 o1 => match o1 with
                                          | XNorm => rec intr c dyn env s2 a1
                                          | _ => Some [(a1, o1)]
                                          end)
        | None => None
        end
    | RChoice s1 s2 =>
        match rec intr c dyn env s1 a, rec intr c dyn env s2 a with
        | Some A, Some B => Some (aunion A B)
        | _, _ => None
        end
    | RIfParam n s1 s2 =>
        match nth n env None with
        | Some d => rec intr c dyn env (if d then s1 else s2) a
        | None => match rec intr c dyn env s1 a, rec intr c dyn env s2 a with
                  | Some A, Some B => Some (aunion A B)
                  | _, _ => None
                  end
        end
    | RLoop b =>
        match explore 64 (rec intr c dyn env b) [a] [] with
        | Some tab => if tab_closed tab && tab_has a tab then Some (loop_exits intr tab) else None
        | None => None
        end
    | RTry b h e =>
        match rec true c dyn env (RSeq b RSkip) a with
        | Some R => abind R (fun a1 o1 => match o1 with
                                          | XNorm => rec intr c dyn env e a1
                                          | XRaise => match rec intr c dyn env h a1 with
                                                      | Some A => Some (aadd (a1, XRaise) A)
                                                      | None => None
                                                      end
                                          | _ => Some [(a1, o1)]
                                          end)
        | None => None
        end
    | REv e => match aev explicit e a with Some a' => Some [(a', XNorm)] | None => None end
    | RCall t args =>
        match resolve tb c dyn t with
        | [] => Some [(a, XNorm)]
        | cs => acands (fun cd => if shortcut tb ts cd (bind (f_params (snd cd)) args env)
                                  then Some [(a, XNorm); (a, XRaise)]
                                  else rec intr (fst (fst cd)) (snd (fst cd))
                                           (bind (f_params (snd cd)) args env) (f_body (snd cd)) a) cs
        end
    end.

  Fixpoint aexec (f : nat) (intr : bool) (c dyn : string) (env : list (option bool)) (s : rskel) (a : ast)
    : option ares :=
    match f with
    | O => None
    | S f' =>
        match aexec_node (aexec f') intr c dyn env s a with
        | Some R => Some (if intr then aadd (a, XRaise) R else R)
        | None => None
        end
    end.
End AExec.

(* ---------- the decidable check of a table ---------- *)
Definition afuel : nat := 4000.

Definition all_res (ok : ast * rout -> bool) (r : option ares) : bool :=
  match r with Some R => forallb ok R | None => false end.
Definition keeps (a : ast) (p : ast * rout) : bool := ast_eqb (fst p) a.
Definition not_AP (p : ast * rout) : bool := negb (ast_eqb (fst p) AP).
Definition AD_or_raise (p : ast * rout) : bool := rout_eqb (snd p) XRaise || ast_eqb (fst p) AD.
Definition all_ast : list ast := [AU; AP; AD].

(* g leaves the generator status alone: from each status, inside or outside a try, for every possible class
   of self, every path ends in the status it started in.  From AU this means: no generator event at all
   (a seed leaves AU, a draw / get_state in AU is refused). *)
Definition trans_fn (tb : rng_table) (ts : keyset) (g : fn) : bool :=
  forallb (fun d => forallb (fun intr => forallb (fun a =>
     all_res (keeps a) (aexec tb [] ts afuel intr (f_cls g) d (unknown_env g) (f_body g) a))
     all_ast) [false; true]) (dyns_of tb (f_cls g)).
(* every function listed in ts does (calls of functions in ts being skipped: induction on the call depth) *)
Definition trans_ok (tb : rng_table) (ts : keyset) : bool :=
  forallb (fun g => if kmem g ts then trans_fn tb ts g else true) (all_fns tb).

(* ts is computed from the call graph: everything that cannot reach a generator event through calls (how it is
   computed does not matter: trans_ok is checked for the result) *)
Fixpoint has_ev (s : rskel) : bool :=
  match s with
  | REv _ => true
  | RSeq a b | RChoice a b | RIfParam _ a b => has_ev a || has_ev b
  | RLoop b | RClosure b => has_ev b
  | RTry b h e => has_ev b || has_ev h || has_ev e
  | _ => false
  end.
Fixpoint calls_of (s : rskel) : list target :=
  match s with
  | RCall t _ => [t]
  | RSeq a b | RChoice a b | RIfParam _ a b => calls_of a ++ calls_of b
  | RLoop b | RClosure b => calls_of b
  | RTry b h e => calls_of b ++ calls_of h ++ calls_of e
  | _ => []
  end.
Definition callees (tb : rng_table) (g : fn) : list fn :=
  flat_map (fun d => flat_map (fun t => map snd (resolve tb (f_cls g) d t)) (calls_of (f_body g)))
           (dyns_of tb (f_cls g)).
Definition tmem (g : fn) (T : list (string * string)) : bool :=
  existsb (fun q => if String.eqb (fst q) (f_cls g) then String.eqb (snd q) (f_name g) else false) T.
Fixpoint touching (n : nat) (E : list (fn * list fn)) (T : list (string * string)) : list (string * string) :=
  match n with
  | O => T
  | S n' =>
      let T' := T ++ flat_map (fun e => if tmem (fst e) T then []
                                        else if existsb (fun h => tmem h T) (snd e)
                                             then [(f_cls (fst e), f_name (fst e))] else []) E in
      if Nat.eqb (length T') (length T) then T else touching n' E T'
  end.
Definition mk_keyset (tb : rng_table) (pred : fn -> bool) : keyset :=
  (EmptyString, map f_name (filter pred (rt_funs tb)))
  :: map (fun k => (c_name k, map f_name (filter pred (c_fns k)))) (rt_classes tb).
Definition transparent_set (tb : rng_table) : keyset :=
  let E := map (fun g => (g, callees tb g)) (all_fns tb) in
  let T0 := flat_map (fun g => if has_ev (f_body g) then [(f_cls g, f_name g)] else []) (all_fns tb) in
  let T := touching 12 E T0 in
  mk_keyset tb (fun g => negb (tmem g T)).

Fixpoint closures_of (s : rskel) : list rskel :=
  match s with
  | RSeq a b | RChoice a b | RIfParam _ a b => closures_of a ++ closures_of b
  | RLoop b => closures_of b
  | RTry b h e => closures_of b ++ closures_of h ++ closures_of e
  | RClosure b => b :: closures_of b
  | _ => []
  end.
Definition silent_body (tb : rng_table) (ts : keyset) (c dyn : string) (s : rskel) : bool :=
  all_res (keeps AU) (aexec tb [] ts afuel false c dyn [] s AU).
Definition closures_silent (tb : rng_table) (ts : keyset) (g : fn) : bool :=
  forallb (fun b => forallb (fun d => silent_body tb ts (f_cls g) d b) (dyns_of tb (f_cls g)))
          (closures_of (f_body g)).

Local Open Scope string_scope.
(* code that runs without a visible call: properties, module / class bodies, special methods (other than the
   constructors), and every closure (it is run wherever it was passed to) *)
Definition implicit_fn (g : fn) : bool :=
  match f_kind g with
  | FProperty | FToplevel => true
  | FMethod => String.prefix "__" (f_name g)
               && negb (String.eqb (f_name g) "__init__") && negb (String.eqb (f_name g) "__post_init__")
  | FFunction => false
  end.
Definition implicit_silent (tb : rng_table) (ts : keyset) : bool :=
  forallb (fun g => (if implicit_fn g then kmem g ts else true) && closures_silent tb ts g) (all_fns tb).

(* `self.x = C(..)` for a class C of the table and an attribute x listed in attr_class: C is the listed class *)
Definition news_consistent (tb : rng_table) : bool :=
  forallb (fun p => match sfind attr_class (snd (fst p)), find_cls (rt_classes tb) (snd p) with
                    | Some k, Some _ => String.eqb k (snd p)
                    | _, _ => true
                    end) (rt_news tb).

(* the graph classes and the arc- / sequence-based formulation: every method, whatever the class of self *)
Definition silent_classes : list string :=
  ["ArcBasedRoutingProblem"; "SequenceBasedRoutingProblem"; "RoutingProblem"; "VRPTW"; "Node"; "Arc"].
Definition c_mirp := "MIRP".
Definition c_rand := "RandomMIRP".
Definition no_rng_fn (g : fn) : bool :=
  smem (f_cls g) silent_classes
  || (String.eqb (f_cls g) c_mirp
      && (String.eqb (f_name g) "get_arc_based" || String.eqb (f_name g) "get_sequence_based")).
Definition no_rng_ok (tb : rng_table) (ts : keyset) : bool :=
  forallb (fun g => if no_rng_fn g then kmem g ts else true) (all_fns tb).

(* the functions the statements are about must be there *)
Definition required : list (string * string) :=
  [(c_mirp, "get_arc_based"); (c_mirp, "get_path_based"); (c_mirp, "get_sequence_based");
   ("ArcBasedRoutingProblem", "enumerate_variables"); ("ArcBasedRoutingProblem", "build_objective");
   ("ArcBasedRoutingProblem", "build_constraints"); ("ArcBasedRoutingProblem", "make_feasible");
   ("ArcBasedRoutingProblem", "add_time_points");
   ("SequenceBasedRoutingProblem", "enumerate_variables"); ("SequenceBasedRoutingProblem", "build_objective");
   ("SequenceBasedRoutingProblem", "build_linear_constraints");
   ("SequenceBasedRoutingProblem", "build_quadratic_constraints");
   ("SequenceBasedRoutingProblem", "make_feasible");
   ("PathBasedRoutingProblem", "generate_route"); ("PathBasedRoutingProblem", "add_routes_better");
   ("PathBasedRoutingProblem", "make_feasible"); ("", "get_sampled_key");
   (c_rand, "__post_init__"); (c_rand, "get_random_mirp"); (c_rand, "random_mirp_gen"); ("", "sample")].
Definition required_present (tb : rng_table) : bool :=
  forallb (fun p => match find_fn tb (fst p) (snd p) with Some _ => true | None => false end) required.

(* an entry point: method m written in class c, on an object of class c *)
Definition entry_res (tb : rng_table) (explicit : list string) (ts : keyset) (c m : string)
           (env : fn -> list (option bool)) (a : ast) : option ares :=
  match find_fn tb c m with
  | Some g => aexec tb explicit ts afuel false c c (env g) (f_body g) a
  | None => None
  end.
(* parameter p known to be b, the others unknown *)
Definition env_with (p : string) (b : bool) (g : fn) : list (option bool) :=
  map (fun q => if String.eqb (fst q) p then Some b else None) (f_params g).

(* path getter: draws only in status AD (on every path the first generator event is a seed with a literal,
   and no seed(None) / set_state comes before a later draw); it ends untouched (cached) or determined *)
Definition path_entry_ok (tb : rng_table) (ts : keyset) (c m : string) : bool :=
  all_res not_AP (entry_res tb [] ts c m unknown_env AU).
Definition path_ok (tb : rng_table) (ts : keyset) : bool := path_entry_ok tb ts c_mirp "get_path_based".

(* generator class with an explicit seed in self.seed: the constructor seeds on every path; with reset_seed=True
   every draw of get_random_mirp comes after the re-seed; after the constructor, get_random_mirp() and
   random_mirp_gen() draw from a determined state only *)
Definition seed_attr : list string := ["seed"].
Definition first_instance : rskel :=
  RSeq (RCall (TSelf "__post_init__") []) (RCall (TSelf "get_random_mirp") []).
Definition ctor_ok (tb : rng_table) (ts : keyset) (c : string) : bool :=
  all_res AD_or_raise (entry_res tb seed_attr ts c "__post_init__" unknown_env AP).
Definition reseed_ok (tb : rng_table) (ts : keyset) (c : string) : bool :=
  all_res AD_or_raise (entry_res tb seed_attr ts c "get_random_mirp" (env_with "reset_seed" true) AP).
Definition first_ok (tb : rng_table) (ts : keyset) (c : string) : bool :=
  all_res (fun _ => true) (aexec tb seed_attr ts afuel false c c [] first_instance AP).
Definition stream_ok (tb : rng_table) (ts : keyset) (c : string) : bool :=
  all_res (fun _ => true) (entry_res tb seed_attr ts c "random_mirp_gen" unknown_env AD).
Definition random_ok (tb : rng_table) (ts : keyset) (c : string) : bool :=
  ctor_ok tb ts c && reseed_ok tb ts c && first_ok tb ts c && stream_ok tb ts c.
Local Close Scope string_scope.

Definition disciplined_with (tb : rng_table) (ts : keyset) : bool :=
  trans_ok tb ts && required_present tb && news_consistent tb && implicit_silent tb ts && no_rng_ok tb ts
  && path_ok tb ts && random_ok tb ts c_rand.
Definition rng_disciplined (tb : rng_table) : bool := disciplined_with tb (transparent_set tb).

(* ---------- hand-written tables (witnesses for the Examples of genprops/C17_gen.v) ---------- *)
Local Open Scope string_scope.
Definition ex_draw : fn := mkFn "P" "sample_key" FMethod []
  (RTry (REv (EDraw "choice")) (REv (EDraw "choice")) RSkip).
(* variant 0: seed(0); rounds; optional heuristic.  1: the seed is missing.  2: get_state first, set_state
   before the heuristic.  3: seed(None). *)
Definition ex_getter (v : nat) : fn := mkFn "M" "get_path_based" FMethod [("make_feasible", Some true)]
  (rseq [RChoice (RExit XRet) RSkip;
         (match v with 2 => REv EGetState | _ => RSkip end);
         (match v with 1 => RSkip | 3 => REv (ESeed SNone) | _ => REv (ESeed (SConst 0)) end);
         RLoop (RCall (TOther "sample_key") []);
         (match v with 2 => REv ESetState | _ => RSkip end);
         RIfParam 0 (RCall (TOther "sample_key") []) RSkip;
         RExit XRet]).
(* variant 0: seed(self.seed) unconditionally / if reset_seed.  1: only `if self.seed`.  2: a draw before the
   re-seed. *)
Definition ex_init (v : nat) : fn := mkFn "R" "__post_init__" FMethod []
  (match v with 1 => RChoice (REv (ESeed (SAttr "seed"))) RSkip | _ => REv (ESeed (SAttr "seed")) end).
Definition ex_get (v : nat) : fn := mkFn "R" "get_random_mirp" FMethod [("reset_seed", Some false)]
  (rseq [(match v with 2 => RCall (TFun "sample") [] | _ => RSkip end);
         RIfParam 0 (REv (ESeed (SAttr "seed"))) RSkip;
         RCall (TFun "sample") [];
         RExit XRet]).
Definition ex_sample : fn := mkFn "" "sample" FFunction [("size", None)]
  (RChoice (rseq [REv (EDraw "rvs"); RExit XRet]) (RExit XRaise)).
Definition ex_gen : fn := mkFn "R" "random_mirp_gen" FMethod []
  (RLoop (RCall (TSelf "get_random_mirp") [])).
Definition ex_tb (v w : nat) : rng_table :=
  mkRT [ex_sample]
       [mkCls "P" [] false [ex_draw]; mkCls "M" [] false [ex_getter v];
        mkCls "R" [] true [ex_init w; ex_get w; ex_gen]]
       [("M", "helper", "P")].
Local Close Scope string_scope.

(* a toy generator (state = a number; seed z sets it to z; a draw returns the state and increments it) and
   scripted decisions (the k-th decision is the k-th entry), to run `exec` on the hand-written tables *)
Definition toy_seed (s : option Z) (g : Z) : Z := match s with Some z => z | None => (g + 1000)%Z end.
Definition toy_draw (nm : string) (h : hist Z) (g : Z) : Z * Z := (g, (g + 1)%Z).
Fixpoint ndec (h : hist Z) : nat :=
  match h with [] => O | IDec _ :: t => S (ndec t) | IObs _ :: t => ndec t end.
Definition script (l : list bool) (h : hist Z) : bool := nth (ndec h) l false.
Local Open Scope string_scope.
(* observed values (oldest first), final generator state, outcome of M.get_path_based of ex_tb v 0 *)
Definition toy_run (v : nat) (l : list bool) (outside g : Z) : option (list Z * Z * rout) :=
  match find_fn (ex_tb v 0) "M" "get_path_based" with
  | Some gfn =>
      option_map (fun r => (List.rev (obs_of (xh (fst r))), xg (fst r), snd r))
        (exec Z Z toy_seed toy_draw (fun g => g) (script l) (fun _ => None) (ex_tb v 0) (fun _ => outside)
              100 false "M" "M" (unknown_env gfn) (f_body gfn) (mkX g []))
  | None => None
  end.
(* not cached; two rounds of the loop (no exception inside the try); then the heuristic *)
Definition toy_script : list bool :=
  [false; true; false; false; false; true; false; false; false; false; true; false; false; false].
Local Close Scope string_scope.
