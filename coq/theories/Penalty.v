(* Penalty.v -- model of RoutingProblem.get_qubo (routing_problem/routing_problem.py) and of the
   three get_sufficient_penalty methods.  Definitions only.  [C02, C03, C04]

   The model takes the constraint and objective data  (n, m, A, b, R, r, c, Qo)  as inputs (the
   formulation models that produce them are separate files).

   * get_qubo            the assembled matrix and constant as functions over a commutative ring
                         (matrices nat -> nat -> K as in LinAlg.v);
   * choose_rho          `penalty_parameter is None -> sufficient_pp + 1.0`, with
                         sufficient_pp = 0.0 in feasibility mode;
   * get_qubo_checked    the same over dense list data carrying the shapes the implementation
                         reports; every scipy shape test that get_qubo performs is made in the order
                         of the Python code and yields Err ValueError (as does r_eq != 0);
   * penalty, objective  P(x) = |Ax-b|^2 + x'Rx   and  f(x) = c'x + x'Qo x;
   * S_arc, S_path, S_seq  get_sufficient_penalty(False) of the three formulations, from the
                         instance data they read (arc costs, len(time_points), route costs,
                         max_sequence_length, vehicle costs);
   * check_c02case / check_c03case / check_c04case   correspondence checkers. *)
From Coq Require Import ZArith List Bool QArith Qcanon.
From VQ Require Import Base LinAlg.
Import ListNotations.

Section PenaltyGeneric.
  Variables (K : Type) (k0 k1 : K) (kadd kmul ksub : K -> K -> K) (kopp : K -> K).
  Variable keqb : K -> K -> bool.

  Notation "0" := k0.
  Notation "1" := k1.
  Infix "+" := kadd.
  Infix "*" := kmul.
  Infix "-" := ksub.
  Notation "- x" := (kopp x).

  Notation sumK := (sum_n k0 kadd).
  Notation dotK := (dot K k0 kadd kmul).
  Notation qfK := (qf K k0 kadd kmul).

  Definition two : K := 1 + 1.

  (* Q_eq + A'A + diags(-2 * A'b) *)
  Definition pen_matrix (m : nat) (A : mat K) (b : vec K) (R : mat K) : mat K :=
    fun i j => R i j + AtA K k0 kadd kmul m A i j
               + (if Nat.eqb i j then - (two * Atb K k0 kadd kmul m A b i) else 0).

  (* Q_obj + diags(c_obj) *)
  Definition obj_matrix (c : vec K) (Qo : mat K) : mat K :=
    fun i j => Qo i j + (if Nat.eqb i j then c i else 0).

  (* Q = rho * (R + A'A - 2 diag(A'b))  [+ Qo + diag(c) unless feasibility],  constant = rho * b'b *)
  Definition get_qubo (m : nat) (feas : bool) (rho : K)
             (con : mat K * vec K * mat K) (obj : vec K * mat K) : mat K * K :=
    match con, obj with
    | (A, b, R), (c, Qo) =>
        (fun i j => rho * pen_matrix m A b R i j + (if feas then 0 else obj_matrix c Qo i j),
         rho * dotK m b b)
    end.

  (* get_sufficient_penalty(feasibility): 0.0 in feasibility mode, the formulation's S otherwise *)
  Definition sufficient (feas : bool) (S : K) : K := if feas then 0 else S.

  (* if penalty_parameter is None: penalty_parameter = sufficient_pp + 1.0 *)
  Definition choose_rho (feas : bool) (S : K) (pp : option K) : K :=
    match pp with
    | None => sufficient feas S + 1
    | Some r => r
    end.

  (* x'Qx + constant *)
  Definition qubo_value (n : nat) (Qk : mat K * K) (x : vec K) : K := qfK n (fst Qk) x + snd Qk.

  (* P(x) = |Ax-b|^2 + x'Rx *)
  Definition penalty (m n : nat) (A : mat K) (b : vec K) (R : mat K) (x : vec K) : K :=
    resid_sq K k0 kadd kmul ksub m n A b x + qfK n R x.

  (* f(x) = c'x + x'Qo x *)
  Definition objective (n : nat) (c : vec K) (Qo : mat K) (x : vec K) : K :=
    dotK n c x + qfK n Qo x.

  (* ---------- dense list data ---------- *)
  Definition vec_of (l : list K) : vec K := fun i => nth i l 0.
  Definition mat_of (l : list (list K)) : mat K := fun i j => nth j (nth i l []) 0.
  Definition vec_tab (n : nat) (v : vec K) : list K := map v (seq O n).
  Definition mat_tab (r c : nat) (M : mat K) : list (list K) :=
    map (fun i => map (fun j => M i j) (seq O c)) (seq O r).

  (* what get_constraint_data() and get_objective_data() return, densified, with the shapes the
     containers report *)
  Record qdata := mkQdata {
    dA : list (list K); dA_shape : nat * nat;
    db : list K;
    dR : list (list K); dR_shape : nat * nat;
    dr : K;                                            (* r_eq *)
    dc : list K;
    dQo : list (list K); dQo_shape : nat * nat }.

  (* get_qubo with the shape tests of the sparse operations, in program order:
       r_eq != 0                       -> ValueError
       A'.dot(b)                       needs  rows(A) = len(b)
       Q_eq + A'A + diags(..)          needs  shape(Q_eq) = (cols(A), cols(A))
       Q_obj + diags(c_obj)            needs  shape(Q_obj) = (len(c), len(c))      (optimisation mode)
       Q += ...                        needs  len(c) = cols(A)                     (optimisation mode)
     result: (number of rows = columns of Q, dense Q, constant) *)
  Definition get_qubo_checked (feas : bool) (rho : K) (d : qdata)
    : result (nat * list (list K) * K) :=
    let ra := fst (dA_shape d) in
    let ca := snd (dA_shape d) in
    let lc := length (dc d) in
    let Qk := get_qubo ra feas rho (mat_of (dA d), vec_of (db d), mat_of (dR d))
                       (vec_of (dc d), mat_of (dQo d)) in
    if negb (keqb (dr d) 0) then Err ValueError
    else if negb (Nat.eqb ra (length (db d))) then Err ValueError
    else if negb (natpair_eqb (dR_shape d) (ca, ca)) then Err ValueError
    else if feas then Ok (ca, mat_tab ca ca (fst Qk), snd Qk)
    else if negb (natpair_eqb (dQo_shape d) (lc, lc)) then Err ValueError
    else if negb (Nat.eqb lc ca) then Err ValueError
    else Ok (ca, mat_tab ca ca (fst Qk), snd Qk).

  (* get_qubo(feasibility, penalty_parameter) of an object whose get_sufficient_penalty(False) is S *)
  Definition get_qubo_impl (feas : bool) (pp : option K) (S : K) (d : qdata) :=
    get_qubo_checked feas (choose_rho feas S pp) d.

  (* the shapes are the ones a model with n variables must report *)
  Definition shapes_consistent (n : nat) (d : qdata) : Prop :=
    dA_shape d = (length (db d), n) /\ dR_shape d = (n, n) /\
    dQo_shape d = (n, n) /\ length (dc d) = n.
End PenaltyGeneric.

Arguments dA {K} _. Arguments dA_shape {K} _. Arguments db {K} _. Arguments dR {K} _.
Arguments dR_shape {K} _. Arguments dr {K} _. Arguments dc {K} _. Arguments dQo {K} _.
Arguments dQo_shape {K} _.
Arguments mkQdata {K}.

(* ================= instances ================= *)
Open Scope Z_scope.

Notation sumZn := (sum_n 0%Z Z.add).
Definition Zdot := dot Z 0 Z.add Z.mul.
Definition Zqf := qf Z 0 Z.add Z.mul.
Definition Zmv := mv Z 0 Z.add Z.mul.
Definition Zbinary := binary Z 0 1.
Definition Zget_qubo := get_qubo Z 0 1 Z.add Z.mul Z.opp.
Definition Zchoose_rho := choose_rho Z 0 1 Z.add.
Definition Zqubo_value := qubo_value Z 0 Z.add Z.mul.
Definition Zpenalty := penalty Z 0 Z.add Z.mul Z.sub.
Definition Zobjective := objective Z 0 Z.add Z.mul.
Definition Zget_qubo_checked := get_qubo_checked Z 0 1 Z.add Z.mul Z.opp Z.eqb.
Definition Zget_qubo_impl := get_qubo_impl Z 0 1 Z.add Z.mul Z.opp Z.eqb.
Definition Zvec_of := vec_of Z 0.
Definition Zmat_of := mat_of Z 0.

Definition Qc0 : Qc := Q2Qc 0.
Definition Qc1 : Qc := Q2Qc 1.
Definition Qcget_qubo := get_qubo Qc Qc0 Qc1 Qcplus Qcmult Qcopp.
Definition Qcget_qubo_impl := get_qubo_impl Qc Qc0 Qc1 Qcplus Qcmult Qcopp Qc_eq_bool.

(* feasible set of the constrained 0-1 program:  A x = b  and  x'Rx = 0 *)
Definition Zfeasible (m n : nat) (A : mat Z) (b : vec Z) (R : mat Z) (x : vec Z) : Prop :=
  (forall k, (k < m)%nat -> Zmv n A x k = b k) /\ Zqf n R x = 0.

(* ================= sufficient penalties (get_sufficient_penalty(False)) ================= *)
Definition sumZ (l : list Z) : Z := fold_right Z.add 0 l.

(* arc:  sum(fabs(arc.cost) for arc in arcs.values()) * len(time_points)**2 *)
Definition S_arc (costs : list Z) (nT : nat) : Z :=
  sumZ (map Z.abs costs) * (Z.of_nat nT * Z.of_nat nT).

(* path:  sum(fabs(cost) for cost in route_costs) *)
Definition S_path (route_costs : list Z) : Z := sumZ (map Z.abs route_costs).

(* sequence:  max_sequence_length * sum(fabs(arc.cost + v_cost) for arc in arcs.values()
                                                                  for v_cost in vehicle_cost) *)
Definition S_seq (L : Z) (costs vcs : list Z) : Z :=
  L * sumZ (flat_map (fun a => map (fun v => Z.abs (a + v)) vcs) costs).

(* sum of the absolute values of all objective coefficients *)
Definition coeff_sum (n : nat) (c : vec Z) (Qo : mat Z) : Z :=
  sumZn n (fun i => Z.abs (c i)) + sumZn n (fun i => sumZn n (fun j => Z.abs (Qo i j))).

(* ---------- abstract structure of the objective coefficients ---------- *)
(* arc model: variable k is (arc index, s, t); objective[k] = cost of its arc *)
Definition avar := (nat * Z * Z)%type.
Definition avar_arc (v : avar) : nat := fst (fst v).
Definition arc_obj (costs : list Z) (vars : list avar) : vec Z :=
  fun k => nth (avar_arc (nth k vars (O, 0, 0))) costs 0.

(* sequence model: every (vehicle, position, arc) triple contributes  cost(arc) + vehicle_cost(v)
   either to one linear coefficient (multiplied by the value 0/1 of the fixed partner variable) or
   to one entry of the quadratic objective *)
Definition triple := (nat * nat * nat)%type.            (* (vi, si, arc index) *)
Definition tr_weight (costs vcs : list Z) (t : triple) : Z :=
  match t with (v, _, a) => nth a costs 0 + nth v vcs 0 end.
Definition lin_entry := (nat * triple * Z)%type.         (* (variable, triple, fixed value) *)
Definition quad_entry := ((nat * nat) * triple)%type.    (* ((row, col), triple) *)

Definition seq_c (costs vcs : list Z) (lin : list lin_entry) : vec Z :=
  fun i => sumZ (map (fun e => match e with (k, t, fv) =>
                          if Nat.eqb k i then tr_weight costs vcs t * fv else 0 end) lin).
Definition seq_Qo (costs vcs : list Z) (quad : list quad_entry) : mat Z :=
  fun i j => sumZ (map (fun e => match e with (k, t) =>
                          if natpair_eqb k (i, j) then tr_weight costs vcs t else 0 end) quad).

(* ================= correspondence checkers ================= *)
(* --- helpers --- *)
Definition Zmat_eqb := list_eqb (list_eqb Z.eqb).
Definition Qcmat_eqb := list_eqb (list_eqb Qc_eq_bool).
Definition qcZ (z : Z) : Qc := Q2Qc (inject_Z z).
Definition qcF (num : Z) (den : positive) : Qc := Q2Qc (num # den).

Definition qdata_qc (d : qdata Z) : qdata Qc :=
  mkQdata (map (map qcZ) (dA d)) (dA_shape d) (map qcZ (db d))
          (map (map qcZ) (dR d)) (dR_shape d) (qcZ (dr d))
          (map qcZ (dc d)) (map (map qcZ) (dQo d)) (dQo_shape d).

(* what the implementation returned: Ok (Q.shape, numerators of Q, numerator of k, common
   denominator)  or the exception class *)
Definition qout := result ((nat * nat) * list (list Z) * Z * positive).

(* tags: 1 Ok/Err (or error class) differs, 2 shape, 3 matrix, 4 constant *)
Definition cmp_qc (model : result (nat * list (list Qc) * Qc)) (impl : qout) : list nat :=
  match model, impl with
  | Err e, Err f => chk 1 (errcls_eqb e f)
  | Ok (n, Q, k), Ok (sh, Qn, kn, den) =>
      chk 2 (natpair_eqb sh (n, n)) ++
      chk 3 (Qcmat_eqb Q (map (map (fun z => qcF z den)) Qn)) ++
      chk 4 (Qc_eq_bool k (qcF kn den))
  | _, _ => [1%nat]
  end.

Definition cmp_z (model : result (nat * list (list Z) * Z)) (impl : qout) : list nat :=
  match model, impl with
  | Err e, Err f => chk 1 (errcls_eqb e f)
  | Ok (n, Q, k), Ok (sh, Qn, kn, den) =>
      chk 2 (natpair_eqb sh (n, n)) ++
      chk 5 (Pos.eqb den 1) ++
      chk 3 (Zmat_eqb Q Qn) ++
      chk 4 (Z.eqb k kn)
  | _, _ => [1%nat]
  end.

(* --- C02: one instance, several (feasibility, penalty_parameter) configurations ---
   penalty_parameter is None or a rational num/den; S is get_sufficient_penalty(False) as the
   implementation reports it.  The tags of configuration number i are shifted by 10*i. *)
Definition c02cfg := (bool * option (Z * positive) * qout)%type.
Definition c02case := (qdata Z * Z * list c02cfg)%type.

Fixpoint c02_cfgs (d : qdata Qc) (Sp : Qc) (i : nat) (l : list c02cfg) : list nat :=
  match l with
  | [] => []
  | (feas, pp, out) :: l' =>
      map (fun t => (10 * i + t)%nat)
          (cmp_qc (Qcget_qubo_impl feas (option_map (fun p => qcF (fst p) (snd p)) pp) Sp d) out)
      ++ c02_cfgs d Sp (S i) l'
  end.

Definition check_c02case (c : c02case) : list nat :=
  match c with
  | (d, Sp, cfgs) => c02_cfgs (qdata_qc d) (qcZ Sp) O cfgs
  end.

(* --- all binary vectors of length n (as lists), first coordinate varying slowest --- *)
Fixpoint all_bin (n : nat) : list (list Z) :=
  match n with
  | O => [[]]
  | S n' => map (cons 0) (all_bin n') ++ map (cons 1) (all_bin n')
  end.

Definition countb {A} (p : A -> bool) (l : list A) : Z :=
  fold_right (fun a acc => if p a then acc + 1 else acc) 0 l.

Definition feasibleb (m n : nat) (A : mat Z) (b : vec Z) (R : mat Z) (x : vec Z) : bool :=
  forallb (fun k => Zmv n A x k =? b k) (seq O m) && (Zqf n R x =? 0).

(* --- C03: feasibility mode, default penalty ---
   impl: get_qubo(feasibility=True) output, number of binary vectors with value 0 (None when n is
   too large for the sweep).  Tags 1-5 as cmp_z; 6: the model's number of zero-value vectors differs;
   7: the model's zero set is not the feasible set of (A, b, R) (cannot fire if C03_zero_iff holds and
   R >= 0: kept as a cross-check of the evaluated terms). *)
Definition c03case := (qdata Z * Z * qout * option Z)%type.

Definition check_c03case (c : c03case) : list nat :=
  match c with
  | (d, Sp, out, zeros) =>
      let n := snd (dA_shape d) in
      let m := fst (dA_shape d) in
      let A := Zmat_of (dA d) in let b := Zvec_of (db d) in let R := Zmat_of (dR d) in
      let Qk := Zget_qubo m true (Zchoose_rho true Sp None) (A, b, R) (Zvec_of (dc d), Zmat_of (dQo d)) in
      cmp_z (Zget_qubo_impl true None Sp d) out ++
      match zeros with
      | None => []
      | Some z =>
          let xs := map Zvec_of (all_bin n) in
          chk 6 (countb (fun x => Zqubo_value n Qk x =? 0) xs =? z) ++
          chk 7 (forallb (fun x => Bool.eqb (Zqubo_value n Qk x =? 0) (feasibleb m n A b R x)) xs)
      end
  end.

(* --- C04: optimisation mode, default penalty --- *)
Inductive sdata :=
| SArc (costs : list Z) (grid : list Z) (vars : list avar)
| SPath (route_costs : list Z)
| SSeq (L : Z) (V : nat) (costs vcs : list Z) (lin : list lin_entry) (quad : list quad_entry).

Definition S_model (s : sdata) : Z :=
  match s with
  | SArc costs grid _ => S_arc costs (length grid)
  | SPath rc => S_path rc
  | SSeq L _ costs vcs _ _ => S_seq L costs vcs
  end.

Definition avar_eqb (a b : avar) : bool :=
  match a, b with (i, s, t), (i', s', t') => Nat.eqb i i' && (s =? s') && (t =? t') end.
Definition triple_eqb (a b : triple) : bool :=
  match a, b with (v, s, k), (v', s', k') => Nat.eqb v v' && Nat.eqb s s' && Nat.eqb k k' end.
Definition memZ (x : Z) (l : list Z) : bool := existsb (Z.eqb x) l.

Fixpoint nodupb {A} (eqb : A -> A -> bool) (l : list A) : bool :=
  match l with
  | [] => true
  | x :: l' => negb (existsb (eqb x) l') && nodupb eqb l'
  end.

(* the hypotheses of C04_S_arc / C04_S_seq in decidable form *)
Definition arc_struct_ok (costs : list Z) (grid : list Z) (vars : list avar) : bool :=
  nodupb avar_eqb vars &&
  forallb (fun v => match v with (a, s, t) =>
             Nat.ltb a (length costs) && memZ s grid && memZ t grid end) vars.

Definition triple_ok (L : Z) (V na : nat) (t : triple) : bool :=
  match t with (v, si, a) => Nat.ltb v V && (Z.of_nat si + 1 <? L) && Nat.ltb a na end.

Definition seq_struct_ok (L : Z) (V : nat) (costs vcs : list Z)
           (lin : list lin_entry) (quad : list quad_entry) : bool :=
  let ts := map (fun e : lin_entry => snd (fst e)) lin ++ map (fun e : quad_entry => snd e) quad in
  Nat.eqb (length vcs) V && nodupb triple_eqb ts &&
  forallb (triple_ok L V (length costs)) ts &&
  forallb (fun e : lin_entry => (0 <=? snd e) && (snd e <=? 1)) lin.

(* tags: 1-5 cmp_z of the default-penalty QUBO built with rho = S_model + 1;
   6: S reported by the implementation differs from S_arc / S_path / S_seq of the instance data;
   7: the structural hypotheses of the counting lemma fail on this instance;
   8: the reported objective is not the one the structure describes;
   9: sum of |objective coefficients| exceeds S *)
Definition c04case := (sdata * Z * qdata Z * qout)%type.

Definition check_c04case (c : c04case) : list nat :=
  match c with
  | (s, S_impl, d, out) =>
      let n := snd (dA_shape d) in
      let Sp := S_model s in
      let cv := Zvec_of (dc d) in let Qo := Zmat_of (dQo d) in
      cmp_z (Zget_qubo_impl false None Sp d) out ++
      chk 6 (Sp =? S_impl) ++
      match s with
      | SArc costs grid vars =>
          chk 7 (arc_struct_ok costs grid vars && Nat.eqb (length vars) n) ++
          chk 8 (list_eqb Z.eqb (vec_tab Z n (arc_obj costs vars)) (dc d) &&
                 Zmat_eqb (mat_tab Z n n (fun _ _ => 0)) (mat_tab Z n n Qo))
      | SPath rc =>
          chk 8 (list_eqb Z.eqb rc (dc d) && Zmat_eqb (mat_tab Z n n (fun _ _ => 0)) (mat_tab Z n n Qo))
      | SSeq L V costs vcs lin quad =>
          chk 7 (seq_struct_ok L V costs vcs lin quad) ++
          chk 8 (list_eqb Z.eqb (vec_tab Z n (seq_c costs vcs lin)) (dc d) &&
                 Zmat_eqb (mat_tab Z n n (seq_Qo costs vcs quad)) (mat_tab Z n n Qo))
      end ++
      chk 9 (coeff_sum n cv Qo <=? Sp)
  end.
