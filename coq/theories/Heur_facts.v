(* Heur_facts.v -- facts about the feasibility heuristics of Heur.v.  [C09]
   Part 1: the path-based heuristic: postcondition for every draw oracle and every naming function. *)
From Coq Require Import ZArith List Bool Lia ZifyBool.
From VQ Require Import Base LinAlg Vrptw Vrptw_facts Path Path_facts Penalty Penalty_facts Heur.
Import ListNotations.
Open Scope Z_scope.

(* ================= generic: a feasible binary vector has QUBO value 0 / objective ================= *)
Theorem feasible_qubo_value n m A b R c Qo rho (feas : bool) x :
  Zbinary n x -> Zfeasible m n A b R x ->
  Zqubo_value n (Zget_qubo m feas rho (A, b, R) (c, Qo)) x = if feas then 0 else Zobjective n c Qo x.
Proof.
  intros Hb [HA HR]. unfold Zqubo_value, Zget_qubo.
  rewrite (get_qubo_identity Z 0 1 Z.add Z.mul Z.sub Z.opp Zth n m A b R c Qo rho feas x Hb).
  apply resid_sq_zero_iff in HA. unfold Zqf in HR.
  unfold penalty. rewrite HA, HR. unfold Zobjective. destruct feas; lia.
Qed.

(* ================= list helpers ================= *)
Lemma remove_first_spec x l l' :
  remove_first x l = Some l' ->
  In x l /\ (forall y, In y l' -> In y l) /\ (forall y, y <> x -> In y l -> In y l') /\
  (NoDup l -> NoDup l' /\ ~ In x l').
Proof.
  revert l'. induction l as [|y l IH]; simpl; intros l'; [discriminate|].
  destruct (Nat.eqb_spec x y) as [->|Hne].
  - intros H; inversion H; subst. repeat split; auto.
    + intros z Hz [E|Hin]; auto. congruence.
    + inversion H0; auto.
    + inversion H0; auto.
  - destruct (remove_first x l) as [l1|] eqn:E; simpl; [|discriminate].
    intros H; inversion H; subst; clear H.
    destruct (IH l1 eq_refl) as (A & B & C & D). repeat split.
    + auto.
    + intros z [<-|Hz]; auto.
    + intros z Hz [<-|Hin]; simpl; auto.
    + inversion H; subst. destruct (D H3) as [D1 D2]. constructor; auto.
    + inversion H; subst. destruct (D H3) as [D1 D2]. intros [E1|E1]; [congruence|auto].
Qed.

Lemma remove_customers_spec r : forall unv unv',
  remove_customers r unv = Ok unv' -> NoDup unv ->
  NoDup unv' /\
  (forall k, In k r -> k <> O -> In k unv /\ ~ In k unv') /\
  (forall k, ~ In k r -> (In k unv' <-> In k unv)) /\
  (forall k, In k unv' -> In k unv) /\
  (In O unv -> In O unv').
Proof.
  induction r as [|n r IH]; simpl; intros unv unv' H Hnd.
  - inversion H; subst. repeat split; auto; tauto.
  - destruct (Nat.eqb_spec n 0) as [->|Hn].
    + destruct (IH _ _ H Hnd) as (A & B & C & D & E). repeat split; auto.
      * destruct H0 as [<-|Hin]; [congruence|]. apply (B k Hin H1).
      * destruct H0 as [<-|Hin]; [congruence|]. apply (B k Hin H1).
      * intros Hk. apply C; auto.
      * intros Hk. apply C; auto.
    + destruct (remove_first n unv) as [u1|] eqn:E1; [|discriminate].
      destruct (remove_first_spec _ _ _ E1) as (R1 & R2 & R3 & R4).
      destruct (R4 Hnd) as [R5 R6].
      destruct (IH _ _ H R5) as (A & B & C & D & E). repeat split; auto.
      * destruct H0 as [<-|Hin]; auto. apply R2. apply (B k Hin H1).
      * destruct H0 as [<-|Hin]; [|apply (B k Hin H1)]. intros Hk. apply R6. apply D; auto.
      * intros Hk. apply R2. apply C; auto.
      * intros Hk. apply C; auto. apply R3; auto. intros ->. apply H0; auto.
      * intros Hk. apply E. apply R3; auto.
Qed.

(* number of routes of a list (with multiplicity) that pass through node k *)
Definition occ (k : nat) (routes : list (list nat)) : nat := length (filter (fun r => memb k r) routes).

Lemma occ_snoc k routes r : occ k (routes ++ [r]) = (occ k routes + (if memb k r then 1 else 0))%nat.
Proof. unfold occ. rewrite filter_app, app_length. simpl. destruct (memb k r); reflexivity. Qed.

Lemma occ_zero k routes : (forall r, In r routes -> ~ In k r) -> occ k routes = O.
Proof.
  unfold occ. induction routes as [|r rs IH]; simpl; auto. intros H.
  destruct (memb k r) eqn:E.
  - apply memb_In in E. exfalso. apply (H r); auto.
  - apply IH. intros r' Hr'. apply H; auto.
Qed.

Lemma filter_one {A} (p : A -> bool) l :
  length (filter p l) = 1%nat ->
  exists r0, In r0 l /\ p r0 = true /\ forall r, In r l -> p r = true -> r = r0.
Proof.
  intros H. destruct (filter p l) as [|r0 [|r1 t]] eqn:E; try discriminate.
  assert (H0 : In r0 (filter p l)) by (rewrite E; left; reflexivity).
  apply filter_In in H0. exists r0. split; [tauto|]. split; [tauto|].
  intros r Hr Hp. assert (H1 : In r (filter p l)) by (apply filter_In; auto).
  rewrite E in H1. destruct H1 as [<-|[]]. reflexivity.
Qed.

Lemma sumZ_unique {A} (g : A -> Z) (P : list A) r0 :
  NoDup P -> In r0 P -> g r0 = 1 -> (forall r, In r P -> r <> r0 -> g r = 0) -> sumZ (map g P) = 1.
Proof.
  induction P as [|a P IH]; simpl; intros Hnd Hin H1 H0; [tauto|].
  inversion Hnd; subst. fold (sumZ (map g P)). destruct Hin as [->|Hin].
  - rewrite H1. assert (sumZ (map g P) = 0); [|lia].
    clear IH. induction P as [|b P IHP]; simpl; auto. fold (sumZ (map g P)).
    rewrite (H0 b); [|simpl; auto|intros ->; apply H2; simpl; auto].
    rewrite IHP; auto.
    + intros Hc. apply H2. simpl; auto.
    + inversion H3; auto.
    + constructor; [intros Hc; apply H2; simpl; auto | inversion H3; auto].
    + intros r Hr. apply H0. simpl in *. tauto.
  - rewrite (H0 a); [|auto|intros ->; auto]. rewrite IH; auto.
Qed.

(* ================= list.index on routes, the solution vector ================= *)
Lemma route_index_Some r rs i : route_index r rs = Some i -> nth_error rs i = Some r.
Proof.
  revert i. induction rs as [|s rs IH]; simpl; intros i; [discriminate|].
  destruct (list_eqb Nat.eqb r s) eqn:E.
  - apply list_eqb_nat_eq in E. subst. intros H; inversion H; reflexivity.
  - destruct (route_index r rs) as [j|]; simpl; [|discriminate].
    intros H; inversion H; subst. simpl. apply IH. reflexivity.
Qed.

Lemma route_index_In r rs : In r rs -> exists i, route_index r rs = Some i.
Proof.
  induction rs as [|s rs IH]; simpl; [tauto|].
  destruct (list_eqb Nat.eqb r s) eqn:E; [eauto|].
  intros [->|H].
  - assert (list_eqb Nat.eqb r r = true) by (apply list_eqb_nat_eq; reflexivity). congruence.
  - destruct (IH H) as [i ->]. simpl. eauto.
Qed.

Definition is01 (v : Z) : Prop := v = 0 \/ v = 1.

Lemma Forall_set_nth {A} (P : A -> Prop) i v l : Forall P l -> P v -> Forall P (set_nth i v l).
Proof.
  revert i. induction l as [|a l IH]; intros [|i] H Hv; simpl; auto; inversion H; subst; constructor; auto.
Qed.

Lemma mark_spec routes : forall stored x0 x,
  mark routes stored x0 = Ok x -> NoDup stored -> length x0 = length stored ->
  Forall is01 x0 ->
  length x = length stored /\ Forall is01 x /\
  (forall r, In r routes -> In r stored) /\
  forall j r, nth_error stored j = Some r ->
    (In r routes -> nth j x 0 = 1) /\ (~ In r routes -> nth j x 0 = nth j x0 0).
Proof.
  induction routes as [|r0 rs IH]; simpl; intros stored x0 x H Hnd Hlen H01.
  - inversion H; subst. repeat split; auto; tauto.
  - destruct (route_index r0 stored) as [i|] eqn:Ei; [|discriminate].
    pose proof (route_index_Some _ _ _ Ei) as Hi.
    assert (Hlt : (i < length stored)%nat) by (eapply nth_error_lt; eauto).
    destruct (IH stored (set_nth i 1 x0) x H Hnd) as (A & B & C & D).
    { rewrite set_nth_length. exact Hlen. }
    { apply Forall_set_nth; auto. right; reflexivity. }
    split; [exact A|]. split; [exact B|]. split.
    { intros r [<-|Hr]; auto. eapply nth_error_In; eauto. }
    intros j r Hj. destruct (D j r Hj) as [D1 D2]. split.
    + intros [->|Hr]; auto.
      destruct (in_dec (list_eq_dec Nat.eq_dec) r rs) as [Hin|Hnin]; auto.
      rewrite (D2 Hnin).
      assert (j = i). { eapply (proj1 (NoDup_nth_error stored) Hnd); [eapply nth_error_lt; eauto|congruence]. }
      subst j. apply nth_set_nth_same. lia.
    + intros Hn. rewrite D2 by tauto.
      apply nth_set_nth_other. intros ->. apply Hn. left. congruence.
Qed.

(* ================= one add_route call on an index list ================= *)
Lemma add_route_ix st r st1 r' feas added :
  PInv st -> add_route st (map ix r) = (st1, r', Ok (feas, added)) ->
  PInv st1 /\ pg st1 = pg st /\ pcap st1 = pcap st /\ pinit st1 = pinit st /\
  (forall s, In s (proutes st) -> In s (proutes st1)) /\
  (feas = true -> valid_route st r /\ in_range st r /\ In r (proutes st1)) /\
  (feas = false -> st1 = st).
Proof.
  intros HP H. pose proof (pi_graph _ HP) as HI.
  destruct (add_route_spec _ _ _ _ _ _ HI H) as (Hf & Ha & Hadd & Hnot).
  assert (Hres : resolve (pg st) (map ix r) = Some r) by apply resolve_map_ix.
  destruct added.
  - destruct (Hadd eq_refl) as (idxs & Hr & Hin & Hv & Hn & -> & _).
    rewrite Hres in Hr. inversion Hr; subst idxs.
    split; [apply PInv_stored; auto|]. simpl. repeat split; auto.
    + intros s Hs. apply in_app_iff; auto.
    + apply in_app_iff; right; left; reflexivity.
    + intros ->. destruct Ha as [Ha _]. destruct (Ha eq_refl); discriminate.
  - rewrite (Hnot eq_refl). repeat split; auto.
    intros ->. destruct Hf as [Hf _]. destruct (Hf eq_refl) as (idxs & Hr & Hv).
    rewrite Hres in Hr. inversion Hr; subst idxs.
    assert (Hir : in_range st r) by (apply valid_route_in_range; auto).
    repeat split; auto.
    destruct (in_dec (list_eq_dec Nat.eq_dec) r (proutes st)) as [Hin|Hnin]; auto.
    exfalso. destruct Ha as [_ Ha]. assert (false = true); [|discriminate].
    apply Ha. split; auto. intros idxs Hr'. rewrite Hres in Hr'. inversion Hr'; subst. exact Hnin.
Qed.

(* ================= the invariant of the two loops ================= *)
(* routes chosen so far are stored, and every customer k (0 < k < #nodes) lies on exactly one of them
   unless it is still in the list of customers to serve, in which case it lies on none *)
Record Good (st : pstate) (routes : list (list nat)) (us : list nat) : Prop := {
  gd_inv : PInv st;
  gd_stored : forall r, In r routes -> In r (proutes st);
  gd_nodup : NoDup us;
  gd_occ : forall k, (0 < k < length (nodes (pg st)))%nat ->
           occ k routes = if memb k us then O else 1%nat
}.

Section PathFacts.
  Variable choose : kvdict -> nat.
  Variable dum_name : nat -> nat -> nat.

  Lemma arb_loop_good k : forall st nc unv routes st1 unv1 routes1,
    arb_loop choose k st nc unv routes = Ok (st1, unv1, routes1) ->
    Good st routes unv ->
    Good st1 routes1 unv1 /\ pg st1 = pg st /\ pcap st1 = pcap st /\ pinit st1 = pinit st /\
    (In O unv -> In O unv1) /\ (forall x, In x unv1 -> In x unv).
  Proof.
    induction k as [|k IH]; simpl; intros st nc unv routes st1 unv1 routes1 H HG.
    - inversion H; subst. repeat split; auto.
    - destruct (generate_route choose st nc unv) as [r|e]; [|discriminate].
      destruct (add_route st (map ix r)) as [[st2 r'] [[feas added]|e]] eqn:Ea; [|discriminate].
      destruct HG as [G1 G2 G3 G4].
      destruct (add_route_ix _ _ _ _ _ _ G1 Ea) as (P2 & Eg & Ec & Ei & Hmono & Hfeas & Hnf).
      destruct feas.
      + destruct (remove_customers r unv) as [unv2|e] eqn:Er; [|discriminate].
        destruct (Hfeas eq_refl) as (Hv & Hir & Hin).
        destruct (remove_customers_spec _ _ _ Er G3) as (R1 & R2 & R3 & R4 & R5).
        destruct (IH _ _ _ _ _ _ _ H) as (HG' & E1 & E2 & E3 & E4 & E5).
        { constructor; auto.
          - intros s Hs. apply in_app_iff in Hs. destruct Hs as [Hs|[<-|[]]]; auto.
          - rewrite Eg. intros k0 Hk0. rewrite occ_snoc, (G4 k0 Hk0).
            destruct (memb k0 r) eqn:Em.
            + apply memb_In in Em. destruct (R2 k0 Em ltac:(lia)) as [Hu Hu'].
              apply memb_In in Hu. rewrite Hu. apply memb_false_notIn in Hu'. rewrite Hu'. reflexivity.
            + apply memb_false_notIn in Em. specialize (R3 k0 Em).
              destruct (memb k0 unv) eqn:E1; destruct (memb k0 unv2) eqn:E2; try reflexivity; exfalso.
              * apply memb_In in E1. apply R3 in E1. apply memb_In in E1. congruence.
              * apply memb_In in E2. apply R3 in E2. apply memb_In in E2. congruence. }
        repeat split; auto; try congruence.
      + rewrite (Hnf eq_refl) in *.
        destruct (IH _ _ _ _ _ _ _ H) as (HG' & E1 & E2 & E3 & E4 & E5); [constructor; auto|].
        repeat split; auto.
  Qed.

  (* ---------- one dummy node ---------- *)
  Lemma index_of_snoc_new x l : ~ In x l -> index_of x (l ++ [x]) = Some (length l).
  Proof.
    induction l as [|y l IH]; simpl; intros H.
    - rewrite Nat.eqb_refl. reflexivity.
    - destruct (Nat.eqb_spec x y) as [->|Hne]; [exfalso; auto|].
      rewrite IH by tauto. reflexivity.
  Qed.

  Lemma Inv_names_length g : Inv g -> length (names g) = length (nodes g).
  Proof. intros H. rewrite (inv_aligned _ H), map_length. reflexivity. Qed.

  Lemma mf_dummy_spec st high dn u st' r :
    mf_dummy dum_name st high dn u = Ok (st', r) -> PInv st ->
    let n := length (nodes (pg st)) in
    length (nodes (pg st')) = S n /\ r = [O; n; u; O] /\ PInv st' /\ In r (proutes st') /\
    pcap st' = pcap st /\ pinit st' = pinit st /\
    (forall s, In s (proutes st) -> In s (proutes st')) /\
    (exists d, nodes (pg st') = nodes (pg st) ++ [d]) /\ names (pg st') = names (pg st) ++ [nname (last (nodes (pg st')) dummy_node)].
  Proof.
    unfold mf_dummy. intros H HP n. pose proof (pi_graph _ HP) as HI.
    destruct (fresh_name dum_name (names (pg st)) u 0 (S (length (names (pg st))))) as [nm|]; [|discriminate].
    destruct (add_node (pg st) nm (- new_node_loading st u) 0 PInf) as [g1|e] eqn:E1; [|discriminate].
    destruct (index_of nm (names g1)) as [ni|] eqn:Eni; [|discriminate].
    destruct (nth_error (names g1) u) as [un|]; [|discriminate].
    destruct (add_arc g1 dn nm 0 high) as [[g2 b2]|e] eqn:E2; [|discriminate].
    destruct (add_arc g2 nm un 0 high) as [[g3 b3]|e] eqn:E3; [|discriminate].
    assert (HI1 : Inv g1) by (eapply add_node_inv; eauto).
    assert (HI2 : Inv g2) by (eapply add_arc_gen_inv; eauto).
    assert (HI3 : Inv g3) by (eapply add_arc_gen_inv; eauto).
    destruct (add_node_nodes _ _ _ _ _ _ E1) as [N1 _].
    pose proof (add_arc_nodes _ _ _ _ _ _ _ E2) as N2.
    pose proof (add_arc_nodes _ _ _ _ _ _ _ E3) as N3.
    assert (Hnames1 : names g1 = names (pg st) ++ [nm] /\ ~ In nm (names (pg st))).
    { revert E1. unfold add_node. destruct (memb nm (names (pg st))) eqn:Em; [discriminate|].
      destruct (negb (window_ok 0 PInf)); [discriminate|]. intros E; inversion E; subst; simpl.
      split; auto. apply memb_false_notIn. exact Em. }
    destruct Hnames1 as [Hn1 Hfresh].
    assert (Hni : ni = n).
    { rewrite Hn1, (index_of_snoc_new _ _ Hfresh) in Eni. inversion Eni.
      unfold n. symmetry. apply Inv_names_length. exact HI. }
    assert (Hg4 : forall g4 b4,
               (if dict_mem (u, O) (arcs g3) then Ok (g3, true) else add_arc g3 un dn 0 0) = Ok (g4, b4) ->
               Inv g4 /\ nodes g4 = nodes g3 /\ names g4 = names g3).
    { intros g4 b4. destruct (dict_mem (u, O) (arcs g3)).
      - intros E; inversion E; subst; auto.
      - intros E. split; [eapply add_arc_gen_inv; eauto|]. split; [eapply add_arc_nodes; eauto|].
        revert E. unfold add_arc, add_arc_gen.
        destruct (index_of un (names g3)); [|discriminate]. destruct (index_of dn (names g3)); [|discriminate].
        match goal with |- context [if ?c then Ok _ else Ok _] => destruct c end;
          intros E; inversion E; subst; reflexivity. }
    destruct (if dict_mem (u, O) (arcs g3) then Ok (g3, true) else add_arc g3 un dn 0 0) as [[g4 b4]|e] eqn:E4;
      [|discriminate].
    destruct (Hg4 g4 b4 eq_refl) as (HI4 & N4 & M4).
    assert (Hnodes4 : nodes g4 = nodes (pg st) ++ [mkNode nm (- new_node_loading st u) 0 PInf]) by congruence.
    assert (HP4 : PInv (with_graph st g4)).
    { apply PInv_with_graph; auto. rewrite Hnodes4, app_length. lia. }
    destruct (add_route (with_graph st g4) (map ix [O; ni; u; O])) as [[st5 r5] [[feas added]|e]] eqn:Ea;
      [|discriminate].
    destruct feas; [|discriminate]. inversion H; subst st' r; clear H.
    destruct (add_route_ix _ _ _ _ _ _ HP4 Ea) as (P5 & Eg & Ec & Ei & Hmono & Hfeas & _).
    destruct (Hfeas eq_refl) as (_ & _ & Hin).
    assert (Enames : forall g g' o d tm c b, add_arc g o d tm c = Ok (g', b) -> names g' = names g).
    { intros g g' o d tm c b. unfold add_arc, add_arc_gen.
      destruct (index_of o (names g)); [|discriminate]. destruct (index_of d (names g)); [|discriminate].
      match goal with |- context [if ?c then Ok _ else Ok _] => destruct c end;
        intros E; inversion E; subst; reflexivity. }
    rewrite Eg. simpl. rewrite Hnodes4, app_length. simpl. fold n.
    split; [lia|]. split; [subst ni; reflexivity|]. split; [exact P5|]. split; [exact Hin|].
    split; [exact Ec|]. split; [exact Ei|]. split; [exact Hmono|]. split; [eauto|].
    rewrite M4, (Enames _ _ _ _ _ _ _ E3), (Enames _ _ _ _ _ _ _ E2), Hn1.
    rewrite last_last. reflexivity.
  Qed.

  Lemma dummy_loop_good high dn us : forall st routes st' routes',
    dummy_loop dum_name st high dn us routes = Ok (st', routes') ->
    Good st routes us -> (forall u, In u us -> (0 < u < length (nodes (pg st)))%nat) ->
    Good st' routes' [] /\ pcap st' = pcap st /\ pinit st' = pinit st.
  Proof.
    induction us as [|u us IH]; simpl; intros st routes st' routes' H HG Hus.
    - inversion H; subst. auto.
    - destruct (mf_dummy dum_name st high dn u) as [[st1 r]|e] eqn:Ed; [|discriminate].
      destruct HG as [G1 G2 G3 G4].
      destruct (mf_dummy_spec _ _ _ _ _ _ Ed G1) as (Hlen & Hr & P1 & Hin & Ec & Ei & Hmono & _).
      set (n := length (nodes (pg st))) in *.
      assert (Hu : (0 < u < n)%nat) by (apply Hus; left; reflexivity).
      inversion G3 as [|? ? Hnu Hnd]; subst.
      destruct (IH _ _ _ _ H) as (HG' & E1 & E2).
      + constructor; auto.
        * intros s Hs. apply in_app_iff in Hs. destruct Hs as [Hs|[<-|[]]]; auto.
        * rewrite Hlen. intros k Hk. rewrite occ_snoc.
          destruct (Nat.eq_dec k n) as [->|Hkn].
          -- rewrite occ_zero.
             ++ replace (memb n [O; n; u; O]) with true by (simpl; rewrite Nat.eqb_refl; destruct (Nat.eqb n 0); reflexivity).
                destruct (memb n us) eqn:Em; auto. apply memb_In in Em.
                assert (0 < n < n)%nat by (apply Hus; right; exact Em). lia.
             ++ intros s Hs Hn. destruct (pi_routes _ G1) with (r := s) (j := O) as [_ _] eqn:?.
                all: try (clear Heqa).
                all: destruct (In_nth_error _ _ (G2 s Hs)) as [j Hj];
                  destruct (pi_routes _ G1 _ _ Hj) as [Hir _];
                  unfold in_range in Hir; rewrite Forall_forall in Hir; specialize (Hir _ Hn); fold n in Hir; lia.
          -- assert (Hk' : (0 < k < n)%nat) by lia. rewrite (G4 k Hk').
             simpl memb at 1.
             destruct (Nat.eqb_spec k u) as [->|Hku].
             ++ replace (memb u [O; n; u; O]) with true
                  by (simpl; rewrite Nat.eqb_refl; destruct (Nat.eqb u 0), (Nat.eqb u n); reflexivity).
                simpl. apply memb_false_notIn in Hnu. rewrite Hnu. reflexivity.
             ++ replace (memb k [O; n; u; O]) with false.
                { simpl. rewrite Nat.add_0_r. reflexivity. }
                simpl. destruct (Nat.eqb_spec k 0); [lia|]. destruct (Nat.eqb_spec k n); [lia|].
                destruct (Nat.eqb_spec k u); [lia|]. reflexivity.
      + intros u' Hu'. rewrite Hlen. assert (0 < u' < n)%nat by (apply Hus; right; exact Hu'). lia.
      + split; [exact HG'|]. split; congruence.
  Qed.
End PathFacts.
