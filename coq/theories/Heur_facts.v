(* Heur_facts.v -- facts about the feasibility heuristics of Heur.v.  [C09]
   Part 1: the path-based heuristic: postcondition for every draw oracle and every naming function. *)
From Coq Require Import ZArith List Bool Lia ZifyBool.
From VQ Require Import Base LinAlg Vrptw Vrptw_facts Path Path_facts Penalty Penalty_facts Heur.
Import ListNotations.
Open Scope Z_scope.

(* ================= generic: a feasible binary vector has QUBO value 0 / objective ================= *)
Theorem feasible_qubo_value n m A b R c Qo rho (feas : bool) x :
  Zbinary n x -> Zfeasible m n A b R x ->
  Zqubo_value n (Zget_qubo m feas rho (A, b, R) (c, Qo)) x = if feas then 0 else Zobjective n c Qo x.
Proof.
  intros Hb [HA HR]. unfold Zqubo_value, Zget_qubo.
  rewrite (get_qubo_identity Z 0 1 Z.add Z.mul Z.sub Z.opp Zth n m A b R c Qo rho feas x Hb).
  apply resid_sq_zero_iff in HA. unfold Zqf in HR.
  unfold penalty. rewrite HA, HR. unfold Zobjective. destruct feas; lia.
Qed.

(* ================= list helpers ================= *)
Lemma remove_first_spec x l l' :
  remove_first x l = Some l' ->
  In x l /\ (forall y, In y l' -> In y l) /\ (forall y, y <> x -> In y l -> In y l') /\
  (NoDup l -> NoDup l' /\ ~ In x l').
Proof.
  revert l'. induction l as [|y l IH]; simpl; intros l'; [discriminate|].
  destruct (Nat.eqb_spec x y) as [->|Hne].
  - intros H; inversion H; subst.
    split; [auto|]. split; [auto|]. split.
    + intros z Hz [E|Hin]; auto. congruence.
    + intros Hnd. inversion Hnd; auto.
  - destruct (remove_first x l) as [l1|] eqn:E; simpl; [|discriminate].
    intros H; inversion H; subst; clear H.
    destruct (IH l1 eq_refl) as (A & B & C & D).
    split; [auto|]. split; [|split].
    + intros z [<-|Hz]; auto.
    + intros z Hz [<-|Hin]; simpl; auto.
    + intros Hnd. inversion Hnd; subst. destruct (D H2) as [D1 D2]. split.
      * constructor; auto.
      * intros [E1|E1]; [congruence|auto].
Qed.

Lemma remove_customers_spec r : forall unv unv',
  remove_customers r unv = Ok unv' -> NoDup unv ->
  NoDup unv' /\
  (forall k, In k r -> k <> O -> In k unv /\ ~ In k unv') /\
  (forall k, ~ In k r -> (In k unv' <-> In k unv)) /\
  (forall k, In k unv' -> In k unv) /\
  (In O unv -> In O unv').
Proof.
  induction r as [|n r IH]; simpl; intros unv unv' H Hnd.
  - inversion H; subst. split; [auto|]. split; [tauto|]. split; [tauto|]. split; auto.
  - destruct (Nat.eqb_spec n 0) as [->|Hn].
    + destruct (IH _ _ H Hnd) as (A & B & C & D & E).
      split; [auto|]. split; [|split; [|split; auto]].
      * intros k [<-|Hin] Hk; [congruence|]. apply (B k Hin Hk).
      * intros k Hk. apply C. tauto.
    + destruct (remove_first n unv) as [u1|] eqn:E1; [|discriminate].
      destruct (remove_first_spec _ _ _ E1) as (R1 & R2 & R3 & R4).
      destruct (R4 Hnd) as [R5 R6].
      destruct (IH _ _ H R5) as (A & B & C & D & E).
      split; [auto|]. split; [|split; [|split]].
      * intros k [<-|Hin] Hk.
        -- split; [auto|]. intros Hc. apply R6. apply D. exact Hc.
        -- destruct (B k Hin Hk) as [B1 B2]. split; auto.
      * intros k Hk. split.
        -- intros Hc. apply R2. apply (proj1 (C k ltac:(tauto))). exact Hc.
        -- intros Hc. apply (proj2 (C k ltac:(tauto))). apply R3; [intros ->; apply Hk; auto | exact Hc].
      * intros k Hk. apply R2. apply D. exact Hk.
      * intros H0. apply E. apply R3; auto.
Qed.

(* number of routes of a list (with multiplicity) that pass through node k *)
Definition occ (k : nat) (routes : list (list nat)) : nat := length (filter (fun r => memb k r) routes).

Lemma occ_snoc k routes r : occ k (routes ++ [r]) = (occ k routes + (if memb k r then 1 else 0))%nat.
Proof. unfold occ. rewrite filter_app, app_length. simpl. destruct (memb k r); reflexivity. Qed.

Lemma occ_zero k routes : (forall r, In r routes -> ~ In k r) -> occ k routes = O.
Proof.
  unfold occ. induction routes as [|r rs IH]; simpl; auto. intros H.
  destruct (memb k r) eqn:E.
  - apply memb_In in E. exfalso. apply (H r); auto.
  - apply IH. intros r' Hr'. apply H; auto.
Qed.

Lemma filter_one {A} (p : A -> bool) l :
  length (filter p l) = 1%nat ->
  exists r0, In r0 l /\ p r0 = true /\ forall r, In r l -> p r = true -> r = r0.
Proof.
  intros H. destruct (filter p l) as [|r0 [|r1 t]] eqn:E; try discriminate.
  assert (H0 : In r0 (filter p l)) by (rewrite E; left; reflexivity).
  apply filter_In in H0. exists r0. split; [tauto|]. split; [tauto|].
  intros r Hr Hp. assert (H1 : In r (filter p l)) by (apply filter_In; auto).
  rewrite E in H1. destruct H1 as [<-|[]]. reflexivity.
Qed.

Lemma sumZ_all_zero {A} (g : A -> Z) (P : list A) : (forall r, In r P -> g r = 0) -> sumZ (map g P) = 0.
Proof.
  induction P as [|a P IH]; simpl; intros H; [reflexivity|]. fold (sumZ (map g P)).
  rewrite (H a) by auto. rewrite IH; [reflexivity|]. intros r Hr. apply H. auto.
Qed.

Lemma sumZ_unique {A} (g : A -> Z) (P : list A) r0 :
  NoDup P -> In r0 P -> g r0 = 1 -> (forall r, In r P -> r <> r0 -> g r = 0) -> sumZ (map g P) = 1.
Proof.
  induction P as [|a P IH]; simpl; intros Hnd Hin H1 H0; [tauto|].
  inversion Hnd as [|? ? Hna HndP]; subst. fold (sumZ (map g P)). destruct Hin as [->|Hin].
  - rewrite H1. rewrite sumZ_all_zero; [reflexivity|].
    intros r Hr. apply H0; [auto|]. intros ->. exact (Hna Hr).
  - rewrite (H0 a); [|auto|intros ->; exact (Hna Hin)]. rewrite IH; auto.
Qed.

(* ================= list.index on routes, the solution vector ================= *)
Lemma route_index_Some r rs i : route_index r rs = Some i -> nth_error rs i = Some r.
Proof.
  revert i. induction rs as [|s rs IH]; simpl; intros i; [discriminate|].
  destruct (list_eqb Nat.eqb r s) eqn:E.
  - apply list_eqb_nat_eq in E. subst. intros H; inversion H; reflexivity.
  - destruct (route_index r rs) as [j|]; simpl; [|discriminate].
    intros H; inversion H; subst. simpl. apply IH. reflexivity.
Qed.

Lemma route_index_In r rs : In r rs -> exists i, route_index r rs = Some i.
Proof.
  induction rs as [|s rs IH]; simpl; [tauto|].
  destruct (list_eqb Nat.eqb r s) eqn:E; [eauto|].
  intros [->|H].
  - assert (list_eqb Nat.eqb r r = true) by (apply list_eqb_nat_eq; reflexivity). congruence.
  - destruct (IH H) as [i ->]. simpl. eauto.
Qed.

Definition is01 (v : Z) : Prop := v = 0 \/ v = 1.

Lemma Forall_set_nth {A} (P : A -> Prop) i v l : Forall P l -> P v -> Forall P (set_nth i v l).
Proof.
  revert i. induction l as [|a l IH]; intros [|i] H Hv; simpl; auto; inversion H; subst; constructor; auto.
Qed.

Lemma mark_spec routes : forall stored x0 x,
  mark routes stored x0 = Ok x -> NoDup stored -> length x0 = length stored ->
  Forall is01 x0 ->
  length x = length stored /\ Forall is01 x /\
  (forall r, In r routes -> In r stored) /\
  forall j r, nth_error stored j = Some r ->
    (In r routes -> nth j x 0 = 1) /\ (~ In r routes -> nth j x 0 = nth j x0 0).
Proof.
  induction routes as [|r0 rs IH]; simpl; intros stored x0 x H Hnd Hlen H01.
  - inversion H; subst. repeat split; auto; tauto.
  - destruct (route_index r0 stored) as [i|] eqn:Ei; [|discriminate].
    pose proof (route_index_Some _ _ _ Ei) as Hi.
    assert (Hlt : (i < length stored)%nat) by (eapply nth_error_lt; eauto).
    destruct (IH stored (set_nth i 1 x0) x H Hnd) as (A & B & C & D).
    { rewrite set_nth_length. exact Hlen. }
    { apply Forall_set_nth; auto. right; reflexivity. }
    split; [exact A|]. split; [exact B|]. split.
    { intros r [<-|Hr]; auto. eapply nth_error_In; eauto. }
    intros j r Hj. destruct (D j r Hj) as [D1 D2]. split.
    + intros [->|Hr]; auto.
      destruct (in_dec (list_eq_dec Nat.eq_dec) r rs) as [Hin|Hnin]; auto.
      rewrite (D2 Hnin).
      assert (j = i). { eapply (proj1 (NoDup_nth_error stored) Hnd); [eapply nth_error_lt; eauto|congruence]. }
      subst j. apply nth_set_nth_same. lia.
    + intros Hn. rewrite D2 by tauto.
      apply nth_set_nth_other. intros ->. apply Hn. left. congruence.
Qed.

(* ================= one add_route call on an index list ================= *)
Lemma add_route_ix st r st1 r' feas added :
  PInv st -> add_route st (map ix r) = (st1, r', Ok (feas, added)) ->
  PInv st1 /\ pg st1 = pg st /\ pcap st1 = pcap st /\ pinit st1 = pinit st /\
  (forall s, In s (proutes st) -> In s (proutes st1)) /\
  (feas = true -> valid_route st r /\ in_range st r /\ In r (proutes st1)) /\
  (feas = false -> st1 = st).
Proof.
  intros HP H. pose proof (pi_graph _ HP) as HI.
  destruct (add_route_spec _ _ _ _ _ _ HI H) as (Hf & Ha & Hadd & Hnot).
  assert (Hres : resolve (pg st) (map ix r) = Some r) by apply resolve_map_ix.
  destruct added.
  - destruct (Hadd eq_refl) as (idxs & Hr & Hin & Hv & Hn & -> & _).
    rewrite Hres in Hr. inversion Hr; subst idxs.
    split; [apply PInv_stored; auto|]. simpl.
    split; [reflexivity|]. split; [reflexivity|]. split; [reflexivity|]. split; [|split].
    + intros s Hs. apply in_app_iff; auto.
    + intros _. split; [exact Hv|]. split; [exact Hin|]. apply in_app_iff; right; left; reflexivity.
    + intros ->. destruct Ha as [Ha _]. destruct (Ha eq_refl); discriminate.
  - rewrite (Hnot eq_refl).
    split; [exact HP|]. split; [reflexivity|]. split; [reflexivity|]. split; [reflexivity|].
    split; [auto|]. split; [|auto].
    intros ->. destruct Hf as [Hf _]. destruct (Hf eq_refl) as (idxs & Hr & Hv).
    rewrite Hres in Hr. inversion Hr; subst idxs.
    assert (Hir : in_range st r) by (apply valid_route_in_range; auto).
    split; [exact Hv|]. split; [exact Hir|].
    destruct (in_dec (list_eq_dec Nat.eq_dec) r (proutes st)) as [Hin|Hnin]; auto.
    exfalso. destruct Ha as [_ Ha]. assert (false = true); [|discriminate].
    apply Ha. split; auto. intros idxs Hr'. rewrite Hres in Hr'. inversion Hr'; subst. exact Hnin.
Qed.

(* ================= the invariant of the two loops ================= *)
(* routes chosen so far are stored, and every customer k (0 < k < #nodes) lies on exactly one of them
   unless it is still in the list of customers to serve, in which case it lies on none *)
Record Good (st : pstate) (routes : list (list nat)) (us : list nat) : Prop := {
  gd_inv : PInv st;
  gd_stored : forall r, In r routes -> In r (proutes st);
  gd_nodup : NoDup us;
  gd_occ : forall k, (0 < k < length (nodes (pg st)))%nat ->
           occ k routes = if memb k us then O else 1%nat
}.

Lemma index_of_snoc_new x l : ~ In x l -> index_of x (l ++ [x]) = Some (length l).
Proof.
  induction l as [|y l IH]; simpl; intros H.
  - rewrite Nat.eqb_refl. reflexivity.
  - destruct (Nat.eqb_spec x y) as [->|Hne]; [exfalso; auto|].
    rewrite IH by tauto. reflexivity.
Qed.

Lemma Inv_names_length g : Inv g -> length (names g) = length (nodes g).
Proof. intros H. rewrite (inv_aligned _ H), map_length. reflexivity. Qed.


Section PathFacts.
  Variable choose : kvdict -> nat.
  Variable dum_name : nat -> nat -> nat.

  Lemma arb_loop_good k : forall st nc unv routes st1 unv1 routes1,
    arb_loop choose k st nc unv routes = Ok (st1, unv1, routes1) ->
    Good st routes unv ->
    Good st1 routes1 unv1 /\ pg st1 = pg st /\ pcap st1 = pcap st /\ pinit st1 = pinit st /\
    (In O unv -> In O unv1) /\ (forall x, In x unv1 -> In x unv).
  Proof.
    induction k as [|k IH]; simpl; intros st nc unv routes st1 unv1 routes1 H HG.
    - inversion H; subst. split; [exact HG|]. do 3 (split; [reflexivity|]). split; auto.
    - destruct (generate_route choose st nc unv) as [r|e]; [|discriminate].
      destruct (add_route st (map ix r)) as [[st2 r'] [[feas added]|e]] eqn:Ea; [|discriminate].
      destruct HG as [G1 G2 G3 G4].
      destruct (add_route_ix _ _ _ _ _ _ G1 Ea) as (P2 & Eg & Ec & Ei & Hmono & Hfeas & Hnf).
      destruct feas.
      + destruct (remove_customers r unv) as [unv2|e] eqn:Er; [|discriminate].
        destruct (Hfeas eq_refl) as (Hv & Hir & Hin).
        destruct (remove_customers_spec _ _ _ Er G3) as (R1 & R2 & R3 & R4 & R5).
        destruct (IH _ _ _ _ _ _ _ H) as (HG' & E1 & E2 & E3 & E4 & E5).
        { constructor; auto.
          - intros s Hs. apply in_app_iff in Hs. destruct Hs as [Hs|[<-|[]]]; auto.
          - rewrite Eg. intros k0 Hk0. rewrite occ_snoc, (G4 k0 Hk0).
            destruct (memb k0 r) eqn:Em.
            + apply memb_In in Em. destruct (R2 k0 Em ltac:(lia)) as [Hu Hu'].
              apply memb_In in Hu. rewrite Hu. apply memb_false_notIn in Hu'. rewrite Hu'. reflexivity.
            + apply memb_false_notIn in Em. specialize (R3 k0 Em).
              destruct (memb k0 unv) eqn:E1; destruct (memb k0 unv2) eqn:E2; try reflexivity; exfalso.
              * apply memb_In in E1. apply R3 in E1. apply memb_In in E1. congruence.
              * apply memb_In in E2. apply R3 in E2. apply memb_In in E2. congruence. }
        split; [exact HG'|]. do 3 (split; [congruence|]). split.
        * intros H0. apply E4. apply R5. exact H0.
        * intros x Hx. apply R4. apply E5. exact Hx.
      + rewrite (Hnf eq_refl) in *.
        destruct (IH _ _ _ _ _ _ _ H) as (HG' & E1 & E2 & E3 & E4 & E5); [constructor; auto|].
        split; [exact HG'|]. do 3 (split; [assumption|]). split; assumption.
  Qed.

  (* ---------- one dummy node ---------- *)
  Lemma mf_dummy_spec st high dn u st' r :
    mf_dummy dum_name st high dn u = Ok (st', r) -> PInv st ->
    let n := length (nodes (pg st)) in
    length (nodes (pg st')) = S n /\ r = [O; n; u; O] /\ PInv st' /\ In r (proutes st') /\
    pcap st' = pcap st /\ pinit st' = pinit st /\
    (forall s, In s (proutes st) -> In s (proutes st')) /\
    (exists d, nodes (pg st') = nodes (pg st) ++ [d]) /\ names (pg st') = names (pg st) ++ [nname (last (nodes (pg st')) dummy_node)].
  Proof.
    intros H HP n. unfold mf_dummy in H. pose proof (pi_graph _ HP) as HI.
    destruct (fresh_name dum_name (names (pg st)) u 0 (S (length (names (pg st))))) as [nm|]; [|discriminate].
    destruct (add_node (pg st) nm (- new_node_loading st u) 0 PInf) as [g1|e] eqn:E1; [|discriminate].
    destruct (index_of nm (names g1)) as [ni|] eqn:Eni; [|discriminate].
    destruct (nth_error (names g1) u) as [un|]; [|discriminate].
    destruct (add_arc g1 dn nm 0 high) as [[g2 b2]|e] eqn:E2; [|discriminate].
    destruct (add_arc g2 nm un 0 high) as [[g3 b3]|e] eqn:E3; [|discriminate].
    assert (HI1 : Inv g1) by (eapply add_node_inv; eauto).
    assert (HI2 : Inv g2) by (eapply add_arc_gen_inv; eauto).
    assert (HI3 : Inv g3) by (eapply add_arc_gen_inv; eauto).
    destruct (add_node_nodes _ _ _ _ _ _ E1) as [N1 _].
    pose proof (add_arc_nodes _ _ _ _ _ _ _ E2) as N2.
    pose proof (add_arc_nodes _ _ _ _ _ _ _ E3) as N3.
    assert (Hnames1 : names g1 = names (pg st) ++ [nm] /\ ~ In nm (names (pg st))).
    { revert E1. unfold add_node. destruct (memb nm (names (pg st))) eqn:Em; [discriminate|].
      destruct (negb (window_ok 0 PInf)); [discriminate|]. intros E; inversion E; subst; simpl.
      split; auto. apply memb_false_notIn. exact Em. }
    destruct Hnames1 as [Hn1 Hfresh].
    assert (Hni : ni = n).
    { rewrite Hn1, (index_of_snoc_new _ _ Hfresh) in Eni. inversion Eni.
      unfold n. apply Inv_names_length. exact HI. }
    assert (Hg4 : forall g4 b4,
               (if dict_mem (u, O) (arcs g3) then Ok (g3, true) else add_arc g3 un dn 0 0) = Ok (g4, b4) ->
               Inv g4 /\ nodes g4 = nodes g3 /\ names g4 = names g3).
    { intros g4 b4. destruct (dict_mem (u, O) (arcs g3)).
      - intros E; inversion E; subst; auto.
      - intros E. split; [eapply add_arc_gen_inv; eauto|]. split; [eapply add_arc_nodes; eauto|].
        revert E. unfold add_arc, add_arc_gen.
        destruct (index_of un (names g3)); [|discriminate]. destruct (index_of dn (names g3)); [|discriminate].
        match goal with |- context [if ?c then Ok _ else Ok _] => destruct c end;
          intros E; inversion E; subst; reflexivity. }
    destruct (if dict_mem (u, O) (arcs g3) then Ok (g3, true) else add_arc g3 un dn 0 0) as [[g4 b4]|e] eqn:E4;
      [|discriminate].
    destruct (Hg4 g4 b4 eq_refl) as (HI4 & N4 & M4).
    assert (Hnodes4 : nodes g4 = nodes (pg st) ++ [mkNode nm (- new_node_loading st u) 0 PInf]) by congruence.
    assert (HP4 : PInv (with_graph st g4)).
    { apply PInv_with_graph; auto. rewrite Hnodes4, app_length. lia. }
    destruct (add_route (with_graph st g4) (map ix [O; ni; u; O])) as [[st5 r5] [[feas added]|e]] eqn:Ea;
      [|discriminate].
    destruct feas; [|discriminate]. inversion H; subst st' r; clear H.
    destruct (add_route_ix _ _ _ _ _ _ HP4 Ea) as (P5 & Eg & Ec & Ei & Hmono & Hfeas & _).
    destruct (Hfeas eq_refl) as (_ & _ & Hin).
    assert (Enames : forall g g' o d tm c b, add_arc g o d tm c = Ok (g', b) -> names g' = names g).
    { intros g g' o d tm c b. unfold add_arc, add_arc_gen.
      destruct (index_of o (names g)); [|discriminate]. destruct (index_of d (names g)); [|discriminate].
      match goal with |- context [if ?c then Ok _ else Ok _] => destruct c end;
        intros E; inversion E; subst; reflexivity. }
    rewrite Eg. simpl. rewrite Hnodes4, app_length. simpl. fold n.
    split; [lia|]. split; [subst ni; reflexivity|]. split; [exact P5|]. split; [exact Hin|].
    split; [exact Ec|]. split; [exact Ei|]. split; [exact Hmono|]. split; [eauto|].
    rewrite M4, (Enames _ _ _ _ _ _ _ E3), (Enames _ _ _ _ _ _ _ E2), Hn1.
    rewrite last_last. reflexivity.
  Qed.

  Lemma dummy_loop_good high dn us : forall st routes st' routes',
    dummy_loop dum_name st high dn us routes = Ok (st', routes') ->
    Good st routes us -> (forall u, In u us -> (0 < u < length (nodes (pg st)))%nat) ->
    Good st' routes' [] /\ pcap st' = pcap st /\ pinit st' = pinit st.
  Proof.
    induction us as [|u us IH]; simpl; intros st routes st' routes' H HG Hus.
    - inversion H; subst. auto.
    - destruct (mf_dummy dum_name st high dn u) as [[st1 r]|e] eqn:Ed; [|discriminate].
      destruct HG as [G1 G2 G3 G4].
      destruct (mf_dummy_spec _ _ _ _ _ _ Ed G1) as (Hlen & Hr & P1 & Hin & Ec & Ei & Hmono & _).
      set (n := length (nodes (pg st))) in *.
      assert (Hu : (0 < u < n)%nat) by (apply Hus; left; reflexivity).
      inversion G3 as [|? ? Hnu Hnd]; subst.
      destruct (IH _ _ _ _ H) as (HG' & E1 & E2).
      + constructor; auto.
        * intros s Hs. apply in_app_iff in Hs. destruct Hs as [Hs|[<-|[]]]; auto.
        * rewrite Hlen. intros k Hk. rewrite occ_snoc.
          destruct (Nat.eq_dec k n) as [->|Hkn].
          -- rewrite occ_zero.
             ++ replace (memb n [O; n; u; O]) with true by (simpl; rewrite Nat.eqb_refl; destruct (Nat.eqb n 0); reflexivity).
                destruct (memb n us) eqn:Em; auto. apply memb_In in Em.
                assert (0 < n < n)%nat by (apply Hus; right; exact Em). lia.
             ++ intros s Hs Hn. destruct (In_nth_error _ _ (G2 s Hs)) as [j Hj].
                destruct (pi_routes _ G1 _ _ Hj) as [Hir _].
                unfold in_range in Hir. rewrite Forall_forall in Hir. specialize (Hir _ Hn). fold n in Hir. lia.
          -- assert (Hk' : (0 < k < n)%nat) by lia. rewrite (G4 k Hk').
             simpl memb at 1.
             destruct (Nat.eqb_spec k u) as [->|Hku].
             ++ replace (memb u [O; n; u; O]) with true
                  by (simpl; rewrite Nat.eqb_refl; destruct (Nat.eqb u 0), (Nat.eqb u n); reflexivity).
                simpl. apply memb_false_notIn in Hnu. rewrite Hnu. reflexivity.
             ++ replace (memb k [O; n; u; O]) with false.
                { simpl. rewrite Nat.add_0_r. reflexivity. }
                simpl. destruct (Nat.eqb_spec k 0); [lia|]. destruct (Nat.eqb_spec k n); [lia|].
                destruct (Nat.eqb_spec k u); [lia|]. reflexivity.
      + intros u' Hu'. rewrite Hlen. assert (0 < u' < n)%nat by (apply Hus; right; exact Hu'). lia.
      + split; [exact HG'|]. split; congruence.
  Qed.
End PathFacts.

(* ================= postcondition of the path heuristic ================= *)
Lemma memb_seq k n : memb k (seq 0 n) = (k <? n)%nat.
Proof.
  destruct (Nat.ltb_spec k n) as [H|H].
  - apply memb_In. apply in_seq. lia.
  - apply memb_false_notIn. rewrite in_seq. lia.
Qed.

Lemma nth_repeat_lt {A} (a d : A) m k : (k < m)%nat -> nth k (repeat a m) d = a.
Proof. revert k; induction m as [|m IH]; intros [|k] H; simpl; auto; try lia. apply IH. lia. Qed.

Lemma Zqf_zero_matrix m x : Zqf m (Zmat_of (zero_matrix m)) x = 0.
Proof.
  unfold Zqf, qf. rewrite (sumZn_ext m _ (fun _ => 0)); [rewrite sumZn_const; lia|].
  intros i _. rewrite (sumZn_ext m _ (fun _ => 0)); [rewrite sumZn_const; lia|].
  intros j _. unfold Zmat_of, mat_of. rewrite zero_matrix_entry. lia.
Qed.

Section PathPost.
  Variable choose : kvdict -> nat.
  Variable dum_name : nat -> nat -> nat.

  Theorem mf_path_post st high st' x :
    PInv st -> mf_path choose dum_name st high = Ok (st', x) ->
    PInv st' /\ pcap st' = pcap st /\ pinit st' = pinit st /\
    length x = length (proutes st') /\ Forall is01 x /\
    (0 < length (nodes (pg st')))%nat /\
    forall k, (k < length (nodes (pg st')) - 1)%nat ->
      sumZn (length (proutes st')) (fun j => cover st' k j * nth j x 0) = 1.
  Proof.
    intros HP. unfold mf_path.
    set (n := length (nodes (pg st))).
    destruct (Nat.eqb_spec n 0) as [|Hn0]; [discriminate|].
    destruct (arb_loop choose (max_vehicles (pg st)) st _ (seq 0 n) []) as [[[st1 unv] routes]|e] eqn:Ea;
      [|discriminate].
    destruct (remove_first 0 unv) as [unv'|] eqn:Er; [|discriminate].
    destruct (nth_error (names (pg st1)) 0) as [dn|]; [|discriminate].
    destruct (dummy_loop dum_name st1 high dn unv' routes) as [[st2 routes']|e] eqn:Ed; [|discriminate].
    destruct (mark routes' (proutes st2) (repeat 0 (length (pcosts st2)))) as [x2|e] eqn:Em; [|discriminate].
    intros H; inversion H; subst st' x; clear H.
    (* the greedy phase *)
    assert (G0 : Good st [] (seq 0 n)).
    { constructor; auto.
      - intros r [].
      - apply seq_NoDup.
      - intros k Hk. fold n in Hk. rewrite memb_seq. destruct (Nat.ltb_spec k n); [reflexivity|lia]. }
    destruct (arb_loop_good _ _ _ _ _ _ _ _ _ Ea G0) as (G1 & Eg & Ec & Ei & _ & Hsub).
    destruct (remove_first_spec _ _ _ Er) as (R1 & R2 & R3 & R4).
    destruct G1 as [P1 S1 N1 O1]. destruct (R4 N1) as [R5 R6].
    assert (G1' : Good st1 routes unv').
    { constructor; auto. intros k Hk. rewrite (O1 k Hk).
      destruct (memb k unv) eqn:E1; destruct (memb k unv') eqn:E2; try reflexivity; exfalso.
      - apply memb_In in E1. apply memb_false_notIn in E2. apply E2. apply R3; auto. lia.
      - apply memb_In in E2. apply R2 in E2. apply memb_In in E2. congruence. }
    assert (Hus : forall u, In u unv' -> (0 < u < length (nodes (pg st1)))%nat).
    { intros u Hu. rewrite Eg. fold n. assert (Hin : In u (seq 0 n)) by (apply Hsub; apply R2; exact Hu).
      apply in_seq in Hin. destruct (Nat.eq_dec u 0) as [->|]; [contradiction|lia]. }
    destruct (dummy_loop_good _ _ _ _ _ _ _ _ Ed G1' Hus) as (G2 & Ec2 & Ei2).
    destruct G2 as [P2 S2 _ O2].
    (* the solution vector *)
    assert (Hlen0 : length (repeat 0 (length (pcosts st2))) = length (proutes st2)).
    { rewrite repeat_length. apply (pi_costs _ P2). }
    destruct (mark_spec _ _ _ _ Em (pi_nodup _ P2) Hlen0) as (L1 & L2 & _ & L4).
    { clear. induction (length (pcosts st2)); simpl; constructor; auto. left; reflexivity. }
    assert (Hn2 : (0 < length (nodes (pg st2)))%nat).
    { clear - Ed Eg Hn0 P1. subst n.
      assert (Hmono : forall us st routes st' routes',
                 dummy_loop dum_name st high dn us routes = Ok (st', routes') -> PInv st ->
                 (length (nodes (pg st)) <= length (nodes (pg st')))%nat).
      { induction us as [|u us IH]; simpl; intros s rs s' rs' H HPs.
        - inversion H; subst. lia.
        - destruct (mf_dummy dum_name s high dn u) as [[s1 r]|e] eqn:E; [|discriminate].
          destruct (mf_dummy_spec _ _ _ _ _ _ _ E HPs) as (Hl & _ & P' & _).
          specialize (IH _ _ _ _ H P'). lia. }
      specialize (Hmono _ _ _ _ _ Ed P1). rewrite Eg in Hmono. lia. }
    split; [exact P2|]. split; [congruence|]. split; [congruence|]. split; [exact L1|]. split; [exact L2|].
    split; [exact Hn2|].
    intros k Hk.
    destruct (cover_spec st2 P2 Hn2) as (A & _ & _ & _ & _ & _ & Hcov).
    set (P := proutes st2) in *.
    set (g := fun r : list nat => (if memb (S k) r then 1 else 0) *
                                  (if in_dec (list_eq_dec Nat.eq_dec) r routes' then 1 else 0)).
    rewrite (sumZn_ext (length P) _ (fun j => g (nth j P []))).
    2:{ intros j Hj. pose proof (nth_error_nth' P [] Hj) as Hnj.
        rewrite (Hcov k j _ Hk Hnj). destruct (L4 j _ Hnj) as [La Lb]. unfold g.
        destruct (in_dec (list_eq_dec Nat.eq_dec) (nth j P []) routes') as [Hin|Hnin].
        - rewrite (La Hin). reflexivity.
        - rewrite (Lb Hnin). rewrite nth_repeat. reflexivity. }
    rewrite <- (sumZ_nth g P []).
    assert (Hocc : occ (S k) routes' = 1%nat).
    { rewrite (O2 (S k)) by lia. reflexivity. }
    destruct (filter_one _ _ Hocc) as (r0 & Hr0 & Hm0 & Huniq).
    apply (sumZ_unique g P r0 (pi_nodup _ P2) (S2 r0 Hr0)).
    - unfold g. rewrite Hm0. destruct (in_dec (list_eq_dec Nat.eq_dec) r0 routes'); [reflexivity|contradiction].
    - intros r _ Hne. unfold g. destruct (memb (S k) r) eqn:E1; [|reflexivity].
      destruct (in_dec (list_eq_dec Nat.eq_dec) r routes') as [Hin|]; [|reflexivity].
      exfalso. apply Hne. apply Huniq; auto.
  Qed.

  (* the same in terms of what get_constraint_data / get_objective_data report, and the QUBO values *)
  Theorem mf_path_feasible st high st' x :
    PInv st -> mf_path choose dum_name st high = Ok (st', x) ->
    let n := length (nodes (pg st')) in
    let m := length (proutes st') in
    exists A,
      constraint_data st' = Ok ((n - 1, m)%nat, A, repeat 1 (n - 1)%nat, zero_matrix m, 0) /\
      num_variables st' = m /\ length x = m /\ Forall is01 x /\
      Zbinary m (Zvec_of x) /\
      Zfeasible (n - 1) m (Zmat_of A) (Zvec_of (repeat 1 (n - 1)%nat)) (Zmat_of (zero_matrix m)) (Zvec_of x).
  Proof.
    intros HP H n m.
    destruct (mf_path_post _ _ _ _ HP H) as (P2 & _ & _ & L1 & L2 & Hn & Hrow). fold n m in L1, Hn, Hrow.
    destruct (cover_spec st' P2 Hn) as (A & Emp & Ecd & Enum & _ & _ & _).
    exists A. split; [exact Ecd|]. split; [exact Enum|]. split; [exact L1|]. split; [exact L2|].
    assert (Hbin : Zbinary m (Zvec_of x)).
    { intros i Hi. unfold Zvec_of, vec_of. rewrite Forall_forall in L2.
      destruct (L2 (nth i x 0)) as [E|E]; [apply nth_In; lia | left; exact E | right; exact E]. }
    split; [exact Hbin|]. split.
    - intros k Hk. unfold Zmv, mv, Zvec_of, vec_of, Zmat_of, mat_of.
      rewrite (nth_repeat_lt 1 0 _ _ Hk).
      rewrite <- (Hrow k Hk). apply sumZn_ext. intros j _.
      unfold cover. rewrite Emp. reflexivity.
    - apply Zqf_zero_matrix.
  Qed.
End PathPost.

(* ================= totality of the path heuristic ================= *)
Lemma remove_first_In x l : In x l -> exists l', remove_first x l = Some l'.
Proof.
  induction l as [|y l IH]; simpl; [tauto|].
  destruct (Nat.eqb_spec x y) as [->|Hne]; [eauto|].
  intros [H|H]; [congruence|]. destruct (IH H) as [l' ->]. simpl. eauto.
Qed.

Definition nz (r : list nat) : list nat := filter (fun n => negb (Nat.eqb n 0)) r.

Lemma nz_no_zero l : ~ In O l -> nz l = l.
Proof.
  induction l as [|a l IH]; simpl; intros H; [reflexivity|].
  destruct (Nat.eqb_spec a 0) as [->|Hne]; [exfalso; auto|]. simpl. rewrite IH; auto.
Qed.

Lemma valid_route_nz st r : valid_route st r -> NoDup (nz r).
Proof.
  intros (Hlen & Hhd & Hlast & Hnd & Hnz & _).
  destruct r as [|a t]; [simpl in Hlen; lia|]. simpl in Hhd. inversion Hhd; subst a.
  destruct t as [|b t']; [simpl in Hlen; lia|].
  unfold interior in *. cbn [tl] in *.
  assert (Hl : last (b :: t') 1%nat = O) by exact Hlast.
  rewrite (app_removelast_last 1%nat (l := b :: t')) by discriminate. rewrite Hl.
  unfold nz. cbn [filter Nat.eqb negb]. rewrite filter_app. cbn [filter Nat.eqb negb]. rewrite app_nil_r.
  fold (nz (removelast (b :: t'))). rewrite nz_no_zero; auto.
Qed.

Lemma remove_customers_ok r : forall unv,
  NoDup (nz r) -> (forall k, In k r -> k <> O -> In k unv) -> exists unv', remove_customers r unv = Ok unv'.
Proof.
  induction r as [|n r IH]; simpl; intros unv Hnd Hin; [eauto|].
  destruct (Nat.eqb_spec n 0) as [->|Hn].
  - apply IH; auto.
  - unfold nz in Hnd. simpl in Hnd. destruct (Nat.eqb_spec n 0); [contradiction|]. simpl in Hnd.
    inversion Hnd as [|? ? Hnot Hnd']; subst.
    destruct (remove_first_In n unv) as [u1 E1]; [apply Hin; auto|]. rewrite E1.
    destruct (remove_first_spec _ _ _ E1) as (_ & _ & R3 & _).
    apply IH; auto. intros k Hk Hk0. apply R3; [|apply Hin; auto].
    intros ->. apply Hnot. apply filter_In. split; auto. destruct (Nat.eqb_spec n 0); [contradiction|reflexivity].
Qed.

Lemma mark_ok routes : forall stored x0,
  (forall r, In r routes -> In r stored) -> exists x, mark routes stored x0 = Ok x.
Proof.
  induction routes as [|r rs IH]; simpl; intros stored x0 H; [eauto|].
  destruct (route_index_In r stored) as [i ->]; [apply H; auto|]. apply IH. auto.
Qed.

Lemma kv_set_keys k v d x : In x (map fst (kv_set k v d)) -> x = k \/ In x (map fst d).
Proof.
  induction d as [|[k' v'] d IH]; simpl.
  - intros [<-|[]]; auto.
  - destruct (Nat.eqb_spec k k') as [->|Hne]; simpl.
    + intros [<-|H]; auto.
    + intros [<-|H]; auto. destruct (IH H); auto.
Qed.

Lemma add_arc_at g o d tm c i j :
  index_of o (names g) = Some i -> index_of d (names g) = Some j ->
  add_arc g o d tm c =
  if base_filter (nth i (nodes g) dummy_node) (nth j (nodes g) dummy_node) tm
  then Ok (mkGraph (names g) (nodes g)
             (dict_set (i, j) (mkArc (nname (nth i (nodes g) dummy_node)) (nname (nth j (nodes g) dummy_node)) tm c) (arcs g)), true)
  else Ok (g, false).
Proof. intros Hi Hj. unfold add_arc, add_arc_gen. rewrite Hi, Hj. reflexivity. Qed.

Lemma dict_get_set_other {V} k k' (v : V) d : k <> k' -> dict_get k (dict_set k' v d) = dict_get k d.
Proof.
  intros Hne. induction d as [|[k2 v2] d IH]; simpl.
  - apply natpair_eqb_neq in Hne. rewrite Hne. reflexivity.
  - destruct (natpair_eqb k' k2) eqn:E; simpl.
    + apply natpair_eqb_eq in E; subst k2.
      apply natpair_eqb_neq in Hne. rewrite Hne. reflexivity.
    + destruct (natpair_eqb k k2); auto.
Qed.

Lemma dict_mem_set_same {V} k (v : V) d : dict_mem k (dict_set k v d) = true.
Proof. unfold dict_mem. rewrite dict_get_set_same. reflexivity. Qed.

Lemma dict_mem_set_mono {V} k k' (v : V) d : dict_mem k d = true -> dict_mem k (dict_set k' v d) = true.
Proof.
  intros H. destruct (natpair_eqb k k') eqn:E.
  - apply natpair_eqb_eq in E; subst. apply dict_mem_set_same.
  - apply natpair_eqb_neq in E. unfold dict_mem in *. rewrite dict_get_set_other; auto.
Qed.

(* pigeonhole for the dummy name *)
Section Fresh.
  Variable dum_name : nat -> nat -> nat.
  Hypothesis dum_inj : forall u k k', dum_name u k = dum_name u k' -> k = k'.

  Lemma fresh_name_None nms u fuel : forall k,
    fresh_name dum_name nms u k fuel = None -> forall i, (k <= i < k + fuel)%nat -> In (dum_name u i) nms.
  Proof.
    induction fuel as [|f IH]; simpl; intros k H i Hi; [lia|].
    destruct (memb (dum_name u k) nms) eqn:E; [|discriminate].
    destruct (Nat.eq_dec i k) as [->|Hne]; [apply memb_In; exact E|].
    apply (IH (S k) H). lia.
  Qed.

  Lemma fresh_name_Some nms u fuel : forall k nm,
    fresh_name dum_name nms u k fuel = Some nm -> ~ In nm nms.
  Proof.
    induction fuel as [|f IH]; simpl; intros k nm H; [discriminate|].
    destruct (memb (dum_name u k) nms) eqn:E.
    - eapply IH; eauto.
    - inversion H; subst. apply memb_false_notIn. exact E.
  Qed.

  Lemma fresh_name_exists nms u : exists nm, fresh_name dum_name nms u 0 (S (length nms)) = Some nm.
  Proof.
    destruct (fresh_name dum_name nms u 0 (S (length nms))) as [nm|] eqn:E; [eauto|]. exfalso.
    pose proof (fresh_name_None _ _ _ _ E) as H.
    set (l := map (dum_name u) (seq 0 (S (length nms)))).
    assert (Hnd : NoDup l).
    { unfold l. apply FinFun.Injective_map_NoDup; [|apply seq_NoDup]. intros a b Hab. eapply dum_inj; eauto. }
    assert (Hincl : incl l nms).
    { intros x Hx. unfold l in Hx. apply in_map_iff in Hx. destruct Hx as (i & <- & Hi).
      apply in_seq in Hi. apply H. lia. }
    pose proof (NoDup_incl_length Hnd Hincl) as Hlen. unfold l in Hlen.
    rewrite map_length, seq_length in Hlen. lia.
  Qed.
End Fresh.

(* hypotheses of the totality claim (they are preserved by the heuristic, see mf_path_total) *)
Record PathHyp (st : pstate) : Prop := {
  ph_depot : exists d rest, nodes (pg st) = d :: rest /\ ndemand d = 0 /\ nhi d = PInf;
  ph_load : 0 <= pinit st <= pcap st;
  ph_cust : forall k nd, (0 < k)%nat -> nth_error (nodes (pg st)) k = Some nd ->
            - pcap st <= ndemand nd <= pcap st /\ ext_le (Fin 0) (nhi nd)
}.

Section PathTotal.
  Variable choose : kvdict -> nat.
  Variable dum_name : nat -> nat -> nat.
  Hypothesis choose_mem : forall d, d <> [] -> In (choose d) (map fst d).
  Hypothesis dum_inj : forall u k k', dum_name u k = dum_name u k' -> k = k'.

  Lemma potential_keys st nc vf cur t l unv x :
    In x (map fst (potential st nc vf cur t l unv)) -> In x unv.
  Proof.
    unfold potential.
    assert (G : forall acc, In x (map fst (fold_left (fun d n =>
                 match check_arc st t l (Z.of_nat cur) (Z.of_nat n) with
                 | (true, t', _) => kv_set n (cost_of (pg st) cur n + nth n nc 0 + 10 * t' + nth n vf 0) d
                 | (false, _, _) => d
                 end) unv acc)) -> In x unv \/ In x (map fst acc)).
    { induction unv as [|n unv IH]; simpl; intros acc H; [auto|].
      destruct (IH _ H) as [H1|H1]; [auto|].
      destruct (check_arc st t l (Z.of_nat cur) (Z.of_nat n)) as [[[|] t'] l']; [|auto].
      destruct (kv_set_keys _ _ _ _ H1) as [->|H2]; auto. }
    intros H. destruct (G [] H) as [H1|[]]. exact H1.
  Qed.

  Lemma gen_loop_ok st nc unv fuel : forall cur r t l vf,
    exists ext, gen_loop choose st nc unv fuel cur r t l vf = Ok (r ++ ext) /\ forall x, In x ext -> In x unv.
  Proof.
    induction fuel as [|f IH]; intros cur r t l vf; cbn [gen_loop].
    - exists []. rewrite app_nil_r. split; [reflexivity|intros x []].
    - destruct (potential st nc vf cur t l unv) as [|kv0 rest] eqn:Ep.
      + exists []. rewrite app_nil_r. split; [reflexivity|intros x []].
      + assert (Hm : In (choose (kv0 :: rest)) (map fst (kv0 :: rest))) by (apply choose_mem; discriminate).
        assert (Hu : In (choose (kv0 :: rest)) unv).
        { apply (potential_keys st nc vf cur t l unv). rewrite Ep. exact Hm. }
        apply memb_In in Hm. rewrite Hm. cbn [negb].
        destruct (check_arc st t l (Z.of_nat cur) (Z.of_nat (choose (kv0 :: rest)))) as [[b t'] l'].
        destruct (Nat.eqb (choose (kv0 :: rest)) 0).
        * exists [choose (kv0 :: rest)]. split; [reflexivity|]. intros x [<-|[]]. exact Hu.
        * destruct (IH (choose (kv0 :: rest)) (r ++ [choose (kv0 :: rest)]) t' l'
                       (set_nth cur (kv_get (argmin kv0 rest) (kv0 :: rest)) vf)) as (ext & E & Hext).
          exists (choose (kv0 :: rest) :: ext). rewrite E, <- app_assoc. split; [reflexivity|].
          intros x [<-|Hx]; auto.
  Qed.

  Lemma generate_route_ok st nc unv :
    exists ext, generate_route choose st nc unv = Ok (O :: ext) /\ forall x, In x ext -> In x unv.
  Proof. unfold generate_route. apply (gen_loop_ok st nc unv _ O [O]). Qed.

  Lemma add_route_ix_noerr st r :
    PInv st -> nodes (pg st) <> [] ->
    exists st1 r' feas added, add_route st (map ix r) = (st1, r', Ok (feas, added)).
  Proof.
    intros HP Hne. unfold add_route. cbv zeta.
    destruct (snd (check_route st (map ix r))) as [[[f c] v]|x] eqn:E.
    - destruct (f && negb (route_mem (fst (check_route st (map ix r))) (proutes st))); eauto.
    - exfalso. destruct (check_route_err _ _ _ (pi_graph _ HP) Hne E) as (_ & nm & Hin & _).
      apply in_map_iff in Hin. destruct Hin as (k & Hk & _). discriminate.
  Qed.

  Lemma arb_loop_ok k : forall st nc unv routes,
    Good st routes unv -> nodes (pg st) <> [] ->
    exists res, arb_loop choose k st nc unv routes = Ok res.
  Proof.
    induction k as [|k IH]; intros st nc unv routes HG Hne; [simpl; eauto|].
    destruct (generate_route_ok st nc unv) as (ext & Eg & Hext).
    destruct (add_route_ix_noerr st (O :: ext) (gd_inv _ _ _ HG) Hne) as (st1 & r' & feas & added & Ea).
    destruct (add_route_ix _ _ _ _ _ _ (gd_inv _ _ _ HG) Ea) as (_ & Egr & _ & _ & _ & Hfeas & Hnf).
    destruct feas.
    - destruct (Hfeas eq_refl) as (Hv & _ & _).
      destruct (remove_customers_ok (O :: ext) unv (valid_route_nz _ _ Hv)) as [unv' Er].
      { intros x [<-|Hx] Hx0; [congruence|auto]. }
      assert (E1 : arb_loop choose 1 st nc unv routes = Ok (st1, unv', routes ++ [O :: ext])).
      { simpl. rewrite Eg, Ea, Er. reflexivity. }
      destruct (arb_loop_good choose _ _ _ _ _ _ _ _ E1 HG) as (HG1 & Eg1 & _).
      destruct (IH st1 nc unv' (routes ++ [O :: ext]) HG1) as [res Eres]; [congruence|].
      exists res. simpl. rewrite Eg, Ea, Er. exact Eres.
    - rewrite (Hnf eq_refl) in Ea.
      destruct (IH st nc unv routes HG Hne) as [res Eres].
      exists res. simpl. rewrite Eg, Ea. exact Eres.
  Qed.

  Lemma new_node_loading_bounds st u dem :
    0 <= pinit st <= pcap st -> ndemand (node_at (pg st) u) = dem -> - pcap st <= dem <= pcap st ->
    let nnl := new_node_loading st u in
    - pcap st <= nnl <= pcap st /\ 0 <= pinit st + nnl <= pcap st /\ 0 <= pinit st + nnl - dem <= pcap st.
  Proof.
    intros Hi Hd Hb. unfold new_node_loading. rewrite Hd.
    destruct (pinit st + - dem <? 0) eqn:E1; [lia|].
    destruct (pcap st <? pinit st + - dem) eqn:E2; lia.
  Qed.

  Lemma ext_le_max a b h : ext_le (Fin a) h -> ext_le (Fin b) h -> ext_le (Fin (Z.max a b)) h.
  Proof. destruct h; unfold ext_le; [lia|auto]. Qed.

  Lemma mf_dummy_ok st high dn u :
    PInv st -> PathHyp st -> nth_error (names (pg st)) 0 = Some dn ->
    (0 < u < length (nodes (pg st)))%nat ->
    exists st' r, mf_dummy dum_name st high dn u = Ok (st', r) /\ PathHyp st'.
  Proof.
    intros HP [[d0 [rest [Hnodes [Hd0 Hh0]]]] Hload Hcust] Hdn Hu.
    pose proof (pi_graph _ HP) as HI.
    set (g := pg st) in *. set (n := length (nodes g)) in *.
    assert (Hlen : length (names g) = n) by (apply Inv_names_length; exact HI).
    assert (Hnames : names g = dn :: map nname rest).
    { rewrite (inv_aligned _ HI), Hnodes in *. simpl in *. inversion Hdn; reflexivity. }
    destruct (fresh_name_exists dum_name dum_inj (names g) u) as [nm Enm].
    pose proof (fresh_name_Some _ _ _ _ _ _ Enm) as Hfresh.
    set (nd_u := nth u (nodes g) dummy_node).
    assert (Hndu : nth_error (nodes g) u = Some nd_u) by (apply nth_error_nth'; lia).
    destruct (Hcust u nd_u ltac:(lia) Hndu) as [Hdem Hhi].
    pose proof (new_node_loading_bounds st u (ndemand nd_u) Hload eq_refl Hdem) as Hnnl.
    set (nnl := new_node_loading st u) in *. cbv zeta in Hnnl.
    set (new := mkNode nm (- nnl) 0 PInf).
    set (g1 := mkGraph (names g ++ [nm]) (nodes g ++ [new]) (arcs g)).
    assert (E1 : add_node g nm (- nnl) 0 PInf = Ok g1).
    { unfold add_node. apply memb_false_notIn in Hfresh. rewrite Hfresh. reflexivity. }
    assert (HI1 : Inv g1) by (eapply add_node_inv; eauto).
    assert (Eni : index_of nm (names g1) = Some n).
    { cbn [names g1]. rewrite index_of_snoc_new by exact Hfresh. rewrite Hlen. reflexivity. }
    set (un := nname nd_u).
    assert (Eun : nth_error (names g1) u = Some un).
    { cbn [names g1]. rewrite nth_error_app1 by lia. rewrite (inv_aligned _ HI), nth_error_map, Hndu. reflexivity. }
    assert (Edn1 : index_of dn (names g1) = Some O).
    { cbn [names g1]. rewrite Hnames. simpl. rewrite Nat.eqb_refl. reflexivity. }
    assert (Eun1 : index_of un (names g1) = Some u).
    { apply index_of_nth_error_NoDup; [apply (inv_nodup _ HI1)|exact Eun]. }
    assert (N0 : nth 0 (nodes g1) dummy_node = d0) by (cbn [nodes g1]; rewrite Hnodes; reflexivity).
    assert (Nn : nth n (nodes g1) dummy_node = new).
    { cbn [nodes g1]. rewrite app_nth2 by (unfold n; lia). unfold n. rewrite Nat.sub_diag. reflexivity. }
    assert (Nu : nth u (nodes g1) dummy_node = nd_u) by (cbn [nodes g1]; rewrite app_nth1 by lia; reflexivity).
    (* first arc: depot -> new *)
    set (a1 := mkArc (nname d0) (nname new) 0 high).
    set (g2 := mkGraph (names g1) (nodes g1) (dict_set (O, n) a1 (arcs g1))).
    assert (E2 : add_arc g1 dn nm 0 high = Ok (g2, true)).
    { rewrite (add_arc_at g1 dn nm 0 high O n Edn1 Eni). rewrite N0, Nn. reflexivity. }
    (* second arc: new -> u *)
    set (a2 := mkArc (nname new) (nname nd_u) 0 high).
    set (g3 := mkGraph (names g1) (nodes g1) (dict_set (n, u) a2 (arcs g2))).
    assert (E3 : add_arc g2 nm un 0 high = Ok (g3, true)).
    { rewrite (add_arc_at g2 nm un 0 high n u Eni Eun1). cbn [nodes g2]. rewrite Nn, Nu.
      unfold base_filter. cbn [nlo new]. apply ext_leb_le in Hhi. change (0 + 0) with 0. rewrite Hhi. reflexivity. }
    (* third arc: u -> depot, if absent *)
    assert (E4 : exists g4 b4,
               (if dict_mem (u, O) (arcs g3) then Ok (g3, true) else add_arc g3 un dn 0 0) = Ok (g4, b4) /\
               names g4 = names g1 /\ nodes g4 = nodes g1 /\ Inv g4 /\
               dict_get (O, n) (arcs g4) = Some a1 /\ dict_get (n, u) (arcs g4) = Some a2 /\
               dict_mem (u, O) (arcs g4) = true).
    { assert (HI2 : Inv g2) by (eapply add_arc_gen_inv; [exact HI1|exact E2]).
      assert (HI3 : Inv g3) by (eapply add_arc_gen_inv; [exact HI2|exact E3]).
      assert (G1 : dict_get (O, n) (arcs g3) = Some a1).
      { cbn [arcs g3 g2]. rewrite dict_get_set_other by (intros H; inversion H; lia).
        apply dict_get_set_same. }
      assert (G2 : dict_get (n, u) (arcs g3) = Some a2) by (cbn [arcs g3]; apply dict_get_set_same).
      destruct (dict_mem (u, O) (arcs g3)) eqn:Em.
      - exists g3, true. repeat (split; [reflexivity || assumption|]). assumption.
      - set (a3 := mkArc (nname nd_u) (nname d0) 0 0).
        exists (mkGraph (names g1) (nodes g1) (dict_set (u, O) a3 (arcs g3))), true.
        assert (E : add_arc g3 un dn 0 0 = Ok (mkGraph (names g1) (nodes g1) (dict_set (u, O) a3 (arcs g3)), true)).
        { rewrite (add_arc_at g3 un dn 0 0 u O Eun1 Edn1). cbn [nodes g3]. rewrite Nu, N0.
          unfold base_filter. rewrite Hh0. destruct (nlo nd_u + 0); reflexivity. }
        split; [exact E|]. split; [reflexivity|]. split; [reflexivity|].
        split; [eapply add_arc_gen_inv; [exact HI3|exact E]|].
        cbn [arcs]. split; [|split].
        + rewrite dict_get_set_other by (intros H; inversion H; lia). exact G1.
        + rewrite dict_get_set_other by (intros H; inversion H; lia). exact G2.
        + apply dict_mem_set_same. }
    destruct E4 as (g4 & b4 & E4 & M4 & N4 & HI4 & A1 & A2 & A3).
    set (st4 := with_graph st g4).
    assert (HP4 : PInv st4).
    { apply PInv_with_graph; auto. rewrite N4. cbn [nodes g1]. rewrite app_length. fold g. lia. }
    assert (Hne4 : nodes (pg st4) <> []).
    { cbn [pg st4 with_graph]. rewrite N4. cbn [nodes g1]. rewrite Hnodes. discriminate. }
    destruct (add_route_ix_noerr st4 [O; n; u; O] HP4 Hne4) as (st5 & r5 & feas & added & Ea).
    assert (Hvalid : valid_route st4 [O; n; u; O]).
    { assert (T1 : node_at g4 n = new) by (unfold node_at; rewrite N4; exact Nn).
      assert (T2 : node_at g4 u = nd_u) by (unfold node_at; rewrite N4; exact Nu).
      assert (T3 : node_at g4 O = d0) by (unfold node_at; rewrite N4; exact N0).
      unfold valid_route. cbn [pg st4 with_graph pcap pinit tl length hd_error].
      split; [lia|]. split; [reflexivity|]. split; [reflexivity|].
      split; [cbn; constructor; [intros [H|[]]; lia | constructor; [tauto|constructor]]|].
      split; [cbn; intros [H|[H|[]]]; lia|].
      apply (proj1 (walk_ok_iff st4 O 0 (pinit st) [n; u; O])).
      cbn [walk_ok]. unfold step_ok, next_time, next_load, tt_of. cbn [pg st4 with_graph pcap].
      rewrite A1, A2, T1, T2, T3. cbn [att a1 a2 nlo ndemand nhi new]. rewrite Hd0, Hh0.
      split; [|split; [|split; [|exact I]]].
      - split; [unfold dict_mem; rewrite A1; reflexivity|]. split; [exact I|]. lia.
      - split; [unfold dict_mem; rewrite A2; reflexivity|]. split; [|lia].
        replace (Z.max (0 + 0) 0 + 0) with 0 by lia.
        apply ext_le_max; [exact Hhi|]. apply (inv_windows _ HI). eapply nth_error_In; exact Hndu.
      - split; [exact A3|]. split; [exact I|]. lia. }
    destruct (add_route_spec _ _ _ _ _ _ (pi_graph _ HP4) Ea) as (Hf & _).
    assert (feas = true).
    { apply Hf. exists [O; n; u; O]. split; [apply resolve_map_ix|exact Hvalid]. }
    subst feas.
    destruct (add_route_ix _ _ _ _ _ _ HP4 Ea) as (_ & Eg5 & Ec5 & Ei5 & _).
    exists st5, [O; n; u; O]. split.
    - unfold mf_dummy. fold g. rewrite Enm. fold nnl. rewrite E1, Eni, Eun, E2, E3, E4.
      fold st4. rewrite Ea. reflexivity.
    - constructor.
      + rewrite Eg5. cbn [pg st4 with_graph]. rewrite N4. cbn [nodes g1]. rewrite Hnodes.
        exists d0, (rest ++ [new]). auto.
      + rewrite Ec5, Ei5. exact Hload.
      + rewrite Eg5, Ec5. cbn [pg st4 with_graph pcap]. rewrite N4. cbn [nodes g1].
        intros k nd Hk Hnth.
        destruct (Nat.lt_ge_cases k n) as [Hlt|Hge].
        * rewrite nth_error_app1 in Hnth by exact Hlt. apply (Hcust k nd Hk Hnth).
        * rewrite nth_error_app2 in Hnth by exact Hge. fold n in Hnth.
          destruct (k - n)%nat as [|q] eqn:Eq; simpl in Hnth; [|destruct q; discriminate].
          inversion Hnth; subst nd. cbn [ndemand nhi new]. split; [lia|exact I].
  Qed.

  Lemma dummy_loop_ok high dn us : forall st routes,
    PInv st -> PathHyp st -> nth_error (names (pg st)) 0 = Some dn ->
    (forall u, In u us -> (0 < u < length (nodes (pg st)))%nat) ->
    exists st' routes', dummy_loop dum_name st high dn us routes = Ok (st', routes') /\ PathHyp st'.
  Proof.
    induction us as [|u us IH]; simpl; intros st routes HP HH Hdn Hus; [eauto|].
    destruct (mf_dummy_ok st high dn u HP HH Hdn) as (st1 & r & Ed & HH1); [apply Hus; auto|].
    rewrite Ed.
    destruct (mf_dummy_spec _ _ _ _ _ _ _ Ed HP) as (Hl & _ & P1 & _ & _ & _ & _ & _ & Hn).
    apply IH; auto.
    - rewrite Hn. destruct (names (pg st)); [discriminate|exact Hdn].
    - intros u' Hu'. rewrite Hl. assert (0 < u' < length (nodes (pg st)))%nat by (apply Hus; auto). lia.
  Qed.

  (* the heuristic never raises under PathHyp, and PathHyp holds again afterwards *)
  Theorem mf_path_total st high :
    PInv st -> PathHyp st ->
    exists st' x, mf_path choose dum_name st high = Ok (st', x) /\ PathHyp st'.
  Proof.
    intros HP HH. unfold mf_path.
    destruct (ph_depot _ HH) as (d0 & rest & Hnodes & _).
    set (n := length (nodes (pg st))).
    assert (Hn : n <> O) by (unfold n; rewrite Hnodes; discriminate).
    destruct (Nat.eqb_spec n 0) as [|_]; [contradiction|].
    assert (G0 : Good st [] (seq 0 n)).
    { constructor; auto.
      - intros r [].
      - apply seq_NoDup.
      - intros k Hk. fold n in Hk. rewrite memb_seq. destruct (Nat.ltb_spec k n); [reflexivity|lia]. }
    assert (Hne : nodes (pg st) <> []) by (rewrite Hnodes; discriminate).
    destruct (arb_loop_ok (max_vehicles (pg st)) st (set_nth 0 (max_default0 (pcosts st)) (repeat 0 n)) (seq 0 n) [] G0 Hne)
      as [[[st1 unv] routes] Ea].
    rewrite Ea.
    destruct (arb_loop_good choose _ _ _ _ _ _ _ _ Ea G0) as (G1 & Eg & Ec & Ei & H0 & Hsub).
    destruct (remove_first_In 0 unv) as [unv' Er]; [apply H0; apply in_seq; lia|]. rewrite Er.
    destruct (remove_first_spec _ _ _ Er) as (_ & R2 & _ & R4).
    destruct (R4 (gd_nodup _ _ _ G1)) as [_ R6].
    assert (Hdn : exists dn, nth_error (names (pg st1)) 0 = Some dn).
    { rewrite Eg, (inv_aligned _ (pi_graph _ HP)), Hnodes. simpl. eauto. }
    destruct Hdn as [dn Hdn]. rewrite Hdn.
    assert (HH1 : PathHyp st1).
    { destruct HH as [A B C]. constructor; rewrite ?Eg, ?Ec, ?Ei; auto. }
    destruct (dummy_loop_ok high dn unv' st1 routes (gd_inv _ _ _ G1) HH1 Hdn) as (st2 & routes' & Ed & HH2).
    { intros u Hu. rewrite Eg. fold n. assert (Hin : In u (seq 0 n)) by (apply Hsub; apply R2; exact Hu).
      apply in_seq in Hin. destruct (Nat.eq_dec u 0) as [->|]; [contradiction|lia]. }
    rewrite Ed.
    assert (G1' : Good st1 routes unv').
    { destruct G1 as [P1 S1 N1 O1]. destruct (remove_first_spec _ _ _ Er) as (_ & _ & R3 & R4').
      destruct (R4' N1) as [R5 _].
      constructor; auto. intros k Hk. rewrite (O1 k Hk).
      destruct (memb k unv) eqn:E1; destruct (memb k unv') eqn:E2; try reflexivity; exfalso.
      - apply memb_In in E1. apply memb_false_notIn in E2. apply E2. apply R3; auto. lia.
      - apply memb_In in E2. apply R2 in E2. apply memb_In in E2. congruence. }
    assert (Hus : forall u, In u unv' -> (0 < u < length (nodes (pg st1)))%nat).
    { intros u Hu. rewrite Eg. fold n. assert (Hin : In u (seq 0 n)) by (apply Hsub; apply R2; exact Hu).
      apply in_seq in Hin. destruct (Nat.eq_dec u 0) as [->|]; [contradiction|lia]. }
    destruct (dummy_loop_good _ _ _ _ _ _ _ _ Ed G1' Hus) as (G2 & _ & _).
    destruct (mark_ok routes' (proutes st2) (repeat 0 (length (pcosts st2))) (gd_stored _ _ _ G2)) as [x Em].
    rewrite Em. exists st2, x. split; [reflexivity|exact HH2].
  Qed.
End PathTotal.

(* the states built by the correspondence harness are reachable states *)
Lemma PInv_pstate_of ops cap init rs : PInv (pstate_of ops cap init rs).
Proof.
  unfold pstate_of. apply prun_stored. constructor; cbn [pg proutes pcosts pvisited].
  - apply run_inv. apply Inv_empty.
  - constructor.
  - reflexivity.
  - reflexivity.
  - intros [|j] r0; discriminate.
Qed.

Lemma path_hypb_sound st : path_hypb st = true -> PathHyp st.
Proof.
  unfold path_hypb. destruct (nodes (pg st)) as [|d rest] eqn:En; [discriminate|].
  rewrite !andb_true_iff. intros ((((H1 & H2) & H3) & H4) & H5).
  constructor.
  - exists d, rest. split; [exact En|]. split; [lia|]. destruct (nhi d); [discriminate|reflexivity].
  - lia.
  - intros k nd Hk Hnth. rewrite En in Hnth. destruct k as [|k]; [lia|]. simpl in Hnth.
    rewrite forallb_forall in H5. specialize (H5 nd (nth_error_In _ _ Hnth)).
    rewrite !andb_true_iff in H5. destruct H5 as ((A & B) & C). apply ext_leb_le in C. split; [lia|exact C].
Qed.

Lemma argmin_In d : forall best, argmin best d = fst best \/ In (argmin best d) (map fst d).
Proof.
  induction d as [|[k v] d IH]; intros best; simpl; [auto|].
  destruct (v <? snd best).
  - destruct (IH (k, v)) as [H|H]; [rewrite H; simpl; auto|auto].
  - destruct (IH best) as [H|H]; auto.
Qed.

Lemma choose_min_mem d : d <> [] -> In (choose_min d) (map fst d).
Proof.
  destruct d as [|kv0 rest]; [congruence|]. intros _. unfold choose_min. simpl.
  destruct (argmin_In rest kv0) as [H|H]; auto.
Qed.
