(* PyHeurPath.v -- the Python-level combinators the translator harness/translate_heurpath.py prints into
   (coq/gen/HeurPathGen.v): the path-based feasibility heuristic of path_based_rp.py (generate_route,
   add_routes_better, make_feasible, get_sampled_key, get_route_names, get_routes).  Definitions only; facts
   are in PyHeurPath_facts.v.                                                                [C09 gen, path]

   Representation (fixed by the hand models Path.v / Heur.v): a node index, a position in a list and a
   `len(...)` are nats; costs, times, loads, `explore` and the high cost are Z; a node name (a Python str) is a
   nat; self is a Path.pstate; the candidate dict of generate_route is Heur.kvdict (insertion ordered).

   Oracles (parameters of the generated definitions, Section variables of the hand model):
     choose : list nat -> fx -> nat      np.random.choice(keys, p=pmf): the key drawn, as a function of the
                                         key list and of the SYMBOLIC float expression that was passed as p;
     fstr   : list fpart -> nat          the str an f-string evaluates to, as a function of its parts. *)
From Coq Require Import String.
From VQ Require Import Base Vrptw Path Heur PyPath.

(* ---------- loops: for / while with break, continue and exceptions ----------
   The loop body maps the loop-carried variables (self included when the body modifies it) to
   LNext s' (fell off the end / `continue`), LBreak s' (`break`) or LRaise e (an uncaught exception). *)
Inductive lctl (S : Type) := LNext (s : S) | LBreak (s : S) | LRaise (e : errcls).
Arguments LNext {S} s.
Arguments LBreak {S} s.
Arguments LRaise {S} e.

Fixpoint py_for {X S} (xs : list X) (body : X -> S -> lctl S) (s : S) : result S :=
  match xs with
  | [] => Ok s
  | x :: xs' => match body x s with
                | LNext s' => py_for xs' body s'
                | LBreak s' => Ok s'
                | LRaise e => Err e
                end
  end.

(* while cond: body   -- with fuel; running out of fuel is Err OtherError (as in the hand model) *)
Fixpoint py_while {S} (fuel : nat) (cond : S -> bool) (body : S -> lctl S) (s : S) : result S :=
  match fuel with
  | O => Err OtherError
  | S f => if cond s then
             match body s with
             | LNext s' => py_while f cond body s'
             | LBreak s' => Ok s'
             | LRaise e => Err e
             end
           else Ok s
  end.
(* the fuel every generated while loop gets: len(self.node_names) + 1, read when the loop is entered *)
Definition while_fuel (st : pstate) : nat := S (length (names (pg st))).

(* ---------- lists indexed by non-negative ints ---------- *)
Definition py_nth {A} (l : list A) (n : nat) : result A :=
  match nth_error l n with Some x => Ok x | None => Err IndexError end.
Definition py_set_nth {A} (l : list A) (n : nat) (x : A) : result (list A) :=
  if (n <? length l)%nat then Ok (set_nth n x l) else Err IndexError.
(* l.remove(x): ValueError when absent *)
Definition py_list_remove (l : list nat) (x : nat) : result (list nat) :=
  match remove_first x l with Some l' => Ok l' | None => Err ValueError end.
(* list(range(n)), [x] * n, np.zeros(n) *)
Definition py_nat_range (n : nat) : list nat := seq 0 n.
Definition py_repeat {A} (x : A) (n : nat) : list A := repeat x n.
(* max(l, default=d) *)
Definition py_max_default (l : list Z) (d : Z) : Z :=
  match l with [] => d | x :: l' => fold_left Z.max l' x end.
(* list(map(lambda x: e, l)) where e may raise *)
Definition py_map_list {A B} (f : A -> result B) (l : list A) : result (list B) := traverse f l.

(* ---------- the candidate dict (int -> number, insertion ordered) ---------- *)
Definition kv_keys (d : kvdict) : list nat := map fst d.
Definition kv_values (d : kvdict) : list Z := map snd d.
Definition py_dict_truth (d : kvdict) : bool := match d with [] => false | _ => true end.
Fixpoint py_kv_getitem (d : kvdict) (k : nat) : result Z :=
  match d with
  | [] => Err KeyError
  | (k', v) :: d' => if Nat.eqb k k' then Ok v else py_kv_getitem d' k
  end.
(* min(d, key=d.get): ValueError on an empty dict *)
Definition py_min_key (d : kvdict) : result nat :=
  match d with [] => Err ValueError | kv0 :: rest => Ok (argmin kv0 rest) end.

(* ---------- symbolic float expressions (what is passed to np.random.choice as p) ---------- *)
Inductive fx :=
| FLit (num den : Z)            (* a float constant of the source, as the exact ratio of the double *)
| FOfZ (z : Z)                  (* a number of the model *)
| FVec (l : list Z)             (* np.fromiter(values, dtype=float) *)
| FNeg (a : fx)
| FAdd (a b : fx)
| FSub (a b : fx)
| FMul (a b : fx)
| FDiv (a b : fx)
| FSoftmax (a : fx)             (* scipy.special.softmax *)
| FSum (a : fx).                (* np.sum *)

(* np.random.choice(keys, p=pmf): an element of keys (a draw outside cannot come from numpy: OtherError) *)
Definition py_random_choice (choose : list nat -> fx -> nat) (keys : list nat) (p : fx) : result nat :=
  let s := choose keys p in if memb s keys then Ok s else Err OtherError.

(* ---------- f-strings ---------- *)
Inductive fpart := FS (s : string) | FN (n : nat) | FZ (z : Z).

(* ---------- self ---------- *)
Definition py_depot (st : pstate) : nat := O.                     (* VRPTW.depot_index is the constant 0 *)
(* self.arcs[(a, b)] for node indices *)
Definition py_key (k : nat * nat) : elem * elem := (ix (fst k), ix (snd k)).
(* x in self.node_names, self.node_names.index(x) *)
Definition py_names_index (st : pstate) (nm : nat) : result nat :=
  match index_of nm (names (pg st)) with Some i => Ok i | None => Err ValueError end.
(* self.routes.index(r) *)
Definition py_routes_index (st : pstate) (r : list nat) : result nat :=
  match route_index r (proutes st) with Some i => Ok i | None => Err ValueError end.
(* self.estimate_max_vehicles()  (VRPTW; model: Heur.max_vehicles) *)
Definition py_estimate_max_vehicles (st : pstate) : nat := max_vehicles (pg st).
(* self.add_node(name, demand)  with the default window (0, inf);  self.add_arc(o, d, travel_time, cost) *)
Definition py_add_node (st : pstate) (nm : nat) (dem : Z) : result pstate :=
  match add_node (pg st) nm dem 0 PInf with Ok g => Ok (with_graph st g) | Err e => Err e end.
Definition py_add_arc (st : pstate) (o d : nat) (tm cost : Z) : result (pstate * bool) :=
  match add_arc (pg st) o d tm cost with Ok (g, b) => Ok (with_graph st g, b) | Err e => Err e end.

(* a list of node indices handed to a method that takes (and converts in place) lists of str-or-int:
   the callee must have left it unchanged -- otherwise other references to the same list object would
   have changed as well, which the value model does not express: OtherError *)
Definition py_elems (r : list nat) : list elem := map ix r.
Definition py_call_frozen {A} (arg ret : list elem) (res : result A) : result A :=
  if list_eqb elem_eqb ret arg then res else Err OtherError.

(* ---------- how the oracles of the hand model arise from those of the generated model ---------- *)
(* the float constant 1e-4 as the exact ratio of its double *)
Definition hand_choose (choose : list nat -> fx -> nat) (explore : Z) (d : kvdict) : nat :=
  choose (kv_keys d)
         (FSoftmax (FDiv (FNeg (FVec (kv_values d)))
                         (FAdd (FLit 7378697629483821 73786976294838206464) (FOfZ explore)))).
Definition hand_dum (fstr : list fpart -> nat) (u k : nat) : nat :=
  match k with
  | O => fstr [FS "mf_Dum_"; FN u]
  | S _ => fstr [FS "mf_Dum_"; FN u; FS "_"; FZ (Z.of_nat k)]
  end.
(* ... and conversely *)
Definition gen_choose (choose_h : kvdict -> nat) (keys : list nat) (p : fx) : nat :=
  match p with
  | FSoftmax (FDiv (FNeg (FVec vals)) _) => choose_h (combine keys vals)
  | _ => O
  end.
Definition gen_fstr (dum : nat -> nat -> nat) (parts : list fpart) : nat :=
  match parts with
  | [FS _; FN u] => dum u O
  | [FS _; FN u; FS _; FZ k] => dum u (Z.to_nat k)
  | _ => O
  end.

(* repeated invocations of a method  (self, argument) -> new self and result: the later calls see the self the
   earlier ones left; the list ends at the first exception (shape of Heur.mf_path_iter) *)
Fixpoint py_iter_calls {S X} (f : S -> Z -> result (S * X)) (st : S) (args : list Z) : list (result (S * X)) :=
  match args with
  | [] => []
  | a :: args' =>
      match f st a with
      | Err e => [Err e]
      | Ok (st', x) => Ok (st', x) :: py_iter_calls f st' args'
      end
  end.
