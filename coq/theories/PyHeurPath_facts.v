(* PyHeurPath_facts.v -- facts about the combinators of PyHeurPath.v and about the hand model Heur.v that the
   proofs of coq/genprops/C09_path_gen.v need.  No generated code is mentioned here.        [C09 gen, path] *)
From Coq Require Import ZArith List Bool Lia ZifyBool.
From VQ Require Import Base Vrptw Vrptw_facts Path Path_facts Heur Heur_facts PyPath PyPath_facts PyHeurPath.
Import ListNotations.
Open Scope Z_scope.

(* ---------- lists ---------- *)
Lemma nth_error_nth_lt {A} (l : list A) n d : (n < length l)%nat -> nth_error l n = Some (nth n l d).
Proof.
  revert n. induction l as [|x l IH]; intros [|n] H; simpl in *; try lia; auto. apply IH. lia.
Qed.

Lemma py_nth_lt {A} (l : list A) n d : (n < length l)%nat -> py_nth l n = Ok (nth n l d).
Proof. intros H. unfold py_nth. rewrite (nth_error_nth_lt l n d H). reflexivity. Qed.

Lemma py_set_nth_lt {A} (l : list A) n x : (n < length l)%nat -> py_set_nth l n x = Ok (set_nth n x l).
Proof. intros H. unfold py_set_nth. destruct (n <? length l)%nat eqn:E; [reflexivity|lia]. Qed.

Lemma elem_eqb_refl e : elem_eqb e e = true.
Proof. destruct e; simpl; [apply Nat.eqb_refl|apply Z.eqb_refl]. Qed.

Lemma el_eqb_refl (l : list elem) : list_eqb elem_eqb l l = true.
Proof. induction l as [|e l IH]; simpl; auto. rewrite elem_eqb_refl. exact IH. Qed.

Lemma py_call_frozen_same {A} (l : list elem) (res : result A) : py_call_frozen l l res = res.
Proof. unfold py_call_frozen. rewrite el_eqb_refl. reflexivity. Qed.

Lemma remove_first_Forall (P : nat -> Prop) x l l' : remove_first x l = Some l' -> Forall P l -> Forall P l'.
Proof.
  revert l'. induction l as [|y l IH]; simpl; intros l' H F; [discriminate|].
  inversion F; subst. destruct (Nat.eqb x y).
  - inversion H; subst; auto.
  - destruct (remove_first x l) as [l1|]; [|discriminate]. inversion H; subst. constructor; auto.
Qed.

Lemma remove_customers_Forall (P : nat -> Prop) r : forall unv unv',
  remove_customers r unv = Ok unv' -> Forall P unv -> Forall P unv'.
Proof.
  induction r as [|n r IH]; simpl; intros unv unv' H F.
  - inversion H; subst; auto.
  - destruct (Nat.eqb n 0); [eauto|].
    destruct (remove_first n unv) as [u1|] eqn:E; [|discriminate].
    eapply IH; eauto. eapply remove_first_Forall; eauto.
Qed.

(* ---------- the candidate dict ---------- *)
Lemma py_kv_getitem_In d k : In k (map fst d) -> py_kv_getitem d k = Ok (kv_get k d).
Proof.
  induction d as [|[k' v] d IH]; simpl; intros H; [contradiction|].
  destruct (Nat.eqb_spec k k') as [->|Hne]; [reflexivity|].
  apply IH. destruct H as [H|H]; [congruence|exact H].
Qed.

Lemma argmin_keys kv0 rest : In (argmin kv0 rest) (map fst (kv0 :: rest)).
Proof. destruct (argmin_In rest kv0) as [H|H]; simpl; auto. Qed.

(* the keys of the candidate dict are unvisited nodes *)
Lemma fold_kv_keys {X} (step : kvdict -> X -> kvdict) (key : X -> nat) (P : nat -> Prop) :
  (forall d x, Forall P (map fst d) -> P (key x) -> Forall P (map fst (step d x))) ->
  forall xs d, Forall P (map key xs) -> Forall P (map fst d) -> Forall P (map fst (fold_left step xs d)).
Proof.
  intros Hs. induction xs as [|x xs IH]; simpl; intros d Fx Fd; auto.
  inversion Fx; subst. apply IH; auto.
Qed.

Lemma kv_set_Forall (P : nat -> Prop) k v d : P k -> Forall P (map fst d) -> Forall P (map fst (kv_set k v d)).
Proof.
  intros Hk Fd. apply Forall_forall. intros x Hx. apply kv_set_keys in Hx.
  destruct Hx as [->|Hx]; auto. rewrite Forall_forall in Fd. auto.
Qed.

Lemma potential_keys (P : nat -> Prop) st ncosts vf cur time load unv :
  Forall P unv -> Forall P (map fst (potential st ncosts vf cur time load unv)).
Proof.
  intros F. unfold potential.
  apply (fold_kv_keys _ (fun n => n) P); [| rewrite map_id; exact F | constructor].
  intros d n Fd Pn. destruct (check_arc st time load (Z.of_nat cur) (Z.of_nat n)) as [[[|] t'] l']; auto.
  apply kv_set_Forall; auto.
Qed.

(* ---------- check_route / add_route on a list of node indices ---------- *)
Lemma cr_loop_ix st : forall rest cur time load cost vis,
  fst (cr_loop st cur (map ix rest) time load cost vis) = map ix rest.
Proof.
  induction rest as [|n rest IH]; intros; [reflexivity|].
  cbn [map cr_loop]. destruct (py_pos (length vis) cur) as [p|]; [|reflexivity].
  destruct (nth p vis 0 =? 1); [reflexivity|]. cbn [ix conv].
  destruct (check_arc st time load cur (Z.of_nat n)) as [[[|] t'] l']; [|reflexivity].
  cbn [fst]. rewrite IH. reflexivity.
Qed.

Lemma conv_at_ix g p r : (p < length r)%nat -> conv_at g p (map ix r) = Ok (map ix r).
Proof.
  intros H. unfold conv_at. rewrite nth_error_map.
  rewrite (nth_error_nth_lt r p O H). cbn [option_map ix conv]. f_equal.
  apply set_nth_same. rewrite nth_error_map, (nth_error_nth_lt r p O H). reflexivity.
Qed.

Lemma check_route_ix_list st r : fst (check_route st (map ix r)) = map ix r.
Proof.
  unfold check_route. cbv zeta. rewrite map_length.
  destruct (length r <? 2)%nat eqn:E; [reflexivity|].
  apply Nat.ltb_ge in E.
  rewrite !conv_at_ix by lia.
  destruct (not_depot _ || not_depot _); [reflexivity|].
  destruct r as [|z0 rest]; [reflexivity|]. cbn [map ix]. cbn [fst].
  change (inr (Z.of_nat z0) :: map (fun i => inr (Z.of_nat i)) rest) with (ix z0 :: map ix rest).
  f_equal. apply cr_loop_ix.
Qed.

Lemma add_route_ix_list st r : snd (fst (add_route st (map ix r))) = map ix r.
Proof.
  unfold add_route. cbv zeta. rewrite check_route_ix_list.
  destruct (snd (check_route st (map ix r))) as [[[f c] v]|x]; [|reflexivity].
  destruct (f && negb (route_mem (map ix r) (proutes st))); reflexivity.
Qed.

Lemma add_route_pg st r : pg (fst (fst (add_route st r))) = pg st.
Proof.
  unfold add_route. cbv zeta. destruct (snd (check_route st r)) as [[[f c] v]|x]; [|reflexivity].
  destruct (f && negb (route_mem (fst (check_route st r)) (proutes st))); reflexivity.
Qed.

(* the stored lists stay aligned *)
Definition aligned (st : pstate) : Prop := length (pcosts st) = length (proutes st).

Lemma add_route_aligned st r : aligned st -> aligned (fst (fst (add_route st r))).
Proof.
  unfold aligned, add_route. cbv zeta. intros H.
  destruct (snd (check_route st r)) as [[[f c] v]|x]; [|exact H].
  destruct (f && negb (route_mem (fst (check_route st r)) (proutes st))); [|exact H].
  cbn [fst pcosts proutes]. rewrite !app_length. simpl. lia.
Qed.

(* ---------- add_node / add_arc ---------- *)
Lemma add_arc_names g o d tm c g' b : add_arc g o d tm c = Ok (g', b) -> names g' = names g.
Proof.
  unfold add_arc, add_arc_gen.
  destruct (index_of o (names g)); [|discriminate]. destruct (index_of d (names g)); [|discriminate].
  match goal with |- context [if ?c then Ok _ else Ok _] => destruct c end;
    intros H; inversion H; subst; reflexivity.
Qed.

Lemma add_arc_present g o d tm c : In o (names g) -> In d (names g) -> exists g' b, add_arc g o d tm c = Ok (g', b).
Proof.
  intros Ho Hd. unfold add_arc, add_arc_gen.
  destruct (index_of_In _ _ Ho) as [i ->]. destruct (index_of_In _ _ Hd) as [j ->].
  match goal with |- context [if ?c then Ok _ else Ok _] => destruct c end; eauto.
Qed.

Lemma add_node_names g nm dem lo hi g' : add_node g nm dem lo hi = Ok g' -> names g' = names g ++ [nm].
Proof.
  unfold add_node. destruct (memb nm (names g)); [discriminate|].
  destruct (negb (window_ok lo hi)); [discriminate|]. intros H; inversion H; subst. reflexivity.
Qed.

(* ---------- invariants of the loops of the hand model ---------- *)
Lemma aligned_with_graph st g : aligned (with_graph st g) <-> aligned st.
Proof. unfold aligned. simpl. tauto. Qed.

Lemma add_route_facts st r st1 r' res : add_route st r = (st1, r', res) ->
  pg st1 = pg st /\ (aligned st -> aligned st1).
Proof.
  intros E. split.
  - rewrite <- (add_route_pg st r), E. reflexivity.
  - intros H. pose proof (add_route_aligned st r H) as H1. rewrite E in H1. exact H1.
Qed.

Lemma arb_loop_inv choose (P : nat -> Prop) k : forall st nc unv routes st1 unv1 routes1,
  arb_loop choose k st nc unv routes = Ok (st1, unv1, routes1) ->
  pg st1 = pg st /\ (aligned st -> aligned st1) /\ (Forall P unv -> Forall P unv1).
Proof.
  induction k as [|k IH]; simpl; intros st nc unv routes st1 unv1 routes1 H.
  - inversion H; subst. auto.
  - destruct (generate_route choose st nc unv) as [r|e]; [|discriminate].
    destruct (add_route st (map ix r)) as [[s1 r'] res] eqn:E.
    destruct (add_route_facts _ _ _ _ _ E) as [Hg Ha].
    destruct res as [[feas added]|e]; [|discriminate].
    destruct feas.
    + destruct (remove_customers r unv) as [u1|e] eqn:Er; [|discriminate].
      destruct (IH _ _ _ _ _ _ _ H) as (G & A & F).
      split; [congruence|]. split; [auto|]. intros Fu. apply F. eapply remove_customers_Forall; eauto.
    + destruct (IH _ _ _ _ _ _ _ H) as (G & A & F).
      split; [congruence|]. split; auto.
Qed.

Lemma mf_dummy_inv dum st high dn u st' r : mf_dummy dum st high dn u = Ok (st', r) ->
  (length (nodes (pg st)) <= length (nodes (pg st')))%nat /\
  (forall x, In x (names (pg st)) -> In x (names (pg st'))) /\ (aligned st -> aligned st').
Proof.
  unfold mf_dummy. cbv zeta.
  destruct (fresh_name dum (names (pg st)) u 0 (S (length (names (pg st))))) as [nm|]; [|discriminate].
  destruct (add_node (pg st) nm (- new_node_loading st u) 0 PInf) as [g1|] eqn:E1; [|discriminate].
  destruct (index_of nm (names g1)) as [ni|]; [|discriminate].
  destruct (nth_error (names g1) u) as [un|]; [|discriminate].
  destruct (add_arc g1 dn nm 0 high) as [[g2 b2]|] eqn:E2; [|discriminate].
  destruct (add_arc g2 nm un 0 high) as [[g3 b3]|] eqn:E3; [|discriminate].
  destruct (if dict_mem (u, O) (arcs g3) then Ok (g3, true) else add_arc g3 un dn 0 0) as [[g4 b4]|] eqn:E4; [|discriminate].
  assert (G4 : nodes g4 = nodes g3 /\ names g4 = names g3).
  { destruct (dict_mem (u, O) (arcs g3)).
    - inversion E4; subst; auto.
    - split; [eapply add_arc_nodes; eauto|eapply add_arc_names; eauto]. }
  destruct (add_route (with_graph st g4) (map ix [O; ni; u; O])) as [[s1 r'] res] eqn:E5.
  destruct (add_route_facts _ _ _ _ _ E5) as [Hg Ha].
  destruct res as [[feas added]|e]; [|discriminate]. destruct feas; [|discriminate].
  intros H; inversion H; subst st' r. clear H.
  destruct (add_node_nodes _ _ _ _ _ _ E1) as [N1 _]. pose proof (add_node_names _ _ _ _ _ _ E1) as M1.
  pose proof (add_arc_nodes _ _ _ _ _ _ _ E2) as N2. pose proof (add_arc_names _ _ _ _ _ _ _ E2) as M2.
  pose proof (add_arc_nodes _ _ _ _ _ _ _ E3) as N3. pose proof (add_arc_names _ _ _ _ _ _ _ E3) as M3.
  destruct G4 as [N4 M4]. rewrite Hg. cbn [pg with_graph].
  split; [|split].
  - rewrite N4, N3, N2, N1, app_length. lia.
  - intros x Hx. rewrite M4, M3, M2, M1. apply in_app_iff. auto.
  - intros A. apply Ha. apply aligned_with_graph. exact A.
Qed.

Lemma dummy_loop_aligned dum high dn us : forall st routes st' routes',
  dummy_loop dum st high dn us routes = Ok (st', routes') -> aligned st -> aligned st'.
Proof.
  induction us as [|u us IH]; simpl; intros st routes st' routes' H A.
  - inversion H; subst; auto.
  - destruct (mf_dummy dum st high dn u) as [[s1 r]|e] eqn:E; [|discriminate].
    destruct (mf_dummy_inv _ _ _ _ _ _ _ E) as (_ & _ & A1). eapply IH; eauto.
Qed.

(* mark: the index found by route_index is inside a vector that has one entry per stored route *)
Lemma route_index_lt r rs i : route_index r rs = Some i -> (i < length rs)%nat.
Proof. intros H. apply route_index_Some in H. apply nth_error_Some. congruence. Qed.

Lemma py_arcs_getitem_nat st a b :
  py_arcs_getitem st (py_key (a, b)) =
  match dict_get (a, b) (arcs (pg st)) with Some x => Ok x | None => Err KeyError end.
Proof. unfold py_arcs_getitem, py_key, ix. cbn [fst snd]. rewrite arc_get_nat. reflexivity. Qed.

(* ---------- make_feasible keeps the stored lists aligned ---------- *)
Lemma mf_path_aligned choose dum st high st' x :
  mf_path choose dum st high = Ok (st', x) -> aligned st -> aligned st'.
Proof.
  unfold mf_path. cbv zeta. intros H A.
  destruct (Nat.eqb (length (nodes (pg st))) 0); [discriminate|].
  destruct (arb_loop _ _ _ _ _ _) as [[[st1 unv] routes]|e] eqn:Ea; [|discriminate].
  destruct (arb_loop_inv _ (fun _ => True) _ _ _ _ _ _ _ _ Ea) as (_ & Hal & _).
  destruct (remove_first 0 unv) as [unv'|]; [|discriminate].
  destruct (nth_error (names (pg st1)) 0) as [dn|]; [|discriminate].
  destruct (dummy_loop dum st1 high dn unv' routes) as [[st2 routes']|e] eqn:Ed; [|discriminate].
  destruct (mark _ _ _); [|discriminate]. inversion H; subst.
  eapply dummy_loop_aligned; eauto.
Qed.

Lemma combine_fst_snd {A B} (d : list (A * B)) : combine (map fst d) (map snd d) = d.
Proof. induction d as [|[a b] d IH]; simpl; congruence. Qed.

(* a loop that appends f(i) for every i, stopping at the first exception = traverse *)
Lemma py_for_append_traverse {X Y} (f : X -> result Y) (body : X -> list Y -> lctl (list Y)) :
  (forall i acc, body i acc = match f i with Ok y => LNext (acc ++ [y]) | Err e => LRaise e end) ->
  forall l acc, py_for l body acc = match traverse f l with Ok ys => Ok (acc ++ ys) | Err e => Err e end.
Proof.
  intros Hb. induction l as [|i l IH]; intros acc; simpl.
  - rewrite app_nil_r. reflexivity.
  - rewrite Hb. destruct (f i) as [y|e]; [|reflexivity].
    rewrite IH. destruct (traverse f l) as [ys|e]; [|reflexivity].
    rewrite <- app_assoc. reflexivity.
Qed.
