(* LinAlg.v -- finite sums, vectors and matrices over an arbitrary commutative ring with
   Leibniz equality.  Vectors are functions nat -> K, matrices nat -> nat -> K, sizes are
   explicit.  Everything is stated inside a Section over the ring; the instances used by
   the models (Z, Qc, R) are obtained by application after the section is closed. *)
From Coq Require Import Ring Arith Lia List.
From Coq Require Export Ring_theory.
Import ListNotations.

Section LinAlg.
  Variables (K : Type) (k0 k1 : K) (kadd kmul ksub : K -> K -> K) (kopp : K -> K).
  Hypothesis Kring : ring_theory k0 k1 kadd kmul ksub kopp (@eq K).
  Add Ring Kr : Kring.

  Notation "0" := k0.
  Notation "1" := k1.
  Infix "+" := kadd.
  Infix "*" := kmul.
  Infix "-" := ksub.
  Notation "- x" := (kopp x).

  (* sum_n n f = f 0 + ... + f (n-1) *)
  Fixpoint sum_n (n : nat) (f : nat -> K) : K :=
    match n with
    | O => 0
    | S m => sum_n m f + f m
    end.

  Lemma sum_ext n f g : (forall i, (i < n)%nat -> f i = g i) -> sum_n n f = sum_n n g.
  Proof.
    induction n as [|n IH]; simpl; intros H; auto.
    rewrite IH, H; auto.
  Qed.

  Lemma sum_zero n : sum_n n (fun _ => 0) = 0.
  Proof. induction n as [|n IH]; simpl; auto. rewrite IH. ring. Qed.

  Lemma sum_add n f g : sum_n n (fun i => f i + g i) = sum_n n f + sum_n n g.
  Proof. induction n as [|n IH]; simpl; [ring|]. rewrite IH. ring. Qed.

  Lemma sum_sub n f g : sum_n n (fun i => f i - g i) = sum_n n f - sum_n n g.
  Proof. induction n as [|n IH]; simpl; [ring|]. rewrite IH. ring. Qed.

  Lemma sum_opp n f : sum_n n (fun i => - f i) = - sum_n n f.
  Proof. induction n as [|n IH]; simpl; [ring|]. rewrite IH. ring. Qed.

  Lemma sum_scal_l n c f : sum_n n (fun i => c * f i) = c * sum_n n f.
  Proof. induction n as [|n IH]; simpl; [ring|]. rewrite IH. ring. Qed.

  Lemma sum_scal_r n c f : sum_n n (fun i => f i * c) = sum_n n f * c.
  Proof. induction n as [|n IH]; simpl; [ring|]. rewrite IH. ring. Qed.

  (* Fubini for finite sums *)
  Lemma sum_swap n m (f : nat -> nat -> K) :
    sum_n n (fun i => sum_n m (fun j => f i j)) = sum_n m (fun j => sum_n n (fun i => f i j)).
  Proof.
    induction n as [|n IH]; simpl.
    - symmetry. apply sum_zero.
    - rewrite IH. rewrite <- sum_add. reflexivity.
  Qed.

  (* Kronecker delta picks one term *)
  Lemma sum_delta n k f :
    (k < n)%nat -> sum_n n (fun i => if Nat.eqb i k then f i else 0) = f k.
  Proof.
    induction n as [|n IH]; intros Hk; [lia|]. simpl.
    destruct (Nat.eqb_spec n k) as [->|Hne].
    - rewrite (sum_ext k _ (fun _ => 0)).
      + rewrite sum_zero. ring.
      + intros i Hi. destruct (Nat.eqb_spec i k); [lia|reflexivity].
    - rewrite IH by lia. ring.
  Qed.

  Lemma sum_delta_out n k f :
    (n <= k)%nat -> sum_n n (fun i => if Nat.eqb i k then f i else 0) = 0.
  Proof.
    intros Hk. rewrite (sum_ext n _ (fun _ => 0)); [apply sum_zero|].
    intros i Hi. destruct (Nat.eqb_spec i k); [lia|reflexivity].
  Qed.

  Lemma sum_delta' n k f :
    (k < n)%nat -> sum_n n (fun i => if Nat.eqb k i then f i else 0) = f k.
  Proof.
    intros Hk. rewrite <- (sum_delta n k f Hk). apply sum_ext. intros i _.
    rewrite Nat.eqb_sym. reflexivity.
  Qed.

  (* ---------- vectors, matrices ---------- *)
  Definition vec := nat -> K.
  Definition mat := nat -> nat -> K.

  Definition dot (n : nat) (u v : vec) : K := sum_n n (fun i => u i * v i).
  (* (M v)_i  for an r x n matrix *)
  Definition mv (n : nat) (M : mat) (v : vec) : vec := fun i => sum_n n (fun j => M i j * v j).
  (* quadratic form  x' M x *)
  Definition qf (n : nat) (M : mat) (x : vec) : K :=
    sum_n n (fun i => sum_n n (fun j => M i j * x i * x j)).
  Definition transpose (M : mat) : mat := fun i j => M j i.
  Definition trace (n : nat) (M : mat) : K := sum_n n (fun i => M i i).
  Definition total (n : nat) (M : mat) : K := sum_n n (fun i => sum_n n (fun j => M i j)).

  Definition binary (n : nat) (x : vec) : Prop := forall i, (i < n)%nat -> x i = 0 \/ x i = 1.
  Definition spin (n : nat) (s : vec) : Prop := forall i, (i < n)%nat -> s i = 1 \/ s i = - (1).

  Lemma binary_sq n x i : binary n x -> (i < n)%nat -> x i * x i = x i.
  Proof. intros H Hi. destruct (H i Hi) as [E|E]; rewrite E; ring. Qed.

  Lemma spin_sq n s i : spin n s -> (i < n)%nat -> s i * s i = 1.
  Proof. intros H Hi. destruct (H i Hi) as [E|E]; rewrite E; ring. Qed.

  Lemma qf_ext n M N x :
    (forall i j, (i < n)%nat -> (j < n)%nat -> M i j = N i j) -> qf n M x = qf n N x.
  Proof.
    intros H. unfold qf. apply sum_ext; intros i Hi. apply sum_ext; intros j Hj.
    rewrite H; auto.
  Qed.

  Lemma qf_add n M N x : qf n (fun i j => M i j + N i j) x = qf n M x + qf n N x.
  Proof.
    unfold qf. rewrite <- sum_add. apply sum_ext; intros i _.
    rewrite <- sum_add. apply sum_ext; intros j _. ring.
  Qed.

  Lemma qf_scal n c M x : qf n (fun i j => c * M i j) x = c * qf n M x.
  Proof.
    unfold qf. rewrite <- sum_scal_l. apply sum_ext; intros i _.
    rewrite <- sum_scal_l. apply sum_ext; intros j _. ring.
  Qed.

  Lemma qf_transpose n M x : qf n (transpose M) x = qf n M x.
  Proof.
    unfold qf, transpose. rewrite sum_swap. apply sum_ext; intros i _.
    apply sum_ext; intros j _. ring.
  Qed.

  (* a diagonal matrix contributes  sum_i d_i x_i^2 *)
  Lemma qf_diag n (d : vec) x :
    qf n (fun i j => if Nat.eqb i j then d i else 0) x = sum_n n (fun i => d i * x i * x i).
  Proof.
    unfold qf. apply sum_ext; intros i Hi.
    rewrite (sum_ext n _ (fun j => if Nat.eqb i j then d i * x i * x j else 0)).
    - rewrite sum_delta'; auto.
    - intros j _. destruct (Nat.eqb i j); ring.
  Qed.

  Lemma qf_diag_binary n (d : vec) x :
    binary n x -> qf n (fun i j => if Nat.eqb i j then d i else 0) x = dot n d x.
  Proof.
    intros Hb. rewrite qf_diag. unfold dot. apply sum_ext; intros i Hi.
    rewrite <- (binary_sq n x i Hb Hi) at 3. ring.
  Qed.

  (* |Ax - b|^2 expanded:  x'A'Ax - 2 b'Ax + b'b   (A is m x n) *)
  Definition AtA (m : nat) (A : mat) : mat := fun i j => sum_n m (fun k => A k i * A k j).
  Definition Atb (m : nat) (A : mat) (b : vec) : vec := fun i => sum_n m (fun k => A k i * b k).
  Definition resid_sq (m n : nat) (A : mat) (b x : vec) : K :=
    sum_n m (fun k => (mv n A x k - b k) * (mv n A x k - b k)).

  Lemma qf_AtA m n A x : qf n (AtA m A) x = sum_n m (fun k => mv n A x k * mv n A x k).
  Proof.
    unfold qf, AtA, mv.
    transitivity (sum_n n (fun i => sum_n n (fun j => sum_n m (fun k => (A k i * x i) * (A k j * x j))))).
    { apply sum_ext; intros i _. apply sum_ext; intros j _.
      rewrite <- !sum_scal_r. apply sum_ext; intros k _. ring. }
    transitivity (sum_n n (fun i => sum_n m (fun k => sum_n n (fun j => (A k i * x i) * (A k j * x j))))).
    { apply sum_ext; intros i _. apply sum_swap. }
    rewrite sum_swap. apply sum_ext; intros k _.
    rewrite <- sum_scal_r. apply sum_ext; intros i _.
    rewrite <- sum_scal_l. reflexivity.
  Qed.

  Lemma dot_Atb m n A b x : dot n (Atb m A b) x = sum_n m (fun k => b k * mv n A x k).
  Proof.
    unfold dot, Atb, mv.
    transitivity (sum_n n (fun i => sum_n m (fun k => b k * (A k i * x i)))).
    { apply sum_ext; intros i _. rewrite <- sum_scal_r. apply sum_ext; intros k _. ring. }
    rewrite sum_swap. apply sum_ext; intros k _. rewrite <- sum_scal_l. reflexivity.
  Qed.

  Lemma resid_sq_expand m n A b x :
    resid_sq m n A b x =
    qf n (AtA m A) x - (1 + 1) * dot n (Atb m A b) x + dot m b b.
  Proof.
    unfold resid_sq. rewrite qf_AtA, dot_Atb. unfold dot.
    rewrite <- sum_scal_l, <- sum_sub, <- sum_add.
    apply sum_ext; intros k _. ring.
  Qed.
End LinAlg.

Arguments sum_n {K} k0 kadd n f.
