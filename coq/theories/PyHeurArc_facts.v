(* PyHeurArc_facts.v -- lemmas about the object record of PyHeurArc.v, the encodings used by the equality
   proofs of coq/genprops/C09_arc_gen.v, and frame facts of the hand model Heur_arc.mf_arc.  Nothing here
   mentions a generated definition.  [C09] *)
From Coq Require Import ZArith List Bool Lia Arith ZifyBool.
From VQ Require Import Base Vrptw Vrptw_facts Arc Arc_facts Path Path_facts Heur Heur_facts Heur_arc Heur_arc_facts.
From VQ Require Import PyEnumCore PyArc PyHeur PyHeur_facts PyHeurArc.
Import ListNotations.

(* the generated procedure keeps arrival times as floats that may be inf (best_arrival starts as np.inf);
   the hand model keeps integers: a used move (i, s, j, t) is (i, s, j, Fin t) on the generated side *)
Definition ext4 (v : var) : nat * Z * nat * ext :=
  match v with (i, s, j, t) => (i, s, j, Fin t) end.
(* (best_node, best_arrival) of the scan against the hand model's option (node, arrival) *)
Definition enc_best (b : option (nat * Z)) : option nat * ext :=
  match b with None => (None, PInf) | Some (n, a) => (Some n, Fin a) end.

Lemma ext_leb_min x h b : ext_leb x (PyEnumCore.ext_min h b) = ext_leb x h && ext_leb x b.
Proof.
  unfold PyEnumCore.ext_min. destruct x as [x|], h as [h|], b as [b|]; cbn; try reflexivity;
    try (destruct (h <=? b)%Z eqn:E; cbn); lia.
Qed.

(* ---------- the object ---------- *)
Lemma ha_set_a_id s : ha_set_a (ha_a s) s = s.
Proof. destruct s; reflexivity. Qed.

Lemma ha_holds_graph self I : ha_holds self I -> ha_graph self = ig I.
Proof. intros [[A _] _]. exact A. Qed.
Lemma ha_holds_tp self I : ha_holds self I -> ha_time_points self = tp I.
Proof. intros [[_ B] _]. exact B. Qed.

(* an object whose enumeration flag is down is coherent, whatever it holds *)
Lemma ha_holds_stale self I :
  ha_variables_enumerated self = false -> ha_graph self = ig I -> ha_time_points self = tp I -> ha_holds self I.
Proof.
  intros E G T. split; [split; assumption|]. intros Ht. unfold ha_variables_enumerated in E. congruence.
Qed.

Lemma ha_fresh_holds I : ha_holds (ha_fresh I) I.
Proof. apply ha_holds_stale; reflexivity. Qed.

(* the cache discipline of the two build flags the hand model does not have: a flag that is up after a step
   was up before it, and the step did not change the graph *)
Definition ha_flags_ok (self self' : ha) : Prop :=
  (ha_objective_built self' = true -> ha_objective_built self = true /\ ha_graph self' = ha_graph self) /\
  (ha_constraints_built self' = true -> ha_constraints_built self = true /\ ha_graph self' = ha_graph self).
Lemma ha_flags_ok_refl s : ha_flags_ok s s.
Proof. split; auto. Qed.
Lemma ha_flags_ok_trans a b c : ha_flags_ok a b -> ha_flags_ok b c -> ha_flags_ok a c.
Proof.
  intros [A1 A2] [B1 B2]. split; intros H.
  - destruct (B1 H) as [H1 E1]. destruct (A1 H1) as [H2 E2]. split; congruence.
  - destruct (B2 H) as [H1 E1]. destruct (A2 H1) as [H2 E2]. split; congruence.
Qed.
Lemma ha_flags_ok_down s s' :
  ha_objective_built s' = false -> ha_constraints_built s' = false -> ha_flags_ok s s'.
Proof. intros A B. split; intros H; congruence. Qed.
Lemma ha_flags_ok_after_down s0 s s' :
  ha_objective_built s = false -> ha_constraints_built s = false -> ha_flags_ok s s' -> ha_flags_ok s0 s'.
Proof. intros A B [C1 C2]. split; intros H; [destruct (C1 H)|destruct (C2 H)]; congruence. Qed.


(* ---------- simulations: generated loop outcome / hand model outcome ---------- *)
(* the `while building_route` loop: state (used_arcs, current_node, current_time, unvisited, building_route) *)
Definition while_sim (rg : result (list (nat * Z * nat * ext) * nat * Z * list nat * bool))
           (rh : result (list nat * list var)) : Prop :=
  match rh with
  | Err e => rg = Err e
  | Ok (unv', used') => exists cur' time' b, rg = Ok (map ext4 used', cur', time', unv', b)
  end.
(* loops that do not change the object: (used_arcs, unvisited) *)
Definition veh_sim (rg : result (list (nat * Z * nat * ext) * list nat)) (rh : result (list nat * list var)) : Prop :=
  match rh with
  | Err e => rg = Err e
  | Ok (unv', used') => rg = Ok (map ext4 used', unv')
  end.
(* the dummy loop: (self, used_arcs) against (graph, used) *)
Definition dum_sim (grid : list Z) (self : ha) (rg : result (ha * list (nat * Z * nat * ext)))
           (rh : result (graph * list var)) : Prop :=
  match rh with
  | Err e => rg = Err e
  | Ok (g', used') => exists self', rg = Ok (self', map ext4 used') /\ ha_holds self' (mkInst g' grid) /\
                                     ha_flags_ok self self'
  end.
(* check_and_add_exit_arc(n, cost) on the graph, as Heur_arc.arc_dummies has it inline (there the two names
   were read before; a missing name is an IndexError of the subscript) *)
Definition exit_arc_model (g : graph) (n : nat) (cost : Z) : result graph :=
  if dict_mem (n, O) (arcs g) then Ok g
  else match nth_error (names g) n, nth_error (names g) O with
       | Some nn, Some dn => add_arc_assert g nn dn cost
       | _, _ => Err IndexError
       end.
Definition exit_sim (grid : list Z) (self : ha) (rg : result (ha * unit)) (rh : result graph) : Prop :=
  match rh with
  | Err e => rg = Err e
  | Ok g' => exists self', rg = Ok (self', Datatypes.tt) /\ ha_holds self' (mkInst g' grid) /\ ha_flags_ok self self'
  end.
Definition next_of {S} (rg : result (ctl * S)) (rs : result S) : Prop :=
  match rs with
  | Ok st => rg = Ok (CNext, st)
  | Err e => rg = Err e
  end.
Lemma py_forM_cons_next {A S} (body : A -> S -> result (ctl * S)) x l st rs :
  next_of (body x st) rs -> py_forM body (x :: l) st = py_bind rs (py_forM body l).
Proof. unfold next_of. intros H. cbn [py_forM]. destruct rs; rewrite H; reflexivity. Qed.

(* outcome of the generated make_feasible against the outcome of Heur_arc.mf_arc *)
Definition mf_sim (self : ha) (rg : result (ha * unit)) (rh : result (inst * list Z)) : Prop :=
  match rh with
  | Err e => rg = Err e
  | Ok (I', x) => exists self', rg = Ok (self', Datatypes.tt) /\ ha_holds self' I' /\ ha_feasible_solution self' = x /\
                                ha_flags_ok self self'
  end.
Lemma mf_sim_obs self rg rh : mf_sim self rg rh -> ha_obs rg = mf_arc_obs rh.
Proof.
  unfold mf_sim. destruct rh as [[I' x]|e].
  - intros (self' & -> & [[A B] _] & <- & _). cbn. unfold ha_graph, ha_time_points. rewrite A, B. reflexivity.
  - intros ->. reflexivity.
Qed.

(* ---------- frame facts of the hand model ---------- *)
Lemma route_loop_length I fuel : forall cur time unv used unv' used',
  route_loop fuel I cur time unv used = Ok (unv', used') -> (length unv' <= length unv)%nat.
Proof.
  induction fuel as [|f IH]; intros cur time unv used unv' used' H; cbn [route_loop] in H; [discriminate|].
  destruct (pick_best I cur time unv) as [[n a]|].
  - destruct (remove_first n unv) as [unv1|] eqn:Er; [|discriminate].
    pose proof (remove_first_length _ _ _ Er). pose proof (IH _ _ _ _ _ _ H). lia.
  - destruct (Nat.eqb cur 0); [inversion H; subst; lia|].
    destruct (negb (dict_mem (cur, 0%nat) (arcs (ig I)))); [discriminate|].
    destruct (arrival_time I time cur 0) as [a [|]]; [|discriminate]. inversion H; subst; lia.
Qed.

(* a successful asserted add_arc between existing nodes: the key is the pair of positions *)
Lemma add_arc_assert_key g i j dn nn c g' :
  Inv g -> nth_error (names g) i = Some dn -> nth_error (names g) j = Some nn ->
  add_arc_assert g dn nn c = Ok g' ->
  Inv g' /\ dict_mem (i, j) (arcs g') = true /\ names g' = names g /\ nodes g' = nodes g.
Proof.
  intros HI Hi Hj H. destruct (add_arc_assert_nodes _ _ _ _ _ H) as [Nd Nm].
  unfold add_arc_assert in H. destruct (add_arc g dn nn 0 c) as [[g1 [|]]|e] eqn:Ea; try discriminate.
  inversion H; subst g1. split; [exact (add_arc_gen_inv _ _ _ _ _ _ _ _ HI Ea)|]. split; [|auto].
  unfold add_arc, add_arc_gen in Ea.
  rewrite (index_of_nth_error_NoDup _ (inv_nodup _ HI) _ _ Hi), (index_of_nth_error_NoDup _ (inv_nodup _ HI) _ _ Hj) in Ea.
  match type of Ea with (if ?c then _ else _) = _ => destruct c end; inversion Ea; subst.
  cbn [arcs]. apply dict_mem_set_same.
Qed.
