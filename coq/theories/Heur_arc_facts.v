(* Heur_arc_facts.v -- the arc-based feasibility heuristic (Heur_arc.mf_arc): whenever it returns normally the
   used tuples split into depot-to-depot chains whose consecutive moves share (node, time) and in which every
   customer is the destination of exactly one move, all of them are variables of the new instance, and the
   stored vector is their indicator; hence (C05_routes_feasible) A x = b.  The fuel of the `while` loop
   never runs out.  [C09] *)
From Coq Require Import ZArith List Bool Lia ZifyBool Permutation.
From VQ Require Import Base Vrptw Vrptw_facts Arc Arc_ref Arc_facts Arc_routes Arc_complete Heur_arc.
From VQ Require Path Path_facts Heur Heur_facts.
Import ListNotations.
Open Scope Z_scope.

(* ================= small facts ================= *)
Lemma chained_snoc : forall l d e, l <> [] -> chained l -> dest (last l d) = orig e -> chained (l ++ [e]).
Proof.
  induction l as [|a l IH]; intros d e Hne Hc Hd; [congruence|]. destruct l as [|b l].
  - simpl in *. auto.
  - destruct Hc as [H1 H2]. change ((a :: b :: l) ++ [e]) with (a :: ((b :: l) ++ [e])).
    change (chained (a :: ((b :: l) ++ [e]))) with (dest a = orig b /\ chained ((b :: l) ++ [e])).
    split; [exact H1|]. apply (IH d); [discriminate|exact H2|exact Hd].
Qed.

Lemma last_snoc_var (l : list var) (e d : var) : last (l ++ [e]) d = e.
Proof. apply last_last. Qed.

Lemma memb_notIn x l : memb x l = false <-> ~ In x l.
Proof. apply Path_facts.memb_false_notIn. Qed.

Lemma cnt_snoc P (l : list var) a : cnt P (l ++ [a]) = (cnt P l + (if P a then 1 else 0))%nat.
Proof. rewrite cnt_app. f_equal. unfold cnt. simpl. destruct (P a); reflexivity. Qed.

Lemma cnt_zero_notin j (l : list var) a : cnt (into_node j) l = O -> dnode a = j -> ~ In a l.
Proof.
  intros H Hd Hin. pose proof (cnt_zero _ _ H a Hin) as E.
  assert (into_node j a = true) by (apply into_node_true; exact Hd). congruence.
Qed.

Lemma pick_best_In I cur time unv n a : pick_best I cur time unv = Some (n, a) -> In n unv.
Proof.
  unfold pick_best.
  assert (G : forall best0,
             fold_left (fun best n0 =>
               if dict_mem (cur, n0) (arcs (ig I)) then
                 match arrival_time I time cur n0 with
                 | (_, false) => best
                 | (a0, true) =>
                     if ext_leb (Fin a0) (win_hi (ig I) n0) &&
                        match best with None => true | Some (_, b) => a0 <=? b end
                     then Some (n0, a0) else best
                 end
               else best) unv best0 = Some (n, a) -> In n unv \/ best0 = Some (n, a)).
  { induction unv as [|m unv IH]; cbn [fold_left]; intros best0 H; [auto|].
    destruct (IH _ H) as [H1|H1]; [left; right; exact H1|].
    destruct (dict_mem (cur, m) (arcs (ig I))); [|auto].
    destruct (arrival_time I time cur m) as [a0 [|]]; [|auto].
    match type of H1 with (if ?c then _ else _) = _ => destruct c end; [|auto].
    inversion H1; subst. left; left; reflexivity. }
  intros H. destruct (G None H) as [H1|H1]; [exact H1|discriminate].
Qed.

(* ================= the invariant of the route construction ================= *)
Definition open_chain (part : list var) (cur : nat) (time : Z) : Prop :=
  match part with
  | [] => cur = O
  | a :: tl => onode a = O /\ chained part /\ dest (last tl a) = (cur, time) /\ cur <> O
  end.

Record RInv (N : nat) (unv : list nat) (closed : list (list var)) (part : list var) (cur : nat) (time : Z)
  : Prop := {
  ri_walks : Forall walk closed;
  ri_nodup : NoDup (concat closed ++ part);
  ri_unv : NoDup unv;
  ri_rng : forall n, In n unv -> (1 <= n < N)%nat;
  ri_cur : ~ In cur unv;
  ri_part : open_chain part cur time;
  ri_orig : forall a, In a (concat closed ++ part) -> ~ In (onode a) unv /\ (cur <> O -> onode a <> cur);
  ri_into : forall j, (1 <= j < N)%nat ->
            cnt (into_node j) (concat closed ++ part) = if memb j unv then O else 1%nat
}.

Lemma concat_snoc {A} (ls : list (list A)) l : concat (ls ++ [l]) = concat ls ++ l.
Proof. rewrite concat_app. simpl. rewrite app_nil_r. reflexivity. Qed.

Lemma route_loop_spec N I fuel : forall cur time unv used closed part unv' used',
  route_loop fuel I cur time unv used = Ok (unv', used') ->
  used = concat closed ++ part -> RInv N unv closed part cur time ->
  exists closed', used' = concat closed' /\ RInv N unv' closed' [] O 0.
Proof.
  induction fuel as [|f IH]; intros cur time unv used closed part unv' used' H Hused HR; [discriminate|].
  cbn [route_loop] in H.
  destruct (pick_best I cur time unv) as [[n a]|] eqn:Ep.
  - (* a customer is entered *)
    pose proof (pick_best_In _ _ _ _ _ _ Ep) as Hn.
    destruct (Heur.remove_first n unv) as [unv1|] eqn:Er; [|discriminate].
    destruct (Heur_facts.remove_first_spec _ _ _ Er) as (_ & R2 & R3 & R4).
    destruct HR as [W ND U RG CU PT OR IN]. destruct (R4 U) as [R5 R6].
    set (m := (cur, time, n, a)).
    assert (Hn0 : n <> O) by (specialize (RG n Hn); lia).
    assert (Hcn : cur <> n) by (intros ->; exact (CU Hn)).
    apply (IH n a unv1 (used ++ [m]) closed (part ++ [m]) unv' used' H).
    { rewrite Hused, app_assoc. reflexivity. }
    constructor.
    + exact W.
    + rewrite app_assoc. apply NoDup_snoc; [exact ND|].
      apply (cnt_zero_notin n); [|reflexivity].
      rewrite (IN n (RG n Hn)). apply memb_In in Hn. rewrite Hn. reflexivity.
    + exact R5.
    + intros k Hk. apply RG. apply R2. exact Hk.
    + exact R6.
    + unfold open_chain in *. destruct part as [|p0 tl].
      * subst cur. cbn [app]. split; [reflexivity|]. split; [exact Logic.I|]. split; [reflexivity|exact Hn0].
      * destruct PT as (P1 & P2 & P3 & P4). cbn [app].
        split; [exact P1|]. split.
        { change (p0 :: tl ++ [m]) with ((p0 :: tl) ++ [m]). apply (chained_snoc _ p0); [discriminate|exact P2|].
          rewrite last_cons_default. rewrite P3. reflexivity. }
        split; [rewrite last_last; reflexivity|exact Hn0].
    + intros b Hb. rewrite app_assoc in Hb. apply in_app_iff in Hb. destruct Hb as [Hb|[<-|[]]].
      * destruct (OR b Hb) as [O1 O2]. split; [intros Hc; apply O1; apply R2; exact Hc|].
        intros _ Hc. apply O1. rewrite Hc. exact Hn.
      * cbn [onode orig m fst]. split; [intros Hc; apply CU; apply R2; exact Hc|]. intros _. exact Hcn.
    + intros j Hj. rewrite app_assoc, cnt_snoc, (IN j Hj).
      destruct (Nat.eq_dec j n) as [->|Hjn].
      * assert (E : into_node n m = true) by (apply into_node_true; reflexivity). rewrite E.
        apply memb_In in Hn. rewrite Hn. apply memb_notIn in R6. rewrite R6. reflexivity.
      * assert (E : into_node j m = false).
        { destruct (into_node j m) eqn:E; [|reflexivity]. apply into_node_true in E. cbn in E. congruence. }
        rewrite E, Nat.add_0_r.
        destruct (memb j unv) eqn:E1; destruct (memb j unv1) eqn:E2; try reflexivity; exfalso.
        -- apply memb_In in E1. apply memb_notIn in E2. apply E2. apply R3; auto.
        -- apply memb_In in E2. apply R2 in E2. apply memb_In in E2. congruence.
  - destruct (Nat.eqb_spec cur 0) as [Hc0|Hc0].
    + (* the vehicle stays at the depot *)
      inversion H; subst unv' used'; clear H. exists closed.
      destruct HR as [W ND U RG CU PT OR IN].
      assert (part = []). { destruct part as [|p0 tl]; [reflexivity|]. destruct PT as (_ & _ & _ & P4). contradiction. }
      subst part. rewrite app_nil_r in *. split; [exact Hused|].
      constructor; rewrite ?app_nil_r; auto.
      * intros Hin. specialize (RG _ Hin). lia.
      * exact eq_refl.
      * intros b Hb. destruct (OR b Hb) as [O1 _]. split; [exact O1|]. intros Hc; congruence.
    + (* back to the depot *)
      destruct (negb (dict_mem (cur, O) (arcs (ig I)))); [discriminate|].
      destruct (arrival_time I time cur O) as [a [|]]; [|discriminate].
      inversion H; subst unv' used'; clear H.
      destruct HR as [W ND U RG CU PT OR IN].
      set (e := (cur, time, O, a)).
      destruct part as [|p0 tl]; [simpl in PT; contradiction|].
      destruct PT as (P1 & P2 & P3 & P4).
      exists (closed ++ [(p0 :: tl) ++ [e]]). split; [rewrite concat_snoc, app_assoc, Hused; reflexivity|].
      constructor; rewrite ?app_nil_r, ?concat_snoc, ?app_assoc.
      * apply Forall_app. split; [exact W|]. constructor; [|constructor].
        change ((p0 :: tl) ++ [e]) with (p0 :: (tl ++ [e])). unfold walk.
        split; [exact P1|]. split; [rewrite last_last; reflexivity|].
        change (p0 :: tl ++ [e]) with ((p0 :: tl) ++ [e]). apply (chained_snoc _ p0); [discriminate|exact P2|].
        rewrite last_cons_default, P3. reflexivity.
      * apply NoDup_snoc; [exact ND|]. intros Hin. destruct (OR e Hin) as [_ O2]. apply (O2 P4). reflexivity.
      * exact U.
      * exact RG.
      * intros Hin. specialize (RG _ Hin). lia.
      * exact eq_refl.
      * intros b Hb. apply in_app_iff in Hb. split; [|intros Hc; congruence].
        destruct Hb as [Hb|[<-|[]]]; [apply (OR b Hb)|]. exact CU.
      * intros j Hj. rewrite cnt_snoc, (IN j Hj).
        assert (E : into_node j e = false).
        { destruct (into_node j e) eqn:E; [|reflexivity]. apply into_node_true in E. cbn in E. lia. }
        rewrite E. lia.
Qed.

(* the fuel given by arc_vehicles never runs out *)
Lemma route_loop_fuel I fuel : forall cur time unv used,
  (length unv < fuel)%nat -> route_loop fuel I cur time unv used <> Err OtherError.
Proof.
  induction fuel as [|f IH]; intros cur time unv used Hf; [lia|].
  cbn [route_loop]. destruct (pick_best I cur time unv) as [[n a]|] eqn:Ep.
  - destruct (Heur.remove_first n unv) as [unv1|] eqn:Er; [|discriminate].
    apply IH.
    assert (Hl : length unv = S (length unv1)).
    { clear - Er. revert unv1 Er. induction unv as [|y l IHl]; simpl; intros u1 E; [discriminate|].
      destruct (Nat.eqb n y); [inversion E; reflexivity|].
      destruct (Heur.remove_first n l) as [l1|]; simpl in E; [|discriminate]. inversion E; subst. simpl.
      rewrite (IHl l1 eq_refl). reflexivity. }
    lia.
  - destruct (Nat.eqb cur 0); [discriminate|].
    destruct (negb (dict_mem (cur, O) (arcs (ig I)))); [discriminate|].
    destruct (arrival_time I time cur O) as [a [|]]; discriminate.
Qed.

Lemma arc_vehicles_spec N I k : forall unv used closed unv' used',
  arc_vehicles k I unv used = Ok (unv', used') ->
  used = concat closed -> RInv N unv closed [] O 0 ->
  exists closed', used' = concat closed' /\ RInv N unv' closed' [] O 0.
Proof.
  induction k as [|k IH]; intros unv used closed unv' used' H Hused HR.
  - simpl in H. inversion H; subst. eauto.
  - cbn [arc_vehicles] in H. destruct (tp I) as [|t0 tps]; [discriminate|].
    destruct (route_loop (S (length unv)) I O t0 unv used) as [[unv1 used1]|e] eqn:El; [|discriminate].
    destruct (route_loop_spec N I _ _ _ _ _ closed [] _ _ El) as (closed1 & U1 & R1).
    { rewrite app_nil_r. exact Hused. }
    { destruct HR as [W ND U RG CU PT OR IN]. constructor; auto. }
    apply (IH _ _ closed1 _ _ H U1 R1).
Qed.

Lemma arc_vehicles_fuel I k : forall unv used, arc_vehicles k I unv used <> Err OtherError.
Proof.
  induction k as [|k IH]; intros unv used; [discriminate|]. cbn [arc_vehicles].
  destruct (tp I) as [|t0 tps]; [discriminate|].
  destruct (route_loop (S (length unv)) I O t0 unv used) as [[unv1 used1]|e] eqn:El; [apply IH|].
  intros E. inversion E; subst e. apply (route_loop_fuel I (S (length unv)) O t0 unv used); [lia|exact El].
Qed.

(* ---------- the dummy routes ---------- *)
Lemma add_arc_assert_nodes g o d c g' : add_arc_assert g o d c = Ok g' -> nodes g' = nodes g /\ names g' = names g.
Proof.
  unfold add_arc_assert, add_arc, add_arc_gen.
  destruct (index_of o (names g)); [|discriminate]. destruct (index_of d (names g)); [|discriminate].
  match goal with |- context [if ?c then Ok _ else Ok _] => destruct c end; intros H; inversion H; subst; auto.
Qed.

Lemma arc_dummies_spec N high grid us : forall g used closed g' used',
  arc_dummies high g grid us used = Ok (g', used') ->
  used = concat closed -> RInv N us closed [] O 0 ->
  nodes g' = nodes g /\
  exists closed', used' = concat closed' /\ RInv N [] closed' [] O 0.
Proof.
  induction us as [|n us IH]; intros g used closed g' used' H Hused HR.
  - simpl in H. inversion H; subst. split; [reflexivity|]. eauto.
  - cbn [arc_dummies] in H.
    destruct (nth_error (names g) 0) as [dn|]; [|discriminate].
    destruct (nth_error (names g) n) as [nn|]; [|discriminate].
    destruct (dict_mem (O, n) (arcs g)); [discriminate|].
    destruct (add_arc_assert g dn nn high) as [g1|e] eqn:E1; [|discriminate].
    destruct (tp (mkInst g1 grid)) as [|t0 tps]; [discriminate|].
    destruct (arrival_time (mkInst g1 grid) t0 O n) as [a1 [|]]; [|discriminate].
    destruct (if dict_mem (n, O) (arcs g1) then Ok g1 else add_arc_assert g1 nn dn high) as [g2|e] eqn:E2; [|discriminate].
    destruct (arrival_time (mkInst g2 grid) a1 n O) as [a2 [|]]; [|discriminate].
    set (m1 := (O, t0, n, a1)) in *. set (m2 := (n, a1, O, a2)) in *.
    assert (N2 : nodes g2 = nodes g).
    { destruct (add_arc_assert_nodes _ _ _ _ _ E1) as [A1 _].
      destruct (dict_mem (n, O) (arcs g1)); [inversion E2; subst; exact A1|].
      destruct (add_arc_assert_nodes _ _ _ _ _ E2) as [A2 _]. congruence. }
    destruct HR as [W ND U RG CU PT OR IN]. rewrite app_nil_r in *.
    inversion U as [|? ? Hnu Hnd]; subst.
    assert (Hn : (1 <= n < N)%nat) by (apply RG; left; reflexivity).
    destruct (IH g2 (concat closed ++ [m1; m2]) (closed ++ [[m1; m2]]) g' used' H) as (Hnodes & closed' & U' & R').
    { rewrite concat_snoc. reflexivity. }
    { assert (F1 : ~ In m1 (concat closed)).
      { apply (cnt_zero_notin n); [|reflexivity]. rewrite (IN n Hn). simpl. rewrite Nat.eqb_refl. reflexivity. }
      assert (F2 : ~ In m2 (concat closed)).
      { intros Hin. destruct (OR m2 Hin) as [O1 _]. apply O1. left. reflexivity. }
      constructor; rewrite ?app_nil_r, ?concat_snoc.
      - apply Forall_app. split; [exact W|]. constructor; [|constructor].
        unfold walk. split; [reflexivity|]. split; [reflexivity|]. split; [reflexivity|exact Logic.I].
      - change [m1; m2] with ([m1] ++ [m2]). rewrite app_assoc. apply NoDup_snoc; [apply NoDup_snoc; auto|].
        intros Hin. apply in_app_iff in Hin. destruct Hin as [Hin|[Hin|[]]]; [exact (F2 Hin)|].
        unfold m1, m2 in Hin. inversion Hin. lia.
      - exact Hnd.
      - intros k Hk. apply RG. right. exact Hk.
      - intros Hin. assert (1 <= 0 < N)%nat by (apply RG; right; exact Hin). lia.
      - exact eq_refl.
      - intros b Hb. split; [|intros Hc; congruence]. apply in_app_iff in Hb.
        destruct Hb as [Hb|[<-|[<-|[]]]].
        + destruct (OR b Hb) as [O1 _]. intros Hc. apply O1. right. exact Hc.
        + cbn. intros Hc. assert (1 <= 0 < N)%nat by (apply RG; right; exact Hc). lia.
        + cbn. exact Hnu.
      - intros j Hj. change [m1; m2] with ([m1] ++ [m2]). rewrite app_assoc, !cnt_snoc, (IN j Hj).
        assert (E2' : into_node j m2 = false).
        { destruct (into_node j m2) eqn:E; [|reflexivity]. apply into_node_true in E. cbn in E. lia. }
        rewrite E2', Nat.add_0_r. simpl memb.
        destruct (Nat.eqb_spec j n) as [->|Hjn].
        + assert (E : into_node n m1 = true) by (apply into_node_true; reflexivity). rewrite E.
          apply memb_notIn in Hnu. rewrite Hnu. reflexivity.
        + assert (E : into_node j m1 = false).
          { destruct (into_node j m1) eqn:E; [|reflexivity]. apply into_node_true in E. cbn in E. congruence. }
          rewrite E, Nat.add_0_r. reflexivity. }
    split; [congruence|]. eauto.
Qed.

(* ---------- the solution vector ---------- *)
Lemma mark_vars_spec I used : NoDup (vars I) -> forall x0 x,
  mark_vars I used x0 = Ok x ->
  length x = length x0 /\
  (forall a, In a used -> In a (vars I)) /\
  (forall k v, (k < length x0)%nat -> nth_error (vars I) k = Some v ->
               nth k x 0 = if existsb (var_eqb v) used then 1 else nth k x0 0).
Proof.
  intros Hnd. induction used as [|a rest IH]; intros x0 x H.
  - simpl in H. inversion H; subst. split; [reflexivity|]. split; [intros a []|]. intros; reflexivity.
  - cbn [mark_vars] in H. destruct (get_var_index I a) as [k0|] eqn:Ek; [|discriminate].
    pose proof (find_index_Some var_eqb var_eqb_eq _ _ _ Ek) as Hk0.
    destruct (IH _ _ H) as (A & B & C). rewrite Path_facts.set_nth_length in A, C.
    split; [exact A|]. split.
    + intros b [<-|Hb]; [eapply nth_error_In; exact Hk0|auto].
    + intros k v Hk Hv. rewrite (C k v Hk Hv). cbn [existsb].
      destruct (var_eqb v a) eqn:Eva.
      * apply var_eqb_eq in Eva. subst v.
        assert (k = k0).
        { eapply (proj1 (NoDup_nth_error (vars I)) Hnd); [eapply nth_error_Some; congruence|congruence]. }
        subst k0. rewrite Path_facts.nth_set_nth_same by exact Hk. destruct (existsb (var_eqb a) rest); reflexivity.
      * cbn [orb]. destruct (existsb (var_eqb v) rest); [reflexivity|].
        apply Path_facts.nth_set_nth_other. intros ->. rewrite Hk0 in Hv. inversion Hv; subst.
        assert (var_eqb v v = true) by (apply var_eqb_eq; reflexivity). congruence.
Qed.

(* ================= the postcondition ================= *)
Theorem mf_arc_post I high I' x :
  mf_arc I high = Ok (I', x) -> Inv (ig I) -> NoDup (igrid I) ->
  let N := length (nodes (ig I')) in
  exists routes : list (list var),
    Forall walk routes /\ NoDup (concat routes) /\
    (forall a, In a (concat routes) -> In a (vars I')) /\
    (forall j, (1 <= j < N)%nat -> cnt (into_node j) (concat routes) = 1%nat) /\
    x = indicator I' (concat routes) /\
    length x = num_variables I' /\ binary x /\
    Permutation (selected I' x) (concat routes) /\
    Ax I' x = rhs I' /\
    igrid I' = igrid I /\ nodes (ig I') = nodes (ig I) /\ Inv (ig I').
Proof.
  unfold mf_arc. intros H HI Hg.
  set (N0 := length (nodes (ig I))) in *.
  destruct (Heur.remove_first 0 (seq 0 N0)) as [unv|] eqn:Er; [|discriminate].
  destruct (arc_vehicles (Heur.max_vehicles (ig I)) I unv []) as [[unv1 used1]|e] eqn:Ev; [|discriminate].
  destruct (arc_dummies high (ig I) (igrid I) unv1 used1) as [[g2 used2]|e] eqn:Ed; [|discriminate].
  set (I2 := mkInst g2 (igrid I)) in *.
  destruct (mark_vars I2 used2 (repeat 0 (num_variables I2))) as [x2|e] eqn:Em; [|discriminate].
  inversion H; subst I' x; clear H.
  destruct (Heur_facts.remove_first_spec _ _ _ Er) as (_ & R2 & _ & R4).
  destruct (R4 (seq_NoDup N0 0)) as [R5 R6].
  assert (R0 : RInv N0 unv [] [] O 0).
  { constructor.
    - constructor.
    - simpl. constructor.
    - exact R5.
    - intros n Hn. pose proof (R2 n Hn) as Hs. apply in_seq in Hs.
      destruct (Nat.eq_dec n 0) as [->|]; [contradiction|lia].
    - exact R6.
    - exact eq_refl.
    - intros a [].
    - intros j Hj. unfold cnt. simpl.
      assert (Hin : In j unv).
      { destruct (Heur_facts.remove_first_spec _ _ _ Er) as (_ & _ & R3 & _). apply R3; [lia|]. apply in_seq. lia. }
      apply memb_In in Hin. rewrite Hin. reflexivity. }
  destruct (arc_vehicles_spec N0 I _ _ _ [] _ _ Ev eq_refl R0) as (closed1 & U1 & R1).
  destruct (arc_dummies_spec N0 high (igrid I) _ _ _ closed1 _ _ Ed U1 R1) as (Hnodes & routes & U2 & [W ND _ _ _ _ _ IN]).
  rewrite app_nil_r in ND, IN. cbn [ig I2]. rewrite Hnodes. fold N0.
  assert (HI2 : Inv g2).
  { clear - Ed HI. revert Ed. generalize (ig I) used1 HI. clear HI.
    induction unv1 as [|n us IH]; intros g used HI H; [simpl in H; inversion H; subst; exact HI|].
    cbn [arc_dummies] in H.
    destruct (nth_error (names g) 0) as [dn|]; [|discriminate].
    destruct (nth_error (names g) n) as [nn|]; [|discriminate].
    destruct (dict_mem (O, n) (arcs g)); [discriminate|].
    destruct (add_arc_assert g dn nn high) as [g1|e] eqn:E1; [|discriminate].
    destruct (tp (mkInst g1 (igrid I))) as [|t0 tps]; [discriminate|].
    destruct (arrival_time (mkInst g1 (igrid I)) t0 O n) as [a1 [|]]; [|discriminate].
    destruct (if dict_mem (n, O) (arcs g1) then Ok g1 else add_arc_assert g1 nn dn high) as [g3|e] eqn:E2; [|discriminate].
    destruct (arrival_time (mkInst g3 (igrid I)) a1 n O) as [a2 [|]]; [|discriminate].
    assert (HA : forall g o d c g', Inv g -> add_arc_assert g o d c = Ok g' -> Inv g').
    { intros ga o d c ga' HIa. unfold add_arc_assert. destruct (add_arc ga o d 0 c) as [[gb [|]]|e] eqn:Ea; try discriminate.
      intros E; inversion E; subst. eapply add_arc_gen_inv; eauto. }
    assert (HI1 : Inv g1) by (eapply HA; eauto).
    assert (HI3 : Inv g3).
    { destruct (dict_mem (n, O) (arcs g1)); [inversion E2; subst; exact HI1|]. eapply HA; eauto. }
    eapply IH; eauto. }
  assert (Hkeys : NoDup (map fst (arcs g2))) by (apply (inv_keys _ HI2)).
  assert (Hvnd : NoDup (vars I2)) by (apply vars_NoDup; [exact Hg|exact Hkeys]).
  destruct (mark_vars_spec I2 used2 Hvnd _ _ Em) as (Lx & Hin & Hx).
  rewrite repeat_length in Lx, Hx.
  assert (Ex : x2 = indicator I2 used2).
  { apply (nth_ext _ _ 0 0).
    - unfold indicator. rewrite map_length, Lx. apply num_variables_length.
    - intros k Hk. rewrite Lx in Hk. pose proof Hk as Hk'. rewrite num_variables_length in Hk'.
      destruct (nth_error (vars I2) k) as [v|] eqn:Ev'; [|apply nth_error_None in Ev'; lia].
      rewrite (Hx k v Hk Ev'). unfold indicator.
      erewrite (nth_error_nth (map _ (vars I2)) k 0); [|rewrite nth_error_map, Ev'; reflexivity].
      rewrite nth_repeat. destruct (existsb (var_eqb v) used2); reflexivity. }
  assert (Hbin : binary x2).
  { rewrite Ex. unfold indicator, binary. apply Forall_forall. intros z Hz. apply in_map_iff in Hz.
    destruct Hz as (v & <- & _). destruct (existsb _ _); auto. }
  assert (Hperm : Permutation (selected I2 x2) used2).
  { rewrite Ex. unfold selected, indicator. rewrite selected_indicator_gen.
    apply NoDup_Permutation.
    - apply NoDup_filter. exact Hvnd.
    - rewrite U2. exact ND.
    - intros v. rewrite filter_In. split.
      + intros [_ Hv]. destruct (existsb (var_eqb v) used2) eqn:E; [|discriminate].
        apply existsb_exists in E. destruct E as (u & Hu & E). apply var_eqb_eq in E. subst; exact Hu.
      + intros Hv. split; [apply Hin; exact Hv|].
        assert (E : existsb (var_eqb v) used2 = true).
        { apply existsb_exists. exists v. split; [exact Hv | apply var_eqb_eq; reflexivity]. }
        rewrite E. reflexivity. }
  exists routes. rewrite <- U2.
  split; [exact W|]. split; [rewrite U2; exact ND|]. split; [exact Hin|].
  assert (Hcnt : forall j, (1 <= j < N0)%nat -> cnt (into_node j) used2 = 1%nat).
  { intros j Hj. rewrite U2, (IN j Hj). reflexivity. }
  split; [exact Hcnt|]. split; [exact Ex|]. split; [rewrite Lx; reflexivity|]. split; [exact Hbin|].
  split; [exact Hperm|]. split; [|split; [reflexivity|split; [reflexivity|exact HI2]]].
  apply local_iff; [exact Hg|rewrite Lx; reflexivity|exact Hbin|].
  apply (local_of_walks I2 x2 routes); [rewrite <- U2; exact Hperm|exact W|].
  intros j Hj. cbn [ig I2] in Hj. rewrite Hnodes in Hj. rewrite <- U2. apply Hcnt. exact Hj.
Qed.

(* the model never runs out of fuel: Err OtherError is not a possible outcome *)
Theorem mf_arc_fuel I high : mf_arc I high <> Err OtherError.
Proof.
  unfold mf_arc.
  destruct (Heur.remove_first 0 (seq 0 (length (nodes (ig I))))) as [unv|]; [|discriminate].
  destruct (arc_vehicles (Heur.max_vehicles (ig I)) I unv []) as [[unv1 used1]|e] eqn:Ev.
  - destruct (arc_dummies high (ig I) (igrid I) unv1 used1) as [[g2 used2]|e] eqn:Ed.
    + destruct (mark_vars _ used2 _) as [x|e] eqn:Em; [discriminate|].
      intros E; inversion E; subst e. clear Ed Ev. revert Em. generalize (repeat 0 (num_variables (mkInst g2 (igrid I)))).
      induction used2 as [|a rest IH]; intros x0; [discriminate|]. cbn [mark_vars].
      destruct (get_var_index _ a); [apply IH|discriminate].
    + intros E; inversion E; subst e. clear Ev. revert Ed. generalize (ig I) used1.
      induction unv1 as [|n us IH]; intros g used; [discriminate|]. cbn [arc_dummies].
      destruct (nth_error (names g) 0) as [dn|]; [|discriminate].
      destruct (nth_error (names g) n) as [nn|]; [|discriminate].
      destruct (dict_mem (O, n) (arcs g)); [discriminate|].
      assert (HA : forall ga o d c, add_arc_assert ga o d c <> Err OtherError).
      { intros ga o d c. unfold add_arc_assert, add_arc, add_arc_gen.
        destruct (index_of o (names ga)); [|discriminate]. destruct (index_of d (names ga)); [|discriminate].
        match goal with |- context [if ?c then Ok _ else Ok _] => destruct c end; discriminate. }
      destruct (add_arc_assert g dn nn high) as [g1|e] eqn:E1; [|intros E'; inversion E'; subst; exact (HA _ _ _ _ E1)].
      destruct (tp (mkInst g1 (igrid I))) as [|t0 tps]; [discriminate|].
      destruct (arrival_time (mkInst g1 (igrid I)) t0 O n) as [a1 [|]]; [|discriminate].
      destruct (if dict_mem (n, O) (arcs g1) then Ok g1 else add_arc_assert g1 nn dn high) as [g3|e] eqn:E2.
      * destruct (arrival_time (mkInst g3 (igrid I)) a1 n O) as [a2 [|]]; [apply IH|discriminate].
      * intros E'; inversion E'; subst. destruct (dict_mem (n, O) (arcs g1)); [discriminate|]. exact (HA _ _ _ _ E2).
  - intros E; inversion E; subst e. exact (arc_vehicles_fuel I _ _ _ Ev).
Qed.
