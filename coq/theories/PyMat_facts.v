(* PyMat_facts.v -- lemmas about the Python-value combinators of PyMat.v, and the bridge between
   the values and the data of the hand model Penalty.v.  Used by genprops/C02_gen.v and
   genprops/C04_gen.v (the proofs that the definitions generated from the Python source equal
   the hand model).  [C02_gen, C04_gen] *)
From Coq Require Import ZArith QArith Qcanon Qcabs List Bool Arith Lia Ring.
From VQ Require Import Base LinAlg Penalty PyMat.
Import ListNotations.

Lemma same_shape_refl r c : same_shape r c r c = true.
Proof. unfold same_shape. rewrite !Nat.eqb_refl. reflexivity. Qed.

Lemma same_shape_natpair r c r' c' : same_shape r c r' c' = natpair_eqb (r, c) (r', c').
Proof. reflexivity. Qed.

(* evaluate a generated program on values whose constructors are known *)
Ltac py_simpl := repeat (progress (cbn; rewrite ?Nat.eqb_refl, ?same_shape_refl)).

(* the same in small steps, without touching anything but the combinators (for goals in which the
   hand model must stay folded): expose the value-level operations, then compute them *)
Ltac py_unfold :=
  unfold e_num, e_none, e_bool, e_add, e_sub, e_mul, e_neg, e_pow, e_transpose, e_dot, e_diags,
         e_atleast_1d, e_fabs, e_float, e_len, e_values, e_not, e_is_none, e_is_not_none, e_is_bool,
         e_is_not_bool, e_eq, e_ne, e_and, e_or, e_call1, e_if, e_iter, e_sum, g_yield, g_for, g_when,
         lift1, lift2, py_not.
Ltac py_cbn :=
  cbn [pbind pret py_add py_sub py_mul py_neg py_pow py_transpose py_dot py_diags py_atleast_1d
       py_fabs py_float py_len py_values py_iter py_truth py_is_none py_is_bool py_eq py_ne
       k_of_Z k_of_pos Pos.iter_op negb andb].
Ltac py_step := repeat (progress (py_cbn; rewrite ?Nat.eqb_refl, ?same_shape_refl)).

(* ---------- the data of the hand model as Python values ---------- *)
(* what get_constraint_data() / get_objective_data() return, with the shapes the containers report *)
Definition constraint_vals (Ops : ring_ops) (d : qdata (rK Ops))
  : val (rK Ops) * val (rK Ops) * val (rK Ops) * val (rK Ops) :=
  (Mat (fst (dA_shape d)) (snd (dA_shape d)) (mat_of (rK Ops) (r0 Ops) (dA d)),
   Vec (length (db d)) (vec_of (rK Ops) (r0 Ops) (db d)),
   Mat (fst (dR_shape d)) (snd (dR_shape d)) (mat_of (rK Ops) (r0 Ops) (dR d)),
   Scal (dr d)).

Definition objective_vals (Ops : ring_ops) (d : qdata (rK Ops)) : val (rK Ops) * val (rK Ops) :=
  (Vec (length (dc d)) (vec_of (rK Ops) (r0 Ops) (dc d)),
   Mat (fst (dQo_shape d)) (snd (dQo_shape d)) (mat_of (rK Ops) (r0 Ops) (dQo d))).

(* the generated program and the shape-checked builder of Penalty.v have the same outcome: the same
   exception class, or a matrix value of shape (n, n) with the same entries and the same constant *)
Definition same_outcome {K} (g : result (val K * val K)) (h : result (nat * list (list K) * K)) : Prop :=
  match g, h with
  | Err e, Err e' => e = e'
  | Ok (Mat r c Q, Scal k), Ok (n, L, k') => r = n /\ c = n /\ mat_tab K n n Q = L /\ k = k'
  | _, _ => False
  end.

Lemma mat_tab_ext {K} r c (M N : mat K) :
  (forall i j, (i < r)%nat -> (j < c)%nat -> M i j = N i j) -> mat_tab K r c M = mat_tab K r c N.
Proof.
  intros H. unfold mat_tab. apply map_ext_in. intros i Hi. apply in_seq in Hi.
  apply map_ext_in. intros j Hj. apply in_seq in Hj. apply H; lia.
Qed.

(* ---------- generator expressions ---------- *)
Lemma g_each_ok (Ops : ring_ops) (l : list (val (rK Ops))) body h :
  (forall a, In a l -> body a = Ok (h a)) -> g_each l body = Ok (flat_map h l).
Proof.
  induction l as [|a l IH]; intros H; [reflexivity|].
  cbn [g_each flat_map]. rewrite (H a (or_introl eq_refl)). cbn [pbind].
  rewrite IH by (intros a' Ha'; apply H; right; exact Ha'). reflexivity.
Qed.

Lemma flat_map_map_scal {A K} (g : A -> list K) (l : list A) :
  flat_map (fun a => map (@Scal K) (g a)) l = map (@Scal K) (flat_map g l).
Proof. induction l as [|a l IH]; cbn; [reflexivity|]. rewrite IH, map_app. reflexivity. Qed.

Lemma flat_map_single {A B} (g : A -> B) (l : list A) : flat_map (fun a => [g a]) l = map g l.
Proof. induction l as [|a l IH]; cbn; [reflexivity|]. rewrite IH. reflexivity. Qed.

Lemma flat_map_of_map {A B C} (f : A -> B) (g : B -> list C) (l : list A) :
  flat_map g (map f l) = flat_map (fun a => g (f a)) l.
Proof. induction l as [|a l IH]; cbn; [reflexivity|]. rewrite IH. reflexivity. Qed.

(* ---------- sum(...) of numbers, over any commutative ring ---------- *)
Section SumGeneric.
  Variable Ops : ring_ops.
  Hypothesis Oring : ring_theory (r0 Ops) (r1 Ops) (radd Ops) (rmul Ops) (rsub Ops) (ropp Ops) eq.
  Add Ring OpsRingF : Oring.

  Lemma py_sum_acc (xs : list (rK Ops)) (a : rK Ops) :
    fold_left (fun acc x => pbind acc (fun v => py_add Ops v x)) (map (@Scal (rK Ops)) xs) (Ok (Scal a))
    = Ok (Scal (radd Ops a (fold_right (radd Ops) (r0 Ops) xs))).
  Proof.
    revert a. induction xs as [|x xs IH]; intros a; cbn.
    - f_equal. f_equal. ring.
    - rewrite IH. f_equal. f_equal. ring.
  Qed.

  (* sum(iterable of numbers) = the sum of the numbers *)
  Lemma py_sum_scals (xs : list (rK Ops)) :
    py_sum Ops (map (@Scal (rK Ops)) xs) = Ok (Scal (fold_right (radd Ops) (r0 Ops) xs)).
  Proof. unfold py_sum. rewrite py_sum_acc. f_equal. f_equal. ring. Qed.
End SumGeneric.

(* ---------- the integer carrier ---------- *)
Lemma k_of_nat_Z n : k_of_nat Zops n = Z.of_nat n.
Proof.
  induction n as [|n IH]; [reflexivity|].
  cbn [k_of_nat]. rewrite IH, Nat2Z.inj_succ. cbn. lia.
Qed.

Lemma py_sum_scals_Z (xs : list Z) : py_sum Zops (map (@Scal Z) xs) = Ok (Scal (sumZ xs)).
Proof. exact (py_sum_scals Zops Zth xs). Qed.

(* ---------- the rational carrier (the one the C02 correspondence evaluates) ---------- *)
Definition Qcops : ring_ops := mkOps Qc Qc0 Qc1 Qcplus Qcmult Qcminus Qcopp Qc_eq_bool Qcabs.
