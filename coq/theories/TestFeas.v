(* TestFeas.v -- model of the "generator half" of C10: test_feasibility.py (test_feasibility,
   convenience, print_summary, the file matching of do_all), load_tools.load_spins,
   qubo_tools.x_to_s / s_to_x on integer vectors, and the naming / spin-file code of
   generate_test_set.gen.  Definitions only; proofs in TestFeas_facts.v.

   Part 1  violation measures (integers; dense meaning of the sparse containers)
   Part 2  the spins file: bytes written by gen, tokens and numbers read by load_spins
   Part 3  convenience() on a spins file and saved constraint data
   Part 4  file names
   Part 5  correspondence checkers

   Text-level machinery (print_N, parse_N, split_ws, split_on, read_lines, nl, sall, digitc ...)
   is Export.v's.  Numbers: constraint data of the three formulations are integral; a 0-1 vector
   is a list of integers.  What convenience() computes from a spins file is 0.5 * (1 - s): it is
   represented by TWICE its value (an integer), the quadratic measure by FOUR times its value
   (see Part 3) -- the same device as Export.v's hundredths. *)
From Coq Require Import ZArith List Bool Lia PeanoNat String Ascii.
From VQ Require Import Base LinAlg Penalty Export.
Import ListNotations.
Local Open Scope string_scope.
Open Scope Z_scope.

(* ====================================================================================== *)
(* Part 1: test_feasibility(x, A_eq, b_eq, Q_eq, r_eq)                                     *)
(* ====================================================================================== *)
(* A_eq : list of rows (dense meaning of the coo/csr/ndarray container);
   b_eq : list; Q_eq : the STORED entries (row, col, value) of the csr container, its dense
   meaning is their sum per position (Export.coo_dense); r_eq : integer.
   Shapes are assumed consistent (rows(A) = len(b), cols(A) = len(x) = dim(Q)): numpy raises
   ValueError otherwise, which is outside this model (wf_data below is the assumption). *)

(* (A_eq.dot(x) != b_eq)[k] *)
Definition lin_violated (n : nat) (A : mat Z) (b x : vec Z) (k : nat) : bool :=
  negb (Zmv n A x k =? b k)%Z.

Definition vio_l (A : list (list Z)) (b x : list Z) : list bool :=
  map (lin_violated (List.length x) (Zmat_of A) (Zvec_of b) (Zvec_of x)) (seq 0 (List.length b)).

(* np.dot(x, Q_eq.dot(x)) - r_eq *)
Definition vio_q (Q : list entry) (r : Z) (x : list Z) : Z :=
  let n := List.length x in
  Zdot n (Zvec_of x) (Zmv n (coo_dense Q) (Zvec_of x)) - r.

(* Q_eq.nnz of a sparse container: the number of STORED entries (an explicitly stored zero counts) *)
Definition nnz (Q : list entry) : nat := List.length Q.

Definition measures := (list bool * Z * nat)%type.

Definition test_feasibility (x : list Z) (A : list (list Z)) (b : list Z) (Q : list entry) (r : Z) : measures :=
  (vio_l A b x, vio_q Q r x, nnz Q).

(* ---------- vocabulary of the statements ---------- *)
Definition binl (x : list Z) : Prop := Forall (fun v => v = 0 \/ v = 1) x.
Definition binlb (x : list Z) : bool := forallb (fun v => (v =? 0)%Z || (v =? 1)%Z) x.

(* sum(vio_l): number of True entries *)
Definition count_true (l : list bool) : nat := List.length (filter (fun b => b) l).

(* the rows k < m with (A x)_k <> b_k *)
Definition violated_rows (A : list (list Z)) (b x : list Z) : list nat :=
  filter (lin_violated (List.length x) (Zmat_of A) (Zvec_of b) (Zvec_of x)) (seq 0 (List.length b)).

(* a stored entry (i, j, v) of Q_eq stands for v copies of the product constraint x_i * x_j = 0;
   it is violated at x when x_i = x_j = 1 *)
Definition prod_violated (x : vec Z) (e : entry) : bool := (x (e_row e) =? 1)%Z && (x (e_col e) =? 1)%Z.
Definition violated_products (Q : list entry) (x : list Z) : list entry :=
  filter (prod_violated (Zvec_of x)) Q.

(* the stored entries lie inside the n x n matrix *)
Definition entries_in (n : nat) (Q : list entry) : Prop :=
  Forall (fun e => (e_row e < n)%nat /\ (e_col e < n)%nat) Q.
Definition entries_inb (n : nat) (Q : list entry) : bool :=
  forallb (fun e => (e_row e <? n)%nat && (e_col e <? n)%nat) Q.

(* canonical storage (csr after sum_duplicates / eliminate_zeros): one entry per position, none zero *)
Definition positions (Q : list entry) : list (nat * nat) := map (fun e => (e_row e, e_col e)) Q.
Definition canonical (Q : list entry) : Prop := NoDup (positions Q) /\ Forall (fun e => e_val e <> 0) Q.

(* number of non-zero entries of the dense n x n meaning *)
Definition dense_nonzeros (n : nat) (M : nat -> nat -> Z) : Z :=
  sumZn n (fun i => sumZn n (fun j => if (M i j =? 0)%Z then 0 else 1)).

(* shapes of saved data for a vector of n variables *)
Definition wf_data (n : nat) (A : list (list Z)) (b : list Z) (Q : list entry) : Prop :=
  List.length A = List.length b /\ Forall (fun row => List.length row = n) A /\ entries_in n Q.

(* ---------- print_summary(vio_l, vio_q, nnz): the three printed lines ---------- *)
(* '{int(v)}' of an integer *)
Definition print_int (z : Z) : string :=
  if z <? 0 then String "-" (print_N (Z.to_N (- z))) else print_N (Z.to_N z).
Definition print_len (k : nat) : string := print_N (N.of_nat k).

(* q4 = 4 * vio_q when the measure comes from convenience() (Part 3), 1 * vio_q in memory;
   int() truncates toward zero *)
Definition summary_lines (scale : Z) (ms : measures) : list string :=
  match ms with
  | (vl, vq, k) =>
      ["Number of UNsatisfied constraints:";
       "Linear:    " ++ print_len (count_true vl) ++ " out of " ++ print_len (List.length vl);
       "Quadratic: " ++ print_int (Z.quot vq scale) ++ " out of " ++ print_len k]
  end.

(* ====================================================================================== *)
(* Part 2: the spins file                                                                  *)
(* ====================================================================================== *)
(* x_to_s(x) = (1 - 2 * x).astype(int) on an integer vector *)
Definition x_to_s (x : list Z) : list Z := map (fun v => 1 - 2 * v) x.

(* for spin in spins: spin_file.write(f"{int(spin)}\n") *)
Fixpoint write_spins (spins : list Z) : string :=
  match spins with
  | [] => ""
  | s :: rest => print_int s ++ String nl (write_spins rest)
  end.

(* the bytes of the .sol file gen writes for the solution vector x *)
Definition sol_bytes (x : list Z) : string := write_spins (x_to_s x).

(* ---------- load_spins ---------- *)
(* int(float(t)) on the texts  [+-] digits* [ . digits* ]  with at least one digit; the fractional
   part is dropped (truncation toward zero).  At most 9 fractional digits are modelled: together
   with an integer part that fits np.short the double nearest to the decimal then has the same
   integer part.  Any other text (exponents, inf, nan, underscores) is ValueError in the model
   although Python accepts some of it. *)
Definition frac_ok (f : string) : bool := sall digitc f && (String.length f <=? 9)%nat.

Definition parse_ufloat_int (s : string) : option N :=
  match split_at_dot "" s with
  | None => parse_N s
  | Some (ip, f) =>
      if frac_ok f then
        match ip with
        | "" => match f with "" => None | _ => Some 0%N end
        | _ => parse_N ip
        end
      else None
  end.

Definition parse_int_float (s : string) : option Z :=
  match s with
  | "" => None
  | String c r =>
      if Ascii.eqb c "-" then option_map (fun k => - Z.of_N k) (parse_ufloat_int r)
      else if Ascii.eqb c "+" then option_map Z.of_N (parse_ufloat_int r)
      else option_map Z.of_N (parse_ufloat_int s)
  end.

(* [int(float(s)) for line in lines for s in line.split()]: the first bad token raises ValueError *)
Fixpoint parse_tokens (ts : list string) : result (list Z) :=
  match ts with
  | [] => Ok []
  | t :: rest =>
      match parse_int_float t with
      | None => Err ValueError
      | Some z => match parse_tokens rest with
                  | Err e => Err e
                  | Ok l => Ok (z :: l)
                  end
      end
  end.

(* the tokens: lines = file.readlines(); s in line.split() for every line, top to bottom *)
Definition spin_tokens (bytes : string) : list string := flat_map split_ws (read_lines bytes).

(* np.array(values, dtype=np.short): OverflowError (OtherError) for a value outside int16 *)
Definition in_short (z : Z) : bool := (-32768 <=? z) && (z <=? 32767).

Definition load_spins (bytes : string) : result (list Z) :=
  match parse_tokens (spin_tokens bytes) with
  | Err e => Err e
  | Ok l => if forallb in_short l then Ok l else Err OtherError
  end.

(* `1 - s` on a np.short array is int16 arithmetic: it wraps around (s = -32768, -32767) *)
Definition wrap_short (z : Z) : Z := (z + 32768) mod 65536 - 32768.

(* s_to_x(s) = 0.5 * (1 - s).astype(int): represented by TWICE its value *)
Definition s_to_x2 (spins : list Z) : list Z := map (fun s => wrap_short (1 - s)) spins.
(* the value itself when every 1 - s is even (true for spins -1 / 1) *)
Definition s_to_x (spins : list Z) : list Z := map (fun s => (1 - s) / 2) spins.

(* ====================================================================================== *)
(* Part 3: convenience(fname, sname)                                                       *)
(* ====================================================================================== *)
(* what get_constraint_data() returned and np.savez stored *)
Record cdata := mkCdata {
  cA : list (list Z);
  cA_sparse : bool;       (* A_eq is a scipy.sparse container (else an ndarray) *)
  cb : list Z;
  cQ : list entry;        (* Q_eq is always a csr container for the three formulations *)
  cr : Z }.

(* x = s_to_x(spins) = x2 / 2.  With y = 2 x:  A x != b  <->  A y != 2 b   and
   x'Qx - r = (y'Qy - 4 r) / 4, so the measures at x are test_feasibility at y = x2 against
   (A, 2 b, Q, 4 r), the quadratic measure being FOUR times vio_q.
   np.savez stores a sparse container as a 0-d object array; convenience() unwraps A_eq only
   `if len(b_eq) > 0`: with no linear constraint a sparse A_eq stays wrapped, A_eq.dot(x) is then an
   object array of len(x) scaled matrices and `!= b_eq` (length 0) raises ValueError (broadcast)
   unless len(x) <= 1. *)
Definition convenience_data (spins : list Z) (d : cdata) : result measures :=
  if cA_sparse d && (List.length (cb d) =? 0)%nat && (2 <=? List.length spins)%nat then Err ValueError
  else Ok (test_feasibility (s_to_x2 spins) (cA d) (map (Z.mul 2) (cb d)) (cQ d) (4 * cr d)).

(* `load` stands for np.load + the f["..."] look-ups (library I/O, an oracle of the theorems) *)
Definition convenience {npz : Type} (load : npz -> cdata) (fname : npz) (sol : string) : result measures :=
  match load_spins sol with
  | Err e => Err e
  | Ok spins => convenience_data spins (load fname)
  end.

(* the in-memory measures in the representation of convenience's result *)
Definition scale_measures (ms : measures) : measures :=
  match ms with (vl, vq, k) => (vl, 4 * vq, k) end.

(* saved data can be read back by convenience() for n variables *)
Definition loadable (n : nat) (d : cdata) : Prop :=
  cA_sparse d = false \/ cb d <> [] \/ (n <= 1)%nat.

(* ====================================================================================== *)
(* Part 4: file names                                                                      *)
(* ====================================================================================== *)
(* name = ''.join([w[0] for w in form.split('_')]);  w[0] of an empty word is an IndexError *)
Fixpoint first_chars (ws : list string) : result string :=
  match ws with
  | [] => Ok ""
  | w :: rest =>
      match w with
      | "" => Err IndexError
      | String c _ => match first_chars rest with
                      | Err e => Err e
                      | Ok s => Ok (String c s)
                      end
      end
  end.
Definition initials (form : string) : result string := first_chars (split_on "_" form).

(* bname = f"test_{name}_{n_vars}_" (before os.path.join with the prefix) *)
Definition bname (name : string) (n_vars : N) : string := "test_" ++ name ++ "_" ++ print_N n_vars ++ "_".
Definition rudy_o (b : string) : string := b ++ "o.rudy".
Definition rudy_f (b : string) : string := b ++ "f.rudy".
Definition npz_name (b : string) : string := b ++ ".npz".      (* np.savez appends ".npz" *)
Definition sol_name (b : string) : string := b ++ ".sol".

(* reading the variable count back: the third "_"-separated field of the file name *)
Definition name_nvars (fname : string) : option N :=
  match nth_error (split_on "_" fname) 2 with
  | Some f => parse_N f
  | None => None
  end.
Definition name_form (fname : string) : option string := nth_error (split_on "_" fname) 1.

(* do_all: f.split('.')[-1] == "npz";  os.path.splitext(f)[0] + ".sol"
   (splitext: the text before the last '.', for names that do not start with '.') *)
Fixpoint join_with (c : ascii) (l : list string) : string :=
  match l with
  | [] => ""
  | [a] => a
  | a :: rest => a ++ String c (join_with c rest)
  end.
Definition last_ext (f : string) : string := last (split_on "." f) "".
Definition splitext_root (f : string) : string :=
  match split_on "." f with
  | [] | [_] => f
  | l => join_with "." (removelast l)
  end.
Definition do_all_sol (f : string) : option string :=
  if String.eqb (last_ext f) "npz" then Some (splitext_root f ++ ".sol") else None.

(* ====================================================================================== *)
(* Part 5: correspondence                                                                  *)
(* ====================================================================================== *)
Definition bool_list_eqb := list_eqb Bool.eqb.
Definition zlist_eqb := list_eqb Z.eqb.
Definition measures_eqb (a b : measures) : bool :=
  match a, b with
  | (vl, vq, k), (vl', vq', k') => bool_list_eqb vl vl' && (vq =? vq')%Z && Nat.eqb k k'
  end.

(* (a) measures.  x and the constraint data; observed: test_feasibility(x, ...) in memory (vio_l,
   vio_q, nnz); the bytes of the spins file written with gen's own statements; load_spins of that
   file; 2 * s_to_x(load_spins); convenience(npz, spins file) with vio_q in quarters, or its
   exception class; the lines print_summary prints for both results. *)
Definition mcase :=
  (list Z * cdata *
   (measures * string * result (list Z) * list Z * result measures * list string * list string))%type.

Definition check_mcase (c : mcase) : list nat :=
  match c with
  | (x, d, (mem, bytes, spins, x2, conv, lines_mem, lines_conv)) =>
      let m := test_feasibility x (cA d) (cb d) (cQ d) (cr d) in
      let cv := convenience (fun d' : cdata => d') d bytes in
      chk 1 (bool_list_eqb (fst (fst m)) (fst (fst mem))) ++
      chk 2 (snd (fst m) =? snd (fst mem))%Z ++
      chk 3 (Nat.eqb (snd m) (snd mem)) ++
      chk 4 (String.eqb (sol_bytes x) bytes) ++
      chk 5 (result_eqb zlist_eqb (load_spins bytes) spins) ++
      chk 6 (match load_spins bytes with Ok l => zlist_eqb (s_to_x2 l) x2 | Err _ => true end) ++
      chk 7 (result_eqb measures_eqb cv conv) ++
      chk 8 (list_eqb String.eqb (summary_lines 1 m) lines_mem) ++
      chk 9 (match cv with Ok r => list_eqb String.eqb (summary_lines 4 r) lines_conv | Err _ => true end)
  end.

(* (b) spins text: any bytes; observed load_spins result (values or exception class) and
   2 * s_to_x of it *)
Definition scase := (string * result (list Z) * list Z)%type.
Definition check_scase (c : scase) : list nat :=
  match c with
  | (bytes, spins, x2) =>
      chk 1 (result_eqb zlist_eqb (load_spins bytes) spins) ++
      chk 2 (match load_spins bytes with Ok l => zlist_eqb (s_to_x2 l) x2 | Err _ => true end)
  end.

(* (c) names: the formulation string and a variable count; observed: the value of gen's `name`
   expression (or exception class), of its `bname` expression for that name, the file names
   built from it, and do_all's solution-file name for the npz name *)
Definition ncase := (string * N * (result string * string * list string * string))%type.
Definition string_result_eqb := result_eqb String.eqb.
Definition check_ncase (c : ncase) : list nat :=
  match c with
  | (form, n, (nm, bn, files, sol)) =>
      chk 1 (string_result_eqb (initials form) nm) ++
      match nm with
      | Err _ => []
      | Ok name =>
          let b := bname name n in
          chk 2 (String.eqb b bn) ++
          chk 3 (list_eqb String.eqb [rudy_o b; rudy_f b; npz_name b; sol_name b] files) ++
          chk 4 (option_eqb String.eqb (do_all_sol (npz_name b)) (Some sol))
      end
  end.
