(* PyArcCons_facts.v -- lemmas that connect the combinators of PyArcCons.v with the definitions of the hand
   model Arc.v.  Nothing here mentions a generated definition; the theorems about coq/gen/ArcConsGen.v are
   in coq/genprops/C05_gen.v. *)
From Coq Require Import ZifyBool.
From VQ Require Import Base Vrptw Vrptw_facts Arc Arc_facts PyEnumCore PyEnumCore_facts PyArc PyArc_facts PyArcCons.

(* ---------- loops ---------- *)
Lemma py_forx_fold_lift {A S T} (lift : T -> S) (body : A -> S -> xctl * S) (f : T -> A -> T) l :
  (forall e st, In e l -> body e (lift st) = (XNext, lift (f st e))) ->
  forall st, py_forx body l (lift st) = (lift (fold_left f l st), None).
Proof.
  induction l as [|e l IH]; intros H st; simpl; [reflexivity|].
  rewrite H by (left; reflexivity). apply IH. intros; apply H; right; assumption.
Qed.

(* a generated loop whose body is `if key < lo: continue; if key > hi: break; <step>` is Arc.scan *)
Lemma py_forx_scan_lift {A S T} (lift : T -> S) (key : A -> Z) lo hi (hbody : A -> T -> T)
      (gbody : A -> S -> xctl * S) l :
  (forall e st, gbody e (lift st) =
                if key e <? lo then (XNext, lift st)
                else if above (key e) hi then (XBreak, lift st)
                else (XNext, lift (hbody e st))) ->
  forall st, py_forx gbody l (lift st) = (lift (scan key lo hi hbody l st), None).
Proof.
  intros H. induction l as [|e l IH]; intros st; simpl; [reflexivity|].
  rewrite H. destruct (key e <? lo); [apply IH|].
  destruct (above (key e) hi); [reflexivity | apply IH].
Qed.

Lemma fold_left_app_flat_map {A B} (f : A -> list B) l : forall T,
  fold_left (fun T a => T ++ f a) l T = T ++ flat_map f l.
Proof.
  induction l as [|a l IH]; intros T; simpl; [rewrite app_nil_r; reflexivity|].
  rewrite IH, app_assoc. reflexivity.
Qed.

(* `for col in range(n): v = var_mapping[col]; <append the triples f col v>` is Arc.over_cols *)
Lemma py_forx_over_cols {S} (lift : list trip -> S) (vs : list var) (f : nat -> var -> list trip)
      (body : nat -> S -> xctl * S) n :
  (n <= length vs)%nat ->
  (forall col v T, nth_error vs col = Some v -> body col (lift T) = (XNext, lift (T ++ f col v))) ->
  forall T, py_forx body (seq 0 n) (lift T) =
            (lift (T ++ flat_map (fun col => match nth_error vs col with Some v => f col v | None => [] end)
                                 (seq 0 n)), None).
Proof.
  intros Hn H T.
  rewrite <- (fold_left_app_flat_map (fun col => match nth_error vs col with Some v => f col v | None => [] end)).
  apply (py_forx_fold_lift lift). intros col T' Hin. apply in_seq in Hin.
  destruct (nth_error vs col) as [v|] eqn:E.
  - apply H. exact E.
  - apply nth_error_None in E. lia.
Qed.

(* `a = np.zeros(n); for k in range(n): a[k] = F k` *)
Lemma py_nd_set_app l1 x l2 v : py_nd_set (l1 ++ x :: l2) (length l1) v = l1 ++ v :: l2.
Proof. induction l1 as [|y l1 IH]; simpl; [reflexivity|]. rewrite IH. reflexivity. Qed.

Lemma py_nd_set_fill (F : nat -> Z) m n : (m < n)%nat ->
  py_nd_set (map F (seq 0 m) ++ repeat 0 (n - m)) m (F m) = map F (seq 0 (S m)) ++ repeat 0 (n - S m).
Proof.
  intros H. replace (n - m)%nat with (S (n - S m)) by lia. cbn [repeat].
  replace m with (length (map F (seq 0 m))) at 3 by (rewrite map_length, seq_length; reflexivity).
  rewrite py_nd_set_app, seq_S, map_app, <- app_assoc. reflexivity.
Qed.

Lemma py_forx_fill {St} (lift : list Z -> St) (F : nat -> Z) (body : nat -> St -> xctl * St) n :
  (forall m, (m < n)%nat ->
     body m (lift (map F (seq 0 m) ++ repeat 0 (n - m))) =
     (XNext, lift (map F (seq 0 (S m)) ++ repeat 0 (n - S m)))) ->
  py_forx body (seq 0 n) (lift (np_zeros n)) = (lift (map F (seq 0 n)), None).
Proof.
  intros H.
  assert (G : forall k m, (m + k = n)%nat ->
            py_forx body (seq m k) (lift (map F (seq 0 m) ++ repeat 0 (n - m))) = (lift (map F (seq 0 n)), None)).
  { induction k as [|k IH]; intros m Hm; simpl.
    - replace m with n by lia. rewrite Nat.sub_diag, app_nil_r. reflexivity.
    - rewrite H by lia. apply IH. lia. }
  specialize (G n O eq_refl). rewrite Nat.sub_0_r in G. exact G.
Qed.

(* ---------- COO triples ---------- *)
Lemma trip_vals_app T1 T2 : trip_vals (T1 ++ T2) = trip_vals T1 ++ trip_vals T2.
Proof. apply map_app. Qed.
Lemma trip_rows_app T1 T2 : trip_rows (T1 ++ T2) = trip_rows T1 ++ trip_rows T2.
Proof. apply map_app. Qed.
Lemma trip_cols_app T1 T2 : trip_cols (T1 ++ T2) = trip_cols T1 ++ trip_cols T2.
Proof. apply map_app. Qed.

Lemma Z_of_nat_eqb a b : (Z.of_nat a =? Z.of_nat b) = Nat.eqb a b.
Proof. destruct (Nat.eqb a b) eqn:E; lia. Qed.

(* the dense meaning of the three parallel lists is the hand model's `entry` of the triplet list *)
Lemma coo_entry_trips T r c :
  coo_entry (trip_vals T) (trip_rows T) (map Z.of_nat (trip_cols T)) r c = entry T r c.
Proof.
  unfold coo_entry, entry, trip_vals, trip_rows, trip_cols.
  induction T as [|[[v r'] c'] T IH]; [reflexivity|].
  cbn [map combine fst snd sumz]. rewrite !Z_of_nat_eqb. f_equal. exact IH.
Qed.

Lemma sparse_coo_trips T m n :
  sparse_coo_array (trip_vals T) (trip_rows T) (map Z.of_nat (trip_cols T)) (m, n) =
  mkMat (m, n) (map (fun r => map (fun c => entry T r c) (seq 0 n)) (seq 0 m)).
Proof.
  unfold sparse_coo_array. cbn [fst snd]. f_equal.
  apply map_ext. intros r. apply map_ext. intros c. apply coo_entry_trips.
Qed.

Lemma sparse_coo_triplets I :
  sparse_coo_array (trip_vals (triplets I)) (trip_rows (triplets I)) (map Z.of_nat (trip_cols (triplets I)))
                   (length (rhs I), num_variables I) = A_of I.
Proof. rewrite sparse_coo_trips. reflexivity. Qed.

(* A x of the matrix record is the hand model's Ax *)
Lemma mat_vec_A_of I x : mat_vec (A_of I) x = Ax I x.
Proof. reflexivity. Qed.

(* ---------- the object ---------- *)
Lemma set_base_same s : set_base (b_base s) s = s.
Proof. destruct s; reflexivity. Qed.

Lemma b_call_same {R} s (r : R) : b_call s (b_base s, r) = (s, r).
Proof. unfold b_call. cbn [fst snd]. rewrite set_base_same. reflexivity. Qed.

(* list.index on (node, time) pairs *)
Lemma py_list_index_nt p l :
  py_list_index (py_pair_eqb Nat.eqb Z.eqb) p l =
  match find_index nt_eqb p l with Some k => Ok k | None => Err ValueError end.
Proof. reflexivity. Qed.

Lemma Z_to_nat_pred n : Z.to_nat (Z.of_nat n - 1) = (n - 1)%nat.
Proof. lia. Qed.

Lemma flat_map_single {A B} (f : A -> B) l : flat_map (fun a => [f a]) l = map f l.
Proof. induction l as [|a l IH]; simpl; [reflexivity|]. rewrite IH. reflexivity. Qed.
