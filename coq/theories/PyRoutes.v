(* PyRoutes.v -- Python / numpy combinators of the models GENERATED from the route-decoding methods
   `get_routes(self, solution)` of ArcBasedRoutingProblem and SequenceBasedRoutingProblem
   (coq/gen/ArcRoutesGen.v, coq/gen/SeqRoutesGen.v, written on every run by harness/translate_routes.py
   through translate_arcroutes.py / translate_seqroutes.py).  Definitions only; lemmas: PyRoutes_facts.v;
   theorems about the generated definitions: coq/genprops/C05_routes_gen.v, C07_routes_gen.v.  [C05, C07]

   The file depends on Base.v and PyEnumCore.v only (no class model), so that both generated files can
   import it next to PyArc.v resp. PySeq.v.  A translated method is a function
       [fuel ->] state -> arguments -> result (state * value)
   (`Err class` = an uncaught exception; the object state after an uncaught exception is not modelled).

   What the emitted combinators MEAN (trusted as "modelled, not verified"):
   * `py_bind r k`              sequencing of something that may raise (Python evaluation order);
   * `for x in l: body`         py_forE body l st  (body returns CNext / CBreak with the new state, or raises);
   * `while c: body`            py_whileE fuel c body st: one unit of fuel per evaluation of the condition; out
                                of fuel is `Err OtherError` (the theorems quantify over every sufficient fuel);
   * a call of a generated method of the enumeration package on the same object: py_call_m (cannot raise) /
     py_call_mr (may raise);
   * `[f(k) for k in l]`        py_mapM when f changes the object (state threaded left to right, first exception
                                ends it), py_mapE when f may only raise, plain `map`/`filter` otherwise;
   * `l[z]`, `l[z] = v`, `l.pop(z)`, `l[k:]`, `l1 + l2`, `enumerate(l)`, `l.size`;
   * `t[k]` on a value that is a tuple or None: py_tuple_of (None is not subscriptable: TypeError);
   * `x and e` with x an int-or-None local: py_and_optnat (None and 0 are falsy; inside e, x is a non-zero int);
   * numpy: see the section below. *)
From VQ Require Export Base PyEnumCore.

(* ---------- sequencing, loops ---------- *)
Definition py_bind {A B} (r : result A) (k : A -> result B) : result B :=
  match r with Ok a => k a | Err e => Err e end.

Fixpoint py_forE {A S : Type} (body : A -> S -> result (ctl * S)) (l : list A) (st : S) : result S :=
  match l with
  | [] => Ok st
  | e :: l' =>
      match body e st with
      | Err x => Err x
      | Ok (CBreak, st') => Ok st'
      | Ok (CNext, st') => py_forE body l' st'
      end
  end.

Fixpoint py_whileE {S : Type} (fuel : nat) (cond : S -> result bool) (body : S -> result (ctl * S)) (st : S)
  : result S :=
  match fuel with
  | O => Err OtherError
  | S f =>
      match cond st with
      | Err x => Err x
      | Ok false => Ok st
      | Ok true =>
          match body st with
          | Err x => Err x
          | Ok (CBreak, st') => Ok st'
          | Ok (CNext, st') => py_whileE f cond body st'
          end
      end
  end.

(* self.m(..) for a method m of the enumeration package (coq/gen/ArcGen.v, SeqGen.v) *)
Definition py_call_m {S A} (p : S * A) : result (S * A) := Ok p.
Definition py_call_mr {S A} (p : S * result A) : result (S * A) :=
  match snd p with Ok a => Ok (fst p, a) | Err e => Err e end.

(* list comprehensions *)
Fixpoint py_mapM {S A B} (f : S -> A -> result (S * B)) (l : list A) (s : S) : result (S * list B) :=
  match l with
  | [] => Ok (s, [])
  | a :: l' =>
      match f s a with
      | Err e => Err e
      | Ok (s1, b) =>
          match py_mapM f l' s1 with
          | Err e => Err e
          | Ok (s2, bs) => Ok (s2, b :: bs)
          end
      end
  end.

Fixpoint py_mapE {A B} (f : A -> result B) (l : list A) : result (list B) :=
  match l with
  | [] => Ok []
  | a :: l' =>
      match f a with
      | Err e => Err e
      | Ok b => match py_mapE f l' with Err e => Err e | Ok bs => Ok (b :: bs) end
      end
  end.

(* ---------- lists ---------- *)
(* position addressed by a Python index into something of length len *)
Definition py_resolve_index (len : nat) (z : Z) : result nat :=
  if (0 <=? z)%Z && (z <? Z.of_nat len)%Z then Ok (Z.to_nat z)
  else if (z <? 0)%Z && (- Z.of_nat len <=? z)%Z then Ok (Z.to_nat (Z.of_nat len + z))
  else Err IndexError.

Fixpoint list_update {A} (l : list A) (k : nat) (v : A) : list A :=
  match l, k with
  | [], _ => []
  | _ :: l', O => v :: l'
  | a :: l', S k' => a :: list_update l' k' v
  end.

Definition py_list_getitem_z {A} (l : list A) (z : Z) : result A :=
  py_bind (py_resolve_index (length l) z) (py_list_item l).
Definition py_list_setitem_z {A} (l : list A) (z : Z) (v : A) : result (list A) :=
  py_bind (py_resolve_index (length l) z) (fun k => Ok (list_update l k v)).
(* x = l.pop(z): the item and the list without it *)
Definition py_list_pop {A} (l : list A) (z : Z) : result (A * list A) :=
  py_bind (py_resolve_index (length l) z) (fun k =>
  py_bind (py_list_item l k) (fun a => Ok (a, remove_nth k l))).
Definition py_list_concat {A} (a b : list A) : list A := a ++ b.
Definition py_enumerate {A} (l : list A) : list (nat * A) := combine (seq 0 (length l)) l.
(* l[k:] for a constant k >= 0 *)
Definition py_slice_from {A} (k : nat) (l : list A) : list A := skipn k l.
(* items() of a dict kept as an association list in insertion order *)
Definition py_items {K V} (d : list (K * V)) : list (K * V) := d.

(* a value that is a tuple or None, subscripted *)
Definition py_tuple_of {A} (o : option A) : result A :=
  match o with Some a => Ok a | None => Err TypeError end.
(* `x and e` where x is None or an int: falsy for None and 0, otherwise the value of e (with x that int) *)
Definition py_and_optnat (x : option nat) (k : nat -> bool) : bool :=
  match x with Some (S m) => k (S m) | _ => false end.
(* `x or e` *)
Definition py_or_optnat (x : option nat) (k : bool) : bool :=
  match x with Some (S m) => true | _ => k end.

(* ---------- numpy ---------- *)
(* 1-d arrays are lists.  np.zeros(n); np.flatnonzero(x) = positions of the non-zero entries, in order;
   np.nonzero(x) for 1-d x = the 1-tuple holding that array (a 1-tuple (a,) is the pair (a, tt)) *)
Definition np_zeros1 (n : nat) : list Z := repeat 0 n.
Definition np_flatnonzero (x : list Z) : list nat :=
  map fst (filter (fun p : nat * Z => negb (snd p =? 0)) (combine (seq 0 (length x)) x)).
Definition np_nonzero (x : list Z) : list nat * unit := (np_flatnonzero x, Datatypes.tt).

(* what np.array makes of a list whose items are number tuples (rows) or None:
   all rows            -> the 2-d integer array (Nd2 rows; the rows have equal length: they come from tuples
                          of one Python type);
   all None (>= 1)     -> a 1-d object array (NdObj n);
   a mixture           -> ValueError (inhomogeneous shape).
   The empty list gives Nd2 [] (numpy: an empty 1-d float array; lexsort of either is TypeError). *)
Inductive ndarray2 := Nd2 (rows : list (list Z)) | NdObj (n : nat).

Definition is_some {A} (o : option A) : bool := match o with Some _ => true | None => false end.
Definition opt_list {A} (l : list (option A)) : list A :=
  flat_map (fun o => match o with Some a => [a] | None => [] end) l.
Definition np_array_rows (l : list (option (list Z))) : result ndarray2 :=
  if forallb is_some l then Ok (Nd2 (opt_list l))
  else if forallb (fun o => negb (is_some o)) l then Ok (NdObj (length l))
  else Err ValueError.

(* np.flip(a, axis) for axis = -1 (last axis) or 0 (first axis); a 1-d array has one axis *)
Definition np_flip (a : ndarray2) (axis : Z) : ndarray2 :=
  match a with
  | Nd2 rows => if axis =? 0 then Nd2 (rev rows) else Nd2 (map (@rev Z) rows)
  | NdObj n => NdObj n            (* reversal of n times None *)
  end.

(* a.T *)
Definition np_ncols (rows : list (list Z)) : nat := match rows with [] => O | r :: _ => length r end.
Definition np_transpose (rows : list (list Z)) : list (list Z) :=
  map (fun c => map (fun r => nth c r 0) rows) (seq 0 (np_ncols rows)).
Definition np_T (a : ndarray2) : ndarray2 :=
  match a with Nd2 rows => Nd2 (np_transpose rows) | NdObj n => NdObj n end.

(* np.lexsort(keys): keys is a sequence of equally long key arrays (the rows of a 2-d array); the result is
   the permutation that sorts the positions by the LAST key first, then the second to last, ... -- stable
   (positions with equal keys keep their order).  Defined as a stable insertion sort of 0 .. n-1 by the
   lexicographic order on (last key, ..., first key).  No keys: TypeError.  A 1-d object array of None
   (each "key" is a 0-d array) gives a 0-d integer array, which cannot be iterated (TypeError). *)
Fixpoint lex_leb_keys (ks : list (list Z)) (i j : nat) : bool :=
  match ks with
  | [] => true
  | k :: rest =>
      let a := nth i k 0 in
      let b := nth j k 0 in
      if a <? b then true else if b <? a then false else lex_leb_keys rest i j
  end.

Fixpoint insert_by {A} (leb : A -> A -> bool) (x : A) (l : list A) : list A :=
  match l with
  | [] => [x]
  | y :: l' => if leb x y then x :: l else y :: insert_by leb x l'
  end.
Definition sort_by {A} (leb : A -> A -> bool) (l : list A) : list A := fold_right (insert_by leb) [] l.

Definition lexsort_idx (keys : list (list Z)) : list nat :=
  sort_by (lex_leb_keys (rev keys)) (seq 0 (np_ncols keys)).

Inductive ndindex := NdIdx (l : list nat) | NdScalar0.
Definition np_lexsort (keys : ndarray2) : result ndindex :=
  match keys with
  | Nd2 [] => Err TypeError
  | Nd2 ks => Ok (NdIdx (lexsort_idx ks))
  | NdObj _ => Ok NdScalar0
  end.
(* iteration over the result *)
Definition np_iter (a : ndindex) : result (list nat) :=
  match a with NdIdx l => Ok l | NdScalar0 => Err TypeError end.
