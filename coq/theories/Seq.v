(* Seq.v -- executable model of formulations/sequence_based_rp.py
   (class SequenceBasedRoutingProblem, everything except make_feasible / cplex).
   Definitions only; lemmas live in Seq_facts.v.   [C07, C18 (sequence half)]

   Conventions
   * a decision tuple is (v, s, n) = (vehicle, position, node index);
   * an instance is the state the builders read: graph, max_vehicles, max_sequence_length,
     vehicle_cost;
   * Python loops are recursion over the iterated list (flat_map / map over `seq`), in code order;
   * sparse COO containers are kept as the list of appended entries; their dense meaning sums
     duplicate entries (scipy semantics);
   * numbers are integers (exact arithmetic; float rounding is not modelled). *)
From VQ Require Import Base LinAlg Vrptw.

Definition tuple := (nat * nat * nat)%type.

Definition tuple_eqb (a b : tuple) : bool :=
  match a, b with
  | (v1, s1, n1), (v2, s2, n2) => Nat.eqb v1 v2 && Nat.eqb s1 s2 && Nat.eqb n1 n2
  end.

(* sum of f over a list, in list order *)
Definition lsum {A} (l : list A) (f : A -> Z) : Z := fold_right (fun a acc => f a + acc) 0 l.

(* finite sums of LinAlg at Z *)
Definition zsum : nat -> (nat -> Z) -> Z := sum_n 0 Z.add.
Definition zdot := dot Z 0 Z.add Z.mul.
Definition zmv := mv Z 0 Z.add Z.mul.
Definition zqf := qf Z 0 Z.add Z.mul.
Definition zbinary := binary Z 0 1.

(* ---------- the instance ---------- *)
Record inst := mkInst {
  ig  : graph;          (* self.vrptw : names, nodes, arcs *)
  iV  : nat;            (* self.max_vehicles *)
  iL  : nat;            (* self.max_sequence_length *)
  ivc : list Z          (* self.vehicle_cost *)
}.

Definition iN (I : inst) : nat := length (nodes (ig I)).
Definition check_arc (I : inst) (k : nat * nat) : bool := dict_mem k (arcs (ig I)).
(* self.vehicle_cost[vi]; the list has max_vehicles entries (set_max_vehicles / make_feasible) *)
Definition vcost (I : inst) (v : nat) : Z := nth v (ivc I) 0.
(* self.arcs[key].get_cost() *)
Definition cost (I : inst) (k : nat * nat) : Z :=
  match dict_get k (arcs (ig I)) with Some a => acost a | None => 0 end.

(* ---------- constructor ---------- *)
(* strict: the arcs of the copied graph are re-added one by one through the class's own
   add_arc (strict timing filter); an unknown endpoint name raises ValueError *)
Definition refilter (g : graph) : result graph :=
  readd_arcs true (mkGraph (names g) (nodes g) []) (arcs g).

(* then, if there is a node 0 (depot_index is always 0), the class's own set_depot is called on
   its name, which adds the depot self-arc (the node already is at position 0, so also in strict
   mode nothing is re-added); with no node the IndexError is swallowed *)
Definition seq_init (strict : bool) (g0 : graph) : result graph :=
  match (if strict then refilter g0 else Ok g0) with
  | Err e => Err e
  | Ok g1 =>
      match names g1 with
      | [] => Ok g1
      | nm :: _ => seq_set_depot strict g1 nm
      end
  end.

(* ---------- enumerate_variables ---------- *)
(* the six fixing rules, in code order; None = the tuple is free.
   `si == L-1` on Python integers is  S s = L,  `si == L-2` is  S (S s) = L. *)
Definition rule (I : inst) (s n : nat) : option Z :=
  if Nat.eqb s 0 && Nat.eqb n 0 then Some 1
  else if Nat.eqb s 0 && negb (Nat.eqb n 0) then Some 0
  else if Nat.eqb s 1 && negb (check_arc I (O, n)) then Some 0
  else if Nat.eqb (S s) (iL I) && Nat.eqb n 0 then Some 1
  else if Nat.eqb (S s) (iL I) && negb (Nat.eqb n 0) then Some 0
  else if Nat.eqb (S (S s)) (iL I) && negb (check_arc I (n, O)) then Some 0
  else None.

(* loop order: s outer, n inner, v innermost *)
Definition grid (I : inst) : list (nat * nat) :=
  flat_map (fun s => map (fun n => (s, n)) (seq 0 (iN I))) (seq 0 (iL I)).

(* self.var_mapping *)
Definition vars (I : inst) : list tuple :=
  flat_map (fun sn =>
              match rule I (fst sn) (snd sn) with
              | None => map (fun v => (v, fst sn, snd sn)) (seq 0 (iV I))
              | Some _ => []
              end) (grid I).

(* self.fixed_values, as items() in insertion order *)
Definition fixed_items (I : inst) : list (tuple * Z) :=
  flat_map (fun sn =>
              match rule I (fst sn) (snd sn) with
              | Some z => map (fun v => ((v, fst sn, snd sn), z)) (seq 0 (iV I))
              | None => []
              end) (grid I).

(* num_vars is counted up while enumerating *)
Definition num_variables (I : inst) : nat :=
  fold_left (fun acc sn => match rule I (fst sn) (snd sn) with
                           | None => (acc + iV I)%nat
                           | Some _ => acc
                           end) (grid I) O.

Fixpoint assoc_t {B} (t : tuple) (l : list (tuple * B)) : option B :=
  match l with
  | [] => None
  | (u, b) :: l' => if tuple_eqb t u then Some b else assoc_t t l'
  end.

(* self.fixed_values.get(t) *)
Definition fixed (I : inst) (t : tuple) : option Z := assoc_t t (fixed_items I).
(* self.fixed_values[t] where the code reads it (only for in-range tuples that are not free,
   which are always keys: Seq_facts.fixed_or_free) *)
Definition fixed_val (I : inst) (t : tuple) : Z :=
  match fixed I t with Some z => z | None => 0 end.

Fixpoint find_index (t : tuple) (l : list tuple) : option nat :=
  match l with
  | [] => None
  | u :: l' => if tuple_eqb t u then Some O else option_map S (find_index t l')
  end.

(* get_var_index through var_mapping_inverse: the entry written when the tuple was appended
   (its position in var_mapping), -1 -> None; an out-of-range tuple (IndexError in the
   implementation) is None as well *)
Definition var_index (I : inst) (t : tuple) : option nat := find_index t (vars I).
(* get_var_tuple_index: var_mapping[k], IndexError -> None *)
Definition var_tuple (I : inst) (k : nat) : option tuple := nth_error (vars I) k.

(* ---------- dense meaning of COO containers ---------- *)
Definition dense1 (E : list (nat * Z)) (i : nat) : Z :=
  lsum E (fun e => if Nat.eqb (fst e) i then snd e else 0).
Definition dense2 (E : list (nat * nat * Z)) (i j : nat) : Z :=
  lsum E (fun e => if Nat.eqb (fst (fst e)) i && Nat.eqb (snd (fst e)) j then snd e else 0).

(* ---------- build_linear_constraints ---------- *)
(* the tuples summed in each constraint row, rows in code order:
   customers ni = 1..N-1 (sum over si, then vi), then (si, vi) for si = 1..L-2 (sum over ni) *)
Definition rows (I : inst) : list (list tuple) :=
  map (fun ni => flat_map (fun si => map (fun vi => (vi, si, ni)) (seq 0 (iV I))) (seq 0 (iL I)))
      (seq 1 (iN I - 1))
  ++ flat_map (fun si => map (fun vi => map (fun ni => (vi, si, ni)) (seq 0 (iN I))) (seq 0 (iV I)))
              (seq 1 (iL I - 2)).

(* entries (column, 1.0) appended for a row *)
Definition row_entries (I : inst) (ts : list tuple) : list (nat * Z) :=
  flat_map (fun t => match var_index I t with Some k => [(k, 1)] | None => [] end) ts.
(* right-hand side: 1.0, minus the fixed value of every fixed tuple of the row *)
Definition row_rhs (I : inst) (ts : list tuple) : Z :=
  1 - lsum ts (fun t => match var_index I t with Some _ => 0 | None => fixed_val I t end).

Definition num_rows (I : inst) : nat := length (rows I).
Definition Amat (I : inst) (r k : nat) : Z := dense1 (row_entries I (nth r (rows I) [])) k.
Definition bvec (I : inst) (r : nat) : Z := row_rhs I (nth r (rows I) []).

(* ---------- build_quadratic_constraints ---------- *)
(* quadratic_constraint_logic(vi, si, ni, nj): the pairs it appends, or AssertionError *)
Definition qlogic (I : inst) (c : nat * nat * nat * nat) : result (list (nat * nat)) :=
  match c with
  | (v, s, ni, nj) =>
      match var_index I (v, s, ni), var_index I (v, S s, nj) with
      | None, None =>
          if fixed_val I (v, s, ni) * fixed_val I (v, S s, nj) =? 0 then Ok [] else Err AssertionError
      | None, Some _ =>
          if fixed_val I (v, s, ni) =? 0 then Ok [] else Err AssertionError
      | Some _, None =>
          if fixed_val I (v, S s, nj) =? 0 then Ok [] else Err AssertionError
      | Some k1, Some k2 => Ok [(k1, k2)]
      end
  end.

(* the calls of quadratic_constraint_logic in code order *)
Definition forbidden_calls (I : inst) : list (nat * nat * nat * nat) :=
  flat_map (fun ninj =>
              if check_arc I ninj then []
              else flat_map (fun s => map (fun v => (v, s, fst ninj, snd ninj)) (seq 0 (iV I)))
                            (seq 0 (iL I - 1)))
           (flat_map (fun ni => map (fun nj => (ni, nj)) (seq 0 (iN I))) (seq 0 (iN I))).

Definition absorb_calls (I : inst) : list (nat * nat * nat * nat) :=
  flat_map (fun v =>
     flat_map (fun s =>
        flat_map (fun nj => if check_arc I (O, nj) then [(v, s, O, nj)] else [])
                 (seq 1 (iN I - 1)))
        (seq 1 (iL I - 2)))
     (seq 0 (iV I)).

Definition Rcalls (I : inst) := forbidden_calls I ++ absorb_calls I.

(* run the calls in order; the first failing assert aborts *)
Fixpoint collect {A} (l : list (result (list A))) : result (list A) :=
  match l with
  | [] => Ok []
  | Err e :: _ => Err e
  | Ok xs :: l' => match collect l' with Ok ys => Ok (xs ++ ys) | Err e => Err e end
  end.

Definition R_entries (I : inst) : result (list (nat * nat)) := collect (map (qlogic I) (Rcalls I)).

(* dense quadratic_constraints_matrix: every appended pair has value 1.0 *)
Definition Rmat (E : list (nat * nat)) (i j : nat) : Z :=
  dense2 (map (fun p => (p, 1)) E) i j.

(* ---------- build_objective ---------- *)
Definition obj_calls (I : inst) : list (nat * nat * ((nat * nat) * arc)) :=
  flat_map (fun v => flat_map (fun s => map (fun kv => (v, s, kv)) (arcs (ig I))) (seq 0 (iL I - 1)))
           (seq 0 (iV I)).

Definition obj_coeff (I : inst) (c : nat * nat * ((nat * nat) * arc)) : Z :=
  match c with (v, _, (_, a)) => acost a + vcost I v end.

Definition c_entries (I : inst) : list (nat * Z) :=
  flat_map (fun c =>
     match c with
     | (v, s, ((ni, nj), a)) =>
         match var_index I (v, s, ni), var_index I (v, S s, nj) with
         | None, Some k2 => [(k2, obj_coeff I c * fixed_val I (v, s, ni))]
         | Some k1, None => [(k1, obj_coeff I c * fixed_val I (v, S s, nj))]
         | _, _ => []            (* both fixed: constant part, not tracked; both free: bilinear *)
         end
     end) (obj_calls I).

Definition q_entries (I : inst) : list (nat * nat * Z) :=
  flat_map (fun c =>
     match c with
     | (v, s, ((ni, nj), a)) =>
         match var_index I (v, s, ni), var_index I (v, S s, nj) with
         | Some k1, Some k2 => [(k1, k2, obj_coeff I c)]
         | _, _ => []
         end
     end) (obj_calls I).

Definition cvec (I : inst) (k : nat) : Z := dense1 (c_entries I) k.
Definition Qo (I : inst) (i j : nat) : Z := dense2 (q_entries I) i j.

(* ---------- get_routes ---------- *)
Definition lex_le (a b : tuple) : bool :=
  match a, b with
  | (v1, s1, n1), (v2, s2, n2) =>
      Nat.ltb v1 v2 || (Nat.eqb v1 v2 && (Nat.ltb s1 s2 || (Nat.eqb s1 s2 && Nat.leb n1 n2)))
  end.

Fixpoint insert_t (t : tuple) (l : list tuple) : list tuple :=
  match l with
  | [] => [t]
  | u :: l' => if lex_le t u then t :: l else u :: insert_t t l'
  end.
(* np.lexsort on (v, s, n): stable *)
Definition sort_t (l : list tuple) : list tuple := fold_right insert_t [] l.

(* `if prev_node and ...`: None and node 0 are falsy *)
Definition truthy (p : option nat) : bool :=
  match p with Some (S _) => true | _ => false end.

(* inner loop over positions of one vehicle: pops one tuple per position *)
Fixpoint decode_pos (I : inst) (v : nat) (ss : list nat) (q : list tuple)
         (prev : option nat) (route : list nat) : result (list nat * list tuple) :=
  match ss with
  | [] => Ok (route, q)
  | s :: ss' =>
      match q with
      | [] => Err IndexError                                   (* pop from empty list *)
      | (tv, ts, tn) :: q' =>
          if negb (Nat.eqb tv v) || negb (Nat.eqb ts s) then decode_pos I v ss' q' prev route
          else if truthy prev && negb (check_arc I (match prev with Some p => p | None => O end, tn))
               then decode_pos I v ss' q' prev route
          else decode_pos I v ss' q' (Some tn) (route ++ [tn])
      end
  end.

Fixpoint decode_veh (I : inst) (vs : list nat) (q : list tuple) (routes : list (list nat))
  : result (list (list nat)) :=
  match vs with
  | [] => Ok routes
  | v :: vs' =>
      match decode_pos I v (seq 0 (iL I)) q None [] with
      | Err e => Err e
      | Ok (r, q') => decode_veh I vs' q' (routes ++ [r])
      end
  end.

(* solution: a vector with one entry per variable *)
Definition decode (I : inst) (x : list Z) : result (list (list nat)) :=
  let nz := map fst (filter (fun tx => negb (snd tx =? 0)) (combine (vars I) x)) in
  match nz with
  | [] => Ok []
  | _ =>
      let ones := map fst (filter (fun tz => snd tz =? 1) (fixed_items I)) in
      decode_veh I (seq 0 (iV I)) (sort_t (nz ++ ones)) []
  end.

(* ---------- reference: walk assignments ---------- *)
(* number of (v, s) at which W sits on node n *)
Definition hits (I : inst) (W : nat -> nat -> nat) (n : nat) : Z :=
  zsum (iV I) (fun v => zsum (iL I) (fun s => if Nat.eqb (W v s) n then 1 else 0)).

Record walk_assignment (I : inst) (W : nat -> nat -> nat) : Prop := {
  wa_node   : forall v s, (v < iV I)%nat -> (s < iL I)%nat -> (W v s < iN I)%nat;
  wa_start  : forall v, (v < iV I)%nat -> W v 0%nat = 0%nat;
  wa_end    : forall v, (v < iV I)%nat -> W v (iL I - 1)%nat = 0%nat;
  wa_arc    : forall v s, (v < iV I)%nat -> (S s < iL I)%nat -> check_arc I (W v s, W v (S s)) = true;
  wa_absorb : forall v s, (v < iV I)%nat -> (1 <= s)%nat -> (S s < iL I)%nat ->
                          W v s = 0%nat -> W v (S s) = 0%nat;
  wa_once   : forall n, (1 <= n)%nat -> (n < iN I)%nat -> hits I W n = 1
}.

(* the vector over the free variables that W induces *)
Definition indicator_free (I : inst) (W : nat -> nat -> nat) (k : nat) : Z :=
  match var_tuple I k with
  | Some (v, s, n) => if Nat.eqb (W v s) n then 1 else 0
  | None => 0
  end.

(* the walks as get_routes returns them *)
Definition walks (I : inst) (W : nat -> nat -> nat) : list (list nat) :=
  map (fun v => map (W v) (seq 0 (iL I))) (seq 0 (iV I)).

(* padding of routes (lists of customers) with depot stays *)
Definition pad_walks (routes : list (list nat)) (v s : nat) : nat :=
  nth s (O :: nth v routes []) O.

(* earliest arrival times along a walk: start of the depot window, then
   max(window start, previous time + travel time) *)
Definition tt (I : inst) (k : nat * nat) : Z :=
  match dict_get k (arcs (ig I)) with Some a => att a | None => 0 end.
Definition node_at (I : inst) (n : nat) : node := nth n (nodes (ig I)) dummy_node.
Fixpoint arrival (I : inst) (W : nat -> nat) (s : nat) : Z :=
  match s with
  | O => nlo (node_at I (W O))
  | S s' => Z.max (nlo (node_at I (W s))) (arrival I W s' + tt I (W s', W s))
  end.

(* ---------- observables and the correspondence check ---------- *)
Definition dense_rows (m n : nat) (M : nat -> nat -> Z) : list (list Z) :=
  map (fun i => map (fun j => M i j) (seq 0 n)) (seq 0 m).
(* dense matrix of a COO list, row by row (entries of the row are selected first) *)
Definition dense2_rows (n : nat) (E : list (nat * nat * Z)) : list (list Z) :=
  map (fun i =>
         let Ei := filter (fun e => Nat.eqb (fst (fst e)) i) E in
         map (fun j => lsum Ei (fun e => if Nat.eqb (snd (fst e)) j then snd e else 0)) (seq 0 n))
      (seq 0 n).

Definition tuple_opt_eqb := option_eqb tuple_eqb.
Definition zlist_eqb := list_eqb Z.eqb.
Definition zmat_eqb := list_eqb zlist_eqb.
Definition natopt_eqb := option_eqb Nat.eqb.

(* get_constraint_data: shapes, dense A, b, dense R -- or the AssertionError *)
Definition con_obs := ((nat * nat) * list (list Z) * list Z * (nat * nat) * list (list Z))%type.
Definition constraint_data (I : inst) : result con_obs :=
  let n := num_variables I in
  match R_entries I with
  | Err e => Err e
  | Ok E =>
      Ok ((num_rows I, n), dense_rows (num_rows I) n (Amat I), map (bvec I) (seq 0 (num_rows I)),
          (n, n), dense2_rows n (map (fun p => (p, 1)) E))
  end.
Definition con_obs_eqb (x y : con_obs) : bool :=
  match x, y with
  | (sa1, a1, b1, sr1, r1), (sa2, a2, b2, sr2, r2) =>
      natpair_eqb sa1 sa2 && zmat_eqb a1 a2 && zlist_eqb b1 b2 && natpair_eqb sr1 sr2 && zmat_eqb r1 r2
  end.

(* get_objective_data: len(c), c, shape of Q, dense Q *)
Definition obj_obs := (nat * list Z * (nat * nat) * list (list Z))%type.
Definition objective_data (I : inst) : obj_obs :=
  let n := num_variables I in
  (n, map (cvec I) (seq 0 n), (n, n), dense2_rows n (q_entries I)).
Definition obj_obs_eqb (x y : obj_obs) : bool :=
  match x, y with
  | (n1, c1, s1, q1), (n2, c2, s2, q2) =>
      Nat.eqb n1 n2 && zlist_eqb c1 c2 && natpair_eqb s1 s2 && zmat_eqb q1 q2
  end.

Definition arcs_obs (g : graph) : list ((nat * nat) * (Z * Z)) :=
  map (fun kv => (fst kv, (att (snd kv), acost (snd kv)))) (arcs g).
Definition arcs_obs_eqb :=
  list_eqb (pair_eqb natpair_eqb (pair_eqb Z.eqb Z.eqb)).

Record scase := mkCase {
  c_strict : bool;
  c_ops0 : list gop;           (* history that built the VRPTW handed to the constructor *)
  c_ops1 : list gop;           (* calls on the formulation object afterwards *)
  c_V : nat; c_L : nat; c_vc : list Z;
  o_names : list nat;                              (* node_names *)
  o_arcs : list ((nat * nat) * (Z * Z));           (* arcs.items(): key, (travel time, cost) *)
  o_fixed : list (tuple * Z);                      (* fixed_values.items() *)
  o_vars : list tuple;                             (* var_mapping *)
  o_num : nat;                                     (* get_num_variables() *)
  o_probe : list (tuple * option nat);             (* get_var_index over V x L x N and beyond *)
  o_tup : list (option tuple);                     (* get_var_tuple_index(k), k = 0 .. n+2 *)
  o_con : result con_obs;
  o_obj : obj_obs;
  o_dec : list (list Z * result (list (list nat)))  (* get_routes(x) *)
}.

Definition case_inst (c : scase) : result inst :=
  match seq_init (c_strict c) (run Base (c_ops0 c) empty_graph) with
  | Err e => Err e
  | Ok g1 => Ok (mkInst (run (Seq (c_strict c)) (c_ops1 c) g1) (c_V c) (c_L c) (c_vc c))
  end.

Definition check_scase (c : scase) : list nat :=
  match case_inst c with
  | Err _ => [99%nat]
  | Ok J =>
      chk 1 (list_eqb Nat.eqb (names (ig J)) (o_names c)) ++
      chk 2 (arcs_obs_eqb (arcs_obs (ig J)) (o_arcs c)) ++
      chk 3 (list_eqb (pair_eqb tuple_eqb Z.eqb) (fixed_items J) (o_fixed c)) ++
      chk 4 (list_eqb tuple_eqb (vars J) (o_vars c)) ++
      chk 5 (Nat.eqb (num_variables J) (o_num c)) ++
      chk 6 (list_eqb natopt_eqb (map (fun p => var_index J (fst p)) (o_probe c)) (map snd (o_probe c))) ++
      chk 7 (list_eqb tuple_opt_eqb (map (var_tuple J) (seq 0 (length (o_tup c)))) (o_tup c)) ++
      chk 8 (result_eqb con_obs_eqb (constraint_data J) (o_con c)) ++
      chk 9 (obj_obs_eqb (objective_data J) (o_obj c)) ++
      chk 10 (list_eqb (result_eqb (list_eqb (list_eqb Nat.eqb)))
                       (map (fun d => decode J (fst d)) (o_dec c)) (map snd (o_dec c)))
  end.

(* ---------- hypotheses of the C07 theorems, as boolean tests on concrete instances ---------- *)
Definition gnode (g : graph) (n : nat) : node := nth n (nodes g) dummy_node.

(* what the strict add_arc checked, read with the depot at index 0 (Seq_facts.strict_graph) *)
Definition strict_graphb (g : graph) : bool :=
  forallb (fun kv =>
    match kv with
    | ((i, j), a) =>
        (if Nat.eqb i 0
         then ext_leb (Fin (nlo (gnode g 0) + att a)) (nhi (gnode g j)) &&
              (if Nat.eqb j 0 then ext_leb (ext_add (nhi (gnode g 0)) (att a)) (nhi (gnode g 0)) else true)
         else ext_leb (ext_add (nhi (gnode g i)) (att a)) (nhi (gnode g j)))
    end) (arcs g).

Definition windows_okb (g : graph) : bool :=
  forallb (fun n => ext_leb (Fin (nlo n)) (nhi n)) (nodes g).

Fixpoint nodup_keysb (l : list (nat * nat)) : bool :=
  match l with
  | [] => true
  | k :: l' => negb (existsb (natpair_eqb k) l') && nodup_keysb l'
  end.

(* Seq_facts.seq_ok *)
Definition seq_okb (J : inst) : bool :=
  nodup_keysb (map fst (arcs (ig J))) && check_arc J (O, O) && Nat.leb 1 (iN J).

(* tags: 13 seq_ok, 11 strict_graph, 12 windows_ok *)
Definition check_hyp_case (c : scase) : list nat :=
  match case_inst c with
  | Err _ => [99%nat]
  | Ok J => chk 13 (seq_okb J)
  end.
Definition check_strict_case (c : scase) : list nat :=
  match case_inst c with
  | Err _ => [99%nat]
  | Ok J => chk 11 (strict_graphb (ig J)) ++ chk 12 (windows_okb (ig J))
  end.
