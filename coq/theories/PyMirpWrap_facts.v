(* PyMirpWrap_facts.v -- small facts about the combinators of PyMirpWrap.v, used by genprops/C09_wrap_gen.v *)
From Coq Require Import QArith Qround ZArith List Lia.
From VQ Require Import Base Mirp Rng Rng_facts MirpWrap MirpWrap_facts PyMirp PyMirpWrap.
Import ListNotations.
Local Open Scope Q_scope.

(* unfold the straight-line combinators of PyMirpWrap.v (not the loops) and the projections of the object *)
Ltac pw_red :=
  cbv beta iota zeta delta
    [PyMirpWrap.bind PyMirpWrap.ret PyMirpWrap.raise PyMirpWrap.rd emit PyMirpWrap.q_div
     PyMirpWrap.py_min_m PyMirpWrap.py_max_m is_none is_not_none negb
     PyMirpWrap.self_time_horizon self_vrptw vrptw_nodes PyMirpWrap.vrptw_depot_index
     PyMirpWrap.vrptw_arcs_values vrptw_estimate_max_vehicles
     self_abrp self_pbrp self_sbrp self_set_abrp self_set_pbrp self_set_sbrp
     new_form new_ArcBasedRoutingProblem new_PathBasedRoutingProblem new_SequenceBasedRoutingProblem
     on_form form_add_time_points form_set_max_vehicles form_set_max_sequence_length form_add_routes_better
     form_make_feasible np_random_seed np_random_seed_none
     xw xabrp xpbrp xsbrp xnext xlog].

Lemma np_arange_zrange a b : np_arange a (b + 1) = zrange a b.
Proof. reflexivity. Qed.

Lemma list_mul_const {A B} (a : A) (l : list B) : list_mul [a] (length l) = map (fun _ => a) l.
Proof. unfold list_mul. induction l as [|b l IH]; simpl; [reflexivity | rewrite IH; reflexivity]. Qed.

Lemma range_count_to_nat z : Z.to_nat (range_count z) = Z.to_nat z.
Proof. unfold range_count. destruct (Z.max_spec 0 z) as [[H ->]|[H ->]]; [reflexivity|]. destruct z; try reflexivity; lia. Qed.

Lemma py_range_length z : length (py_range z) = Z.to_nat z.
Proof. unfold py_range. rewrite map_length, seq_length. reflexivity. Qed.

(* the time points handed over: sorted list of the distinct points; the second sort (inside add_time_points,
   part of MirpWrap.arc_grid) changes nothing *)
Lemma grid_once g : py_sort (py_list (py_set (tw_points g ++ [0%Z]))) = arc_grid g.
Proof. unfold py_sort, py_list, py_set, arc_grid, arc_grid_with, grid_of. rewrite isort_idem. reflexivity. Qed.

Lemma pos_not_zero m : 0 < m -> Qeq_bool m 0 = false.
Proof.
  intro H. destruct (Qeq_bool m 0) eqn:E; [|reflexivity].
  apply Qeq_bool_iff in E. rewrite E in H. exfalso. exact (Qlt_irrefl 0 H).
Qed.

Lemma add_log_nil x : add_log x [] = x.
Proof. destruct x. unfold add_log. cbn. rewrite app_nil_r. reflexivity. Qed.
Lemma add_log_app x l1 l2 : add_log (add_log x l1) l2 = add_log x (l1 ++ l2).
Proof. unfold add_log. cbn. rewrite app_assoc. reflexivity. Qed.

(* the rounds as the getter writes them (int(..) may be negative: range() is then empty) and as MirpWrap.path_rounds
   counts them give the same calls *)
Lemma rounds_log_plan id nc tc H :
  rounds_log id nc tc [(QFin 0, 1%Z); (QFin 1, py_int H); (QInf, py_int (10 * H))] = rounds_log id nc tc (path_rounds H).
Proof.
  unfold rounds_log, path_rounds, py_int. cbn [flat_map fst snd]. rewrite !range_count_to_nat. reflexivity.
Qed.
