(* Vrptw_facts.v -- invariant of the VRPTW graph under every history of
   add_node / add_arc / set_depot (base class and sequence overrides).  [C15] *)
From Coq Require Import FinFun.
From VQ Require Import Base Vrptw.

(* ---------- list lemmas ---------- *)
Lemma memb_In x l : memb x l = true <-> In x l.
Proof.
  induction l as [|y l IH]; simpl; [split; [discriminate|tauto]|].
  rewrite orb_true_iff, Nat.eqb_eq, IH. split; intros [H|H]; auto.
Qed.

Lemma index_of_Some x l i : index_of x l = Some i -> nth_error l i = Some x.
Proof.
  revert i; induction l as [|y l IH]; simpl; intros i; [discriminate|].
  destruct (Nat.eqb x y) eqn:E.
  - apply Nat.eqb_eq in E; subst. intros H; inversion H; reflexivity.
  - destruct (index_of x l) as [k|]; simpl; [|discriminate].
    intros H; inversion H; subst; simpl. apply IH; reflexivity.
Qed.

Lemma index_of_In x l : In x l -> exists i, index_of x l = Some i.
Proof.
  induction l as [|y l IH]; simpl; [tauto|].
  destruct (Nat.eqb x y) eqn:E; [eauto|].
  apply Nat.eqb_neq in E. intros [H|H]; [congruence|].
  destruct (IH H) as [i ->]; simpl; eauto.
Qed.

Lemma index_of_notIn x l : ~ In x l -> index_of x l = None.
Proof.
  induction l as [|y l IH]; simpl; auto.
  intros H. destruct (Nat.eqb x y) eqn:E.
  - apply Nat.eqb_eq in E; subst. exfalso; auto.
  - rewrite IH; auto.
Qed.

Lemma nth_error_nth {A} (l : list A) i d x : nth_error l i = Some x -> nth i l d = x.
Proof.
  revert i; induction l as [|y l IH]; intros [|i]; simpl; try discriminate.
  - intros H; inversion H; auto.
  - apply IH.
Qed.

Lemma nth_error_lt {A} (l : list A) i x : nth_error l i = Some x -> (i < length l)%nat.
Proof. intros H. apply nth_error_Some. congruence. Qed.

Lemma nth_error_map_Some {A B} (f : A -> B) l i y :
  nth_error (map f l) i = Some y -> exists x, nth_error l i = Some x /\ f x = y.
Proof.
  revert i; induction l as [|a l IH]; intros [|i]; simpl; try discriminate.
  - intros H; inversion H; eauto.
  - apply IH.
Qed.

Lemma nth_error_snoc_old {A} (l : list A) x i y :
  nth_error l i = Some y -> nth_error (l ++ [x]) i = Some y.
Proof. intros H. rewrite nth_error_app1; auto. eapply nth_error_lt; eauto. Qed.

(* ---------- move_front / new_pos ---------- *)
Lemma nth_error_remove_nth {A} (l : list A) d p :
  nth_error (remove_nth d l) p = if Nat.ltb p d then nth_error l p else nth_error l (S p).
Proof.
  revert d p; induction l as [|x l IH]; intros d p.
  - assert (HN : forall q, nth_error (@nil A) q = None) by (intros [|q]; reflexivity).
    destruct (Nat.ltb p d); rewrite HN; destruct d; simpl; apply HN.
  - destruct d as [|d]; simpl.
    + reflexivity.
    + destruct p as [|p]; simpl; [reflexivity|].
      rewrite IH. reflexivity.
Qed.

Lemma nth_error_move_front {A} (dflt : A) l d p :
  (d < length l)%nat ->
  nth_error (move_front d dflt l) (new_pos d p) = nth_error l p.
Proof.
  intros Hd. unfold move_front, new_pos.
  destruct (Nat.eqb_spec p d) as [->|Hne]; simpl.
  - destruct (nth_error l d) eqn:E.
    + f_equal. eapply nth_error_nth; eauto.
    + apply nth_error_None in E. lia.
  - destruct (Nat.ltb_spec p d) as [Hlt|Hge]; simpl.
    + rewrite nth_error_remove_nth.
      destruct (Nat.ltb_spec p d); [reflexivity | lia].
    + destruct p as [|p]; [lia|]. simpl.
      rewrite nth_error_remove_nth.
      destruct (Nat.ltb_spec p d); [lia | reflexivity].
Qed.

Lemma new_pos_inj d p q : new_pos d p = new_pos d q -> p = q.
Proof.
  unfold new_pos.
  destruct (Nat.eqb_spec p d), (Nat.eqb_spec q d), (Nat.ltb_spec p d), (Nat.ltb_spec q d); lia.
Qed.

Lemma In_remove_nth {A} (l : list A) d x : In x (remove_nth d l) -> In x l.
Proof.
  revert d; induction l as [|y l IH]; intros [|d]; simpl; auto.
  intros [H|H]; eauto.
Qed.

Lemma remove_nth_split {A} (dflt : A) l d :
  (d < length l)%nat ->
  exists l1 l2, l = l1 ++ nth d l dflt :: l2 /\ remove_nth d l = l1 ++ l2.
Proof.
  revert d; induction l as [|y l IH]; intros d Hd; simpl in Hd; [lia|].
  destruct d as [|d]; simpl.
  - exists [], l; auto.
  - destruct (IH d) as (l1 & l2 & E1 & E2); [lia|].
    exists (y :: l1), l2; simpl. rewrite <- E1, E2. auto.
Qed.

Lemma NoDup_move_front {A} (dflt : A) l d :
  (d < length l)%nat -> NoDup l -> NoDup (move_front d dflt l).
Proof.
  intros Hd H. unfold move_front.
  destruct (remove_nth_split dflt l d Hd) as (l1 & l2 & E1 & E2).
  rewrite E2. rewrite E1 in H.
  apply NoDup_remove in H. destruct H as [H1 H2]. constructor; auto.
Qed.

Lemma In_move_front {A} (dflt : A) l d x :
  (d < length l)%nat -> In x (move_front d dflt l) -> In x l.
Proof.
  intros Hd [H|H].
  - subst. apply nth_In; auto.
  - eapply In_remove_nth; eauto.
Qed.

Lemma map_remove_nth {A B} (f : A -> B) l d : map f (remove_nth d l) = remove_nth d (map f l).
Proof.
  revert d; induction l as [|y l IH]; intros [|d]; simpl; auto. f_equal; auto.
Qed.

Lemma map_move_front {A B} (f : A -> B) da db l d :
  f da = db -> map f (move_front d da l) = move_front d db (map f l).
Proof.
  intros E. unfold move_front. simpl. rewrite map_remove_nth. f_equal.
  rewrite <- E. symmetry. apply map_nth.
Qed.

(* ---------- the invariant ---------- *)
Definition arc_ok (g : graph) (k : nat * nat) (a : arc) : Prop :=
  exists no nd,
    nth_error (nodes g) (fst k) = Some no /\ nth_error (nodes g) (snd k) = Some nd /\
    aorig a = nname no /\ adest a = nname nd /\
    ext_le (Fin (nlo no + att a)) (nhi nd).

Record Inv (g : graph) : Prop := {
  inv_nodup   : NoDup (names g);
  inv_aligned : names g = map nname (nodes g);
  inv_windows : forall n, In n (nodes g) -> ext_le (Fin (nlo n)) (nhi n);
  inv_keys    : NoDup (map fst (arcs g));
  inv_arcs    : forall k a, In (k, a) (arcs g) -> arc_ok g k a
}.

Lemma Inv_empty : Inv empty_graph.
Proof. constructor; simpl; try constructor; try tauto. Qed.

Lemma add_node_inv g nm dem lo hi g' :
  Inv g -> add_node g nm dem lo hi = Ok g' -> Inv g'.
Proof.
  intros [H1 H2 H3 H4 H5]. unfold add_node.
  destruct (memb nm (names g)) eqn:Em; [discriminate|].
  destruct (window_ok lo hi) eqn:Ew; simpl; [|discriminate].
  intros H; inversion H; subst; clear H. constructor; simpl.
  - apply NoDup_snoc; auto. intros Hin. apply memb_In in Hin. congruence.
  - rewrite map_app, H2. reflexivity.
  - intros n Hn. apply in_app_iff in Hn. destruct Hn as [Hn|[<-|[]]].
    + apply H3; exact Hn.
    + simpl. unfold window_ok in Ew. apply ext_leb_le in Ew. exact Ew.
  - exact H4.
  - intros k a Hin. destruct (H5 k a Hin) as (no & nd & A & B & C & D & E).
    exists no, nd. simpl. repeat split; auto using nth_error_snoc_old.
Qed.

Lemma strict_implies_base o d tm :
  ext_le (Fin (nlo o)) (nhi o) -> strict_filter o d tm = true -> base_filter o d tm = true.
Proof.
  unfold strict_filter, base_filter. intros Hw H.
  apply ext_leb_le in H. apply ext_leb_le.
  unfold ext_le, ext_add in *. destruct (nhi o), (nhi d); auto; lia.
Qed.

Lemma add_arc_gen_inv s g o d tm cost g' b :
  Inv g -> add_arc_gen s g o d tm cost = Ok (g', b) -> Inv g'.
Proof.
  intros HI. pose proof HI as [H1 H2 H3 H4 H5]. unfold add_arc_gen.
  destruct (index_of o (names g)) as [i|] eqn:Ei; [|discriminate].
  destruct (index_of d (names g)) as [j|] eqn:Ej; [|discriminate].
  set (no := nth i (nodes g) dummy_node). set (nd := nth j (nodes g) dummy_node).
  apply index_of_Some in Ei, Ej. rewrite H2 in Ei, Ej.
  apply nth_error_map_Some in Ei, Ej.
  destruct Ei as (xo & Eo & Eon), Ej as (xd & Ed & Edn).
  assert (Hno : no = xo) by (eapply nth_error_nth; eauto).
  assert (Hnd : nd = xd) by (eapply nth_error_nth; eauto).
  match goal with |- context [if ?c then Ok _ else Ok _] => destruct c eqn:Ep end;
    intros H; inversion H; subst g' b; clear H; [|exact HI].
  assert (Hb : base_filter no nd tm = true).
  { destruct (s && negb (Nat.eqb i 0))%bool; auto.
    eapply strict_implies_base; eauto. apply H3. rewrite Hno. eapply nth_error_In; eauto. }
  constructor; simpl; auto.
  - apply dict_set_NoDup; auto.
  - intros k a Hin. apply dict_set_In in Hin. destruct Hin as [Hin|Hin].
    + inversion Hin; subst k a; clear Hin. exists no, nd; simpl.
      rewrite Hno, Hnd. repeat split; auto.
      unfold base_filter in Hb. apply ext_leb_le in Hb. rewrite <- Hno, <- Hnd. exact Hb.
    + apply H5; auto.
Qed.

Lemma index_of_lt x l i : index_of x l = Some i -> (i < length l)%nat.
Proof. intros H. apply index_of_Some in H. eapply nth_error_lt; eauto. Qed.

Lemma set_depot_inv g nm g' : Inv g -> set_depot g nm = Ok g' -> Inv g'.
Proof.
  intros HI. pose proof HI as [H1 H2 H3 H4 H5]. unfold set_depot.
  destruct (index_of nm (names g)) as [d|] eqn:Ed; [|discriminate].
  destruct d as [|d]; intros H; inversion H; subst; clear H; [exact HI|].
  apply index_of_lt in Ed.
  assert (Edn : (S d < length (nodes g))%nat) by (rewrite H2, map_length in Ed; exact Ed).
  constructor; cbn [names nodes arcs].
  - apply NoDup_move_front; auto.
  - rewrite H2. symmetry. apply map_move_front. reflexivity.
  - intros n Hn. apply H3. eapply In_move_front; eauto.
  - unfold rekey. rewrite map_map. simpl.
    assert (E : map (fun x : nat * nat * arc => (new_pos (S d) (fst (fst x)), new_pos (S d) (snd (fst x)))) (arcs g)
                = map (fun k => (new_pos (S d) (fst k), new_pos (S d) (snd k))) (map fst (arcs g))).
    { rewrite map_map. reflexivity. }
    rewrite E. apply FinFun.Injective_map_NoDup; auto.
    intros [a b] [a' b']; simpl. intros H; inversion H.
    f_equal; eapply new_pos_inj; eauto.
  - intros k a Hin. unfold rekey in Hin. apply in_map_iff in Hin.
    destruct Hin as ([k0 a0] & E & Hin). simpl in E. inversion E; subst; clear E.
    destruct (H5 k0 a Hin) as (no & nd & A & B & C & D & F).
    exists no, nd; simpl. rewrite !nth_error_move_front; auto.
Qed.

(* ---------- re-adding stored arcs (strict set_depot after the depot moved) ---------- *)
Lemma add_arc_gen_frame s g o d tm c g' b :
  add_arc_gen s g o d tm c = Ok (g', b) -> names g' = names g /\ nodes g' = nodes g.
Proof.
  unfold add_arc_gen. destruct (index_of o (names g)); [|discriminate].
  destruct (index_of d (names g)); [|discriminate].
  match goal with |- context [if ?p then Ok _ else Ok _] => destruct p end;
    intros H; inversion H; subst; auto.
Qed.

Lemma add_arc_gen_err s g o d tm c e : add_arc_gen s g o d tm c = Err e -> e = ValueError.
Proof.
  unfold add_arc_gen. destruct (index_of o (names g)); [|intros H; inversion H; auto].
  destruct (index_of d (names g)); [|intros H; inversion H; auto].
  match goal with |- context [if ?p then Ok _ else Ok _] => destruct p end; discriminate.
Qed.

(* a property kept by every add_arc is kept by the whole loop *)
Lemma readd_arcs_ind (P : graph -> Prop) s old :
  (forall g kv g' b, In kv old -> P g ->
     add_arc_gen s g (aorig (snd kv)) (adest (snd kv)) (att (snd kv)) (acost (snd kv)) = Ok (g', b) -> P g') ->
  forall g g', P g -> readd_arcs s g old = Ok g' -> P g'.
Proof.
  unfold readd_arcs. induction old as [|kv old IH]; intros Hstep g g' HP H; simpl in H.
  - inversion H; subst; exact HP.
  - destruct (add_arc_gen s g (aorig (snd kv)) (adest (snd kv)) (att (snd kv)) (acost (snd kv)))
      as [[g1 b]|e] eqn:Ea.
    + apply (IH (fun g kv' g' b Hin => Hstep g kv' g' b (or_intror Hin)) g1 g'); auto.
      eapply Hstep; eauto. left; reflexivity.
    + exfalso. clear - H. induction old as [|kv' old IH]; simpl in H; [discriminate|auto].
Qed.

Lemma readd_arcs_inv s g old g' : Inv g -> readd_arcs s g old = Ok g' -> Inv g'.
Proof.
  apply (readd_arcs_ind Inv). intros g0 kv g1 b _ HI H. eapply add_arc_gen_inv; eauto.
Qed.

Lemma readd_arcs_frame s g old g' :
  readd_arcs s g old = Ok g' -> names g' = names g /\ nodes g' = nodes g.
Proof.
  intros H.
  apply (readd_arcs_ind (fun x => names x = names g /\ nodes x = nodes g) s old) with (g := g); auto.
  intros g0 kv g1 b _ [E1 E2] Ha. apply add_arc_gen_frame in Ha. destruct Ha; split; congruence.
Qed.

Lemma readd_arcs_err s g old e : readd_arcs s g old = Err e -> e = ValueError.
Proof.
  unfold readd_arcs.
  assert (G : forall (r : result graph), (forall e0, r = Err e0 -> e0 = ValueError) ->
            forall e0, fold_left
              (fun r kv => match r with
                 | Err e => Err e
                 | Ok g' => match add_arc_gen s g' (aorig (snd kv)) (adest (snd kv)) (att (snd kv)) (acost (snd kv)) with
                            | Ok (g'', _) => Ok g'' | Err e => Err e end end) old r = Err e0 -> e0 = ValueError).
  { induction old as [|kv old IH]; intros r Hr e0; simpl; [apply Hr|].
    apply IH. destruct r as [g0|e1]; [|exact Hr].
    destruct (add_arc_gen s g0 _ _ _ _) as [[g1 b]|e1] eqn:Ea; [discriminate|].
    intros e2 H; inversion H; subst. eapply add_arc_gen_err; eauto. }
  apply G. discriminate.
Qed.

(* the loop cannot raise when every stored arc names two nodes of the graph *)
Lemma readd_arcs_ok s g old :
  (forall kv, In kv old -> In (aorig (snd kv)) (names g) /\ In (adest (snd kv)) (names g)) ->
  exists g', readd_arcs s g old = Ok g'.
Proof.
  unfold readd_arcs. revert g. induction old as [|kv old IH]; intros g H; simpl; [eauto|].
  destruct (H kv (or_introl eq_refl)) as [Ho Hd].
  destruct (add_arc_gen s g (aorig (snd kv)) (adest (snd kv)) (att (snd kv)) (acost (snd kv)))
    as [[g1 b]|e] eqn:Ea.
  - apply IH. intros kv' Hin. apply add_arc_gen_frame in Ea. destruct Ea as [-> _].
    apply H. right; exact Hin.
  - exfalso. unfold add_arc_gen in Ea.
    apply index_of_In in Ho, Hd. destruct Ho as [i Ei], Hd as [j Ej]. rewrite Ei, Ej in Ea.
    match type of Ea with context [if ?p then Ok _ else Ok _] => destruct p end; discriminate.
Qed.

Lemma Inv_clear_arcs g : Inv g -> Inv (mkGraph (names g) (nodes g) []).
Proof. intros [H1 H2 H3 H4 H5]. constructor; simpl; auto; [constructor | tauto]. Qed.

Lemma arc_names_in g k a : Inv g -> In (k, a) (arcs g) -> In (aorig a) (names g) /\ In (adest a) (names g).
Proof.
  intros HI Hin. destruct (inv_arcs g HI k a Hin) as (no & nd & A & B & C & D & _).
  rewrite (inv_aligned g HI), C, D. split; apply in_map; eapply nth_error_In; eauto.
Qed.

Lemma set_depot_has_depot g nm g' : Inv g -> set_depot g nm = Ok g' -> exists n0, nth_error (nodes g') 0 = Some n0.
Proof.
  intros HI E. unfold set_depot in E. destruct (index_of nm (names g)) as [d|] eqn:Ed; [|discriminate].
  destruct d as [|d]; inversion E as [Eg]; clear E.
  - rewrite <- Eg. apply index_of_lt in Ed. rewrite (inv_aligned _ HI), map_length in Ed.
    destruct (nodes g); simpl in *; [lia|eauto].
  - simpl. eauto.
Qed.

(* the depot self-arc stored at the end of the sequence class's set_depot *)
Lemma self_arc_inv g n0 :
  Inv g -> nth_error (nodes g) 0 = Some n0 ->
  Inv (mkGraph (names g) (nodes g)
         (dict_set (O, O) (mkArc (nname (nth 0 (nodes g) dummy_node)) (nname (nth 0 (nodes g) dummy_node)) 0 0) (arcs g))).
Proof.
  intros [H1 H2 H3 H4 H5] Hn0.
  assert (En0 : nth 0 (nodes g) dummy_node = n0) by (eapply nth_error_nth; eauto).
  constructor; simpl; auto.
  - apply dict_set_NoDup; auto.
  - intros k a Hin. apply dict_set_In in Hin. destruct Hin as [Hin|Hin].
    + inversion Hin; subst k a; clear Hin. exists n0, n0; simpl. rewrite En0.
      repeat split; auto. rewrite Z.add_0_r. apply H3. eapply nth_error_In; eauto.
    + destruct (H5 k a Hin) as (no & nd & A & B & C & D & F). exists no, nd; auto.
Qed.

(* the three stages of seq_set_depot, made explicit *)
Lemma seq_set_depot_stages s g nm g' :
  seq_set_depot s g nm = Ok g' ->
  exists d0 g1 g2,
    index_of nm (names g) = Some d0 /\ set_depot g nm = Ok g1 /\
    (if s && negb (Nat.eqb d0 0) then readd_arcs s (mkGraph (names g1) (nodes g1) []) (arcs g1) else Ok g1) = Ok g2 /\
    g' = mkGraph (names g2) (nodes g2)
           (dict_set (O, O) (mkArc (nname (nth 0 (nodes g2) dummy_node)) (nname (nth 0 (nodes g2) dummy_node)) 0 0) (arcs g2)).
Proof.
  unfold seq_set_depot. destruct (index_of nm (names g)) as [d0|] eqn:Ed; [|discriminate].
  destruct (set_depot g nm) as [g1|e] eqn:E; [|discriminate].
  destruct (if s && negb (Nat.eqb d0 0) then _ else _) as [g2|e] eqn:E2; [|discriminate].
  intros H; inversion H; subst. exists d0, g1, g2. auto.
Qed.

Lemma seq_set_depot_inv s g nm g' : Inv g -> seq_set_depot s g nm = Ok g' -> Inv g'.
Proof.
  intros HI H. destruct (seq_set_depot_stages _ _ _ _ H) as (d0 & g1 & g2 & Ed & E1 & E2 & ->).
  pose proof (set_depot_inv _ _ _ HI E1) as HI1.
  destruct (set_depot_has_depot _ _ _ HI E1) as [n0 Hn0].
  assert (HI2 : Inv g2 /\ nodes g2 = nodes g1).
  { destruct (s && negb (Nat.eqb d0 0))%bool.
    - split; [eapply readd_arcs_inv; [apply Inv_clear_arcs; exact HI1 | exact E2]|].
      apply readd_arcs_frame in E2. tauto.
    - inversion E2; subst; auto. }
  destruct HI2 as [HI2 En]. eapply self_arc_inv; eauto. rewrite En. exact Hn0.
Qed.

(* under the invariant the class-level set_depot raises exactly when the name is unknown *)
Lemma seq_set_depot_error_iff s g nm :
  Inv g -> ((exists e, seq_set_depot s g nm = Err e) <-> ~ In nm (names g)).
Proof.
  intros HI. unfold seq_set_depot. destruct (index_of nm (names g)) as [d0|] eqn:Ed.
  - split; [|intros Hn; apply index_of_Some, nth_error_In in Ed; tauto].
    intros [e H]. exfalso.
    destruct (set_depot g nm) as [g1|e1] eqn:E1.
    + pose proof (set_depot_inv _ _ _ HI E1) as HI1.
      destruct (s && negb (Nat.eqb d0 0))%bool; [|discriminate].
      destruct (readd_arcs_ok s (mkGraph (names g1) (nodes g1) []) (arcs g1)) as [g2 E2].
      { intros [k a] Hin. simpl. eapply arc_names_in; eauto. }
      rewrite E2 in H. discriminate.
    + unfold set_depot in E1. rewrite Ed in E1. destruct d0; discriminate.
  - split; [|eauto]. intros _ H. apply index_of_In in H. destruct H; congruence.
Qed.

Lemma step_inv c g o : Inv g -> Inv (fst (step c g o)).
Proof.
  intros HI. destruct o as [nm dem lo hi|o d tm cost|nm]; simpl.
  - destruct (add_node g nm dem lo hi) eqn:E; simpl; auto. eapply add_node_inv; eauto.
  - destruct (add_arc_gen _ g o d tm cost) as [[g' b]|e] eqn:E; simpl; auto.
    eapply add_arc_gen_inv; eauto.
  - destruct c.
    + destruct (set_depot g nm) eqn:E; simpl; auto. eapply set_depot_inv; eauto.
    + destruct (seq_set_depot strict g nm) eqn:E; simpl; auto. eapply seq_set_depot_inv; eauto.
Qed.

Theorem run_inv c ops g : Inv g -> Inv (run c ops g).
Proof.
  unfold run. revert g; induction ops as [|o ops IH]; simpl; intros g HI; auto.
  apply IH. apply step_inv; auto.
Qed.

(* ---------- depot first ---------- *)
Lemma set_depot_first g nm g' :
  set_depot g nm = Ok g' -> hd_error (names g') = Some nm.
Proof.
  unfold set_depot. destruct (index_of nm (names g)) as [d|] eqn:Ed; [|discriminate].
  pose proof (index_of_Some _ _ _ Ed) as Hn.
  destruct d as [|d]; intros H; inversion H as [Eg]; clear H; simpl.
  - rewrite <- Eg. destruct (names g); simpl in *; congruence.
  - f_equal. eapply nth_error_nth; eauto.
Qed.

Lemma seq_set_depot_first s g nm g' :
  seq_set_depot s g nm = Ok g' -> hd_error (names g') = Some nm.
Proof.
  intros H. destruct (seq_set_depot_stages _ _ _ _ H) as (d0 & g1 & g2 & Ed & E1 & E2 & ->). simpl.
  assert (En : names g2 = names g1).
  { destruct (s && negb (Nat.eqb d0 0))%bool; [|inversion E2; auto].
    apply readd_arcs_frame in E2. tauto. }
  rewrite En. eapply set_depot_first; eauto.
Qed.

(* node and arc additions never displace the first node *)
Lemma step_keeps_first c g o x :
  (forall nm, o <> OpSetDepot nm) ->
  hd_error (names g) = Some x -> hd_error (names (fst (step c g o))) = Some x.
Proof.
  intros Hns Hx. destruct o as [nm dem lo hi|o d tm cost|nm]; simpl.
  - unfold add_node. destruct (memb nm (names g)); simpl; auto.
    destruct (window_ok lo hi); simpl; auto.
    destruct (names g); simpl in *; congruence.
  - unfold add_arc_gen.
    destruct (index_of o (names g)); simpl; auto.
    destruct (index_of d (names g)); simpl; auto.
    match goal with |- context [if ?c then Ok _ else Ok _] => destruct c end; simpl; auto.
  - exfalso. eapply Hns; eauto.
Qed.

(* ---------- add_arc: result <-> stored <-> timing rule ---------- *)
Lemma add_arc_result g o d tm cost g' b :
  add_arc g o d tm cost = Ok (g', b) ->
  exists i j,
    index_of o (names g) = Some i /\ index_of d (names g) = Some j /\
    let no := nth i (nodes g) dummy_node in
    let nd := nth j (nodes g) dummy_node in
    (b = true <-> ext_le (Fin (nlo no + tm)) (nhi nd)) /\
    (b = true -> g' = mkGraph (names g) (nodes g)
                        (dict_set (i, j) (mkArc (nname no) (nname nd) tm cost) (arcs g))) /\
    (b = false -> g' = g).
Proof.
  unfold add_arc, add_arc_gen.
  destruct (index_of o (names g)) as [i|]; [|discriminate].
  destruct (index_of d (names g)) as [j|]; [|discriminate].
  cbn [andb]. unfold base_filter.
  destruct (ext_leb _ _) eqn:E; intros H; inversion H; subst; clear H;
    exists i, j; cbv zeta; (split; [reflexivity|]); (split; [reflexivity|]); split.
  - split; [intros _; apply ext_leb_le; exact E | reflexivity].
  - split; [reflexivity | discriminate].
  - split; [discriminate|]. intros H. apply ext_leb_le in H. congruence.
  - split; [discriminate | reflexivity].
Qed.

Lemma dict_get_set_same {V} k (v : V) d : dict_get k (dict_set k v d) = Some v.
Proof.
  induction d as [|[k' v'] d IH]; simpl.
  - rewrite natpair_eqb_refl. reflexivity.
  - destruct (natpair_eqb k k') eqn:E; simpl; rewrite E; auto.
Qed.

(* ---------- errors leave the graph unchanged ---------- *)
Lemma step_error_frame c g o e :
  snd (step c g o) = Err e -> fst (step c g o) = g /\ e = ValueError.
Proof.
  destruct o as [nm dem lo hi|o d tm cost|nm]; simpl.
  - unfold add_node. destruct (memb nm (names g)); simpl; [intros H; inversion H; auto|].
    destruct (window_ok lo hi); simpl; [discriminate|intros H; inversion H; auto].
  - unfold add_arc_gen.
    destruct (index_of o (names g)); simpl; [|intros H; inversion H; auto].
    destruct (index_of d (names g)); simpl; [|intros H; inversion H; auto].
    match goal with |- context [if ?c then Ok _ else Ok _] => destruct c end; simpl; discriminate.
  - destruct c as [|s].
    + unfold set_depot; destruct (index_of nm (names g)) as [[|d]|]; simpl; try discriminate;
        intros H; inversion H; auto.
    + destruct (seq_set_depot s g nm) as [g'|e'] eqn:E; simpl; [discriminate|].
      intros H; inversion H; subst e'; clear H. split; [reflexivity|].
      unfold seq_set_depot in E. destruct (index_of nm (names g)) as [d0|] eqn:Ed; [|inversion E; auto].
      destruct (set_depot g nm) as [g1|e1] eqn:E1.
      * destruct (s && negb (Nat.eqb d0 0))%bool; [|discriminate].
        destruct (readd_arcs s _ (arcs g1)) as [g2|e2] eqn:E2; [discriminate|].
        inversion E; subst. eapply readd_arcs_err; eauto.
      * unfold set_depot in E1. rewrite Ed in E1. destruct d0; discriminate.
Qed.

Lemma add_node_error_iff g nm dem lo hi :
  (exists e, add_node g nm dem lo hi = Err e) <-> (In nm (names g) \/ ~ ext_le (Fin lo) hi).
Proof.
  unfold add_node. destruct (memb nm (names g)) eqn:Em.
  - split; [intros _; left; apply memb_In; auto | eauto].
  - destruct (window_ok lo hi) eqn:Ew; simpl.
    + split; [intros [e H]; discriminate|].
      intros [H|H]; [apply memb_In in H; congruence|].
      exfalso. apply H. apply ext_leb_le. exact Ew.
    + split; [|eauto]. intros _. right. intros H. apply ext_leb_le in H.
      unfold window_ok in Ew. congruence.
Qed.

Lemma add_arc_error_iff s g o d tm cost :
  (exists e, add_arc_gen s g o d tm cost = Err e) <-> (~ In o (names g) \/ ~ In d (names g)).
Proof.
  unfold add_arc_gen.
  destruct (index_of o (names g)) as [i|] eqn:Ei.
  - destruct (index_of d (names g)) as [j|] eqn:Ej.
    + split.
      * intros [e H]. match type of H with context [if ?c then Ok _ else Ok _] => destruct c end; discriminate.
      * apply index_of_Some, nth_error_In in Ei, Ej. tauto.
    + split; [|eauto]. intros _. right. intros H. apply index_of_In in H. destruct H; congruence.
  - split; [|eauto]. intros _. left. intros H. apply index_of_In in H. destruct H; congruence.
Qed.

Lemma set_depot_error_iff g nm :
  (exists e, set_depot g nm = Err e) <-> ~ In nm (names g).
Proof.
  unfold set_depot. destruct (index_of nm (names g)) as [d|] eqn:Ed.
  - split.
    + intros [e H]. destruct d; discriminate.
    + apply index_of_Some, nth_error_In in Ed. tauto.
  - split; [|eauto]. intros _ H. apply index_of_In in H. destruct H; congruence.
Qed.
