(* PyQubo_facts.v -- lemmas about the combinators of PyQubo.v, and the relations in which the
   genprops files (coq/genprops/C01_gen.v, C13_gen.v) state "generated definition = hand model".

   A generated function works on shaped values (pmat / pvec); the hand model Qubo.v on bare entry
   functions with the size given separately.  `mat_is P sh M` says: P has shape sh and the entries of M,
   for ALL indices (no funext is used anywhere); `res_rel` lifts a relation to results (same exception
   class on both sides, or related values). *)
From Coq Require Import Ring Arith ZArith Lia List Bool String.
From VQ Require Import Base LinAlg Qubo Qubo_facts PyQubo.

Definition mat_is {K} (P : pmat K) (sh : nat * nat) (M : nat -> nat -> K) : Prop :=
  mshape P = sh /\ forall i j, ent P i j = M i j.
Definition vec_is {K} (p : pvec K) (n : nat) (v : nat -> K) : Prop :=
  vlen p = n /\ forall i, vent p i = v i.
Definition res_rel {A B} (R : A -> B -> Prop) (x : result A) (y : result B) : Prop :=
  match x, y with
  | Ok a, Ok b => R a b
  | Err e, Err f => e = f
  | _, _ => False
  end.

(* the nat tests of tril / triu are the integer inequalities  j - i <= k  /  j - i >= k *)
Lemma tril_keep_spec (k : Z) (i j : nat) : tril_keep k i j = (Z.of_nat j - Z.of_nat i <=? k)%Z.
Proof.
  destruct k as [|p|p]; unfold tril_keep.
  - destruct (Nat.leb_spec j i); symmetry; [apply Z.leb_le | apply Z.leb_gt]; lia.
  - destruct (Nat.leb_spec j (Pos.to_nat p + i)); symmetry; [apply Z.leb_le | apply Z.leb_gt]; lia.
  - destruct (Nat.leb_spec (Pos.to_nat p + j) i); symmetry; [apply Z.leb_le | apply Z.leb_gt]; lia.
Qed.

Lemma triu_keep_spec (k : Z) (i j : nat) : triu_keep k i j = (k <=? Z.of_nat j - Z.of_nat i)%Z.
Proof.
  destruct k as [|p|p]; unfold triu_keep.
  - destruct (Nat.leb_spec i j); symmetry; [apply Z.leb_le | apply Z.leb_gt]; lia.
  - destruct (Nat.leb_spec (Pos.to_nat p + i) j); symmetry; [apply Z.leb_le | apply Z.leb_gt]; lia.
  - destruct (Nat.leb_spec i (Pos.to_nat p + j)); symmetry; [apply Z.leb_le | apply Z.leb_gt]; lia.
Qed.

(* sp.tril(M, k=-1) keeps exactly the entries strictly below the diagonal (by computation) *)
Lemma tril_m1_test (i j : nat) : tril_keep (-1) i j = Nat.ltb j i.
Proof. reflexivity. Qed.

Section PyQuboFacts.
  Variables (K : Type) (k0 k1 : K) (kadd kmul ksub : K -> K -> K) (kopp : K -> K).
  Hypothesis Kring : ring_theory k0 k1 kadd kmul ksub kopp (@eq K).
  Add Ring KrPy : Kring.

  Notation "0" := k0.
  Notation "1" := k1.
  Infix "+" := kadd.
  Infix "*" := kmul.
  Infix "-" := ksub.
  Notation "- x" := (kopp x).
  Notation sum_n := (LinAlg.sum_n k0 kadd).
  Notation qf := (LinAlg.qf K k0 kadd kmul).
  Notation dot := (LinAlg.dot K k0 kadd kmul).
  Notation eQ := (Qubo.eQ K k0 kadd kmul).
  Notation eI := (Qubo.eI K k0 kadd kmul).

  Let sum_ext := LinAlg.sum_ext K k0 kadd.
  Let sum_scal_r := LinAlg.sum_scal_r K k0 k1 kadd kmul ksub kopp Kring.

  (* np.dot(M.dot(x), x) is the quadratic form *)
  Lemma dot_mv_qf n (M : nat -> nat -> K) (x : nat -> K) :
    sum_n n (fun i => sum_n n (fun j => M i j * x j) * x i) = qf n M x.
  Proof.
    unfold LinAlg.qf. apply sum_ext; intros i _.
    rewrite <- sum_scal_r. apply sum_ext; intros j _. ring.
  Qed.

  Lemma qf_ext_all n (M N : nat -> nat -> K) (x y : nat -> K) :
    (forall i j, M i j = N i j) -> (forall i, (i < n)%nat -> x i = y i) -> qf n M x = qf n N y.
  Proof.
    intros HM Hx. unfold LinAlg.qf. apply sum_ext; intros i Hi. apply sum_ext; intros j Hj.
    rewrite HM, (Hx i Hi), (Hx j Hj). reflexivity.
  Qed.

  Lemma dot_ext_all n (u v x y : nat -> K) :
    (forall i, u i = v i) -> (forall i, (i < n)%nat -> x i = y i) -> dot n u x = dot n v y.
  Proof.
    intros Hu Hx. unfold LinAlg.dot. apply sum_ext; intros i Hi. rewrite Hu, (Hx i Hi). reflexivity.
  Qed.

  (* the evaluators only look at the entries, and only at the first n entries of the vector *)
  Lemma eQ_ext n (M N : nat -> nat -> K) c (x y : nat -> K) :
    (forall i j, M i j = N i j) -> (forall i, (i < n)%nat -> x i = y i) -> eQ n M c x = eQ n N c y.
  Proof. intros HM Hx. unfold Qubo.eQ. rewrite (qf_ext_all n M N x y HM Hx). reflexivity. Qed.

  Lemma eI_ext n (J J' : nat -> nat -> K) (h h' : nat -> K) c c' (s s' : nat -> K) :
    (forall i j, J i j = J' i j) -> (forall i, h i = h' i) -> c = c' ->
    (forall i, (i < n)%nat -> s i = s' i) -> eI n J h c s = eI n J' h' c' s'.
  Proof.
    intros HJ Hh Hc Hs. unfold Qubo.eI.
    rewrite (qf_ext_all n J J' s s' HJ Hs), (dot_ext_all n h h' s s' Hh Hs), Hc. reflexivity.
  Qed.

  (* a truncation that fixes 1 and -1 does nothing to the spin image of a binary vector *)
  Lemma trunc_x2s (trunc : K -> K) n (x : nat -> K) i :
    trunc 1 = 1 -> trunc (- (1)) = - (1) ->
    LinAlg.binary K k0 k1 n x -> (i < n)%nat ->
    trunc (Qubo.x2s K k1 kadd kmul ksub x i) = Qubo.x2s K k1 kadd kmul ksub x i.
  Proof.
    intros H1 Hm1 Hb Hi.
    destruct (Hb i Hi) as [E|E].
    - rewrite (x2s_zero K k0 k1 kadd kmul ksub kopp Kring x i E). exact H1.
    - rewrite (x2s_one K k0 k1 kadd kmul ksub kopp Kring x i E). exact Hm1.
  Qed.

  Lemma mul_zero_r (a : K) : a * 0 = 0.
  Proof. ring. Qed.

  (* QUBO_to_Ising of the hand model depends on the entries of Q only *)
  Variable quarter : K.
  Notation q2i_J := (Qubo.q2i_J K k0 kmul quarter).
  Notation q2i_h := (Qubo.q2i_h K k0 kadd kmul kopp quarter).
  Notation q2i_c := (Qubo.q2i_c K k0 kadd kmul quarter).

  Lemma q2i_J_ext (Q Q' : nat -> nat -> K) i j : (forall a b, Q a b = Q' a b) -> q2i_J Q i j = q2i_J Q' i j.
  Proof. intros H. unfold Qubo.q2i_J. rewrite H. reflexivity. Qed.

  Lemma q2i_h_ext n (Q Q' : nat -> nat -> K) i : (forall a b, Q a b = Q' a b) -> q2i_h n Q i = q2i_h n Q' i.
  Proof.
    intros H. unfold Qubo.q2i_h, Qubo.colsum, Qubo.rowsum.
    rewrite (sum_ext n (fun k => Q k i) (fun k => Q' k i)) by (intros; apply H).
    rewrite (sum_ext n (fun k => Q i k) (fun k => Q' i k)) by (intros; apply H).
    reflexivity.
  Qed.

  Lemma q2i_c_ext n (Q Q' : nat -> nat -> K) c : (forall a b, Q a b = Q' a b) -> q2i_c n Q c = q2i_c n Q' c.
  Proof.
    intros H. unfold Qubo.q2i_c, LinAlg.total, LinAlg.trace.
    rewrite (sum_ext n (fun i => sum_n n (fun j => Q i j)) (fun i => sum_n n (fun j => Q' i j)))
      by (intros; apply sum_ext; intros; apply H).
    rewrite (sum_ext n (fun i => Q i i) (fun i => Q' i i)) by (intros; apply H).
    reflexivity.
  Qed.
End PyQuboFacts.

(* unfolding of the whole vocabulary (never fails), then the projections of the shaped values *)
#[export] Hint Unfold rows cols as_sparse to_format eliminate_zeros ravel flatten asarray np_copy atleast_1d
  diagonal mtranspose setdiag knum mscal mscal_r vscal vscal_r madd msub mneg vadd vsub vneg
  svadd svsub vsadd vssub msum0 msum1 msum vsum diags tril triu mdot vdot vastype_int : pyq.

Ltac py_simpl :=
  autounfold with pyq;
  cbn [mshape ent vlen vent fst snd o0 o1 oadd omul osub oopp ohalf oquarter otrunc knum_pos rbind
       f_n_vars f_const_qubo f_Q f_J f_h f_const_ising].

(* closing an "entry of the generated value = entry of the hand model" goal: by computation when the two
   sides are the same term (the normal case), else by case analysis on the visible tests and ring algebra
   (tolerates commuted / re-associated arithmetic in the source) *)
#[export] Hint Unfold Qubo.x2s Qubo.s2x Qubo.q2i_J Qubo.q2i_h Qubo.q2i_c Qubo.i2q_Q Qubo.i2q_c Qubo.colsum Qubo.rowsum
  Qubo.upper Qubo.strict_lower Qubo.sym Qubo.two Qubo.four LinAlg.total LinAlg.trace tril_keep triu_keep : qubo_hand.

Ltac py_close :=
  first [ reflexivity
        | intros; cbn [ent vent fst snd]; rewrite ?tril_m1_test; autounfold with qubo_hand;
          repeat match goal with |- context [if ?b then _ else _] => destruct b end;
          first [ reflexivity | ring ] ].
