(* Heur_arc.v -- executable model of ArcBasedRoutingProblem.make_feasible with its helpers
   get_arrival_time and check_and_add_exit_arc (routing_problem/formulations/arc_based_rp.py), on top of
   Arc.v.  Definitions only.  [C09]

   The `while building_route` loop has explicit fuel: every iteration either removes a node from the
   unvisited list or ends the route, so len(unvisited) + 1 iterations always suffice
   (Heur_arc_facts.route_loop_fuel: the fuel given here never runs out). *)
From VQ Require Import Base Vrptw Arc.
From VQ Require Path Heur.

(* first grid point >= a  (np.argmax(self.time_points >= arrival) on the sorted grid) *)
Definition first_ge (tps : list Z) (a : Z) : option Z := find (fun t => a <=? t) tps.

(* get_arrival_time(departure_time, (i, j)) -> (arrival, in_time_points) *)
Definition arrival_time (I : inst) (dep : Z) (i j : nat) : Z * bool :=
  let arrival := Z.max (win_lo (ig I) j) (dep + att (arc_at (ig I) i j)) in
  match first_ge (tp I) arrival with
  | Some t => (t, true)
  | None => (arrival, false)
  end.

(* the `for n in unvisited_indices` scan of one iteration: best_node / best_arrival (None / inf at first);
   `arrival_actual <= min(t_w[1], best_arrival)`: a later node with an equal arrival replaces an earlier one *)
Definition pick_best (I : inst) (cur : nat) (time : Z) (unv : list nat) : option (nat * Z) :=
  fold_left (fun best n =>
               if dict_mem (cur, n) (arcs (ig I)) then
                 match arrival_time I time cur n with
                 | (_, false) => best
                 | (a, true) =>
                     if ext_leb (Fin a) (win_hi (ig I) n) &&
                        match best with None => true | Some (_, b) => a <=? b end
                     then Some (n, a) else best
                 end
               else best) unv None.

(* while building_route *)
Fixpoint route_loop (fuel : nat) (I : inst) (cur : nat) (time : Z) (unv : list nat) (used : list var)
  : result (list nat * list var) :=
  match fuel with
  | O => Err OtherError
  | S f =>
      match pick_best I cur time unv with
      | Some (n, a) =>
          match Heur.remove_first n unv with
          | None => Err ValueError
          | Some unv' => route_loop f I n a unv' (used ++ [(cur, time, n, a)])
          end
      | None =>
          if Nat.eqb cur 0 then Ok (unv, used)
          else if negb (dict_mem (cur, O) (arcs (ig I))) then Err AssertionError
          else match arrival_time I time cur O with
               | (a, true) => Ok (unv, used ++ [(cur, time, O, a)])
               | (_, false) => Err AssertionError
               end
      end
  end.

(* for _ in range(max_vehicles): current_time = self.time_points[0] (IndexError on an empty grid) *)
Fixpoint arc_vehicles (k : nat) (I : inst) (unv : list nat) (used : list var)
  : result (list nat * list var) :=
  match k with
  | O => Ok (unv, used)
  | S k' =>
      match tp I with
      | [] => Err IndexError
      | t0 :: _ =>
          match route_loop (S (length unv)) I O t0 unv used with
          | Err e => Err e
          | Ok (unv', used') => arc_vehicles k' I unv' used'
          end
      end
  end.

(* `added = self.add_arc(a, b, 0, cost); assert added` *)
Definition add_arc_assert (g : graph) (o d : nat) (cost : Z) : result graph :=
  match add_arc g o d 0 cost with
  | Err e => Err e
  | Ok (_, false) => Err AssertionError
  | Ok (g', true) => Ok g'
  end.

(* for n in unvisited_indices: dummy entry arc, exit arc if missing, the two moves *)
Fixpoint arc_dummies (high : Z) (g : graph) (grid : list Z) (us : list nat) (used : list var)
  : result (graph * list var) :=
  match us with
  | [] => Ok (g, used)
  | n :: us' =>
      match nth_error (names g) O, nth_error (names g) n with
      | Some dn, Some nn =>
          if dict_mem (O, n) (arcs g) then Err AssertionError
          else
            match add_arc_assert g dn nn high with
            | Err e => Err e
            | Ok g1 =>
                match tp (mkInst g1 grid) with
                | [] => Err IndexError
                | t0 :: _ =>
                    match arrival_time (mkInst g1 grid) t0 O n with
                    | (_, false) => Err AssertionError
                    | (a1, true) =>
                        match (if dict_mem (n, O) (arcs g1) then Ok g1 else add_arc_assert g1 nn dn high) with
                        | Err e => Err e
                        | Ok g2 =>
                            match arrival_time (mkInst g2 grid) a1 n O with
                            | (_, false) => Err AssertionError
                            | (a2, true) =>
                                arc_dummies high g2 grid us' (used ++ [(O, t0, n, a1); (n, a1, O, a2)])
                            end
                        end
                    end
                end
            end
      | _, _ => Err IndexError
      end
  end.

(* feasible_solution[get_var_index(i, s, j, t)] = 1, ValueError when the tuple is not a variable *)
Fixpoint mark_vars (I : inst) (used : list var) (x : list Z) : result (list Z) :=
  match used with
  | [] => Ok x
  | a :: rest =>
      match get_var_index I a with
      | None => Err ValueError
      | Some k => mark_vars I rest (Path.set_nth k 1 x)
      end
  end.

Definition mf_arc (I : inst) (high : Z) : result (inst * list Z) :=
  match Heur.remove_first 0 (seq 0 (length (nodes (ig I)))) with
  | None => Err ValueError
  | Some unv =>
      match arc_vehicles (Heur.max_vehicles (ig I)) I unv [] with
      | Err e => Err e
      | Ok (unv1, used1) =>
          match arc_dummies high (ig I) (igrid I) unv1 used1 with
          | Err e => Err e
          | Ok (g2, used2) =>
              let I2 := mkInst g2 (igrid I) in
              match mark_vars I2 used2 (repeat 0 (num_variables I2)) with
              | Err e => Err e
              | Ok x => Ok (I2, x)
              end
          end
      end
  end.

Fixpoint mf_arc_iter (I : inst) (highs : list Z) : list (result (inst * list Z)) :=
  match highs with
  | [] => []
  | h :: hs =>
      match mf_arc I h with
      | Err e => [Err e]
      | Ok (I', x) => Ok (I', x) :: mf_arc_iter I' hs
      end
  end.

(* ---------- correspondence ---------- *)
Definition aobs9 := result (list Z * list ((nat * nat) * (Z * Z))).
Definition observe_a9 (r : result (inst * list Z)) : aobs9 :=
  match r with
  | Err e => Err e
  | Ok (J, x) => Ok (x, map (fun kv => (fst kv, (att (snd kv), acost (snd kv)))) (arcs (ig J)))
  end.
Definition aobs9_eqb (a b : aobs9) : bool :=
  result_eqb (fun u v =>
    list_eqb Z.eqb (fst u) (fst v) &&
    list_eqb (pair_eqb natpair_eqb (pair_eqb Z.eqb Z.eqb)) (snd u) (snd v)) a b.
Fixpoint zip_a9 (k : nat) (ms is_ : list aobs9) : list nat :=
  match ms, is_ with
  | [], [] => []
  | m :: ms', i :: is' => if aobs9_eqb m i then zip_a9 (S k) ms' is' else [S k]
  | _, _ => [9%nat]
  end.

(* graph history (base class), grid as given, the high costs, the observations *)
Definition acase9 := (list gop * list Z * list Z * list aobs9)%type.
Definition check_acase9 (c : acase9) : list nat :=
  match c with
  | (ops, grid, highs, impl) =>
      zip_a9 O (map observe_a9 (mf_arc_iter (mkInst (run Base ops empty_graph) grid) highs)) impl
  end.
