(* Cache_facts.v -- proofs about the cached-object model of Cache.v  [C14] *)
From VQ Require Import Base Cache.
Local Open Scope nat_scope.

(* ---------- basics ---------- *)
Lemma cid_eqb_eq a b : cid_eqb a b = true <-> a = b.
Proof. destruct a, b; simpl; split; intros H; try reflexivity; try discriminate. Qed.

Lemma cid_eqb_refl a : cid_eqb a a = true.
Proof. destruct a; reflexivity. Qed.

Lemma cid_eqb_neq a b : a <> b -> cid_eqb a b = false.
Proof. intros H. destruct (cid_eqb a b) eqn:E; auto. apply cid_eqb_eq in E. contradiction. Qed.

Lemma upd_same {A} (f : cid -> A) i v : upd f i v i = v.
Proof. unfold upd. rewrite cid_eqb_refl. reflexivity. Qed.

Lemma upd_other {A} (f : cid -> A) i v j : j <> i -> upd f i v j = f j.
Proof. intros H. unfold upd. rewrite cid_eqb_neq; auto. Qed.

Lemma cid_dec (a b : cid) : a = b \/ a <> b.
Proof. destruct a, b; auto; right; discriminate. Qed.

Lemma opt_eqb_some (x : option nat) v : option_eqb Nat.eqb x (Some v) = true <-> x = Some v.
Proof.
  destruct x as [y|]; simpl.
  - rewrite Nat.eqb_eq. split; [intros ->; auto | intros H; inversion H; auto].
  - split; discriminate.
Qed.

Lemma freshb_fresh st i : freshb st i = true <-> fresh st i.
Proof. unfold freshb, fresh. rewrite andb_true_iff, !opt_eqb_some. tauto. Qed.

Lemma Inv_init : Inv init.
Proof. intros i H. discriminate. Qed.

Lemma run_app st a b : run st (a ++ b) = run (run st a) b.
Proof. unfold run. apply fold_left_app. Qed.

Lemma run_cons st a tr : run st (a :: tr) = run (step st a) tr.
Proof. reflexivity. Qed.

Lemma cleanb_clean ws : cleanb ws = true <-> clean ws.
Proof.
  unfold cleanb, clean, all_cids. simpl. rewrite !andb_true_iff, !negb_true_iff. split.
  - intros (H1 & H2 & H3 & H4 & _) i. destruct i; auto.
  - intros H. repeat split; auto.
Qed.

Lemma GInv_of_Inv st : Inv st -> GInv (ws_of st) st.
Proof. intros H. split; simpl; auto. Qed.

Lemma Inv_of_GInv ws st : GInv ws st -> clean ws -> Inv st.
Proof. intros [Hf Hg] Hc i Hi. apply Hg; [rewrite <- Hf; auto | apply Hc]. Qed.

(* ---------- one step of the discipline is sound ---------- *)
Lemma fresh_frame st st' j :
  version st' = version st -> dver st' j = dver st j -> vver st' j = vver st j ->
  fresh st j -> fresh st' j.
Proof. unfold fresh. intros -> -> ->. auto. Qed.

(* state after the dependency was built: Vars is fresh, the rest is untouched *)
Lemma build_deps_spec ws st i :
  GInv ws st -> wdirty ws Vars = false -> i <> Vars ->
  let st1 := build_deps st i in
  version st1 = version st /\ dver st1 Vars = Some (version st) /\ vver st1 Vars = Some (version st) /\
  flag st1 Vars = true /\
  (forall j, j <> Vars -> flag st1 j = flag st j /\ dver st1 j = dver st j /\ vver st1 j = vver st j).
Proof.
  intros [Hf Hg] Hd Hi.
  assert (E : build_deps st i = if flag st Vars then st else set_flag (recompute st Vars) Vars true)
    by (destruct i; auto; contradiction).
  cbv zeta. rewrite E. clear E. destruct (flag st Vars) eqn:F.
  - destruct (Hg Vars) as [A B]; [rewrite <- Hf; auto | auto |]. repeat split; auto.
  - simpl. rewrite !upd_same. repeat split; auto; rewrite upd_other; auto.
Qed.

Lemma wstep_sound ws st a ws' :
  GInv ws st -> wstep ws a = Some ws' ->
  GInv ws' (step st a) /\ (forall i, a = Read i -> fresh st i).
Proof.
  intros G H. pose proof G as [Hf Hg]. destruct a as [|i b|i|i|i]; simpl in H.
  - (* Mutate *)
    inversion H; subst; clear H. split; [|discriminate]. split; simpl; auto.
    intros i Hi Hd. rewrite Hi, orb_true_r in Hd. discriminate.
  - (* SetFlag *)
    destruct b; [discriminate|]. inversion H; subst; clear H. split; [|discriminate].
    split; simpl.
    + intros j. unfold upd. rewrite Hf. reflexivity.
    + intros j. destruct (cid_dec j i) as [->|Hn].
      * rewrite upd_same. discriminate.
      * rewrite !upd_other by auto. intros A B. apply (fresh_frame st); auto.
  - (* Build *)
    split; [|discriminate].
    destruct (negb (wdirty ws i) && negb (wdirty ws Vars)) eqn:E; [|discriminate].
    apply andb_true_iff in E. destruct E as [E1 E2]. apply negb_true_iff in E1, E2.
    cbn [step]. unfold build. rewrite (Hf i). destruct (wflag ws i) eqn:Fi; inversion H; subst; clear H; auto.
    destruct (cid_dec i Vars) as [->|Hn].
    + (* i = Vars *)
      split; simpl.
      * intros j. unfold upd. destruct (cid_eqb j Vars); auto.
      * intros j. destruct (cid_dec j Vars) as [->|Hj].
        -- intros _ _. split; simpl; rewrite upd_same; auto.
        -- rewrite !upd_other by auto. intros A B. apply (fresh_frame st); simpl; auto.
           all: rewrite upd_other; auto.
    + destruct (build_deps_spec ws st i G E2 Hn) as (V1 & V2 & V3 & V4 & V5).
      split; simpl.
      * intros j. destruct (cid_dec j i) as [->|Hj].
        -- rewrite !upd_same. reflexivity.
        -- rewrite !(upd_other _ i) by auto. destruct (cid_dec j Vars) as [->|Hjv].
           ++ rewrite upd_same. auto.
           ++ rewrite upd_other by auto. destruct (V5 j Hjv) as [A _]. rewrite A. apply Hf.
      * intros j. destruct (cid_dec j i) as [->|Hj].
        -- intros _ _. split; simpl; rewrite upd_same.
           ++ rewrite V1. reflexivity.
           ++ destruct i; try contradiction; rewrite V2, V1; reflexivity.
        -- rewrite !(upd_other _ i) by auto. destruct (cid_dec j Vars) as [->|Hjv].
           ++ intros _ _. split; simpl; rewrite upd_other by auto; rewrite V1; auto.
           ++ rewrite upd_other by auto. intros A B. destruct (V5 j Hjv) as (_ & D1 & D2).
              destruct (Hg j A B) as [F1 F2].
              split; simpl; rewrite upd_other by auto; rewrite V1; congruence.
  - (* BuildAbort *)
    split; [|discriminate].
    destruct (cid_dec i Vars) as [->|Hn]; [discriminate|].
    assert (E : (if negb (wdirty ws i) && negb (wdirty ws Vars)
                 then Some (if wflag ws i then ws else mkW (upd (wflag ws) Vars true) (wdirty ws))
                 else None) = Some ws') by (destruct i; auto; contradiction).
    clear H.
    destruct (negb (wdirty ws i) && negb (wdirty ws Vars)) eqn:E0; [|discriminate].
    apply andb_true_iff in E0. destruct E0 as [E1 E2]. apply negb_true_iff in E1, E2.
    cbn [step]. unfold build_abort. rewrite (Hf i). destruct (wflag ws i) eqn:Fi; inversion E; subst; clear E; auto.
    destruct (build_deps_spec ws st i G E2 Hn) as (V1 & V2 & V3 & V4 & V5).
    split; simpl.
    + intros j. destruct (cid_dec j Vars) as [->|Hjv].
      * rewrite upd_same. auto.
      * rewrite upd_other by auto. destruct (V5 j Hjv) as [A _]. rewrite A. apply Hf.
    + intros j. destruct (cid_dec j Vars) as [->|Hjv].
      * intros _ _. split; simpl; rewrite upd_other by auto; rewrite V1; auto.
      * rewrite upd_other by auto. intros A B.
        destruct (cid_dec j i) as [->|Hj]; [congruence|].
        destruct (V5 j Hjv) as (_ & D1 & D2). destruct (Hg j A B) as [F1 F2].
        split; simpl; rewrite upd_other by auto; rewrite V1; congruence.
  - (* Read *)
    destruct (wflag ws i && negb (wdirty ws i)) eqn:E; [|discriminate].
    inversion H; subst; clear H. split; auto.
    intros j Hj. inversion Hj; subst. apply andb_true_iff in E. destruct E as [E1 E2].
    apply negb_true_iff in E2. auto.
Qed.

Lemma wf_run_sound tr : forall ws st ws',
  GInv ws st -> wf_run ws tr = Some ws' ->
  disciplined tr st = true /\ GInv ws' (run st tr).
Proof.
  induction tr as [|a tr IH]; intros ws st ws' G H; simpl in *.
  - inversion H; subst. auto.
  - destruct (wstep ws a) as [w1|] eqn:E; [|discriminate].
    destruct (wstep_sound ws st a w1 G E) as [G1 R].
    destruct (IH w1 (step st a) ws' G1 H) as [D G2]. split; auto.
    rewrite D, andb_true_r. destruct a; auto. apply freshb_fresh. apply R. reflexivity.
Qed.

Lemma wf_run_app a : forall ws b,
  wf_run ws (a ++ b) = match wf_run ws a with Some w => wf_run w b | None => None end.
Proof.
  induction a as [|x a IH]; intros ws b; simpl; auto.
  destruct (wstep ws x); auto.
Qed.

Lemma disciplined_app a : forall st b,
  disciplined (a ++ b) st = disciplined a st && disciplined b (run st a).
Proof.
  induction a as [|x a IH]; intros st b; simpl; auto.
  rewrite IH, andb_assoc. reflexivity.
Qed.

Lemma reads_app a : forall st b, reads (a ++ b) st = reads a st ++ reads b (run st a).
Proof.
  induction a as [|x a IH]; intros st b; simpl; auto.
  rewrite IH, app_assoc. reflexivity.
Qed.

(* ---------- the refinement statement ---------- *)
Theorem reads_fresh st tr ws' :
  Inv st -> wf_run (ws_of st) tr = Some ws' ->
  disciplined tr st = true /\ GInv ws' (run st tr) /\ (cleanb ws' = true -> Inv (run st tr)).
Proof.
  intros I H. destruct (wf_run_sound tr _ _ _ (GInv_of_Inv st I) H) as [D G].
  split; [exact D|]. split; [exact G|].
  intros C. apply (Inv_of_GInv ws'); auto. apply cleanb_clean; auto.
Qed.

(* ---------- preservation of the invariant ---------- *)
Lemma inv_via_wstep st a w :
  Inv st -> wstep (ws_of st) a = Some w -> clean w -> Inv (step st a).
Proof.
  intros I E C. destruct (wstep_sound _ _ _ _ (GInv_of_Inv st I) E) as [G _].
  apply (Inv_of_GInv w); auto.
Qed.

Theorem inv_step_query st a :
  Inv st ->
  (match a with Build _ | Read _ | SetFlag _ false => True | BuildAbort i => i <> Vars | _ => False end) ->
  Inv (step st a).
Proof.
  intros I Ha. destruct a as [|i b|i|i|i]; simpl in Ha; try contradiction.
  - destruct b; [contradiction|]. eapply inv_via_wstep; [auto | reflexivity |].
    intros j. simpl. unfold upd. destruct (cid_eqb j i); auto.
  - eapply inv_via_wstep; [auto | reflexivity |]. simpl. destruct (flag st i); intros j; reflexivity.
  - destruct i; try contradiction.
    all: eapply inv_via_wstep; [auto | reflexivity |]; simpl; destruct (flag st _); intros j; reflexivity.
  - exact I.
Qed.

(* ---------- data changes: where the flags must be reset ---------- *)
Definition is_reset (a : action) : bool :=
  match a with SetFlag _ false => true | _ => false end.
Definition is_mut_or_reset (a : action) : bool :=
  match a with Mutate | SetFlag _ false => true | _ => false end.

Lemma flag_mut_reset tr : forall st i,
  forallb is_mut_or_reset tr = true -> flag (run st tr) i = true ->
  flag st i = true /\ ~ In (SetFlag i false) tr.
Proof.
  induction tr as [|a tr IH]; intros st i H F; simpl in *; auto.
  apply andb_true_iff in H. destruct H as [Ha H].
  destruct (IH (step st a) i H F) as [F1 N]. clear IH.
  destruct a as [|j b|j|j|j]; simpl in Ha; try discriminate.
  - split; auto. intros [E|E]; [discriminate | auto].
  - destruct b; [discriminate|]. simpl in F1. destruct (cid_dec i j) as [->|Hn].
    + rewrite upd_same in F1. discriminate.
    + rewrite upd_other in F1 by auto. split; auto.
      intros [E|E]; [inversion E; congruence | auto].
Qed.

(* any interleaving of data changes and flag resets that ends with a reset of every set flag *)
Theorem inv_mutate_resets st tr1 tr2 :
  forallb is_mut_or_reset tr1 = true -> forallb is_reset tr2 = true ->
  (forall i, flag st i = true -> In (SetFlag i false) tr2) ->
  Inv (run st (tr1 ++ tr2)).
Proof.
  intros H1 H2 Hall i F. exfalso.
  assert (H : forallb is_mut_or_reset (tr1 ++ tr2) = true).
  { rewrite forallb_app, H1. simpl. rewrite forallb_forall in *. intros a Ha.
    specialize (H2 a Ha). destruct a as [|j b|j|j|j]; simpl in *; auto. }
  destruct (flag_mut_reset _ _ _ H F) as [F0 N]. apply N. apply in_or_app. right. auto.
Qed.

(* the real heuristics reset first and change the data afterwards *)
Theorem inv_mutate_unflagged st : (forall i, flag st i = false) -> Inv (step st Mutate).
Proof. intros H i F. simpl in F. rewrite H in F. discriminate. Qed.

(* ... and the reset is needed *)
Theorem mutate_breaks_inv st i : Inv st -> flag st i = true -> ~ Inv (step st Mutate).
Proof.
  intros I F J. destruct (I i F) as [A _]. destruct (J i F) as [B _]. simpl in B.
  rewrite A in B. inversion B. lia.
Qed.

(* ---------- versions ---------- *)
Lemma version_build st i : version (build st i) = version st.
Proof.
  unfold build, build_deps. destruct (flag st i); auto.
  destruct i; simpl; auto; destruct (flag st Vars); reflexivity.
Qed.

Lemma version_build_abort st i : version (build_abort st i) = version st.
Proof.
  unfold build_abort, build_deps. destruct (flag st i); auto.
  destruct i; simpl; auto; destruct (flag st Vars); reflexivity.
Qed.

Lemma version_step st a :
  version (step st a) = match a with Mutate => S (version st) | _ => version st end.
Proof. destruct a; simpl; auto using version_build, version_build_abort. Qed.

Lemma version_run tr : forall st, version (run st tr) = version st + count_mut tr.
Proof.
  induction tr as [|a tr IH]; intros st.
  - simpl. unfold count_mut. simpl. lia.
  - rewrite run_cons, IH, version_step. unfold count_mut. destruct a; simpl; lia.
Qed.

Lemma count_mut_app a b : count_mut (a ++ b) = count_mut a + count_mut b.
Proof. unfold count_mut. rewrite filter_app, app_length. reflexivity. Qed.

Lemma count_mut_cons_0 a tr : count_mut (a :: tr) = 0 -> a <> Mutate /\ count_mut tr = 0.
Proof. unfold count_mut. destruct a; simpl; intros H; split; auto; try discriminate. Qed.

(* in a disciplined trace without data change every Read returns the current version *)
Lemma reads_disciplined tr : forall st,
  disciplined tr st = true -> count_mut tr = 0 ->
  reads tr st = map (fun i => (i, (Some (version st), Some (version st)))) (read_ids tr).
Proof.
  induction tr as [|a tr IH]; intros st D M; simpl in *; auto.
  apply andb_true_iff in D. destruct D as [D1 D2].
  destruct (count_mut_cons_0 _ _ M) as [Na M'].
  rewrite (IH _ D2 M'). rewrite version_step.
  destruct a as [|j b|j|j|j]; try contradiction; simpl; auto.
  apply freshb_fresh in D1. destruct D1 as [A B]. rewrite A, B. reflexivity.
Qed.

(* ---------- query traces: flags only ---------- *)
Fixpoint qflags (f : cid -> bool) (tr : list action) : option (cid -> bool) :=
  match tr with
  | [] => Some f
  | a :: tr' =>
      match a with
      | Build i => qflags (if f i then f else upd (upd f Vars true) i true) tr'
      | BuildAbort i =>
          match i with
          | Vars => None
          | _ => qflags (if f i then f else upd f Vars true) tr'
          end
      | Read i => if f i then qflags f tr' else None
      | _ => None
      end
  end.

Lemma wf_run_query tr : forall ws f,
  clean ws -> qflags (wflag ws) tr = Some f -> wf_run ws tr = Some (mkW f (wdirty ws)).
Proof.
  induction tr as [|a tr IH]; intros ws f C H; simpl in *.
  - inversion H; subst. destruct ws; reflexivity.
  - destruct a as [|j b|j|j|j]; try discriminate; simpl.
    + rewrite (C j), (C Vars). simpl. destruct (wflag ws j) eqn:F.
      * apply IH; auto.
      * rewrite (IH (mkW (upd (upd (wflag ws) Vars true) j true) (wdirty ws)) f); auto.
    + destruct j; try discriminate.
      all: rewrite (C Vars), ?(C Con), ?(C Obj), ?(C Quad); simpl.
      all: match goal with |- context[wflag ?w ?c] => destruct (wflag w c) eqn:F end.
      all: try (apply IH; auto; fail).
      all: rewrite (IH (mkW (upd (wflag ws) Vars true) (wdirty ws)) f); auto.
    + destruct (wflag ws j) eqn:F; [|discriminate]. rewrite (C j). simpl. apply IH; auto.
Qed.

Lemma qflags_app a : forall f b,
  qflags f (a ++ b) = match qflags f a with Some f' => qflags f' b | None => None end.
Proof.
  induction a as [|x a IH]; intros f b; simpl; auto.
  destruct x as [|j c|j|j|j]; auto.
  - destruct j; auto.
  - destruct (f j); auto.
Qed.

Lemma qflags_lookups_on f n : f Vars = true -> qflags f (concat (repeat lookup n)) = Some f.
Proof. intros H. induction n; unfold lookup in *; simpl; auto. rewrite !H. auto. Qed.

Lemma qflags_lookups f n :
  exists f', qflags f (concat (repeat lookup n)) = Some f' /\ f' Quad = f Quad.
Proof.
  destruct n; simpl; [eauto|]. destruct (f Vars) eqn:E.
  - rewrite E, qflags_lookups_on by auto. eauto.
  - rewrite upd_same, qflags_lookups_on by apply upd_same. eauto.
Qed.

Ltac qcases f :=
  destruct (f Vars) eqn:EV, (f Con) eqn:EC, (f Obj) eqn:EO, (f Quad) eqn:EQ;
  repeat (unfold upd; simpl; rewrite ?EV, ?EC, ?EO, ?EQ);
  eexists; (split; [reflexivity | simpl; intros; try discriminate; unfold upd; simpl; rewrite ?EQ; auto]).

(* every query passes the flag discipline, whatever is built already (and an arc query never sets Quad) *)
Lemma qflags_op k q f :
  exists f', qflags f (qtrace k q) = Some f' /\ (kind_okb k f = true -> kind_okb k f' = true).
Proof.
  destruct k, q; try destruct feas;
    unfold qtrace, lookup, arc_con, arc_obj, seq_con, seq_obj, kind_okb;
    try (simpl; eauto; fail); try (qcases f; fail).
  - destruct (qflags_lookups f n) as (f' & E & Q). exists f'. rewrite Q. auto.
  - (* sequence get_routes *)
    destruct n as [|n]; [simpl; eauto|].
    cbn [qflags]. set (g := if f Vars then f else upd (upd f Vars true) Vars true).
    assert (G : g Vars = true) by (unfold g; destruct (f Vars) eqn:E; auto; apply upd_same).
    rewrite qflags_app. change [Build Vars; Read Vars] with lookup.
    rewrite (qflags_lookups_on g (S n) G). simpl. rewrite G. eauto.
Qed.

Lemma clean_cleanb ws : clean ws -> cleanb ws = true.
Proof. apply cleanb_clean. Qed.

Lemma hist_ok_queries k qs : forall ws,
  clean ws -> exists ws', hist_ok ws (map (qtrace k) qs) = Some ws' /\ clean ws'.
Proof.
  induction qs as [|q qs IH]; intros ws C; simpl.
  - eauto.
  - destruct (qflags_op k q (wflag ws)) as (f' & E & _).
    rewrite (wf_run_query _ ws f' C E).
    assert (C' : clean (mkW f' (wdirty ws))) by (intros i; apply C).
    rewrite (clean_cleanb _ C'). apply IH; auto.
Qed.

Theorem queries_ok k st qs :
  exists ws', hist_ok (ws_of st) (map (qtrace k) qs) = Some ws' /\ clean ws'.
Proof. apply hist_ok_queries. intros i; reflexivity. Qed.

(* ---------- histories ---------- *)
Lemma hist_ok_sound h : forall ws st ws',
  GInv ws st -> clean ws -> hist_ok ws h = Some ws' ->
  disciplined (concat h) st = true /\ Forall Inv (hist_states st h) /\
  GInv ws' (run st (concat h)) /\ clean ws'.
Proof.
  induction h as [|tr h IH]; intros ws st ws' G C H; simpl in *.
  - inversion H; subst. auto.
  - destruct (wf_run ws tr) as [w1|] eqn:E; [|discriminate].
    destruct (cleanb w1) eqn:Cb; [|discriminate]. apply cleanb_clean in Cb.
    destruct (wf_run_sound tr ws st w1 G E) as [D1 G1].
    destruct (IH w1 (run st tr) ws' G1 Cb H) as (D2 & F2 & G2 & C2).
    rewrite disciplined_app, D1, D2, run_app. split; [reflexivity|]. split; [|split; assumption].
    constructor; auto. apply (Inv_of_GInv w1); auto.
Qed.

Theorem history_fresh st h ws' :
  Inv st -> hist_ok (ws_of st) h = Some ws' ->
  disciplined (concat h) st = true /\ Forall Inv (hist_states st h) /\ Inv (run st (concat h)).
Proof.
  intros I H.
  destruct (hist_ok_sound h _ st ws' (GInv_of_Inv st I) (fun i => eq_refl) H) as (D & F & G & C).
  split; [exact D|]. split; [exact F|]. apply (Inv_of_GInv ws'); auto.
Qed.

Lemma hist_ok_app h1 : forall ws h2,
  hist_ok ws (h1 ++ h2) = match hist_ok ws h1 with Some w => hist_ok w h2 | None => None end.
Proof.
  induction h1 as [|tr h1 IH]; intros ws h2; simpl; auto.
  destruct (wf_run ws tr); auto. destruct (cleanb w); auto.
Qed.

(* what a query returns after a history depends only on how often the data changed *)
Theorem later_reads_independent st h1 h2 post w1 w2 :
  Inv st ->
  hist_ok (ws_of st) (h1 ++ [post]) = Some w1 -> hist_ok (ws_of st) (h2 ++ [post]) = Some w2 ->
  count_mut (concat h1) = count_mut (concat h2) -> count_mut post = 0 ->
  reads post (run st (concat h1)) = reads post (run st (concat h2)).
Proof.
  intros I H1 H2 M P.
  destruct (history_fresh st _ _ I H1) as (D1 & _ & _).
  destruct (history_fresh st _ _ I H2) as (D2 & _ & _).
  rewrite concat_app, disciplined_app in D1, D2. simpl in D1, D2. rewrite app_nil_r in D1, D2.
  apply andb_true_iff in D1, D2. destruct D1 as [_ D1]. destruct D2 as [_ D2].
  rewrite (reads_disciplined _ _ D1 P), (reads_disciplined _ _ D2 P), !version_run, M. reflexivity.
Qed.

Lemma count_mut_lookups n : count_mut (concat (repeat lookup n)) = 0.
Proof. induction n; simpl; auto. Qed.

Lemma count_mut_query k q : count_mut (qtrace k q) = 0.
Proof.
  destruct k, q; try destruct feas; try reflexivity.
  - apply count_mut_lookups.
  - simpl. destruct n; auto. change (count_mut (Build Vars :: (concat (repeat lookup (S n)) ++ [Read Vars])) = 0).
    unfold count_mut. simpl. rewrite filter_app, app_length. simpl.
    pose proof (count_mut_lookups n) as H. unfold count_mut in H. rewrite H. reflexivity.
Qed.

Lemma count_mut_queries k qs : count_mut (concat (map (qtrace k) qs)) = 0.
Proof.
  induction qs as [|q qs IH]; simpl; auto. rewrite count_mut_app, IH, count_mut_query. reflexivity.
Qed.

(* ---------- contents ---------- *)
Lemma fresh_content (D C : Type) (dat : nat -> D) (F : cid -> D -> D -> C) st i :
  fresh st i -> content_of D C dat F st i = Some (spec_of D C dat F st i).
Proof. intros [A B]. unfold content_of, spec_of. rewrite A, B. reflexivity. Qed.

(* ---------- path-based: no cache ---------- *)
Lemma path_queries qs : concat (map (qtrace KPath) qs) = [].
Proof. induction qs; simpl; auto. Qed.

(* ---------- the discipline depends on the flag values only ---------- *)
Definition weq (w1 w2 : wstate) : Prop :=
  forall i, wflag w1 i = wflag w2 i /\ wdirty w1 i = wdirty w2 i.

Ltac weq_fin E :=
  let j := fresh "j" in
  intros j; simpl; unfold upd;
  repeat match goal with |- context[cid_eqb ?a ?b] => destruct (cid_eqb a b) end;
  (split; auto; apply E).

Lemma wstep_ext w1 w2 a :
  weq w1 w2 ->
  match wstep w1 a, wstep w2 a with
  | Some x, Some y => weq x y
  | None, None => True
  | _, _ => False
  end.
Proof.
  intros E. destruct a as [|i b|i|i|i]; simpl.
  - intros i. simpl. destruct (E i) as [-> ->]. auto.
  - destruct b; auto. weq_fin E.
  - destruct (E i) as [A B], (E Vars) as [A' B']. rewrite A, B, B'.
    destruct (negb (wdirty w2 i) && negb (wdirty w2 Vars)); auto.
    destruct (wflag w2 i); auto. weq_fin E.
  - destruct (E Vars) as [A' B'].
    destruct i; auto.
    all: match goal with H : weq ?u _ |- context[wflag ?u ?c] =>
           let A := fresh "A" in let B := fresh "B" in
           destruct (H c) as [A B]; rewrite A, B, B' end.
    all: match goal with |- context[if ?c then _ else None] => destruct c; auto end.
    all: match goal with H : weq _ ?v |- context[wflag ?v ?c] => destruct (wflag v c); auto end.
    all: weq_fin E.
  - destruct (E i) as [A B]. rewrite A, B. destruct (wflag w2 i && negb (wdirty w2 i)); auto.
Qed.

Lemma wf_run_ext tr : forall w1 w2,
  weq w1 w2 ->
  match wf_run w1 tr, wf_run w2 tr with
  | Some x, Some y => weq x y
  | None, None => True
  | _, _ => False
  end.
Proof.
  induction tr as [|a tr IH]; intros w1 w2 E; simpl; auto.
  pose proof (wstep_ext w1 w2 a E) as H.
  destruct (wstep w1 a) as [x|], (wstep w2 a) as [y|]; try contradiction; auto.
  apply IH. exact H.
Qed.

Lemma clean_ext w1 w2 : weq w1 w2 -> clean w2 -> clean w1.
Proof. intros E C i. destruct (E i) as [_ ->]. apply C. Qed.

Lemma kind_okb_ext k f g : (forall i, f i = g i) -> kind_okb k f = kind_okb k g.
Proof. intros H. destruct k; simpl; auto; rewrite !H; reflexivity. Qed.

Lemma heur_okb_ok k tr : heur_okb k tr = true -> heur_ok k tr.
Proof.
  intros H ws C K. unfold heur_okb in H. rewrite forallb_forall in H.
  set (f := flag_table (wflag ws Vars) (wflag ws Con) (wflag ws Obj) (wflag ws Quad)).
  assert (Ef : forall i, wflag ws i = f i) by (intros i; destruct i; reflexivity).
  assert (I : In f (filter (kind_okb k) all_flag_tables)).
  { apply filter_In. split.
    - unfold f. destruct (wflag ws Vars), (wflag ws Con), (wflag ws Obj), (wflag ws Quad); simpl; auto 20.
    - rewrite <- (kind_okb_ext k _ _ Ef). exact K. }
  specialize (H f I).
  assert (E : weq ws (mkW f (fun _ => false))).
  { intros i. split; simpl; [apply Ef | apply C]. }
  pose proof (wf_run_ext tr _ _ E) as X.
  destruct (wf_run (mkW f (fun _ => false)) tr) as [w2|]; [|discriminate].
  destruct (wf_run ws tr) as [w1|]; [|contradiction].
  apply andb_true_iff in H. destruct H as [H1 H2].
  exists w1. split; auto. split.
  - apply (clean_ext w1 w2); auto. apply cleanb_clean; auto.
  - rewrite (kind_okb_ext k (wflag w1) (wflag w2)); auto. intros i. apply X.
Qed.

(* ---------- histories of queries and heuristic runs ---------- *)
Lemma hist_ok_calls k cs : forall ws,
  clean ws -> kind_okb k (wflag ws) = true -> (forall tr, In (CHeur tr) cs -> heur_ok k tr) ->
  exists ws', hist_ok ws (map (ctrace k) cs) = Some ws' /\ clean ws'.
Proof.
  induction cs as [|c cs IH]; intros ws C K Hh; simpl.
  - eauto.
  - destruct c as [q|tr]; simpl.
    + destruct (qflags_op k q (wflag ws)) as (f' & E & K').
      rewrite (wf_run_query _ ws f' C E).
      assert (C' : clean (mkW f' (wdirty ws))) by (intros i; apply C).
      rewrite (clean_cleanb _ C'). apply IH; auto. intros t Ht. apply Hh. right; auto.
    + destruct (Hh tr (or_introl eq_refl) ws C K) as (w1 & E & C1 & K1).
      rewrite E, (clean_cleanb _ C1). apply IH; auto. intros t Ht. apply Hh. right; auto.
Qed.

Theorem calls_fresh k st cs :
  Inv st -> kind_okb k (flag st) = true -> (forall tr, In (CHeur tr) cs -> heur_ok k tr) ->
  let h := map (ctrace k) cs in
  disciplined (concat h) st = true /\ Forall Inv (hist_states st h) /\ Inv (run st (concat h)).
Proof.
  intros I K Hh h.
  destruct (hist_ok_calls k cs (ws_of st) (fun i => eq_refl) K Hh) as (w & E & _).
  exact (history_fresh st h w I E).
Qed.

(* ---------- the contents handed out ---------- *)
Lemma read_contents_fresh (D C : Type) (dat : nat -> D) (F : cid -> D -> D -> C) tr : forall st,
  disciplined tr st = true ->
  Forall (fun p => fst p = Some (snd p)) (read_contents D C dat F tr st).
Proof.
  induction tr as [|a tr IH]; intros st H; simpl in *; [constructor|].
  apply andb_true_iff in H. destruct H as [H1 H2].
  apply Forall_app. split; [|apply IH; auto].
  destruct a; try constructor; [|constructor].
  simpl. apply fresh_content. apply freshb_fresh. auto.
Qed.
