(* PyGenerator_facts.v -- lemmas for genprops/C19_generator_gen.v: the Qc instance of the C19 theorems in the form
   "a field samples a closed form", lifting of scalar bounds to the sampled arrays, and the scalar bounds of the
   closed forms of get_generator over the default supports (proved in Q with nra after moving from Qc to Q). *)
From Coq Require Import List Arith Bool QArith Qcanon Lqa Lia String.
From VQ Require Import Base Sampler Sampler_facts PyGenerator.
Import ListNotations.

(* ---------- from Qc to Q ---------- *)
Lemma this_plus (x y : Qc) : (this (x + y)%Qc == this x + this y)%Q.
Proof. apply Qred_correct. Qed.
Lemma this_mult (x y : Qc) : (this (x * y)%Qc == this x * this y)%Q.
Proof. apply Qred_correct. Qed.
Lemma this_opp (x : Qc) : (this (- x)%Qc == - this x)%Q.
Proof. apply Qred_correct. Qed.
Lemma this_inv (x : Qc) : (this (/ x)%Qc == / this x)%Q.
Proof. apply Qred_correct. Qed.
Lemma this_qlit n d : (this (qlit n d) == n # d)%Q.
Proof. apply Qred_correct. Qed.

Ltac qc2q :=
  unfold in_supp, Qcle, Qclt, Qcdiv, Qcminus in *;
  repeat match goal with
         | H : context [this (_ + _)%Qc] |- _ => rewrite this_plus in H
         | H : context [this (_ * _)%Qc] |- _ => rewrite this_mult in H
         | H : context [this (- _)%Qc] |- _ => rewrite this_opp in H
         | H : context [this (/ _)%Qc] |- _ => rewrite this_inv in H
         | H : context [this (qlit _ _)] |- _ => rewrite this_qlit in H
         end;
  repeat first [rewrite this_plus | rewrite this_mult | rewrite this_opp | rewrite this_inv | rewrite this_qlit].

(* 1/30 <= 1/b <= 1/10 for b in [10, 30] *)
Lemma inv_range (b : Q) : (10 # 1 <= b)%Q -> (b <= 30 # 1)%Q -> ((1 # 30) <= / b)%Q /\ (/ b <= (1 # 10))%Q.
Proof.
  intros H1 H2. assert (Hb : (0 < b)%Q) by lra. split.
  - apply Qle_shift_inv_l; [exact Hb | lra].
  - apply Qle_shift_inv_r; [exact Hb | lra].
Qed.

(* ---------- scalar bounds of the closed forms over the default supports ---------- *)
Section Bounds.
  Local Open Scope Qc_scope.
  Variables tw tbw : Qc.
  Hypothesis Htw : in_supp (qlit 2 1) (qlit 4 1) tw.
  Hypothesis Htbw : in_supp (qlit 10 1) (qlit 30 1) tbw.

  Lemma rate_supply_range : in_supp (qlit 1 30) (qlit 1 10) (cf_rate_supply tbw).
  Proof.
    clear Htw. unfold cf_rate_supply. destruct Htbw as [B1 B2]. qc2q.
    destruct (inv_range (this tbw) B1 B2) as [I1 I2]. set (ib := (/ this tbw)%Q) in *. clearbody ib. split; lra.
  Qed.

  Lemma rate_demand_range : in_supp (qlit (-1) 10) (qlit (-1) 30) (cf_rate_demand tbw).
  Proof.
    clear Htw. unfold cf_rate_demand. destruct Htbw as [B1 B2]. qc2q.
    destruct (inv_range (this tbw) B1 B2) as [I1 I2]. set (ib := (/ this tbw)%Q) in *. clearbody ib. split; lra.
  Qed.

  Lemma cap_supply_range : in_supp (qlit 16 15) (qlit 7 5) (cf_cap_supply tw tbw).
  Proof.
    unfold cf_cap_supply. destruct Htbw as [B1 B2]. destruct Htw as [A1 A2]. qc2q.
    destruct (inv_range (this tbw) B1 B2) as [I1 I2]. set (ib := (/ this tbw)%Q) in *. clearbody ib.
    set (a := this tw) in *. clearbody a. split; nra.
  Qed.

  Lemma cap_demand_range : in_supp (qlit 16 15) (qlit 7 5) (cf_cap_demand tw tbw).
  Proof.
    unfold cf_cap_demand. destruct Htbw as [B1 B2]. destruct Htw as [A1 A2]. qc2q.
    destruct (inv_range (this tbw) B1 B2) as [I1 I2]. set (ib := (/ this tbw)%Q) in *. clearbody ib.
    set (a := this tw) in *. clearbody a. split; nra.
  Qed.

  Lemma init_demand_range : in_supp (qlit 17 30) (qlit 9 10) (cf_init_demand tw tbw).
  Proof.
    unfold cf_init_demand, cf_cap_demand. destruct Htbw as [B1 B2]. destruct Htw as [A1 A2]. qc2q.
    destruct (inv_range (this tbw) B1 B2) as [I1 I2]. set (ib := (/ this tbw)%Q) in *. clearbody ib.
    set (a := this tw) in *. clearbody a. change (/ (2 # 1))%Q with (1 # 2)%Q. split; nra.
  Qed.
End Bounds.

(* the supply and the demand capacity are the same function of the draws *)
Lemma cap_demand_eq_cap_supply (tw tbw : Qc) : cf_cap_demand tw tbw = cf_cap_supply tw tbw.
Proof. unfold cf_cap_demand, cf_cap_supply. apply Qc_is_canon. qc2q. ring. Qed.

(* with the SAME draws the initial demand inventory is the capacity minus half a cargo, whatever the draws *)
Lemma init_demand_same_draw (tw tbw : Qc) :
  (cf_init_demand tw tbw <= cf_cap_demand tw tbw /\ cf_cap_demand tw tbw - qlit 1 1 < cf_init_demand tw tbw)%Qc.
Proof.
  unfold cf_init_demand. set (c := cf_cap_demand tw tbw). clearbody c. qc2q.
  set (x := this c) in *. clearbody x. change (/ (2 # 1))%Q with (1 # 2)%Q. split; lra.
Qed.

(* with independent draws: init_demand tw' tbw' <= cap_demand tw tbw  iff  tw'/tbw' - tw/tbw <= 1/2 *)
Lemma init_demand_le_cap_iff (tw tbw tw' tbw' : Qc) :
  (cf_init_demand tw' tbw' <= cf_cap_demand tw tbw <-> tw' / tbw' - tw / tbw <= qlit 1 2)%Qc.
Proof.
  unfold cf_init_demand, cf_cap_demand. qc2q.
  set (a := this tw). set (b := (/ this tbw)%Q). set (a' := this tw'). set (b' := (/ this tbw')%Q).
  clearbody a b a' b'. change (/ (2 # 1))%Q with (1 # 2)%Q. split; intro H; nra.
Qed.

(* ---------- the Qc instance of C19_compile_total / C19_eval_pointwise ---------- *)
Lemma field_compiles (e : aexp Qc) : has_leaf e = true -> exists s, gcompile e = Ok s.
Proof. intros H. exact (compile_total_with Qc Qcplus Qcmult Qcminus Qcdiv Qcopp (hand_table Qcopp) e H). Qed.

Lemma field_sample d : leaf_shape d -> forall (e : aexp Qc) s m st, gcompile e = Ok s ->
  length (fst (grvs d m s st)) = m /\
  snd (grvs d m s st) = st ++ map (fun i : nat => (i, m)) (leaves e) /\
  forall j, (j < m)%nat ->
    nth j (fst (grvs d m s st)) q0 = gaeval (map (fun a => nth j a q0) (leaf_arrays d m (leaves e) st)) e 0.
Proof.
  intros Hd e s m st H.
  exact (compile_eval_explicit Qc q0 q1 Qcplus Qcmult Qcminus Qcdiv Qcopp Qcrt d Hd m e s st H).
Qed.

Lemma samples1_intro d (e : aexp Qc) i1 cf : leaf_shape d -> has_leaf e = true -> leaves e = [i1] ->
  (forall vals, gaeval vals e 0 = cf (nth 0 vals q0)) -> samples1 d e i1 cf.
Proof.
  intros Hd Hl Hls Hcf. destruct (field_compiles e Hl) as [s Hs].
  exists s. split; [exact Hs|]. intros m st r. destruct (field_sample d Hd e s m st Hs) as [L [G P]].
  subst r. rewrite Hls in *. split; [exact L|]. split; [exact G|]. intros j Hj. rewrite (P j Hj), Hcf. reflexivity.
Qed.

Lemma samples2_intro d (e : aexp Qc) i1 i2 cf : leaf_shape d -> has_leaf e = true -> leaves e = [i1; i2] -> i1 <> i2 ->
  (forall vals, gaeval vals e 0 = cf (nth 0 vals q0) (nth 1 vals q0)) -> samples2 d e i1 i2 cf.
Proof.
  intros Hd Hl Hls Hne Hcf. destruct (field_compiles e Hl) as [s Hs].
  exists s. split; [exact Hs|]. intros m st r. destruct (field_sample d Hd e s m st Hs) as [L [G P]].
  subst r. rewrite Hls in *. split; [exact L|]. split; [exact G|]. intros j Hj. rewrite (P j Hj), Hcf.
  cbn [leaf_arrays map nth]. rewrite occ_app. cbn [occ].
  replace (Nat.eqb i2 i1) with false by (symmetry; apply Nat.eqb_neq; auto).
  rewrite Nat.add_0_r. reflexivity.
Qed.

(* ---------- from entries to arrays ---------- *)
Lemma Forall_nth_intro (P : Qc -> Prop) l m : length l = m -> (forall j, (j < m)%nat -> P (nth j l q0)) -> Forall P l.
Proof.
  intros L H. apply Forall_forall. intros x Hx. destruct (In_nth l x q0 Hx) as [j [Hj E]].
  rewrite <- E. apply H. lia.
Qed.

Lemma draw_entry d i lo hi : leaf_shape d -> draws_in d i lo hi ->
  forall k m j, (j < m)%nat -> in_supp lo hi (nth j (d i k m) q0).
Proof. intros Hd H k m j Hj. apply (H k m). apply nth_In. rewrite Hd. exact Hj. Qed.

Lemma samples1_range d (e : aexp Qc) i1 cf lo1 hi1 lo hi :
  leaf_shape d -> samples1 d e i1 cf -> draws_in d i1 lo1 hi1 ->
  (forall a, in_supp lo1 hi1 a -> in_supp lo hi (cf a)) ->
  forall s m st, gcompile e = Ok s ->
    length (fst (grvs d m s st)) = m /\ Forall (in_supp lo hi) (fst (grvs d m s st)).
Proof.
  intros Hd [s' [Hs' S]] D1 B s m st Hs. rewrite Hs' in Hs. inversion Hs; subst s'. clear Hs.
  destruct (S m st) as [L [_ P]]. split; [exact L|]. apply (Forall_nth_intro _ _ m L).
  intros j Hj. rewrite (P j Hj). apply B. apply (draw_entry d i1 lo1 hi1 Hd D1). exact Hj.
Qed.

Lemma samples2_range d (e : aexp Qc) i1 i2 cf lo1 hi1 lo2 hi2 lo hi :
  leaf_shape d -> samples2 d e i1 i2 cf -> draws_in d i1 lo1 hi1 -> draws_in d i2 lo2 hi2 ->
  (forall a b, in_supp lo1 hi1 a -> in_supp lo2 hi2 b -> in_supp lo hi (cf a b)) ->
  forall s m st, gcompile e = Ok s ->
    length (fst (grvs d m s st)) = m /\ Forall (in_supp lo hi) (fst (grvs d m s st)).
Proof.
  intros Hd [s' [Hs' S]] D1 D2 B s m st Hs. rewrite Hs' in Hs. inversion Hs; subst s'. clear Hs.
  destruct (S m st) as [L [_ P]]. split; [exact L|]. apply (Forall_nth_intro _ _ m L).
  intros j Hj. rewrite (P j Hj).
  apply B; [apply (draw_entry d i1 lo1 hi1 Hd D1) | apply (draw_entry d i2 lo2 hi2 Hd D2)]; exact Hj.
Qed.

(* ---------- which oracle arrays a sampling reads ---------- *)
Lemma leaf_arrays_reads (d : nat -> nat -> nat -> list Qc) m ls st :
  leaf_arrays d m ls st = map (fun p : nat * nat => d (fst p) (snd p) m) (occ_reads m ls st).
Proof. revert st. induction ls as [|i ls IH]; intros st; cbn; [reflexivity|]. rewrite IH. reflexivity. Qed.

(* order facts on Qc used by the genprops file *)
Lemma Qcle_lt_trans' (x y z : Qc) : (x <= y -> y < z -> x < z)%Qc.
Proof. apply Qcle_lt_trans. Qed.
Lemma qlit_lt (a : Z) (b : positive) (c : Z) (d : positive) : (a * Zpos d < c * Zpos b)%Z -> (qlit a b < qlit c d)%Qc.
Proof. intros H. unfold Qclt. rewrite !this_qlit. unfold Qlt. cbn. exact H. Qed.
Lemma qlit_le (a : Z) (b : positive) (c : Z) (d : positive) : (a * Zpos d <= c * Zpos b)%Z -> (qlit a b <= qlit c d)%Qc.
Proof. intros H. unfold Qcle. rewrite !this_qlit. unfold Qle. cbn. exact H. Qed.
