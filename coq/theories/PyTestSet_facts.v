(* PyTestSet_facts.v -- evaluation tactic and small facts about the combinators of PyTestSet.v
   (package `testset`, C10 generator half). *)
From Coq Require Import ZArith List Bool String Ascii PeanoNat Lia.
From VQ Require Import Base LinAlg Penalty Penalty_facts Export PyMat TestFeas TestFeas_facts PyTestSet TestSetHand.
Import ListNotations.
Local Open Scope string_scope.
Open Scope Z_scope.

(* unfold the monad, the expression / statement combinators and the dispatch tables -- and nothing of
   the arithmetic underneath (Zmv, Zdot, coo_dense, print_int, split_on ... stay folded) *)
Ltac ts_red1 :=
  cbv [ext_call m_bind m_ret m_raise m_lift m_if m_setitem m_unpack2 m_unpack3 m_unpack4
       p_add p_sub p_mul p_neg p_eq p_ne p_lt p_le p_gt p_ge p_subscript p_attr p_not c_call m_str p_fstr
       c_in c_notin m_and m_or
       call_method call_global method_table global_table fun1 fun2 dict_get
       String.eqb Ascii.eqb Bool.eqb
       t_getattr t_dot np_dot dense_of rmap t_cmp_eq t_eq t_ne t_ord t_lt t_le t_gt t_ge t_add t_sub t_mul t_neg
       t_len t_sum t_int t_str t_item0 t_issparse t_subscript t_setitem
       tnum tint tnat tbool tnone tvec tmat m_for num_of
       py_dot py_add py_sub py_mul py_neg Zops rK r0 r1 radd rmul rsub ropp reqb rabs
       xorb negb andb orb].
Ltac ts_red1_in H :=
  cbv [ext_call m_bind m_ret m_raise m_lift m_if m_setitem m_unpack2 m_unpack3 m_unpack4
       p_add p_sub p_mul p_neg p_eq p_ne p_lt p_le p_gt p_ge p_subscript p_attr p_not c_call m_str p_fstr
       c_in c_notin m_and m_or
       call_method call_global method_table global_table fun1 fun2 dict_get
       String.eqb Ascii.eqb Bool.eqb
       t_getattr t_dot np_dot dense_of rmap t_cmp_eq t_eq t_ne t_ord t_lt t_le t_gt t_ge t_add t_sub t_mul t_neg
       t_len t_sum t_int t_str t_item0 t_issparse t_subscript t_setitem
       tnum tint tnat tbool tnone tvec tmat m_for num_of
       py_dot py_add py_sub py_mul py_neg Zops rK r0 r1 radd rmul rsub ropp reqb rabs
       xorb negb andb orb] in H.

(* m_list / m_kwlist / strs_of / m_for_list are unrolled on lists given by their constructors only *)
Ltac ts_red := repeat (progress (ts_red1; cbn [call_value t_truth fst snd m_list m_kwlist strs_of m_for_list map combine List.app])).
Ltac ts_red_in H := repeat (progress (ts_red1_in H; cbn [call_value t_truth fst snd m_list m_kwlist strs_of m_for_list map combine List.app] in H)).

(* the hand-written counterparts of TestSetHand.v, unfolded to the combinators *)
Ltac hand_red :=
  cbv [call meth print_line hand_write_spin hand_gen_cplex hand_gen_form hand_forms bname_s rudy_o rudy_f sol_name
       hand_print_summary].

(* ---------- congruence (no functional extensionality: everything pointwise in the log) ---------- *)
Lemma m_bind_cong {A B} (x x' : M A) (f f' : A -> M B) :
  (forall tr, x tr = x' tr) -> (forall a tr, f a tr = f' a tr) -> forall tr, m_bind x f tr = m_bind x' f' tr.
Proof.
  intros Hx Hf tr. unfold m_bind. rewrite Hx. destruct (x' tr) as [tr1 [a|e]]; [apply Hf | reflexivity].
Qed.
Lemma m_for_list_cong {S} (b1 b2 : S -> tv -> M (ctl * S)) :
  (forall s x tr, b1 s x tr = b2 s x tr) -> forall l s tr, m_for_list l b1 s tr = m_for_list l b2 s tr.
Proof.
  intros Hb l. induction l as [|x l IH]; intros s tr; [reflexivity|].
  cbn [m_for_list]. apply m_bind_cong; [intros; apply Hb|].
  intros [c s'] tr'. cbn [fst snd]. destruct c; [apply IH | reflexivity].
Qed.
Lemma m_for_cong {S} (it : tv) (b1 b2 : S -> tv -> M (ctl * S)) s :
  (forall s x tr, b1 s x tr = b2 s x tr) -> forall tr, m_for it b1 s tr = m_for it b2 s tr.
Proof.
  intros Hb tr. unfold m_for. apply m_bind_cong; [reflexivity|]. intros l tr2. apply m_for_list_cong, Hb.
Qed.

(* ---------- test_feasibility: A_eq dense, or sparse with the same dense meaning ---------- *)
Lemma vio_l_ext (Mx : mat Z) A b x :
  (forall i j, Mx i j = Zmat_of A i j) ->
  map (fun k => if mv Z 0 Z.add Z.mul (List.length x) Mx (Zvec_of x) k =? Zvec_of b k then false else true)
      (seq 0 (List.length b)) = vio_l A b x.
Proof.
  intros H. unfold vio_l. apply map_ext. intros k. unfold lin_violated, Zmv, mv, negb.
  rewrite (sumZn_ext _ _ (fun j => Zmat_of A k j * Zvec_of x j)); [reflexivity|].
  intros j _. rewrite H. reflexivity.
Qed.

(* ---------- name = ''.join([w[0] for w in form.split('_')]) ---------- *)
Lemma py_index_head {A} (c : A) l : py_index (c :: l) 0 = Ok c.
Proof. unfold py_index. cbn. reflexivity. Qed.

Lemma first_chars_list (elt : tv -> M tv) ws :
  (forall w tr, elt w tr = match t_subscript w (TInt 0) with Ok a => (tr, Ok a) | Err e => (tr, Err e) end) ->
  forall tr : tlog,
  m_list (map elt (map TStr ws)) tr =
  (tr, rmap (fun s => map (fun c => TStr (String c "")) (str_chars s)) (first_chars ws)).
Proof.
  intros He. induction ws as [|w ws IH]; intros tr; [reflexivity|].
  cbn [map m_list]. unfold m_bind at 1. rewrite He. destruct w as [|c w'].
  - reflexivity.
  - unfold t_subscript. cbn [str_chars]. rewrite py_index_head. cbn [rmap].
    unfold m_bind. rewrite IH. cbn [first_chars].
    destruct (first_chars ws); reflexivity.
Qed.

Lemma strs_of_chars s :
  strs_of (map (fun c => TStr (String c "")) (str_chars s)) = Ok (map (fun c => String c "") (str_chars s)).
Proof. induction s as [|c s IH]; [reflexivity|]. cbn. rewrite IH. reflexivity. Qed.
Lemma concat_chars s : String.concat "" (map (fun c => String c "") (str_chars s)) = s.
Proof.
  induction s as [|c s IH]; [reflexivity|]. cbn [str_chars map].
  destruct s as [|c2 s2]; [reflexivity|]. cbn [str_chars map String.concat] in *. rewrite IH. reflexivity.
Qed.

(* the three bindings the translator prints for the `name = ...` statement *)
Lemma name_is_initials {A} o form (k : tv -> M A) tr :
  m_bind (p_attr (TStr "") "join") (fun t1 =>
  m_bind (p_attr (TStr form) "split") (fun t2 =>
  m_bind (c_call o t2 [TStr "_"] []) (fun t3 =>
  m_bind (m_listcomp t3 (fun v_w => m_bind (p_subscript v_w (TInt 0)) (fun t4 => m_ret t4))) (fun t5 =>
  m_bind (c_call o t1 [t5] []) k)))) tr
  = m_bind (m_lift (initials form)) (fun name => k (TStr name)) tr.
Proof.
  unfold m_listcomp. ts_red. unfold t_split, t_iter.
  erewrite first_chars_list by (intros; reflexivity).
  unfold initials. destruct (first_chars (split_on "_" form)) as [s|e]; [|reflexivity].
  cbn [rmap]. unfold t_join. rewrite strs_of_chars. cbn [rmap]. rewrite concat_chars. reflexivity.
Qed.

(* ---------- print_summary ---------- *)
Lemma print_int_of_nat k : print_int (Z.of_nat k) = print_len k.
Proof.
  unfold print_int, print_len. destruct (Z.ltb_spec (Z.of_nat k) 0); [lia|].
  rewrite <- nat_N_Z, N2Z.id. reflexivity.
Qed.

(* ---------- stepping ---------- *)
Lemma m_bind_pure {A B} (x : M A) (f : A -> M B) a tr : x tr = (tr, Ok a) -> m_bind x f tr = f a tr.
Proof. intros H. unfold m_bind. rewrite H. reflexivity. Qed.
Lemma m_unpack2_tuple {A} a b (k : tv -> tv -> M A) tr : m_unpack2 (TTuple [a; b]) k tr = k a b tr.
Proof. reflexivity. Qed.

(* ---------- one step of gen in a world that answers ---------- *)
Lemma print_int_of_N n : print_int (Z.of_N n) = print_N n.
Proof. unfold print_int. destruct (Z.ltb_spec (Z.of_N n) 0); [lia|]. rewrite N2Z.id. reflexivity. Qed.

Lemma m_str_ok o v s : t_str v = Ok s -> m_str o v = m_ret s.
Proof. intros H. unfold m_str. rewrite H. reflexivity. Qed.

Theorem hand_gen_form_trace : forall o g prefix t_h s_th form name getter d,
  t_str t_h = Ok s_th -> t_truth g = Ok false -> initials form = Ok name ->
  step_world o getter d ->
  forall tr, hand_gen_form o g prefix t_h form getter tr
             = ((tr ++ step_events prefix s_th form name d)%list, Ok (CNext, tt)).
Proof.
  intros o g prefix t_h s_th form name getter d Hth Hg Hn (W1 & W2 & W3 & W4 & W5 & W6 & W7 & W8 & W9 & W10 & W11) tr.
  unfold hand_gen_form. rewrite Hn, Hg, (m_str_ok o t_h s_th Hth). rewrite (m_bind_pure _ _ _ tr eq_refl).
  unfold m_bind at 1. rewrite W1.
  hand_red. ts_red. rewrite W2. ts_red. unfold t_unpack, t_iter. cbn [List.length Nat.eqb]. ts_red.
  rewrite W3. ts_red. rewrite W4. ts_red. rewrite W5. ts_red. rewrite W6. ts_red. rewrite W7. ts_red.
  unfold t_unpack, t_iter. cbn [List.length Nat.eqb]. ts_red.
  rewrite W8. ts_red. rewrite W9. ts_red. rewrite W10. ts_red.
  unfold t_unpack, t_iter. cbn [List.length Nat.eqb]. ts_red. rewrite W11. ts_red.
  rewrite !print_int_of_N, <- !app_assoc. reflexivity.
Qed.

(* ---------- the spins file written by gen's CPLEX block ---------- *)
Lemma map_nth_seq (l : list Z) : map (fun i => Zvec_of l i) (seq 0 (List.length l)) = l.
Proof.
  induction l as [|a l IH]; [reflexivity|].
  cbn [List.length seq map]. rewrite <- seq_shift, map_map. f_equal. exact IH.
Qed.
Lemma t_iter_tvec l : t_iter (tvec l) = Ok (map tnum l).
Proof.
  unfold t_iter, tvec. f_equal. rewrite <- (map_map (fun i => Zvec_of l i) tnum), map_nth_seq. reflexivity.
Qed.
Lemma append_nl a r : ((a ++ NL) ++ r)%string = (a ++ String nl r)%string.
Proof. induction a as [|c a IH]; [reflexivity|]. cbn. rewrite IH. reflexivity. Qed.
Lemma write_spins_concat l : String.concat "" (map (fun s => print_int s ++ NL) l) = write_spins l.
Proof.
  induction l as [|s l IH]; [reflexivity|]. cbn [map write_spins]. rewrite <- IH.
  destruct l as [|s2 l2].
  - cbn. unfold NL. clear. induction (print_int s) as [|c a IHa]; [reflexivity|]. cbn. f_equal.
  - cbn [map String.concat]. cbn [append]. apply append_nl.
Qed.

Theorem hand_spins_written : forall o file l,
  (forall tr s, o tr ".write" [file; TStr s] [] = Ok tnone) ->
  forall tr, m_for (tvec l) (fun _ => hand_write_spin o file) tt tr
             = ((tr ++ map (fun s => EvCall ".write" [file; TStr (print_int s ++ NL)] []) l)%list, Ok tt).
Proof.
  intros o file l H tr. unfold m_for. rewrite t_iter_tvec. rewrite (m_bind_pure _ _ _ tr eq_refl).
  revert tr. induction l as [|s l IH]; intros tr.
  - cbn. rewrite app_nil_r. reflexivity.
  - cbn [map m_for_list]. unfold m_bind at 1. unfold hand_write_spin at 1. hand_red. ts_red. rewrite H.
    cbn [fst snd]. rewrite IH. rewrite <- app_assoc. reflexivity.
Qed.

(* ---------- do_all ---------- *)
Lemma nth_error_last {A} (l : list A) d : l <> [] -> nth_error l (List.length l - 1) = Some (last l d).
Proof.
  induction l as [|a l IH]; [congruence|]. intros _. destruct l as [|b l]; [reflexivity|].
  cbn [List.length]. replace (S (S (List.length l)) - 1)%nat with (S (List.length (b :: l) - 1)) by (cbn; lia).
  cbn [nth_error]. rewrite IH by discriminate. reflexivity.
Qed.
Lemma py_index_last {A} (l : list A) d : l <> [] -> py_index l (-1) = Ok (last l d).
Proof.
  intros H. unfold py_index. destruct l as [|a l0] eqn:E; [congruence|]. rewrite <- E in *.
  assert (Hn : 1 <= Z.of_nat (List.length l)) by (rewrite E; cbn [List.length]; lia).
  change (-1 <? 0) with true. cbv iota.
  destruct (Z.ltb_spec (-1 + Z.of_nat (List.length l)) 0); [lia|].
  destruct (Z.leb_spec (Z.of_nat (List.length l)) (-1 + Z.of_nat (List.length l))); [lia|]. cbn [orb].
  replace (Z.to_nat (-1 + Z.of_nat (List.length l))) with (List.length l - 1)%nat by lia.
  rewrite (nth_error_last l d H). reflexivity.
Qed.
Lemma last_map {A B} (f : A -> B) l d : last (map f l) (f d) = f (last l d).
Proof. induction l as [|a l IH]; [reflexivity|]. destruct l; [reflexivity|]. cbn [map last] in *. exact IH. Qed.
Lemma split_on_nonempty c s : split_on c s <> [].
Proof.
  unfold split_on. generalize EmptyString. induction s as [|a s IH]; intros cur; cbn; [discriminate|].
  destruct (Ascii.eqb a c); [discriminate | apply IH].
Qed.
Lemma path_splitext_root f : fst (path_splitext f) = splitext_root f.
Proof. unfold path_splitext, splitext_root. destruct (split_on "." f) as [|a [|b l]]; reflexivity. Qed.

Lemma m_for_unfold {S A} it (body : S -> tv -> M (ctl * S)) s (k : S -> M A) tr :
  m_bind (m_for it body s) k tr = m_bind (m_lift (t_iter it)) (fun l => m_bind (m_for_list l body s) k) tr.
Proof. unfold m_for, m_bind, m_lift. destruct (t_iter it); reflexivity. Qed.


(* case analysis on the first stuck call: an oracle answer, a call of conv (a computation that is kept
   folded), the truth value of an answer *)
Ltac dstuck o conv :=
  match goal with
  | |- context [o ?t ?n ?a ?k] => destruct (o t n a k)
  | |- context [conv ?a ?b ?t] => destruct (conv a b t) as [? [?|?]]
  | |- context [t_truth ?a] => destruct (t_truth a) as [[|]|?]
  end.
