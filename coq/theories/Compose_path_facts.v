(* Compose_path_facts.v -- the path-based model (Path.v) fed to the get_qubo model (Penalty.v).
   [C02, C03, C04 for the path formulation; end-to-end corollary]

   Adapter `path_qdata`: what get_constraint_data() / get_objective_data() of PathBasedRoutingProblem
   hand to get_qubo, read off the model's own getters:
       (shape, A_eq, b_eq, Q_eq, r_eq) = Path.constraint_data st     (Err when it raises)
       (c, Q)                          = Path.objective_data st
   Q_eq and Q are sparse.csr_array((n,n)) with n = get_num_variables(): their reported shape is (n, n).
   On every state with the store invariant PInv (every history from the empty problem, C06) and at
   least one node this is `path_d st`. *)
From Coq Require Import ZArith List Bool Lia PeanoNat.
From VQ Require Import Base LinAlg Penalty Penalty_facts Compose_facts.
From VQ Require Import Vrptw Vrptw_facts Path Path_facts.
Import ListNotations.
Open Scope Z_scope.

Definition path_n (st : pstate) : nat := Path.num_variables st.          (* number of stored routes *)
Definition path_N (st : pstate) : nat := length (nodes (pg st)).         (* number of nodes *)
Definition path_m (st : pstate) : nat := (path_N st - 1)%nat.             (* number of customers *)

Definition path_qdata (st : pstate) : result (qdata Z) :=
  match Path.constraint_data st with
  | Err e => Err e
  | Ok (sh, A, b, R, r) =>
      let n := Path.num_variables st in
      Ok (mkQdata A sh b R (n, n) r
                  (fst (Path.objective_data st)) (snd (Path.objective_data st)) (n, n))
  end.

(* the dense matrix get_math_program_data returns (depot row removed) *)
Definition path_Al (st : pstate) : list (list Z) :=
  match Path.math_program_data st with Ok (_, A, _) => A | Err _ => [] end.

Definition path_d (st : pstate) : qdata Z :=
  mkQdata (path_Al st) (path_m st, path_n st) (repeat 1 (path_m st))
          (zero_matrix (path_n st)) (path_n st, path_n st) 0
          (pcosts st) (zero_matrix (path_n st)) (path_n st, path_n st).

Definition path_A (st : pstate) : mat Z := Zmat_of (path_Al st).
Definition path_b (st : pstate) : vec Z := Zvec_of (repeat 1 (path_m st)).
Definition path_R (st : pstate) : mat Z := Zmat_of (zero_matrix (path_n st)).
Definition path_c (st : pstate) : vec Z := Zvec_of (pcosts st).
Definition path_Qo (st : pstate) : mat Z := Zmat_of (zero_matrix (path_n st)).

(* the j-th stored route (list of node indices) *)
Definition route_at (st : pstate) (j : nat) : list nat := nth j (proutes st) [].

(* ---------- the adapter on reachable states ---------- *)
Lemma path_n_routes st : PInv st -> path_n st = length (proutes st).
Proof. intros HP. unfold path_n, Path.num_variables. apply (pi_costs _ HP). Qed.

Theorem path_adapter st :
  PInv st -> (0 < path_N st)%nat ->
  path_qdata st = Ok (path_d st) /\
  shapes_consistent Z (path_n st) (path_d st) /\ dr (path_d st) = 0 /\
  dense_ok (dA_shape (path_d st)) (dA (path_d st)) /\
  dense_ok (dR_shape (path_d st)) (dR (path_d st)) /\
  dense_ok (dQo_shape (path_d st)) (dQo (path_d st)).
Proof.
  intros HP Hn. unfold path_N in Hn.
  destruct (cover_spec st HP Hn) as (A & E1 & E2 & E3 & E4 & E5 & _).
  assert (Em : path_n st = length (proutes st)) by (apply path_n_routes; exact HP).
  assert (EA : path_Al st = A) by (unfold path_Al; rewrite E1; reflexivity).
  split.
  { unfold path_qdata, path_d. rewrite E2. unfold Path.objective_data. cbn [fst snd].
    rewrite EA. fold (path_n st). unfold path_m, path_N. rewrite <- Em. reflexivity. }
  split.
  { unfold shapes_consistent, path_d. cbn [dA_shape db dR_shape dQo_shape dc].
    rewrite repeat_length. repeat split; reflexivity. }
  split; [reflexivity|].
  unfold path_d. cbn [dA dA_shape dR dR_shape dQo dQo_shape].
  split.
  { unfold dense_ok. cbn [fst snd]. rewrite EA. split; [exact E4|]. rewrite Em. exact E5. }
  split; apply zero_rows_dense.
Qed.

Lemma path_R_zero st i j : path_R st i j = 0.
Proof. apply zero_rows_entry. Qed.
Lemma path_Qo_zero st i j : path_Qo st i j = 0.
Proof. apply zero_rows_entry. Qed.
Lemma path_R_nonneg st : R_nonneg (path_n st) (path_R st).
Proof. apply R_nonneg_zero_mat. apply path_R_zero. Qed.

Lemma path_A_cover st k j : path_A st k j = Path.cover st k j.
Proof.
  unfold path_A, Zmat_of, mat_of, path_Al, Path.cover.
  destruct (Path.math_program_data st) as [[[c A] b]|e]; [reflexivity|].
  destruct k; destruct j; reflexivity.
Qed.

Lemma path_b_one st k : (k < path_m st)%nat -> path_b st k = 1.
Proof.
  intros Hk. unfold path_b, Zvec_of, vec_of.
  rewrite (nth_indep _ 0 1) by (rewrite repeat_length; exact Hk). apply nth_repeat.
Qed.

(* entry (k, j) of A: stored route j visits customer k+1 *)
Lemma path_A_entry st k j :
  PInv st -> (0 < path_N st)%nat -> (k < path_m st)%nat -> (j < path_n st)%nat ->
  path_A st k j = if memb (S k) (route_at st j) then 1 else 0.
Proof.
  intros HP Hn Hk Hj. rewrite path_A_cover.
  destruct (cover_spec st HP Hn) as (A & _ & _ & _ & _ & _ & E6).
  rewrite (path_n_routes st HP) in Hj.
  destruct (nth_error (proutes st) j) as [r|] eqn:Er; [|apply nth_error_None in Er; lia].
  unfold route_at. rewrite (nth_error_nth _ _ [] _ Er). apply E6; [exact Hk | exact Er].
Qed.

(* ====================================================================== *)
(* exact cover in words                                                     *)
(* ====================================================================== *)
(* every customer c = 1 .. N-1 lies on exactly one selected stored route *)
Definition path_cover_once (st : pstate) (x : vec Z) : Prop :=
  forall c, (1 <= c < path_N st)%nat ->
    exists j, (j < path_n st)%nat /\ x j = 1 /\ In c (route_at st j) /\
              forall j', (j' < path_n st)%nat -> x j' = 1 -> In c (route_at st j') -> j' = j.

Lemma path_term_01 st x k j :
  PInv st -> (0 < path_N st)%nat -> Zbinary (path_n st) x -> (k < path_m st)%nat -> (j < path_n st)%nat ->
  (path_A st k j * x j = 0 \/ path_A st k j * x j = 1) /\
  (path_A st k j * x j = 1 <-> x j = 1 /\ In (S k) (route_at st j)).
Proof.
  intros HP Hn Hb Hk Hj. rewrite (path_A_entry st k j HP Hn Hk Hj). rewrite <- memb_In.
  destruct (memb (S k) (route_at st j)) eqn:Em; destruct (Hb j Hj) as [E|E]; rewrite E.
  - split; [left; lia|]. split; [intros H; lia | intros [H _]; lia].
  - split; [right; lia|]. split; [intros _; split; reflexivity | intros _; lia].
  - split; [left; lia|]. split; [intros H; lia | intros [H _]; lia].
  - split; [left; lia|]. split; [intros H; lia | intros [_ H]; discriminate].
Qed.

Theorem path_feasible_iff st x :
  PInv st -> (0 < path_N st)%nat -> Zbinary (path_n st) x ->
  (Zfeasible (path_m st) (path_n st) (path_A st) (path_b st) (path_R st) x <-> path_cover_once st x).
Proof.
  intros HP Hn Hb. rewrite (Zfeasible_zero_R _ _ _ _ _ _ (path_R_zero st)). split.
  - intros H c Hc. assert (Hk : (c - 1 < path_m st)%nat) by (unfold path_m; lia).
    specialize (H (c - 1)%nat Hk). rewrite (path_b_one st _ Hk) in H. unfold Zmv, mv in H.
    apply (sumZn_01_one (path_n st)) in H.
    2:{ intros j Hj. apply (path_term_01 st x (c - 1) j HP Hn Hb Hk Hj). }
    destruct H as [j [Hj [Fj Hu]]].
    replace (S (c - 1)) with c in * by lia.
    assert (T := proj2 (path_term_01 st x (c - 1) j HP Hn Hb Hk Hj)).
    replace (S (c - 1)) with c in T by lia.
    destruct (proj1 T Fj) as [Xj Ij].
    exists j. split; [exact Hj|]. split; [exact Xj|]. split; [exact Ij|].
    intros j' Hj' Xj' Ij'. apply Hu; [exact Hj'|].
    assert (T' := proj2 (path_term_01 st x (c - 1) j' HP Hn Hb Hk Hj')).
    replace (S (c - 1)) with c in T' by lia. apply T'. split; assumption.
  - intros H k Hk. rewrite (path_b_one st k Hk). unfold Zmv, mv.
    apply (sumZn_01_one (path_n st)).
    { intros j Hj. apply (path_term_01 st x k j HP Hn Hb Hk Hj). }
    destruct (H (S k)) as [j [Hj [Xj [Ij Hu]]]]; [unfold path_m in Hk; lia|].
    exists j. split; [exact Hj|]. split.
    { apply (path_term_01 st x k j HP Hn Hb Hk Hj). split; assumption. }
    intros j' Hj' Fj'. apply (path_term_01 st x k j' HP Hn Hb Hk Hj') in Fj'. destruct Fj' as [Xj' Ij'].
    apply Hu; assumption.
Qed.

(* ====================================================================== *)
(* C03                                                                      *)
(* ====================================================================== *)
Definition path_feas_value (st : pstate) (S : Z) (x : vec Z) : Z :=
  Zqubo_value (path_n st)
    (Zget_qubo (path_m st) true (Zchoose_rho true S None) (path_A st, path_b st, path_R st)
               (path_c st, path_Qo st)) x.

Theorem path_feas_nonneg st S x : Zbinary (path_n st) x -> 0 <= path_feas_value st S x.
Proof. intros Hb. exact (feas_value_nonneg _ _ _ _ _ _ _ S (path_R_nonneg st) x Hb). Qed.

Theorem path_feas_zero_iff st S x :
  PInv st -> (0 < path_N st)%nat -> Zbinary (path_n st) x ->
  (path_feas_value st S x = 0 <-> path_cover_once st x).
Proof.
  intros HP Hn Hb. rewrite <- (path_feasible_iff st x HP Hn Hb).
  exact (feas_value_zero_iff _ _ _ _ _ (path_c st) (path_Qo st) S (path_R_nonneg st) x Hb).
Qed.

(* ====================================================================== *)
(* C04                                                                      *)
(* ====================================================================== *)
Definition path_S (st : pstate) : Z := S_path (pcosts st).          (* get_sufficient_penalty(False) *)

Theorem path_coeff_sum st : coeff_sum (path_n st) (path_c st) (path_Qo st) = path_S st.
Proof.
  rewrite (coeff_sum_zero_mat _ _ _ (path_Qo_zero st)).
  unfold path_S, S_path, path_c, Zvec_of, vec_of, path_n, Path.num_variables.
  symmetry. apply (sumZ_nth Z.abs (pcosts st) 0).
Qed.

(* total cost of the selected routes *)
Definition path_cost (st : pstate) (x : vec Z) : Z := Zdot (path_n st) (path_c st) x.

Lemma path_objective_eq st x : Zobjective (path_n st) (path_c st) (path_Qo st) x = path_cost st x.
Proof. apply Zobjective_linear. apply path_Qo_zero. Qed.

Definition path_default_value (st : pstate) (x : vec Z) : Z :=
  Zqubo_value (path_n st)
    (Zget_qubo (path_m st) false (Zchoose_rho false (path_S st) None) (path_A st, path_b st, path_R st)
               (path_c st, path_Qo st)) x.

Definition path_qubo_min (st : pstate) (x : vec Z) : Prop :=
  Zbinary (path_n st) x /\ forall y, Zbinary (path_n st) y -> path_default_value st x <= path_default_value st y.

Definition path_opt (st : pstate) (x : vec Z) : Prop :=
  Zbinary (path_n st) x /\ path_cover_once st x /\
  forall y, Zbinary (path_n st) y -> path_cover_once st y -> path_cost st x <= path_cost st y.

Lemma path_opt_iff st x :
  PInv st -> (0 < path_N st)%nat ->
  (is_constrained_opt (path_n st) (path_m st) (path_A st) (path_b st) (path_R st) (path_c st) (path_Qo st) x
   <-> path_opt st x).
Proof.
  intros HP Hn. unfold is_constrained_opt, path_opt. split.
  - intros [Hb [Hf Hopt]]. split; [exact Hb|]. split; [apply (path_feasible_iff st x HP Hn Hb); exact Hf|].
    intros y Hy Hfy. rewrite <- !path_objective_eq. apply Hopt; [exact Hy|].
    apply (path_feasible_iff st y HP Hn Hy); exact Hfy.
  - intros [Hb [Hf Hopt]]. split; [exact Hb|]. split; [apply (path_feasible_iff st x HP Hn Hb); exact Hf|].
    intros y Hy Hfy. rewrite !path_objective_eq. apply Hopt; [exact Hy|].
    apply (path_feasible_iff st y HP Hn Hy); exact Hfy.
Qed.

Theorem path_exact st :
  PInv st -> (0 < path_N st)%nat ->
  (exists z, Zbinary (path_n st) z /\ path_cover_once st z) ->
  (forall x, path_qubo_min st x <-> path_opt st x) /\
  (forall x y, path_qubo_min st x -> path_opt st y -> path_default_value st x = path_cost st y).
Proof.
  intros HP Hn [z [Hbz Hfz]].
  assert (HS : coeff_sum (path_n st) (path_c st) (path_Qo st) <= path_S st)
    by (rewrite path_coeff_sum; apply Z.le_refl).
  destruct (default_exact (path_n st) (path_m st) (path_A st) (path_b st) (path_R st) (path_c st) (path_Qo st)
              (path_S st) (path_R_nonneg st) HS) as [H1 H2].
  { exists z. split; [exact Hbz | apply (path_feasible_iff st z HP Hn Hbz); exact Hfz]. }
  split.
  - intros x. rewrite <- (path_opt_iff st x HP Hn). exact (H1 x).
  - intros x y Hx Hy. rewrite <- path_objective_eq. apply H2; [exact Hx | apply (path_opt_iff st y HP Hn); exact Hy].
Qed.

(* ====================================================================== *)
(* get_routes on a vector: the selected stored routes, by node names        *)
(* ====================================================================== *)
Lemma traverse_map {A B} (f : A -> result B) (g : A -> B) l :
  (forall a, In a l -> f a = Ok (g a)) -> Path.traverse f l = Ok (map g l).
Proof.
  induction l as [|a l IH]; intros H; [reflexivity|].
  cbn [Path.traverse map]. rewrite (H a (or_introl eq_refl)), IH; [reflexivity|].
  intros b Hb. apply H. right. exact Hb.
Qed.

Lemma flatnonzero_from_In k v i :
  In i (flatnonzero_from k v) <-> (k <= i < k + length v)%nat /\ nth (i - k) v 0 <> 0.
Proof.
  revert k. induction v as [|a v IH]; intros k; cbn [flatnonzero_from length].
  - split; [intros [] | intros [H _]; lia].
  - destruct (Z.eqb_spec a 0) as [Ea|Ea].
    + rewrite IH. split.
      * intros [H1 H2]. split; [lia|]. replace (i - k)%nat with (S (i - S k)) by lia. exact H2.
      * intros [H1 H2]. destruct (Nat.eq_dec i k) as [->|Hne].
        { rewrite Nat.sub_diag in H2. cbn in H2. contradiction. }
        split; [lia|]. replace (i - k)%nat with (S (i - S k)) in H2 by lia. exact H2.
    + cbn [In]. rewrite IH. split.
      * intros [<-|[H1 H2]]; [split; [lia|]; rewrite Nat.sub_diag; exact Ea|].
        split; [lia|]. replace (i - k)%nat with (S (i - S k)) by lia. exact H2.
      * intros [H1 H2]. destruct (Nat.eq_dec i k) as [->|Hne]; [left; reflexivity|]. right.
        split; [lia|]. replace (i - k)%nat with (S (i - S k)) in H2 by lia. exact H2.
Qed.

Lemma flatnonzero_In v i : In i (flatnonzero v) <-> (i < length v)%nat /\ nth i v 0 <> 0.
Proof. unfold flatnonzero. rewrite flatnonzero_from_In, Nat.sub_0_r. split; intros [H1 H2]; (split; [lia | exact H2]). Qed.

(* the names of the nodes of stored route j *)
Definition route_names (st : pstate) (j : nat) : list nat :=
  map (fun k => nth k (names (pg st)) O) (route_at st j).

Theorem path_get_routes st xl :
  PInv st -> length xl = path_n st ->
  Path.get_routes st xl = Ok (map (route_names st) (flatnonzero xl)).
Proof.
  intros HP Hl. unfold Path.get_routes. apply traverse_map. intros i Hi.
  apply flatnonzero_In in Hi. destruct Hi as [Hi _]. rewrite Hl, (path_n_routes st HP) in Hi.
  destruct (nth_error (proutes st) i) as [r|] eqn:Er; [|apply nth_error_None in Er; lia].
  unfold route_names, route_at. rewrite (nth_error_nth _ _ [] _ Er).
  apply traverse_map. intros k Hk.
  destruct (pi_routes _ HP _ _ Er) as [Hin _]. unfold in_range in Hin. rewrite Forall_forall in Hin.
  specialize (Hin k Hk).
  assert (Hlen : length (names (pg st)) = length (nodes (pg st))).
  { rewrite (inv_aligned _ (pi_graph _ HP)). apply map_length. }
  destruct (nth_error (names (pg st)) k) as [nm|] eqn:En; [|apply nth_error_None in En; lia].
  rewrite (nth_error_nth _ _ O _ En). reflexivity.
Qed.

(* selected positions of a tabulated binary vector *)
Lemma flatnonzero_tab n x i : Zbinary n x -> (In i (flatnonzero (tab n x)) <-> (i < n)%nat /\ x i = 1).
Proof.
  intros Hb. rewrite flatnonzero_In, tab_length. split.
  - intros [Hi Hx]. split; [exact Hi|]. rewrite tab_nth in Hx by exact Hi. destruct (Hb i Hi); [contradiction | assumption].
  - intros [Hi Hx]. split; [exact Hi|]. rewrite tab_nth by exact Hi. rewrite Hx. discriminate.
Qed.

(* ====================================================================== *)
(* every stored route was a route of the definition when it was added (C06) *)
(* ====================================================================== *)
Theorem path_stored_valid cap init ops j :
  let st := prun ops (pempty cap init) in
  (j < path_n st)%nat ->
  exists stk, In stk (pstates ops (pempty cap init)) /\ valid_route stk (route_at st j) /\
              ~ In (route_at st j) (proutes stk) /\
              path_c st j = route_cost (pg stk) (route_at st j).
Proof.
  intros st Hj.
  destruct (prun_stored ops (pempty cap init) (PInv_empty cap init)) as [HP Hall]. fold st in HP, Hall.
  rewrite (path_n_routes st HP) in Hj.
  destruct (nth_error (proutes st) j) as [r|] eqn:Er; [|apply nth_error_None in Er; lia].
  unfold route_at. rewrite (nth_error_nth _ _ [] _ Er).
  destruct (Hall j r Er) as [[H0 _]|(stk & Hin & Hv & Hn & Hc)]; [destruct j; discriminate|].
  exists stk. split; [exact Hin|]. split; [exact Hv|]. split; [exact Hn|].
  unfold path_c, Zvec_of, vec_of. apply nth_error_nth. exact Hc.
Qed.

(* ====================================================================== *)
(* end to end                                                               *)
(* ====================================================================== *)
Theorem path_e2e st x :
  PInv st -> (0 < path_N st)%nat ->
  (exists z, Zbinary (path_n st) z /\ path_cover_once st z) ->
  path_qubo_min st x ->
  Zbinary (path_n st) x /\ path_cover_once st x /\
  path_cost st x = path_default_value st x /\
  (forall y, Zbinary (path_n st) y -> path_default_value st x <= path_default_value st y) /\
  Path.get_routes st (tab (path_n st) x) = Ok (map (route_names st) (flatnonzero (tab (path_n st) x))) /\
  (forall j, In j (flatnonzero (tab (path_n st) x)) <-> (j < path_n st)%nat /\ x j = 1).
Proof.
  intros HP Hn Hex Hmin.
  destruct (path_exact st HP Hn Hex) as [Hsets Hval].
  assert (Hopt : path_opt st x) by (apply Hsets; exact Hmin).
  destruct Hopt as [Hb [Hc Hbest]].
  split; [exact Hb|]. split; [exact Hc|].
  split; [symmetry; apply (Hval x x Hmin); split; [exact Hb | split; assumption]|].
  split; [exact (proj2 Hmin)|].
  split; [apply path_get_routes; [exact HP | apply tab_length]|].
  intros j. apply flatnonzero_tab. exact Hb.
Qed.

(* ====================================================================== *)
(* C02: the penalty and the builder's output in the vocabulary of Path.v    *)
(* ====================================================================== *)
Lemma path_penalty_eq st x :
  Zpenalty (path_m st) (path_n st) (path_A st) (path_b st) (path_R st) x =
  sumZn (path_m st) (fun k => (sumZn (path_n st) (fun j => Path.cover st k j * x j) - 1)
                             * (sumZn (path_n st) (fun j => Path.cover st k j * x j) - 1)).
Proof.
  unfold Zpenalty, penalty.
  pose proof (Zqf_zero_mat (path_n st) (path_R st) x (path_R_zero st)) as Hq. unfold Zqf in Hq. rewrite Hq.
  rewrite Z.add_0_r. unfold resid_sq, mv. apply sumZn_ext. intros k Hk.
  rewrite (path_b_one st k Hk).
  rewrite (sumZn_ext (path_n st) (fun j => path_A st k j * x j) (fun j => Path.cover st k j * x j))
    by (intros j _; rewrite path_A_cover; reflexivity).
  reflexivity.
Qed.

Theorem path_builder_output st feas pp S :
  PInv st -> (0 < path_N st)%nat ->
  Zget_qubo_impl feas pp S (path_d st) =
  let Qk := Zget_qubo (path_m st) feas (Zchoose_rho feas S pp) (path_A st, path_b st, path_R st) (path_c st, path_Qo st) in
  Ok (path_n st, mat_tab Z (path_n st) (path_n st) (fst Qk), snd Qk).
Proof.
  intros HP Hn. destruct (path_adapter st HP Hn) as (_ & Hs & Hr & _).
  unfold Zget_qubo_impl, get_qubo_impl.
  rewrite (checked_ok_explicit Z 0 1 Z.add Z.mul Z.opp Z.eqb Z.eqb_eq (path_n st) feas _ (path_d st) Hr Hs).
  unfold model_Qk, path_d. cbn [dA db dR dc dQo]. rewrite repeat_length. reflexivity.
Qed.

Theorem path_dims st feas rho :
  PInv st -> (0 < path_N st)%nat ->
  exists Q k,
    Zget_qubo_checked feas rho (path_d st) = Ok (path_n st, Q, k) /\
    length Q = path_n st /\ (forall row, In row Q -> length row = path_n st) /\
    forall x, Zbinary (path_n st) x ->
      Zqf (path_n st) (Zmat_of Q) x + k =
      (if feas then 0 else path_cost st x)
      + rho * sumZn (path_m st)
                (fun k => (sumZn (path_n st) (fun j => Path.cover st k j * x j) - 1)
                          * (sumZn (path_n st) (fun j => Path.cover st k j * x j) - 1)).
Proof.
  intros HP Hn. destruct (path_adapter st HP Hn) as (_ & Hs & Hr & _).
  destruct (checked_identity Z 0 1 Z.add Z.mul Z.sub Z.opp Zth Z.eqb Z.eqb_eq (path_n st) feas rho
              (path_d st) Hr Hs) as (Q & k & E & L1 & L2 & Hid).
  exists Q, k. split; [exact E|]. split; [exact L1|]. split; [exact L2|].
  intros x Hb. pose proof (Hid x Hb) as H0.
  unfold path_d in H0. cbn [dA db dR dc dQo] in H0. rewrite repeat_length in H0.
  assert (H : Zqf (path_n st) (Zmat_of Q) x + k =
              (if feas then 0 else Zobjective (path_n st) (path_c st) (path_Qo st) x)
              + rho * Zpenalty (path_m st) (path_n st) (path_A st) (path_b st) (path_R st) x) by exact H0.
  rewrite path_penalty_eq, path_objective_eq in H. exact H.
Qed.
