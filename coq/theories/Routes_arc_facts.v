(* Routes_arc_facts.v -- C08, arc-based corollary of C05: on a grid that holds every attainable
   service time the arc-based 0-1 program and the route-partition problem attain the same costs.
   Uses C05_sound / C05_project / C05_objective (x -> routes) and C05_complete (routes -> x) as stated
   in props/C05.v. *)
From Coq Require Import ZArith List Bool Lia Sorting.Permutation.
From VQ Require Import Base LinAlg Vrptw Vrptw_facts Path Path_facts Penalty Penalty_facts
                       Routes Routes_facts Routes_views.
From VQ Require Arc Arc_ref Arc_facts Arc_routes.
From VQP Require C05.
Import ListNotations.
Open Scope Z_scope.

(* ====================================================================== *)
(* 1. the reference route of C05 (Arc_ref.eta) and the route of C06 (Path.valid_route) *)
(* ====================================================================== *)
Lemma sumz_sumZ l : Arc.sumz l = sumZ l.
Proof. induction l as [|a l IH]; [reflexivity|]. cbn [Arc.sumz]. rewrite sumZ_cons, IH. reflexivity. Qed.

Lemma arc_route_cost g : forall seq cur, Arc_ref.route_cost g cur seq = path_cost g cur seq.
Proof.
  induction seq as [|nx seq IH]; intros cur; [reflexivity|].
  cbn [Arc_ref.route_cost path_cost]. rewrite IH. f_equal.
  unfold Arc.arc_at, cost_of. destruct (dict_get (cur, nx) (arcs g)); reflexivity.
Qed.

Lemma eta_path g : forall seq cur T vs,
  Arc_ref.eta g cur T seq = Some vs ->
  arcs_exist g cur seq /\
  Forall2 (fun t j => ext_le (Fin t) (nhi (Path.node_at g j))) (arrivals g T cur seq) seq.
Proof.
  induction seq as [|nx seq IH]; intros cur T vs; cbn [Arc_ref.eta].
  - intros _. split; [exact Logic.I|constructor].
  - destruct (dict_get (cur, nx) (arcs g)) as [a|] eqn:Ea; [|discriminate]. cbv zeta.
    destruct (ext_leb (Fin (Z.max (Arc.win_lo g nx) (T + att a))) (Arc.win_hi g nx)) eqn:Eh; [|discriminate].
    destruct (Arc_ref.eta g nx (Z.max (Arc.win_lo g nx) (T + att a)) seq) as [vs'|] eqn:Ee; [|discriminate].
    intros _. destruct (IH _ _ _ Ee) as [H1 H2].
    assert (Et : Z.max (T + tt_of g cur nx) (nlo (Path.node_at g nx)) = Z.max (Arc.win_lo g nx) (T + att a)).
    { unfold tt_of. rewrite Ea. rewrite Z.max_comm. reflexivity. }
    cbn [arcs_exist arrivals]. rewrite Et. split.
    + split; [unfold dict_mem; rewrite Ea; reflexivity|exact H1].
    + constructor; [|exact H2]. apply ext_leb_le in Eh. exact Eh.
Qed.

Lemma path_eta g : forall seq cur T,
  arcs_exist g cur seq ->
  Forall2 (fun t j => ext_le (Fin t) (nhi (Path.node_at g j))) (arrivals g T cur seq) seq ->
  Arc_ref.eta g cur T seq = Some (combine seq (arrivals g T cur seq)).
Proof.
  induction seq as [|nx seq IH]; intros cur T Ha Ht; [reflexivity|].
  cbn [arcs_exist arrivals] in *. destruct Ha as [Hm Ha]. inversion Ht as [|? ? ? ? Hhi Ht']; subst.
  unfold dict_mem in Hm. destruct (dict_get (cur, nx) (arcs g)) as [a|] eqn:Ea; [|discriminate].
  assert (Et : Z.max (T + tt_of g cur nx) (nlo (Path.node_at g nx)) = Z.max (Arc.win_lo g nx) (T + att a)).
  { unfold tt_of. rewrite Ea. rewrite Z.max_comm. reflexivity. }
  cbn [Arc_ref.eta]. rewrite Ea. cbv zeta. rewrite <- Et.
  apply ext_leb_le in Hhi. change (Arc.win_hi g nx) with (nhi (Path.node_at g nx)). rewrite Hhi.
  rewrite (IH _ _ Ha Ht'). reflexivity.
Qed.

Lemma last_wrap (l : list nat) d : last (O :: l ++ [O]) d = O.
Proof. change (O :: l ++ [O]) with ((O :: l) ++ [O]). apply last_last. Qed.

Lemma In_combine_snd {A B} (l : list A) (m : list B) q : In q (combine l m) -> In (snd q) m.
Proof. destruct q as [a b]. apply in_combine_r. Qed.

Lemma sumZ_concat {A} (f : A -> Z) (ls : list (list A)) :
  sumZ (map f (concat ls)) = sumZ (map (fun l => sumZ (map f l)) ls).
Proof.
  induction ls as [|l ls IH]; [reflexivity|]. cbn [concat map]. rewrite map_app, sumZ_app, sumZ_cons, IH. reflexivity.
Qed.

(* ====================================================================== *)
(* 2. partitions give feasible vectors (C05_complete)                      *)
(* ====================================================================== *)
Section ArcView.
  Variables (st : pstate) (I : Arc.inst).
  Hypothesis Hg : Arc.ig I = pg st.
  Hypothesis HI : Inv (pg st).
  Hypothesis Hgrid : NoDup (Arc.igrid I).
  Hypothesis Hloop : no_depot_loop st.
  Hypothesis Hdep : nlo (Path.node_at (pg st) O) = 0.

  Definition plan_of (R : list (list nat)) : list (list nat * list Arc.nt) :=
    map (fun r => (interior r,
                   (O, 0) :: combine (interior r ++ [O]) (arrivals (pg st) 0 O (interior r ++ [O])))) R.

  Lemma depot_window : Arc.win_lo (pg st) 0 <= 0 /\ ext_le (Fin 0) (Arc.win_hi (pg st) 0).
  Proof.
    unfold Arc.win_lo, Arc.win_hi, Arc.node_at. pose proof Hdep as Hd. unfold Path.node_at in Hd.
    split; [lia|].
    destruct (nth_in_or_default 0 (nodes (pg st)) dummy_node) as [Hin|Hd0].
    - pose proof (inv_windows _ HI _ Hin) as Hw. rewrite Hd in Hw. exact Hw.
    - rewrite Hd0. simpl. unfold ext_le. lia.
  Qed.

  Theorem arc_of_partition R :
    grid_complete st (Arc.igrid I) -> partition st R ->
    exists x, arc_solution I x (total_cost st R).
  Proof.
    intros [H0grid Hgc] HR.
    destruct (partition_served st R HI HR) as (_ & _ & Hperm).
    pose proof HR as (_ & Hval & _). rewrite Forall_forall in Hval.
    pose proof (C05.C05_complete I (plan_of R)) as Hc. rewrite Hg in Hc.
    specialize (Hc Hgrid (inv_keys _ HI)).
    assert (Hplan : Forall (fun p : list nat * list Arc.nt =>
               fst p <> [] /\ Arc_ref.vrptw_route (pg st) (fst p) = Some (snd p) /\
               (forall q, In q (snd p) -> In (snd q) (Arc.igrid I))) (plan_of R)).
    { unfold plan_of. apply Forall_forall. intros p Hp. apply in_map_iff in Hp. destruct Hp as (r & <- & Hr).
      pose proof (Hval r Hr) as Hv. cbn [fst snd].
      split; [apply (interior_nonempty st r Hloop Hv)|].
      pose proof (valid_route_shape st r Hv) as Es.
      destruct Hv as (_ & _ & _ & _ & _ & Ha & Ht & _). rewrite Es in Ha, Ht. cbn [tl] in Ha, Ht.
      split.
      - unfold Arc_ref.vrptw_route. rewrite (path_eta (pg st) _ _ _ Ha Ht). reflexivity.
      - intros q [<-|Hq]; [exact H0grid|]. apply In_combine_snd in Hq.
        pose proof (Hgc r (Hval r Hr)) as Hall. rewrite Es in Hall. cbn [tl] in Hall.
        rewrite Forall_forall in Hall. apply Hall; exact Hq. }
    specialize (Hc Hplan).
    assert (Hcust : Permutation (concat (map fst (plan_of R))) (seq 1 (length (nodes (pg st)) - 1))).
    { unfold plan_of. rewrite map_map. cbn [fst]. exact Hperm. }
    specialize (Hc Hcust depot_window). cbv zeta in Hc.
    destruct Hc as (Hb & Hl & HA & Hobj & _).
    eexists. split; [exact Hl|]. split; [exact Hb|]. split; [exact HA|].
    rewrite Hobj, sumz_sumZ. unfold total_cost, plan_of. rewrite map_map. cbn [fst].
    f_equal. apply map_ext_in. intros r Hr. rewrite arc_route_cost.
    rewrite (valid_route_shape st r (Hval r Hr)) at 2. reflexivity.
  Qed.

  (* ====================================================================== *)
  (* 3. feasible vectors give partitions (C05_sound, C05_project)            *)
  (* ====================================================================== *)
  Hypothesis Hpos : Arc_routes.pos_cc I.
  Hypothesis Hcap : capacity_free st.

  Notation csof := (fun r : list Arc.var => map Arc.dnode (removelast r)).

  Lemma piece_parts r : Arc_routes.piece r ->
    r = removelast r ++ [last r (O, 0, O, 0)] /\ Arc.dnode (last r (O, 0, O, 0)) = O /\
    Forall (fun m => Arc.dnode m <> O) (removelast r).
  Proof.
    destruct r as [|a rest]; [intros []|]. intros (_ & Hl & Hf).
    split; [apply app_removelast_last; discriminate|]. split; [|exact Hf].
    rewrite Arc_routes.last_cons_default. exact Hl.
  Qed.

  Lemma cnt_dnode (l : list Arc.var) k :
    Arc_facts.cnt (Arc_facts.into_node k) l = count_occ Nat.eq_dec (map Arc.dnode l) k.
  Proof.
    unfold Arc_facts.cnt, Arc_facts.into_node. induction l as [|m l IH]; [reflexivity|].
    cbn [filter map count_occ]. destruct (Nat.eqb_spec (Arc.dnode m) k) as [E|E].
    - destruct (Nat.eq_dec (Arc.dnode m) k); [|contradiction]. simpl. rewrite IH. reflexivity.
    - destruct (Nat.eq_dec (Arc.dnode m) k); [contradiction|]. exact IH.
  Qed.

  Lemma cnt_piece r k : Arc_routes.piece r -> k <> O ->
    count_occ Nat.eq_dec (csof r) k = Arc_facts.cnt (Arc_facts.into_node k) r.
  Proof.
    intros Hp Hk. destruct (piece_parts r Hp) as (Er & Hl & _).
    rewrite cnt_dnode. rewrite Er at 2. rewrite map_app, count_occ_app. cbn [map count_occ].
    rewrite Hl. destruct (Nat.eq_dec 0 k); [congruence|]. lia.
  Qed.

  Lemma cnt_routes routes k : Forall Arc_routes.piece routes -> k <> O ->
    count_occ Nat.eq_dec (concat (map csof routes)) k = Arc_facts.cnt (Arc_facts.into_node k) (concat routes).
  Proof.
    intros Hp Hk. induction Hp as [|r routes Hr _ IH]; [reflexivity|].
    cbn [map concat]. rewrite count_occ_app, IH, (cnt_piece r k Hr Hk).
    unfold Arc_facts.cnt. rewrite filter_app, app_length. reflexivity.
  Qed.

  Lemma valid_move_range m : Arc_facts.valid_move I m -> (Arc.dnode m < num_nodes st)%nat.
  Proof.
    destruct m as [[[i s] j] t]. intros (a & Ea & _). rewrite Hg in Ea.
    apply Arc_facts.dict_get_In in Ea.
    destruct (Arc_facts.Inv_wf _ HI) as [_ Hwf]. destruct (Hwf _ _ Ea) as [_ H2]. exact H2.
  Qed.

  (* with the witness: the selected variables split into depot-to-depot chains (C05_sound) whose node lists
     are the routes of the partition *)
  Theorem partition_of_arc_routes x v :
    arc_solution I x v ->
    exists routes : list (list Arc.var),
      Permutation (Arc.selected I x) (concat routes) /\ Forall Arc_routes.sroute routes /\
      partition st (map moves_route routes) /\ total_cost st (map moves_route routes) = v.
  Proof.
    intros (Hl & Hb & HA & Hv).
    destruct (C05.C05_sound I x ltac:(rewrite Hg; exact HI) Hgrid Hpos Hl Hb HA)
      as (routes & Hperm & Hsr & Hvm & Hcnt).
    rewrite Hg in Hcnt.
    assert (Hpiece : Forall Arc_routes.piece routes).
    { eapply Forall_impl; [|exact Hsr]. intros r [Hp _]. exact Hp. }
    rewrite Forall_forall in Hsr, Hvm.
    assert (Hvmr : forall r, In r routes -> Forall (Arc_facts.valid_move I) r).
    { intros r Hr. apply Forall_forall. intros m Hm. apply Hvm. apply in_concat. exists r. auto. }
    set (css := map csof routes).
    (* customers on the routes *)
    assert (Hin_cs : forall r c, In r routes -> In c (csof r) -> (1 <= c < num_nodes st)%nat).
    { intros r c Hr Hc. apply in_map_iff in Hc. destruct Hc as (m & <- & Hm).
      destruct (piece_parts r (proj1 (Hsr r Hr))) as (Er & _ & Hnz). rewrite Forall_forall in Hnz.
      pose proof (Hnz m Hm) as H0.
      assert (Hmr : In m r) by (rewrite Er; apply in_or_app; left; exact Hm).
      pose proof (valid_move_range m (proj1 (Forall_forall _ _) (Hvmr r Hr) m Hmr)). lia. }
    assert (Hcount : forall k, (count_occ Nat.eq_dec (concat css) k <= 1)%nat /\
                               ((1 <= k < num_nodes st)%nat -> count_occ Nat.eq_dec (concat css) k = 1%nat)).
    { intros k.
      assert (H1 : (1 <= k < num_nodes st)%nat -> count_occ Nat.eq_dec (concat css) k = 1%nat).
      { intros Hk. unfold css. rewrite (cnt_routes routes k Hpiece) by lia. apply Hcnt. exact Hk. }
      split; [|exact H1].
      destruct (in_dec Nat.eq_dec k (concat css)) as [Hin|Hout].
      - apply in_concat in Hin. destruct Hin as (l & Hlc & Hkl). apply in_map_iff in Hlc.
        destruct Hlc as (r & <- & Hr). rewrite H1; [lia|]. apply (Hin_cs r k Hr Hkl).
      - apply (count_occ_not_In Nat.eq_dec) in Hout. lia. }
    assert (Hne : forall r, In r routes -> csof r <> []).
    { intros r Hr E. destruct (Hsr r Hr) as [Hp Ho]. destruct (piece_parts r Hp) as (_ & Hld & _).
      apply map_eq_nil in E.
      destruct r as [|a rest]; [destruct Hp|].
      destruct rest as [|b rest]; [|simpl in E; discriminate].
      cbn [last] in Hld.
      pose proof (proj1 (Forall_forall _ _) (Hvmr _ Hr) a (or_introl eq_refl)) as Hva.
      destruct a as [[[i s] j] t]. cbn in Ho, Hld. subst i j.
      destruct Hva as (a0 & Ea0 & _). rewrite Hg in Ea0.
      unfold no_depot_loop, dict_mem in Hloop. rewrite Ea0 in Hloop. discriminate. }
    (* every route is a valid route of the VRPTW *)
    assert (Hvalid : forall r, In r routes -> valid_route st (O :: csof r ++ [O]) /\
                       route_cost (pg st) (O :: csof r ++ [O]) = sumZ (map (Arc_facts.move_cost I) r)).
    { intros r Hr.
      destruct (C05.C05_project I r (Hsr r Hr) (Hvmr r Hr)) as (vs & Hroute & Hcost & _).
      { rewrite Hg. unfold Arc.win_lo, Arc.node_at. unfold Path.node_at in Hdep. rewrite Hdep. lia. }
      rewrite Hg in Hroute, Hcost. split.
      - unfold Arc_ref.vrptw_route in Hroute.
        destruct (Arc_ref.eta (pg st) 0 0 (csof r ++ [O])) as [vs'|] eqn:Ee; [|discriminate].
        destruct (eta_path _ _ _ _ _ Ee) as [Ha Ht].
        unfold valid_route. cbn [tl].
        assert (Eint : interior (O :: csof r ++ [O]) = csof r) by (unfold interior; cbn [tl]; apply removelast_last).
        rewrite Eint.
        split; [simpl; rewrite app_length; simpl; lia|]. split; [reflexivity|].
        split; [apply last_wrap|].
        assert (Hn0 : ~ In O (csof r)).
        { intros H0. pose proof (Hin_cs r O Hr H0). lia. }
        assert (Hnd : NoDup (csof r)).
        { apply (NoDup_count_occ Nat.eq_dec). intros c. pose proof (proj1 (Hcount c)) as Hle.
          apply in_split in Hr. destruct Hr as (l1 & l2 & E). unfold css in Hle.
          rewrite E, map_app, concat_app in Hle. cbn [map concat] in Hle. rewrite !count_occ_app in Hle. lia. }
        split; [exact Hnd|]. split; [exact Hn0|].
        split; [exact Ha|]. split; [exact Ht|apply Hcap; assumption].
      - cbn [route_cost]. rewrite <- arc_route_cost, Hcost, sumz_sumZ. f_equal. apply map_ext.
        intros m. unfold Arc_facts.move_cost. rewrite Hg. reflexivity. }
    exists routes. split; [exact Hperm|]. split; [apply Forall_forall; exact Hsr|].
    replace (map moves_route routes) with (map (fun l => O :: l ++ [O]) css)
      by (unfold css; rewrite map_map; reflexivity).
    assert (HvalR : Forall (valid_route st) (map (fun l => O :: l ++ [O]) css)).
    { apply Forall_forall. intros r' Hr'. apply in_map_iff in Hr'. destruct Hr' as (l & <- & Hlc).
      apply in_map_iff in Hlc. destruct Hlc as (r & <- & Hr). apply Hvalid; exact Hr. }
    assert (Hserved : served (map (fun l => O :: l ++ [O]) css) = concat css).
    { unfold served. rewrite map_map. f_equal. rewrite <- (map_id css) at 2. apply map_ext. intros l.
      unfold interior. cbn [tl]. apply removelast_last. }
    split; [split; [|split]|].
    - apply NoDup_map_injective.
      + intros a b E. inversion E as [E1]. apply app_inv_tail in E1. exact E1.
      + apply NoDup_of_concat.
        * apply (NoDup_count_occ Nat.eq_dec). intros c. apply Hcount.
        * apply Forall_forall. intros l Hlc. apply in_map_iff in Hlc. destruct Hlc as (r & <- & Hr). apply Hne; exact Hr.
    - exact HvalR.
    - intros k Hk. rewrite (visits_count st _ k HvalR) by lia. rewrite Hserved.
      rewrite (proj2 (Hcount k) Hk). reflexivity.
    - unfold total_cost, css. rewrite !map_map.
      rewrite (map_ext_in _ (fun r => sumZ (map (Arc_facts.move_cost I) r))) by (intros r Hr; apply Hvalid; exact Hr).
      rewrite <- sumZ_concat. rewrite <- (sumZ_map_perm _ _ _ Hperm).
      rewrite <- Hv, (C05.C05_objective I x Hl Hb). symmetry. apply sumz_sumZ.
  Qed.

  Theorem partition_of_arc x v :
    arc_solution I x v -> exists R, partition st R /\ total_cost st R = v.
  Proof.
    intros Hx. destruct (partition_of_arc_routes x v Hx) as (routes & _ & _ & HR & Hc).
    exists (map moves_route routes). split; assumption.
  Qed.
End ArcView.

(* same attained costs: equal feasibility and equal optimal values *)
Theorem arc_equiv st I v :
  Arc.ig I = pg st -> Inv (pg st) -> NoDup (Arc.igrid I) -> no_depot_loop st ->
  nlo (Path.node_at (pg st) O) = 0 -> Arc_routes.pos_cc I -> capacity_free st ->
  grid_complete st (Arc.igrid I) ->
  ((exists x, arc_solution I x v) <-> (exists R, partition st R /\ total_cost st R = v)).
Proof.
  intros Hg HI Hgrid Hloop Hdep Hpos Hcap Hgc. split.
  - intros (x & Hx). eapply partition_of_arc; eauto.
  - intros (R & HR & Hc). rewrite <- Hc. eapply arc_of_partition; eauto.
Qed.
